import CogentModel.Gen.C12Tables
/-!
# C12 — hand model of cogent3's translation / complement machinery

Mirrors the *code* (not what it should do) of

* `core/genetic_code.py`      `GeneticCode.__getitem__`, `translate`, `sixframes`           (`old…`)
* `core/new_alphabet.py`      `CharAlphabet.to_indices` (byte table), `seq_to_kmer_indices`,
                              `KmerAlphabet.to_index`, `KmerAlphabet.to_indices` (result dtype = `self.dtype`),
                              `convert_alphabet` (bytes.maketrans / bytes.translate)
* `core/new_genetic_code.py`  `GeneticCode.__post_init__` (codons, anticodons, the two converters),
                              `__getitem__`, `translate(start, rc)`, `sixframes`             (`new…`)
* `core/moltype.py`           `MolType.__init__` (ambiguities), `complement`, `rc`, `resolve_ambiguity`
                              (single symbol), `_what_ambiguity`
* `core/new_moltype.py`       `MolType.__post_init__` (complement converter), `complement`, `rc`,
                              `resolve_ambiguity` (single symbol), `degenerate_from_seq`
* `core/sequence.py` / `core/new_sequence.py`  `has_terminal_stop`, `trim_stop_codon`, `get_translation`
                              for gap-free sequences

The data tables come from `Gen/C12Tables.lean`, regenerated from the source on every run.
Strings are `List Char`; sets are duplicate-free lists sorted by code point.
-/
namespace CogentModel.GC
open CogentModel.C12Tables

/-! ## helpers -/

/-- first match in an association list, with default -/
def lookupD {α β} [DecidableEq α] : List (α × β) → α → β → β
  | [], _, d => d
  | (a, b) :: r, k, d => if a = k then b else lookupD r k d

/-- `dict(zip(keys, vals)).get(k, d)` / `bytes.maketrans`: a later duplicate key wins -/
def dictGet {α β} [DecidableEq α] (kvs : List (α × β)) (k : α) (d : β) : β :=
  lookupD kvs.reverse k d

def enumFrom {α} : Nat → List α → List (α × Nat)
  | _, [] => []
  | n, a :: r => (a, n) :: enumFrom (n + 1) r

def product3 (bs : List Char) : List (List Char) :=
  bs.flatMap fun a => bs.flatMap fun b => bs.map fun c => [a, b, c]

/-- ASCII `str.upper()` -/
def upperChar (c : Char) : Char :=
  if 97 ≤ c.toNat ∧ c.toNat ≤ 122 then Char.ofNat (c.toNat - 32) else c

/-- insertion into a sorted duplicate-free list (sets as canonical lists) -/
def sinsert (c : Char) : List Char → List Char
  | [] => [c]
  | x :: r => if c.toNat < x.toNat then c :: x :: r else if c = x then x :: r else x :: sinsert c r

def toSet (xs : List Char) : List Char := xs.foldr sinsert []

def subset (a b : List Char) : Bool := a.all fun x => b.contains x

inductive Err where
  | valueError | alphabetError | invalidCodon
  deriving DecidableEq, Repr

deriving instance DecidableEq for Except

/-- the IUPAC symbols of a molecular type: canonical characters, gap, degenerate symbols, missing -/
def subsets : List Char → List (List Char)
  | [] => [[]]
  | a :: r => subsets r ++ (subsets r).map (a :: ·)

/-! ## molecular types (tables generated from the source) -/

structure MT where
  chars : List Char
  gap : Char
  missing : Char
  ambig : List (Char × List Char)
  compl : List (Char × Char)

def oldDna : MT := ⟨oldDnaChars, oldGap, oldMissing, oldDnaAmbig, oldDnaCompl⟩
def oldRna : MT := ⟨oldRnaChars, oldGap, oldMissing, oldRnaAmbig, oldRnaCompl⟩
def newDna : MT := ⟨newDnaChars, newGap, newMissing, newDnaAmbig, newDnaCompl⟩
def newRna : MT := ⟨newRnaChars, newGap, newMissing, newRnaAmbig, newRnaCompl⟩

/-! ### old `moltype.MolType` -/

/-- `str.translate(maketrans(keys, values))`: characters that are not keys are unchanged -/
def oldComplChar (mt : MT) (c : Char) : Char := dictGet mt.compl c c
def oldComplement (mt : MT) (s : List Char) : List Char := s.map (oldComplChar mt)
def oldRc (mt : MT) (s : List Char) : List Char := (oldComplement mt s).reverse

/-- `self.ambiguities` as built by `MolType.__init__` (dict insertion order; updates keep the position) -/
def dictSet {α β} [DecidableEq α] : List (α × β) → α → β → List (α × β)
  | [], k, v => [(k, v)]
  | (a, b) :: r, k, v => if a = k then (a, v) :: r else (a, b) :: dictSet r k v

def oldAmbiguities (mt : MT) : List (Char × List Char) :=
  let d0 : List (Char × List Char) := dictSet [(mt.missing, mt.chars ++ [mt.gap])] mt.gap [mt.gap]
  let d1 := mt.ambig.foldl (fun d kv => dictSet d kv.1 kv.2) d0
  mt.chars.foldl (fun d c => dictSet d c [c]) d1

/-- `resolve_ambiguity(sym)` for a one-character motif, `alphabet=None`, `allow_gap=False` -/
def oldResolve (mt : MT) (sym : Char) : Except Err (List Char) :=
  if mt.chars.contains sym then .ok [sym]
  else
    let amb := dictSet (oldAmbiguities mt) mt.missing
      ((lookupD (oldAmbiguities mt) mt.missing []).filter (· ≠ mt.gap))
    match amb.find? (·.1 = sym) with
    | none => .error .alphabetError
    | some (_, r) =>
      let res := r.filter fun e => mt.chars.contains e
      if res.isEmpty then .error .alphabetError else .ok res

/-- the loop of `_what_ambiguity`: the first code (dict order) of minimal size containing all motifs -/
def oldWhatLoop (motifs : List Char) : List (Char × List Char) → Nat → Char → Char
  | [], _, res => res
  | (code, m2) :: r, best, res =>
    if subset motifs m2 && decide (m2.length < best) then oldWhatLoop motifs r m2.length code
    else oldWhatLoop motifs r best res

def oldWhatAmbiguity (mt : MT) (motifs : List Char) : Char :=
  oldWhatLoop (toSet motifs) (oldAmbiguities mt) (mt.chars.length + 1) mt.missing

/-! ### new `new_moltype.MolType` -/

def newDegenGapped (mt : MT) : List Char := mt.chars ++ [mt.gap] ++ mt.ambig.map (·.1) ++ [mt.missing]

/-- `convert_alphabet(degen_gapped_alphabet, complements[c] for c in degen_gapped_alphabet)` -/
def newComplChar (mt : MT) (c : Char) : Char :=
  dictGet ((newDegenGapped mt).map fun k => (k, lookupD mt.compl k k)) c c
def newComplement (mt : MT) (s : List Char) : List Char := s.map (newComplChar mt)
def newRc (mt : MT) (s : List Char) : List Char := (newComplement mt s).reverse

def newIsValid (mt : MT) (s : List Char) : Bool := s.all fun c => (newDegenGapped mt).contains c

/-- `resolve_ambiguity(sym)`, one-character motif, `alphabet=None`, `allow_gap=False`; result as a set -/
def newResolve (mt : MT) (sym : Char) : Except Err (List Char) :=
  if !newIsValid mt [sym] then .error .alphabetError
  else if mt.chars.contains sym then .ok [sym]
  else
    let amb0 : List (Char × List Char) := mt.ambig
    let amb1 := dictSet amb0 mt.gap [mt.gap]
    let amb2 := dictSet amb1 mt.missing (mt.chars ++ [mt.gap])
    let amb3 := mt.chars.foldl (fun d c => dictSet d c [c]) amb2
    let amb4 := dictSet amb3 '?' ((lookupD amb3 '?' []).filter (· ≠ mt.gap))
    match amb4.find? (·.1 = sym) with
    | none => .error .alphabetError
    | some (_, r) =>
      let res := r.filter fun e => mt.chars.contains e
      if res.isEmpty then .error .alphabetError else .ok (toSet res)

/-- `degenerate_from_seq` -/
def newDegenerateFromSeq (mt : MT) (seq : List Char) : Char :=
  let symbols := toSet seq
  match symbols with
  | [c] => c
  | _ =>
    -- degens[d2] ∪= {d1} whenever ambiguities[d1] ⊆ ambiguities[d2]
    let degens : List (Char × List Char) := mt.ambig.map fun (d2, cs2) =>
      (d2, toSet (cs2 ++ (mt.ambig.filter fun (_, cs1) => subset cs1 cs2).map (·.1)))
    let inv0 : List (List Char × Char) := degens.foldl (fun d (k, v) => dictSet d v k) []
    let inv1 := dictSet inv0 [mt.gap] mt.gap
    let inv2 := dictSet inv1 (toSet (newDegenGapped mt)) mt.missing
    match inv2.find? (·.1 = symbols) with
    | some (_, r) => r
    | none =>
      -- sorted(key=len) is stable: the first candidate of minimal size
      let enc := (inv2.filter fun (cs, _) => subset symbols cs)
      let best := enc.foldl (fun (b : Option (List Char × Char)) e =>
        match b with
        | none => some e
        | some b' => if e.1.length < b'.1.length then some e else some b') none
      match best with
      | some (_, r) => r
      | none => mt.missing   -- (python raises IndexError; unreachable: the full alphabet always encompasses)

/-! ## old `genetic_code.GeneticCode` -/

def oldBases : List Char := ['T', 'C', 'A', 'G']

def oldKey (codon : List Char) : List Char :=
  (codon.map upperChar).map fun c => if c = 'U' then 'T' else c

/-- `self[codon]` for a 3-character item: `self.codons.get(key, "X")`, `codons = dict(zip(_codons, code_sequence))` -/
def oldGetItem (seq : List Char) (codon : List Char) : Char :=
  dictGet ((product3 oldBases).zip seq) (oldKey codon) 'X'

/-- `[self[dna[i:i+3]] for i in range(start, len(dna) - 2, 3)]` on the text from `start` on -/
def oldCodons (seq : List Char) : List Char → List Char
  | a :: b :: c :: rest => oldGetItem seq [a, b, c] :: oldCodons seq rest
  | _ => []

def oldTranslate (seq : List Char) (dna : List Char) (start : Nat) : Except Err (List Char) :=
  if dna.isEmpty then .ok []
  else if start + 1 > dna.length then .error .valueError
  else .ok (oldCodons seq (dna.drop start))

/-- `sixframes(dna)`; `dna.rc()` is the sequence-level reverse complement (moltype table) -/
def oldSixframes (mt : MT) (seq : List Char) (dna : List Char) : Except Err (List (List Char)) := do
  let rev := oldRc mt dna
  let a ← [0, 1, 2].mapM (oldTranslate seq dna)
  let b ← [0, 1, 2].mapM (oldTranslate seq rev)
  pure (a ++ b)

/-! ## new `new_genetic_code.GeneticCode` over `new_alphabet.KmerAlphabet` -/

/-- `moltype.gapped_alphabet.with_gap_motif()`: canonical characters, gap, missing -/
def newMonomers (mt : MT) : List Char := mt.chars ++ [mt.gap, mt.missing]

/-- `CharAlphabet.to_indices(str)`: byte table; a character outside the alphabet keeps its byte value -/
def monoIdx (alpha : List Char) (c : Char) : Nat := dictGet (enumFrom 0 alpha) c c.toNat

/-- one iteration of `seq_to_kmer_indices` (k = 3): `ns` canonical states, `gci` = index of the gap
character (`monomers.gap_index or -1`, here never 0), `gi` = index of the gap k-mer -/
def kmerIdx (ns gci gi : Nat) (a b c : Nat) : Nat :=
  if a < ns ∧ b < ns ∧ c < ns then ns * ns * a + ns * b + c
  else if 0 < gci ∧ max a (max b c) = gci then gi
  else if 0 < gci then gi + 1 else ns * ns * ns

/-- `for i in range(0, len(seq) - k + 1, k)` -/
def toIndices (ns gci gi : Nat) : List Nat → List Nat
  | a :: b :: c :: rest => kmerIdx ns gci gi a b c :: toIndices ns gci gi rest
  | _ => []

/-- `get_array_type(num_elements)` as a byte width -/
def byteWidth (n : Nat) : Nat :=
  if n < 256 then 1 else if n < 65536 then 2 else if n < 4294967296 then 4 else 8

/-- `ndarray.tobytes()` of one little-endian element (all k-mer indices are ≤ 65 < 256) -/
def leBytes (w : Nat) (x : Nat) : List Nat := x :: List.replicate (w - 1) 0

structure NewGC where
  ns : Nat
  gci : Nat
  gi : Nat
  alpha : List Char          -- monomer alphabet of the trinucleotide alphabet
  words : List (List Char)   -- self.codons
  anti : List (List Char)    -- self.anticodons
  codeSeq : List Char        -- ncbi_code_sequence + "-X"

def mkNewGC (mt : MT) (seq : List Char) : NewGC :=
  let alpha := newMonomers mt
  let words := product3 mt.chars ++ [[mt.gap, mt.gap, mt.gap], [mt.missing, mt.missing, mt.missing]]
  { ns := mt.chars.length
    gci := mt.chars.length            -- index of the gap character in `alpha`
    gi := (product3 mt.chars).length  -- index of the gap motif in `words`
    alpha := alpha
    words := words
    anti := words.map (newRc mt)
    codeSeq := seq ++ ['-', 'X'] }

/-- `KmerAlphabet.to_index(str)` -/
def NewGC.toIndex (g : NewGC) (w : List Char) : Nat :=
  match w.map (monoIdx g.alpha) with
  | [a, b, c] =>
    if a < g.ns ∧ b < g.ns ∧ c < g.ns then g.ns * g.ns * a + g.ns * b + c
    else if max a (max b c) = g.gci then g.gi else g.gi + 1
  | _ => 0   -- (assert len(seq) == k)

/-- `convert_alphabet(src, dest)(bytes)` on one byte, decoded -/
def convByte (src : List Nat) (dest : List Char) (b : Nat) : Char :=
  dictGet (src.zip dest) b (Char.ofNat b)

def NewGC.plus (g : NewGC) (b : Nat) : Char := convByte (g.words.map g.toIndex) g.codeSeq b
def NewGC.minus (g : NewGC) (b : Nat) : Char := convByte (g.anti.map g.toIndex) g.codeSeq b

/-- `translate(dna, start, rc)` for a `str`: slice, truncate, index, bytes, byte-translate, (reverse) -/
def NewGC.translateIdx (g : NewGC) (idx : List Nat) (rc : Bool) : List Char :=
  -- `KmerAlphabet.to_indices` allocates its result with `self.dtype = get_array_type(len(self))`:
  -- the width depends on the number of k-mer states (words), not on the sequence
  let bytes := idx.flatMap (leBytes (byteWidth g.words.length))
  if rc then (bytes.map g.minus).reverse else bytes.map g.plus

def trunc3 (d : List Char) : List Char :=
  if d.length % 3 ≠ 0 then d.take (d.length - d.length % 3) else d

def NewGC.translateWith (g : NewGC) (alpha : List Char) (dna : List Char) (start : Nat) (rc : Bool) : List Char :=
  let d1 := if start ≠ 0 then dna.drop start else dna
  let d2 := trunc3 d1
  let idx := toIndices g.ns g.gci g.gi (d2.map (monoIdx alpha))
  g.translateIdx idx rc

def newTranslate (mt : MT) (seq : List Char) (dna : List Char) (start : Nat) (rc : Bool) : List Char :=
  let g := mkNewGC mt seq
  g.translateWith g.alpha dna start rc

/-- `sixframes`: `(strand is minus, start, translation)` in the order of `itertools.product(("+","-"), range(3))` -/
def newSixframes (mt : MT) (seq : List Char) (dna : List Char) : List (Bool × Nat × List Char) :=
  [false, true].flatMap fun rc => [0, 1, 2].map fun k => (rc, k, newTranslate mt seq dna k rc)

/-- new `__getitem__` for a 3-character item -/
def newGetItem (mt : MT) (seq : List Char) (codon : List Char) : Char :=
  let g := mkNewGC mt seq
  dictGet (g.words.zip g.codeSeq) (oldKey codon) 'X'

/-! ## sequence level: `has_terminal_stop`, `trim_stop_codon`, `get_translation` (gap-free sequences) -/

def lastN (n : Nat) (s : List Char) : List Char := s.drop (s.length - n)

/-- `gc.is_stop(s[-3:])` inside `has_terminal_stop`: an item of length 1 answers with a list (never `== "*"`),
any other length than 3 raises InvalidCodonError -/
def isStopEnd (getItem : List Char → Char) (end3 : List Char) : Except Err Bool :=
  if end3.length = 1 then .ok false
  else if end3.length ≠ 3 then .error .invalidCodon
  else .ok (getItem end3 = '*')

def hasTerminalStop (getItem : List Char → Char) (s : List Char) (strict : Bool) : Except Err Bool :=
  if s.length % 3 = 0 then isStopEnd getItem (lastN 3 s)
  else if strict then .error .alphabetError else .ok false

/-- `trim_stop_codon` on a gap-free sequence (`self[:-3]` branch) -/
def trimStopCodon (getItem : List Char → Char) (s : List Char) (strict : Bool) : Except Err (List Char) := do
  let h ← hasTerminalStop getItem s strict
  if !h then pure s
  else pure (s.take (s.length - 3))

/-- new `Sequence.get_translation`; the sequence array is in the moltype's most degenerate gapped alphabet -/
def newSeqGetTranslation (mt : MT) (seq : List Char) (s : List Char)
    (incompleteOk includeStop trimStop : Bool) : Except Err (List Char) := do
  let g := mkNewGC mt seq
  let s1 ← if trimStop then trimStopCodon (newGetItem mt seq) s (!incompleteOk) else pure s
  let pep := g.translateWith (newDegenGapped mt) s1 0 false
  if !includeStop && pep.contains '*' then throw .alphabetError
  if !incompleteOk && (pep.contains '-' || pep.contains 'X') then throw .alphabetError
  pure pep

/-- old `Sequence.get_translation` restricted to canonical gap-free sequences: every codon is in the
codon alphabet or is a stop; `resolve_ambiguity` of a stop codon outside the sense alphabet raises -/
def oldSeqCodons (seq : List Char) (includeStop : Bool) : List Char → Except Err (List Char)
  | a :: b :: c :: rest => do
    let aa := oldGetItem seq [a, b, c]
    if aa = '*' && !includeStop then throw .alphabetError
    let r ← oldSeqCodons seq includeStop rest
    pure (aa :: r)
  | _ => pure []

def oldSeqGetTranslation (seq : List Char) (s : List Char)
    (incompleteOk includeStop trimStop : Bool) : Except Err (List Char) := do
  let s1 ← if includeStop || !trimStop then pure s
           else trimStopCodon (oldGetItem seq) s (!incompleteOk)
  oldSeqCodons seq includeStop s1

/-! ## collection level (`core/alignment.py` `_SequenceCollectionBase`, `AlignmentI`; `core/new_alignment.py`
`SequenceCollection`), rows = gap-free sequences -/

/-- `has_terminal_stop` of a collection: `for seq in seqs: if seq.has_terminal_stop(gc, strict): return True`;
the first row that answers True ends the loop, a strict length error of an earlier row propagates -/
def collHasTerminalStop (getItem : List Char → Char) : List (List Char) → Bool → Except Err Bool
  | [], _ => .ok false
  | r :: rs, strict =>
    match hasTerminalStop getItem r strict with
    | .error e => .error e
    | .ok true => .ok true
    | .ok false => collHasTerminalStop getItem rs strict

/-- `SequenceCollection.trim_stop_codons` (old `_SequenceCollectionBase`, new): unchanged when no row has a terminal
stop, otherwise every row is trimmed individually -/
def collTrimStopCodons (getItem : List Char → Char) (rows : List (List Char)) (strict : Bool) :
    Except Err (List (List Char)) :=
  match collHasTerminalStop getItem rows strict with
  | .error e => .error e
  | .ok false => .ok rows
  | .ok true => rows.mapM fun r => trimStopCodon getItem r strict

/-- one row of `AlignmentI.trim_stop_codons`: the regex `(stop1|stop2|…)[gaps]*$` on a gap-free row matches exactly
when its last three characters are a stop codon; the match is replaced by gaps (the row keeps its length) -/
def alnTrimRow (getItem : List Char → Char) (r : List Char) : List Char :=
  if 3 ≤ r.length ∧ getItem (lastN 3 r) = '*' then r.take (r.length - 3) ++ ['-', '-', '-'] else r

def alnTrimStopCodons (getItem : List Char → Char) (rows : List (List Char)) (strict : Bool) :
    Except Err (List (List Char)) :=
  match collHasTerminalStop getItem rows strict with
  | .error e => .error e
  | .ok false => .ok rows
  | .ok true => .ok (rows.map (alnTrimRow getItem))

/-- old `_SequenceCollectionBase.get_translation` (SequenceCollection): pre-pass `seqs = trim_stop_codons(gc, strict)` when
`trim_stop and not include_stop`, then `seq.get_translation(gc, incomplete_ok=True, include_stop, trim_stop and seqs is self)`
per row (since 8fbe3611a; `trim_stop_codons` returns `self` exactly when `has_terminal_stop` answers False) -/
def oldCollGetTranslation (seq : List Char) (rows : List (List Char)) (io is_ ts : Bool) :
    Except Err (List (List Char)) :=
  if ts && !is_ then
    match collHasTerminalStop (oldGetItem seq) rows (!io), collTrimStopCodons (oldGetItem seq) rows (!io) with
    | .error e, _ => .error e
    | _, .error e => .error e
    | .ok h, .ok rows1 => rows1.mapM fun r => oldSeqGetTranslation seq r true is_ (ts && !h)
  else rows.mapM fun r => oldSeqGetTranslation seq r true is_ ts

/-- new `SequenceCollection.get_translation`: `seq.get_translation(gc, incomplete_ok, include_stop, trim_stop)` per row -/
def newCollGetTranslation (mt : MT) (seq : List Char) (rows : List (List Char)) (io is_ ts : Bool) :
    Except Err (List (List Char)) :=
  rows.mapM fun r => newSeqGetTranslation mt seq r io is_ ts

end CogentModel.GC
