import CogentModel.Model.GeneticCode
/-!
# C12 — the DERIVED STATE of a new-style `SequenceCollection` (`core/new_alignment.py` `SeqsData`)

A new-style collection does not store what it displays: `SeqsData` keeps the plus-strand strings (`_data`) and a
dictionary `_reversed_seqs : name → bool`; `coll.rc()` only toggles the flags (`reverse_seqs`), `coll.seqs[name]` is a
view whose string is the moltype reverse complement of the stored string when the flag is set.  The methods C12 is
about (`get_translation`, `trim_stop_codons`, `has_terminal_stop`) work on the DISPLAYED strings of these views and
build a NEW `SeqsData` from the results; whether they pass `reversed_seqs=self.seqs.reversed` to it decides if the
result displays what was computed.  `fwd` is that decision (a parameter: the code before / after
`fixes/C12-new-collection-trim-stop-codons-after-rc.patch`; the seeded change C12-r3m2 for `get_translation`).
Import-free apart from the hand model.
-/
namespace CogentModel.GCS
open CogentModel.GC

/-- `SeqsData`: `_data` (name, stored string) in order, `_reversed_seqs` as an association list -/
structure SD where
  data : List (List Char × List Char)
  rev : List (List Char × Bool)
deriving Repr, DecidableEq

/-- a freshly made collection: nothing is flagged -/
def SD.fresh (rows : List (List Char × List Char)) : SD := ⟨rows, []⟩

/-- `self._reversed_seqs.get(seqid, False)` -/
def SD.isRev (sd : SD) (n : List Char) : Bool := lookupD sd.rev n false

/-- `SeqsData.reverse_seqs()` (all names): `{seqid: not self._reversed_seqs.get(seqid, False) for seqid in self.names}`,
same `_data` — this is all `SequenceCollection.rc()` does -/
def SD.reverseSeqs (sd : SD) : SD := ⟨sd.data, sd.data.map fun p => (p.1, !sd.isRev p.1)⟩

/-- what the collection displays: `str(self.seqs[name])` for every name -/
def SD.display (rcf : List Char → List Char) (sd : SD) : List (List Char × List Char) :=
  sd.data.map fun p => (p.1, if sd.isRev p.1 then rcf p.2 else p.2)

def SD.rows (rcf : List Char → List Char) (sd : SD) : List (List Char) := (sd.display rcf).map (·.2)
def SD.names (sd : SD) : List (List Char) := sd.data.map (·.1)

/-- a history of `n` calls of `rc()` -/
def SD.rcTimes : Nat → SD → SD
  | 0, sd => sd
  | n + 1, sd => SD.rcTimes n sd.reverseSeqs

/-- the new `SeqsData` a method builds from per-row results (`coerce_to_seqs_data_dict(new_seqs)`), with or without
`reversed_seqs=self.seqs.reversed` -/
def SD.rebuilt (sd : SD) (fwd : Bool) (rows : List (List Char)) : SD :=
  ⟨sd.names.zip rows, if fwd then sd.rev else []⟩

/-- new `SequenceCollection.has_terminal_stop`: the loop over the displayed sequences -/
def SD.hasTerminalStop (rcf : List Char → List Char) (getItem : List Char → Char) (sd : SD) (strict : Bool) : Except Err Bool :=
  collHasTerminalStop getItem (sd.rows rcf) strict

/-- new `SequenceCollection.trim_stop_codons`: `self` when no displayed row has a terminal stop, otherwise a new
collection of the individually trimmed displayed rows -/
def SD.trimStopCodons (fwd : Bool) (rcf : List Char → List Char) (getItem : List Char → Char) (sd : SD) (strict : Bool) :
    Except Err SD :=
  match collHasTerminalStop getItem (sd.rows rcf) strict with
  | .error e => .error e
  | .ok false => .ok sd
  | .ok true =>
    match (sd.rows rcf).mapM fun r => trimStopCodon getItem r strict with
    | .error e => .error e
    | .ok rows => .ok (sd.rebuilt fwd rows)

/-- new `SequenceCollection.get_translation`: per displayed row, then a new (protein) `SeqsData`; the protein rows
are displayed as they are unless flags are forwarded (`rcf` of a protein view is the identity in cogent3 only because no
flag is set; a forwarded flag REVERSES the protein string: `prot` is that reversal) -/
def SD.getTranslation (fwd : Bool) (rcf : List Char → List Char) (mt : MT) (seq : List Char) (sd : SD) (io is_ ts : Bool) :
    Except Err SD :=
  match newCollGetTranslation mt seq (sd.rows rcf) io is_ ts with
  | .error e => .error e
  | .ok rows => .ok (sd.rebuilt fwd rows)

end CogentModel.GCS
