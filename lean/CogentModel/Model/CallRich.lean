import CogentModel.Model.CallPrims
/-
  C14 — HAND model of `_call` / `_validate_data_type` / `_add` over the rich value domain of
  `Model/CallPrims.lean` (None, True/False, list/tuple/set data, source proxies), written independently of the
  generated `Gen/C14Call.lean`; `Props/C14Call.lean` proves the generated definitions equal to these for all
  arguments and relates them to `Composable.callChain`.  Import-free (compiled into drv_c14).
-/
namespace CogentModel.CallRich
open CogentModel.Composable CogentModel.CallPrims

/-- class tags of list / set / tuple -/
def builtinSeqs : List Nat := [4, 6, 5]

/-- no type check: no declared types, or SerialisableType (100) / IdentifierType (101) among them -/
def typeCheckOff (s : RStep) : Bool := s.dataTypes.isEmpty || !(inter s.dataTypes [100, 101]).isEmpty

/-- the class-name test on one object -/
def checkClass (s : RStep) (d : PV) : PV :=
  if s.dataTypes.contains d.className then .bool true
  else mkNC "ERROR" s.name [.lit "invalid data type, '", .cls d.className, .lit "' not in ", .types s.dataTypes] d.source

/-- a list / tuple / set is typed by its first element; an empty one is "empty data" -/
def checkData (s : RStep) (d : PV) : PV :=
  match d with
  | .seq c [] => if builtinSeqs.contains c then mkNC "ERROR" s.name [.lit "empty data"] none else checkClass s d
  | .seq c (v :: _) => if builtinSeqs.contains c then checkClass s (.obj v) else checkClass s d
  | _ => checkClass s d

def validateR (s : RStep) (data : PV) : PV :=
  if data.isNC && s.skipNC then data
  else if typeCheckOff s then .bool true
  else checkData s (if data.isProxy then data.proxyObj else data)

/-- try main / except Exception ⇒ ERROR / None ⇒ BUG -/
def runMainR (s : RStep) (v : PV) : PV :=
  let r := match s.main v with
    | .ret r => r
    | .raise t => mkNC "ERROR" s.name [.tb t] v.source
  if r.isNone then mkNC "BUG" s.name [.lit "unexpected output value None"] v.source else r

def afterInputR (s : RStep) (v : PV) : PV :=
  if (validateR s v).truthy then runMainR s v else validateR s v

def callR (s : RStep) (input : Option (PV → PV)) (val : PV) : PV :=
  let v1 := if val.isNone then mkNC "ERROR" s.name [.lit "unexpected input value None"] none else val
  if v1.isNC && s.skipNC then v1
  else if s.kind != .loader && input.isSome then
    if (applyInput input v1).isNC && s.skipNC then applyInput input v1 else afterInputR s (applyInput input v1)
  else afterInputR s v1

/-- a composed app, steps listed from the outermost (last) to the innermost -/
def chainR : List RStep → PV → PV
  | [], v => v
  | s :: rest, v => callR s (if rest.isEmpty then none else some (chainR rest)) v


/-! ### the plain model `Composable` inside the rich domain -/

def embedType : NCType → String
  | .error => "ERROR"
  | .bug => "BUG"
  | .fail => "FAIL"

def projType (s : String) : NCType :=
  if s == "ERROR" then .error else if s == "BUG" then .bug else .fail

def embedMsg : Msg → RMsg
  | .noneIn => [.lit "unexpected input value None"]
  | .noneOut => [.lit "unexpected output value None"]
  | .exc t => [.tb t]
  | .badType ty => [.lit "invalid data type, '", .cls ty, .lit "' not in ", .types []]
  | .user t => [.num t]

/-- forget the list of accepted types in the "invalid data type" text; an unknown text is `.user 0` -/
def projMsg : RMsg → Msg
  | [.lit s] =>
    if s == "unexpected input value None" then .noneIn
    else if s == "unexpected output value None" then .noneOut else .user 0
  | [.tb t] => .exc t
  | [.lit a, .cls ty, .lit b, .types _] =>
    if a == "invalid data type, '" && b == "' not in " then .badType ty else .user 0
  | [.num t] => .user t
  | _ => .user 0

def embedNC (n : NC) : RNC := ⟨embedType n.type, n.origin, embedMsg n.msg, n.source⟩
def projNC (n : RNC) : NC := ⟨projType n.type, n.origin, projMsg n.msg, n.source⟩

def embedVal : Val → PV
  | .ok v => .obj v
  | .nc n => .nc (embedNC n)

def embedOpt : Option Val → PV
  | none => .none
  | some v => embedVal v

def projPV : PV → Option Val
  | .obj v => some (.ok v)
  | .nc n => some (.nc (projNC n))
  | _ => none

def embedOut : Out → ROut
  | .ret r => .ret (.obj r)
  | .raise t => .raise t
  | .retNone => .ret .none
  | .retNC n => .ret (.nc (embedNC n))

/-- a step of the plain model as a rich step (its `main` sees the plain view of the value) -/
def embedStep (s : Step) : RStep :=
  { name := s.name, kind := s.kind, skipNC := s.skipNC, dataTypes := s.accepts, returnTypes := [],
    main := fun pv => match projPV pv with
      | some v => embedOut (s.main v)
      | none => .raise 0 }

/-! ### `_add` -/

def composable (t : Option AppType) : Bool :=
  t == some .loader || t == some .writer || t == some .generic

/-- which `raise` (source order) or connected -/
def addR (self other : AppSig) (same : Bool) : AddResult :=
  if !composable other.appType then .raised "TypeError" 0
  else if other.appType == some .loader then .raised "AttributeError" 99   -- `other.input` does not exist on a loader
  else if other.hasInput then .raised "ValueError" 1
  else if same then .raised "ValueError" 2
  else if self.appType == some .writer then .raised "TypeError" 3
  else if other.appType == some .loader then .raised "TypeError" 4
  else if !(inter self.returnTypes [100, 101]).isEmpty then .connected
  else if self.returnTypes.isEmpty then .raised "TypeError" 5
  else if other.dataTypes.isEmpty then .raised "TypeError" 6
  else if (inter self.returnTypes other.dataTypes).isEmpty then .raised "TypeError" 7
  else .connected

/-- `a + b + c + …` evaluated left to right on distinct, initially unconnected apps: `cur + o` returns `o` -/
def composeFrom (cur : AppSig) : List AppSig → Bool
  | [] => true
  | o :: rest => if addR cur o false = .connected then composeFrom { o with hasInput := true } rest else false

end CogentModel.CallRich
