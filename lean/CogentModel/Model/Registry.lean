/- C10: primitives for the translated deserialiser registry (Gen/C10Registry.lean) and the hand-written reading of the dispatch.
   Import-free (linked into the driver).  Strings are `List Char`. -/
namespace CogentModel.Registry

abbrev Str := List Char

/-- one `@register_deserialiser(key)` line: type string, decorated function, module that registers it -/
structure Entry where
  key : Str
  func : String
  module : String
  deriving DecidableEq, Repr

/-- a class that writes `"type": get_object_provenance(self)` (itself or through a base class) -/
structure Emit where
  typeStr : Str
  cls : String
  via : String
  kind : String
  deriving DecidableEq, Repr

/-- `t.startswith(k)` -/
def isPrefix : Str → Str → Bool
  | [], _ => true
  | _ :: _, [] => false
  | a :: k, b :: t => a == b && isPrefix k t

/-- `k in t` for Python strings -/
def isInfix (k : Str) : Str → Bool
  | [] => isPrefix k []
  | c :: t => isPrefix k (c :: t) || isInfix k t

/-- hand model of the registry loop: the first entry whose key occurs in the type string -/
def firstMatch : List Entry → Str → Option Entry
  | [], _ => none
  | e :: rest, t => if isInfix e.key t then some e else firstMatch rest t

/-- order-free reading of "the intended function": among the entries whose key occurs in the type string, one with the
    longest key (the most specific registration); `none` if no key occurs -/
def bestMatch : List Entry → Str → Option Entry
  | [], _ => none
  | e :: rest, t =>
    match bestMatch rest t with
    | none => if isInfix e.key t then some e else none
    | some b => if isInfix e.key t && decide (b.key.length ≤ e.key.length) then some e else some b

/-- all entries whose key occurs in the type string -/
def matching (tbl : List Entry) (t : Str) : List Entry := tbl.filter (fun e => isInfix e.key t)

/-- the matching entries were all registered by one module (so their relative order is the source order of that module)
    and no two of them have keys of the same length (the most specific one is unique) -/
def oneModuleB (tbl : List Entry) (t : Str) : Bool :=
  match matching tbl t with
  | [] => true
  | e :: rest => rest.all (fun x => x.module == e.module)

def lengthsDistinctB (tbl : List Entry) (t : Str) : Bool :=
  ((matching tbl t).map (fun e => e.key.length)).Nodup

end CogentModel.Registry
