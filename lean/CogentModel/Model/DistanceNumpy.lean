import CogentModel.Model.Distance
/-!
  C15 — the small numpy vocabulary used by the estimator functions of `evolve/fast_distance.py`,
  for 4×4 count matrices, in exact rational arithmetic.  These are the *primitives* the translator
  `translator/c15_dist2lean.py` maps numpy calls to (one primitive per numpy operation; nothing here knows
  about any estimator).  `lean/CogentModel/Gen/C15Dist.lean` is generated in terms of them.

  Idealisations (trusted): float64 arithmetic → `Rat` (so `x / 0 = 0`, no nan/inf), `numpy.linalg.det` →
  the Laplace expansion `Distance.det4`, `numpy.log` → an uninterpreted function `L : Rat → Rat` (a distance
  is a function of `L`), `log(a / sqrt(b))` → `L a - (1/2) * L b`.

  Import-free.
-/
namespace CogentModel.DistNp
open CogentModel.Distance

/-- a length-4 float vector -/
abbrev V4 := Nat → Rat

/-- a quantity that involves `numpy.log`: its value as a function of the logarithm `L` -/
abbrev Dist := (Rat → Rat) → Rat

/-- `v.sum()` / builtin `sum(v)` -/
def vsum (v : V4) : Rat := v 0 + v 1 + v 2 + v 3
/-- `v.prod()` -/
def vprod (v : V4) : Rat := v 0 * v 1 * v 2 * v 3
/-- `m.sum()` -/
def msum (m : M4) : Rat := vsum (fun i => vsum (fun j => m i j))
/-- `m.sum(axis=0)`: entry j is the sum of column j -/
def axis0 (m : M4) : V4 := fun j => vsum (fun i => m i j)
/-- `m.sum(axis=1)`: entry i is the sum of row i -/
def axis1 (m : M4) : V4 := fun i => vsum (fun j => m i j)
/-- `diag(m)` / `m.diagonal()` -/
def mdiag (m : M4) : V4 := fun i => m i i
def vadd (a b : V4) : V4 := fun i => a i + b i
def vmul (a b : V4) : V4 := fun i => a i * b i
/-- `v / s` -/
def vdivS (a : V4) (s : Rat) : V4 := fun i => a i / s
/-- `m / s` -/
def mdivS (m : M4) (s : Rat) : M4 := fun i j => m i j / s
def vzero : V4 := fun _ => 0
/-- builtin `sum(list of vectors)` (starts from 0) -/
def vlsum (l : List V4) : V4 := l.foldl vadd vzero
/-- `sum` / `prod` of a Python list of floats -/
def lsum (l : List Rat) : Rat := l.foldl (· + ·) 0
def lprod (l : List Rat) : Rat := l.foldl (· * ·) 1
/-- `m.take(flat_indices)` (row-major, 4 columns) -/
def mtake (m : M4) (idx : List Nat) : List Rat := idx.map fun k => m (k / 4) (k % 4)
/-- `v.take(indices)` -/
def vtake (v : V4) (idx : List Nat) : List Rat := idx.map v
/-- `x = m.copy(); x[(x == c) * eye(4, dtype=bool)] = val` -/
def maskDiagEq (m : M4) (c val : Rat) : M4 := fun i j => if m i j = c ∧ i = j then val else m i j
/-- `matrix[a, b] += k` on the count matrix of `fill_diversity_matrix` -/
def bumpBy (m : Int → Int → Nat) (a b : Int) (k : Nat) : Int → Int → Nat :=
  fun x y => if x = a ∧ y = b then m x y + k else m x y
/-- `numpy.linalg.det` -/
def det (m : M4) : Rat := det4 m

/-- the Python result tuple `(total, p, dist, _)`; `none` = the all-`None` tuple `invalid` -/
abbrev Res := Option (Rat × Rat × Dist)

/-- what the hand model's `Stat` means as a result tuple of the estimator functions (the final distance
formulas, with `L` for the natural logarithm):
JC69 −(3/4)·ln(1−4p/3); TN93 −c₁ ln t₁ − c₂ ln t₂ − c₃ ln t₃; paralinear −ln(det F/√Π)/4;
LogDet (Tamura–Kumar) coeff·ln(det F/√Π); LogDet −ln(det F)/4 − ln 4.  `nan`/`zero`/`absent` are not results of
these functions. -/
def ofStat : Stat → Res
  | .hamming tot p d => some (tot, p, fun _ => d)
  | .jc69 tot p f => some (tot, p, fun L => -(3 / 4) * L f)
  | .tn93 tot p c1 c2 c3 t1 t2 t3 => some (tot, p, fun L => -c1 * L t1 - c2 * L t2 - c3 * L t3)
  | .paralinear tot p d pr => some (tot, p, fun L => -(L d - (1 / 2) * L pr) / 4)
  | .logdetTK tot p co d pr => some (tot, p, fun L => co * (L d - (1 / 2) * L pr))
  | .logdet tot p d => some (tot, p, fun L => -(L d) / 4 - L 4)
  | _ => none

/-- two result tuples are the same: both `invalid`, or equal length, proportion and — for every function
`L` standing for the logarithm — equal distance -/
def Res.Same : Res → Res → Prop
  | none, none => True
  | some a, some b => a.1 = b.1 ∧ a.2.1 = b.2.1 ∧ ∀ L, a.2.2 L = b.2.2 L
  | _, _ => False

/-- `d[k] = v` on a plain Python dict kept as an insertion-ordered association list: an existing key keeps its position -/
def pyDictSet (d : List (Nat × Nat)) (k v : Nat) : List (Nat × Nat) :=
  if d.any (fun e => e.1 == k) then d.map (fun e => if e.1 = k then (k, v) else e) else d ++ [(k, v)]

end CogentModel.DistNp
