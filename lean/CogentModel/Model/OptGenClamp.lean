import CogentModel.Model.OptGenPrelude
/-! # C16 — numpy's boolean-mask operations on vectors, and a concrete `Env` built from them

Used by Props/C16Clamp.lean (the translated start clamp of `Calculator.optimise`, `clampX`, equals the hand model
`clampStart` for every environment whose array operations are these) and by the driver, which evaluates `clampX` on
`listEnv` against the real `Calculator.optimise` (the driver must not import the generated file: a source edit that
changes a generated signature would otherwise take every stream's concrete inputs away).  Import-free model. -/
set_option linter.unusedVariables false
namespace CogentModel.OptGenClamp
open CogentModel.OptGen

variable {R : Type}

/-- `a[mask]` -/
def selL : List R → List Bool → List R
  | a :: as, true :: ms => a :: selL as ms
  | _ :: as, false :: ms => selL as ms
  | _, _ => []

/-- `x[mask] = v` (`v` has one entry per `True` of the mask) -/
def putL : List R → List Bool → List R → List R
  | x :: xs, true :: ms, v :: vs => v :: putL xs ms vs
  | x :: xs, false :: ms, vs => x :: putL xs ms vs
  | xs, _, _ => xs

/-- `numpy.allclose(a, b)` on two vectors of the same length (`True` on two empty ones) -/
def allcloseL (close : R → R → Bool) : List R → List R → Bool
  | a :: as, b :: bs => close a b && allcloseL close as bs
  | _, _ => true

/-- a numpy array as the clamp uses it: a float vector or a boolean mask -/
inductive Arr (R : Type) where
  | vals (l : List R)
  | mask (l : List Bool)

def Arr.rep : Arr R → List R
  | .vals l => l
  | .mask _ => []

def Arr.repM : Arr R → List Bool
  | .vals _ => []
  | .mask l => l

/-- every field that the clamp does not use is a dummy -/
def listEnv (lt close : R → R → Bool) (x lo hi : List R) : Env (Arr R) Unit :=
  { f := fun _ => .val (), vle := fun _ _ => true, gt := fun _ _ => false, ge := fun _ _ => true,
    fin := fun _ => true, isneginf := fun _ => false, negInf := (),
    posInfX := .vals [], negInfX := .vals [], multi := fun _ => true, atleast1d := id, squeeze := id,
    qsG := [], qsL := [],
    valueArray := .vals x, boundsLow := .vals lo, boundsHigh := .vals hi,
    maskGt := fun a b => .mask (List.zipWith (fun p q => lt q p) a.rep b.rep),
    maskLt := fun a b => .mask (List.zipWith (fun p q => lt p q) a.rep b.rep),
    sel := fun a m => .vals (selL a.rep m.repM),
    put := fun a m v => .vals (putL a.rep m.repM v.rep),
    allclose := fun a b => allcloseL close a.rep b.rep }

end CogentModel.OptGenClamp

namespace CogentModel.OptGenProofs
open CogentModel.OptGen
variable {X Y : Type}

/-- the start vector `Calculator.optimise` hands to `maximise`: `get_value_array()` after the two `allclose` clamps -/
def clampX (env : Env X Y) : X :=
  let x := env.valueArray
  let x := if env.allclose (env.sel x (env.maskGt env.boundsLow x)) (env.sel env.boundsLow (env.maskGt env.boundsLow x))
    then env.put x (env.maskGt env.boundsLow x) (env.sel env.boundsLow (env.maskGt env.boundsLow x)) else x
  if env.allclose (env.sel x (env.maskLt env.boundsHigh x)) (env.sel env.boundsHigh (env.maskLt env.boundsHigh x))
    then env.put x (env.maskLt env.boundsHigh x) (env.sel env.boundsHigh (env.maskLt env.boundsHigh x)) else x

end CogentModel.OptGenProofs
