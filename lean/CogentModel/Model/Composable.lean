/-
  C14 (and the resume half of C19) — executable model of `cogent3.app.composable`:
  `_call` / `_validate_data_type` (None input, not-completed pass-through, feeding through
  `self.input`, type check, try/except, None result ⇒ BUG), `_apply_to` (identifier selection
  with the duplicate check and the skip of identifiers already completed in the store),
  `_source_wrapped` (the source travels beside the evolving value), completion order as an
  arbitrary list of results, and the writer's routing of completed / not-completed records
  into a small dict-like store.

  Import-free (compiled into drv_c14 / drv_c19).
-/
namespace CogentModel.Composable

abbrev Id := Nat

/-- a value flowing through a pipeline: class tag, payload and the data source it carries -/
structure V where
  ty : Nat
  val : Int
  src : Option Id
  deriving DecidableEq, Repr

inductive NCType where
  | error | bug | fail
  deriving DecidableEq, Repr

inductive Msg where
  | noneIn              -- "unexpected input value None"
  | noneOut             -- "unexpected output value None"
  | exc (tag : Int)     -- traceback of the exception raised by main
  | badType (ty : Nat)  -- "invalid data type, '<class>' not in ..."
  | user (tag : Int)    -- a NotCompleted returned by main itself
  deriving DecidableEq, Repr

structure NC where
  type : NCType
  origin : Nat          -- name of the step that created it
  msg : Msg
  source : Option Id
  deriving DecidableEq, Repr

inductive Val where
  | ok (v : V)
  | nc (n : NC)
  deriving DecidableEq, Repr

def Val.isNC : Val → Bool
  | .nc _ => true
  | .ok _ => false

def Val.isOk (v : Val) : Bool := !v.isNC

/-- class tag of `NotCompleted` itself (for steps that do not skip not-completed input) -/
def ncTy : Nat := 0

def Val.ty : Val → Nat
  | .ok v => v.ty
  | .nc _ => ncTy

/-- `get_data_source(val)` -/
def Val.source : Val → Option Id
  | .ok v => v.src
  | .nc n => n.source

/-- what `main` does with one value -/
inductive Out where
  | ret (v : V)
  | raise (tag : Int)
  | retNone
  | retNC (n : NC)
  deriving DecidableEq, Repr

inductive Kind where
  | loader | generic | writer
  deriving DecidableEq, Repr

structure Step where
  name : Nat
  kind : Kind
  skipNC : Bool
  /-- class tags accepted by `_validate_data_type`; `[]` = no restriction -/
  accepts : List Nat
  main : Val → Out

/-- `_validate_data_type`: `none` = passes -/
def validate (s : Step) (v : Val) : Option NC :=
  if s.accepts.isEmpty then none
  else if s.accepts.contains v.ty then none
  else some ⟨.error, s.name, .badType v.ty, v.source⟩

/-- `try: result = self.main(val) except Exception: NotCompleted("ERROR", …)`; `None` ⇒ BUG -/
def runMain (s : Step) (v : Val) : Val :=
  match s.main v with
  | .ret r => .ok r
  | .raise t => .nc ⟨.error, s.name, .exc t, v.source⟩
  | .retNone => .nc ⟨.bug, s.name, .noneOut, v.source⟩
  | .retNC n => .nc n

/-- the rest of `_call` once the value from the connected input app is known -/
def afterInput (s : Step) (v2 : Val) : Val :=
  if v2.isNC && s.skipNC then v2
  else match validate s v2 with
    | some n => .nc n
    | none => runMain s v2

/-- `_call` on a composed app; the steps are listed from the outermost (last) to the loader -/
def callChain : List Step → Option Val → Val
  | [], v => v.getD (.nc ⟨.error, 0, .noneIn, none⟩)
  | s :: rest, v =>
    let v1 : Val := match v with
      | none => .nc ⟨.error, s.name, .noneIn, none⟩
      | some x => x
    if v1.isNC && s.skipNC then v1
    else
      let v2 := if s.kind != .loader && !rest.isEmpty then callChain rest (some v1) else v1
      afterInput s v2

/-! ### the output store and `_apply_to` -/

/-- records by identifier (completed content or a not-completed record) -/
abbrev Store := List (Id × Val)

def entries (s : Store) (i : Id) : Store := s.filter (fun e => e.1 == i)

/-- `input_id in self.data_store`: only a *completed* record counts -/
def hasDone (s : Store) (i : Id) : Bool := (entries s i).any (fun e => e.2.isOk)

/-- the writer: a completed record is never overwritten; otherwise the record for the
    identifier is (re)written and a stale not-completed record of that identifier is dropped -/
def put (s : Store) (i : Id) (r : Val) : Store :=
  if hasDone s i then s else s.filter (fun e => !(e.1 == i)) ++ [(i, r)]

/-- the loop l.795-805 of `_apply_to`: `none` = `ValueError("non-unique identifier detected")` -/
def select (idOf : Nat → Id) (s : Store) : List Nat → List (Id × Nat) → Option (List (Id × Nat))
  | [], acc => some acc
  | m :: ms, acc =>
    if acc.any (fun p => p.1 == idOf m) then none
    else if hasDone s (idOf m) then select idOf s ms acc
    else select idOf s ms (acc ++ [(idOf m, m)])

/-- `_source_wrapped`: the proxy keeps its source, the object becomes `app obj` -/
def wrapped (app : Nat → Val) (p : Id × Nat) : Nat × Val := (p.2, app p.2)

/-- the writer loop: each result is written under `id_from_source(result.source)` -/
def writeAll (idOf : Nat → Id) (s : Store) (results : List (Nat × Val)) : Store :=
  results.foldl (fun s r => put s (idOf r.1) r.2) s

/-- results in the completion order given by `order` (positions into the submitted list;
    serial = `List.range n`) -/
def schedule {α} (xs : List α) (order : List Nat) : List α := order.filterMap (fun k => xs[k]?)

def applyTo (idOf : Nat → Id) (app : Nat → Val) (s : Store) (inputs : List Nat) (order : List Nat) :
    Option Store :=
  match select idOf s inputs [] with
  | none => none
  | some sel => some (writeAll idOf s (schedule (sel.map (wrapped app)) order))

/-! ### (auditor) what "already in the store" means depends on the store class

`input_id in self.data_store` is `any(m.unique_id == identifier for m in self)` over ALL members.
A `DataStoreDirectory` lists a not-completed member as `not_completed/<id>.json`, which never equals
the identifier, so only completed records count (`hasDone`, used by `select` above and by every
theorem).  A `DataStoreSqlite` lists a not-completed member under the bare identifier, so there a
stored NOT-COMPLETED record also makes `_apply_to` skip the input (`hasAny`): a failed input is not
retried on resume, and it does not take part in the duplicate-identifier check. -/

def hasAny (s : Store) (i : Id) : Bool := !(entries s i).isEmpty

/-- `select` with the membership test as a parameter (`hasDone s` = directory store, `hasAny s` = SQLite store) -/
def selectBy (done : Id → Bool) (idOf : Nat → Id) : List Nat → List (Id × Nat) → Option (List (Id × Nat))
  | [], acc => some acc
  | m :: ms, acc =>
    if acc.any (fun p => p.1 == idOf m) then none
    else if done (idOf m) then selectBy done idOf ms acc
    else selectBy done idOf ms (acc ++ [(idOf m, m)])

def applyToBy (done : Store → Id → Bool) (idOf : Nat → Id) (app : Nat → Val) (s : Store) (inputs : List Nat)
    (order : List Nat) : Option Store :=
  match selectBy (done s) idOf inputs [] with
  | none => none
  | some sel => some (writeAll idOf s (schedule (sel.map (wrapped app)) order))

end CogentModel.Composable
