import CogentModel.Model.Prune
/-!
  Prelude of the C02 `_indexed` translator (`translator/c02_indexed2lean.py`): a Python `dict` with hashable keys and
  int values as an association list, newest binding first.  Import-free.
-/
namespace CogentModel.PyAccum

/-- `key in d` -/
def dictIn {κ : Type} [DecidableEq κ] (d : List (κ × Nat)) (key : κ) : Bool := (d.lookup key).isSome

/-- `d[key]` (only translated under `if key in d`; `0` stands in for the KeyError otherwise) -/
def dictGet {κ : Type} [DecidableEq κ] (d : List (κ × Nat)) (key : κ) : Nat := (d.lookup key).getD 0

/-- `d[key] = v` -/
def dictSet {κ : Type} (d : List (κ × Nat)) (key : κ) (v : Nat) : List (κ × Nat) := (key, v) :: d

end CogentModel.PyAccum
