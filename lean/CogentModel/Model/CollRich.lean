import CogentModel.Model.TreeRich
/-! C10 (wave 2): collection / alignment level rich dict of the old-style classes.
`_SequenceCollectionBase.to_rich_dict`: `for seq in self.seqs: data[seq.name] = seq.to_rich_dict()` (an insertion-ordered dict keyed by the
row name) and `deserialise_seq_collections`: `for v in data.pop("seqs").values(): seqs.append(deserialise_…(v))`, `klass(seqs, …)`.
The per-row exporter / importer are parameters (Sequence → deserialise_seq, Aligned → deserialise_aligned). Import-free. -/
namespace CogentModel.CollRich
open CogentModel.TreeRich (dictSet)

/-- the `seqs` entry of the rich dict -/
def seqsDict {α ρ} (name : α → String) (exp : α → ρ) (rows : List α) : List (String × ρ) :=
  rows.foldl (fun d s => dictSet d (name s) (exp s)) []

/-- the loop over `.values()`; the first row that fails to deserialise propagates its error -/
def fromSeqsDict {ρ ε σ} (imp : ρ → Except ε σ) : List (String × ρ) → Except ε (List σ)
  | [] => .ok []
  | (_, r) :: d =>
    match imp r with
    | .error e => .error e
    | .ok s =>
      match fromSeqsDict imp d with
      | .error e => .error e
      | .ok ss => .ok (s :: ss)

/-- rows of the collection rebuilt from its own rich dict, in the order they are handed to the constructor -/
def collRoundtrip {α ρ ε σ} (name : α → String) (exp : α → ρ) (imp : ρ → Except ε σ) (rows : List α) : Except ε (List σ) :=
  fromSeqsDict imp (seqsDict name exp rows)

/-- row-by-row relation between the original rows and the rebuilt rows (same count, same order) -/
inductive Rows {α σ} (R : α → σ → Prop) : List α → List σ → Prop
  | nil : Rows R [] []
  | cons {a b as bs} : R a b → Rows R as bs → Rows R (a :: as) (b :: bs)

end CogentModel.CollRich
