import CogentModel.Model.View
import CogentModel.Spec.PySlice
/-
  C10 — hand-written mirror of the *export / re-basing* code of sequence views
  and of the small map records.

  * `SeqView.to_rich_dict`   (core/sequence.py l.2376, core/new_sequence.py l.2581):
      truncate the parent to `seq[lo:hi]` with `(lo, hi) = richDictBounds v`,
      keep `step`; `start`, `stop` and `offset` are NOT exported.
  * `SeqView.from_rich_dict` (core/sequence.py l.2393): `cls(**init_args)` plus
      an optional top-level `"offset"` key.
  * `SeqView.copy(sliced=True)`: old = `from_rich_dict(to_rich_dict())`
      (offset dropped); new = constructor on the truncated parent with
      `offset=self.offset` (offset KEPT).
  * the `SeqView` overload of `_coerce_to_seqview` (both modules): how the
      enclosing `Sequence` re-attaches `annotation_offset`.
  * `Sequence.to_rich_dict` stores `annotation_offset = parent_start`;
      `deserialise_seq` (old) = `make_seq(seq=SeqView.from_rich_dict(..), annotation_offset=..)`,
      `_moltype_seq_from_rich_dict` (new) = `SeqView(seq=str, offset=annotation_offset)[::step]`.
  * `SeqDataView.to_rich_dict` (core/new_alignment.py l.186): slices the
      ALREADY realised string `self.str_value[lo:hi]`.
  * `IndelMap` / `FeatureMap` / `Span` / `LostSpan` rich dicts (core/location.py).

  Import-free apart from project modules.  Strings are `List α`.
-/
namespace CogentModel.RichDict
open CogentModel.View

/-- `self.seq[self.start:self.stop:self.step]` (`SeqView.value` / `str_value`) -/
def realise {α} [Inhabited α] (parent : List α) (v : View) : List α :=
  PySlice.slice parent (some v.start) (some v.stop) v.step

/-- the part of the rich dict of a view that matters: `init_args["seq"]`,
`init_args["step"]`, and the optional top-level `"offset"` key read by
`from_rich_dict` (never written by `SeqView.to_rich_dict`). -/
structure ViewRich (α : Type) where
  seq : List α
  step : Int
  offset : Option Int
  deriving Repr

/-- `SeqView.to_rich_dict` -/
def toRich {α} [Inhabited α] (parent : List α) (v : View) : ViewRich α :=
  let b := richDictBounds v
  { seq := PySlice.slice parent (some b.1) (some b.2) 1, step := v.step, offset := none }

/-- `SeqView.from_rich_dict`: `cls(seq=…, step=…, [offset=…])` — start/stop default to `None`. -/
def fromRich {α} (r : ViewRich α) : Except Err (List α × View) :=
  match mk r.seq.length none none (some r.step) (r.offset.getD 0) with
  | .ok v => .ok (r.seq, v)
  | .error e => .error e

/-- `_coerce_to_seqview(data: SeqView, …, annotation_offset)` (same code in both modules) -/
def coerceOffset (v : View) (annotationOffset : Int) : Except Err View :=
  if annotationOffset ≠ 0 ∧ v.offset ≠ 0 then .error .valueError
  else if annotationOffset ≠ 0 then .ok { v with offset := annotationOffset }
  else .ok v

/-- old-style JSON path of a `Sequence` whose view is `v`:
`Sequence.to_rich_dict` → `deserialise_seq`.  Result: new parent string and view. -/
def seqRoundtripOld {α} [Inhabited α] (parent : List α) (v : View) : Except Err (List α × View) :=
  match parentStart v with
  | .error e => .error e
  | .ok ps =>
    match fromRich (toRich parent v) with
    | .error e => .error e
    | .ok (p', v') =>
      match coerceOffset v' ps with
      | .error e => .error e
      | .ok v'' => .ok (p', v'')

/-- old `Sequence.copy(sliced=True)`: `SeqView.copy(sliced=True)` is literally
`from_rich_dict(to_rich_dict())`, and the `Sequence` passes
`annotation_offset=self.annotation_offset` (= `parent_start`): same function. -/
def seqCopyOld {α} [Inhabited α] (parent : List α) (v : View) : Except Err (List α × View) :=
  seqRoundtripOld parent v

/-- new-style JSON path (`_moltype_seq_from_rich_dict`):
`SeqView(seq=trunc, offset=annotation_offset)[::step]`. -/
def seqRoundtripNew {α} [Inhabited α] (parent : List α) (v : View) : Except Err (List α × View) :=
  match parentStart v with
  | .error e => .error e
  | .ok ps =>
    let r := toRich parent v
    match mk r.seq.length none none none ps with
    | .error e => .error e
    | .ok v0 =>
      match getitemSlice .seqView v0 none none (some r.step) with
      | .error e => .error e
      | .ok v1 => .ok (r.seq, v1)

/-- new `SeqView.copy(sliced=True)` (repo commit f9c946a7e): the constructor is called on the
truncated parent with `step` only — `offset` is NOT passed (defaults to 0); the enclosing
`Sequence` re-attaches `annotation_offset`. -/
def viewCopyNew {α} [Inhabited α] (parent : List α) (v : View) : Except Err (List α × View) :=
  let r := toRich parent v
  match mk r.seq.length none none (some v.step) 0 with
  | .ok v' => .ok (r.seq, v')
  | .error e => .error e

/-- new `Sequence.copy(sliced=True)`: `offset = self.annotation_offset` (parent_start),
`data = self._seq.copy(sliced=True)`, then the constructor coerces. -/
def seqCopyNew {α} [Inhabited α] (parent : List α) (v : View) : Except Err (List α × View) :=
  match parentStart v with
  | .error e => .error e
  | .ok ps =>
    match viewCopyNew parent v with
    | .error e => .error e
    | .ok (p', v') =>
      match coerceOffset v' ps with
      | .error e => .error e
      | .ok v'' => .ok (p', v'')

/-- `SeqDataView.to_rich_dict`: `self.str_value[lo:hi]` — the string that is
sliced is the already realised one (`str_value` = `raw[ps:pe][::step]`), and the
bounds are the parent bounds. `init_args["offset"] = parent_start`. -/
def toRichDataView {α} [Inhabited α] (parent : List α) (v : View) : ViewRich α :=
  let b := richDictBounds v
  { seq := PySlice.slice (realise parent v) (some b.1) (some b.2) 1, step := v.step,
    offset := match parentStart v with | .ok p => some p | .error _ => none }

/-- new-style JSON path of a `Sequence` taken out of a collection (`SeqDataView` inside):
same deserialiser as `seqRoundtripNew`, fed with `toRichDataView`. -/
def seqRoundtripDataView {α} [Inhabited α] (parent : List α) (v : View) : Except Err (List α × View) :=
  match parentStart v with
  | .error e => .error e
  | .ok ps =>
    let r := toRichDataView parent v
    match mk r.seq.length none none none ps with
    | .error e => .error e
    | .ok v0 =>
      match getitemSlice .seqView v0 none none (some r.step) with
      | .error e => .error e
      | .ok v1 => .ok (r.seq, v1)

/-! ### maps -/

/-- `IndelMap` state after `__post_init__` -/
structure IndelMap where
  gapPos : List Int
  cumGapLengths : List Int
  terminiUnknown : Bool
  parentLength : Int
  deriving DecidableEq, Repr

def cumsum : List Int → Int → List Int
  | [], _ => []
  | x :: xs, acc => (acc + x) :: cumsum xs (acc + x)

/-- constructor: exactly one of `cum_gap_lengths` / `gap_lengths` is given
(`assert gap_lengths is None or self.cum_gap_lengths is None`), lengths must agree,
last gap position must lie inside the parent. -/
def IndelMap.mk' (gapPos : List Int) (cum : Option (List Int)) (lengths : Option (List Int))
    (terminiUnknown : Bool) (parentLength : Int) : Except Err IndelMap :=
  match cum, lengths with
  | some _, some _ => .error .assertionError
  | none, none => .error .valueError      -- len(None) : TypeError in Python; never reached by cogent3
  | c, l =>
    let cum := match l with | some l => cumsum l 0 | none => c.getD []
    if gapPos.length ≠ cum.length then .error .valueError
    else if gapPos ≠ [] ∧ gapPos.getLast! > parentLength then .error .valueError
    else .ok { gapPos := gapPos, cumGapLengths := cum, terminiUnknown := terminiUnknown, parentLength := parentLength }

/-- the rich dict of an `IndelMap` (`gap_lengths` is popped from `_serialisable`;
`gap_pos`, `cum_gap_lengths`, `parent_length` are overwritten from the live state;
`termini_unknown` comes from the recorded constructor arguments) -/
structure IndelRich where
  gapPos : List Int
  cumGapLengths : List Int
  terminiUnknown : Bool
  parentLength : Int
  deriving DecidableEq, Repr

def IndelMap.toRich (m : IndelMap) : IndelRich :=
  { gapPos := m.gapPos, cumGapLengths := m.cumGapLengths, terminiUnknown := m.terminiUnknown,
    parentLength := m.parentLength }

def IndelMap.fromRich (r : IndelRich) : Except Err IndelMap :=
  IndelMap.mk' r.gapPos (some r.cumGapLengths) none r.terminiUnknown r.parentLength

/-- gapped realisation of an ungapped sequence through the map
(`None` = gap); used as the observation of an `IndelMap`. -/
def IndelMap.gapsBefore (m : IndelMap) : List (Int × Int) :=
  -- (sequence position, length of the gap inserted before it)
  let rec go : List Int → List Int → Int → List (Int × Int)
    | p :: ps, c :: cs, prev => (p, c - prev) :: go ps cs c
    | _, _, _ => []
  go m.gapPos m.cumGapLengths 0

/-- spans -/
inductive SpanArgs where
  /-- `Span(start, end, tidy_start, tidy_end, value=None, reverse)` as *called* -/
  | span (start : Int) (stop : Option Int) (tidyStart tidyEnd reverse : Bool)
  /-- `LostSpan(length)` -/
  | lost (length : Int)
  deriving DecidableEq, Repr

/-- the live state of a span -/
inductive SpanState where
  | span (start stop : Int) (tidyStart tidyEnd reverse : Bool)
  | lost (length : Int)
  deriving DecidableEq, Repr

/-- `Span._new_init` + `__init__` (asserts `length ≥ 0`, always true after the swap) -/
def SpanArgs.build : SpanArgs → SpanState
  | .span s none ts te r => .span s (s + 1) ts te r
  | .span s (some e) ts te r => if s > e then .span e s ts te r else .span s e ts te r
  | .lost l => .lost l

/-- `Span.__getstate__` → `__setstate__` (pickle): `__init__(start, end, tidy_start, tidy_end, value, reverse)`
on the LIVE values -/
def SpanState.pickleArgs : SpanState → SpanArgs
  | .span s e ts te r => .span s (some e) ts te r
  | .lost l => .lost l

def SpanState.length : SpanState → Int
  | .span s e _ _ _ => e - s
  | .lost l => l

/-- constructor call of a `FeatureMap`: span constructor arguments + parent_length -/
structure FeatureMap where
  spans : List SpanArgs
  parentLength : Int
  deriving DecidableEq, Repr

structure FeatureState where
  spans : List SpanState
  parentLength : Int
  length : Int
  deriving DecidableEq, Repr

def FeatureMap.build (m : FeatureMap) : FeatureState :=
  let sp := m.spans.map SpanArgs.build
  { spans := sp, parentLength := m.parentLength, length := (sp.map SpanState.length).foldl (· + ·) 0 }

/-- pickle of the built object: every span is re-initialised from its live state -/
def FeatureState.roundtripPickle (s : FeatureState) : FeatureState :=
  FeatureMap.build { spans := s.spans.map SpanState.pickleArgs, parentLength := s.parentLength }

/-- `Span.to_rich_dict` / `_LostSpan.to_rich_dict` (after repo commit 0de96f35a): the
recorded constructor arguments are OVERWRITTEN with the live state (`start`, `end`, `tidy_start`,
`tidy_end`, `reverse`; `length` for a lost span), so the exported arguments are those of
`__getstate__`. -/
def SpanState.richArgs : SpanState → SpanArgs
  | .span s e ts te r => .span s (some e) ts te r
  | .lost l => .lost l

/-- `FeatureMap.to_rich_dict`: `[s.to_rich_dict() for s in self.spans]` + live `parent_length`. -/
def FeatureState.toRich (s : FeatureState) : FeatureMap :=
  { spans := s.spans.map SpanState.richArgs, parentLength := s.parentLength }

/-- JSON route: `FeatureMap.from_rich_dict(to_rich_dict())` re-runs the span constructors
on the live values and `__post_init__` recomputes `length`. -/
def FeatureState.roundtripJson (s : FeatureState) : FeatureState :=
  FeatureMap.build s.toRich

/-- well-formed live span: `Span.__init__` leaves `start ≤ end` (asserted: `length >= 0`). -/
def SpanState.WF : SpanState → Prop
  | .span s e _ _ _ => s ≤ e
  | .lost _ => True

/-- well-formed live map state: every span well-formed and `length` is the sum of span lengths
(what `__post_init__` computes). Holds after the constructor and is kept by in-place span
edits such as `zeroed()` that shift `start`/`end` together. -/
def FeatureState.WF (s : FeatureState) : Prop :=
  (∀ x ∈ s.spans, x.WF) ∧ s.length = (s.spans.map SpanState.length).foldl (· + ·) 0

end CogentModel.RichDict
