import CogentModel.Model.Splitlines
/-
  C06 — model of how cogent3 derives the (format, compression) pair and the opener from a file NAME:
  `pathlib.PurePath.suffixes`, `util/io.get_format_suffixes`, `_get_compression_open`, and the name of the
  temporary file `atomic_write` writes to (`_make_tmppath`: uuid + "".join(path.suffixes)).
  The dispatch tables themselves are GENERATED from the source (Gen/C06Dispatch.lean). Import free.
-/
namespace CogentModel.Suffixes
open CogentModel.Splitlines

abbrev Str := List Char

/-- `str.split(d)` for one character: always at least one piece -/
def splitOn (d : Char) : Str → List Str
  | [] => [[]]
  | c :: cs => if c = d then [] :: splitOn d cs else consHead c (splitOn d cs)

/-- `PurePath(name).suffixes` for a single path component (CPython 3.12 pathlib):
`if name.endswith('.'): return []; name = name.lstrip('.'); return ['.' + s for s in name.split('.')[1:]]` -/
def suffixesOf (name : Str) : List Str :=
  if name.getLast? = some '.' then []
  else ((splitOn '.' (name.dropWhile (· = '.'))).drop 1).map ('.' :: ·)

/-- `atomic_write._make_tmppath` (not in a zip): `f"{uuid.uuid4()}{''.join(path.suffixes)}"` -/
def tmpName (uuid name : Str) : Str := uuid ++ (suffixesOf name).flatten

def lowerChar (c : Char) : Char := if 65 ≤ c.toNat ∧ c.toNat ≤ 90 then Char.ofNat (c.toNat + 32) else c
/-- `_wout_period.sub("", sfx).lower()` with `_wout_period = re.compile(r"^\.")` -/
def normSuffix (s : Str) : Str :=
  (match s with
    | '.' :: r => r
    | r => r).map lowerChar

/-- the last two elements (`suffixes[-2:]`) -/
def lastTwo (l : List Str) : List Str := l.drop (l.length - 2)

inductive SfxErr where
  | indexError
  deriving DecidableEq, Repr

/-- `get_format_suffixes` (util/io.py l.308-329) as a function of `bool(filename.suffix)` and
`filename.suffixes`; `cs` = the source's `compression_suffixes`. Returns (suffix, cmp_suffix). -/
def formatSuffixes (cs : List Str) (hasSuffix : Bool) (suffixes : List Str) : Except SfxErr (Option Str × Option Str) :=
  if !hasSuffix then .ok (none, none)
  else
    let sx := (lastTwo suffixes).map normSuffix
    match sx.getLast? with
    | none => .error .indexError            -- `suffixes[-1]` on an empty list
    | some last =>
      let cmp : Option Str := if cs.contains last then some last else none
      if sx.length = 2 ∧ cmp.isSome then .ok (sx.head?, cmp)
      else if cmp.isNone then .ok (some last, cmp)
      else .ok (none, cmp)

/-- `_get_compression_open(path)`: `{...}.get(compression, None)`; `none` = the builtin `open` -/
def codecOf (table : List (Str × Str)) (cmp : Option Str) : Option Str :=
  match cmp with
  | none => none
  | some c => (table.find? (fun p => p.1 = c)).map (·.2)

end CogentModel.Suffixes
