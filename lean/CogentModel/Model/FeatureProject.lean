/-
  Projection of a sequence feature onto alignment columns
  (`core/alignment.py` `Aligned.make_feature`, `core/annotation.py` `Feature.remapped_to`):

      annot    = self.data.make_feature(feature)            -- feature on the (ungapped) sequence
      inverted = self.map.to_feature_map().inverse()         -- sequence position -> alignment column
      annot.remapped_to(alignment, inverted)                 -- map = inverted[annot.map]

  on top of the `FeatureMap` model of C08 (`Model/FMap.lean`: `inverse`, `getitem`).
-/
import CogentModel.Model.FMap
namespace CogentModel.FMap

/-- `inverted[feature.map]` with `inverted = A.inverse()`; `A` = the aligned sequence's map as a feature map
(one position per alignment column: a sequence position or lost for a gap) -/
def project (A fm : FM) : Except FErr FM :=
  match inverse A with
  | .error e => .error e
  | .ok I => getitem I fm

/-- `lookup`: position `j` of a cover (out of range / lost = none) -/
def coverAt (c : List (Option Int)) (j : Int) : Option Int := if j < 0 then none else (c[j.toNat]?).join

/-- reading the gapped row `A` at a projected position: the sequence position shown in that alignment
column (`none` for a lost position or a gap column).  Degapping the own-row slice of an alignment
feature reads the row at the feature's columns and drops the gaps. -/
def readRow (A : FM) : Option Int → Option Int
  | none => none
  | some k => coverAt (cover A) k

end CogentModel.FMap
