/-
  C13 — hand-written mirror of `cogent3/app/data_store.py :: ReadOnlyDataStoreZipped` listing logic
  (`_iter_matches`, `completed`, `not_completed`, `logs`) over an archive = list of entry names, and the archive a
  zipped DataStoreDirectory consists of (`zipNames`, the file entries `shutil.make_archive(root_dir=parent,
  base_dir=<dir>)` produces; directory entries carry no '.' and never match a `*.<suffix>` pattern).  Import-free.
  `limit=None`, non-empty store suffix.
-/
import CogentModel.Model.DataStore
namespace CogentModel.DataStoreZip
open CogentModel.KV CogentModel.DataStore

/-- `pathlib.Path(name).parent.name` for a relative entry name (a trailing '/' of a directory entry is dropped first, as
    pathlib does) -/
def stripSlash (p : Str) : Str := if p.getLast? = some '/' then p.dropLast else p
def parentName (p : Str) : Str :=
  pathName (((stripSlash p).reverse.dropWhile (· != '/')).drop 1).reverse

/-- `Path(name).match(pattern)` for a one-component pattern `*<rest>` (rest without wildcards: `*.<suffix>`, `*.json`, `*`)
    or a literal component: the LAST component of the name is matched -/
def globMatch (pattern name : Str) : Bool :=
  let last := pathName (stripSlash name)
  match pattern with
  | '*' :: rest => endsWith last rest && !last.isEmpty
  | _ => last == pattern

/-- `_iter_matches(subdir, pattern)`: NO parent test when `subdir` is empty -/
def iterMatches (subdir pattern : Str) (names : List Str) : List Str :=
  names.filter fun n =>
    (subdir.isEmpty || parentName n == subdir) && globMatch pattern n && !startsWith (pathName (stripSlash n)) ['.']

/-- member ids of `completed` (non-empty suffix) -/
def zCompleted (sfx : Str) (names : List Str) : List Str :=
  (iterMatches [] ('*' :: '.' :: sfx) names).map fun n => pathName (stripSlash n)

/-- member ids of `not_completed` -/
def zNotCompleted (names : List Str) : List Str :=
  (iterMatches sNotCompleted ('*' :: '.' :: sJson) names).map fun n => ncPrefix ++ pathName (stripSlash n)

/-- member ids of `logs` -/
def zLogs (names : List Str) : List Str :=
  (iterMatches sLogs ['*'] names).map fun n => sLogs ++ '/' :: pathName (stripSlash n)

/-- the repaired `completed`: only entries directly below the archive's top directory (fixes/C13-zipped-completed-lists-subdirectories.patch) -/
def zCompletedTop (top sfx : Str) (names : List Str) : List Str :=
  ((iterMatches [] ('*' :: '.' :: sfx) names).filter fun n => parentName n == top).map fun n => pathName (stripSlash n)

/-- file entries of the archive of the directory store `s` zipped as `<top>/…` -/
def zipNames {D : Type} (top : Str) (s : Dir D) : List Str :=
  (keys s.root).map (fun n => top ++ '/' :: n)
  ++ (if s.ncDir then (keys s.nc).map (fun n => top ++ '/' :: sNotCompleted ++ '/' :: n) else [])
  ++ (if s.logsDir then (keys s.logs).map (fun n => top ++ '/' :: sLogs ++ '/' :: n) else [])
  ++ (keys s.md5).map (fun n => top ++ '/' :: sMd5 ++ '/' :: n)

end CogentModel.DataStoreZip
