import CogentModel.Model.Prune
/-!
  C02, `fixed_motifs` (ancestral state reconstruction):
  `likelihood_calculation.py PartialLikelihoodProductDefnFixedMotif.calc`

      result = lh_edge.sum_input_likelihoodsR(recycled_result, *child_likelihoods)   # product over the children
      if fixed_motif not in [None, -1]:
          for motif in range(result.shape[-1]):
              if motif != fixed_motif:
                  result[:, motif] = 0.0

  Every INTERNAL edge (tips use `LeafPartialLikelihoodDefn`) has its own `fixed_motif` parameter;
  `reconstruct_ancestral_seqs` sets it for ONE node at a time to every state in turn and reads the full-length
  likelihoods.  The node is addressed here by its PATH from the root (list of child positions).

  `plhMod` is the pruning recursion with an arbitrary transformation `f` of the partial-likelihood vector applied at the
  addressed internal node (nothing happens when the path leaves the tree or ends at a tip); the mask of the code is
  `maskVec`.  `addLeafAt` hangs an extra leaf below the addressed node (as its FIRST child): with the identity as edge matrix and
  an indicator profile this is how the harness expressed the restriction before this model existed
  (`fixed_motif_eq_pin_leaf` proves the two equal).

  Import-free, generic in the number type.
-/
namespace CogentModel.PruneFixed
open CogentModel.Prune

section
variable {R α : Type}

mutual
/-- the tree with the extra subtree `l` as first child of the internal node at `path` -/
def addLeafAt (l : PTree R α) : List Nat → PTree R α → PTree R α
  | _, .leaf P a => .leaf P a
  | [], .node P cs => .node P (l :: cs)
  | i :: path, .node P cs => .node P (addLeafAtL l i path cs)
def addLeafAtL (l : PTree R α) : Nat → List Nat → List (PTree R α) → List (PTree R α)
  | _, _, [] => []
  | 0, path, c :: cs => addLeafAt l path c :: cs
  | i + 1, path, c :: cs => c :: addLeafAtL l i path cs
end

mutual
/-- the path ends at an internal node of the tree -/
def isInternalAt : List Nat → PTree R α → Bool
  | _, .leaf _ _ => false
  | [], .node _ _ => true
  | i :: path, .node _ cs => isInternalAtL i path cs
def isInternalAtL : Nat → List Nat → List (PTree R α) → Bool
  | _, _, [] => false
  | 0, path, c :: _ => isInternalAt path c
  | i + 1, path, _ :: cs => isInternalAtL i path cs
end
end

section pruning
variable {R α : Type} [Add R] [Mul R] [Zero R] [One R]

mutual
/-- partial likelihoods with the vector of the internal node at `path` passed through `f` -/
def plhMod (m : Nat) (prof : α → Nat → R) (f : Vec R → Vec R) : List Nat → PTree R α → Vec R
  | _, .leaf _ a => ⟨prof a⟩
  | [], .node _ cs => f (prodUp m prof cs)
  | i :: path, .node _ cs => prodUpMod m prof f i path cs
def prodUpMod (m : Nat) (prof : α → Nat → R) (f : Vec R → Vec R) : Nat → List Nat → List (PTree R α) → Vec R
  | _, _, [] => ⟨fun _ => 1⟩
  | 0, path, c :: cs => mulVec m (upWith m c.mat (plhMod m prof f path c)) (prodUp m prof cs)
  | i + 1, path, c :: cs => mulVec m (upWith m c.mat (plh m prof c)) (prodUpMod m prof f i path cs)
end

/-- `for motif in range(M): if motif != fixed_motif: result[:, motif] = 0.0` -/
@[noinline] def maskVec (m : Nat) (s : Nat) (v : Vec R) : Vec R :=
  tabulate m (fun x => if x = s then v.get x else 0)

/-- column likelihood with the node at `path` restricted to state `s` (`fixed_motif = s` on that edge, `-1` elsewhere) -/
def lhFixed (m : Nat) (π : Nat → R) (prof : α → Nat → R) (s : Nat) (path : List Nat) (t : PTree R α) : R :=
  dot m (plhMod m prof (maskVec m s) path t) π

/-- identity matrix (edge of the pin leaf) -/
def idMat : Mat R := fun i j => if i = j then 1 else 0

end pruning

end CogentModel.PruneFixed
