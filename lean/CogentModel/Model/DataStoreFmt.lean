/-
  C13 — the pathlib / regex / list primitives `cogent3.util.io.get_format_suffixes` is written with, as `List Char` functions
  (CPython 3.12), for the TRANSLATED function Gen/C13Fmt.lean.  Import-free.  Tied to the real functions by the harness
  `names` stream (exhaustive short strings): `suffix`, `suffixes_dot`, `fs_gen`.
-/
import CogentModel.Model.DataStore
namespace CogentModel.DataStore
open CogentModel.KV

/-- `Path(p).suffix` (with its dot; empty when there is none) -/
def pathSuffixDot (path : Str) : Str :=
  match splitExt path with
  | some (_, e) => '.' :: e
  | none => []

/-- `Path(p).suffixes` (each with its dot) -/
def pathSuffixesDot (path : Str) : List Str := (pathSuffixes path).map ('.' :: ·)

/-- `re.compile(r"^\.").sub(repl, s)` -/
def reSubLeadDot (repl s : Str) : Str :=
  match s with
  | '.' :: t => repl ++ t
  | _ => s

/-- `s.lower()` (ASCII) -/
def lower (s : Str) : Str := s.map Char.toLower

/-- python `xs[-n:]` -/
def pyLastN {α : Type} (n : Nat) (xs : List α) : List α := xs.drop (xs.length - n)

/-- python `xs[i]`; `none` = IndexError -/
def pyIdx {α : Type} (xs : List α) (i : Int) : Option α :=
  if i < 0 then (if i.natAbs ≤ xs.length then xs[xs.length - i.natAbs]? else none) else xs[i.toNat]?

end CogentModel.DataStore
