/-
  C20 — model of Python's `csv` module as cogent3's table writer / loader use it
  (`csv.writer(f, delimiter=sep, lineterminator="\n")` in `Table.write`,
   `csv.reader(f, dialect="excel", delimiter=sep)` in `parse/table.py::load_delimited`).

  Dialect = excel: quotechar `"`, doublequote, no escapechar, skipinitialspace False,
  strict False, QUOTE_MINIMAL.  The functions mirror CPython 3.12 `Modules/_csv.c`:
  `join_append_data` / `csv_writerow` (writer) and `parse_process_char` / `Reader_iternext`
  (reader state machine, fed line by line with an end-of-line pseudo character).

  Strings are `List Char` (code points).  Import-free.
-/
namespace CogentModel.Csv

abbrev Str := List Char
abbrev Row := List Str

def quoteCh : Char := '"'

structure Dialect where
  delim : Char
  /-- the writer's lineterminator (the table writer passes "\n") -/
  lt : List Char

/-! ## writer -/

/-- characters that force quoting in `join_append_data` (QUOTE_MINIMAL, no escapechar):
the delimiter, the quote character, any character of the lineterminator -/
def special (d : Dialect) (c : Char) : Bool :=
  c == d.delim || c == quoteCh || d.lt.contains c

def needsQuote (d : Dialect) (f : Str) : Bool := f.any (special d)

/-- doublequote: every quote character is written twice -/
def escapeBody : Str → Str
  | [] => []
  | c :: cs => if c = quoteCh then quoteCh :: quoteCh :: escapeBody cs else c :: escapeBody cs

def encField (d : Dialect) (f : Str) : Str :=
  if needsQuote d f then quoteCh :: (escapeBody f ++ [quoteCh]) else f

def joinFields (d : Dialect) : Row → Str
  | [] => []
  | [f] => encField d f
  | f :: g :: fs => encField d f ++ d.delim :: joinFields d (g :: fs)

/-- `writer.writerow(r)`: a record consisting of one empty field is written as `""`
(`num_fields > 0 && rec_len == 0`) -/
def rowText (d : Dialect) (r : Row) : Str :=
  if r = [[]] then [quoteCh, quoteCh] else joinFields d r

def writeRow (d : Dialect) (r : Row) : Str := rowText d r ++ d.lt

def csvWrite (d : Dialect) : List Row → Str
  | [] => []
  | r :: rs => writeRow d r ++ csvWrite d rs

/-! ## reader -/

inductive St where
  | startRecord | startField | inField | inQuoted | quoteInQuoted | eatCRNL | error
  deriving DecidableEq, Repr

structure RS where
  st : St
  field : Str
  fields : Row
  deriving DecidableEq, Repr

def reset : RS := ⟨.startRecord, [], []⟩

def isNL (c : Char) : Bool := c == '\n' || c == '\r'

/-- `parse_save_field` -/
def saveField (s : RS) (st : St) : RS := ⟨st, [], s.fields ++ [s.field]⟩

def addChar (s : RS) (c : Char) (st : St) : RS := ⟨st, s.field ++ [c], s.fields⟩

/-- case START_FIELD of `parse_process_char` (also reached by fall-through from START_RECORD) -/
def procStartField (delim : Char) (s : RS) (c : Char) : RS :=
  if isNL c then saveField s .eatCRNL
  else if c = quoteCh then ⟨.inQuoted, s.field, s.fields⟩
  else if c = delim then saveField s .startField
  else addChar s c .inField

def procChar (delim : Char) (s : RS) (c : Char) : RS :=
  match s.st with
  | .startRecord => if isNL c then ⟨.eatCRNL, s.field, s.fields⟩ else procStartField delim s c
  | .startField => procStartField delim s c
  | .inField =>
    if isNL c then saveField s .eatCRNL
    else if c = delim then saveField s .startField
    else addChar s c .inField
  | .inQuoted =>
    if c = quoteCh then ⟨.quoteInQuoted, s.field, s.fields⟩ else addChar s c .inQuoted
  | .quoteInQuoted =>
    if c = quoteCh then addChar s c .inQuoted
    else if c = delim then saveField s .startField
    else if isNL c then saveField s .eatCRNL
    else addChar s c .inField
  | .eatCRNL => if isNL c then s else ⟨.error, s.field, s.fields⟩
  | .error => s

/-- the end-of-line pseudo character fed after every line -/
def procEOL (s : RS) : RS :=
  match s.st with
  | .startRecord => s
  | .startField => saveField s .startRecord
  | .inField => saveField s .startRecord
  | .inQuoted => s
  | .quoteInQuoted => saveField s .startRecord
  | .eatCRNL => ⟨.startRecord, s.field, s.fields⟩
  | .error => s

/-- does a line of the text stream end after character `c`?  The reader is fed the lines of a stream opened
with `newline=''`: a line ends after "\n", after "\r\n", or after a "\r" that is not followed by "\n" -/
def lineEnds (c : Char) (rest : Str) : Bool :=
  c == '\n' || (c == '\r' && rest.head? != some '\n')

/-- `Reader_iternext` over the characters of the text: every character goes through `parse_process_char`;
at the end of a line the end-of-line pseudo character follows, and a record is produced if the state is back
at START_RECORD (otherwise — inside a quoted field — the next line continues the record).  `mid` says
whether a character of the current line has been consumed (a last line without terminator still gets its
end-of-line).  At end of input an unfinished quoted field is flushed. -/
def readChars (delim : Char) : RS → Bool → Str → Except String (List Row)
  | s, mid, [] =>
    let s := if mid then procEOL s else s
    if s.st = .error then .error "new-line character seen in unquoted field"
    else if mid ∧ s.st = .startRecord then .ok [s.fields]
    else if s.field ≠ [] ∨ s.st = .inQuoted then .ok [s.fields ++ [s.field]]
    else .ok []
  | s, _, c :: cs =>
    let s1 := procChar delim s c
    if lineEnds c cs then
      let s2 := procEOL s1
      if s2.st = .error then .error "new-line character seen in unquoted field"
      else if s2.st = .startRecord then
        match readChars delim reset false cs with
        | .ok rs => .ok (s2.fields :: rs)
        | .error e => .error e
      else readChars delim s2 false cs
    else readChars delim s1 true cs

def csvRead (delim : Char) (text : Str) : Except String (List Row) :=
  readChars delim reset false text

/-! ## the table layer: `Table.write` (delimited branch) and `load_delimited` -/

/-- `Table.write`: optional title row, header, data rows, optional legend row -/
def tableWrite (d : Dialect) (title : Str) (header : Row) (rows : List Row) (legend : Str) : Str :=
  csvWrite d ((if title = [] then [] else [[title]]) ++ header :: rows ++
              (if legend = [] then [] else [[legend]]))

def dropLast {α} : List α → List α
  | [] => []
  | [_] => []
  | a :: b :: l => a :: dropLast (b :: l)

/-- `load_delimited(header=True, with_title, with_legend)`: returns (header, rows, title, legend) -/
def loadDelimited (delim : Char) (withTitle withLegend : Bool) (text : Str) :
    Except String (Row × List Row × Str × Str) :=
  match csvRead delim text with
  | .error e => .error e
  | .ok recs =>
    let (title, recs) :=
      if withTitle then
        match recs with
        | [] => (none, ([] : List Row))   -- python: next(reader) raises StopIteration
        | t :: rest => (some t.flatten, rest)
      else (some ([] : Str), recs)
    match title, recs with
    | none, _ => .error "StopIteration"
    | some _, [] => .error "IndexError"       -- rows.pop(0) on an empty list
    | some title, header :: rows =>
      if withLegend then
        match rows.getLast? with
        | none => .error "IndexError"
        | some l => .ok (header, dropLast rows, title, l.flatten)
      else .ok (header, rows, title, [])

/-! ## the formatting writers `to_csv()` / `to_tsv()` / `to_string(format="csv"|"tsv")`

`format/table.py::separator_format` (since commit 4196fd381): header and rows go through `csv.writer`
(`lineterminator="\n"`), the final newline is dropped (`out.getvalue()[:-1]`). -/
def toCsvText (d : Dialect) (header : Row) (rows : List Row) : Str := (csvWrite d (header :: rows)).dropLast

end CogentModel.Csv
