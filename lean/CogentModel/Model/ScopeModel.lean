/-! # C11 — which edges a parameter rule is scoped to (import-free hand model)

Hand model of `_LikelihoodParameterController._process_scope_info` (evolve/parameter_controller.py) and of
`TreeNode.get_edge_names` (core/tree.py): `edge=` / `edges=` / `tip_names=` + `outgroup_name=` + `clade=` / `stem=`
→ list of edge names (or `None` = every edge, or a refusal).  The tree itself is abstract: the code reaches it only
through the primitives collected in `TreeOps` (they are C09's subject; `unrooted_deepcopy` is tied for C11 by the driver
command `reroot`).  `translator/c11_scope2lean.py` translates the two Python functions to `Gen/C11Scope.lean`;
`Props/C11Scope.lean` proves the generated definitions equal to the ones below. -/
namespace CogentModel.Scope

/-- the refusals (all are `TreeError` in cogent3 except `prim` = an exception out of a tree primitive / unpacking) -/
inductive Err where
  | onlyOne         -- "Only ONE of edge, edges or tip_names"
  | twoSpecies      -- "tip_names must contain 2 species"
  | outgroupNotTip  -- "Outgroup (..) is not a tip"
  | noStem          -- "LCA(..) is the root and so has no stem"
  | prim            -- raised inside a primitive (no such node, no LCA)
  deriving DecidableEq, Repr

/-- what the two functions use of a tree; `T` = a node handle (a tree is its root node) -/
structure TreeOps (T : Type) where
  /-- `self.get_node_matching_name(name)`; `none` = raises -/
  nodeMatching : T → String → Option T
  /-- `node.is_tip()` -/
  isTip : T → Bool
  /-- `node.unrooted_deepcopy()`: the tree as seen from `node` (its root) -/
  unrootedDeepcopy : T → T
  /-- `self.get_connecting_node(a, b)`; `none` = raises -/
  connectingNode : T → String → String → Option T
  /-- `node.isroot()` -/
  isRoot : T → Bool
  /-- `node.name` -/
  name : T → String
  /-- `node.children` -/
  children : T → List T
  /-- `node.get_node_names(includeself=1)` -/
  nodeNames : T → List String

/-- Python truthiness of the argument kinds that occur -/
def truthyL : Option (List String) → Bool
  | some (_ :: _) => true
  | _ => false
def truthyS : Option String → Bool
  | some s => s != ""
  | none => false
def truthyB : Option Bool → Bool
  | some b => b
  | none => false
/-- `len(x)` of a list argument (`None` is not reached) -/
def lenO : Option (List String) → Nat
  | some l => l.length
  | none => 0

/-- the tree the clade is read off: as given, or as seen from the outgroup tip -/
def viewFrom {T : Type} (ops : TreeOps T) (t : T) : Option String → Except Err T
  | none => .ok t
  | some og =>
    match ops.nodeMatching t og with
    | none => .error .prim
    | some o => if ops.isTip o then .ok (ops.unrootedDeepcopy o) else .error .outgroupNotTip

/-- names of all edges strictly below the join node, child by child -/
def cladeNames {T : Type} (ops : TreeOps T) (j : T) : List String :=
  (ops.children j).flatMap ops.nodeNames

/-- hand model of `get_edge_names` -/
def edgeNames {T : Type} (ops : TreeOps T) (t : T) (a b : String) (clade stem : Bool) (og : Option String) :
    Except Err (List String) :=
  match viewFrom ops t og with
  | .error e => .error e
  | .ok v =>
    match ops.connectingNode v a b with
    | none => .error .prim
    | some j =>
      if stem && ops.isRoot j then .error .noStem
      else .ok ((if stem then [ops.name j] else []) ++ (if clade then cladeNames ops j else []))

/-- hand model of `_process_scope_info`; `.ok none` = every edge -/
def scopeEdges {T : Type} (ops : TreeOps T) (tree : T) (edge : Option String) (tipNames edges : Option (List String))
    (clade stem : Option Bool) (og : Option String) : Except Err (Option (List String)) :=
  match edges, edge, tipNames with
  | some es, _, _ => if truthyL tipNames || truthyS edge then .error .onlyOne else .ok (some es)
  | none, some e, _ => if truthyL tipNames then .error .onlyOne else .ok (some [e])
  | none, none, none => .ok none
  | none, none, some [a, b] =>
    let st := stem.getD false
    let cl := match clade with | some c => c | none => !st
    match edgeNames ops tree a b cl st og with
    | .error e => .error e
    | .ok l => .ok (some l)
  | none, none, some _ => .error .twoSpecies

end CogentModel.Scope
