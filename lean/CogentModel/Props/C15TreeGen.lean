import CogentModel.Proofs.TreeGen
import CogentModel.Props.C15NJ
import CogentModel.Props.C15UPGMA
/-! # C15 — the TRANSLATED array / list code of nj.py and UPGMA.py equals the hand models, for all arguments

`Gen/C15Tree.lean` is rewritten on every run by `translator/c15_tree2lean.py` from the current text of
`phylo/nj.py` (`PartialTree.join`, `get_dist_saved_join_score_matrix`, `lengths` of `asScoreTreeTuple`) and
`cluster/UPGMA.py` (`find_smallest_index`, `condense_matrix`, `condense_node_order`, the loop body of `UPGMA_cluster`),
numpy / list operation by operation (primitives: `Model/TreeNumpy.lean`).  The theorems below prove every generated
definition equal to (or, for the PhyloNode records, in simulation with) the hand models `Model/NJ.lean` / `Model/UPGMA.lean`
about which the C15NJ / C15UPGMA theorems are stated — for ALL matrices, sizes, node lists and index pairs — and then the
whole loops: `gen_upgma_eq` (UPGMA_cluster on upgma's inputs) and `gen_nj_eq` (gnj(keep=1) for ≥ 3 names).
Still hand-modelled: the argsort / de-duplication generator `uniq_neighbour_joins` (as `argminOff`: first off-diagonal minimum),
`inputs_from_dict_array` (`genInit`), the zip / `convert` of `asScoreTreeTuple` (`genFinish`), the two-taxon shortcut of `gnj`. -/
namespace CogentModel.C15
open CogentModel.NJ CogentModel.UPGMA CogentModel.TreeNp CogentModel.Gen

/-- the ultrametric ((0:1,1:1):2,2:3) -/
def exM : Mat := [[0, 2, 6], [2, 0, 6], [6, 6, 0]]
/-- the additive quartet ((0:1,1:2):4,2:2,3:3) -/
def exQ : Mat := [[0, 3, 7, 8], [3, 0, 8, 9], [7, 8, 0, 5], [8, 9, 5, 0]]

/-- `find_smallest_index` (ravel / argmin / divmod) as translated IS the model's `findSmallest` -/
theorem gen_find_smallest_index_eq (m : Mat) (n : Nat) :
    C15Tree.find_smallest_index n (get m) = findSmallest m n := rfl
example : C15Tree.find_smallest_index 3 (get exM) = (0, 0) ∧ C15Tree.find_smallest_index 3 (setDiag (get exM) 99) = (0, 1) := by decide +kernel


/-- `condense_matrix` as translated (take / average, the four row / column stores in their order), materialised as an n×n array, is the model's `condenseMatrix` — all matrices, all index pairs (also i = j and out-of-range) -/
theorem gen_condense_matrix_eq (m : Mat) (n i j : Nat) (big : Rat) :
    tab n (C15Tree.condense_matrix (get m) (i, j) big) = condenseMatrix m n i j big := by
  unfold condenseMatrix
  congr 1
  funext a b
  simp only [C15Tree.condense_matrix, setRow, setCol, constV, avgTake0, newVec]
  split_ifs <;> simp_all
example : tab 3 (C15Tree.condense_matrix (get exM) (0, 1) 99) = [[1, 99, 6], [99, 99, 99], [6, 99, 0]] := by decide +kernel


/-- explicit form of the translated `condense_node_order` (the `for n in nodes` loop unrolled over the two aliased nodes): both nodes get `length = genLen d ·` (= `d - children[0].TipLength` if they have children, else `d`) and `TipLength = d`, the new parent with these two children replaces entry `index1`, entry `index2` becomes `None` -/
theorem gen_condense_node_order_eq (m : Arr) (s : Nat × Nat) (order : List (Option PN)) :
    C15Tree.condense_node_order m s order =
      let n1 := (order.getD s.1 none).getD default
      let n2 := (order.getD s.2 none).getD default
      let d := m s.1 s.2 / 2
      (order.set s.1 (some (PN.mk 0 [(n1.withLength (genLen d n1)).withTipLength d, (n2.withLength (genLen d n2)).withTipLength d] 0 0))).set s.2 none := by
  simp only [C15Tree.condense_node_order, lset, PN.new, PN.append, List.nil_append, List.cons_append, genLen]
  split_ifs <;> rfl
example : (C15Tree.condense_node_order (get exM) (0, 1) [some (PN.mk 0 [] 0 0), some (PN.mk 1 [] 0 0), some (PN.mk 2 [] 0 0)]).map (fun o => o.map toU) =
    [some (.node (.tip 0) 1 (.tip 1) 1), none, some (.tip 2)] := by decide +kernel


/-- the translated `condense_node_order` simulates the model's `condenseNodes`: related node lists (`RelL`: same trees under `toU`, same branch-length rule) go to related node lists — all lists, all index pairs, dead (`None`) entries included -/
theorem gen_condense_node_order_sim (arr : Arr) (m : Mat) (i j : Nat) (order : List (Option PN)) (eo : List (Option Entry))
    (h : RelL order eo) (hm : arr i j = get m i j) :
    RelL (C15Tree.condense_node_order arr (i, j) order) (condenseNodes m i j eo) := by
  obtain ⟨hl, hr⟩ := h
  have r1 := relO_getD _ _ (hr i)
  have r2 := relO_getD _ _ (hr j)
  rw [gen_condense_node_order_eq]
  unfold condenseNodes
  refine ⟨by simp [hl], fun a => ?_⟩
  simp only []
  rw [getD_set_set, getD_set_set, hl]
  split_ifs with hja hia
  · trivial
  · show Rel _ _
    refine ⟨?_, fun d' => ?_⟩
    · rw [branch_rel _ _ _ r1, branch_rel _ _ _ r2, hm, r1.1, r2.1]
      simp only [toU, toU_with, length_with]
    · simp [branch, PN.children, tipLength_with, hm]
  · exact hr a
example : RelL [some (PN.mk 0 [] 0 0), none] [some { tree := .tip 0, isTip := true, height := 0 }, none] :=
  ⟨rfl, fun a => match a with
    | 0 => ⟨rfl, fun d => by simp [branch, PN.children]⟩
    | 1 => trivial
    | _ + 2 => trivial⟩


/-- ONE PASS of the translated loop of `UPGMA_cluster` (find, diagonal reset + second find, `condense_node_order`, `condense_matrix`, `tree = node_order[...]`) simulates one `step` of the hand model: from related states (array agrees with the matrix inside the box, node lists related entry by entry) the results are related — no hypothesis on the selected pair -/
theorem gen_cluster_step_sim (n : Nat) (hpos : 0 < n) (big : Rat) (arr : Arr) (order : List (Option PN)) (st : State)
    (hA : Agree n arr st.m) (hR : RelL order st.order) :
    Agree n (C15Tree.UPGMA_cluster_step n big arr order).1 (step n big st).m ∧
      RelL (C15Tree.UPGMA_cluster_step n big arr order).2.1 (step n big st).order ∧
      RelO (C15Tree.UPGMA_cluster_step n big arr order).2.2 (step n big st).tree := by
  have hf := find_smallest_agree n arr st.m hA
  have hf2 := find_smallest_agree n _ _ (setDiag_agree n big arr st.m hA)
  unfold step stepWith
  simp only [C15Tree.UPGMA_cluster_step, hf, hf2]
  unfold select
  by_cases hd : (findSmallest st.m n).1 = (findSmallest st.m n).2
  · simp only [hd, if_true]
    obtain ⟨b1, b2⟩ := findSmallest_lt n hpos (resetDiag st.m n big)
    have hA' := setDiag_agree n big arr st.m hA
    have hs := gen_condense_node_order_sim (setDiag arr big) (resetDiag st.m n big) _ _ order st.order hR (hA' _ _ b1 b2)
    exact ⟨condense_matrix_agree n big _ _ _ _ b1 b2 hA', hs, hs.2 _⟩
  · simp only [hd, if_false]
    obtain ⟨b1, b2⟩ := findSmallest_lt n hpos st.m
    have hs := gen_condense_node_order_sim arr st.m _ _ order st.order hR (hA _ _ b1 b2)
    exact ⟨condense_matrix_agree n big _ _ _ _ b1 b2 hA, hs, hs.2 _⟩
example : Agree 3 (get exM) exM := fun _ _ _ _ => rfl


/-- WHOLE LOOP: `k` passes of the translated `UPGMA_cluster` body simulate `iter n big k` of the hand model, from any related pair of states, for every `k` -/
theorem gen_cluster_iter_sim (n : Nat) (hpos : 0 < n) (big : Rat) :
    ∀ (k : Nat) (s : Arr × List (Option PN) × Option PN) (st : State),
      Agree n s.1 st.m → RelL s.2.1 st.order → RelO s.2.2 st.tree →
      Agree n (genIter n big k s).1 (iter n big k st).m ∧ RelL (genIter n big k s).2.1 (iter n big k st).order ∧
        RelO (genIter n big k s).2.2 (iter n big k st).tree := by
  intro k
  induction k with
  | zero => intro s st hA hR hT; exact ⟨hA, hR, hT⟩
  | succ k ih =>
    intro s st hA hR _
    obtain ⟨a1, a2, a3⟩ := gen_cluster_step_sim n hpos big s.1 s.2.1 st hA hR
    exact ih _ _ a1 a2 a3

/-- `inputs_from_dict_array` as translated (`array += numpy.eye(n) * BIG_NUM`, `list(map(PhyloNode, keys))`) produces exactly the
state `genInit` from which `gen_upgma_eq` runs the translated loop (hence, with `Agree`/`RelL`, the model's `init`) -/
theorem gen_inputs_eq (n : Nat) (d : Mat) (big : Rat) :
    C15Tree.inputs_from_dict_array n (get d) big = ((genInit n d big).1, (genInit n d big).2.1) := by
  unfold C15Tree.inputs_from_dict_array genInit
  refine Prod.ext ?_ rfl
  funext a b
  simp only [eye]
  split_ifs <;> simp

example : (C15Tree.inputs_from_dict_array 3 (get exM) 100).1 0 0 = 100 ∧ (C15Tree.inputs_from_dict_array 3 (get exM) 100).1 0 1 = 2 ∧
    ((C15Tree.inputs_from_dict_array 3 (get exM) 100).2.map fun o => o.map toU) = [some (.tip 0), some (.tip 1), some (.tip 2)] := by
  decide +kernel

/-- `UPGMA_cluster` as translated (loop body iterated `len(node_order) - 1` times on `upgma`'s inputs) returns the PhyloNode
whose tree is the hand model's `upgma n d big` — for ALL matrices and sizes -/
theorem gen_upgma_eq (n : Nat) (hpos : 0 < n) (d : Mat) (big : Rat) :
    upgma n d big =
      (genIter n big (C15Tree.UPGMA_cluster_trips (genInit n d big).2.1) (genInit n d big)).2.2.map toU := by
  obtain ⟨hA, hR, hT⟩ := genInit_rel n d big
  have ht : C15Tree.UPGMA_cluster_trips (genInit n d big).2.1 = n - 1 := by simp [C15Tree.UPGMA_cluster_trips, genInit]
  rw [ht]
  obtain ⟨_, _, h⟩ := gen_cluster_iter_sim n hpos big (n - 1) _ _ hA hR hT
  rw [upgma_eq]
  revert h
  generalize (genIter n big (n - 1) (genInit n d big)).2.2 = x
  generalize (iter n big (n - 1) (init n d big)).tree = y
  intro h
  cases x <;> cases y <;> first | rfl | exact h.elim | exact congrArg some h.1
example : (genIter 3 1000000 (C15Tree.UPGMA_cluster_trips (genInit 3 exM 1000000).2.1) (genInit 3 exM 1000000)).2.2.map toU =
    some (.node (.node (.tip 0) 1 (.tip 1) 1) 2 (.tip 2) 3) := by decide +kernel


/-- `get_dist_saved_join_score_matrix` as translated (column sums, `numpy.add.outer`, the three divisions) is entry by entry the model's `scoreAt` with the column sums -/
theorem gen_score_matrix_eq (d : Mat) (L : Nat) (score : Rat) (a b : Nat) :
    C15Tree.score_matrix L (get d) score a b = scoreAt d L (colSum d L) score a b := rfl
example : C15Tree.score_matrix 4 (get exQ) 0 0 1 = scoreAt exQ 4 (colSum exQ 4) 0 0 1 ∧ C15Tree.score_matrix 4 (get exQ) 0 0 1 = 12 := by decide +kernel


/-- the pair `gnj(keep=1)` joins is the first off-diagonal minimum of the TRANSLATED score matrix -/
theorem gen_pickPair_eq (pt : PT) :
    pickPair pt = argminOff pt.L (C15Tree.score_matrix pt.L (get pt.d) pt.score) := by
  unfold pickPair
  apply argminOff_congr
  intro a b ha hb
  rw [get_tab _ _ a b ha hb]
  have hr : ∀ k, k < pt.L → ((List.range pt.L).map (colSum pt.d pt.L)).getD k 0 = colSum pt.d pt.L k := by
    intro k hk
    simp [List.getD_eq_getElem?_getD, List.getElem?_map, List.getElem?_range hk]
  show scoreAt _ _ _ _ a b = scoreAt pt.d pt.L (colSum pt.d pt.L) pt.score a b
  unfold scoreAt
  beta_reduce
  rw [hr a ha, hr b hb, sumTo_congr pt.L _ (colSum pt.d pt.L) hr]
example : argminOff 4 (C15Tree.score_matrix 4 (get exQ) 0) = (0, 1) := by decide +kernel


/-- `lengths` of `asScoreTreeTuple` as translated is the model's `finalLen` -/
theorem gen_final_lengths_eq (d : Mat) (a : Nat) : C15Tree.final_lengths 3 (get d) a = finalLen d a := rfl
example : C15Tree.final_lengths 3 (get [[0, 3, 4], [3, 0, 5], [4, 5, 0]]) 0 = 1 := by decide +kernel


/-- the distance array returned by the translated `PartialTree.join` (branch lengths, `new_dists`, the three stores into row / column `i`, "move the last row / column into `j`", the slice), materialised with side `L - 1`, is the model's `joinMat` — all matrices, all `i`, `j` -/
theorem gen_join_d_eq (pt : PT) (i j : Nat) (hn : pt.nodes.length = pt.L) :
    tab (pt.L - 1) (C15Tree.join pt.L (get pt.d) pt.nodes pt.score i j).1 = (NJ.join pt i j).d := by
  unfold NJ.join joinMat
  apply tab_congr
  intro a b ha hb
  simp only [C15Tree.join, slice0, ha, hb, and_self, if_true, setRow, setCol, setAt, row, col, base, src, newDist, hn]
  split_ifs <;> simp_all
example : tab 3 (C15Tree.join 4 (get exQ) (star 4 exQ).nodes 0 0 1).1 = [[0, 7, 6], [7, 0, 5], [6, 5, 0]] := by decide +kernel


/-- the node list returned by the translated `join` (new `LightweightTreeNode` with the two clamped lengths stored at `i`, last node moved into `j`, `pop`) is the model's `joinNodes` -/
theorem gen_join_nodes_eq (pt : PT) (i j : Nat) (hn : pt.nodes.length = pt.L) (hi : i < pt.L) (hj : j < pt.L) :
    (C15Tree.join pt.L (get pt.d) pt.nodes pt.score i j).2.1 = (NJ.join pt i j).nodes := by
  unfold NJ.join
  simp only [C15Tree.join, hn]
  exact list_join_eq pt.nodes pt.L i j _ hn hi hj
example : (C15Tree.join 4 (get exQ) (star 4 exQ).nodes 0 0 1).2.1 = [.bin 1 (.tip 0) 2 (.tip 1), .tip 3, .tip 2] := by decide +kernel


/-- the score returned by the translated `join` -/
theorem gen_join_score_eq (pt : PT) (i j : Nat) :
    (C15Tree.join pt.L (get pt.d) pt.nodes pt.score i j).2.2 = (NJ.join pt i j).score := rfl

/-- the `length` that `convert` stores (tips and inner nodes, as translated) is the model's `clamp0`, and applying it to a length
that `join` has already clamped changes nothing — the model's reason for keeping the clamped lengths in `T.bin` -/
theorem gen_convert_length_eq (x : Rat) :
    C15Tree.tip_convert_length x = clamp0 x ∧ C15Tree.node_convert_length x = clamp0 x ∧
      C15Tree.node_convert_length (pymax 0 x) = pymax 0 x ∧ C15Tree.tip_convert_length (pymax 0 x) = pymax 0 x := by
  refine ⟨rfl, rfl, ?_, ?_⟩ <;>
  · simp only [C15Tree.node_convert_length, C15Tree.tip_convert_length, pymax]
    split_ifs <;> rfl

example : C15Tree.tip_convert_length (-3) = 0 ∧ C15Tree.node_convert_length (5 / 2) = 5 / 2 := by decide +kernel

/-- one pass of the `gnj(keep=1)` loop through the translated functions (`genNjStep`: translated score matrix, first off-diagonal minimum, translated `join`) is the model's `join` of the model's `pickPair` -/
theorem gen_nj_step_eq (pt : PT) (hn : pt.nodes.length = pt.L) (h2 : 2 ≤ pt.L) :
    genNjStep pt = NJ.join pt (pickPair pt).1 (pickPair pt).2 := by
  have hp := gen_pickPair_eq pt
  obtain ⟨b1, b2⟩ := argminOff_lt pt.L h2 (C15Tree.score_matrix pt.L (get pt.d) pt.score)
  rw [← hp] at b1 b2
  unfold genNjStep
  simp only [← hp]
  have e2 := gen_join_nodes_eq pt (pickPair pt).1 (pickPair pt).2 hn b1 b2
  have e1 := gen_join_d_eq pt (pickPair pt).1 (pickPair pt).2 hn
  have e3 := gen_join_score_eq pt (pickPair pt).1 (pickPair pt).2
  have el : (C15Tree.join pt.L (get pt.d) pt.nodes pt.score (pickPair pt).1 (pickPair pt).2).2.1.length = pt.L - 1 := by
    rw [e2]; exact joinNodes_length _ _ _ _ _
  rw [el, e1, e2, e3]
  rfl
example : (star 4 exQ).nodes.length = (star 4 exQ).L ∧ 2 ≤ (star 4 exQ).L := by decide


/-- WHOLE LOOP of `gnj(keep=1)`: the translated pass iterated is the model's `njLoop pickPair`, for every fuel and every PartialTree whose node list has length `L` -/
theorem gen_nj_loop_eq (fuel : Nat) : ∀ (pt : PT), pt.nodes.length = pt.L → genNjLoop fuel pt = njLoop pickPair fuel pt := by
  induction fuel with
  | zero => intro pt _; rfl
  | succ k ih =>
    intro pt hn
    unfold genNjLoop njLoop
    split_ifs with h3
    · rfl
    · rw [gen_nj_step_eq pt hn (by omega)]
      apply ih
      show (joinNodes _ _ _ _ _).length = _
      exact joinNodes_length _ _ _ _ _

/-- `gnj(keep=1)` for three or more names, all of it through the translated functions, is the hand model `nj` -/
theorem gen_nj_eq (n : Nat) (d : Mat) (h : n ≠ 2) : genFinish (genNjLoop n (star n d)) = nj n d := by
  unfold nj
  rw [if_neg h, gen_nj_loop_eq n (star n d) (by simp [NJ.star])]
  rfl

example : genFinish (genNjLoop 4 (star 4 exQ)) = [(4, .bin 1 (.tip 0) 2 (.tip 1)), (3, .tip 3), (2, .tip 2)] := by decide +kernel

/-! ### the headline theorems, restated about the TRANSLATED code -/

/-- UPGMA on an ultrametric, through the translated `UPGMA_cluster` loop: for every ultrametric `D` on `n ≥ 2` labels (entries
below `BIG_NUM`) the PhyloNode returned stands for a tree that realises `D` (path length between tips = matrix entry), has
non-negative lengths, all tips at one depth, and each label exactly once -/
theorem gen_upgma_realises_ultrametric (D : Nat → Nat → Rat) (n : Nat) (hn : 2 ≤ n) (big : Rat)
    (hDs : ∀ a b, D a b = D b a) (hDn : ∀ a b, 0 ≤ D a b)
    (hDu : ∀ x y z, x < n → y < n → z < n → x ≠ y → y ≠ z → x ≠ z → D x z ≤ max (D x y) (D y z))
    (hbig : ∀ a b, a < n → b < n → a ≠ b → D a b < big) :
    ∃ p h, (genIter n big (C15Tree.UPGMA_cluster_trips (genInit n (tab n D) big).2.1) (genInit n (tab n D) big)).2.2 = some p ∧
      UReal D (toU p) ∧ NonNeg (toU p) ∧ (∀ q ∈ (toU p).depths, q.2 = h) ∧ ((toU p).depths.map (·.1)).Perm (List.range n) := by
  obtain ⟨t, h, e, rest⟩ := upgma_realises_ultrametric D n hn big hDs hDn hDu hbig
  rw [gen_upgma_eq n (by omega)] at e
  obtain ⟨p, hp, rfl⟩ := Option.map_eq_some_iff.mp e
  exact ⟨p, h, hp, rest⟩

example : ∃ p h, (genIter 3 1000000 (C15Tree.UPGMA_cluster_trips (genInit 3 (tab 3 exD) 1000000).2.1) (genInit 3 (tab 3 exD) 1000000)).2.2 = some p ∧
      UReal exD (toU p) ∧ NonNeg (toU p) ∧ (∀ q ∈ (toU p).depths, q.2 = h) ∧ ((toU p).depths.map (·.1)).Perm (List.range 3) :=
  gen_upgma_realises_ultrametric exD 3 (by omega) 1000000 exD_sym exD_nonneg exD_ultra exD_big

/-- neighbour joining on an additive matrix, through the translated score matrix / `join` / `lengths`: for every tree metric
(`splitDist` of a split system on `n ≥ 3` labels) the root built realises the matrix and carries each label exactly once -/
theorem gen_nj_realises_additive (n : Nat) (hn : 3 ≤ n) (Sg : WSplits) (hS : SplitSystem n Sg) :
    RootReal (splitDist Sg) (genFinish (genNjLoop n (star n (tab n (splitDist Sg))))) ∧
    (rootTips (genFinish (genNjLoop n (star n (tab n (splitDist Sg)))))).Perm (List.range n) := by
  rw [gen_nj_eq n _ (by omega)]
  exact nj_model_realises_additive n hn Sg hS

/- `SplitSystem 4 exSplits` is the example after `nj_realises_additive` in Props/C15NJ.lean; its metric is the quartet used above -/
example : tab 4 (splitDist exSplits) = exQ := by decide +kernel

end CogentModel.C15
