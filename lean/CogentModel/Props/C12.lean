import CogentModel.Model.GeneticCode
import CogentModel.Spec.GeneticCode
import CogentModel.Proofs.GeneticCode
/-!
# C12 — property theorems: translation and complementing follow the genetic-code tables

`newCodes`/`oldCodes` and the IUPAC tables are regenerated from the repository on every run
(`Gen/C12Tables.lean`), so every `decide +kernel` below is re-checked against what the source says now.
A code is a triple `(ID, code_sequence, start_codon_map)`; `code.2.1` is its 64-character table.
-/
namespace CogentModel.C12
open CogentModel.GC CogentModel.C12Tables

/-! ## the tables -/

/-- Every genetic code ID present in both modules carries the same table and the same start-codon map. -/
theorem tables_agree : ∀ c ∈ oldCodes, ∀ d ∈ newCodes, c.1 = d.1 → c.2 = d.2 := by decide +kernel

/-- Both modules define the same code IDs, in the same order, and more than twenty of them. -/
theorem tables_same_ids : oldCodes.map (·.1) = newCodes.map (·.1) ∧ 20 < newCodes.length := by decide +kernel

/-- Every table and start-codon map has exactly 64 entries (one per codon of `TCAG³`). -/
theorem tables_wellformed : ∀ c ∈ oldCodes ++ newCodes, c.2.1.length = 64 ∧ c.2.2.length = 64 := by
  decide +kernel

example : ∃ c ∈ newCodes, c.1 = 1 := by decide

/-! ## one codon -/

/-- For every code and every canonical codon the modelled k-mer-index converters give the table entry:
plus-strand converter on the codon, minus-strand (anticodon) converter on the codon = entry of the
reverse-complemented codon; likewise `__getitem__` of both implementations. (64 × #codes each.) -/
theorem converter_is_table :
    (∀ code ∈ newCodes, ∀ a ∈ GCSpec.bases, ∀ b ∈ GCSpec.bases, ∀ c ∈ GCSpec.bases,
      plusOf code.2.1 a b c = GCSpec.aa code.2.1 [a, b, c]) ∧
    (∀ code ∈ newCodes, ∀ a ∈ GCSpec.bases, ∀ b ∈ GCSpec.bases, ∀ c ∈ GCSpec.bases,
      minusOf code.2.1 a b c = GCSpec.aa code.2.1 [GCSpec.wc c, GCSpec.wc b, GCSpec.wc a]) ∧
    (∀ code ∈ newCodes, ∀ a ∈ GCSpec.bases, ∀ b ∈ GCSpec.bases, ∀ c ∈ GCSpec.bases,
      newGetItem newDna code.2.1 [a, b, c] = GCSpec.aa code.2.1 [a, b, c]) ∧
    (∀ code ∈ oldCodes, ∀ a ∈ GCSpec.bases, ∀ b ∈ GCSpec.bases, ∀ c ∈ GCSpec.bases,
      oldGetItem code.2.1 [a, b, c] = GCSpec.aa code.2.1 [a, b, c]) :=
  ⟨plus_codon, minus_codon, new_getitem_codon, old_codon⟩

example : ['A', 'T', 'G'] ∈ GCSpec.codons := by decide

/-! ## plus strand, all sequences, all start offsets -/

/-- New implementation, plus strand, FULL strength: for every code, every canonical sequence of any
length and every start offset, `translate` is the table mapped over the successive codons.
(Before commit 4cf1b0e7f this needed "< 256 codons": the k-mer index array switched to uint16.) -/
theorem translate_plus_spec (code : Nat × List Char × List Char) (hc : code ∈ newCodes)
    (s : List Char) (start : Nat) (hs : Canon s) :
    newTranslate newDna code.2.1 s start false = GCSpec.translate code.2.1 (s.drop start) :=
  new_translate_plus code.2.1 (plus_codon code hc) s start hs

example : Canon ['A', 'T', 'G', 'A', 'A', 'A', 'T', 'A'] := by decide

/-- Old implementation: for every code, canonical sequence and start offset inside the sequence,
`translate` is the table mapped over the successive codons (no length restriction). -/
theorem old_translate_spec (code : Nat × List Char × List Char) (hc : code ∈ oldCodes)
    (s : List Char) (start : Nat) (hs : Canon s) (hstart : start < s.length) :
    oldTranslate code.2.1 s start = .ok (GCSpec.translate code.2.1 (s.drop start)) :=
  old_translate_spec' code.2.1 (old_codon code hc) s start hs hstart

example : Canon ['A', 'T', 'G', 'A'] ∧ 2 < ['A', 'T', 'G', 'A'].length := by decide

/-- Old and new `translate` agree on the plus strand for every code ID present in both modules, every
canonical sequence and every start offset inside it. -/
theorem old_new_translate_agree (c d : Nat × List Char × List Char) (hc : c ∈ oldCodes) (hd : d ∈ newCodes)
    (hid : c.1 = d.1) (s : List Char) (start : Nat) (hs : Canon s) (hstart : start < s.length) :
    oldTranslate c.2.1 s start = .ok (newTranslate newDna d.2.1 s start false) := by
  rw [translate_plus_spec d hd s start hs, old_translate_spec c hc s start hs hstart,
    tables_agree c hc d hd hid]

example : ∃ c ∈ oldCodes, ∃ d ∈ newCodes, c.1 = d.1 := by decide

/-! ## minus strand -/

/-- What the new `translate(rc=True)` computes for every canonical sequence and start offset:
the translation of the reverse complement of the slice *after* it has been cut to a multiple of three
on the plus strand. -/
theorem translate_minus_actual (code : Nat × List Char × List Char) (hc : code ∈ newCodes)
    (s : List Char) (start : Nat) (hs : Canon s) :
    newTranslate newDna code.2.1 s start true =
      GCSpec.translate code.2.1 (GCSpec.rc (trunc3 (s.drop start))) :=
  new_translate_minus code.2.1 (minus_codon code hc) s start hs

/-- … which, for a frame offset `k < 3`, is reverse-strand frame `(len - k) % 3`, not frame `k`. -/
theorem translate_minus_frame (code : Nat × List Char × List Char) (hc : code ∈ newCodes)
    (s : List Char) (k : Nat) (hk : k < 3) (hs : Canon s) :
    newTranslate newDna code.2.1 s k true = GCSpec.frame code.2.1 s true ((s.length - k) % 3) := by
  rw [translate_minus_actual code hc s k hs, rc_trunc_frame code.2.1 s k hk]
  rfl

/-- Reverse strand = translation of the explicit reverse complement from `start` on — proved under the
extra hypothesis `(len - start) % 3 = start` (e.g. `start = 0` and a length divisible by three). -/
theorem translate_minus_spec_partial (code : Nat × List Char × List Char) (hc : code ∈ newCodes)
    (s : List Char) (start : Nat) (hs : Canon s)
    (hframe : (s.length - start) % 3 = start) :
    newTranslate newDna code.2.1 s start true = GCSpec.translate code.2.1 ((GCSpec.rc s).drop start) := by
  have hk : start < 3 := by omega
  have := translate_minus_frame code hc s start hk hs
  rw [hframe] at this
  exact this

example : Canon ['A', 'T', 'G', 'A', 'A', 'A', 'T', 'A'] ∧ (8 - 1) % 3 = 1 := by decide

/- FULL STATEMENT (not proved): `translate_minus_spec` = the statement above without `hframe` .
   It is false for the code as written (`translate_minus_counter`): `translate`
   drops `start` characters and the incomplete codon from the PLUS strand before reversing, so the
   reading frame on the minus strand is `(len - start) % 3`.  `GeneticCode.sixframes` of the old module
   (and the docstring "returns the translation of the reverse complement sequence") use frame `start`. -/

/-- Witness: `ATGAAATA` (length 8), code 1, start 0: the code as written gives `FH`, the reverse
complement `TATTTCAT` translates to `YF`. -/
theorem translate_minus_counter : ∃ code ∈ newCodes,
    newTranslate newDna code.2.1 ['A', 'T', 'G', 'A', 'A', 'A', 'T', 'A'] 0 true ≠
      GCSpec.translate code.2.1 ((GCSpec.rc ['A', 'T', 'G', 'A', 'A', 'A', 'T', 'A']).drop 0) := by
  decide +kernel

/-! ## six frames -/

/-- New `sixframes` on any canonical sequence: the three plus frames are right; the minus frame labelled
`k` is reverse-strand frame `(len - k) % 3` (a relabelling of the three correct minus-strand frames). -/
theorem sixframes_spec_partial (code : Nat × List Char × List Char) (hc : code ∈ newCodes)
    (s : List Char) (hs : Canon s) :
    newSixframes newDna code.2.1 s =
      [(false, 0, GCSpec.frame code.2.1 s false 0), (false, 1, GCSpec.frame code.2.1 s false 1),
       (false, 2, GCSpec.frame code.2.1 s false 2),
       (true, 0, GCSpec.frame code.2.1 s true ((s.length - 0) % 3)),
       (true, 1, GCSpec.frame code.2.1 s true ((s.length - 1) % 3)),
       (true, 2, GCSpec.frame code.2.1 s true ((s.length - 2) % 3))] := by
  have p := fun k => translate_plus_spec code hc s k hs
  have m := fun k (hk : k < 3) => translate_minus_frame code hc s k hk hs
  simp only [newSixframes, List.flatMap_cons, List.flatMap_nil, List.map_cons, List.map_nil,
    List.append_nil, List.cons_append, List.nil_append]
  rw [p 0, p 1, p 2, m 0 (by omega), m 1 (by omega), m 2 (by omega)]
  rfl

example : Canon ['A', 'T', 'G', 'G', 'G', 'G', 'T', 'A', 'A', 'C', 'A', 'T'] := by decide

/- FULL STATEMENT (not proved): `sixframes_spec`: `newSixframes … s = GCSpec.sixframes code.2.1 s`.
   False for every length ≥ 4 or so: at least two of the three minus-strand labels are permuted
   (`sixframes_counter`); equal only as a set of translations. -/

theorem sixframes_counter : ∃ code ∈ newCodes,
    newSixframes newDna code.2.1 ['A', 'T', 'G', 'A', 'A', 'A', 'T', 'A'] ≠
      GCSpec.sixframes code.2.1 ['A', 'T', 'G', 'A', 'A', 'A', 'T', 'A'] := by decide +kernel

/-! ## Added by the audit: the minus frames of the new `sixframes` are right *as a multiset* -/

/-- the three minus-strand translations of the new `sixframes` are the three correct minus-strand frames, as a multiset -/
theorem sixframes_same_translations (code : Nat × List Char × List Char) (hc : code ∈ newCodes)
    (s : List Char) (hs : Canon s) (h2 : 2 ≤ s.length) :
    ((newSixframes newDna code.2.1 s).map (·.2.2)).Perm ((GCSpec.sixframes code.2.1 s).map (·.2.2)) := by
  rw [sixframes_spec_partial code hc s hs]
  simp only [GCSpec.sixframes, List.flatMap_cons, List.flatMap_nil, List.map_cons, List.map_nil,
    List.append_nil, List.cons_append, List.nil_append]
  have h3 : s.length % 3 = 0 ∨ s.length % 3 = 1 ∨ s.length % 3 = 2 := by omega
  rcases h3 with h | h | h
  · have e0 : (s.length - 0) % 3 = 0 := by omega
    have e1 : (s.length - 1) % 3 = 2 := by omega
    have e2 : (s.length - 2) % 3 = 1 := by omega
    rw [e0, e1, e2]
    exact List.Perm.cons _ (List.Perm.cons _ (List.Perm.cons _ (List.Perm.cons _ (List.Perm.swap _ _ _))))
  · have e0 : (s.length - 0) % 3 = 1 := by omega
    have e1 : (s.length - 1) % 3 = 0 := by omega
    have e2 : (s.length - 2) % 3 = 2 := by omega
    rw [e0, e1, e2]
    exact List.Perm.cons _ (List.Perm.cons _ (List.Perm.cons _ (List.Perm.swap _ _ _)))
  · have e0 : (s.length - 0) % 3 = 2 := by omega
    have e1 : (s.length - 1) % 3 = 1 := by omega
    have e2 : (s.length - 2) % 3 = 0 := by omega
    rw [e0, e1, e2]
    refine List.Perm.cons _ (List.Perm.cons _ (List.Perm.cons _ ?_))
    exact (List.Perm.swap _ _ _).trans ((List.Perm.cons _ (List.Perm.swap _ _ _)).trans (List.Perm.swap _ _ _))

-- the witness of `sixframes_counter` (length 8): the labelled lists differ, the translations are a permutation
example : Canon ['A', 'T', 'G', 'A', 'A', 'A', 'T', 'A'] ∧ 2 ≤ ['A', 'T', 'G', 'A', 'A', 'A', 'T', 'A'].length := by decide

/-- Old `sixframes` is the specification's six frames for every canonical sequence of length ≥ 3
(shorter non-empty sequences raise `ValueError` in `translate`). -/
theorem old_sixframes_spec (code : Nat × List Char × List Char) (hc : code ∈ oldCodes)
    (s : List Char) (hs : Canon s) (hlen : 3 ≤ s.length) :
    oldSixframes oldDna code.2.1 s = .ok ((GCSpec.sixframes code.2.1 s).map (·.2.2)) := by
  have hr : Canon (GCSpec.rc s) := canon_rc hs
  have hrl : (GCSpec.rc s).length = s.length := spec_rc_length s
  have p := fun k (h : k < s.length) => old_translate_spec code hc s k hs h
  have m := fun k (h : k < (GCSpec.rc s).length) => old_translate_spec code hc (GCSpec.rc s) k hr h
  unfold oldSixframes
  rw [old_rc_spec s hs]
  simp only [List.mapM_cons, List.mapM_nil]
  rw [p 0 (by omega), p 1 (by omega), p 2 (by omega), m 0 (by omega), m 1 (by omega), m 2 (by omega)]
  rfl

example : Canon ['A', 'T', 'G'] ∧ 3 ≤ ['A', 'T', 'G'].length := by decide

/-! ## stop handling of `Sequence.get_translation` (canonical gap-free sequences) -/

/-- New `Sequence.get_translation`: for every code, every non-empty canonical sequence and all
eight combinations of `incomplete_ok`, `include_stop`, `trim_stop`, the result is the specification's:
a terminal stop is trimmed iff `trim_stop`, remaining stops are kept iff `include_stop` and rejected
otherwise (a length not divisible by three is rejected when trimming with `incomplete_ok=False`). -/
theorem get_translation_stop_rules (code : Nat × List Char × List Char) (hc : code ∈ newCodes)
    (s : List Char) (hs : Canon s) (hne : s ≠ []) (io is_ ts : Bool) :
    newSeqGetTranslation newDna code.2.1 s io is_ ts =
      outcomeToExcept (GCSpec.getTranslation code.2.1 s io is_ ts) :=
  new_stop_rules code.2.1 (plus_codon code hc) (new_getitem_codon code hc)
    (aa_not_gap_x code (List.mem_append_left _ hc)) s hs hne io is_ ts

example : Canon ['A', 'T', 'G', 'T', 'A', 'A'] ∧ ['A', 'T', 'G', 'T', 'A', 'A'] ≠ [] := by decide

/-- Old `Sequence.get_translation`: the same, for every combination except
`include_stop = trim_stop = True`. -/
theorem old_get_translation_stop_rules_partial (code : Nat × List Char × List Char) (hc : code ∈ oldCodes)
    (s : List Char) (hs : Canon s) (hne : s ≠ []) (io is_ ts : Bool) (hopt : ¬ (is_ = true ∧ ts = true)) :
    oldSeqGetTranslation code.2.1 s io is_ ts =
      outcomeToExcept (GCSpec.getTranslation code.2.1 s io is_ ts) :=
  old_stop_rules code.2.1 (old_codon code hc) s hs hne io is_ ts hopt

example : ¬ (false = true ∧ true = true) := by decide

/- FULL STATEMENT (not proved): `old_get_translation_stop_rules` = the statement above without `hopt`.
   False for the code as written: `if include_stop or not trim_stop:` skips the trimming, so with
   `include_stop=True, trim_stop=True` the terminal stop stays (`old_get_translation_counter`), where the
   new implementation trims it. -/

/-- Witness: `ATGAAATAA`, `include_stop = trim_stop = True`: old gives `MK*`, the specification `MK`. -/
theorem old_get_translation_counter : ∃ code ∈ oldCodes,
    oldSeqGetTranslation code.2.1 ['A', 'T', 'G', 'A', 'A', 'A', 'T', 'A', 'A'] false true true ≠
      outcomeToExcept (GCSpec.getTranslation code.2.1 ['A', 'T', 'G', 'A', 'A', 'A', 'T', 'A', 'A'] false true true) := by
  decide +kernel

/-! ## complement, reverse complement, ambiguity codes -/

/-- the IUPAC symbols of a molecular type: canonical characters, gap, degenerate symbols, missing -/
def symbols (mt : MT) : List Char := newDegenGapped mt
/-- canonical and degenerate symbols -/
def degenSymbols (mt : MT) : List Char := mt.chars ++ mt.ambig.map (·.1)
def baseSetOf (mt : MT) : Char → List Char := GCSpec.baseSet mt.chars mt.gap mt.missing mt.ambig

/-- Complement is an involution on every IUPAC symbol (DNA and RNA, old and new molecular types). -/
theorem complement_involutive :
    (∀ c ∈ symbols oldDna, oldComplChar oldDna (oldComplChar oldDna c) = c) ∧
    (∀ c ∈ symbols oldRna, oldComplChar oldRna (oldComplChar oldRna c) = c) ∧
    (∀ c ∈ symbols newDna, newComplChar newDna (newComplChar newDna c) = c) ∧
    (∀ c ∈ symbols newRna, newComplChar newRna (newComplChar newRna c) = c) := by decide +kernel

example : 'R' ∈ symbols newDna ∧ '?' ∈ symbols oldRna := by decide

/-- Reverse complement is an involution on every sequence of IUPAC symbols (all four molecular types). -/
theorem rc_involutive (s : List Char) :
    ((∀ c ∈ s, c ∈ symbols oldDna) → oldRc oldDna (oldRc oldDna s) = s) ∧
    ((∀ c ∈ s, c ∈ symbols oldRna) → oldRc oldRna (oldRc oldRna s) = s) ∧
    ((∀ c ∈ s, c ∈ symbols newDna) → newRc newDna (newRc newDna s) = s) ∧
    ((∀ c ∈ s, c ∈ symbols newRna) → newRc newRna (newRc newRna s) = s) := by
  obtain ⟨h1, h2, h3, h4⟩ := complement_involutive
  refine ⟨fun h => ?_, fun h => ?_, fun h => ?_, fun h => ?_⟩ <;>
    simp only [oldRc, oldComplement, newRc, newComplement, List.map_reverse, List.reverse_reverse,
      List.map_map]
  · conv => rhs; rw [← List.map_id s]
    exact List.map_congr_left fun c hc => h1 c (h c hc)
  · conv => rhs; rw [← List.map_id s]
    exact List.map_congr_left fun c hc => h2 c (h c hc)
  · conv => rhs; rw [← List.map_id s]
    exact List.map_congr_left fun c hc => h3 c (h c hc)
  · conv => rhs; rw [← List.map_id s]
    exact List.map_congr_left fun c hc => h4 c (h c hc)

example : ∀ c ∈ ['A', 'R', '-', 'N', '?'], c ∈ symbols newDna := by decide

/-- Complement maps each IUPAC symbol to the symbol of the complemented base set. -/
theorem complement_is_set_complement :
    (∀ c ∈ symbols oldDna, baseSetOf oldDna (oldComplChar oldDna c) =
      GCSpec.toSet ((baseSetOf oldDna c).map (GCSpec.wcBase 'T'))) ∧
    (∀ c ∈ symbols oldRna, baseSetOf oldRna (oldComplChar oldRna c) =
      GCSpec.toSet ((baseSetOf oldRna c).map (GCSpec.wcBase 'U'))) ∧
    (∀ c ∈ symbols newDna, baseSetOf newDna (newComplChar newDna c) =
      GCSpec.toSet ((baseSetOf newDna c).map (GCSpec.wcBase 'T'))) ∧
    (∀ c ∈ symbols newRna, baseSetOf newRna (newComplChar newRna c) =
      GCSpec.toSet ((baseSetOf newRna c).map (GCSpec.wcBase 'U'))) := by decide +kernel

example : baseSetOf newDna 'R' = ['A', 'G'] ∧ baseSetOf newDna 'Y' = ['C', 'T'] := by decide

/-- Resolving a (canonical or degenerate) symbol and re-encoding the resulting set gives the symbol
back; encoding a non-empty set of bases and resolving the code gives the set back. Old molecular types
(`resolve_ambiguity` / `what_ambiguity`) and new ones (`resolve_ambiguity` / `degenerate_from_seq`). -/
theorem resolve_what_inverse :
    (∀ mt ∈ [oldDna, oldRna], ∀ c ∈ degenSymbols mt,
      (oldResolve mt c).map (oldWhatAmbiguity mt) = .ok c) ∧
    (∀ mt ∈ [newDna, newRna], ∀ c ∈ degenSymbols mt,
      (newResolve mt c).map (newDegenerateFromSeq mt) = .ok c) ∧
    (∀ mt ∈ [oldDna, oldRna], ∀ S ∈ subsets mt.chars, S ≠ [] →
      (oldResolve mt (oldWhatAmbiguity mt S)).map toSet = .ok (toSet S)) ∧
    (∀ mt ∈ [newDna, newRna], ∀ S ∈ subsets mt.chars, S ≠ [] →
      newResolve mt (newDegenerateFromSeq mt S) = .ok (toSet S)) := by decide +kernel

example : ['C', 'A'] ∈ subsets newDna.chars ∧ 'M' ∈ degenSymbols newDna := by decide

end CogentModel.C12
