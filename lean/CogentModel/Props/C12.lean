import CogentModel.Model.GeneticCode
import CogentModel.Spec.GeneticCode
import CogentModel.Proofs.GeneticCode
import CogentModel.Proofs.GeneticCodeExt
import CogentModel.Spec.NCBITables
/-!
# C12 — property theorems: translation and complementing follow the genetic-code tables

`newCodes`/`oldCodes` and the IUPAC tables are regenerated from the repository on every run
(`Gen/C12Tables.lean`), so every `decide +kernel` below is re-checked against what the source says now.
A code is a triple `(ID, code_sequence, start_codon_map)`; `code.2.1` is its 64-character table.
-/
namespace CogentModel.C12
open CogentModel.GC CogentModel.C12Tables

/-! ## the tables -/

/-- Every genetic code ID present in both modules carries the same table and the same start-codon map. -/
theorem tables_agree : ∀ c ∈ oldCodes, ∀ d ∈ newCodes, c.1 = d.1 → c.2 = d.2 := by decide +kernel

/-- Both modules define the same code IDs, in the same order, and more than twenty of them. -/
theorem tables_same_ids : oldCodes.map (·.1) = newCodes.map (·.1) ∧ 20 < newCodes.length := by decide +kernel

/-- Every table and start-codon map has exactly 64 entries (one per codon of `TCAG³`). -/
theorem tables_wellformed : ∀ c ∈ oldCodes ++ newCodes, c.2.1.length = 64 ∧ c.2.2.length = 64 := by
  decide +kernel

example : ∃ c ∈ newCodes, c.1 = 1 := by decide

/-! ## one codon -/

/-- For every code and every canonical codon the modelled k-mer-index converters give the table entry:
plus-strand converter on the codon, minus-strand (anticodon) converter on the codon = entry of the
reverse-complemented codon; likewise `__getitem__` of both implementations. (64 × #codes each.) -/
theorem converter_is_table :
    (∀ code ∈ newCodes, ∀ a ∈ GCSpec.bases, ∀ b ∈ GCSpec.bases, ∀ c ∈ GCSpec.bases,
      plusOf code.2.1 a b c = GCSpec.aa code.2.1 [a, b, c]) ∧
    (∀ code ∈ newCodes, ∀ a ∈ GCSpec.bases, ∀ b ∈ GCSpec.bases, ∀ c ∈ GCSpec.bases,
      minusOf code.2.1 a b c = GCSpec.aa code.2.1 [GCSpec.wc c, GCSpec.wc b, GCSpec.wc a]) ∧
    (∀ code ∈ newCodes, ∀ a ∈ GCSpec.bases, ∀ b ∈ GCSpec.bases, ∀ c ∈ GCSpec.bases,
      newGetItem newDna code.2.1 [a, b, c] = GCSpec.aa code.2.1 [a, b, c]) ∧
    (∀ code ∈ oldCodes, ∀ a ∈ GCSpec.bases, ∀ b ∈ GCSpec.bases, ∀ c ∈ GCSpec.bases,
      oldGetItem code.2.1 [a, b, c] = GCSpec.aa code.2.1 [a, b, c]) :=
  ⟨plus_codon, minus_codon, new_getitem_codon, old_codon⟩

example : ['A', 'T', 'G'] ∈ GCSpec.codons := by decide

/-! ## plus strand, all sequences, all start offsets -/

/-- New implementation, plus strand, FULL strength: for every code, every canonical sequence of any
length and every start offset, `translate` is the table mapped over the successive codons.
(Before commit 4cf1b0e7f this needed "< 256 codons": the k-mer index array switched to uint16.) -/
theorem translate_plus_spec (code : Nat × List Char × List Char) (hc : code ∈ newCodes)
    (s : List Char) (start : Nat) (hs : Canon s) :
    newTranslate newDna code.2.1 s start false = GCSpec.translate code.2.1 (s.drop start) :=
  new_translate_plus code.2.1 (plus_codon code hc) s start hs

example : Canon ['A', 'T', 'G', 'A', 'A', 'A', 'T', 'A'] := by decide

/-- Old implementation: for every code, canonical sequence and start offset inside the sequence,
`translate` is the table mapped over the successive codons (no length restriction). -/
theorem old_translate_spec (code : Nat × List Char × List Char) (hc : code ∈ oldCodes)
    (s : List Char) (start : Nat) (hs : Canon s) (hstart : start < s.length) :
    oldTranslate code.2.1 s start = .ok (GCSpec.translate code.2.1 (s.drop start)) :=
  old_translate_spec' code.2.1 (old_codon code hc) s start hs hstart

example : Canon ['A', 'T', 'G', 'A'] ∧ 2 < ['A', 'T', 'G', 'A'].length := by decide

/-- Old and new `translate` agree on the plus strand for every code ID present in both modules, every
canonical sequence and every start offset inside it. -/
theorem old_new_translate_agree (c d : Nat × List Char × List Char) (hc : c ∈ oldCodes) (hd : d ∈ newCodes)
    (hid : c.1 = d.1) (s : List Char) (start : Nat) (hs : Canon s) (hstart : start < s.length) :
    oldTranslate c.2.1 s start = .ok (newTranslate newDna d.2.1 s start false) := by
  rw [translate_plus_spec d hd s start hs, old_translate_spec c hc s start hs hstart,
    tables_agree c hc d hd hid]

example : ∃ c ∈ oldCodes, ∃ d ∈ newCodes, c.1 = d.1 := by decide

/-! ## minus strand -/

/-- What the new `translate(rc=True)` computes for every canonical sequence and start offset:
the translation of the reverse complement of the slice *after* it has been cut to a multiple of three
on the plus strand. -/
theorem translate_minus_actual (code : Nat × List Char × List Char) (hc : code ∈ newCodes)
    (s : List Char) (start : Nat) (hs : Canon s) :
    newTranslate newDna code.2.1 s start true =
      GCSpec.translate code.2.1 (GCSpec.rc (trunc3 (s.drop start))) :=
  new_translate_minus code.2.1 (minus_codon code hc) s start hs

/-- … which, for a frame offset `k < 3`, is reverse-strand frame `(len - k) % 3`, not frame `k`. -/
theorem translate_minus_frame (code : Nat × List Char × List Char) (hc : code ∈ newCodes)
    (s : List Char) (k : Nat) (hk : k < 3) (hs : Canon s) :
    newTranslate newDna code.2.1 s k true = GCSpec.frame code.2.1 s true ((s.length - k) % 3) := by
  rw [translate_minus_actual code hc s k hs, rc_trunc_frame code.2.1 s k hk]
  rfl

/-- Reverse strand = translation of the explicit reverse complement from `start` on — proved under the
extra hypothesis `(len - start) % 3 = start` (e.g. `start = 0` and a length divisible by three). -/
theorem translate_minus_spec_partial (code : Nat × List Char × List Char) (hc : code ∈ newCodes)
    (s : List Char) (start : Nat) (hs : Canon s)
    (hframe : (s.length - start) % 3 = start) :
    newTranslate newDna code.2.1 s start true = GCSpec.translate code.2.1 ((GCSpec.rc s).drop start) := by
  have hk : start < 3 := by omega
  have := translate_minus_frame code hc s start hk hs
  rw [hframe] at this
  exact this

example : Canon ['A', 'T', 'G', 'A', 'A', 'A', 'T', 'A'] ∧ (8 - 1) % 3 = 1 := by decide

/- FULL STATEMENT (not proved): `translate_minus_spec` = the statement above without `hframe` .
   It is false for the code as written (`translate_minus_counter`): `translate`
   drops `start` characters and the incomplete codon from the PLUS strand before reversing, so the
   reading frame on the minus strand is `(len - start) % 3`.  `GeneticCode.sixframes` of the old module
   (and the docstring "returns the translation of the reverse complement sequence") use frame `start`. -/

/-- Witness: `ATGAAATA` (length 8), code 1, start 0: the code as written gives `FH`, the reverse
complement `TATTTCAT` translates to `YF`. -/
theorem translate_minus_counter : ∃ code ∈ newCodes,
    newTranslate newDna code.2.1 ['A', 'T', 'G', 'A', 'A', 'A', 'T', 'A'] 0 true ≠
      GCSpec.translate code.2.1 ((GCSpec.rc ['A', 'T', 'G', 'A', 'A', 'A', 'T', 'A']).drop 0) := by
  decide +kernel

/-! ## six frames -/

/-- New `sixframes` on any canonical sequence: the three plus frames are right; the minus frame labelled
`k` is reverse-strand frame `(len - k) % 3` (a relabelling of the three correct minus-strand frames). -/
theorem sixframes_spec_partial (code : Nat × List Char × List Char) (hc : code ∈ newCodes)
    (s : List Char) (hs : Canon s) :
    newSixframes newDna code.2.1 s =
      [(false, 0, GCSpec.frame code.2.1 s false 0), (false, 1, GCSpec.frame code.2.1 s false 1),
       (false, 2, GCSpec.frame code.2.1 s false 2),
       (true, 0, GCSpec.frame code.2.1 s true ((s.length - 0) % 3)),
       (true, 1, GCSpec.frame code.2.1 s true ((s.length - 1) % 3)),
       (true, 2, GCSpec.frame code.2.1 s true ((s.length - 2) % 3))] := by
  have p := fun k => translate_plus_spec code hc s k hs
  have m := fun k (hk : k < 3) => translate_minus_frame code hc s k hk hs
  simp only [newSixframes, List.flatMap_cons, List.flatMap_nil, List.map_cons, List.map_nil,
    List.append_nil, List.cons_append, List.nil_append]
  rw [p 0, p 1, p 2, m 0 (by omega), m 1 (by omega), m 2 (by omega)]
  rfl

example : Canon ['A', 'T', 'G', 'G', 'G', 'G', 'T', 'A', 'A', 'C', 'A', 'T'] := by decide

/- FULL STATEMENT (not proved): `sixframes_spec`: `newSixframes … s = GCSpec.sixframes code.2.1 s`.
   False for every length ≥ 4 or so: at least two of the three minus-strand labels are permuted
   (`sixframes_counter`); equal only as a set of translations. -/

theorem sixframes_counter : ∃ code ∈ newCodes,
    newSixframes newDna code.2.1 ['A', 'T', 'G', 'A', 'A', 'A', 'T', 'A'] ≠
      GCSpec.sixframes code.2.1 ['A', 'T', 'G', 'A', 'A', 'A', 'T', 'A'] := by decide +kernel

/-! ## Added by the audit: the minus frames of the new `sixframes` are right *as a multiset* -/

/-- the three minus-strand translations of the new `sixframes` are the three correct minus-strand frames, as a multiset -/
theorem sixframes_same_translations (code : Nat × List Char × List Char) (hc : code ∈ newCodes)
    (s : List Char) (hs : Canon s) (h2 : 2 ≤ s.length) :
    ((newSixframes newDna code.2.1 s).map (·.2.2)).Perm ((GCSpec.sixframes code.2.1 s).map (·.2.2)) := by
  rw [sixframes_spec_partial code hc s hs]
  simp only [GCSpec.sixframes, List.flatMap_cons, List.flatMap_nil, List.map_cons, List.map_nil,
    List.append_nil, List.cons_append, List.nil_append]
  have h3 : s.length % 3 = 0 ∨ s.length % 3 = 1 ∨ s.length % 3 = 2 := by omega
  rcases h3 with h | h | h
  · have e0 : (s.length - 0) % 3 = 0 := by omega
    have e1 : (s.length - 1) % 3 = 2 := by omega
    have e2 : (s.length - 2) % 3 = 1 := by omega
    rw [e0, e1, e2]
    exact List.Perm.cons _ (List.Perm.cons _ (List.Perm.cons _ (List.Perm.cons _ (List.Perm.swap _ _ _))))
  · have e0 : (s.length - 0) % 3 = 1 := by omega
    have e1 : (s.length - 1) % 3 = 0 := by omega
    have e2 : (s.length - 2) % 3 = 2 := by omega
    rw [e0, e1, e2]
    exact List.Perm.cons _ (List.Perm.cons _ (List.Perm.cons _ (List.Perm.swap _ _ _)))
  · have e0 : (s.length - 0) % 3 = 2 := by omega
    have e1 : (s.length - 1) % 3 = 1 := by omega
    have e2 : (s.length - 2) % 3 = 0 := by omega
    rw [e0, e1, e2]
    refine List.Perm.cons _ (List.Perm.cons _ (List.Perm.cons _ ?_))
    exact (List.Perm.swap _ _ _).trans ((List.Perm.cons _ (List.Perm.swap _ _ _)).trans (List.Perm.swap _ _ _))

-- the witness of `sixframes_counter` (length 8): the labelled lists differ, the translations are a permutation
example : Canon ['A', 'T', 'G', 'A', 'A', 'A', 'T', 'A'] ∧ 2 ≤ ['A', 'T', 'G', 'A', 'A', 'A', 'T', 'A'].length := by decide

/-- Old `sixframes` is the specification's six frames for every canonical sequence of length ≥ 3
(shorter non-empty sequences raise `ValueError` in `translate`). -/
theorem old_sixframes_spec (code : Nat × List Char × List Char) (hc : code ∈ oldCodes)
    (s : List Char) (hs : Canon s) (hlen : 3 ≤ s.length) :
    oldSixframes oldDna code.2.1 s = .ok ((GCSpec.sixframes code.2.1 s).map (·.2.2)) := by
  have hr : Canon (GCSpec.rc s) := canon_rc hs
  have hrl : (GCSpec.rc s).length = s.length := spec_rc_length s
  have p := fun k (h : k < s.length) => old_translate_spec code hc s k hs h
  have m := fun k (h : k < (GCSpec.rc s).length) => old_translate_spec code hc (GCSpec.rc s) k hr h
  unfold oldSixframes
  rw [old_rc_spec s hs]
  simp only [List.mapM_cons, List.mapM_nil]
  rw [p 0 (by omega), p 1 (by omega), p 2 (by omega), m 0 (by omega), m 1 (by omega), m 2 (by omega)]
  rfl

example : Canon ['A', 'T', 'G'] ∧ 3 ≤ ['A', 'T', 'G'].length := by decide

/-! ## stop handling of `Sequence.get_translation` (canonical gap-free sequences) -/

/-- New `Sequence.get_translation`: for every code, every non-empty canonical sequence and all
eight combinations of `incomplete_ok`, `include_stop`, `trim_stop`, the result is the specification's:
a terminal stop is trimmed iff `trim_stop`, remaining stops are kept iff `include_stop` and rejected
otherwise (a length not divisible by three is rejected when trimming with `incomplete_ok=False`). -/
theorem get_translation_stop_rules (code : Nat × List Char × List Char) (hc : code ∈ newCodes)
    (s : List Char) (hs : Canon s) (hne : s ≠ []) (io is_ ts : Bool) :
    newSeqGetTranslation newDna code.2.1 s io is_ ts =
      outcomeToExcept (GCSpec.getTranslation code.2.1 s io is_ ts) :=
  new_stop_rules code.2.1 (plus_codon code hc) (new_getitem_codon code hc)
    (aa_not_gap_x code (List.mem_append_left _ hc)) s hs hne io is_ ts

example : Canon ['A', 'T', 'G', 'T', 'A', 'A'] ∧ ['A', 'T', 'G', 'T', 'A', 'A'] ≠ [] := by decide

/-- Old `Sequence.get_translation`: the same, for every combination except
`include_stop = trim_stop = True`. -/
theorem old_get_translation_stop_rules_partial (code : Nat × List Char × List Char) (hc : code ∈ oldCodes)
    (s : List Char) (hs : Canon s) (hne : s ≠ []) (io is_ ts : Bool) (hopt : ¬ (is_ = true ∧ ts = true)) :
    oldSeqGetTranslation code.2.1 s io is_ ts =
      outcomeToExcept (GCSpec.getTranslation code.2.1 s io is_ ts) :=
  old_stop_rules code.2.1 (old_codon code hc) s hs hne io is_ ts hopt

example : ¬ (false = true ∧ true = true) := by decide

/- FULL STATEMENT (not proved): `old_get_translation_stop_rules` = the statement above without `hopt`.
   False for the code as written: `if include_stop or not trim_stop:` skips the trimming, so with
   `include_stop=True, trim_stop=True` the terminal stop stays (`old_get_translation_counter`), where the
   new implementation trims it. -/

/-- Witness: `ATGAAATAA`, `include_stop = trim_stop = True`: old gives `MK*`, the specification `MK`. -/
theorem old_get_translation_counter : ∃ code ∈ oldCodes,
    oldSeqGetTranslation code.2.1 ['A', 'T', 'G', 'A', 'A', 'A', 'T', 'A', 'A'] false true true ≠
      outcomeToExcept (GCSpec.getTranslation code.2.1 ['A', 'T', 'G', 'A', 'A', 'A', 'T', 'A', 'A'] false true true) := by
  decide +kernel

/-! ## the tables ARE the NCBI tables -/

/-- The code tables and start-codon maps extracted from both modules are exactly the NCBI genetic codes written
down independently in `Spec/NCBITables.lean` (standard code by amino acid + NCBI's "differences from the standard
code" + initiation codons), for every transl_table id the library offers, in the same order. -/
theorem tables_are_ncbi : newCodes = NCBI.tables ∧ oldCodes = NCBI.tables := by decide +kernel

example : NCBI.tables.length = 27 ∧ (NCBI.tableOf [("TGA", 'W')]).length = 64 := by decide

/-! ## beyond upper-case TCAG: RNA, lower case, gapped / ambiguous codons -/

/-- New `translate` (plus strand) on ANY text of plain characters (the six alphabet characters or any other ASCII
character with code point ≥ 6), every code, every start: a canonical codon gives its table entry, a codon of
`T C A G -` with at least one gap gives `'-'`, anything else — ambiguity codes, `?`, `U`, lower case — gives `'X'`. -/
theorem translate_general_spec (code : Nat × List Char × List Char) (hc : code ∈ newCodes)
    (s : List Char) (start : Nat) (hp : Plain s) :
    newTranslate newDna code.2.1 s start false = GCSpec.translateNew code.2.1 (s.drop start) :=
  new_translate_plus_general code.2.1 (plus_codon code hc)
    ⟨(plus_sentinels code hc).1, (plus_sentinels code hc).2.1⟩ s start hp

example : Plain ['A', 'T', 'G', 'A', '-', '-', 'a', 'U', 'G', 'N', 'N', 'N', '?', 'A', 'T'] := by decide

/-- Old `translate` on ANY text (model assumption: ASCII), every code: the empty text gives the empty string, a start
at or beyond the end raises ValueError, otherwise every codon is normalised (upper case, `U → T`) and gives its table
entry if it is then canonical and `'X'` if not (RNA and lower case are translated; gaps, ambiguity codes → `'X'`). -/
theorem old_translate_general_spec (code : Nat × List Char × List Char) (hc : code ∈ oldCodes)
    (s : List Char) (start : Nat) (_hascii : ∀ c ∈ s, c.toNat < 128) :
    oldTranslate code.2.1 s start =
      if s = [] then .ok []
      else if s.length ≤ start then .error .valueError
      else .ok (GCSpec.translateOld code.2.1 (s.drop start)) := by
  unfold oldTranslate
  cases s with
  | nil => simp
  | cons x xs =>
    simp only [List.isEmpty_cons, Bool.false_eq_true, if_false, List.cons_ne_nil]
    by_cases hle : (x :: xs).length ≤ start
    · have : start + 1 > (x :: xs).length := by omega
      rw [if_pos this, if_pos hle]
    · have : ¬ (start + 1 > (x :: xs).length) := by omega
      rw [if_neg this, if_neg hle, old_chunks_general code.2.1 (old_codon code hc)]

example : GCSpec.translateOld (NCBI.tableOf []) ['a', 'u', 'g', 'A', 'A', 'R', '-', '-', '-'] = ['M', 'X', 'X'] := by decide

/-! ## collections and alignments, row by row (rows: canonical, non-empty, length a multiple of three) -/

/-- `has_terminal_stop` and `trim_stop_codons` of a collection (old and new `SequenceCollection`) and
`AlignmentI.trim_stop_codons`, with the genetic code passed through: the answer is "some row's translation ends in a
stop"; every row whose translation ends in a stop loses its last codon (collections) / has it replaced by three gaps
(alignments), all other rows are unchanged. -/
theorem collection_trim_rowwise (rows : List (List Char)) (h : CodonRows rows) (strict : Bool) :
    (∀ code ∈ oldCodes,
      collHasTerminalStop (oldGetItem code.2.1) rows strict = .ok (rows.any (endsWithStop code.2.1)) ∧
      collTrimStopCodons (oldGetItem code.2.1) rows strict = .ok (rows.map (specTrimRow code.2.1)) ∧
      alnTrimStopCodons (oldGetItem code.2.1) rows strict = .ok (rows.map (specAlnTrimRow code.2.1))) ∧
    (∀ code ∈ newCodes,
      collHasTerminalStop (newGetItem newDna code.2.1) rows strict = .ok (rows.any (endsWithStop code.2.1)) ∧
      collTrimStopCodons (newGetItem newDna code.2.1) rows strict = .ok (rows.map (specTrimRow code.2.1))) :=
  ⟨fun code hc => ⟨coll_has_terminal_stop' _ _ (old_codon code hc) strict rows h,
      coll_trim' _ _ (old_codon code hc) strict rows h, aln_trim' _ _ (old_codon code hc) strict rows h⟩,
   fun code hc => ⟨coll_has_terminal_stop' _ _ (new_getitem_codon code hc) strict rows h,
      coll_trim' _ _ (new_getitem_codon code hc) strict rows h⟩⟩

example : CodonRows [['A', 'T', 'G', 'T', 'A', 'A'], ['A', 'T', 'G', 'C', 'C', 'C']] := by decide

/-- New `SequenceCollection.get_translation` is the sequence-level specification mapped over the rows, for every
code, all eight option combinations and any canonical non-empty rows (any lengths); the first rejected row rejects
the call. -/
theorem collection_translation_rowwise (code : Nat × List Char × List Char) (hc : code ∈ newCodes)
    (rows : List (List Char)) (h : ∀ r ∈ rows, Canon r ∧ r ≠ []) (io is_ ts : Bool) :
    newCollGetTranslation newDna code.2.1 rows io is_ ts = specCollTranslation code.2.1 rows io is_ ts :=
  new_coll_rowwise code.2.1 (plus_codon code hc) (new_getitem_codon code hc)
    (aa_not_gap_x code (List.mem_append_left _ hc)) rows h io is_ ts

example : ∀ r ∈ [['A', 'T', 'G', 'T', 'A', 'A'], ['A', 'T', 'G', 'C']], Canon r ∧ r ≠ [] := by decide

/-- Old `SequenceCollection.get_translation` (pre-pass `trim_stop_codons`, then `Sequence.get_translation` per row with
`trim_stop and seqs is self`, as repaired in 8fbe3611a) is row-wise the specification, rows ending in TWO stop codons
included (the remaining stop is rejected) — except for `include_stop = trim_stop = True` (known finding) and for a row that
is nothing but a stop codon (it would become empty). -/
theorem old_collection_translation_rowwise_partial (code : Nat × List Char × List Char) (hc : code ∈ oldCodes)
    (rows : List (List Char)) (h : CodonRows rows) (io is_ ts : Bool) (hopt : ¬ (is_ = true ∧ ts = true))
    (hlen : ∀ r ∈ rows, endsWithStop code.2.1 r = true → 3 < r.length) :
    oldCollGetTranslation code.2.1 rows io is_ ts = specCollTranslation code.2.1 rows io is_ ts :=
  old_coll_rowwise code.2.1 (old_codon code hc) rows h io is_ ts hopt hlen

example : ¬ (false = true ∧ true = true) ∧ CodonRows [['A', 'T', 'G', 'T', 'A', 'A', 'T', 'A', 'A']] := by decide

/- FULL STATEMENT (not proved): `old_collection_translation_rowwise` = the statement above without `hopt`.
   False for the code as written: see `old_get_translation_counter` (`include_stop` overrides `trim_stop`). -/

/-- The former double trimming (pre-pass and per-row call both trimmed, `ATGTAATAA` gave `M`) is gone: the single row
`ATGTAATAA` with the default options is rejected, as the sequence-level call and the specification do. -/
theorem old_collection_double_stop_rejected : ∀ code ∈ oldCodes, code.1 = 1 →
    oldCollGetTranslation code.2.1 [['A', 'T', 'G', 'T', 'A', 'A', 'T', 'A', 'A']] false false true = .error .alphabetError := by
  decide +kernel

example : ∃ code ∈ oldCodes, code.1 = 1 := by decide

/-! ## complement, reverse complement, ambiguity codes -/

/-- the IUPAC symbols of a molecular type: canonical characters, gap, degenerate symbols, missing -/
def symbols (mt : MT) : List Char := newDegenGapped mt
/-- canonical and degenerate symbols -/
def degenSymbols (mt : MT) : List Char := mt.chars ++ mt.ambig.map (·.1)
def baseSetOf (mt : MT) : Char → List Char := GCSpec.baseSet mt.chars mt.gap mt.missing mt.ambig

/-- Complement is an involution on every IUPAC symbol (DNA and RNA, old and new molecular types). -/
theorem complement_involutive :
    (∀ c ∈ symbols oldDna, oldComplChar oldDna (oldComplChar oldDna c) = c) ∧
    (∀ c ∈ symbols oldRna, oldComplChar oldRna (oldComplChar oldRna c) = c) ∧
    (∀ c ∈ symbols newDna, newComplChar newDna (newComplChar newDna c) = c) ∧
    (∀ c ∈ symbols newRna, newComplChar newRna (newComplChar newRna c) = c) := by decide +kernel

example : 'R' ∈ symbols newDna ∧ '?' ∈ symbols oldRna := by decide

/-- Reverse complement is an involution on every sequence of IUPAC symbols (all four molecular types). -/
theorem rc_involutive (s : List Char) :
    ((∀ c ∈ s, c ∈ symbols oldDna) → oldRc oldDna (oldRc oldDna s) = s) ∧
    ((∀ c ∈ s, c ∈ symbols oldRna) → oldRc oldRna (oldRc oldRna s) = s) ∧
    ((∀ c ∈ s, c ∈ symbols newDna) → newRc newDna (newRc newDna s) = s) ∧
    ((∀ c ∈ s, c ∈ symbols newRna) → newRc newRna (newRc newRna s) = s) := by
  obtain ⟨h1, h2, h3, h4⟩ := complement_involutive
  refine ⟨fun h => ?_, fun h => ?_, fun h => ?_, fun h => ?_⟩ <;>
    simp only [oldRc, oldComplement, newRc, newComplement, List.map_reverse, List.reverse_reverse,
      List.map_map]
  · conv => rhs; rw [← List.map_id s]
    exact List.map_congr_left fun c hc => h1 c (h c hc)
  · conv => rhs; rw [← List.map_id s]
    exact List.map_congr_left fun c hc => h2 c (h c hc)
  · conv => rhs; rw [← List.map_id s]
    exact List.map_congr_left fun c hc => h3 c (h c hc)
  · conv => rhs; rw [← List.map_id s]
    exact List.map_congr_left fun c hc => h4 c (h c hc)

example : ∀ c ∈ ['A', 'R', '-', 'N', '?'], c ∈ symbols newDna := by decide

/-- Complement maps each IUPAC symbol to the symbol of the complemented base set. -/
theorem complement_is_set_complement :
    (∀ c ∈ symbols oldDna, baseSetOf oldDna (oldComplChar oldDna c) =
      GCSpec.toSet ((baseSetOf oldDna c).map (GCSpec.wcBase 'T'))) ∧
    (∀ c ∈ symbols oldRna, baseSetOf oldRna (oldComplChar oldRna c) =
      GCSpec.toSet ((baseSetOf oldRna c).map (GCSpec.wcBase 'U'))) ∧
    (∀ c ∈ symbols newDna, baseSetOf newDna (newComplChar newDna c) =
      GCSpec.toSet ((baseSetOf newDna c).map (GCSpec.wcBase 'T'))) ∧
    (∀ c ∈ symbols newRna, baseSetOf newRna (newComplChar newRna c) =
      GCSpec.toSet ((baseSetOf newRna c).map (GCSpec.wcBase 'U'))) := by decide +kernel

example : baseSetOf newDna 'R' = ['A', 'G'] ∧ baseSetOf newDna 'Y' = ['C', 'T'] := by decide

/-- Resolving a (canonical or degenerate) symbol and re-encoding the resulting set gives the symbol
back; encoding a non-empty set of bases and resolving the code gives the set back. Old molecular types
(`resolve_ambiguity` / `what_ambiguity`) and new ones (`resolve_ambiguity` / `degenerate_from_seq`). -/
theorem resolve_what_inverse :
    (∀ mt ∈ [oldDna, oldRna], ∀ c ∈ degenSymbols mt,
      (oldResolve mt c).map (oldWhatAmbiguity mt) = .ok c) ∧
    (∀ mt ∈ [newDna, newRna], ∀ c ∈ degenSymbols mt,
      (newResolve mt c).map (newDegenerateFromSeq mt) = .ok c) ∧
    (∀ mt ∈ [oldDna, oldRna], ∀ S ∈ subsets mt.chars, S ≠ [] →
      (oldResolve mt (oldWhatAmbiguity mt S)).map toSet = .ok (toSet S)) ∧
    (∀ mt ∈ [newDna, newRna], ∀ S ∈ subsets mt.chars, S ≠ [] →
      newResolve mt (newDegenerateFromSeq mt S) = .ok (toSet S)) := by decide +kernel

example : ['C', 'A'] ∈ subsets newDna.chars ∧ 'M' ∈ degenSymbols newDna := by decide

/-! ## sequence objects: `rc()` on any view (C01's wrapper model, instantiated with the real complement tables) -/

/-- For the complement tables of all four molecular types and every well-formed nucleic-acid sequence object
(`Model/SeqWrap.lean`: a parent string with a view — sliced, strided, already reversed), the string displayed by
`seq.rc()` is the molecular type's reverse complement of the string displayed by `seq`, and `seq.rc().rc()` displays
the same string as `seq`.  (The tables are involutions on EVERY character: closed on their keys, identity elsewhere.) -/
theorem seq_rc_displayed (s : SeqWrap.Seq) (h : SeqWrap.WF s) (hn : s.nucleic = true) :
    (SeqWrap.str (oldComplChar oldDna) (SeqWrap.rc s) = oldRc oldDna (SeqWrap.str (oldComplChar oldDna) s) ∧
     SeqWrap.str (oldComplChar oldDna) (SeqWrap.rc (SeqWrap.rc s)) = SeqWrap.str (oldComplChar oldDna) s) ∧
    (SeqWrap.str (oldComplChar oldRna) (SeqWrap.rc s) = oldRc oldRna (SeqWrap.str (oldComplChar oldRna) s) ∧
     SeqWrap.str (oldComplChar oldRna) (SeqWrap.rc (SeqWrap.rc s)) = SeqWrap.str (oldComplChar oldRna) s) ∧
    (SeqWrap.str (newComplChar newDna) (SeqWrap.rc s) = newRc newDna (SeqWrap.str (newComplChar newDna) s) ∧
     SeqWrap.str (newComplChar newDna) (SeqWrap.rc (SeqWrap.rc s)) = SeqWrap.str (newComplChar newDna) s) ∧
    (SeqWrap.str (newComplChar newRna) (SeqWrap.rc s) = newRc newRna (SeqWrap.str (newComplChar newRna) s) ∧
     SeqWrap.str (newComplChar newRna) (SeqWrap.rc (SeqWrap.rc s)) = SeqWrap.str (newComplChar newRna) s) := by
  obtain ⟨k1, k2, k3, k4⟩ := compl_keys_invol
  have c1 := old_compl_invol_all oldDna k1
  have c2 := old_compl_invol_all oldRna k2
  have c3 := new_compl_invol_all newDna k3
  have c4 := new_compl_invol_all newRna k4
  exact ⟨⟨by rw [SeqWrap.str_rc' _ c1 s h hn, specRc_eq_oldRc], SeqWrap.rc_rc' _ c1 s h hn⟩,
    ⟨by rw [SeqWrap.str_rc' _ c2 s h hn, specRc_eq_oldRc], SeqWrap.rc_rc' _ c2 s h hn⟩,
    ⟨by rw [SeqWrap.str_rc' _ c3 s h hn, specRc_eq_newRc], SeqWrap.rc_rc' _ c3 s h hn⟩,
    ⟨by rw [SeqWrap.str_rc' _ c4 s h hn, specRc_eq_newRc], SeqWrap.rc_rc' _ c4 s h hn⟩⟩

example : SeqWrap.WF (SeqWrap.ofString ['A', 'C', 'G', 'G', 'T', 'R', '-'] true) := SeqWrap.wf_ofString _ _

end CogentModel.C12
