/-
  C13 — ReadOnlyDataStoreZipped (wave 2): a zipped DataStoreDirectory shows the directory store's members.
  Model: Model/DataStoreZip.lean (tied to the real class by the harness stream `zipcorr` on real archives).
  For EVERY directory-store state whose files are plain names (`ZipOk`): the not-completed and log listings of the zipped store are
  those of the directory store (`zipped_not_completed_eq_directory`, `zipped_logs_eq_directory`); the completed listing is the
  directory store's ONLY IF no side file (not_completed/*.json, logs/*, md5/*.txt) carries the store suffix
  (`zipped_completed_eq_directory_partial`; false without it: `zipped_lists_side_file_counter`, finding
  C13-zipped-completed-lists-subdirectories); with the proposed repair (top-level entries only) it holds unconditionally
  (`zipped_completed_top_eq_directory`).
-/
import CogentModel.Proofs.DataStoreZip
namespace CogentModel.C13
open CogentModel CogentModel.KV CogentModel.DataStore CogentModel.DataStoreZip

variable {D : Type}

theorem zipped_completed_top_eq_directory (top : Str) (s : Dir D) (ok : ZipOk top s) :
    zCompletedTop top s.sfx (zipNames top s) = globC s := by
  obtain ⟨ht, htn, htl, htm, hr, hnc, hlg, hm5⟩ := ok
  unfold zCompletedTop iterMatches zipNames globC
  simp only [List.filter_append, List.map_append, List.filter_filter]
  rw [filter_map_keep (l := keys s.root) (q := fun n => endsWith n ('.' :: s.sfx)) (g' := id)]
  · rw [filter_map_none (l := keys s.md5)]
    · have e1 : ∀ b : Bool, List.filter (fun a => parentName a == top &&
                (((([] : Str).isEmpty || parentName a == []) && globMatch ('*' :: '.' :: s.sfx) a) && !startsWith (pathName (stripSlash a)) ['.']))
              (if b = true then List.map (fun n => top ++ '/' :: sNotCompleted ++ '/' :: n) (keys s.nc) else []) = [] := by
        intro b; cases b
        · simp
        · simp only [if_true]
          apply filter_map_none
          intro n hn
          rw [parent_sub top _ n plain_nc (hnc n hn).1]
          simp [Ne.symm htn]
      have e2 : ∀ b : Bool, List.filter (fun a => parentName a == top &&
                (((([] : Str).isEmpty || parentName a == []) && globMatch ('*' :: '.' :: s.sfx) a) && !startsWith (pathName (stripSlash a)) ['.']))
              (if b = true then List.map (fun n => top ++ '/' :: sLogs ++ '/' :: n) (keys s.logs) else []) = [] := by
        intro b; cases b
        · simp
        · simp only [if_true]
          apply filter_map_none
          intro n hn
          rw [parent_sub top _ n plain_logs (hlg n hn).1]
          simp [Ne.symm htl]
      rw [e1, e2]; simp
    · intro n hn
      rw [parent_sub top _ n plain_md5 (hm5 n hn)]
      simp [Ne.symm htm]
  · intro n hn
    obtain ⟨hp, hd⟩ := hr n hn
    simp [parent_top top n ht hp, glob_star _ top n hp, stripSlash_join top n hp, pathName_join top n hp, hd]

theorem zipped_completed_eq_directory_partial (top : Str) (s : Dir D) (ok : ZipOk top s)
    (hside : ∀ n, (n ∈ keys s.nc ∨ n ∈ keys s.logs ∨ n ∈ keys s.md5) → endsWith n ('.' :: s.sfx) = false) :
    zCompleted s.sfx (zipNames top s) = globC s := by
  obtain ⟨ht, htn, htl, htm, hr, hnc, hlg, hm5⟩ := ok
  unfold zCompleted iterMatches zipNames globC
  simp only [List.filter_append, List.map_append]
  rw [filter_map_keep (l := keys s.root) (q := fun n => endsWith n ('.' :: s.sfx)) (g' := id)]
  · rw [filter_map_none (l := keys s.md5)]
    · have e1 : ∀ b : Bool, List.filter (fun a => 
                (((([] : Str).isEmpty || parentName a == []) && globMatch ('*' :: '.' :: s.sfx) a) && !startsWith (pathName (stripSlash a)) ['.']))
              (if b = true then List.map (fun n => top ++ '/' :: sNotCompleted ++ '/' :: n) (keys s.nc) else []) = [] := by
        intro b; cases b
        · simp
        · simp only [if_true]
          apply filter_map_none
          intro n hn
          rw [glob_star _ _ n (hnc n hn).1, hside n (Or.inl hn)]
          simp
      have e2 : ∀ b : Bool, List.filter (fun a => 
                (((([] : Str).isEmpty || parentName a == []) && globMatch ('*' :: '.' :: s.sfx) a) && !startsWith (pathName (stripSlash a)) ['.']))
              (if b = true then List.map (fun n => top ++ '/' :: sLogs ++ '/' :: n) (keys s.logs) else []) = [] := by
        intro b; cases b
        · simp
        · simp only [if_true]
          apply filter_map_none
          intro n hn
          rw [glob_star _ _ n (hlg n hn).1, hside n (Or.inr (Or.inl hn))]
          simp
      rw [e1, e2]; simp
    · intro n hn
      rw [glob_star _ _ n (hm5 n hn), hside n (Or.inr (Or.inr hn))]
      simp
  · intro n hn
    obtain ⟨hp, hd⟩ := hr n hn
    simp [glob_star _ top n hp, stripSlash_join top n hp, pathName_join top n hp, hd]

theorem zipped_not_completed_eq_directory (top : Str) (s : Dir D) (ok : ZipOk top s) :
    zNotCompleted (zipNames top s) = (globNc s).map (fun n => ncPrefix ++ n) := by
  obtain ⟨ht, htn, htl, htm, hr, hnc, hlg, hm5⟩ := ok
  have hne : sNotCompleted.isEmpty = false := by decide
  have h1 : sLogs ≠ sNotCompleted := by decide
  have h2 : sMd5 ≠ sNotCompleted := by decide
  unfold zNotCompleted iterMatches zipNames globNc
  simp only [List.filter_append, List.map_append, hne, Bool.false_or]
  rw [filter_map_none (l := keys s.root), filter_map_none (l := keys s.md5)]
  · have e2 : ∀ b : Bool, List.filter (fun a =>
                ((parentName a == sNotCompleted && globMatch ('*' :: '.' :: sJson) a) && !startsWith (pathName (stripSlash a)) ['.']))
              (if b = true then List.map (fun n => top ++ '/' :: sLogs ++ '/' :: n) (keys s.logs) else []) = [] := by
      intro b; cases b
      · simp
      · simp only [if_true]
        apply filter_map_none
        intro n hn
        rw [parent_sub top _ n plain_logs (hlg n hn).1]
        simp [h1]
    rw [e2]
    cases hb : s.ncDir
    · simp
    · simp only [if_true, List.nil_append, List.append_nil, List.map_nil]
      apply filter_map_keep
      intro n hn
      obtain ⟨hp, hd⟩ := hnc n hn
      rw [parent_sub top _ n plain_nc hp, glob_star _ _ n hp, stripSlash_join _ n hp, pathName_join _ n hp]
      simp [hd]
  · intro n hn
    rw [parent_sub top _ n plain_md5 (hm5 n hn)]
    simp [h2]
  · intro n hn
    rw [parent_top top n ht (hr n hn).1]
    simp [htn]

theorem zipped_logs_eq_directory (top : Str) (s : Dir D) (ok : ZipOk top s) :
    zLogs (zipNames top s) = (keys (obsLogs s)).map (fun n => sLogs ++ '/' :: n) := by
  obtain ⟨ht, htn, htl, htm, hr, hnc, hlg, hm5⟩ := ok
  have hne : sLogs.isEmpty = false := by decide
  have h1 : sNotCompleted ≠ sLogs := by decide
  have h2 : sMd5 ≠ sLogs := by decide
  unfold zLogs iterMatches zipNames obsLogs
  simp only [List.filter_append, List.map_append, hne, Bool.false_or]
  rw [filter_map_none (l := keys s.root), filter_map_none (l := keys s.md5)]
  · have e1 : ∀ b : Bool, List.filter (fun a =>
                ((parentName a == sLogs && globMatch ['*'] a) && !startsWith (pathName (stripSlash a)) ['.']))
              (if b = true then List.map (fun n => top ++ '/' :: sNotCompleted ++ '/' :: n) (keys s.nc) else []) = [] := by
      intro b; cases b
      · simp
      · simp only [if_true]
        apply filter_map_none
        intro n hn
        rw [parent_sub top _ n plain_nc (hnc n hn).1]
        simp [h1]
    rw [e1]
    cases hb : s.logsDir
    · simp [keys]
    · simp only [if_true, List.nil_append, List.append_nil, List.map_nil]
      rw [filter_map_keep (l := keys s.logs) (q := fun _ => true) (g' := fun n => sLogs ++ '/' :: n)]
      · rw [List.filter_eq_self.mpr (fun _ _ => rfl)]
      · intro n hn
        obtain ⟨hp, hd⟩ := hlg n hn
        rw [parent_sub top _ n plain_logs hp, glob_star _ _ n hp, stripSlash_join _ n hp, pathName_join _ n hp]
        simp [hd, endsWith]
  · intro n hn
    rw [parent_sub top _ n plain_md5 (hm5 n hn)]
    simp [h2]
  · intro n hn
    rw [parent_top top n ht (hr n hn).1]
    simp [htl]

/-- **counter-example (code as it is)**: a `json` store with one completed and one not-completed record, zipped: the zipped store
    lists the not-completed record's file as a second completed member (finding C13-zipped-completed-lists-subdirectories);
    the repaired listing does not -/
theorem zipped_lists_side_file_counter :
    let s := run Cfg.asIs (id : Nat → Nat) (Dir.create .w sJson) [.write ['a'] 1, .writeNc ['b'] 2]
    globC s = [['a','.','j','s','o','n']] ∧
    zCompleted sJson (zipNames ['s','t'] s) = [['a','.','j','s','o','n'], ['b','.','j','s','o','n']] ∧
    zCompletedTop ['s','t'] sJson (zipNames ['s','t'] s) = [['a','.','j','s','o','n']] := by decide
/-- non-vacuity: the state after a real history satisfies `ZipOk`, and the side-file hypothesis holds for suffix `fasta` -/
example : let s := run Cfg.asIs (id : Nat → Nat) (Dir.create .w ['f','a','s','t','a']) [.write ['a'] 1, .writeNc ['b'] 2, .writeLog ['r','.','l','o','g'] 3]
    ZipOk ['s','t'] s ∧ (∀ n ∈ keys s.nc ++ keys s.logs ++ keys s.md5, endsWith n ('.' :: s.sfx) = false)
      ∧ zCompleted s.sfx (zipNames ['s','t'] s) = [['a','.','f','a','s','t','a']] := by
  refine ⟨⟨by decide, by decide, by decide, by decide, by decide, by decide, by decide, by decide⟩, by decide, by decide⟩
end CogentModel.C13
