import CogentModel.Props.C17
import CogentModel.Proofs.AnnotDbX
import CogentModel.Proofs.AnnotDbLike
/-! # C17 (extension) — rows without a location, alignment features, GenBank record loading

`featuresTables`, `recordsTables`, `countTables`, `featuresKeepOa`, `recordsKeepOa`, `countKeepOa`, `mixinChildPattern`, `mixinChildColumn`, `subsetStart`, `subsetStop`, `attrWrapRecords`, `attrWrapCount`,
`childSkip`, `parentSkip` are **generated** from the current source of `core/annotation_db.py`
(`Gen/C17Query.lean`, `translator/c17_query2lean.py`); the first six theorems re-prove on every run
that they mean what the hand model and the spec say, for all arguments. -/
namespace CogentModel.C17X
open CogentModel.AnnotDb CogentModel.AnnotDbSpec CogentModel.Gen.C17Sql CogentModel.Gen.C17Query CogentModel.C17

/-- Which tables a query visits: only `user` when alignment features are asked for, else all. -/
theorem tables_choice (oa : Option Bool) (names : List String) :
    featuresTables oa names = (if oa = some true then ["user"] else names) ∧
    recordsTables oa names = (if oa = some true then ["user"] else names) ∧
    countTables oa names = (if oa = some true then ["user"] else names) := by
  unfold featuresTables recordsTables countTables
  rcases oa with _ | _ | _ <;> simp

example : featuresTables (some true) ["gff", "user"] = ["user"] ∧ featuresTables (some false) ["gff", "user"] = ["gff", "user"] := by
  decide

/-- **Per-table argument copying.**  In all three query methods the copy of the arguments made for the table
called `n` still holds `on_alignment` exactly when `n` is the `user` table (the only one with such a column). -/
theorem oa_kept_only_for_user (n : String) :
    featuresKeepOa n = decide (n = "user") ∧ recordsKeepOa n = decide (n = "user") ∧ countKeepOa n = decide (n = "user") := by
  unfold featuresKeepOa recordsKeepOa countKeepOa
  by_cases h : n = "user" <;> simp [h]

example : featuresKeepOa "user" = true ∧ recordsKeepOa "gff" = false ∧ countKeepOa "gb" = false := by decide

/-- … so no gff / gb table is ever asked for a column it does not have -/
theorem oa_never_reaches_main (oa : Option Bool) (names : List String) :
    oaReachesMain featuresKeepOa oa names = false ∧ oaReachesMain recordsKeepOa oa names = false ∧
    oaReachesMain countKeepOa oa names = false := by
  have h : ∀ keep : String → Bool, (∀ n, keep n = decide (n = "user")) → oaReachesMain keep oa names = false := by
    intro keep hk
    unfold oaReachesMain
    have : (names.any fun n => n != "user" && keep n) = false := by
      rw [List.any_eq_false]
      intro n _
      rw [hk n]
      by_cases h : n = "user" <;> simp [h]
    rw [this, Bool.and_false]
  exact ⟨h _ fun n => (oa_kept_only_for_user n).1, h _ fun n => (oa_kept_only_for_user n).2.1,
    h _ fun n => (oa_kept_only_for_user n).2.2⟩

/-- `subset()` hands its window bounds on unchanged — in particular a bound of 0 stays a bound. -/
theorem subset_bounds_identity (x : Option Int) : subsetStart x = x ∧ subsetStop x = x := by
  unfold subsetStart subsetStop
  cases x <;> simp

example : subsetStart (some 0) = some 0 ∧ subsetStop none = none := by decide

/-- Both `_get_records_matching` and `num_matches` wrap the `attributes` text exactly when the model's
`prepAttr` does (non-empty, no `%%`). -/
theorem attr_wrap_is_prepAttr (a : String) :
    (if attrWrapRecords (some a) then "%" ++ a ++ "%" else a) = prepAttr a ∧
    (if attrWrapCount (some a) then "%" ++ a ++ "%" else a) = prepAttr a ∧
    attrWrapRecords none = false ∧ attrWrapCount none = false := by
  unfold attrWrapRecords attrWrapCount prepAttr hasSub
  have e : "%%".toList = ['%', '%'] := by decide
  simp only [Option.getD_some, e, hasSubL_pp]
  by_cases h1 : a = "" <;> cases h2 : hasDoublePercent a.toList <;> simp [h1]

example : attrWrapRecords (some "zq") = true ∧ attrWrapRecords (some "%%zq") = false ∧ attrWrapCount (some "") = false := by
  decide +kernel

/-- GenBank children: a candidate row `[cs, ce)` is kept for the window `[a, b)` iff it starts inside
the window and ends inside it; for a proper row that is containment. -/
theorem child_keep_iff (a b cs ce : Int) :
    (childSkip a b cs ce = false ↔ (a ≤ cs ∧ cs < b ∧ a < ce ∧ ce ≤ b)) ∧
    (cs < ce → (childSkip a b cs ce = false ↔ within cs ce a b)) := by
  unfold childSkip within
  simp only [Bool.not_eq_false', Bool.and_eq_true, decide_eq_true_eq]
  constructor
  · omega
  · intro h; omega

/-- GenBank parent: a candidate row is kept iff its extent contains the window. -/
theorem parent_keep_iff (a b cs ce : Int) : parentSkip a b cs ce = false ↔ within a b cs ce := by
  unfold parentSkip within
  simp only [Bool.or_eq_false_iff, decide_eq_false_iff_not]
  omega

example : childSkip 0 10 2 10 = false ∧ childSkip 0 10 2 11 = true ∧ parentSkip 3 5 3 5 = false ∧ parentSkip 3 5 4 9 = true := by
  decide

/-- a row without coordinates is selected by no query that has a window, whatever else is asked -/
theorem no_location_never_in_window (q : Query) (oa : Option Bool) (r : XRec) (hr : r.located = false)
    (hq : q.start.isSome ∨ q.stop.isSome) : xRowMatches q oa r = false := by
  unfold xRowMatches xWindow windowConds
  rcases hq with h | h
  · obtain ⟨a, ha⟩ := Option.isSome_iff_exists.mp h
    cases hb : q.stop <;> simp [ha, hr]
  · obtain ⟨b, hb⟩ := Option.isSome_iff_exists.mp h
    cases ha : q.start <;> simp [hb, hr]

/-- any of the three table loops, once the generated pieces are replaced by their plain reading -/
theorem tableQuery_plain (keep : String → Bool) (hk : ∀ n, keep n = decide (n = "user")) (db : XDb) (q : Query) (oa : Option Bool) :
    tableQuery keep db q oa = fun n => (db.table n).filter (xRowMatches q (if n = "user" then oa else none)) := by
  funext n
  unfold tableQuery
  rw [hk n]
  by_cases h : n = "user" <;> simp [h]

/-- visiting `["user"] if on_alignment else table_names`, every table with its own copy of the arguments
(`on_alignment` kept for `user` only), selects exactly the rows of the linear scan -/
theorem table_loop_is_scan (db : XDb) (q : Query) (oa : Option Bool) (hdb : db.WF)
    (hw : ∀ r ∈ db.records, XWinHyp q r) :
    ((if oa = some true then ["user"] else tableNames db.kind).flatMap fun n =>
      (db.table n).filter (xRowMatches q (if n = "user" then oa else none))) = xLinearScan db.records q oa := by
  unfold xLinearScan XDb.records
  have hu : ∀ r ∈ db.user, xRowMatches q oa r = xSpecMatch q oa r := fun r hr =>
    xRow_user clauses_ok q oa r (hdb.user r hr) (hw r (by
      unfold XDb.records; cases db.kind <;> simp [tableNames, XDb.table, hr]))
  by_cases hoa : oa = some true
  · subst hoa
    have hm : db.main.filter (xSpecMatch q (some true)) = [] :=
      filter_false_of _ _ fun r hr => xRow_main_aln q r (hdb.main r hr)
    cases hk : db.kind <;> simp [tableNames, XDb.table, List.filter_append, hm, List.filter_congr hu]
  · have hm : ∀ r ∈ db.main, db.kind ≠ .basic → xRowMatches q none r = xSpecMatch q oa r := fun r hr hk =>
      xRow_main clauses_ok q oa r (hdb.main r hr) hoa (hw r (by
        unfold XDb.records; cases hk' : db.kind <;> simp_all [tableNames, XDb.table]))
    cases hk : db.kind
    · simp [tableNames, XDb.table, hoa, List.filter_congr hu]
    · simp [tableNames, XDb.table, hoa, List.filter_append, List.filter_congr hu,
        List.filter_congr (fun r hr => hm r hr (by simp [hk]))]
    · simp [tableNames, XDb.table, hoa, List.filter_append, List.filter_congr hu,
        List.filter_congr (fun r hr => hm r hr (by simp [hk]))]

/-- the rows `get_features_matching` selects (before the feature dicts are built) are exactly the rows
of the linear scan: tables in `table_names` order, each with its own copy of the arguments -/
theorem features_selection_is_scan (db : XDb) (q : Query) (oa : Option Bool) (hdb : db.WF)
    (hw : ∀ r ∈ db.records, XWinHyp q r) :
    selectFeaturesX db q oa = xLinearScan db.records q oa := by
  unfold selectFeaturesX
  rw [(tables_choice oa _).1, tableQuery_plain _ (fun n => (oa_kept_only_for_user n).1)]
  exact table_loop_is_scan db q oa hdb hw

/-- **get_features_matching = linear scan, on_alignment included.**  For every db class, every subset
of the column arguments, every window mode, and `on_alignment` not passed / `False` / `True`: when all
selected rows have a location, the call returns exactly the multiset the scan selects. -/
theorem features_matching_is_scan (db : XDb) (q : Query) (oa : Option Bool) (hdb : db.WF)
    (hw : ∀ r ∈ db.records, XWinHyp q r) (hl : ∀ r ∈ xLinearScan db.records q oa, r.located = true) :
    ∃ l, getFeaturesMatchingX db q oa = .ok l ∧ l.Perm (xLinearScan db.records q oa) := by
  unfold getFeaturesMatchingX
  simp only [features_selection_is_scan db q oa hdb hw, (oa_never_reaches_main oa _).1, Bool.false_eq_true, if_false]
  rw [if_pos (List.all_eq_true.mpr fun r hr => by simpa using hl r hr)]
  exact ⟨_, rfl, List.Perm.refl _⟩

/- FULL STATEMENT (not proved): the same without `hl`.  False of the mirrored model and of the code (open
   finding C17-genbank-row-without-location-breaks-feature-queries): a selected row with NULL spans makes the
   call raise TypeError instead of returning the selection. -/
theorem features_matching_no_location_counter :
    let g : XRec := { row := mkUserRec "s1" "gene" "ab" (some "+") none [(0, 5)], located := true, onAln := none }
    let b : XRec := { row := { (mkUserRec "s1" "cds" "b" none none []) with spans := [] }, located := false, onAln := none }
    let db : XDb := { kind := .genbank, main := [g, b], user := [] }
    getFeaturesMatchingX db { biotype := some "cds" } none = .error .typeError ∧
    xLinearScan db.records { biotype := some "cds" } none = [b] ∧
    getFeaturesMatchingX db { biotype := some "cds", start := some 0, stop := some 9 } none = .ok [] := by
  decide +kernel

-- alignment features on a two-table db: `False` keeps the loaded row and the ordinary user row,
-- `True` only the alignment feature, no argument all three
example :
    let g : XRec := { row := mkUserRec "s1" "gene" "ga" (some "+") none [(0, 6)], located := true, onAln := none }
    let u : XRec := { row := mkUserRec "s1" "gene" "u0" (some "+") none [(0, 4)], located := true, onAln := some false }
    let a : XRec := { row := mkUserRec "s1" "gene" "aln0" (some "+") none [(3, 9)], located := true, onAln := some true }
    let db : XDb := { kind := .gff, main := [g], user := [u, a] }
    getFeaturesMatchingX db { seqid := some "s1" } (some false) = .ok [g, u] ∧
    getFeaturesMatchingX db { seqid := some "s1" } (some true) = .ok [a] ∧
    getFeaturesMatchingX db { seqid := some "s1" } none = .ok [g, u, a] := by
  decide +kernel

/-- **get_records_matching = linear scan, on_alignment included** (code as repaired by 26f741b86): for every db
class, argument subset, window mode and `on_alignment` not passed / `False` / `True` the call returns exactly the
multiset the scan selects — rows without a location included, no exception. -/
theorem records_matching_is_scan (db : XDb) (q : Query) (oa : Option Bool) (hdb : db.WF)
    (hw : ∀ r ∈ db.records, XWinHyp q r) :
    ∃ l, getRecordsMatchingX db q oa = .ok l ∧ l.Perm (xLinearScan db.records q oa) := by
  unfold getRecordsMatchingX
  simp only [(oa_never_reaches_main oa _).2.1, Bool.false_eq_true, if_false]
  refine ⟨_, rfl, ?_⟩
  rw [(tables_choice oa _).2.1, tableQuery_plain _ (fun n => (oa_kept_only_for_user n).2.1),
    table_loop_is_scan db q oa hdb hw]

-- the input of the former finding C17-on-alignment-argument-no-such-column, and a record without location
example :
    let g : XRec := { row := mkUserRec "s1" "gene" "ab0" (some "+") none [(0, 5)], located := true, onAln := none }
    let b : XRec := { row := { (mkUserRec "s1" "cds" "b" none none []) with spans := [] }, located := false, onAln := none }
    let a : XRec := { row := mkUserRec "s1" "gene" "aln0" (some "+") none [(3, 9)], located := true, onAln := some true }
    let db : XDb := { kind := .genbank, main := [g, b], user := [a] }
    getRecordsMatchingX db {} (some false) = .ok [g, b] ∧ numMatchesX db {} (some true) = .ok 1 ∧
    numMatchesX db {} (some false) = .ok 2 ∧ getRecordsMatchingX db { biotype := some "cds" } none = .ok [b] ∧
    getRecordsMatchingX db {} (some true) = .ok [a] := by
  decide +kernel

/-- **num_matches = length of the scan** (no window), for every db class, argument subset and `on_alignment`
not passed / `False` / `True` (code as repaired by 26f741b86). -/
theorem num_matches_x_is_scan_count (db : XDb) (q : Query) (oa : Option Bool) (hdb : db.WF) :
    numMatchesX db q oa = .ok (xLinearScan db.records { q with start := none, stop := none } oa).length := by
  have hc : ∀ r : XRec, countMatches q r.row = xColsMatch { q with start := none, stop := none } r.row := by
    intro r
    unfold countMatches countConds xColsMatch
    simp only [List.all_append, optCond_spec]
    rw [Bool.and_comm (optMatch q.seqid r.row.seqid)]
  have hrow : ∀ r : XRec, ∀ o, (countMatches q r.row && oaCond o r) = xRowMatches { q with start := none, stop := none } o r := by
    intro r o
    unfold xRowMatches
    rw [xCols_spec, hc]
    simp [xWindow, windowConds]
  have hw : ∀ r ∈ db.records, XWinHyp { q with start := none, stop := none } r := fun r _ => Or.inl (Or.inr (Or.inl rfl))
  unfold numMatchesX
  simp only [(oa_never_reaches_main oa _).2.2, Bool.false_eq_true, if_false]
  rw [← table_loop_is_scan db _ oa hdb hw, (tables_choice oa _).2.2]
  congr 3
  funext n
  rw [(oa_kept_only_for_user n).2.2]
  apply List.filter_congr
  intro r _
  rw [hrow]
  by_cases h : n = "user" <;> simp [h]

/-- `subset(**query)` holds exactly the rows the scan selects (rows without location included when no
window is asked), for every query; the bounds reach the WHERE clause unchanged. -/
theorem subset_x_is_scan (db : XDb) (q : Query) (hdb : db.WF) (hw : ∀ r ∈ db.records, XWinHyp q r) :
    (subsetX db q).kind = db.kind ∧ (subsetX db q).records.Perm (xLinearScan db.records q none) := by
  have hq : ({ q with start := subsetStart q.start, stop := subsetStop q.stop } : Query) = q := by
    rw [(subset_bounds_identity _).1, (subset_bounds_identity _).2]
  have key := table_loop_is_scan db q none hdb hw
  unfold subsetX
  rw [hq]
  split
  · rename_i h0
    refine ⟨rfl, ?_⟩
    have : db.records = [] := List.eq_nil_of_length_eq_zero h0
    rw [this]
    cases db.kind <;> simp [XDb.records, tableNames, XDb.table, xLinearScan]
  · refine ⟨rfl, ?_⟩
    rw [← key]
    cases hk : db.kind
    · simp [XDb.records, tableNames, XDb.table]
    · simp [XDb.records, tableNames, XDb.table]
    · simp [XDb.records, tableNames, XDb.table]

example :
    let g : XRec := { row := mkUserRec "s1" "gene" "ga" (some "+") none [(0, 6)], located := true, onAln := none }
    let b : XRec := { row := { (mkUserRec "s1" "cds" "b" none none []) with spans := [] }, located := false, onAln := none }
    let u : XRec := { row := mkUserRec "s1" "gene" "u0" (some "+") none [(2, 4)], located := true, onAln := some true }
    let db : XDb := { kind := .genbank, main := [g, b], user := [u] }
    (subsetX db { start := some 0, stop := some 6 }).records = [g, u] ∧ (subsetX db { seqid := some "s1" }).records = [g, b, u] := by
  decide +kernel

/-! ### to_json / from_dict of rows without a location (code as repaired by 26f741b86) -/

/-- **One stored row survives `to_rich_dict` → `from_dict` unchanged** whichever optional columns are NULL —
including a row with NO location (no spans / start / stop key in the dict) and the `on_alignment` flag. -/
theorem richdict_x_row_roundtrip (r : XRec) (hn : r.normal = true) : richToXRec (xrecToRich r) = r := by
  obtain ⟨⟨a, b, c, d, e, sp, s, t⟩, loc, oa⟩ := r
  cases loc
  · simp only [XRec.normal, Bool.false_or, Bool.and_eq_true, beq_iff_eq] at hn
    obtain ⟨⟨h1, h2⟩, h3⟩ := hn
    subst h1 h2 h3
    cases a <;> cases b <;> cases c <;> cases d <;> cases e <;> rcases oa with _ | _ | _ <;>
      simp [xrecToRich, richToXRec, richToRec, optField, getStr, List.lookup]
  · cases a <;> cases b <;> cases c <;> cases d <;> cases e <;> rcases oa with _ | _ | _ <;>
      simp [xrecToRich, richToXRec, richToRec, optField, getStr, List.lookup]

/-- `deserialise_object(db.to_json())` of an in-memory db of any class holds exactly the same rows, table by
table — records without a location and alignment features included. -/
theorem to_json_x_roundtrip (db : XDb) (hn : ∀ r ∈ db.main ++ db.user, r.normal = true) : jsonRoundTripX db = db := by
  have hm : ∀ l : List XRec, (∀ r ∈ l, r.normal = true) → (l.map fun r => richToXRec (xrecToRich r)) = l := by
    intro l hl
    conv => rhs; rw [← List.map_id l]
    exact List.map_congr_left fun r hr => richdict_x_row_roundtrip r (hl r hr)
  obtain ⟨k, m, u⟩ := db
  unfold jsonRoundTripX
  simp only [hm m fun r hr => hn r (List.mem_append_left _ hr), hm u fun r hr => hn r (List.mem_append_right _ hr)]

example :
    let g : XRec := { row := mkUserRec "s1" "gene" "ga" (some "+") none [(0, 6)], located := true, onAln := none }
    let b : XRec := { row := { (mkUserRec "s1" "cds" "b" none none []) with spans := [] }, located := false, onAln := none }
    let u : XRec := { row := mkUserRec "s1" "gene" "u0" (some "+") none [(2, 4)], located := true, onAln := some true }
    let db : XDb := { kind := .genbank, main := [g, b], user := [u] }
    (jsonRoundTripX db).main = [g, b] ∧ (jsonRoundTripX db).user = [u] ∧ (xrecToRich b).lookup "spans" = none ∧
    (∀ r ∈ db.main ++ db.user, r.normal = true) := by
  decide +kernel

/-! ### GenbankAnnotationDb.add_records -/

/-- what ONE feature determines of its row: whether it has coordinates, and if so which spans, hull and strand -/
def featPart (f : GbFeature) : Bool × List (Int × Int) × Int × Int × Option String × Option String :=
  match f.loc with
  | none => (false, [], 0, 0, none, some f.biotype)
  | some l =>
    if l.flat.isEmpty then (false, [], 0, 0, none, some f.biotype)
    else (true, gbCoords l, spanStart (gbCoords l), spanStop (gbCoords l), gbStrand l, some f.biotype)

def rowPart (r : XRec) : Bool × List (Int × Int) × Int × Int × Option String × Option String :=
  (r.located, r.row.spans, r.row.start, r.row.stop, r.row.strand, r.row.biotype)

/-- **Every stored GenBank row has the coordinates and strand of its OWN feature**, whatever precedes or
follows it in the feature table and wherever the made-up-name counter stands: one row per feature, in
order; a feature without usable location gets no spans and no strand, a join over both strands no strand. -/
theorem gb_add_records_rowwise (seqid : String) (n : Nat) (fs : List GbFeature) :
    (gbAddRecords seqid n fs).1.map rowPart = fs.map featPart := by
  induction fs generalizing n with
  | nil => rfl
  | cons f fs ih =>
    simp only [gbAddRecords, List.map_cons, ih]
    congr 1
    unfold gbRow rowPart featPart
    cases f.loc with
    | none => cases f.names <;> rfl
    | some l => cases f.names <;> by_cases h : l.flat.isEmpty <;> simp [h]

/-- … in particular loading is compositional: the rows of a longer table are the rows of its parts. -/
theorem gb_add_records_append (seqid : String) (n : Nat) (fs gs : List GbFeature) :
    (gbAddRecords seqid n (fs ++ gs)).1 =
      (gbAddRecords seqid n fs).1 ++ (gbAddRecords seqid (gbAddRecords seqid n fs).2 gs).1 := by
  induction fs generalizing n with
  | nil => rfl
  | cons f fs ih => simp only [List.cons_append, gbAddRecords, ih]

/-- a located GenBank row covers exactly the residues its location expression names (1-based closed
segments → 0-based half-open spans), and its `start`/`stop` columns bound them -/
theorem gb_row_positions (seqid : String) (n : Nat) (f : GbFeature) (l : Loc) (hf : f.loc = some l)
    (hne : l.flat.isEmpty = false) (hl : ∀ seg ∈ l.flat, seg.1 ≤ seg.2.1) (p0 : Int) :
    ((gbRow seqid n f).1.located = true) ∧
    (covers (gbRow seqid n f).1.row.spans p0 ↔ ∃ seg ∈ l.flat, covers1 seg.1 seg.2.1 (p0 + 1)) ∧
    (covers (gbRow seqid n f).1.row.spans p0 → (gbRow seqid n f).1.row.start ≤ p0 ∧ p0 < (gbRow seqid n f).1.row.stop) := by
  have e : (gbRow seqid n f).1.row.spans = gbCoords l ∧ (gbRow seqid n f).1.located = true ∧
      (gbRow seqid n f).1.row.start = spanStart (gbCoords l) ∧ (gbRow seqid n f).1.row.stop = spanStop (gbCoords l) := by
    unfold gbRow
    cases f.names <;> simp [hf, hne]
  refine ⟨e.2.1, ?_, ?_⟩
  · rw [e.1]; exact gbCoords_positions l hl p0
  · rw [e.1, e.2.2.1, e.2.2.2]; exact hull_of_covers _ p0

example :
    ((gbAddRecords "s1" 0 [⟨"gene", some (.complement (.seg 10 50)), some ["abc"], ""⟩, ⟨"variation", none, some ["site"], ""⟩,
        ⟨"CDS", some (.join [.complement (.seg 60 70), .seg 80 90]), none, ""⟩, ⟨"CDS", some (.seg 7 7), none, ""⟩]).1.map
      fun r => (r.row.name, r.located, r.row.spans, r.row.strand)) =
    [(some "abc", true, [(9, 50)], some "-"), (some "site", false, [], none),
     (some "CDS-0", true, [(59, 70), (79, 90)], none), (some "CDS-1", true, [(6, 7)], some "+")] := by
  decide +kernel

/-! ### GenbankAnnotationDb.get_feature_children / get_feature_parent -/

/-- children of `name` inside `[a, b)`: when every row called `name` has a location, the call returns
the rows called `name` (of the asked biotype, not of the excluded one) that start and end inside the window -/
theorem gb_children_is_scan (db : XDb) (name : String) (biotype exclude : Option String) (a b : Int)
    (hl : ∀ r ∈ familyCandidates db name biotype, r.located = true) :
    gbChildrenX db name biotype exclude a b = .ok ((familyCandidates db name biotype).filter fun r =>
      !(r.row.biotype == exclude) && (decide (a ≤ r.row.start) && decide (r.row.start < b) && decide (a < r.row.stop) && decide (r.row.stop ≤ b))) := by
  unfold gbChildrenX
  rw [if_pos (List.all_eq_true.mpr fun r hr => by simpa using hl r hr)]
  congr 1
  apply List.filter_congr
  intro r _
  unfold familyKeep
  congr 1
  have := (child_keep_iff a b r.row.start r.row.stop).1
  cases h : childSkip a b r.row.start r.row.stop
  · have := this.mp h; simp [this]
  · have hn : ¬ (a ≤ r.row.start ∧ r.row.start < b ∧ a < r.row.stop ∧ r.row.stop ≤ b) := fun hc => by
      have := this.mpr hc; simp [h] at this
    simp only [Bool.not_true]
    symm
    simp only [Bool.and_eq_false_iff, decide_eq_false_iff_not]
    omega

/-- parents of `name` for `[a, b)`: the rows called `name` (not of the excluded biotype) whose extent contains the window -/
theorem gb_parent_is_scan (db : XDb) (name : String) (exclude : Option String) (a b : Int)
    (hl : ∀ r ∈ familyCandidates db name none, r.located = true) :
    gbParentX db name exclude a b = .ok ((familyCandidates db name none).filter fun r =>
      !(r.row.biotype == exclude) && (decide (r.row.start ≤ a) && decide (b ≤ r.row.stop))) := by
  unfold gbParentX
  rw [if_pos (List.all_eq_true.mpr fun r hr => by simpa using hl r hr)]
  congr 1
  apply List.filter_congr
  intro r _
  unfold familyKeep
  congr 1
  have := parent_keep_iff a b r.row.start r.row.stop
  unfold within at this
  cases h : parentSkip a b r.row.start r.row.stop
  · have := this.mp h; simp [this]
  · have hn : ¬ (r.row.start ≤ a ∧ b ≤ r.row.stop) := fun hc => by
      have := this.mpr hc; simp [h] at this
    simp only [Bool.not_true]
    symm
    simp only [Bool.and_eq_false_iff, decide_eq_false_iff_not]
    omega

example :
    let g : XRec := { row := mkUserRec "s1" "gene" "abc" (some "-") none [(9, 50)], located := true, onAln := none }
    let c : XRec := { row := mkUserRec "s1" "CDS" "abc" (some "-") none [(12, 20), (30, 50)], located := true, onAln := none }
    let db : XDb := { kind := .genbank, main := [g, c], user := [] }
    gbChildrenX db "abc" none (some "gene") 9 50 = .ok [c] ∧ gbParentX db "abc" (some "CDS") 12 50 = .ok [g] ∧
    gbChildrenX db "abc" none none 10 50 = .ok [c] := by
  decide +kernel

/-! ### substring searches: `attributes=` and the mixin's `get_feature_children` -/

/-- text without the LIKE wildcards -/
def Plain (s : String) : Prop := ∀ c ∈ s.toList, c ≠ '%' ∧ c ≠ '_'

/-- `a` occurs in `t` as a contiguous piece, ASCII letter case ignored -/
def ContainsCI (a t : String) : Prop :=
  ∃ pre m post, t.toList = pre ++ m ++ post ∧ m.map lowerAscii = a.toList.map lowerAscii

theorem wrapped_like (a : String) (ha : Plain a) (col : Option String) :
    colCond (.one ("%" ++ a ++ "%")) col = true ↔ ∃ t, col = some t ∧ ContainsCI a t := by
  cases col with
  | none => simp [colCond]
  | some t =>
    have e : ("%" ++ a ++ "%").toList = '%' :: (a.toList ++ ['%']) := by
      simp [String.toList_append]
    simp only [colCond, e, List.contains_cons, BEq.rfl, Bool.true_or, if_true, Option.some.injEq, exists_eq_left']
    exact like_substring a.toList ha t.toList

/-- **The `attributes` search is the documented substring search**: for a non-empty text without `%` / `_`
the condition `_get_records_matching` / `num_matches` put on the attributes column holds exactly when the text
occurs in the stored attributes (ASCII case ignored); a NULL attributes column matches nothing. -/
theorem attributes_search_is_substring (a : String) (hne : a ≠ "") (ha : Plain a) (col : Option String) :
    colCond (.one (prepAttr a)) col = true ↔ ∃ t, col = some t ∧ ContainsCI a t := by
  have hd : ∀ l : List Char, (∀ c ∈ l, c ≠ '%') → hasDoublePercent l = false := by
    intro l
    induction l with
    | nil => intro _; rfl
    | cons c cs ih =>
      intro h
      have hc : c ≠ '%' := h c (List.mem_cons_self ..)
      have := ih fun x hx => h x (List.mem_cons_of_mem _ hx)
      cases cs with
      | nil => simp [hasDoublePercent]
      | cons d ds => unfold hasDoublePercent; split <;> simp_all
  have : prepAttr a = "%" ++ a ++ "%" := by
    unfold prepAttr
    rw [if_pos ⟨hne, by simp [hd a.toList fun c hc => (ha c hc).1]⟩]
  rw [this]
  exact wrapped_like a ha col

example : colCond (.one (prepAttr "zq")) (some "note=ZQ;k0") = true ∧ colCond (.one (prepAttr "zq")) (some "note=z_q") = false ∧
    colCond (.one (prepAttr "zq")) none = false := by decide +kernel

/-- the mixin's `get_feature_children` searches the `parent_id` column for `%name%` (generated, re-proved each run) -/
theorem mixin_child_pattern (name : String) :
    mixinChildPattern name = "%" ++ name ++ "%" ∧ mixinChildColumn = "parent_id" := ⟨rfl, rfl⟩

/-- **Children by `parent_id` (GffAnnotationDb / BasicAnnotationDb)**: for a name without `%` / `_`, when every
selected row has a location, `get_feature_children(name, biotype)` returns exactly the rows whose `parent_id`
mentions `name` (substring, ASCII case ignored) and that have the asked biotype — whatever window is passed. -/
theorem mixin_children_is_scan (rows : List PRec) (name : String) (hn : Plain name) (biotype : Option String) (l : List PRec)
    (h : mixinChildren rows name biotype = .ok l) :
    ∀ r, r ∈ l ↔ (r ∈ rows ∧ (∃ t, r.parent = some t ∧ ContainsCI name t) ∧
      btCond biotype r.x.row = true) := by
  unfold mixinChildren at h
  split at h
  · rw [← Except.ok.inj h]
    intro r
    unfold childSel
    have hc : ∀ r : PRec, r.col mixinChildColumn = r.parent := fun r => by
      rw [(mixin_child_pattern name).2]; simp [PRec.col]
    simp only [List.mem_filter, Bool.and_eq_true, (mixin_child_pattern name).1, hc, wrapped_like name hn]
  · exact absurd h (by simp)

example :
    let g : PRec := ⟨{ row := mkUserRec "s1" "gene" "ab0" (some "+") none [(0, 9)], located := true, onAln := none }, none⟩
    let c : PRec := ⟨{ row := mkUserRec "s1" "cds" "c1" (some "+") none [(2, 4)], located := true, onAln := none }, some "AB0"⟩
    let d : PRec := ⟨{ row := mkUserRec "s1" "exon" "e1" (some "+") none [(5, 7)], located := true, onAln := none }, some "x,ab01"⟩
    let e : PRec := ⟨{ row := mkUserRec "s1" "exon" "e2" (some "+") none [(5, 7)], located := true, onAln := none }, some "a_b0"⟩
    mixinChildren [g, c, d, e] "ab0" none = .ok [c, d] ∧ mixinChildren [g, c, d, e] "ab0" (some "exon") = .ok [d] := by
  decide +kernel

end CogentModel.C17X
