import CogentModel.Gen.C07Rules
import CogentModel.Model.GenRun
import CogentModel.Proofs.RulesGen
import CogentModel.Props.C07
/-! # C07 — the statements of scope.py / parameter_controller.py, TRANSLATED from the current source

`Gen/C07Rules.lean` is regenerated on every run by `translator/c07_rules2lean.py` from cogent3's current source
text (one python statement per line of a Lean `do` block).  The theorems below prove, for ALL arguments, states and
histories, that the translated statements compute what the hand models of `Model/ParamRules.lean` and
`Model/Controller.lean` compute, so `rules_roundtrip` / `controller_consistent` / `controller_equals_fresh` are
theorems about the translated code; any semantic edit of the translated python functions breaks one of them. -/
namespace CogentModel.C07
open CogentModel.Rules CogentModel.Rules.Prim CogentModel.Gen.C07Rules CogentModel.Gen.C07Ctl

/-! ### each translated definition equals the hand model (the proofs unfold the GENERATED text) -/

theorem get_current_bounds_fold (d : Defn) (self : St) (scope : List Nat) :
    get_current_bounds d self scope =
      .ok (let r := scope.foldl (fun acc s => bStep self s acc) (none, none)
           if r.1.isNone || r.2.isNone then (some d.dLo, some d.dHi) else r) := by
  unfold get_current_bounds
  simp only []
  rw [forIn_of_step (bStep self)]
  · simp only [pure, Except.pure, bind, Except.bind, defaultBounds]
    split <;> simp_all
  · intro s acc
    unfold bStep
    rcases getBounds self s with ⟨lower, i, upper⟩
    simp only []
    repeat' split
    all_goals simp_all

/-- **get_current_bounds_eq**: the translated `_LeafDefn.get_current_bounds` (a loop with `continue` over the
scope keeping `lowest` / `highest`, class defaults when nothing is left) is the hand model's `curBounds`, for every
definition, state and scope -/
theorem get_current_bounds_eq (d : Defn) (self : St) (scope : List Nat) :
    get_current_bounds d self scope =
      .ok (some (curBounds d self scope).1, some (curBounds d self scope).2) := by
  rw [get_current_bounds_fold, bStep_none, curBounds_entries]
  cases bEntries self scope <;> simp

/-- **get_mean_current_value_eq**: the translated `_LeafDefn.get_mean_current_value` (at warn=False) is `meanValue` -/
theorem get_mean_current_value_eq (d : Defn) (self : St) (scope : List Nat) :
    get_mean_current_value d self scope = .ok (some (meanValue self scope)) := by
  unfold get_mean_current_value meanValue
  match scope with
  | [] => simp [pyEq, pyLen, pyDiv, pySum, pure, Except.pure]
  | [e] => simp [pyEq, pyLen, pyIdx, getDefaultValue, pure, Except.pure]
  | e1 :: e2 :: es =>
    have hlen : ¬ (((es.length : Nat) : Rat) + 1 + 1 = 1) := by
      intro h
      have h0 : (0 : Rat) ≤ ((es.length : Nat) : Rat) := by exact_mod_cast Nat.zero_le _
      grind
    simp only [pyEq, pyLen, List.length_map, List.length_cons, pyDiv, pySum, pySum_values]
    simp [hlen, pure, Except.pure]

/-- GENERATED per-scope body of `_LeafDefn.assign_all` = hand `mkSetting` (python `const=None` is
`const_by_default`, False for a ParamDefn) -/
theorem assign_all_scope_eq (d : Defn) (self : St) (scope : List Nat) (value lower upper : PV) (c : Bool) :
    assign_all_scope d self scope value lower upper (some c) =
      (mkSetting d self scope value lower upper c).map lift := by
  unfold assign_all_scope mkSetting clampVar
  simp only [get_current_bounds_eq, get_mean_current_value_eq]
  cases c <;> cases value <;> cases lower <;> cases upper <;>
    simp [truthyB, numeric, unwrapValue, orElse, checkSettingIsValid, pure, Except.pure, bind, Except.bind,
      pyGt, pyLt, lift, Except.map, throw, throwThe, MonadExceptOf.throw] <;>
    (repeat' split) <;> simp_all [lift, Except.map] <;> grind

theorem assign_all_scope_default (d : Defn) (self : St) (scope : List Nat) (value lower upper : PV) :
    assign_all_scope d self scope value lower upper none =
      assign_all_scope d self scope value lower upper (some false) := by
  unfold assign_all_scope
  simp [constByDefault]

/-- **set_param_rule_tail_eq**: the hand model's `setRule` IS the translated tail of `set_param_rule` (the two asserts,
`value = init`, the argument list of the final `self.assign_all` call) followed by `assignAll` -/
theorem set_param_rule_tail_eq (d : Defn) (s : St) (r : RuleArgs) :
    setRule d s r =
      match set_param_rule_tail r.isIndependent r.isConstant r.value r.lower r.init r.upper with
      | .error e => .error e
      | .ok (v, lo, up, c, ind) => assignAll d s r.edges v lo up c (indepOf d ind) := by
  unfold setRule set_param_rule_tail pyAssert
  have hnone : truthy none = false := rfl
  cases hc : r.isConstant <;> cases hi : r.init <;> cases hv : truthy r.value <;>
    cases hl : truthy r.lower <;> cases hu : truthy r.upper <;>
    first
    | (simp [hv, hl, hu, hnone, pure, Except.pure, bind, Except.bind, throw, throwThe, MonadExceptOf.throw]; done)
    | (rename_i val; cases hn : truthy (some val) <;>
        simp [hv, hl, hu, hn, hnone, pure, Except.pure, bind, Except.bind, throw, throwThe, MonadExceptOf.throw])

/-- **gen_assign_all_scope**: the translated body of the per-scope loop of `_LeafDefn.assign_all` (mean current value
unless a value is given; ConstVal; current bounds overridden by the given ones; `ValueError` when upper < lower;
clamping) builds exactly the setting `mkSetting` builds and raises exactly when it does, for `const` given or left at
`const_by_default` -/
theorem gen_assign_all_scope (d : Defn) (s : Rules.St) (scope : List Nat) (value lower upper : PV) (c : Option Bool) :
    assign_all_scope d s scope value lower upper c =
      (mkSetting d s scope value lower upper (c.getD false)).map lift := by
  cases c with
  | none => rw [assign_all_scope_default]; exact assign_all_scope_eq d s scope value lower upper false
  | some b => exact assign_all_scope_eq d s scope value lower upper b

/-! ### the controller, run through the translated methods -/
open CogentModel.Ctl
variable {V : Type} [Inhabited V] [DecidableEq V]

/-! each translated controller method equals the hand model's transition -/

/-- GENERATED `ParameterController._updateIntermediateValues` = hand `updateIntermediate` -/
theorem updateIntermediateValues_eq (g : Graph V) (s : St V) :
    updateIntermediateValues_ g s = .ok (updateIntermediate g s) := by
  unfold updateIntermediateValues_ updateIntermediate
  by_cases hs : s.suspended = true
  · simp [hs, pure, Except.pure]
  · simp only [hs, if_false]
    rw [forIn_of_step (uStep g)]
    · simp [pure, Except.pure, bind, Except.bind, foldl_uStep, Prim.defns, Prim.changedClear]
    · intro k st
      unfold uStep
      by_cases hc : st.changed.contains k = true
      · simp only [Prim.changedContains, hc, if_true]
        rw [forIn_of_step (fun c s => Prim.changedAdd s c)]
        · simp [pure, Except.pure, bind, Except.bind, foldl_changedAdd, Prim.defnUpdate, Prim.defnClients]
        · intro c st'; rfl
      · simp only [Prim.changedContains, hc, if_false]; rfl

/-- GENERATED `update_intermediate_values(changed)` -/
theorem update_intermediate_values_eq (g : Graph V) (s : St V) (ks : List Nat) :
    update_intermediate_values g s (some ks) =
      .ok (updateIntermediate g { s with changed := s.changed ++ ks }) := by
  unfold update_intermediate_values
  simp [updateIntermediateValues_eq, pure, Except.pure, bind, Except.bind, Prim.changedUpdate]

theorem update_intermediate_values_all (g : Graph V) (s : St V) :
    update_intermediate_values g s none =
      .ok (updateIntermediate g { s with changed := s.changed ++ List.range g.length }) := by
  unfold update_intermediate_values
  simp [updateIntermediateValues_eq, pure, Except.pure, bind, Except.bind, Prim.changedUpdate, Prim.defns]

/-- GENERATED `ParameterController.assign_all` = the hand model's `assign` step for a leaf definition, and raises
ValueError leaving the state alone for a derived one -/
theorem assign_all_eq (g : Graph V) (s : St V) (k : Nat) (v : V) :
    assign_all g s k v =
      if Prim.isLeaf g k then .ok (step g s (.assign k v)) else .error "ValueError" := by
  unfold assign_all
  cases hl : Prim.isLeaf g k <;>
    simp [update_intermediate_values_eq, step, pure, Except.pure, bind, Except.bind, Prim.defnAssign, throw,
      throwThe, MonadExceptOf.throw]

/-- GENERATED `updates_postponed`: the statements before the `yield` -/
theorem updates_postponed_enter_eq (g : Graph V) (s : St V) :
    updates_postponed_enter g s = .ok ({ s with suspended := true }, s.suspended) := by
  unfold updates_postponed_enter
  simp [pure, Except.pure, Prim.setSuspended]

/-- GENERATED `updates_postponed`: the `finally:` clause, given the `old` flag its frame holds -/
theorem updates_postponed_exit_eq (g : Graph V) (s : St V) (old : Bool) :
    updates_postponed_exit g s old = .ok (updateIntermediate g { s with suspended := old }) := by
  unfold updates_postponed_exit
  simp [updateIntermediateValues_eq, pure, Except.pure, bind, Except.bind, Prim.setSuspended]

theorem updates_postponed_xexit_eq (g : Graph V) (s : St V) (old : Bool) :
    updates_postponed_xexit g s old = .ok (updateIntermediate g { s with suspended := old }) := by
  unfold updates_postponed_xexit
  simp [updateIntermediateValues_eq, pure, Except.pure, bind, Except.bind, Prim.setSuspended]

/-- **update_from_calculator_eq**: the translated `ParameterController.update_from_calculator` (the hand-back at the
end of `optimise`: every leaf definition takes the calculator's value and is marked, then one propagation) is the hand
model `fromCalc`; in particular EVERY leaf is marked, user parameter or not -/
theorem update_from_calculator_eq (g : Graph V) (s : St V) (cv : Nat → V) :
    update_from_calculator g s cv = .ok (fromCalc g s cv) := by
  unfold update_from_calculator fromCalc
  simp only []
  rw [forIn_of_step (fcStep g cv)]
  · simp only [pure, Except.pure, bind, Except.bind, foldl_fcStep, Prim.defns, update_intermediate_values_eq,
      List.nil_append]
  · intro k acc
    unfold fcStep
    by_cases hl : Prim.isLeaf g k = true <;> simp [hl, pure, Except.pure]

/-- **gen_step_is_model**: each translated method is the hand model's transition: `assign_all` on a leaf is
`Op.assign` (and raises ValueError before touching anything on a derived definition), the three parts of the
`updates_postponed` generator are `Op.enter` / `Op.exit` / `Op.xexit` -/
theorem gen_step_is_model (g : Ctl.Graph V) (s : Ctl.St V) :
    (∀ k v, genStep g s (.assign k v) =
      if Prim.isLeaf g k then .ok (Ctl.step g s (.assign k v)) else .error "ValueError") ∧
    genStep g s .enter = .ok (Ctl.step g s .enter) ∧
    genStep g s .exit = .ok (Ctl.step g s .exit) ∧
    genStep g s .xexit = .ok (Ctl.step g s .xexit) := by
  refine ⟨fun k v => assign_all_eq g s k v, ?_, ?_, ?_⟩
  · simp [genStep, updates_postponed_enter_eq, Except.map, Ctl.step]
  · unfold genStep Ctl.step
    cases s.stack with
    | nil => rfl
    | cons old rest => simp only []; rw [updates_postponed_exit_eq]
  · unfold genStep Ctl.step
    cases s.stack with
    | nil => rfl
    | cons old rest => simp only []; rw [updates_postponed_xexit_eq]

/-- **make_calculator_fresh**: whatever the state (blocks open, updates suspended, any dirty set), after
`make_calculator()` has run `update()` over every definition, EVERY definition holds its rule applied to the current
settings: the calculator is always built from freshly computed values, and reading lnL after it gives the
recomputed value (the harness' oracle O0 relies on exactly this) -/
theorem make_calculator_fresh (g : Ctl.Graph V) (hwf : Ctl.WF g) (s : Ctl.St V) :
    ∀ k, k < g.length → LocalOK g (refreshAll g s) k := by
  intro k hk
  obtain ⟨a, b, _, _⟩ := updateLoop_spec g hwf (List.range g.length) { s with changed := List.range g.length }
    List.pairwise_lt_range (fun x hx => by simpa using hx) (fun j hj hjn => absurd (by simpa using hj) hjn)
    (fun j hj hjn => absurd (by simpa using hj) hjn)
    (fun j hj hjc => absurd hj hjc)
  exact (a k hk).congr rfl (fun _ _ => rfl) (by show s.setting k = _; rw [b])

theorem genStep_inv (g : Ctl.Graph V) (hwf : Ctl.WF g) (s : Ctl.St V) (o : GOp V) (hI : Ctl.Inv g s) :
    match genStep g s o with
    | .ok s' => Ctl.Inv g s'
    | .error _ => True := by
  obtain ⟨h1, h2, h3, h4⟩ := gen_step_is_model g s
  cases o with
  | assign k v =>
    rw [h1]
    by_cases hl : Prim.isLeaf g k = true
    · simp only [hl, if_true]; exact step_inv g hwf s (.assign k v) hI
    · simp only [hl]; trivial
  | enter => rw [h2]; exact step_inv g hwf s .enter hI
  | exit => rw [h3]; exact step_inv g hwf s .exit hI
  | xexit => rw [h4]; exact step_inv g hwf s .xexit hI
  | updateAll =>
    show match update_intermediate_values g s none with | .ok s' => Ctl.Inv g s' | .error _ => True
    rw [update_intermediate_values_all]
    have hJ0 : J g { s with changed := s.changed ++ List.range g.length } := by
      intro j hj hjc
      simp only [List.mem_append, not_or] at hjc
      exact LocalOK.congr (hI.j j hj hjc.1) rfl (fun _ _ => rfl) rfl
    obtain ⟨a, b, c, d, _⟩ := updateIntermediate_spec g hwf _ hJ0
    refine ⟨a, ?_, ?_⟩
    · rw [c, d]; exact hI.stack
    · intro h; rw [c] at h; exact b h
  | makeCalc =>
    show Ctl.Inv g (refreshAll g s)
    exact ⟨fun j hj _ => make_calculator_fresh g hwf s j hj, hI.stack, hI.clean⟩
  | fromCalc cv =>
    show match update_from_calculator g s cv with | .ok s' => Ctl.Inv g s' | .error _ => True
    rw [update_from_calculator_eq]
    unfold fromCalc
    have hJ0 : J g { s with setting := fun j => if (List.range g.length).contains j && Prim.isLeaf g j then cv j else s.setting j,
                            changed := s.changed ++ (List.range g.length).filter (fun k => Prim.isLeaf g k) } := by
      intro j hj hjc
      simp only [List.mem_append, List.mem_filter, List.mem_range, not_or, not_and] at hjc
      have hnl : ¬ Prim.isLeaf g j = true := hjc.2 hj
      exact LocalOK.congr (hI.j j hj hjc.1) rfl (fun _ _ => rfl) (by simp [hnl])
    obtain ⟨a, b, c, d, _⟩ := updateIntermediate_spec g hwf _ hJ0
    refine ⟨a, ?_, ?_⟩
    · rw [c, d]; exact hI.stack
    · intro h; rw [c] at h; exact b h

/-- **gen_controller_consistent**: after ANY history of operations executed by the TRANSLATED
`ParameterController.assign_all` / `updates_postponed` (entered, left normally, left by an exception, nested) /
`update_intermediate_values()` / `make_calculator()` / `update_from_calculator(calc)` (any calculator values) — including `assign_all` calls that raise because the definition is derived — whenever
no block is open nothing is suspended, nothing is marked dirty, every definition holds its rule applied to the current
settings, and all values equal those of a NEWLY BUILT controller given the same settings -/
theorem gen_controller_consistent (g : Ctl.Graph V) (hwf : Ctl.WF g) (setting : Nat → V) (hist : List (GOp V)) :
    Ctl.Inv g (genRun g (Ctl.init g setting) hist) ∧
    ((genRun g (Ctl.init g setting) hist).stack = [] →
      (genRun g (Ctl.init g setting) hist).suspended = false ∧
      (genRun g (Ctl.init g setting) hist).changed = [] ∧
      (∀ k, k < g.length → LocalOK g (genRun g (Ctl.init g setting) hist) k) ∧
      (∀ k, k < g.length → (genRun g (Ctl.init g setting) hist).values k
          = (Ctl.init g (genRun g (Ctl.init g setting) hist).setting).values k)) := by
  have h0 : Ctl.Inv g (Ctl.init g setting) := (controller_consistent g hwf setting []).1
  have hI : Ctl.Inv g (genRun g (Ctl.init g setting) hist) := by
    generalize Ctl.init g setting = s0 at h0
    induction hist generalizing s0 with
    | nil => exact h0
    | cons o os ih =>
      simp only [genRun]
      have := genStep_inv g hwf s0 o h0
      cases hs : genStep g s0 o with
      | ok s1 => rw [hs] at this; exact ih s1 this
      | error e => exact ih s0 h0
  refine ⟨hI, fun hst => ?_⟩
  have hs := hI.stack
  rw [hst] at hs
  have hsusp : (genRun g (Ctl.init g setting) hist).suspended = false := hs
  have hloc : ∀ k, k < g.length → LocalOK g (genRun g (Ctl.init g setting) hist) k := by
    intro k hk
    apply hI.j k hk
    rw [hI.clean hsusp]; simp
  refine ⟨hsusp, hI.clean hsusp, hloc, ?_⟩
  have hB := (controller_consistent g hwf (genRun g (Ctl.init g setting) hist).setting []).2
  simp only [Ctl.run] at hB
  have hJ0 : J g (Ctl.init0 g (genRun g (Ctl.init g setting) hist).setting) := by
    intro k hk hkc; exact absurd (by simpa [Ctl.init0] using hk) hkc
  obtain ⟨_, _, _, hstack, hsetting⟩ := updateIntermediate_spec g hwf _ hJ0
  have hB' := (hB (by show (Ctl.updateIntermediate g _).stack = []; rw [hstack]; rfl)).2.2
  intro k hk
  exact (localOK_unique g hwf _ _ (fun j _ => by
    show (Ctl.updateIntermediate g _).setting j = _
    rw [hsetting]; rfl) hloc hB' k hk).symm

/-! ### non-vacuity -/

/-- the exception class a call raised -/
def errOf {α : Type} : Except String α → Option String
  | .error e => some e
  | .ok _ => none

/-- 3 edges sharing kappa-like defaults; edge 1 re-bounded to [2,5], edge 2 made constant -/
def exGD : Defn := { nEdges := 3, dLo := 0, dVal := 1, dHi := 10, indepDefault := false }
def exGS : Rules.St :=
  runRules exGD (Rules.fresh exGD)
    [ { edges := some [1], isIndependent := none, isConstant := false, value := none, init := some 3, lower := some 2, upper := some 5 },
      { edges := some [2], isIndependent := none, isConstant := true, value := some 4, init := none, lower := none, upper := none } ]

example : (get_current_bounds exGD exGS [0, 1, 2]).toOption = some (some 0, some 10) := by decide +kernel
example : (get_current_bounds exGD exGS [1, 2]).toOption = some (some 2, some 5) := by decide +kernel
example : (get_current_bounds exGD exGS [2]).toOption = some (some 0, some 10) := by decide +kernel  -- only constants: class defaults
example : (get_mean_current_value exGD exGS [0, 1, 2]).toOption = some (some (8 / 3)) := by decide +kernel
example : (assign_all_scope exGD exGS [1, 2] none (some 4) none none).toOption = some (.var (some 4) (some 4) (some 5)) := by
  decide +kernel  -- mean 7/2 raised to the new lower bound
example : errOf (assign_all_scope exGD exGS [1, 2] none (some 8) none none) = some "ValueError" := by decide +kernel
example : (set_param_rule_tail none false (some 0) none (some 2) none).toOption = some (some 2, none, none, false, none) := by
  decide +kernel  -- value=0.0 is falsy: the assert passes and init wins
example : errOf (set_param_rule_tail none true none none (some 2) none) = some "AssertionError" := by decide +kernel

/-- leaves 0, 1; 2 = f(0,1); 3 = f(2,0): a block left by an exception, an assignment to the DERIVED definition 2
(raises, nothing changes), update_intermediate_values() inside a block, then the block ends -/
def exGG : Ctl.Graph Int :=
  [.leaf, .leaf, .derived [0, 1] (fun l => l.foldl (· + ·) 0), .derived [2, 0] (fun l => l.foldl (· * ·) 1)]
def exGHist : List (GOp Int) :=
  [.enter, .assign 0 5, .xexit, .assign 2 9, .enter, .assign 1 7, .updateAll, .exit]
/-- inside a block: an assignment, make_calculator() (values refreshed although suspended), the hand-back of a
calculator at (4, 2) (nothing propagates yet), then the block ends -/
def exGHist2 : List (GOp Int) := [.enter, .assign 0 3, .makeCalc, .fromCalc (fun k => if k = 0 then 4 else 2), .exit]
example :
    let s := genRun exGG (Ctl.init exGG (fun _ => 1)) (exGHist2.take 3)
    s.suspended = true ∧ (List.range 4).map s.values = [3, 1, 4, 12] ∧ s.changed = [0] := by decide +kernel
example :
    let s := genRun exGG (Ctl.init exGG (fun _ => 1)) (exGHist2.take 4)
    (List.range 4).map s.values = [3, 1, 4, 12] ∧ (List.range 4).map s.setting = [4, 2, 1, 1] ∧ s.changed = [0, 0, 1] := by
  decide +kernel
example :
    let s := genRun exGG (Ctl.init exGG (fun _ => 1)) exGHist2
    s.stack = [] ∧ (List.range 4).map s.values = [4, 2, 6, 24] ∧ s.changed = [] := by decide +kernel
example : errOf (genStep exGG (genRun exGG (Ctl.init exGG (fun _ => 1)) (exGHist.take 3)) (.assign 2 9)) = some "ValueError" := by
  decide +kernel
example :
    let s := genRun exGG (Ctl.init exGG (fun _ => 1)) exGHist
    s.stack = [] ∧ (List.range 4).map s.values = [5, 7, 12, 60] ∧ s.changed = [] := by decide +kernel
example :
    let s := genRun exGG (Ctl.init exGG (fun _ => 1)) (exGHist.take 7)
    s.stack = [false] ∧ (List.range 4).map s.values = [5, 1, 6, 30] ∧ s.changed = [1, 0, 1, 2, 3] := by decide +kernel

end CogentModel.C07
