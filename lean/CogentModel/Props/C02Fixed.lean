import CogentModel.Model.PruneFixed
import CogentModel.Proofs.PruneFixed
import CogentModel.Props.C02
import CogentModel.Model.PruneGap
import CogentModel.Proofs.PruneGap
/-! # C02, third part — `fixed_motifs` (`PartialLikelihoodProductDefnFixedMotif`, ancestral reconstruction)

`Model/PruneFixed.lean` mirrors the mask `result[:, motif != fixed_motif] = 0` on the partial likelihoods of ONE internal
node, addressed by its path from the root (`lhFixed`), inside the pruning recursion of `Model/Prune.lean`.  All
statements: every commutative semiring, every rose tree, every node at ANY depth, every profile. -/
namespace CogentModel.C02
open CogentModel.Prune CogentModel.PruneFixed

/-- **The restricted likelihoods of a node sum to the column likelihood** (what `reconstruct_ancestral_seqs` returns per
node and column, summed over the `m` states, is the unrestricted likelihood of the column): for every tree, every path
that ends at an internal node (the root included: `path = []`), every profile. -/
theorem fixed_motif_sum {R α : Type} [CommSemiring R] (m : Nat) (π : Nat → R) (prof : α → Nat → R)
    (path : List Nat) (t : PTree R α) (hv : isInternalAt path t = true) :
    (∑ s ∈ Finset.range m, lhFixed m π prof s path t) = lh m π prof t := by
  simp only [lhFixed, lh, dot, sumOver_eq]
  rw [Finset.sum_comm]
  refine Finset.sum_congr rfl fun x hx => ?_
  rw [← Finset.sum_mul]
  congr 1
  have h := plhMod_sum m prof (Finset.range m) (fun s => maskVec m s) id
    (by
      intro v x hx
      simp only [maskVec_get, id]
      rw [Finset.sum_ite_eq (Finset.range m) x]
      simp [hx])
    path t hv x (Finset.mem_range.mp hx)
  rw [h, plhMod_id]

/-- a 6-node tree, the inner 3-ary node (path `[1]`) and the root (path `[]`): 240 = the sum of the two
restricted values; they are different from each other and non-zero -/
example : isInternalAt [1] exTree = true := by decide
example : lhFixed 2 exPi exProf 0 [1] exTree + lhFixed 2 exPi exProf 1 [1] exTree = 240 := by decide
example : lhFixed 2 exPi exProf 0 [1] exTree = 132 ∧ lhFixed 2 exPi exProf 1 [1] exTree = 108 := by decide
example : lhFixed 2 exPi exProf 0 [] exTree + lhFixed 2 exPi exProf 1 [] exTree = lh 2 exPi exProf exTree := by decide
/-- the hypothesis is needed: a path that ends at a tip restricts nothing, the sum is then `m` times the likelihood -/
example : lhFixed 2 exPi exProf 0 [0] exTree + lhFixed 2 exPi exProf 1 [0] exTree = 2 * 240 := by decide

/-- **An all-compatible leaf is neutral, at any depth.**  Hanging an extra tip below ANY node of the tree (addressed by
`path`; nothing is added when the path does not end at an internal node) whose symbol is compatible with every state
(`?`, `N`, an all-gap sequence: profile `1` on the `m` states) and whose edge matrix has rows summing to one — the
identity in particular — does not change the column likelihood. -/
theorem all_compatible_leaf_neutral {R α : Type} [CommSemiring R] (m : Nat) (π : Nat → R) (prof : α → Nat → R)
    (P0 : Mat R) (a0 : α) (hP : RowStochastic m P0) (h1 : ∀ s, s < m → prof a0 s = 1)
    (path : List Nat) (t : PTree R α) :
    lh m π prof (addLeafAt (.leaf P0 a0) path t) = lh m π prof t := by
  unfold lh
  rw [plh_addLeafAt]
  refine dot_congr m _ _ π fun x hx => ?_
  rw [plhMod_congr m prof _ id ?_ path t x hx, plhMod_id]
  intro v y hy
  simp only [mulVec_get, up, upWith_get, PTree.mat, plh, id]
  have : (∑ s' ∈ Finset.range m, P0 y s' * prof a0 s') = 1 := by
    rw [← hP y hy]
    refine Finset.sum_congr rfl fun s' hs' => ?_
    rw [h1 s' (Finset.mem_range.mp hs'), mul_one]
  rw [this, one_mul]

/-- the identity (edge matrix of a pin leaf) has rows summing to one -/
theorem idMat_rowStochastic {R : Type} [CommSemiring R] (m : Nat) : RowStochastic m (idMat : Mat R) := by
  intro i hi
  simp only [idMat]
  rw [Finset.sum_ite_eq (Finset.range m) i]
  simp [hi]

/-- leaf `2` of `exTree` is all-compatible in `exProf`; a second copy of it on an identity edge below the inner node
(depth 1) or below the root changes nothing -/
example : lh 2 exPi exProf (addLeafAt (.leaf idMat 2) [1] exTree) = 240 := by decide
example : (addLeafAt (.leaf idMat 2) [1] exTree).numNodes = 7 := by decide
example : lh 2 exPi exProf (addLeafAt (.leaf idMat 2) [] exTree) = 240 := by decide

/-- **The mask of the code is a pin leaf.**  The likelihood with `fixed_motif = s` on the node at `path` equals the
plain pruning likelihood of the tree with one more tip below that node whose edge matrix is the identity and whose
profile is the indicator of `s` (any path; when it does not end at an internal node neither side restricts anything). -/
theorem fixed_motif_eq_pin_leaf {R α : Type} [CommSemiring R] (m : Nat) (π : Nat → R) (prof : α → Nat → R)
    (s : Nat) (a0 : α) (h1 : ∀ x, x < m → prof a0 x = if x = s then 1 else 0)
    (path : List Nat) (t : PTree R α) :
    lhFixed m π prof s path t = lh m π prof (addLeafAt (.leaf idMat a0) path t) := by
  unfold lh lhFixed
  rw [plh_addLeafAt]
  refine dot_congr m _ _ π fun x hx => ?_
  refine (plhMod_congr m prof _ _ ?_ path t x hx).symm
  intro v y hy
  simp only [mulVec_get, up, upWith_get, PTree.mat, plh, maskVec_get, idMat]
  have : (∑ s' ∈ Finset.range m, (if y = s' then (1 : R) else 0) * prof a0 s') = if y = s then 1 else 0 := by
    simp only [ite_mul, one_mul, zero_mul]
    rw [Finset.sum_ite_eq (Finset.range m) y]
    simp [hy, h1 y hy]
  rw [this]
  by_cases hys : y = s <;> simp [hys]

/-- … hence, by `prune_eq_bruteForce`, the restricted likelihood is the first-principles sum over ALL labelings of the
tree with the pin leaf (the identity edge kills every labeling in which the node's state is not `s`) -/
theorem fixed_motif_eq_bruteForce {R α : Type} [CommSemiring R] (m : Nat) (π : Nat → R) (prof : α → Nat → R)
    (s : Nat) (a0 : α) (h1 : ∀ x, x < m → prof a0 x = if x = s then 1 else 0)
    (path : List Nat) (t : PTree R α) :
    lhFixed m π prof s path t = bruteForce (fun _ _ => true) m π prof (addLeafAt (.leaf idMat a0) path t) := by
  rw [fixed_motif_eq_pin_leaf m π prof s a0 h1 path t, prune_eq_bruteForce]

/-- leaf name `7` does not occur in `exTree`; give it the indicator of state 1 -/
example : lhFixed 2 exPi (fun a x => if a = 7 then (if x = 1 then 1 else 0) else exProf a x) 1 [1] exTree
    = lh 2 exPi (fun a x => if a = 7 then (if x = 1 then 1 else 0) else exProf a x) (addLeafAt (.leaf idMat 7) [1] exTree) := by
  decide
example : lh 2 exPi (fun a x => if a = 7 then (if x = 1 then 1 else 0) else exProf a x) (addLeafAt (.leaf idMat 7) [1] exTree) = 108 := by
  decide

/-! ## the extra all-gap column (count 0) every node appends to its unique columns -/

/-- **The gap row is weightless.**  `get_log_sum_across_sites` over the arrays of a real node — `_indexed` output plus the
appended gap row with count `0` — is the plain sum over ALL alignment columns, whatever the gap row's key and whatever
likelihood `g` the kernel computes for it (any `g`, so `log` stays uninterpreted). -/
theorem gap_column_weightless {κ S : Type} [DecidableEq κ] [AddCommMonoid S] (g : κ → S) (gap : κ) (cols : List κ) :
    lnLCompressedGap g gap cols = (cols.map g).sum := by
  unfold lnLCompressedGap indexedGap
  simp only
  rw [wls_append_zero g _ _ gap (indexed_len cols)]
  exact compress_sum g cols

/-- **No column points at the gap row**: `likelihoods[self.index]` over the extended table gives every alignment column
its own pattern's value; the index array is the one `_indexed` produced and all its entries are below the gap row's position. -/
theorem gap_column_full_length {κ S : Type} [DecidableEq κ] [Zero S] (g : κ → S) (gap : κ) (cols : List κ) :
    fullLengthGap g gap cols = cols.map g
    ∧ (indexedGap gap cols).index = (indexed cols).index
    ∧ (∀ i ∈ (indexedGap gap cols).index, i < (indexedGap gap cols).uniq.length - 1)
    ∧ (indexedGap gap cols).counts.getLast? = some 0 := by
  refine ⟨?_, rfl, ?_, by simp [indexedGap]⟩
  · rw [← full_length_expand g cols]
    unfold fullLengthGap fullLength indexedGap
    simp only [List.map_append]
    refine List.map_congr_left fun i hi => ?_
    rw [List.getD_append _ _ _ _ (by simpa using indexed_index_lt cols i hi)]
  · intro i hi
    simpa [indexedGap] using indexed_index_lt cols i hi

/-- three columns, one repeated; the gap row's own "likelihood" (`g 9 = 1000`) never shows up -/
example : (indexedGap 9 [4, 7, 4]).uniq = [4, 7, 9] ∧ (indexedGap 9 [4, 7, 4]).counts = [2, 1, 0]
    ∧ (indexedGap 9 [4, 7, 4]).index = [0, 1, 0] := by decide
example : lnLCompressedGap (fun k => if k = 9 then 1000 else k + 1) 9 [4, 7, 4] = 5 + 8 + 5 := by decide
example : fullLengthGap (fun k => if k = 9 then 1000 else k + 1) 9 [4, 7, 4] = [5, 8, 5] := by decide
example : gapKey [3, 1, 5] = [2, 0, 4] := by decide

end CogentModel.C02
