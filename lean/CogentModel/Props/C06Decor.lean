import CogentModel.Proofs.ClustalDecor
import CogentModel.Proofs.ClustalDecorCheck
import CogentModel.Props.C06Clustal
/-! # C06 — Clustal / MUSCLE files that are NOT writer shaped

`Spec/ClustalDecorated.lean` describes a *decorated* file: any interleaving of decoration lines (everything
`is_clustal_seq_line` rejects: `CLUSTAL ...` / `MUSCLE ...` headers anywhere, empty lines, consensus lines led by a
blank or a tab) with sequence lines `label <ws> residues [<ws> count] <ws>` where `<ws>` is any white space (blanks,
tabs, the `\r` of a CRLF file) and `count` any token `int()` accepts.  The theorems are for ALL such files, both values
of `strict`, any number of blocks and any (also unequal) block widths. -/
namespace CogentModel.C06
open CogentModel.Splitlines CogentModel.SeqFormats CogentModel.SeqSpec CogentModel.ClustalSpec CogentModel.Clustal

/-- the (label, residues) pairs of the sequence lines of a file with blocks `cs` over the records `recs`, in file order -/
def blockPairs (recs : List Rec) (cs : List (Rec → Str)) : List (Str × Str) :=
  cs.flatMap (fun c => recs.map (fun r => (r.1, c r)))

/-- **Decorated Clustal files parse to their records** (`ClustalParser`, strict and non-strict).  For every record list
with distinct labels the format can carry, every non-empty list of blocks `cs` (block `c` shows the residues `c r` of
record `r`; residues without blank or digit) and EVERY decorated file whose sequence lines carry these pairs in block
order: the parser returns the labels in first-block order, each with the concatenation of its pieces. -/
theorem clustal_decorated_parse (strict : Bool) (recs : List Rec) (hn : (recs.map Prod.fst).Nodup)
    (hl : ∀ r ∈ recs, clustalName r.1 = true) (c : Rec → Str) (cs : List (Rec → Str))
    (hc : ∀ d ∈ c :: cs, ∀ r ∈ recs, clustalSeq (d r) = true) (lines : List Str)
    (hd : Decorated (blockPairs recs (c :: cs)) lines) :
    clustalParser strict lines = .ok (recs.map (fun r => (r.1, ((c :: cs).map (fun d => d r)).flatten))) := by
  unfold clustalParser minimalClustalParser
  rw [decorated_go strict hd (by
    intro p hp
    simp only [blockPairs, List.mem_flatMap, List.mem_map] at hp
    obtain ⟨d, hd', r, hr, rfl⟩ := hp
    exact ⟨hl r hr, hc d hd' r hr⟩) []]
  unfold blockPairs
  rw [fold_all recs hn c cs]
  simp [Except.map, List.map_map, Function.comp_def]

/-- **Decorated round trip**: if the blocks cut every sequence into its pieces (`(cs.map (· r)).flatten = r.2`), every
decorated rendering of the records parses back to exactly the records (names verbatim, order, sequences). -/
theorem clustal_decorated_roundtrip (strict : Bool) (recs : List Rec) (hn : (recs.map Prod.fst).Nodup)
    (hl : ∀ r ∈ recs, clustalName r.1 = true) (c : Rec → Str) (cs : List (Rec → Str))
    (hc : ∀ d ∈ c :: cs, ∀ r ∈ recs, clustalSeq (d r) = true)
    (hcut : ∀ r ∈ recs, ((c :: cs).map (fun d => d r)).flatten = r.2) (lines : List Str)
    (hd : Decorated (blockPairs recs (c :: cs)) lines) :
    clustalParser strict lines = .ok recs := by
  rw [clustal_decorated_parse strict recs hn hl c cs hc lines hd]
  congr 1
  conv => rhs; rw [← List.map_id recs]
  apply List.map_congr_left
  intro r hr
  rw [hcut r hr]; rfl

/-- **Decorations never matter**: two line lists with the same sequence lines (whatever else they contain, in whatever
position) parse to the same result, errors included. -/
theorem clustal_decoration_invariant (strict : Bool) (l1 l2 : List Str)
    (h : l1.filter isSeqLine = l2.filter isSeqLine) : clustalParser strict l1 = clustalParser strict l2 := by
  unfold clustalParser minimalClustalParser
  rw [h]

/-- a residue count or other white space after the residues never matters: any two renderings of the same pair list
parse alike (consequence of `clustal_decorated_parse`, stated for the writer's own text): the text the WRITER produces
and any decorated file over the same blocks give the same records. -/
theorem clustal_decorated_eq_written (wrap : Option Nat) (hw : ∀ w, wrap = some w → 0 < w) (recs : List Rec)
    (hne : recs ≠ []) (L : Nat) (h : ClustalRecs L recs) (c : Rec → Str) (cs : List (Rec → Str))
    (hc : ∀ d ∈ c :: cs, ∀ r ∈ recs, clustalSeq (d r) = true)
    (hcut : ∀ r ∈ recs, ((c :: cs).map (fun d => d r)).flatten = r.2) (lines : List Str)
    (hd : Decorated (blockPairs recs (c :: cs)) lines) :
    ∃ text, clustalFormat wrap recs = .ok text ∧ clustalParse text = clustalParser true lines := by
  obtain ⟨t, h1, h2⟩ := clustal_roundtrip wrap hw recs hne L h
  refine ⟨t, h1, ?_⟩
  rw [h2, clustal_decorated_roundtrip true recs h.1 (fun r hr => (h.2 r hr).1) c cs hc hcut lines hd]

/-- the executable recogniser the driver runs on every generated decorated file is sound: `true` means the file has the
shape the theorems above quantify over (so the generator's files are inside the theorems' domain, checked each run) -/
theorem checkDecorated_sound (ps : List (Str × Str)) (lines : List Str) (h : checkDecorated ps lines = true) :
    Decorated ps lines := checkDecorated_sound' lines ps h

-- non-vacuity: a MUSCLE file with a header, a blank line, tab padding, a running residue count, a consensus line led by
-- a tab, a second header in the middle, trailing blanks and a CR; two records, two blocks of different widths
private def exRecs : List Rec := [(['s', '1'], ['A', 'C', '-']), (['t'], ['G', 'G', 'T'])]
private def exLines : List Str :=
  ["MUSCLE (3.8)".toList, [], "s1\tAC 2".toList, "t   GG\t2 \r".toList, "\t**".toList, "CLUSTAL".toList,
   "s1  -  ".toList, "t \t T\r".toList, "   ".toList]
example : Decorated (blockPairs exRecs [fun r => r.2.take 2, fun r => r.2.drop 2]) exLines :=
  .deco _ (by decide) <| .deco _ (by decide) <|
  .seq (['s', '1'], ['A', 'C']) _ (.counted ['\t'] [' '] ['2'] [] (by decide) (by decide) (by decide) (by decide) (by decide) (by decide) (by decide)) <|
  .seq (['t'], ['G', 'G']) _ (.counted [' ', ' ', ' '] ['\t'] ['2'] [' ', '\r'] (by decide) (by decide) (by decide) (by decide) (by decide) (by decide) (by decide)) <|
  .deco _ (by decide) <| .deco _ (by decide) <|
  .seq (['s', '1'], ['-']) _ (.plain [' ', ' '] [' ', ' '] (by decide) (by decide) (by decide)) <|
  .seq (['t'], ['T']) _ (.plain [' ', '\t', ' '] ['\r'] (by decide) (by decide) (by decide)) <|
  .deco _ (by decide) .nil
example : checkDecorated (blockPairs exRecs [fun r => r.2.take 2, fun r => r.2.drop 2]) exLines = true := by decide
example : clustalParser true exLines = .ok exRecs := by decide
example : clustalParser false exLines = .ok exRecs := by decide
example : clustalParser true (['x'] :: exLines) ≠ clustalParser true exLines := by decide

end CogentModel.C06
