import CogentModel.Model.AnnotDb
import CogentModel.Spec.AnnotDb
import CogentModel.Proofs.AnnotDb
import CogentModel.Proofs.GffBlocksD
import CogentModel.Model.AnnotDbRoundTrip
import CogentModel.Proofs.AnnotDbRoundTrip
/-! # C17 — annotation databases return exactly the matching records

`matchPartial`, `matchWithin`, `matchStartOnly`, `matchStopOnly` are **generated** from the SQL
f-strings of `_matching_conditions` on every run (`Gen/C17Sql.lean`); the first four theorems are
therefore re-checked against what the code says now. -/
namespace CogentModel.C17
open CogentModel.AnnotDb CogentModel.AnnotDbSpec CogentModel.Gen.C17Sql

/-- The four OR-ed SQL clauses used with `allow_partial=True` select exactly the rows whose
`[start, stop)` overlaps the window `[a, b)` (proper intervals). -/
theorem partial_iff_overlap (s e a b : Int) (hse : s < e) (hab : a < b) :
    matchPartial s e a b = true ↔ overlaps s e a b := by
  unfold matchPartial overlaps
  simp only [Bool.or_eq_true, Bool.and_eq_true, decide_eq_true_eq]
  try omega

example : matchPartial 3 5 4 9 = true ∧ overlaps 3 5 4 9 := by decide
example : matchPartial 3 5 5 9 = false ∧ ¬ overlaps 3 5 5 9 := by decide

/-- The `allow_partial=False` clause selects exactly the rows lying inside the window. -/
theorem within_iff (s e a b : Int) : matchWithin s e a b = true ↔ within s e a b := by
  unfold matchWithin within
  simp only [Bool.or_eq_true, Bool.and_eq_true, decide_eq_true_eq]
  try omega

example : matchWithin 4 9 4 9 = true ∧ matchWithin 3 9 4 9 = false := by decide

/-- With only one bound given, the clause selects the rows containing that point. -/
theorem point_clause_iff (s e x : Int) :
    (matchStartOnly s e x = true ↔ containsPt s e x) ∧ (matchStopOnly s e x = true ↔ containsPt s e x) := by
  unfold matchStartOnly matchStopOnly containsPt
  simp only [Bool.or_eq_true, Bool.and_eq_true, decide_eq_true_eq]
  constructor <;> first | trivial | omega

example : matchStartOnly 2 5 4 = true ∧ matchStopOnly 2 5 5 = false := by decide

/-- Degenerate rows (`start = stop`, a zero-length feature): the partial clauses treat the point
as matching the *closed* window `[a, b]`. -/
theorem partial_zero_length (s a b : Int) (hab : a < b) :
    matchPartial s s a b = true ↔ (a ≤ s ∧ s ≤ b) := by
  unfold matchPartial
  simp only [Bool.or_eq_true, Bool.and_eq_true, decide_eq_true_eq]
  try omega

example : matchPartial 9 9 4 9 = true := by decide

theorem clauses_ok : ClausesOk :=
  ⟨partial_iff_overlap, within_iff, fun s e a => (point_clause_iff s e a).1, fun s e a => (point_clause_iff s e a).2⟩

/-- `get_features_matching` / `get_records_matching`, for every db class (any number of tables),
every subset of the optional arguments and either `allow_partial`, returns exactly the MULTISET of
records that the linear scan with the property's predicate selects (`List.Perm`).

Order is deliberately not claimed.  In the model the two lists are even equal
(`query_is_filter_of` in `Proofs/AnnotDb.lean`: tables in `table_names` order, rows in insertion
order), but that is an artefact of the model: the real `SELECT` has no `ORDER BY`, and once
`make_indexes()` has run sqlite answers column conditions in index order (the correspondence counts
a few dozen order differences per run and therefore compares multisets). -/
theorem query_is_filter (db : Db) (q : Query) (hdb : ∀ r ∈ db.records, r.start < r.stop) (hq : WindowOk q) :
    (getMatching db q).Perm (linearScan db.records q) := by
  rw [query_is_filter_of clauses_ok db q hdb hq]

example :
    let r1 := mkUserRec "s1" "gene" "a" (some "-") none [(8, 10), (5, 2)]
    let r2 := mkUserRec "s1" "cds" "a" none none [(12, 15)]
    let db : Db := { kind := .gff, tables := [("gff", [r2]), ("user", [r1, r2])] }
    let q : Query := { seqid := some "s1", name := some "a", start := some 9, stop := some 12, allowPartial := true }
    getMatching db q = [r1] ∧ WindowOk q ∧ ∀ r ∈ db.records, r.start < r.stop := by decide

/-! ### (audit) the same without the side conditions, for every window mode except "both bounds
and `allow_partial=True`": zero-length rows and reversed / empty windows included -/

/-- `query_is_filter` needs neither `start < stop` on the rows nor a proper window unless both
bounds are given together with `allow_partial=True`. -/
theorem query_is_filter_nonpartial (db : Db) (q : Query)
    (h : q.allowPartial = false ∨ q.start = none ∨ q.stop = none) :
    (getMatching db q).Perm (linearScan db.records q) := by
  have e : getMatching db q = linearScan db.records q := by
    unfold getMatching Db.records
    show _ = List.filter _ _
    rw [filter_flatMap]
    simp only [selectTable_nonpartial clauses_ok _ q h]
    rfl
  rw [e]

-- a zero-length row, a reversed window: outside `query_is_filter`, inside this one
example :
    let z := mkUserRec "s1" "gene" "z" none none [(9, 9)]
    let r := mkUserRec "s1" "gene" "r" none none [(3, 7)]
    let db : Db := { kind := .basic, tables := [("user", [z, r])] }
    let q : Query := { seqid := some "s1", start := some 4, stop := some 9 }
    let q' : Query := { start := some 9, stop := some 4 }
    getMatching db q = [z] ∧ getMatching db q' = [] ∧ ¬ (∀ r ∈ db.records, r.start < r.stop) ∧ ¬ WindowOk q' := by decide

/-- `num_matches(seqid, biotype, name, strand, attributes)` is the length of the linear scan, for every
subset of its arguments (since 969aa691c `attributes` is the same substring search as in the query methods). -/
theorem num_matches_is_scan_count (db : Db) (q : Query) :
    numMatches db q = (linearScan db.records { q with start := none, stop := none }).length := by
  unfold numMatches linearScan Db.records
  rw [filter_flatMap]
  congr 2
  funext t
  apply List.filter_congr
  intro r _
  unfold countMatches countConds specMatch windowMatch
  simp only [List.all_append, optCond_spec, Bool.and_true]
  rw [Bool.and_comm (optMatch q.seqid r.seqid)]

example :
    let r1 := mkUserRec "s1" "gene" "a" (some "-") none [(2, 5)]
    let r2 := mkUserRec "s2" "gene" "a" none none [(12, 15)]
    let db : Db := { kind := .gff, tables := [("gff", [r2, r1]), ("user", [r1])] }
    numMatches db { seqid := some "s1", name := some "a" } = 2 ∧ numMatches db {} = 3 := by decide

-- the former counterexample: both records match the substring now
example :
    let r1 := mkUserRec "s1" "gene" "a" none (some "k=zq;") [(2, 5)]
    let r2 := mkUserRec "s1" "gene" "b" none (some "zq") [(7, 9)]
    let db : Db := { kind := .basic, tables := [("user", [r1, r2])] }
    numMatches db { attributes := some "zq" } = 2 := by
  decide +kernel

/-- `add_feature` stores spans that denote the same set of positions as the spans given
(whatever their order / orientation). -/
theorem add_feature_positions (seqid biotype name : String) (strand attrs : Option String)
    (spans : List (Int × Int)) (p : Int) :
    covers (mkUserRec seqid biotype name strand attrs spans).spans p ↔ covers spans p :=
  norm_positions spans p

/-- … and its `start`/`stop` columns are the hull of those positions. -/
theorem add_feature_hull (seqid biotype name : String) (strand attrs : Option String)
    (spans : List (Int × Int)) (p : Int) (h : covers spans p) :
    (mkUserRec seqid biotype name strand attrs spans).start ≤ p ∧
      p < (mkUserRec seqid biotype name strand attrs spans).stop :=
  hull_of_covers _ p ((norm_positions spans p).mpr h)

example : (mkUserRec "s" "g" "n" none none [(8, 10), (5, 2)]).spans = [(2, 5), (8, 10)] ∧
    (mkUserRec "s" "g" "n" none none [(8, 10), (5, 2)]).start = 2 ∧
    (mkUserRec "s" "g" "n" none none [(8, 10), (5, 2)]).stop = 10 := by decide

/-- GFF: a 1-based closed `[first, last]` row becomes a 0-based half-open span over the same residues. -/
theorem gff_coords_positions (first last p1 : Int) (h1 : 1 ≤ first) (h2 : first ≤ last) :
    covers1 first last p1 ↔ (gffCoords first last).1 ≤ p1 - 1 ∧ p1 - 1 < (gffCoords first last).2 :=
  gffCoords_positions first last p1 h1 h2

example : gffCoords 3 5 = (2, 5) := by decide

/-- GenBank: the stored spans of any location expression (`join`, `complement`, nested) cover the
0-based position `p0` iff one of its 1-based closed segments covers `p0 + 1`. -/
theorem genbank_coords_positions (l : Loc) (hl : ∀ seg ∈ l.flat, seg.1 ≤ seg.2.1) (p0 : Int) :
    covers (gbCoords l) p0 ↔ ∃ seg ∈ l.flat, covers1 seg.1 seg.2.1 (p0 + 1) :=
  gbCoords_positions l hl p0

example : gbCoords (.complement (.join [.seg 10 20, .seg 30 40])) = [(9, 20), (29, 40)] ∧
    gbStrand (.complement (.join [.seg 10 20, .seg 30 40])) = some "-" ∧
    gbStrand (.join [.seg 10 20, .complement (.seg 30 40)]) = none := by decide

/-- `complement(complement(x))` denotes the same segments and strands as `x`. -/
theorem genbank_complement_involutive (x : Loc) : (Loc.complement (Loc.complement x)).flat = x.flat :=
  flat_complement_complement x

example : (Loc.complement (.join [.seg 1 2, .seg 5 9])).flat = [(5, 9, -1), (1, 2, -1)] := by decide

/-- `update` keeps every record of `self` and adds exactly the selected records of `other`
(multiset equality), staying a well-formed db of the same class. -/
theorem update_perm (self other : Db) (seqids : Option CondVal) (d : Db)
    (hs : self.WF) (ho : other.WF) (h : update self other seqids = .ok d) :
    d.WF ∧ d.kind = self.kind ∧ d.records.Perm (self.records ++ other.records.filter (seqidCond seqids)) :=
  AnnotDb.update_perm self other seqids d hs ho h

-- (audit) `update` with a `seqids` selection, gff <- basic; and the refused direction basic <- gff
example :
    let r1 := mkUserRec "s1" "gene" "a" (some "-") none [(2, 5)]
    let r2 := mkUserRec "s2" "cds" "b" none none [(12, 15)]
    let a : Db := { kind := .gff, tables := [("gff", [r2]), ("user", [r1])] }
    let b : Db := { kind := .basic, tables := [("user", [r2, r1, r2])] }
    a.WF ∧ b.WF ∧
    (match update a b (some (.many ["s2", "s3"])) with | .ok d => d.records == [r2, r1, r2, r2] | .error _ => false) = true ∧
    (match update b a none with | .ok _ => false | .error e => e == .typeError) = true := by
  decide

/-- `union` preserves the multiset of records of both operands (whenever it succeeds). -/
theorem union_perm (self other d : Db) (hs : self.WF) (ho : other.WF) (h : union self other = .ok d) :
    d.WF ∧ d.records.Perm (self.records ++ other.records) :=
  union_perm_aux self other d hs ho h

example :
    let r1 := mkUserRec "s1" "gene" "a" (some "-") none [(2, 5)]
    let r2 := mkUserRec "s2" "cds" "b" none none [(12, 15)]
    let a : Db := { kind := .basic, tables := [("user", [r1])] }
    let b : Db := { kind := .gff, tables := [("gff", [r2]), ("user", [r2, r1])] }
    a.WF ∧ b.WF ∧ (match union a b with | .ok d => d.records == [r2, r1, r2, r1] | .error _ => false) = true := by
  decide

/-- `subset(**query)` holds exactly the multiset of records the linear scan selects, for every query
(any subset of column conditions, any window mode, either `allow_partial`) and keeps the db class.
(Multiset, not order: see `query_is_filter`.) -/
theorem subset_filter (db : Db) (q : Query) (hdb : ∀ r ∈ db.records, r.start < r.stop) (hq : WindowOk q) :
    ∃ d, subset db q = .ok d ∧ d.kind = db.kind ∧ d.records.Perm (linearScan db.records q) := by
  obtain ⟨d, h1, h2, h3⟩ := subset_filter_aux db q hdb (fun t ht => selectTable_spec clauses_ok t q ht hq)
  exact ⟨d, h1, h2, by rw [h3]⟩

example :
    let r1 := mkUserRec "s1" "gene" "a" (some "-") none [(2, 5)]
    let r2 := mkUserRec "s1" "gene" "b" (some "-") none [(12, 15)]
    let db : Db := { kind := .basic, tables := [("user", [r1, r2])] }
    let q : Query := { start := some 0, stop := some 11 }
    (match subset db q with | .ok d => d.records == [r1] | .error _ => false) = true := by
  decide

/-- (audit) … and without side conditions outside the "both bounds + `allow_partial`" mode. -/
theorem subset_filter_nonpartial (db : Db) (q : Query)
    (h : q.allowPartial = false ∨ q.start = none ∨ q.stop = none) :
    ∃ d, subset db q = .ok d ∧ d.kind = db.kind ∧ d.records.Perm (linearScan db.records q) := by
  have e : ∃ d, subset db q = .ok d ∧ d.kind = db.kind ∧ d.records = linearScan db.records q := by
    unfold subset
    split
    · rename_i hl
      refine ⟨_, rfl, rfl, ?_⟩
      rw [empty_records, records_nil_of_len hl]; rfl
    · refine ⟨_, rfl, rfl, ?_⟩
      unfold Db.records linearScan
      rw [filter_flatMap]
      simp only [List.flatMap_map, selectTable_nonpartial clauses_ok _ q h]
      rfl
  obtain ⟨d, h1, h2, h3⟩ := e
  exact ⟨d, h1, h2, by rw [h3]⟩

example :
    let z := mkUserRec "s1" "gene" "z" none none [(9, 9)]
    let r := mkUserRec "s1" "gene" "r" none none [(3, 7)]
    let db : Db := { kind := .genbank, tables := [("gb", [r]), ("user", [z, r])] }
    (match subset db { stop := some 5 } with | .ok d => d.records == [r, r] | .error _ => false) = true := by
  decide

/-- Loading a GFF file in one block gives one record per ID (rows merged), nothing else. -/
theorem gff_load_one_block (rows : List GffRow) :
    loadGffBlocks [rows] = (mergeRows rows 0 []).1.map gffRec := by
  simp only [loadGffBlocks, loadBlock, List.foldl_cons, List.foldl_nil, List.contains_nil, Bool.false_eq_true, if_false,
    foldl_const, List.nil_append, Bool.not_false]
  rw [List.filter_eq_self.mpr (fun _ _ => rfl)]

example :
    (loadGffBlocks [[⟨some "c1", "s1", "CDS", "-", "ID=c1", 3, 4⟩, ⟨some "c1", "s1", "CDS", "-", "ID=c1", 8, 10⟩]]).map
      (fun r => (r.name, r.spans, r.start, r.stop)) = [(some "c1", [(2, 4), (7, 10)], 2, 10)] := by decide

/-- **gff_load_block_independent.**  `_db_from_gff` (as it is since 348f9741c) stores the same
records — same order, hence the same multiset — whatever `lines_per_block` is: any way of cutting
the rows into blocks gives what reading them in one block gives.  This covers IDs whose rows fall
into different blocks (`update_record_spans` + popping the already-seen name) and the numbering
of rows without an ID across blocks (`num_fake_ids` threaded through `merged_gff_records`).
Hypothesis: in the merged file no feature lists the same span twice (see the counterexample below). -/
theorem gff_load_block_independent (blocks : List (List GffRow))
    (hnd : ∀ x ∈ (mergeRows blocks.flatten 0 []).1, x.spans.Nodup) :
    loadGffBlocks blocks = loadGffBlocks [blocks.flatten] :=
  loadGffBlocks_independent blocks hnd

/-- … in particular the same multiset of records. -/
theorem gff_load_block_independent_perm (blocks : List (List GffRow))
    (hnd : ∀ x ∈ (mergeRows blocks.flatten 0 []).1, x.spans.Nodup) :
    (loadGffBlocks blocks).Perm (loadGffBlocks [blocks.flatten]) := by
  rw [gff_load_block_independent blocks hnd]

-- three blocks: an ID split over blocks 1 and 3, rows without ID in every block
example :
    let c1a : GffRow := ⟨some "c1", "s1", "CDS", "-", "ID=c1", 3, 4⟩
    let c1b : GffRow := ⟨some "c1", "s1", "CDS", "-", "ID=c1", 8, 10⟩
    let e1 : GffRow := ⟨none, "s1", "exon", "-", "Parent=c1", 3, 4⟩
    let e2 : GffRow := ⟨none, "s1", "exon", "-", "Parent=c1", 8, 9⟩
    let e3 : GffRow := ⟨none, "s2", "exon", "+", "", 1, 2⟩
    let blocks := [[c1a, e1], [e2], [e3, c1b]]
    (∀ x ∈ (mergeRows blocks.flatten 0 []).1, x.spans.Nodup) ∧
    (loadGffBlocks blocks).map (fun r => (r.name, r.spans, r.start, r.stop)) =
      [(some "c1", [(2, 4), (7, 10)], 2, 10), (some "unknown-0", [(2, 4)], 2, 4),
       (some "unknown-1", [(7, 9)], 7, 9), (some "unknown-2", [(0, 2)], 0, 2)] := by
  decide

/-- (audit) "one record per ID", which `gff_load_one_block` only restates as a definition: whatever the
blocking, no two stored records share a name … -/
theorem gff_load_names_nodup (blocks : List (List GffRow))
    (hnd : ∀ x ∈ (mergeRows blocks.flatten 0 []).1, x.spans.Nodup) :
    ((loadGffBlocks blocks).map (·.name)).Nodup := by
  rw [gff_load_block_independent blocks hnd, gff_load_one_block, mergeRows_eq, List.map_map]
  have h := nodup_names_combine (singles blocks.flatten 0).1 [] names_nil_nodup
  unfold names at h
  have hf : ((fun r : Rec => r.name) ∘ gffRec) = (fun m : Merged => some m.name) := rfl
  rw [hf]
  simp only [List.Nodup, List.pairwise_map] at h ⊢
  exact h.imp (fun hab hc => hab (Option.some.inj hc))

/-- … and every `ID=` that occurs in the file is the name of a stored record (no ID is lost). -/
theorem gff_load_every_id_stored (blocks : List (List GffRow))
    (hnd : ∀ x ∈ (mergeRows blocks.flatten 0 []).1, x.spans.Nodup)
    (row : GffRow) (i : String) (hrow : row ∈ blocks.flatten) (hi : row.id = some i) :
    some i ∈ (loadGffBlocks blocks).map (·.name) := by
  rw [gff_load_block_independent blocks hnd, gff_load_one_block, mergeRows_eq, List.map_map]
  have hf : ((fun r : Rec => r.name) ∘ gffRec) = (fun m : Merged => some m.name) := rfl
  rw [hf]
  have hs : ∀ (rows : List GffRow) (n : Nat), row ∈ rows → i ∈ names (singles rows n).1 := by
    intro rows
    induction rows with
    | nil => intro n h; cases h
    | cons r rs ih =>
      intro n h
      unfold singles
      rcases List.mem_cons.mp h with h | h
      · subst h; simp [hi, names]
      · cases hr : r.id <;> simp only [names, List.map_cons, List.mem_cons] <;> right <;> exact ih _ h
  have := mem_names_combine_right (singles blocks.flatten 0).1 [] i (hs _ 0 hrow)
  unfold names at this
  obtain ⟨m, hm, rfl⟩ := List.mem_map.mp this
  exact List.mem_map.mpr ⟨m, hm, rfl⟩

-- (the three-block example above satisfies the hypothesis; its names are c1, unknown-0, unknown-1, unknown-2)

/- The hypothesis is needed: when the *same row* of one ID occurs twice, reading both copies in one
   block keeps the span twice, while `_merge_spans` (`numpy.unique`, and the `old == new` shortcut)
   drops the duplicate when the copies are in different blocks.  The correspondence check replays
   this input on the real loader. -/
theorem gff_blocks_duplicate_row_counter :
    (loadGffBlocks [[⟨some "c1", "s1", "CDS", "-", "ID=c1", 3, 5⟩], [⟨some "c1", "s1", "CDS", "-", "ID=c1", 3, 5⟩]]).map (·.spans)
      = [[(2, 5)]] ∧
    (loadGffBlocks [[⟨some "c1", "s1", "CDS", "-", "ID=c1", 3, 5⟩, ⟨some "c1", "s1", "CDS", "-", "ID=c1", 3, 5⟩]]).map (·.spans)
      = [[(2, 5), (2, 5)]] := by
  decide

/-! ## Serialisation round trips (record-list model `Model/AnnotDbRoundTrip.lean`)

`to_rich_dict` keeps the non-NULL columns of every row; `from_dict` OPENS `init_args["source"]` and INSERTS
the records into it; `__deepcopy__` / pickle REPLACE the new connection's content with the byte image;
`write` + reopening loads the backup.  sqlite's `serialize`/`deserialize`/`backup` are trusted to carry
row lists unchanged; what the theorems are about is the dict encoding of a row and which db the rows end
up in. -/

/-- One row survives `to_rich_dict` → `from_dict` unchanged, whichever of its optional columns are NULL. -/
theorem richdict_row_roundtrip (r : Rec) : richToRec (recToRich r) = r :=
  richToRec_recToRich r

example : richToRec (recToRich (mkUserRec "s1" "gene" "a" none (some "note=zq") [(8, 10), (5, 2)]))
    = mkUserRec "s1" "gene" "a" none (some "note=zq") [(8, 10), (5, 2)] := by decide

/-- `from_dict(to_rich_dict())` and `deserialise_object(to_json())` of an IN-MEMORY db of any of the
three classes: same class, well formed, same multiset of records. -/
theorem richdict_roundtrip_perm (db : Db) (h : db.WF) :
    (jsonRoundTrip db false).WF ∧ (jsonRoundTrip db false).kind = db.kind ∧
      (jsonRoundTrip db false).records.Perm db.records :=
  jsonRoundTrip_memory_perm db h

theorem to_json_roundtrip_perm (db : Db) (h : db.WF) : (jsonRoundTrip db false).records.Perm db.records :=
  (jsonRoundTrip_memory_perm db h).2.2

example :
    let r1 := mkUserRec "s1" "gene" "a" (some "-") none [(2, 5)]
    let r2 := mkUserRec "s2" "cds" "b" none (some "zq") [(12, 15)]
    let db : Db := { kind := .gff, tables := [("gff", [r2]), ("user", [r1, r2])] }
    db.WF ∧ (jsonRoundTrip db false).records = [r2, r1, r2] := by decide

/- FULL STATEMENT (not proved): the same for a FILE-BACKED db (`source=<file>`).  False of the mirrored
   model and of the code (open finding C17-json-roundtrip-of-file-backed-db-duplicates): `from_dict`
   re-opens the source file and inserts every record into it again. -/
theorem richdict_roundtrip_file_backed_counter (db : Db) (h : db.WF) :
    (jsonRoundTrip db true).records.Perm (db.records ++ db.records) :=
  jsonRoundTrip_file_doubles db h

/-- `copy.deepcopy(db)` (and `copy`, which the classes do not define separately): same records, for an
in-memory and for a file-backed source — the byte image replaces what the new connection opened. -/
theorem deepcopy_perm (db : Db) (fileBacked : Bool) :
    (deepcopyDb db fileBacked).kind = db.kind ∧ (deepcopyDb db fileBacked).records.Perm db.records :=
  ⟨rfl, List.Perm.refl _⟩

/-- pickling (`__getstate__` = byte image + source, `__setstate__` = open source, deserialize) is the
same operation. -/
theorem pickle_perm (db : Db) (fileBacked : Bool) : (deepcopyDb db fileBacked).records.Perm db.records :=
  List.Perm.refl _

/-- `write(path)` to a new file and `cls(source=path)`: same records. -/
theorem write_load_perm (db : Db) : (writeLoad db).kind = db.kind ∧ (writeLoad db).records.Perm db.records :=
  ⟨rfl, List.Perm.refl _⟩

example :
    let r1 := mkUserRec "s1" "gene" "a" (some "-") none [(2, 5)]
    let db : Db := { kind := .genbank, tables := [("gb", [r1]), ("user", [r1])] }
    (deepcopyDb db true).records = [r1, r1] ∧ (writeLoad db).records = [r1, r1] ∧
      (jsonRoundTrip db true).records = [r1, r1, r1, r1] := by decide

end CogentModel.C17
