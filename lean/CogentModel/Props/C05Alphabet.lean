import CogentModel.Props.C05
import CogentModel.Proofs.AlphabetLemmas
/-!
# C05 — the instantaneous-change mask over every gap-free word alphabet

Closes the structural hypotheses of `reversible_detailed_balance_conditional` / `_monomer`: for **every** alphabet of
words of a common length `L` over any monomer alphabet that does not contain the gap code `g` (all named models:
`model_gaps=False`), both `_is_instantaneous` variants (`isInstWord`, `isInstCodon`) select exactly the pairs that
differ at one position.
-/
namespace CogentModel.C05
open CogentModel.RateMatrix

/-- the mask is "exactly one differing position" -/
theorem instMask_iff_one_difference (codon : Bool) (g : Nat) (words : Array (Array Nat)) (L : Nat)
    (hlen : ∀ i, i < words.size → (wordAt words i).length = L) (hgap : ∀ i, i < words.size → g ∉ wordAt words i)
    (i j : Nat) (hi : i < words.size) (hj : j < words.size) :
    bget (instMask codon g words) i j = true ↔ nDiffs (wordAt words i) (wordAt words j) = 1 :=
  instMask_iff codon g words L hlen hgap i j hi hj

/-- it is symmetric -/
theorem instMask_symmetric (codon : Bool) (g : Nat) (words : Array (Array Nat)) (L : Nat)
    (hlen : ∀ i, i < words.size → (wordAt words i).length = L) (hgap : ∀ i, i < words.size → g ∉ wordAt words i)
    (i j : Nat) (hi : i < words.size) (hj : j < words.size) :
    bget (instMask codon g words) i j = bget (instMask codon g words) j i :=
  instMask_symm codon g words L hlen hgap i j hi hj

/-- and instantaneous pairs share their context at the changed position (both forms used downstream) -/
theorem instMask_pairs_differ_at_one_position (codon : Bool) (g : Nat) (words : Array (Array Nat)) (L : Nat)
    (hlen : ∀ i, i < words.size → (wordAt words i).length = L) (hgap : ∀ i, i < words.size → g ∉ wordAt words i)
    (i j : Nat) (hi : i < words.size) (hj : j < words.size) (hb : bget (instMask codon g words) i j = true) :
    sameContext (firstDiff (wordAt words i) (wordAt words j)) 0 (wordAt words i) (wordAt words j) = true ∧
    firstDiff (wordAt words i) (wordAt words j) < L ∧
    ∀ k, k < L → k ≠ firstDiff (wordAt words i) (wordAt words j) →
      (words.getD i #[]).getD k 0 = (words.getD j #[]).getD k 0 :=
  instMask_one_position codon g words L hlen hgap i j hi hj hb

/-- the sense-codon style alphabet {00,01,10,11} minus nothing, gap code 2: hypotheses hold -/
example : (∀ i, i < 4 → (wordAt #[#[0, 0], #[0, 1], #[1, 0], #[1, 1]] i).length = 2) ∧
    (∀ i, i < 4 → 2 ∉ wordAt #[#[0, 0], #[0, 1], #[1, 0], #[1, 1]] i) := by
  constructor <;> decide

variable {K : Type*} [Field K]

/-- **Detailed balance for the conditional motif-prob model over every gap-free alphabet** (GTR, CNFGTR, CNFHKY, and any
user model with `mprob_model="conditional"`), with the model's own mask: only symmetry of `R` and `R = 0` off the mask
remain as hypotheses (both are `parametric_symmetric` / the mask factor of `exchParametric`). -/
theorem conditional_detailed_balance_gapfree [DecidableEq K] (codon : Bool) (g : Nat) (words : Array (Array Nat)) (L : Nat)
    (hlen : ∀ i, i < words.size → (wordAt words i).length = L) (hgap : ∀ i, i < words.size → g ∉ wordAt words i)
    (pi : Vec K) (R : Mat K)
    (hR : ∀ i j, i < words.size → j < words.size → mget R i j = mget R j i)
    (hzero : ∀ i j, i < words.size → j < words.size → bget (instMask codon g words) i j = false → mget R i j = 0)
    (i j : Nat) (hi : i < words.size) (hj : j < words.size) :
    vget pi i * mget (calcQStationary words.size R (weightConditional words L (instMask codon g words) pi) pi) i j =
      vget pi j * mget (calcQStationary words.size R (weightConditional words L (instMask codon g words) pi) pi) j i :=
  reversible_detailed_balance_conditional words L _ pi R hR hzero
    (fun a b ha hb => instMask_symm codon g words L hlen hgap a b ha hb)
    (fun a b ha hb h => (instMask_one_position codon g words L hlen hgap a b ha hb h).1) i j hi hj

/-- **Detailed balance for the monomer / position-specific monomer models over every gap-free alphabet** (MG94HKY, MG94GTR). -/
theorem monomer_detailed_balance_gapfree (codon : Bool) (g : Nat) (words : Array (Array Nat)) (L : Nat)
    (hlen : ∀ i, i < words.size → (wordAt words i).length = L) (hgap : ∀ i, i < words.size → g ∉ wordAt words i)
    (mp : Nat → Vec K) (R : Mat K)
    (hR : ∀ i j, i < words.size → j < words.size → mget R i j = mget R j i)
    (hzero : ∀ i j, i < words.size → j < words.size → bget (instMask codon g words) i j = false → mget R i j = 0)
    (i j : Nat) (hi : i < words.size) (hj : j < words.size) :
    vget (wordProbsMonomer words L mp) i *
        mget (calcQStationary words.size R (weightMonomer words (instMask codon g words) mp) (wordProbsMonomer words L mp)) i j =
      vget (wordProbsMonomer words L mp) j *
        mget (calcQStationary words.size R (weightMonomer words (instMask codon g words) mp) (wordProbsMonomer words L mp)) j i :=
  reversible_detailed_balance_monomer words L _ mp R hR hzero
    (fun a b ha hb => instMask_symm codon g words L hlen hgap a b ha hb)
    (fun a b ha hb h => (instMask_one_position codon g words L hlen hgap a b ha hb h).2) i j hi hj

/-- `exchParametric` from the model's own 0/1 mask vanishes off the mask (the `hzero` hypothesis above) -/
theorem parametric_zero_off_mask (n : Nat) (inst : Mat Bool) (preds : List (List (Nat × Nat))) (params : List K) (R : Mat K)
    (h : exchParametric n (maskF n inst) preds params = some R) (i j : Nat) (hi : i < n) (hj : j < n)
    (hb : bget inst i j = false) : mget R i j = 0 := by
  unfold exchParametric at h
  split at h
  · injection h with h; subst h
    have key : ∀ (ps : List (List (Nat × Nat))) (R0 : Mat K) (pr : List K), mget R0 i j = 0 →
        mget (applyPreds n R0 ps pr) i j = 0 := by
      intro ps
      induction ps with
      | nil => intro R0 pr h0; simpa [applyPreds] using h0
      | cons idx idxs ih =>
        intro R0 pr h0
        cases pr with
        | nil => simpa [applyPreds] using h0
        | cons p ps' =>
          rw [applyPreds]
          apply ih
          unfold applyPred
          rw [mget_tab _ hi hj, h0]
          split <;> simp
    apply key
    rw [mget_tab _ hi hj]
    unfold maskF
    rw [mget_tab _ hi hj, hb]; simp
  · exact absurd h (by simp)

example : exchParametric 2 (maskF 2 #[#[false, true], #[true, false]] : Mat ℚ) [[(0, 1), (1, 0)]] [5] = some #[#[0, 5], #[5, 0]] := by
  decide +kernel

end CogentModel.C05
