import CogentModel.Proofs.OptGen
import CogentModel.Props.C16
import CogentModel.Props.C16Clamp
/-! # C16 — the optimiser stack as TRANSLATED from the current source, and the likelihood-function level

`Gen/C16Opt.lean` is produced on every run by `translator/c16_opt2lean.py` from the source text of
`limited_use`, `bounded_function`, `bounds_exception_catching_function`, `maximise` (`maths/optimisers.py`),
`Calculator.optimise` (`recalculation/calculation.py`) and `ParameterController.optimise`
(`recalculation/scope.py`).  The `translated_*_is_model` theorems say that each generated definition IS the hand
model (`Model/Optimiser.lean`, `Model/OptimiserLf.lean`) for all arguments; `translated_lf_optimise_never_lowers`
states the property directly about the translated `ParameterController.optimise`;
the `lf_*` theorems are about the hand model of the likelihood-function level (`limit_action`, the `finally:
update_from_calculator`), `transform_*` about the optimiser-side parameter transform.

In every statement the optimisers are an adversary: `env.qsG` / `env.qsL` (resp. `qs`) are ANY finite lists of
query points, the objective `env.f` may raise or return NaN anywhere. -/
namespace CogentModel.C16
open CogentModel.Optimiser CogentModel.OptGen CogentModel.OptGenProofs CogentModel.Gen

variable {X Y : Type}

/-! ## the generated definitions are the hand model -/

/-- `limited_use.wrapped_f` (translated) = `limitedCall`: limit test before the count, count before the call,
record only on `>`, the state change survives a raise. -/
theorem translated_wrapped_f_is_model (env : Env X Y) (b : Option (X × X)) (maxE : Option Nat) (s : St X Y)
    (a : Aux X Y) (x : X) :
    C16Opt.limited_use.wrapped_f env (callObj env) maxE x (embed s a)
      = (embed (limitedCall (toCfg env b maxE) s x).1 a, outRes (limitedCall (toCfg env b maxE) s x).2) :=
  wrapped_f_eq env b maxE s a x

/-- `bounded_function._wrapper(limited_use.wrapped_f)` (translated) = `boundedCall` -/
theorem translated_bounded_is_model (env : Env X Y) (maxE : Option Nat) (lo hi : X) (s : St X Y) (a : Aux X Y) (x : X) :
    C16Opt.bounded_function._wrapper env (C16Opt.limited_use.wrapped_f env (callObj env) maxE) lo hi x (embed s a)
      = (embed (boundedCall (toCfg env (some (lo, hi)) maxE) s x).1 a,
         outRes (boundedCall (toCfg env (some (lo, hi)) maxE) s x).2) :=
  impl_bounded env maxE lo hi s a x

/-- `bounds_exception_catching_function._wrapper` (translated) = `seen`: `ArithmeticError` /
`ParameterOutOfBoundsError` / NaN / +inf become `-inf`, everything else propagates -/
theorem translated_catching_is_model (env : Env X Y) (b : Option (X × X)) (maxE : Option Nat)
    (g : X → PM X Y (PyF Y)) (hneg : ∀ y, env.fin y = false → env.isneginf y = true → y = env.negInf)
    (hg : Impl g (toCfg env b maxE)) (s : St X Y) (a : Aux X Y) (x : X) :
    C16Opt.bounds_exception_catching_function._wrapper env g x (embed s a)
      = (embed (boundedCall (toCfg env b maxE) s x).1 (a.warn (warns env (boundedCall (toCfg env b maxE) s x).2)),
         match seen (toCfg env b maxE) (boundedCall (toCfg env b maxE) s x).2 with
         | .stop e => .error (stopExc e)
         | .ret y => .ok (.val y)) :=
  catching_eq env b maxE g hneg hg s a x

/-- `limited_use.get_best` (translated) = `getBest`: the objective is called once more AT the best point, then
`(best_fval, best_x, evals)` is returned -/
theorem translated_get_best_is_model (env : Env X Y) (b : Option (X × X)) (maxE : Option Nat) (s : St X Y) (a : Aux X Y)
    (h : BestOk (toCfg env b maxE) s) :
    C16Opt.limited_use.get_best env (callObj env) maxE (embed s a)
      = match s.bestX with
        | some xb => (embed { s with calls := xb :: s.calls } a, .ok (.val s.bestF, some xb, s.evals))
        | none => (embed s a, .error .fatal) :=
  get_best_eq env b maxE s a h

/-- **the translated `maximise` is the hand model `maximise`**, for every objective, start, bounds argument
(`None`, or a pair with `None` sides), `local` (None/True/False), evaluation limit, `return_eval_count`, `warn`,
every behaviour of the two optimisers and every incoming state whose call log is empty: same final closure cells,
same sequence of objective calls (incl. the `get_best` call), same values shown to the optimisers, same
result / exception. -/
theorem translated_maximise_is_model (env : Env X Y)
    (hneg : ∀ y, env.fin y = false → env.isneginf y = true → y = env.negInf)
    (x0 : X) (bounds : Option (Option X × Option X)) (local_ : Option Bool) (maxE : Option Nat) (rec warn : Bool)
    (g : GSt X Y) (hcalls : g.calls = []) :
    ∃ w, C16Opt.maximise env (callObj env) x0 bounds local_ maxE rec warn g
      = (embed (Optimiser.maximise (toCfg env (boundsOf env bounds) maxE)
                  (if env.multi x0 then x0 else env.atleast1d x0) (queriesFor local_ env.qsG env.qsL)).st
           { shown := ((Optimiser.maximise (toCfg env (boundsOf env bounds) maxE)
                  (if env.multi x0 then x0 else env.atleast1d x0) (queriesFor local_ env.qsG env.qsL)).shown.map PyF.val).reverse ++ g.shown,
             warned := w, updates := g.updates, optimised := g.optimised },
         finalRes env (env.multi x0) rec (Optimiser.maximise (toCfg env (boundsOf env bounds) maxE)
                  (if env.multi x0 then x0 else env.atleast1d x0) (queriesFor local_ env.qsG env.qsL)).final) :=
  maximise_eq env hneg x0 bounds local_ maxE rec warn g hcalls

/-- the translated `Calculator.optimise` = hand `maximise` on the calculator, started at the clamped value array,
with the bounds `(low, high)` in THIS order, `local` and `max_evaluations` passed through; `optimised` is set
exactly when `maximise` returns -/
theorem translated_calculator_optimise_is_model (env : Env X Y)
    (hneg : ∀ y, env.fin y = false → env.isneginf y = true → y = env.negInf)
    (local_ : Option Bool) (maxE : Option Nat) (g : GSt X Y) (hcalls : g.calls = []) :
    ∃ w, C16Opt.Calculator.optimise env local_ maxE g
      = (embed (Optimiser.maximise (toCfg env (some (env.boundsLow, env.boundsHigh)) maxE) (startOf env)
                  (queriesFor local_ env.qsG env.qsL)).st
           { shown := ((Optimiser.maximise (toCfg env (some (env.boundsLow, env.boundsHigh)) maxE) (startOf env)
                  (queriesFor local_ env.qsG env.qsL)).shown.map PyF.val).reverse ++ g.shown,
             warned := w, updates := g.updates,
             optimised := (Optimiser.maximise (toCfg env (some (env.boundsLow, env.boundsHigh)) maxE) (startOf env)
                  (queriesFor local_ env.qsG env.qsL)).final.exc.isNone || g.optimised },
         calcRes (Optimiser.maximise (toCfg env (some (env.boundsLow, env.boundsHigh)) maxE) (startOf env)
                  (queriesFor local_ env.qsG env.qsL)).final.exc) :=
  calc_optimise_eq env hneg local_ maxE g hcalls

/-- **`start_clamp_in_bounds` for the TRANSLATED code.**  In any environment whose array operations are numpy's
boolean-mask operations on vectors (`C16Clamp.MaskLaws`; `C16Clamp.listEnv_laws` is one), the vector the translated
`Calculator.optimise` hands to `maximise` (`clampX env`, see `translated_calculator_optimise_is_model`) is `clampStart` of the
calculator's values and bounds (`C16Clamp.gen_clampX_is_clampStart`); so, under the hypotheses of `start_clamp_in_bounds`,
it passes `bounded_function`'s test against the very bounds that are passed on, and a vector already within bounds is
handed on unchanged. -/
theorem translated_start_clamp_in_bounds {R : Type} [LinearOrder R] (env : Env X Y) (rep : X → List R) (repM : X → List Bool)
    (close : R → R → Bool) (L : C16Clamp.MaskLaws env rep repM (fun a b => decide (a < b)) close) (v : List (Coord R))
    (hx : rep env.valueArray = v.map (·.x)) (hlo : rep env.boundsLow = v.map (·.lo)) (hhi : rep env.boundsHigh = v.map (·.hi))
    (hlohi : ∀ c ∈ v, c.lo ≤ c.hi)
    (hL : v.all (fun c => !(decide (c.x < c.lo)) || close c.x c.lo) = true)
    (hH : (clampLow (fun a b => decide (a < b)) close v).all (fun c => !(decide (c.hi < c.x)) || close c.x c.hi) = true) :
    ∃ w : List (Coord R), rep (clampX env) = w.map (·.x) ∧ w.map (·.lo) = rep env.boundsLow ∧ w.map (·.hi) = rep env.boundsHigh ∧
      inBounds (fun a b => decide (a < b)) w = true ∧
      (inBounds (fun a b => decide (a < b)) v = true → rep (clampX env) = rep env.valueArray) := by
  refine ⟨clampStart (fun a b => decide (a < b)) close v,
    C16Clamp.gen_clampX_is_clampStart env rep repM _ close L v hx hlo hhi, ?_, ?_,
    (start_clamp_in_bounds close v hlohi hL hH).1, ?_⟩
  · rw [hlo]; exact (C16Clamp.clampStart_bounds _ close v).1
  · rw [hhi]; exact (C16Clamp.clampStart_bounds _ close v).2
  · intro hin
    rw [C16Clamp.gen_clampX_is_clampStart env rep repM _ close L v hx hlo hhi, (start_clamp_in_bounds close v hlohi hL hH).2 hin, hx]

/-- the same, evaluated: the translated clamp on the list environment, `allclose` = "differs by at most 1" -/
example : (clampX (OptGenClamp.listEnv (fun a b : Int => decide (a < b)) (fun a b => decide (a - b ≤ 1 ∧ b - a ≤ 1))
    [4, 11, 7] [5, 0, 0] [9, 10, 9])).rep = [5, 10, 7] := by decide
/-- one coordinate too far below: the `low` clamp is skipped as a whole, the `high` clamp still applies -/
example : (clampX (OptGenClamp.listEnv (fun a b : Int => decide (a < b)) (fun a b => decide (a - b ≤ 1 ∧ b - a ≤ 1))
    [4, 11, 1] [5, 0, 5] [9, 10, 9])).rep = [4, 10, 1] := by decide

/-- **the translated `ParameterController.optimise` is the hand model `lfOptimise`**: `local`,
`max_evaluations` are forwarded, `MaximumEvaluationsReached` is turned into nothing / a warning /
`ArithmeticError` by `limit_action`, every other exception propagates, and `update_from_calculator` runs exactly once,
after everything else, whatever happened. -/
theorem translated_lf_optimise_is_model (env : Env X Y)
    (hneg : ∀ y, env.fin y = false → env.isneginf y = true → y = env.negInf)
    (local_ : Option Bool) (limitAction : String) (maxE : Option Nat) (rc : Option Bool)
    (g : GSt X Y) (hcalls : g.calls = []) :
    ∃ w, C16Opt.ParameterController.optimise env local_ limitAction maxE rc g
      = (embed (lfOptimise (toCfg env (some (env.boundsLow, env.boundsHigh)) maxE) limitAction (startOf env)
                  (queriesFor local_ env.qsG env.qsL)).run.st
           { shown := ((lfOptimise (toCfg env (some (env.boundsLow, env.boundsHigh)) maxE) limitAction (startOf env)
                  (queriesFor local_ env.qsG env.qsL)).run.shown.map PyF.val).reverse ++ g.shown,
             warned := w + (if (lfOptimise (toCfg env (some (env.boundsLow, env.boundsHigh)) maxE) limitAction (startOf env)
                  (queriesFor local_ env.qsG env.qsL)).outcome = .warned then 1 else 0),
             updates := (lfOptimise (toCfg env (some (env.boundsLow, env.boundsHigh)) maxE) limitAction (startOf env)
                  (queriesFor local_ env.qsG env.qsL)).applied :: g.updates,
             optimised := (lfOptimise (toCfg env (some (env.boundsLow, env.boundsHigh)) maxE) limitAction (startOf env)
                  (queriesFor local_ env.qsG env.qsL)).optimised || g.optimised },
         lfRes rc (lfOptimise (toCfg env (some (env.boundsLow, env.boundsHigh)) maxE) limitAction (startOf env)
                  (queriesFor local_ env.qsG env.qsL)).outcome) :=
  lf_optimise_eq env hneg local_ limitAction maxE rc g hcalls

/-! ## the likelihood-function level (hand model `lfOptimise`) -/

/-- **lf_optimise_takes_back_best**.  For every objective, every in-bounds start with a finite value `y0`, every
evaluation limit ≥ 1, EVERY optimiser behaviour and EVERY `limit_action` string — also when the run ends with the
"FORCED EXIT" `ArithmeticError` or any other exception out of the optimiser — the point `update_from_calculator`
takes back in the `finally` is the best point `xb` ever evaluated: `f xb = fb ≥ y0`, `xb` within bounds. -/
theorem lf_optimise_takes_back_best [LinearOrder Y] (c : Cfg X Y) (hg : ∀ a b, c.gt a b = decide (b < a))
    (limitAction : String) (x0 : X) (y0 : Y) (h0 : c.f x0 = .val y0) (hb : c.inB x0 = true)
    (hfin : c.fin y0 = true) (hbot : c.negInf < y0) (hmax : c.maxEvals ≠ some 0) (qs : List X) :
    ∃ fb xb, (lfOptimise c limitAction x0 qs).applied = some xb ∧ c.f xb = .val fb ∧ y0 ≤ fb ∧ c.inB xb = true ∧
      (∀ x ∈ (lfOptimise c limitAction x0 qs).run.st.calls, ∀ y, c.f x = .val y → y ≤ fb) ∧
      (lfOptimise c limitAction x0 qs).outcome ≠ .valueError := by
  obtain ⟨fb, xb, n, exc, hfinal, hfxb, hle, hmaxi, hhead, _⟩ := maximise_never_worse c hg x0 y0 h0 hb hfin hbot hmax qs
  refine ⟨fb, xb, hhead, hfxb, hle, (best_within_bounds c x0 qs).2 fb xb n exc hfinal, hmaxi, ?_⟩
  simp only [lfOptimise, hfinal]
  rcases exc with _ | _ | _ <;> simp [Final.exc, lfEnd]
  split <;> [simp; (split <;> simp)]

/-- **lf_limit_action**.  What `limit_action` does, for every run: `MaximumEvaluationsReached` never leaves
`lf.optimise`; `"ignore"` neither warns nor raises the forced-exit error; `"warn"` never raises it; a forced-exit
error or warning occurs only when the evaluation limit really cut the run short; `Calculator.optimised` is set
exactly on a run that was not cut short by anything. -/
theorem lf_limit_action (c : Cfg X Y) (limitAction : String) (x0 : X) (qs : List X) :
    ((lfOptimise c limitAction x0 qs).outcome = .forcedExit →
        limitAction ≠ "ignore" ∧ limitAction ≠ "warn" ∧ ∃ n, (maximise c x0 qs).final.exc = some (.maxEvals n)) ∧
    ((lfOptimise c limitAction x0 qs).outcome = .warned →
        limitAction = "warn" ∧ ∃ n, (maximise c x0 qs).final.exc = some (.maxEvals n)) ∧
    ((∃ n, (maximise c x0 qs).final.exc = some (.maxEvals n)) →
        (lfOptimise c limitAction x0 qs).outcome
          = if limitAction == "ignore" then .returned else if limitAction == "warn" then .warned else .forcedExit) ∧
    ((lfOptimise c limitAction x0 qs).optimised = true ↔ (maximise c x0 qs).final.exc = none) := by
  simp only [lfOptimise]
  rcases h : (maximise c x0 qs).final.exc with _ | ⟨n⟩ | _ | _
  · simp [lfEnd]
  · by_cases hi : limitAction = "ignore"
    · simp [lfEnd, hi]
    · by_cases hw : limitAction = "warn"
      · simp [lfEnd, hw]
      · simp [lfEnd, hi, hw]
  · simp [lfEnd]
  · simp [lfEnd]

/-- non-vacuity: on `exA` (start value 1, the limit of 4 evaluations cuts the optimiser short after it found 10),
`limit_action="raise"` ends in the forced-exit error, `"warn"` warns, `"ignore"` returns — and the point taken back is
the best one (5, value 10); without the cut-off the run returns and `optimised` is set -/
example : (lfOptimise exA "raise" 2 [1, 9, 3, 5, 6, 7]).outcome = .forcedExit ∧
    (lfOptimise exA "warn" 2 [1, 9, 3, 5, 6, 7]).outcome = .warned ∧
    (lfOptimise exA "ignore" 2 [1, 9, 3, 5, 6, 7]).outcome = .returned ∧
    (lfOptimise exA "raise" 2 [1, 9, 3, 5, 6, 7]).applied = some 5 ∧
    (lfOptimise exA "raise" 2 [1, 9, 3, 5, 6, 7]).optimised = false ∧
    (lfOptimise exA "raise" 2 [1, 9]).outcome = .returned ∧ (lfOptimise exA "raise" 2 [1, 9]).optimised = true := by decide

/-- the hypotheses of `lf_optimise_takes_back_best` are satisfiable (start 2 with value 1 on `exA`) -/
example := lf_optimise_takes_back_best exA (fun _ _ => rfl) "raise" 2 1 (by decide) (by decide) (by decide)
  (by decide) (by decide) [1, 9, 3, 5, 6, 7]

/-! ## the property, stated about the translated code -/

/-- **translated_lf_optimise_never_lowers**.  Run the TRANSLATED `ParameterController.optimise` (→
`Calculator.optimise` → `maximise` → wrapper stack, as the source has them now) on any calculator objective `env.f`,
from a clamped start that is within `(low, high)` and has the finite value `y0`, with an evaluation limit ≠ 0, any
`local`, any `limit_action`, any behaviour of the two optimisers.  Then, whatever it returns or raises:
`update_from_calculator` ran exactly once and last; at that moment the calculator stood at `xb` (the last objective
call), which is the recorded best point, `env.f xb = fb` with `y0 ≤ fb`, `low ≤ xb ≤ high`;
`MaximumEvaluationsReached` and `ValueError` do not come out; `ArithmeticError` only with a `limit_action`
other than "ignore"/"warn". -/
theorem translated_lf_optimise_never_lowers [LinearOrder Y] (env : Env X Y)
    (hgt : ∀ a b, env.gt a b = decide (b < a))
    (hneg : ∀ y, env.fin y = false → env.isneginf y = true → y = env.negInf)
    (local_ : Option Bool) (limitAction : String) (maxE : Option Nat) (rc : Option Bool)
    (g : GSt X Y) (hcalls : g.calls = [])
    (y0 : Y) (h0 : env.f (startOf env) = .val y0)
    (hlo : env.vle env.boundsLow (startOf env) = true) (hhi : env.vle (startOf env) env.boundsHigh = true)
    (hfin : env.fin y0 = true) (hbot : env.negInf < y0) (hmax : maxE ≠ some 0) :
    ∃ xb fb, (C16Opt.ParameterController.optimise env local_ limitAction maxE rc g).1.updates = some xb :: g.updates ∧
      (C16Opt.ParameterController.optimise env local_ limitAction maxE rc g).1.calls.head? = some xb ∧
      (C16Opt.ParameterController.optimise env local_ limitAction maxE rc g).1.best_x = some xb ∧
      (C16Opt.ParameterController.optimise env local_ limitAction maxE rc g).1.best_fval = .val fb ∧
      env.f xb = .val fb ∧ y0 ≤ fb ∧
      env.vle env.boundsLow xb = true ∧ env.vle xb env.boundsHigh = true ∧
      (∀ n, (C16Opt.ParameterController.optimise env local_ limitAction maxE rc g).2 ≠ .error (.maxEvals n)) ∧
      (C16Opt.ParameterController.optimise env local_ limitAction maxE rc g).2 ≠ .error .valueError ∧
      ((C16Opt.ParameterController.optimise env local_ limitAction maxE rc g).2 = .error .arith →
          limitAction ≠ "ignore" ∧ limitAction ≠ "warn") := by
  obtain ⟨w, h⟩ := lf_optimise_eq env hneg local_ limitAction maxE rc g hcalls
  have hb : (toCfg env (some (env.boundsLow, env.boundsHigh)) maxE).inB (startOf env) = true := by
    simp [toCfg, hlo, hhi]
  obtain ⟨fb, xb, n, exc, hfinal, hfxb, hle, _, hhead, _⟩ :=
    maximise_never_worse (toCfg env (some (env.boundsLow, env.boundsHigh)) maxE) hgt (startOf env) y0 h0 hb hfin hbot
      hmax (queriesFor local_ env.qsG env.qsL)
  have hin := (best_within_bounds (toCfg env (some (env.boundsLow, env.boundsHigh)) maxE) (startOf env)
    (queriesFor local_ env.qsG env.qsL)).2 fb xb n exc hfinal
  have hin' : (env.vle env.boundsLow xb && env.vle xb env.boundsHigh) = true := hin
  rw [Bool.and_eq_true] at hin'
  -- the closure cells at the end: `getBest` does not touch them
  have hcells : (Optimiser.maximise (toCfg env (some (env.boundsLow, env.boundsHigh)) maxE) (startOf env)
      (queriesFor local_ env.qsG env.qsL)).st.bestX = some xb ∧
      (Optimiser.maximise (toCfg env (some (env.boundsLow, env.boundsHigh)) maxE) (startOf env)
      (queriesFor local_ env.qsG env.qsL)).st.bestF = fb := by
    revert hfinal
    unfold Optimiser.maximise
    cases (boundedCall (toCfg env (some (env.boundsLow, env.boundsHigh)) maxE)
      (init (toCfg env (some (env.boundsLow, env.boundsHigh)) maxE)) (startOf env)).2 <;> simp only [afterFirst] <;>
      try (intro hh; cases hh)
    split
    · simp only [optimiseFrom, getBest]
      split
      · rename_i xb' hbx
        intro hh
        cases hh
        exact ⟨hbx, rfl⟩
      · intro hh; cases hh
    · intro hh; cases hh
  refine ⟨xb, fb, ?_, ?_, ?_, ?_, hfxb, hle, hin'.1, hin'.2, ?_, ?_, ?_⟩
  · rw [h]; simp [embed, lfOptimise, hhead]
  · rw [h]; simp [embed, lfOptimise, hhead]
  · rw [h]; simp [embed, lfOptimise, hcells.1]
  · rw [h]; simp [embed, lfOptimise, hcells.2]
  · intro m; rw [h]; simp only [lfOptimise, hfinal]
    rcases exc with _ | _ | _ <;> simp [Final.exc, lfEnd, lfRes]
    by_cases hi : limitAction = "ignore"
    · simp [hi, lfRes]
    · by_cases hw : limitAction = "warn"
      · simp [hw, lfRes]
      · simp [hi, hw, lfRes]
  · rw [h]; simp only [lfOptimise, hfinal]
    rcases exc with _ | _ | _ <;> simp [Final.exc, lfEnd, lfRes]
    by_cases hi : limitAction = "ignore"
    · simp [hi, lfRes]
    · by_cases hw : limitAction = "warn"
      · simp [hw, lfRes]
      · simp [hi, hw, lfRes]
  · rw [h]; simp only [lfOptimise, hfinal]
    rcases exc with _ | _ | _ <;> simp [Final.exc, lfEnd, lfRes]
    by_cases hi : limitAction = "ignore"
    · simp [hi, lfRes]
    · by_cases hw : limitAction = "warn"
      · simp [hw, lfRes]
      · simp [hi, hw]

/-- a concrete calculator for the examples: one parameter, value array 2, bounds [0, 8], objective
`10 - (x - 5)^2` raising `ArithmeticError` at 3; the global optimiser asks for 1, 9 (out of bounds), the local one for
3, 5, 6, 7 -/
def exEnv : Env Int Int :=
  { f := fun x => if x = 3 then .arith else .val (10 - (x - 5) ^ 2),
    vle := fun a b => decide (a ≤ b), gt := fun a b => decide (b < a), ge := fun a b => decide (b ≤ a), fin := fun y => decide (-100 < y),
    isneginf := fun y => decide (y = -100), negInf := -100, posInfX := 1000, negInfX := -1000,
    multi := fun _ => true, atleast1d := id, squeeze := id, qsG := [1, 9], qsL := [3, 5, 6, 7],
    valueArray := 2, boundsLow := 0, boundsHigh := 8,
    maskGt := fun a b => if b < a then 1 else 0, maskLt := fun a b => if a < b then 1 else 0,
    sel := fun x m => if m = 1 then x else 0, put := fun x m v => if m = 1 then v else x,
    allclose := fun a b => decide (a = b) }

def exG0 : GSt Int Int :=
  { evals := 7, best_fval := .nan, best_x := some 99, calls := [], shown := [], warned := 0, updates := [], optimised := false }

/-- non-vacuity, by evaluating the TRANSLATED code: global + local under a limit of 4 evaluations,
`limit_action="warn"`: objective calls 2, 1, (9 is out of bounds), 3 (raises), 5, then the limit, then `get_best`
calls 5 again; one warning; the parameter controller takes back 5; `False` is returned.  With `"raise"` the
`ArithmeticError` comes out and 5 is taken back all the same; without a limit the run ends normally at 5. -/
example :
    (C16Opt.ParameterController.optimise exEnv none "warn" (some 4) none exG0).2 = .ok false ∧
    (C16Opt.ParameterController.optimise exEnv none "warn" (some 4) none exG0).1.calls = [5, 5, 3, 1, 2] ∧
    (C16Opt.ParameterController.optimise exEnv none "warn" (some 4) none exG0).1.updates = [some 5] ∧
    (C16Opt.ParameterController.optimise exEnv none "warn" (some 4) none exG0).1.warned = 1 ∧
    (C16Opt.ParameterController.optimise exEnv none "warn" (some 4) none exG0).1.best_fval = .val 10 ∧
    (C16Opt.ParameterController.optimise exEnv none "raise" (some 4) none exG0).2 = .error .arith ∧
    (C16Opt.ParameterController.optimise exEnv none "raise" (some 4) none exG0).1.updates = [some 5] ∧
    (C16Opt.ParameterController.optimise exEnv none "raise" (some 4) none exG0).1.optimised = false ∧
    (C16Opt.ParameterController.optimise exEnv (some true) "raise" none (some true) exG0).2 = .ok true ∧
    (C16Opt.ParameterController.optimise exEnv (some true) "raise" none (some true) exG0).1.calls = [5, 7, 6, 5, 3, 2] ∧
    (C16Opt.ParameterController.optimise exEnv (some true) "raise" none (some true) exG0).1.optimised = true := by
  decide

/-- the hypotheses of `translated_lf_optimise_never_lowers` are satisfiable: instantiated on `exEnv` -/
example := translated_lf_optimise_never_lowers exEnv (fun _ _ => rfl)
  (by intro y h1 h2; simpa [exEnv] using h2) none "raise" (some 4) none exG0 rfl 1 (by decide) (by decide) (by decide)
  (by decide) (by decide) (by decide)

/-! ## optimiser-side parameter transform (`OptPar` / `LogOptPar`) -/

/-- **transform_within_bounds**.  If `transform_from_optimiser` is monotone and inverts
`transform_to_optimiser` (identity; `exp`/`log` in exact arithmetic), then every optimiser vector coordinate within
the optimiser bounds `get_optimiser_bounds() = (to(lower), to(upper))` maps back to a parameter value within the
declared `[lower, upper]`. -/
theorem transform_within_bounds {V O : Type} [Preorder V] [Preorder O] (t : Transform V O)
    (hmono : ∀ a b, a ≤ b → t.fromOpt a ≤ t.fromOpt b) (hinv : ∀ v, t.fromOpt (t.toOpt v) = v)
    (lower upper : V) (x : O) (h1 : (t.optBounds lower upper).1 ≤ x) (h2 : x ≤ (t.optBounds lower upper).2) :
    lower ≤ t.fromOpt x ∧ t.fromOpt x ≤ upper := by
  constructor
  · have := hmono _ _ h1
    rwa [Transform.optBounds, hinv] at this
  · have := hmono _ _ h2
    rwa [Transform.optBounds, hinv] at this

/-- **transform_start_roundtrip**: the start value handed to the optimiser maps back to the parameter value, and a
value within the declared bounds is within the optimiser bounds when `transform_to_optimiser` is monotone -/
theorem transform_start_in_opt_bounds {V O : Type} [Preorder V] [Preorder O] (t : Transform V O)
    (hmono : ∀ a b, a ≤ b → t.toOpt a ≤ t.toOpt b) (hinv : ∀ v, t.fromOpt (t.toOpt v) = v)
    (lower upper v : V) (h1 : lower ≤ v) (h2 : v ≤ upper) :
    (t.optBounds lower upper).1 ≤ t.toOpt v ∧ t.toOpt v ≤ (t.optBounds lower upper).2 ∧ t.fromOpt (t.toOpt v) = v :=
  ⟨hmono _ _ h1, hmono _ _ h2, hinv v⟩

/-- non-vacuity: the identity transform on `Int` (an `OptPar`), and a strictly increasing pair `v ↦ 2v`, `x ↦ x / 2`
(floor) standing in for `log`/`exp`: `fromOpt ∘ toOpt = id`, monotone, bounds `[1, 5]` ↦ `[2, 10]`, `x = 7 ↦ 3` -/
example : (⟨fun v => 2 * v, fun x => x / 2⟩ : Transform Int Int).optBounds 1 5 = (2, 10) ∧
    (1 : Int) ≤ (⟨fun v => 2 * v, fun x => x / 2⟩ : Transform Int Int).fromOpt 7 ∧
    (⟨fun v => 2 * v, fun x => x / 2⟩ : Transform Int Int).fromOpt 7 ≤ 5 := by decide

end CogentModel.C16
