import CogentModel.Proofs.GeneticCodeState
import CogentModel.Proofs.GeneticCodeExt
import CogentModel.Props.C12
/-!
# C12 — collections in a DERIVED STATE (new-style `SeqsData`: stored strings + `reversed` flags)

`Model/GeneticCodeState.lean` models what `coll.rc()` does to a new-style collection (toggle the flags) and how
`get_translation` / `trim_stop_codons` / `has_terminal_stop` read the DISPLAYED rows and build a new `SeqsData`.
The theorems are for EVERY state `sd` (arbitrary stored rows and flags), so they cover every history of `rc()` calls.
`fwd = false` is the code that does not forward `reversed_seqs` (get_translation; trim_stop_codons after
fixes/C12-new-collection-trim-stop-codons-after-rc.patch), `fwd = true` the code of the finding.  The harness probes the
real class each run and ties the model with the matching `fwd` (driver command `collstate`).
-/
namespace CogentModel.C12State
open CogentModel.GC CogentModel.GCS CogentModel.C12Tables CogentModel.C12

/-- `SequenceCollection.rc()` (new style: only the `reversed` flags of `SeqsData` are toggled) displays the reverse
complement of every DISPLAYED row, in ANY state (any history of `rc`, any flags), and `rc().rc()` displays the
original — for every involutive `rcf` (instantiated below with the moltype reverse complement). -/
theorem collection_rc_displayed (rcf : List Char → List Char) (hinv : ∀ s, rcf (rcf s) = s) (sd : SD) :
    sd.reverseSeqs.rows rcf = (sd.rows rcf).map rcf ∧
    sd.reverseSeqs.reverseSeqs.display rcf = sd.display rcf := by
  constructor
  · simp only [SD.rows, display_reverseSeqs rcf hinv, List.map_map]; rfl
  · rw [display_reverseSeqs rcf hinv, display_reverseSeqs rcf hinv, List.map_map]
    conv => rhs; rw [← List.map_id (sd.display rcf)]
    apply List.map_congr_left
    intro p _
    simp [hinv]

example : ((SD.fresh [(['a'], ['A', 'C'])]).reverseSeqs.rows List.reverse) = [['C', 'A']] := by decide

/-- new `SequenceCollection.get_translation` on a collection in ANY derived state (any `reversed` flags, hence any
history of `rc()`): the rows the result DISPLAYS are the row-wise translation of the rows the collection DISPLAYS at
the time of the call (the result is built without `reversed_seqs`; `rcf'` — how the protein collection would display
a flagged row — is irrelevant). -/
theorem derived_translation_displayed_rows (rcf rcf' : List Char → List Char) (mt : MT) (seq : List Char) (sd : SD)
    (io is_ ts : Bool) :
    (SD.getTranslation false rcf mt seq sd io is_ ts).map (SD.rows rcf') =
      newCollGetTranslation mt seq (sd.rows rcf) io is_ ts := by
  unfold SD.getTranslation
  cases h : newCollGetTranslation mt seq (sd.rows rcf) io is_ ts with
  | error e => rfl
  | ok rows =>
    have hl := mapM_length _ _ _ h
    simp only [Except.map]
    rw [rows_rebuilt_false rcf' sd rows (by rw [hl, rows_length])]

example : (SD.fresh [(['a'], ['A'])]).reverseSeqs.isRev ['a'] = true := by decide

/-- new `SequenceCollection.trim_stop_codons` WITHOUT `reversed_seqs=self.seqs.reversed` (the repaired code): in any
derived state the displayed rows of the result are the trimmed displayed rows. -/
theorem derived_trim_displayed_rows (rcf : List Char → List Char) (getItem : List Char → Char) (sd : SD) (strict : Bool) :
    (SD.trimStopCodons false rcf getItem sd strict).map (SD.rows rcf) = collTrimStopCodons getItem (sd.rows rcf) strict := by
  unfold SD.trimStopCodons collTrimStopCodons
  cases h : collHasTerminalStop getItem (sd.rows rcf) strict with
  | error e => rfl
  | ok b =>
    cases b with
    | false => rfl
    | true =>
      simp only []
      cases h2 : (sd.rows rcf).mapM (fun r => trimStopCodon getItem r strict) with
      | error e => rfl
      | ok rows =>
        have hl := mapM_length _ _ _ h2
        simp only [Except.map]
        rw [rows_rebuilt_false rcf sd rows (by rw [hl, rows_length])]

example : (SD.fresh [(['a'], ['A'])]).reverseSeqs.reverseSeqs.isRev ['a'] = false := by decide

/-- … and WITH `reversed_seqs=self.seqs.reversed` (the code of the finding
C12-new-collection-trim-stop-codons-after-rc): after one `rc()` of a fresh collection, whenever some displayed row has a
terminal stop, the result displays every trimmed row reverse complemented ONCE MORE. -/
theorem derived_trim_forwarding_actual (rcf : List Char → List Char) (getItem : List Char → Char)
    (data : List (List Char × List Char)) (strict : Bool) :
    let sd := (SD.fresh data).reverseSeqs
    collHasTerminalStop getItem (sd.rows rcf) strict = .ok true →
    (SD.trimStopCodons true rcf getItem sd strict).map (SD.rows rcf) =
      (collTrimStopCodons getItem (sd.rows rcf) strict).map (List.map rcf) := by
  intro sd h
  unfold SD.trimStopCodons collTrimStopCodons
  simp only [h]
  cases h2 : (sd.rows rcf).mapM (fun r => trimStopCodon getItem r strict) with
  | error e => rfl
  | ok rows =>
    have hl := mapM_length _ _ _ h2
    simp only [Except.map]
    rw [rows_rebuilt_true_allrev rcf sd (allrev_reverse_fresh data) rows (by rw [hl, rows_length])]


example : (SD.fresh [(['a'], ['A', 'T'])]).reverseSeqs.rebuilt true [['A']] = ⟨[(['a'], ['A'])], [(['a'], true)]⟩ := by decide

/-- the moltype reverse complement (new DNA / RNA tables) is an involution on EVERY string -/
theorem newRc_invol_all : (∀ s, newRc newDna (newRc newDna s) = s) ∧ (∀ s, newRc newRna (newRc newRna s) = s) := by
  obtain ⟨_, _, k3, k4⟩ := compl_keys_invol
  have c3 := new_compl_invol_all newDna k3
  have c4 := new_compl_invol_all newRna k4
  constructor <;> intro s <;>
    simp only [newRc, newComplement, List.map_reverse, List.reverse_reverse, List.map_map]
  · conv => rhs; rw [← List.map_id s]
    exact List.map_congr_left fun c _ => c3 c
  · conv => rhs; rw [← List.map_id s]
    exact List.map_congr_left fun c _ => c4 c

example : newRc newDna ['A', 'C', 'x', 'N', '-'] = ['-', 'N', 'x', 'G', 'T'] := by decide +kernel

/-- Composition with the row-wise theorems of `Props/C12.lean`: for every NCBI code and a new-style DNA collection in ANY
derived state whose displayed rows are canonical and non-empty, `get_translation` displays the sequence-level
SPECIFICATION mapped over the displayed rows (all 8 option combinations); if they are whole codons, the repaired
`trim_stop_codons` displays the specification's trimmed rows; and `rc()` first reverse-complements what is displayed. -/
theorem derived_collection_spec (code : Nat × List Char × List Char) (hc : code ∈ newCodes) (sd : SD) :
    ((∀ r ∈ sd.rows (newRc newDna), Canon r ∧ r ≠ []) → ∀ io is_ ts rcf',
      (SD.getTranslation false (newRc newDna) newDna code.2.1 sd io is_ ts).map (SD.rows rcf') =
        specCollTranslation code.2.1 (sd.rows (newRc newDna)) io is_ ts) ∧
    (CodonRows (sd.rows (newRc newDna)) → ∀ strict,
      (SD.trimStopCodons false (newRc newDna) (newGetItem newDna code.2.1) sd strict).map (SD.rows (newRc newDna)) =
        .ok ((sd.rows (newRc newDna)).map (specTrimRow code.2.1))) ∧
    sd.reverseSeqs.rows (newRc newDna) = (sd.rows (newRc newDna)).map (newRc newDna) := by
  refine ⟨fun h io is_ ts rcf' => ?_, fun h strict => ?_, (collection_rc_displayed _ newRc_invol_all.1 sd).1⟩
  · rw [derived_translation_displayed_rows, collection_translation_rowwise code hc _ h]
  · rw [derived_trim_displayed_rows]
    exact ((collection_trim_rowwise _ h strict).2 code hc).2

example : CodonRows ((SD.fresh [(['s'], ['T', 'T', 'A', 'C', 'A', 'T'])]).reverseSeqs.rows (newRc newDna)) := by decide +kernel

/-- The witness of the finding, kernel-checked on the model with `fwd = true`: `{'s0': 'TCAGCAAAA', 's1': 'AAAAACTAT'}`,
`rc()` displays `TTTTGCTGA / ATAGTTTTT`; `trim_stop_codons` (standard code) then displays `GCAAAA / AAAAACTAT` where the
model with `fwd = false` displays `TTTTGC / ATAGTTTTT`. -/
theorem derived_trim_forwarding_counter : ∀ code ∈ newCodes, code.1 = 1 →
    let sd := (SD.fresh [(['s', '0'], ['T', 'C', 'A', 'G', 'C', 'A', 'A', 'A', 'A']),
                         (['s', '1'], ['A', 'A', 'A', 'A', 'A', 'C', 'T', 'A', 'T'])]).reverseSeqs
    sd.rows (newRc newDna) = [['T', 'T', 'T', 'T', 'G', 'C', 'T', 'G', 'A'], ['A', 'T', 'A', 'G', 'T', 'T', 'T', 'T', 'T']] ∧
    (SD.trimStopCodons true (newRc newDna) (newGetItem newDna code.2.1) sd false).map (SD.rows (newRc newDna)) =
      .ok [['G', 'C', 'A', 'A', 'A', 'A'], ['A', 'A', 'A', 'A', 'A', 'C', 'T', 'A', 'T']] ∧
    (SD.trimStopCodons false (newRc newDna) (newGetItem newDna code.2.1) sd false).map (SD.rows (newRc newDna)) =
      .ok [['T', 'T', 'T', 'T', 'G', 'C'], ['A', 'T', 'A', 'G', 'T', 'T', 'T', 'T', 'T']] := by
  decide +kernel

example : ∃ code ∈ newCodes, code.1 = 1 := by decide

/-- EVERY history of `rc()` calls: after `n` calls the collection displays every row of the original display with the
reverse complement applied `n` times — so an even number of calls displays the original rows and an odd number their
reverse complements, whatever the state it started from. -/
theorem collection_rc_history (rcf : List Char → List Char) (hinv : ∀ s, rcf (rcf s) = s) :
    ∀ (n : Nat) (sd : SD), (sd.rcTimes n).rows rcf = (sd.rows rcf).map (if n % 2 = 0 then id else rcf) := by
  intro n
  induction n with
  | zero => intro sd; simp [SD.rcTimes]
  | succ n ih =>
    intro sd
    rw [SD.rcTimes, ih, (collection_rc_displayed rcf hinv sd).1, List.map_map]
    apply List.map_congr_left
    intro r _
    by_cases h : n % 2 = 0
    · have h' : ¬ ((n + 1) % 2 = 0) := by omega
      simp [h, h']
    · have h' : (n + 1) % 2 = 0 := by omega
      simp [h, h', hinv]

example : ((SD.fresh [(['a'], ['A', 'C'])]).rcTimes 3).rows (newRc newDna) = [['G', 'T']] := by decide +kernel

end CogentModel.C12State
