import CogentModel.Model.Optimiser
import CogentModel.Proofs.Optimiser
/-! # C16 — nested-model initialisation and optimisation never lose likelihood

Property theorems about the model `Model/Optimiser.lean` of
`cogent3.maths.optimisers.maximise` (wrapper stack `bounds_exception_catching(bounded(limited_use(f)))`,
first evaluation, `finally: get_best()`).  The optimisers (Powell, simulated annealing) are an
arbitrary adversary: every theorem quantifies over EVERY finite list `qs` of query points, every
objective `f : X → Res Y` (which may raise or return NaN anywhere), every bounds predicate and
every evaluation limit. -/
namespace CogentModel.C16
open CogentModel.Optimiser

variable {X Y : Type}

/-- **Optimisation never returns worse than it started, and leaves the calculator at the
reported optimum.**  For every objective, every start `x0` that is in bounds with a finite value
`y0`, every evaluation limit ≥ 1 and every optimiser behaviour `qs`: `get_best` runs and reports
`(fb, xb, n)` with `f xb = fb`, `fb ≥ y0`, `fb` is the maximum over ALL points at which the
objective was ever evaluated, and the point applied last to the objective is `xb`. -/
theorem maximise_never_worse [LinearOrder Y] (c : Cfg X Y)
    (hg : ∀ a b, c.gt a b = decide (b < a))
    (x0 : X) (y0 : Y) (h0 : c.f x0 = .val y0) (hb : c.inB x0 = true) (hfin : c.fin y0 = true)
    (hbot : c.negInf < y0) (hmax : c.maxEvals ≠ some 0) (qs : List X) :
    ∃ fb xb n exc, (maximise c x0 qs).final = .done fb xb n exc ∧
      c.f xb = .val fb ∧ y0 ≤ fb ∧
      (∀ x ∈ (maximise c x0 qs).st.calls, ∀ y, c.f x = .val y → y ≤ fb) ∧
      (maximise c x0 qs).st.calls.head? = some xb ∧
      x0 ∈ (maximise c x0 qs).st.calls := by
  obtain ⟨e1, e2, e3, e4⟩ := inv_first hg h0 hb hbot hmax
  obtain ⟨k1, k2, k3⟩ := inv_runQueries hg qs _ e2
  obtain ⟨⟨xb, b1, b2, b3⟩, _, km, _, _⟩ := k1
  unfold maximise
  rw [e1]
  simp only [afterFirst, hfin, if_true, optimiseFrom, getBest, b1]
  refine ⟨_, xb, _, _, rfl, b2, ?_, ?_, by simp, ?_⟩
  · rw [← e3]; exact k2
  · intro x hx y hy
    rcases List.mem_cons.mp hx with rfl | hx
    · rw [b2] at hy; cases hy; exact le_refl _
    · exact km x hx y hy
  · exact List.mem_cons_of_mem _ (k3 x0 e4)

/-- non-vacuity: objective on ℕ points with values in ℤ (−100 plays −inf), the optimiser walks
through a worse point, an out-of-bounds point, a raising point and the maximum, and is cut off -/
def exA : Cfg Nat Int :=
  { f := fun x => if x = 3 then .arith else .val (10 - ((x : Int) - 5) ^ 2),
    inB := fun x => decide (x ≤ 8), gt := fun a b => decide (b < a),
    fin := fun y => decide (-100 < y), negInf := -100, maxEvals := some 4 }
example :
    (maximise exA 2 [1, 9, 3, 5, 6, 7]).final = .done 10 5 4 (some (.maxEvals 4)) ∧
    (maximise exA 2 [1, 9, 3, 5, 6, 7]).st.calls = [5, 5, 3, 1, 2] := by decide

/-- **Only in-bounds points ever reach the objective; the applied point is in bounds.**
Unconditional: any objective, any comparison, any start (valid or not), any optimiser. -/
theorem best_within_bounds (c : Cfg X Y) (x0 : X) (qs : List X) :
    (∀ x ∈ (maximise c x0 qs).st.calls, c.inB x = true) ∧
    (∀ fb xb n exc, (maximise c x0 qs).final = .done fb xb n exc → c.inB xb = true) := by
  have h1 := inv0_boundedCall (inv0_init c) x0
  have h2 := inv0_runQueries qs _ h1
  unfold maximise
  cases ho : (boundedCall c (init c) x0).2 with
  | val y =>
    simp only [afterFirst]
    by_cases hf : c.fin y = true
    · rw [if_pos hf]
      simp only [optimiseFrom, getBest]
      cases hbx : (runQueries c (boundedCall c (init c) x0).1 qs).st.bestX with
      | none => exact ⟨h2.inb, by intro _ _ _ _ h; cases h⟩
      | some xb =>
        have hin : c.inB xb = true := h2.inb xb (h2.bestMem xb hbx)
        refine ⟨?_, ?_⟩
        · intro x hx
          rcases List.mem_cons.mp hx with rfl | hx
          · exact hin
          · exact h2.inb x hx
        · intro _ _ _ _ h
          cases h
          exact hin
    · rw [if_neg hf]
      exact ⟨h1.inb, by intro _ _ _ _ h; cases h⟩
  | maxReached n => exact ⟨h1.inb, by intro _ _ _ _ h; cases h⟩
  | oob => exact ⟨h1.inb, by intro _ _ _ _ h; cases h⟩
  | arith => exact ⟨h1.inb, by intro _ _ _ _ h; cases h⟩
  | fatal => exact ⟨h1.inb, by intro _ _ _ _ h; cases h⟩
  | nan => exact ⟨h1.inb, by intro _ _ _ _ h; cases h⟩

def exB : Cfg Nat Int :=
  { f := fun x => .val x, inB := fun x => decide (2 ≤ x ∧ x ≤ 8),
    gt := fun a b => decide (b < a), fin := fun _ => true, negInf := -1, maxEvals := none }
example :
    (maximise exB 2 [9, 100, 8, 0]).final = .done 8 8 2 none := by decide

/-- **The evaluation limit is respected.**  The objective is called at most `max_evaluations`
times through the wrapper plus exactly once more by `get_best`. Unconditional. -/
theorem evals_bounded (c : Cfg X Y) (x0 : X) (qs : List X) (fb : Y) (xb : X) (n : Nat)
    (exc : Option Stop) (h : (maximise c x0 qs).final = .done fb xb n exc) :
    (maximise c x0 qs).st.calls.length = n + 1 ∧ (∀ k, c.maxEvals = some k → n ≤ k) := by
  have h1 := inv0_boundedCall (inv0_init c) x0
  have h2 := inv0_runQueries qs _ h1
  revert h
  unfold maximise
  cases ho : (boundedCall c (init c) x0).2 with
  | val y =>
    simp only [afterFirst]
    by_cases hf : c.fin y = true
    · rw [if_pos hf]
      simp only [optimiseFrom, getBest]
      cases hbx : (runQueries c (boundedCall c (init c) x0).1 qs).st.bestX with
      | none => intro h; cases h
      | some xb' =>
        intro h
        cases h
        exact ⟨by simp [h2.cnt], h2.lim⟩
    · rw [if_neg hf]; intro h; cases h
  | maxReached n => intro h; cases h
  | oob => intro h; cases h
  | arith => intro h; cases h
  | fatal => intro h; cases h
  | nan => intro h; cases h

def exC : Cfg Nat Int :=
  { f := fun x => .val x, inB := fun _ => true,
    gt := fun a b => decide (b < a), fin := fun _ => true, negInf := -1, maxEvals := some 3 }
example :
    (maximise exC 2 [4, 6, 8, 10]).final = .done 6 6 3 (some (.maxEvals 3)) ∧
    (maximise exC 2 [4, 6, 8, 10]).st.calls.length = 4 := by decide

end CogentModel.C16
