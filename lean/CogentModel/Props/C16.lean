import CogentModel.Model.Optimiser
import CogentModel.Proofs.Optimiser
import CogentModel.Proofs.OptimiserProj
import CogentModel.Proofs.OptimiserScoped
import CogentModel.Proofs.OptimiserScopedProj
import Mathlib.Algebra.Order.Group.Defs
import Mathlib.Algebra.Order.Group.Int
/-! # C16 — nested-model initialisation and optimisation never lose likelihood

Property theorems about the model `Model/Optimiser.lean` of
`cogent3.maths.optimisers.maximise` (wrapper stack `bounds_exception_catching(bounded(limited_use(f)))`,
first evaluation, `finally: get_best()`).  The optimisers (Powell, simulated annealing) are an
arbitrary adversary: every theorem quantifies over EVERY finite list `qs` of query points, every
objective `f : X → Res Y` (which may raise or return NaN anywhere), every bounds predicate and
every evaluation limit. -/
namespace CogentModel.C16
open CogentModel.Optimiser

variable {X Y : Type}

/-- **Optimisation never returns worse than it started, and leaves the calculator at the
reported optimum.**  For every objective, every start `x0` that is in bounds with a finite value
`y0`, every evaluation limit ≥ 1 and every optimiser behaviour `qs`: `get_best` runs and reports
`(fb, xb, n)` with `f xb = fb`, `fb ≥ y0`, `fb` is the maximum over ALL points at which the
objective was ever evaluated, and the point applied last to the objective is `xb`. -/
theorem maximise_never_worse [LinearOrder Y] (c : Cfg X Y)
    (hg : ∀ a b, c.gt a b = decide (b < a))
    (x0 : X) (y0 : Y) (h0 : c.f x0 = .val y0) (hb : c.inB x0 = true) (hfin : c.fin y0 = true)
    (hbot : c.negInf < y0) (hmax : c.maxEvals ≠ some 0) (qs : List X) :
    ∃ fb xb n exc, (maximise c x0 qs).final = .done fb xb n exc ∧
      c.f xb = .val fb ∧ y0 ≤ fb ∧
      (∀ x ∈ (maximise c x0 qs).st.calls, ∀ y, c.f x = .val y → y ≤ fb) ∧
      (maximise c x0 qs).st.calls.head? = some xb ∧
      x0 ∈ (maximise c x0 qs).st.calls := by
  obtain ⟨e1, e2, e3, e4⟩ := inv_first hg h0 hb hbot hmax
  obtain ⟨k1, k2, k3⟩ := inv_runQueries hg qs _ e2
  obtain ⟨⟨xb, b1, b2, b3⟩, _, km, _, _⟩ := k1
  unfold maximise
  rw [e1]
  simp only [afterFirst, hfin, if_true, optimiseFrom, getBest, b1]
  refine ⟨_, xb, _, _, rfl, b2, ?_, ?_, by simp, ?_⟩
  · rw [← e3]; exact k2
  · intro x hx y hy
    rcases List.mem_cons.mp hx with rfl | hx
    · rw [b2] at hy; cases hy; exact le_refl _
    · exact km x hx y hy
  · exact List.mem_cons_of_mem _ (k3 x0 e4)

/-- non-vacuity: objective on ℕ points with values in ℤ (−100 plays −inf), the optimiser walks
through a worse point, an out-of-bounds point, a raising point and the maximum, and is cut off -/
def exA : Cfg Nat Int :=
  { f := fun x => if x = 3 then .arith else .val (10 - ((x : Int) - 5) ^ 2),
    inB := fun x => decide (x ≤ 8), gt := fun a b => decide (b < a),
    fin := fun y => decide (-100 < y), negInf := -100, maxEvals := some 4 }
example :
    (maximise exA 2 [1, 9, 3, 5, 6, 7]).final = .done 10 5 4 (some (.maxEvals 4)) ∧
    (maximise exA 2 [1, 9, 3, 5, 6, 7]).st.calls = [5, 5, 3, 1, 2] := by decide

/-- (audit) the hypotheses themselves are satisfied by `exA` (start 2 with value 1): the theorem
instantiated, not only its conclusion recomputed -/
example := maximise_never_worse exA (fun _ _ => rfl) 2 1 (by decide) (by decide) (by decide)
  (by decide) (by decide) [1, 9, 3, 5, 6, 7]

/-- **Only in-bounds points ever reach the objective; the applied point is in bounds.**
Unconditional: any objective, any comparison, any start (valid or not), any optimiser. -/
theorem best_within_bounds (c : Cfg X Y) (x0 : X) (qs : List X) :
    (∀ x ∈ (maximise c x0 qs).st.calls, c.inB x = true) ∧
    (∀ fb xb n exc, (maximise c x0 qs).final = .done fb xb n exc → c.inB xb = true) := by
  have h1 := inv0_boundedCall (inv0_init c) x0
  have h2 := inv0_runQueries qs _ h1
  unfold maximise
  cases ho : (boundedCall c (init c) x0).2 with
  | val y =>
    simp only [afterFirst]
    by_cases hf : c.fin y = true
    · rw [if_pos hf]
      simp only [optimiseFrom, getBest]
      cases hbx : (runQueries c (boundedCall c (init c) x0).1 qs).st.bestX with
      | none => exact ⟨h2.inb, by intro _ _ _ _ h; cases h⟩
      | some xb =>
        have hin : c.inB xb = true := h2.inb xb (h2.bestMem xb hbx)
        refine ⟨?_, ?_⟩
        · intro x hx
          rcases List.mem_cons.mp hx with rfl | hx
          · exact hin
          · exact h2.inb x hx
        · intro _ _ _ _ h
          cases h
          exact hin
    · rw [if_neg hf]
      exact ⟨h1.inb, by intro _ _ _ _ h; cases h⟩
  | maxReached n => exact ⟨h1.inb, by intro _ _ _ _ h; cases h⟩
  | oob => exact ⟨h1.inb, by intro _ _ _ _ h; cases h⟩
  | arith => exact ⟨h1.inb, by intro _ _ _ _ h; cases h⟩
  | fatal => exact ⟨h1.inb, by intro _ _ _ _ h; cases h⟩
  | nan => exact ⟨h1.inb, by intro _ _ _ _ h; cases h⟩

def exB : Cfg Nat Int :=
  { f := fun x => .val x, inB := fun x => decide (2 ≤ x ∧ x ≤ 8),
    gt := fun a b => decide (b < a), fin := fun _ => true, negInf := -1, maxEvals := none }
example :
    (maximise exB 2 [9, 100, 8, 0]).final = .done 8 8 2 none := by decide

/-- **The evaluation limit is respected.**  The objective is called at most `max_evaluations`
times through the wrapper plus exactly once more by `get_best`. Unconditional. -/
theorem evals_bounded (c : Cfg X Y) (x0 : X) (qs : List X) (fb : Y) (xb : X) (n : Nat)
    (exc : Option Stop) (h : (maximise c x0 qs).final = .done fb xb n exc) :
    (maximise c x0 qs).st.calls.length = n + 1 ∧ (∀ k, c.maxEvals = some k → n ≤ k) := by
  have h1 := inv0_boundedCall (inv0_init c) x0
  have h2 := inv0_runQueries qs _ h1
  revert h
  unfold maximise
  cases ho : (boundedCall c (init c) x0).2 with
  | val y =>
    simp only [afterFirst]
    by_cases hf : c.fin y = true
    · rw [if_pos hf]
      simp only [optimiseFrom, getBest]
      cases hbx : (runQueries c (boundedCall c (init c) x0).1 qs).st.bestX with
      | none => intro h; cases h
      | some xb' =>
        intro h
        cases h
        exact ⟨by simp [h2.cnt], h2.lim⟩
    · rw [if_neg hf]; intro h; cases h
  | maxReached n => intro h; cases h
  | oob => intro h; cases h
  | arith => intro h; cases h
  | fatal => intro h; cases h
  | nan => intro h; cases h

def exC : Cfg Nat Int :=
  { f := fun x => .val x, inB := fun _ => true,
    gt := fun a b => decide (b < a), fin := fun _ => true, negInf := -1, maxEvals := some 3 }
example :
    (maximise exC 2 [4, 6, 8, 10]).final = .done 6 6 3 (some (.maxEvals 3)) ∧
    (maximise exC 2 [4, 6, 8, 10]).st.calls.length = 4 := by decide

/-- **Likelihood-ratio statistics of nested hypotheses are never negative.**  If the alternative
starts at a point whose value is the null's optimum `lnLnull` (that is what
`initialise_from_nested` provides, see `projection_exact`), then whatever the optimiser does and
whatever the evaluation limit, the alternative's reported value `fb` satisfies
`LR = 2·(fb − lnLnull) ≥ 0`. -/
theorem lr_nonneg [LinearOrder Y] [AddCommGroup Y] [IsOrderedAddMonoid Y] (cA : Cfg X Y)
    (hg : ∀ a b, cA.gt a b = decide (b < a))
    (x0 : X) (lnLnull : Y) (h0 : cA.f x0 = .val lnLnull) (hb : cA.inB x0 = true)
    (hfin : cA.fin lnLnull = true) (hbot : cA.negInf < lnLnull) (hmax : cA.maxEvals ≠ some 0)
    (qs : List X) :
    ∃ fb xb n exc, (maximise cA x0 qs).final = .done fb xb n exc ∧ cA.f xb = .val fb ∧
      0 ≤ (fb - lnLnull) + (fb - lnLnull) := by
  obtain ⟨fb, xb, n, exc, h1, h2, h3, _⟩ := maximise_never_worse cA hg x0 lnLnull h0 hb hfin hbot hmax qs
  exact ⟨fb, xb, n, exc, h1, h2, add_nonneg (sub_nonneg.mpr h3) (sub_nonneg.mpr h3)⟩

example : (maximise exA 2 []).final = .done 1 2 1 none ∧ (0 : Int) ≤ (1 - 1) + (1 - 1) := by decide

/-- (audit) `lr_nonneg` instantiated on a run in which the optimiser DOES move (start value 1,
reported value 10, LR = 18) -/
example := lr_nonneg exA (fun _ _ => rfl) 2 1 (by decide) (by decide) (by decide) (by decide)
  (by decide) [1, 9, 3, 5, 6, 7]

/-! ## `Calculator.optimise`: start values are clamped into the bounds -/

/-- If both `numpy.allclose` tests of `Calculator.optimise` succeed (every coordinate below its
lower / above its upper bound is close to it) and `lower ≤ upper`, the vector handed to
`maximise` satisfies `bounded_function`'s test, so the first evaluation cannot raise
"Initial parameter values must be valid"; a vector already within bounds is not changed. -/
theorem start_clamp_in_bounds {R : Type} [LinearOrder R] (close : R → R → Bool) (v : List (Coord R))
    (hlohi : ∀ c ∈ v, c.lo ≤ c.hi)
    (hL : v.all (fun c => !(decide (c.x < c.lo)) || close c.x c.lo) = true)
    (hH : (clampLow (fun a b => decide (a < b)) close v).all
            (fun c => !(decide (c.hi < c.x)) || close c.x c.hi) = true) :
    inBounds (fun a b => decide (a < b)) (clampStart (fun a b => decide (a < b)) close v) = true ∧
    (inBounds (fun a b => decide (a < b)) v = true → clampStart (fun a b => decide (a < b)) close v = v) :=
  ⟨clampStart_inBounds close v hlohi hL hH, clampStart_id close v⟩

example : (clampStart (fun a b : Int => decide (a < b)) (fun a b => decide (a - b ≤ 1 ∧ b - a ≤ 1))
    [⟨-1, 0, 10⟩, ⟨11, 0, 10⟩, ⟨5, 0, 10⟩]).map (·.x) = [0, 10, 5] := by decide

/-- (audit) both `allclose` hypotheses and `lo ≤ hi` hold for that vector: theorem instantiated -/
example := start_clamp_in_bounds (fun a b : Int => decide (a - b ≤ 1 ∧ b - a ≤ 1))
  [⟨-1, 0, 10⟩, ⟨11, 0, 10⟩, ⟨5, 0, 10⟩] (by decide) (by decide) (by decide)

/-- (audit) the hypotheses are NOT automatic: one coordinate further away than `allclose` accepts
and the low side is not clamped at all, the vector handed to `maximise` is out of bounds (the
first evaluation then raises "Initial parameter values must be valid") -/
example : inBounds (fun a b : Int => decide (a < b))
    (clampStart (fun a b : Int => decide (a < b)) (fun a b => decide (a - b ≤ 1 ∧ b - a ≤ 1))
      [⟨-1, 0, 10⟩, ⟨-5, 0, 10⟩]) = false := by decide

/-! ## nested parameter projection -/

/-- **The projection between nested models is exact (same stationarity class).**  If the two
coordinate families satisfy the decidable predicate `nestedSame` (evaluated by the driver on the
real coordinate dictionaries of the named models), then for EVERY list of nested-model rules with
values in ANY monoid (every parameter value, every edge scope: rules are projected one by one and
keep their scope), the rule list produced by `_ParamProjection.update_param_rules` describes, at
every cell of the rate matrix, the same exchangeability as the nested model's own rules. -/
theorem projection_exact {N V : Type} [DecidableEq N] [Monoid V] (ref : N) (pass : N → Bool)
    (rich simple : Coords N) (hnest : nestedSame ref rich simple = true) (rules : List (N × V))
    (hnames : ∀ r ∈ rules, pass r.1 = false → r.1 ≠ ref ∧ ∃ cs, (r.1, cs) ∈ simple)
    (hpass : ∀ n, pass n = true → coordsOf rich n = [] ∧ coordsOf simple n = []) :
    ∃ ch, chosenAll rich simple = .ok ch ∧ ∀ cell ∈ cellsOf rich ++ cellsOf simple,
      cellRate (· * ·) 1 rich (projectSame ref pass rich ch rules) cell
        = cellRate (· * ·) 1 simple rules cell := by
  obtain ⟨ch, hch, hc⟩ := nestedSame_spec hnest
  refine ⟨ch, hch, ?_⟩
  intro cell hcell
  apply rate_projectSame ref pass rich simple ch cell rules
  · intro r hr hp
    obtain ⟨hne, cs, hmem⟩ := hnames r hr hp
    exact hc (r.1, cs) hmem hne cell hcell
  · intro r _ hp
    obtain ⟨h1, h2⟩ := hpass r.1 hp
    rw [h1, h2]
    exact ⟨rfl, rfl⟩

/-- **Not-same projection (stationary null → non-stationary alternative), partial.**  Every rule
emitted by `update_param_rules(same=False)` for a rich parameter `p` that takes its value from the
nested rule `(sp, v)` (or from the appended `("ref_cell", 1.0)`) satisfies
`value · π_ref = π_j · v`, where `j` is the column of `p`'s (last) cell: the rich rate is the
nested model's `Q` entry `π_j · v` up to the ONE global factor `1/π_ref`, which calibration removes.
`mprobs`/`length` rules pass through unchanged. -/
theorem projection_not_same_partial {N V : Type} [DecidableEq N] [Field V] (pi : Nat → V) (ref : N)
    (pass : N → Bool) (rich : Coords N) (ch : List (N × Option N)) (rules out : List (N × V))
    (h : projectNotSame (· * ·) (· / ·) 1 pi ref pass rich ch rules = .ok out) :
    ∃ rc, (coordsOf rich ref).head? = some rc ∧
      ∀ p ∈ out, (pass p.1 = true ∧ p ∈ rules ++ [(ref, 1)]) ∨
        ∃ r ∈ rules ++ [(ref, (1 : V))], pass r.1 = false ∧ p.1 ∈ targets ref rich ch r.1 ∧
          (pi rc.2 ≠ 0 → p.2 * pi rc.2 = pi ((lastCol (coordsOf rich p.1)).getD 0) * r.2) :=
  projectNotSame_spec pi ref pass rich ch rules out h

/- FULL STATEMENT (not proved): `projection_exact` for the not-same case — under a decidable
predicate `nestedNotSame rich simple π` (each rich parameter's cells share one column `j`, or `π`
is constant on them; every off-diagonal cell is covered by exactly one projected rule), for every
cell `(i,j)`: `cellRate rich projected (i,j) · π_ref = π_j · cellRate simple rules (i,j)`.
Why not: with k ≥ 2 rules covering a cell the factor is `(π_j/π_ref)^k`, so the statement needs the
"exactly one rule per cell" bookkeeping on top of `projection_not_same_partial`; the per-rule
identity above is the code-specific part.  The whole pipeline (equal exchangeabilities ⇒ equal Q
⇒ equal lnL) is exercised on real data for every stationary → GN / ssGN pair by `spec_check`. -/

example : projectNotSame (· * ·) (· / ·) (1 : Rat) (fun j => [1/10, 2/10, 3/10, 4/10].getD j 0)
    "ref_cell" (fun n => n == "length")
    [("A>C", [(2, 1)]), ("ref_cell", [(0, 3)])] [("A>C", some "k"), ("ref_cell", some "ref_cell")]
    [("k", 3)] = .ok [("A>C", 3/2)] := by decide +kernel

/-- HKY85 ⊂ GTR with the real coordinate sets (alphabet order T, C, A, G) -/
def exHKY : Coords String :=
  [("kappa", [(0, 1), (1, 0), (2, 3), (3, 2)]),
   ("ref_cell", [(0, 2), (0, 3), (1, 2), (1, 3), (2, 0), (2, 1), (3, 0), (3, 1)])]
def exGTR : Coords String :=
  [("A/C", [(1, 2), (2, 1)]), ("A/G", [(2, 3), (3, 2)]), ("A/T", [(0, 2), (2, 0)]),
   ("C/G", [(1, 3), (3, 1)]), ("C/T", [(0, 1), (1, 0)]), ("ref_cell", [(0, 3), (3, 0)])]
example : nestedSame "ref_cell" exGTR exHKY = true := by decide
example : paramMapping exGTR exHKY
    = .ok [("kappa", ["A/G", "C/T"]), ("ref_cell", ["A/C", "A/T", "C/G", "ref_cell"])] := by decide
/-- a non-nested pair is rejected: GTR is not nested in HKY85 -/
example : paramMapping exHKY exGTR = .error .assertion := by decide

/-- (audit) `mprobs` / `length` pass through -/
def passLM : String → Bool := fun n => n == "length" || n == "mprobs"

/-- (audit) what the projection emits for HKY85 rules into GTR (two `kappa` rules = two edge scopes) -/
example : (chosenAll exGTR exHKY).map (fun ch =>
      projectSame "ref_cell" passLM exGTR ch [("kappa", (3 : Int)), ("length", 7), ("kappa", 5)])
    = .ok [("A/G", 3), ("C/T", 3), ("length", 7), ("A/G", 5), ("C/T", 5)] := by decide

/-- (audit) `projection_exact` instantiated: ALL its hypotheses (`nestedSame`, rule names, pass
names) are satisfied by the real HKY85 ⊂ GTR coordinate families and a non-trivial rule list -/
example := projection_exact (V := Int) "ref_cell" passLM exGTR exHKY (by decide)
  [("kappa", 3), ("length", 7), ("kappa", 5)]
  (by
    intro r hr hp
    simp only [List.mem_cons, List.mem_nil_iff, or_false] at hr
    rcases hr with rfl | rfl | rfl
    · exact ⟨by decide, _, List.mem_cons_self⟩
    · exact absurd hp (by decide)
    · exact ⟨by decide, _, List.mem_cons_self⟩)
  (by
    intro n hn
    have : n = "length" ∨ n = "mprobs" := by simpa [passLM] using hn
    rcases this with rfl | rfl <;> exact ⟨by decide, by decide⟩)

/-- **(audit) The projection works rule by rule.**  `update_param_rules` maps each nested rule
separately (`rule_dict = rule.copy()` keeps its scope), so the projected image of a concatenation is
the concatenation of the images.  This is what licenses reading `projection_exact` per edge: the
rules of the result whose scope contains an edge are the image of the nested rules whose scope
contains it (`projection_exact_sublist`).  NOTE the model's rules are `(name, value)` pairs: scopes
are not represented, `cellRate` multiplies over ALL rules of the list. -/
theorem projection_rule_by_rule {N V : Type} [DecidableEq N] (ref : N) (pass : N → Bool)
    (rich : Coords N) (ch : List (N × Option N)) (l1 l2 : List (N × V)) :
    projectSame ref pass rich ch (l1 ++ l2)
      = projectSame ref pass rich ch l1 ++ projectSame ref pass rich ch l2 := by
  simp [projectSame, List.flatMap_append]

/-- **(audit) `projection_exact` for every selected sub-list of the nested rules** (think
`sel r` = "the scope of `r` contains edge `e`"): the exchangeabilities agree edge by edge, not only
as a product over all scopes. -/
theorem projection_exact_sublist {N V : Type} [DecidableEq N] [Monoid V] (ref : N) (pass : N → Bool)
    (rich simple : Coords N) (hnest : nestedSame ref rich simple = true) (rules : List (N × V))
    (hnames : ∀ r ∈ rules, pass r.1 = false → r.1 ≠ ref ∧ ∃ cs, (r.1, cs) ∈ simple)
    (hpass : ∀ n, pass n = true → coordsOf rich n = [] ∧ coordsOf simple n = [])
    (sel : N × V → Bool) :
    ∃ ch, chosenAll rich simple = .ok ch ∧ ∀ cell ∈ cellsOf rich ++ cellsOf simple,
      cellRate (· * ·) 1 rich (projectSame ref pass rich ch (rules.filter sel)) cell
        = cellRate (· * ·) 1 simple (rules.filter sel) cell :=
  projection_exact ref pass rich simple hnest (rules.filter sel)
    (fun r hr hp => hnames r (List.mem_filter.mp hr).1 hp) hpass

example : ∃ ch, chosenAll exGTR exHKY = .ok ch ∧
    cellRate (· * ·) (1 : Int) exGTR
        (projectSame "ref_cell" passLM exGTR ch ([("kappa", (3 : Int)), ("length", 7), ("kappa", 5)].filter (fun r => r.2 != 5))) (2, 3)
      = 3 := by
  refine ⟨_, rfl, ?_⟩
  decide

/-! ## `update_scoped_rules` (model `Model/ScopedRules.lean`, the code as it is now) -/
section ScopedSec
open CogentModel.ScopedRules

/-- **Every (parameter, edge) of the result carries the nested value.**  For the dict views
(`_get_keyed_rule_indices`) of ANY rich and null rule lists that are well-formed (`WF`: keys
faithful, scopes of one parameter disjoint in each list, no singular-`"edge"` mangling), if
`update_scoped_rules` returns `out` then every rule `o ∈ out`, on every edge `e` of its scope, has
the value the null rules give `(o.par, e)` whenever the null defines it — through the 1-to-1
branch, the "free" branch (`extend_rule_value`), the single-match branch and the no-match branch. -/
theorem scoped_rules_preserve_values {S V : Type} [DecidableEq S] (chars : S → List S)
    (rich null : List (Rule S V)) (wf : WF chars (keyed rich) (keyed null))
    (out : List (Rule S V)) (h : updateScoped chars rich null = .ok out) :
    ∀ o ∈ out, ∀ e, covers o e = true →
      ∀ n ∈ keyed null, n.par = o.par → covers n e = true → o.val = n.val := by
  intro o ho e hoe n hn hp hne
  obtain ⟨r, hr, a, ha, hoa⟩ := updateAll_mem chars (keyed rich) (keyed null) (keyed rich) out h o ho
  exact updateOne_sound chars (keyed rich) (keyed null) wf r hr a ha o hoa e hoe n hn hp hne

def kr0 : List (Rule String Nat) := [⟨"k", some ["a"], true, 1⟩, ⟨"k", some ["b"], true, 1⟩]
def kn0 : List (Rule String Nat) := [⟨"k", some ["a", "b"], false, 3⟩]
example : keyed kr0 = kr0 ∧ keyed kn0 = kn0 := by decide
/-- the hypotheses of `scoped_rules_preserve_values` are satisfiable: shared kappa → per-edge kappa -/
example : WF (fun s : String => [s]) kr0 kn0 := by
  refine ⟨?_, ?_, ?_, ?_⟩
  · intro r hr n hn hk
    simp only [kr0, kn0, List.mem_cons, List.mem_nil_iff, or_false] at hr hn
    subst hn
    rcases hr with rfl | rfl <;> exact absurd hk (by decide)
  · intro r1 h1 r2 h2 hp e c1 c2
    simp only [kr0, List.mem_cons, List.mem_nil_iff, or_false] at h1 h2
    rcases h1 with rfl | rfl <;> rcases h2 with rfl | rfl <;> first | rfl | (simp [covers] at c1 c2; simp_all)
  · intro n1 h1 n2 h2 _ _ _ _
    simp only [kn0, List.mem_cons, List.mem_nil_iff, or_false] at h1 h2
    rw [h1, h2]
  · intro n hn
    simp only [kn0, List.mem_cons, List.mem_nil_iff, or_false] at hn
    subst hn
    rfl

/-- non-vacuity: a shared kappa (null) into per-edge / clade kappa plus an unmatched edge-scoped
term (rich); all four branches are used -/
def exNull : List (Rule String Nat) :=
  [⟨"kappa", some ["a", "b"], false, 3⟩, ⟨"kappa", some ["c"], true, 5⟩, ⟨"omega", some ["a"], true, 7⟩,
   ⟨"omega", some ["b", "c"], false, 9⟩, ⟨"beta", none, false, 4⟩]
def exRich : List (Rule String Nat) :=
  [⟨"kappa", some ["a"], true, 1⟩, ⟨"kappa", some ["b"], true, 1⟩, ⟨"kappa", some ["c"], true, 1⟩,
   ⟨"omega", none, false, 1⟩, ⟨"A/C", some ["a"], true, 1⟩, ⟨"beta", none, false, 1⟩]
example : updateScoped (fun s => [s]) exRich exNull = .ok
    [⟨"kappa", some ["a"], true, 3⟩, ⟨"kappa", some ["b"], true, 3⟩, ⟨"kappa", some ["c"], true, 5⟩,
     ⟨"omega", some ["a"], true, 7⟩, ⟨"omega", some ["b"], true, 9⟩, ⟨"omega", some ["c"], true, 9⟩,
     ⟨"A/C", some ["a"], true, 1⟩, ⟨"beta", none, false, 4⟩] := by decide

/-- the well-formedness hypotheses are needed (both replayed on the real function; both inputs are
outside the nested quantifier, so neither is a defect finding):
(1) a null rule written `"edge": "Hu"` is matched through the CHARACTERS of its name, so a rich
clade `["Hu","Ch"]` keeps its own value 1 although the null defines `(kappa, Hu) = 3`;
(2) `edges: []` and no scope share the key `{par}`, so a free rich rule takes the value of an
empty-scope null rule instead of the one that covers edge `a`. -/
theorem scoped_rules_wf_needed_counter :
    updateScoped (fun s : String => s.toList.map String.singleton)
      [⟨"kappa", some ["Hu", "Ch"], false, (1 : Nat)⟩] [⟨"kappa", some ["Hu"], true, 3⟩]
      = .ok [⟨"kappa", some ["Hu", "Ch"], false, 1⟩] ∧
    updateScoped (fun s : String => [s])
      [⟨"p", none, false, (1 : Nat)⟩] [⟨"p", some [], false, 5⟩, ⟨"p", some ["a"], false, 7⟩]
      = .ok [⟨"p", none, false, 5⟩] := by
  constructor <;> decide +kernel

/-- more than one overlapping null scope for an edge-scoped rich rule is refused (ValueError) -/
example : updateScoped (fun s : String => [s]) [⟨"p", some ["a", "b"], false, (1 : Nat)⟩]
    [⟨"p", some ["a"], false, 5⟩, ⟨"p", some ["b"], false, 7⟩] = .error .valueError := by decide

/-! ### audit additions: the well-formedness that REAL rule lists satisfy -/

/-- the real `chars`: `set("Human") = {'H','u','m','a','n'}` -/
def realChars : String → List String := fun s => s.toList.map String.singleton

/-- rule lists of the shape `get_param_rules()` really produces (replayed: per-edge rules are
written `"edge": name`, clades `"edges": [...]`, `mprobs` unscoped): null = HKY85 with kappa shared
on the clade {Chimp, Human}; rich = HKY85 with per-edge kappa -/
def exNullReal : List (Rule String Nat) :=
  [⟨"kappa", some ["Chimp", "Human"], false, 3⟩, ⟨"kappa", some ["Rhesus"], true, 5⟩,
   ⟨"mprobs", none, false, 9⟩,
   ⟨"length", some ["Chimp"], true, 2⟩, ⟨"length", some ["Human"], true, 4⟩, ⟨"length", some ["Rhesus"], true, 6⟩]
def exRichReal : List (Rule String Nat) :=
  [⟨"kappa", some ["Chimp"], true, 1⟩, ⟨"kappa", some ["Human"], true, 1⟩, ⟨"kappa", some ["Rhesus"], true, 1⟩,
   ⟨"mprobs", none, false, 1⟩,
   ⟨"length", some ["Chimp"], true, 1⟩, ⟨"length", some ["Human"], true, 1⟩, ⟨"length", some ["Rhesus"], true, 1⟩]

/-- **The hypothesis `WF` of `scoped_rules_preserve_values` is FALSE on real rule lists** (with the
real `chars`): its clause `quirk` fails for every null rule written `"edge": "Human"`, and every
`get_param_rules()` output contains such `length` rules.  The executable check `wfrB` (sufficient for
the weaker `WFr`) holds for the same lists. -/
theorem scoped_wf_excludes_real_rule_lists_counter :
    ¬ WF realChars (keyed exRichReal) (keyed exNullReal) ∧
    wfrB realChars (keyed exRichReal) (keyed exNullReal) = true := by
  refine ⟨?_, by decide +kernel⟩
  intro h
  have := h.quirk ⟨"length", some ["Human"], true, 4⟩ (by decide +kernel)
  revert this
  decide +kernel

/-- **`scoped_rules_preserve_values` under the weaker well-formedness `WFr`** (the `quirk` clause
only for null rules that no rich rule key-matches — the only ones that reach the name-matching
loop).  Strictly stronger than `scoped_rules_preserve_values` (`WF.toWFr`). -/
theorem scoped_rules_preserve_values_r {S V : Type} [DecidableEq S] (chars : S → List S)
    (rich null : List (Rule S V)) (wf : WFr chars (keyed rich) (keyed null))
    (out : List (Rule S V)) (h : updateScoped chars rich null = .ok out) :
    ∀ o ∈ out, ∀ e, covers o e = true →
      ∀ n ∈ keyed null, n.par = o.par → covers n e = true → o.val = n.val := by
  intro o ho e hoe n hn hp hne
  obtain ⟨r, hr, a, ha, hoa⟩ := updateAll_mem chars (keyed rich) (keyed null) (keyed rich) out h o ho
  exact updateOne_sound_r chars (keyed rich) (keyed null) wf r hr a ha o hoa e hoe n hn hp hne

/-- **… and with the hypothesis replaced by the executable test `wfrB`** that the driver evaluates
on the rule lists captured from the real `initialise_from_nested` (harness stream (F)). -/
theorem scoped_rules_preserve_values_checked {S V : Type} [DecidableEq S] [DecidableEq V]
    (chars : S → List S) (rich null : List (Rule S V))
    (hwf : wfrB chars (keyed rich) (keyed null) = true)
    (out : List (Rule S V)) (h : updateScoped chars rich null = .ok out) :
    ∀ o ∈ out, ∀ e, covers o e = true →
      ∀ n ∈ keyed null, n.par = o.par → covers n e = true → o.val = n.val :=
  scoped_rules_preserve_values_r chars rich null (wfrB_sound hwf) out h

/-- non-vacuity on the real-shaped lists, real `chars`: clade kappa 3 lands on both per-edge rules -/
example : updateScoped realChars exRichReal exNullReal = .ok
    [⟨"kappa", some ["Chimp"], true, 3⟩, ⟨"kappa", some ["Human"], true, 3⟩, ⟨"kappa", some ["Rhesus"], true, 5⟩,
     ⟨"mprobs", none, false, 9⟩,
     ⟨"length", some ["Chimp"], true, 2⟩, ⟨"length", some ["Human"], true, 4⟩, ⟨"length", some ["Rhesus"], true, 6⟩] := by
  decide +kernel
example := scoped_rules_preserve_values_checked realChars exRichReal exNullReal (by decide +kernel) _
  (by decide +kernel : updateScoped realChars exRichReal exNullReal = .ok
    [⟨"kappa", some ["Chimp"], true, 3⟩, ⟨"kappa", some ["Human"], true, 3⟩, ⟨"kappa", some ["Rhesus"], true, 5⟩,
     ⟨"mprobs", none, false, 9⟩,
     ⟨"length", some ["Chimp"], true, 2⟩, ⟨"length", some ["Human"], true, 4⟩, ⟨"length", some ["Rhesus"], true, 6⟩])

/-- **(audit) Unconditional: an explicitly scoped rich rule is never dropped, split or re-scoped.**
Whatever the two rule lists (no well-formedness needed), if `update_scoped_rules` returns, every rule
of the rich dict view that names its edges reappears in the result with the same parameter, the same
scope and the same spelling; only its value may change.  (The value statements above say WHICH
value; this says the rule is still there.  A FREE rich rule, by contrast, is replaced by per-edge
rules for the edges of the matching null rules only — edges no null rule names lose the rule.) -/
theorem scoped_rules_keep_scoped_rules {S V : Type} [DecidableEq S] (chars : S → List S)
    (rich null : List (Rule S V)) (out : List (Rule S V)) (h : updateScoped chars rich null = .ok out) :
    ∀ r ∈ keyed rich, ∀ es, r.edges = some es →
      ∃ o ∈ out, o.par = r.par ∧ o.edges = r.edges ∧ o.single = r.single := by
  intro r hr es hes
  obtain ⟨a, ha, hsub⟩ := updateAll_sub chars (keyed rich) (keyed null) (keyed rich) out h r hr
  obtain ⟨v, rfl⟩ := updateOne_keeps_scope chars (keyed rich) (keyed null) r es hes a ha
  exact ⟨_, hsub _ List.mem_cons_self, rfl, rfl, rfl⟩

/-- the remark about free rules, concretely: null names only edge `a`; the free rich rule survives
for `a` alone -/
example : updateScoped (fun s : String => [s]) [⟨"p", none, false, (1 : Nat)⟩]
    [⟨"p", some ["a"], false, 7⟩] = .ok [⟨"p", some ["a"], true, 7⟩] := by decide

end ScopedSec

/-! ## the projection WITH SCOPES and the rule list `initialise_from_nested` finally applies
(model `Model/OptimiserScopedProj.lean`: rules are `{par_name, edges|edge, is_constant, init, value}`,
every emitted rule is a `rule.copy()` of the nested rule it came from) -/
section ScopedProjSec
open CogentModel.ScopedRules CogentModel.ScopedProj

/-- **The projection is exact EDGE BY EDGE.**  Under `nestedSame`, for every nested rule list whose
rules carry their scope (time-heterogeneous nulls: kappa per edge / per clade, constant or free),
if `update_param_rules(same=True)` returns `out` then on EVERY edge `e` and at every cell the product
over the projected rate rules whose scope contains `e` equals the product over the nested rate rules
whose scope contains `e` (nested value = `"value"` if constant else `"init"`, projected value =
`"init"`, the entry `update_rule_value` reads).  Together with `projection_scoped_one_rule_per_edge`
(at most one rule per parameter and edge on both sides under `onePerEdgeB`) the two products are
the exchangeabilities on that edge. -/
theorem projection_exact_scoped {S V : Type} [DecidableEq S] [Monoid V] (ref : S) (pass : S → Bool)
    (rich simple : Coords S) (hnest : nestedSame ref rich simple = true) (rules : List (PRule S V))
    (hnames : ∀ r ∈ rules, pass r.par = false → r.par ≠ ref ∧ ∃ cs, (r.par, cs) ∈ simple)
    (hpass : ∀ n, pass n = true → coordsOf rich n = []) :
    ∃ ch, chosenAll rich simple = .ok ch ∧
      ∀ out, updateParamRulesSame ref pass rich ch rules = .ok out →
        ∀ e, ∀ cell ∈ cellsOf rich ++ cellsOf simple,
          edgeRate (· * ·) 1 rich (projectedPairs pass out e) cell
            = edgeRate (· * ·) 1 simple (nestedPairs pass rules e) cell := by
  obtain ⟨ch, hch, _⟩ := nestedSame_spec hnest
  refine ⟨ch, hch, ?_⟩
  intro out hout e cell hcell
  have hp := pairs_of_update ref pass rich ch hpass rules out hout e
  obtain ⟨ch', hch', hx⟩ := projection_exact ref (fun _ => false) rich simple hnest (nestedPairs pass rules e)
    (by
      intro r' hr' _
      unfold nestedPairs at hr'
      rw [List.mem_filterMap] at hr'
      obtain ⟨r, hr, hm⟩ := hr'
      rw [List.mem_filter] at hr
      cases hv : mleOf r with
      | none => rw [hv] at hm; cases hm
      | some v =>
        rw [hv] at hm
        simp only [Option.map_some, Option.some.injEq] at hm
        subst hm
        have hpf : pass r.par = false := by
          have := hr.2
          simp only [Bool.and_eq_true, Bool.not_eq_true'] at this
          exact this.2
        exact hnames r hr.1 hpf)
    (by intro n hn; cases hn)
  have : ch' = ch := by
    rw [hch] at hch'
    cases hch'
    rfl
  subst this
  unfold edgeRate
  rw [hp]
  exact hx cell hcell

/-- **What `initialise_from_nested` finally applies** (same stationarity class):
`update_scoped_rules(my_rules, update_param_rules(nested_rules))`.  If the projection returns `proj`,
the scoped update returns `fin`, and the executable well-formedness `wfrB` holds for the two rule
lists handed to `update_scoped_rules` (evaluated by the driver on the lists captured from the real
function), then every final rule `o`, on every edge `e` of its scope, carries the value of the
projected rule `n` for (`o.par`, `e`); and that projected rule is the copy of a nested rule `r` with
the same scope whose parameter `o.par` takes its value from (`targets`), with value `mle r`
(`"value"` if `r` is constant, else `"init"`). -/
theorem initialise_rules_exact {S V : Type} [DecidableEq S] [DecidableEq V] (chars : S → List S)
    (ref : S) (pass : S → Bool) (rich : Coords S) (ch : List (S × Option S))
    (my : List (Rule S (Option V))) (nested proj : List (PRule S V)) (fin : List (Rule S (Option V)))
    (hproj : updateParamRulesSame ref pass rich ch nested = .ok proj)
    (hwf : wfrB chars (keyed my) (keyed (proj.map toRule)) = true)
    (hfin : updateScoped chars my (proj.map toRule) = .ok fin) :
    ∀ o ∈ fin, ∀ e, covers o e = true →
      ∀ n ∈ keyed (proj.map toRule), n.par = o.par → covers n e = true →
        o.val = n.val ∧
        (pass n.par = false → ∃ r ∈ nested, pass r.par = false ∧ n.par ∈ targets ref rich ch r.par ∧
          n.edges = r.edges ∧ ∃ v, mleOf r = some v ∧ n.val = some v) := by
  intro o ho e hoe n hn hpar hne
  refine ⟨scoped_rules_preserve_values_checked chars my (proj.map toRule) hwf fin hfin o ho e hoe n hn hpar hne, ?_⟩
  intro hnp
  have hmem := keyed_subset (proj.map toRule) n hn
  rw [List.mem_map] at hmem
  obtain ⟨p, hp, rfl⟩ := hmem
  rcases emitted_provenance ref pass rich ch nested proj hproj p hp with ⟨h1, _⟩ | ⟨r, hr, h1, h2, h3, _, v, h5, h6⟩
  · simp only [toRule] at hnp
    rw [h1] at hnp
    cases hnp
  · exact ⟨r, hr, h1, h2, h3, v, h5, by simp [toRule, h6]⟩

/-- non-vacuity (HKY85 in GTR, two kappa rules on two edge sets, one of them constant, plus
per-edge lengths): the projection keeps the scopes -/
def exNestedScoped : List (PRule String Int) :=
  [⟨"kappa", some ["Human", "Chimp"], false, false, some 3, none⟩,
   ⟨"kappa", some ["Rhesus"], true, true, some 99, some 5⟩,
   ⟨"length", some ["Human"], true, false, some 7, none⟩]

def chGTR : List (String × Option String) :=
  [("A/C", some "ref_cell"), ("A/G", some "kappa"), ("A/T", some "ref_cell"), ("C/G", some "ref_cell"),
   ("C/T", some "kappa"), ("ref_cell", some "ref_cell")]
example : chosenAll exGTR exHKY = .ok chGTR := by decide

example : updateParamRulesSame "ref_cell" passLM exGTR chGTR exNestedScoped = .ok
    [⟨"A/G", some ["Human", "Chimp"], false, false, some 3, none⟩,
     ⟨"C/T", some ["Human", "Chimp"], false, false, some 3, none⟩,
     ⟨"A/G", some ["Rhesus"], true, true, some 5, some 5⟩,
     ⟨"C/T", some ["Rhesus"], true, true, some 5, some 5⟩,
     ⟨"length", some ["Human"], true, false, some 7, none⟩] := by decide

/-- on edge Human the transition cell (2,3) has exchangeability 3, on edge Rhesus 5 (not 15) -/
example : edgeRate (· * ·) (1 : Int) exHKY (nestedPairs passLM exNestedScoped "Human") (2, 3) = 3 ∧
    edgeRate (· * ·) (1 : Int) exHKY (nestedPairs passLM exNestedScoped "Rhesus") (2, 3) = 5 ∧
    onePerEdgeB passLM exNestedScoped ["Human", "Chimp", "Rhesus"] = true := by decide

/-- `projection_exact_scoped` instantiated: all hypotheses hold for that rule list -/
example := projection_exact_scoped (V := Int) "ref_cell" passLM exGTR exHKY (by decide) exNestedScoped
  (by
    intro r hr hp
    simp only [exNestedScoped, List.mem_cons, List.mem_nil_iff, or_false] at hr
    rcases hr with rfl | rfl | rfl
    · exact ⟨by decide, _, List.mem_cons_self⟩
    · exact ⟨by decide, _, List.mem_cons_self⟩
    · exact absurd hp (by decide))
  (by
    intro n hn
    have : n = "length" ∨ n = "mprobs" := by simpa [passLM] using hn
    rcases this with rfl | rfl <;> decide)

/-- `initialise_rules_exact` instantiated: a GTR alternative with per-edge `A/G`, shared `C/T`
(clade-wise as the null) and the real `chars` -/
def exMyGTR : List (Rule String (Option Int)) :=
  [⟨"A/G", some ["Human"], true, some 1⟩, ⟨"A/G", some ["Chimp"], true, some 1⟩, ⟨"A/G", some ["Rhesus"], true, some 1⟩,
   ⟨"C/T", some ["Human", "Chimp"], false, some 1⟩, ⟨"C/T", some ["Rhesus"], true, some 1⟩,
   ⟨"A/C", none, false, some 1⟩, ⟨"length", some ["Human"], true, some 1⟩]
def exProjGTR : List (PRule String Int) :=
  [⟨"A/G", some ["Human", "Chimp"], false, false, some 3, none⟩,
   ⟨"C/T", some ["Human", "Chimp"], false, false, some 3, none⟩,
   ⟨"A/G", some ["Rhesus"], true, true, some 5, some 5⟩,
   ⟨"C/T", some ["Rhesus"], true, true, some 5, some 5⟩,
   ⟨"length", some ["Human"], true, false, some 7, none⟩]
def exFinGTR : List (Rule String (Option Int)) :=
  [⟨"A/G", some ["Human"], true, some 3⟩, ⟨"A/G", some ["Chimp"], true, some 3⟩, ⟨"A/G", some ["Rhesus"], true, some 5⟩,
   ⟨"C/T", some ["Human", "Chimp"], false, some 3⟩, ⟨"C/T", some ["Rhesus"], true, some 5⟩,
   ⟨"length", some ["Human"], true, some 7⟩]
example := initialise_rules_exact realChars "ref_cell" passLM exGTR chGTR exMyGTR exNestedScoped exProjGTR exFinGTR
  (by decide) (by decide +kernel) (by decide +kernel)

/-- **At most one rule per (parameter, edge), before and after the projection.**  If the nested
rule list passes the executable check `onePerEdgeB` (evaluated by the driver on the real
`get_param_rules()` lists) and the rich parameter names are distinct, then on every edge both the
nested and the projected rate rules name each parameter at most once — so the products of
`projection_exact_scoped` are products over PARAMETERS of their value on that edge. -/
theorem projection_scoped_one_rule_per_edge {S V : Type} [DecidableEq S] (ref : S) (pass : S → Bool)
    (rich : Coords S) (ch : List (S × Option S)) (hch : (ch.map (·.1)).Nodup)
    (hpass : ∀ n, pass n = true → coordsOf rich n = []) (rules out : List (PRule S V))
    (h : updateParamRulesSame ref pass rich ch rules = .ok out) (edgeNames : List S)
    (hone : onePerEdgeB pass rules edgeNames = true) :
    ∀ e ∈ edgeNames, ((nestedPairs pass rules e).map (·.1)).Nodup ∧
      ((projectedPairs pass out e).map (·.1)).Nodup := by
  intro e he
  have h1 := onePerEdge_nodup pass rules edgeNames hone e he
  refine ⟨h1, ?_⟩
  rw [pairs_of_update ref pass rich ch hpass rules out h e]
  exact projectSame_names_nodup ref rich ch hch _ h1

example := projection_scoped_one_rule_per_edge (V := Int) "ref_cell" passLM exGTR chGTR (by decide)
  (by
    intro n hn
    have : n = "length" ∨ n = "mprobs" := by simpa [passLM] using hn
    rcases this with rfl | rfl <;> decide)
  exNestedScoped _ (by decide : updateParamRulesSame "ref_cell" passLM exGTR chGTR exNestedScoped = .ok exProjGTR)
  ["Human", "Chimp", "Rhesus"] (by decide)

/-- the check is not automatic: two kappa rules that both cover edge Human -/
example : onePerEdgeB passLM
    [⟨"kappa", some ["Human", "Chimp"], false, false, some (3 : Int), none⟩,
     ⟨"kappa", some ["Human"], true, false, some 5, none⟩] ["Human", "Chimp"] = false := by decide

end ScopedProjSec

end CogentModel.C16
