import CogentModel.Model.ScopeModel
import CogentModel.Gen.C11Scope
/-! # C11 — scope of a parameter rule: translated code = hand model, and what the hand model guarantees

`Gen/C11Scope.lean` is generated on every run from the current source of `TreeNode.get_edge_names` and
`_LikelihoodParameterController._process_scope_info`.  The `gen_*` theorems prove the generated definitions equal to
the import-free hand model `Model/ScopeModel.lean` for ALL arguments and ALL tree primitives; the remaining theorems are
about the hand model (hence about the translated code).  Why this matters for C11: a likelihood function on a re-rooted
tree has the same likelihood only if every edge-scoped rule selects the same edges as before. -/
namespace CogentModel.C11
open CogentModel.Scope CogentModel.C11Gen

theorem foldl_append_flatMap {α : Type} (f : α → List String) (l : List α) (init : List String) :
    l.foldl (fun acc c => acc ++ f c) init = init ++ l.flatMap f := by
  induction l generalizing init with
  | nil => simp
  | cons x xs ih => simp [List.foldl_cons, ih, List.flatMap_cons, List.append_assoc]

/-- translated `TreeNode.get_edge_names` = hand model `edgeNames` (flags by their Python truth value) -/
theorem gen_get_edge_names_eq {T : Type} (ops : TreeOps T) (t : T) (a b : String) (clade stem : Option Bool)
    (og : Option String) :
    get_edge_names ops t a b clade stem og = edgeNames ops t a b (truthyB clade) (truthyB stem) og := by
  unfold get_edge_names edgeNames
  cases og with
  | none =>
    simp only [Option.isSome_none, viewFrom]
    cases ops.connectingNode t a b with
    | none => simp
    | some j =>
      simp only [foldl_append_flatMap, cladeNames]
      cases truthyB stem <;> cases truthyB clade <;> cases ops.isRoot j <;> simp
  | some o =>
    simp only [Option.isSome_some, viewFrom, Option.getD_some]
    cases ops.nodeMatching t o with
    | none => simp
    | some n =>
      cases hT : ops.isTip n
      · simp [hT]
      · simp only [hT, foldl_append_flatMap, cladeNames, Bool.not_true, Bool.false_eq_true, if_false, if_true]
        cases ops.connectingNode (ops.unrootedDeepcopy n) a b with
        | none => simp
        | some j =>
          cases truthyB stem <;> cases truthyB clade <;> cases ops.isRoot j <;> simp

/-- translated `_process_scope_info` = hand model `scopeEdges` -/
theorem gen_process_scope_info_eq {T : Type} (ops : TreeOps T) (tree : T) (edge : Option String)
    (tipNames edges : Option (List String)) (clade stem : Option Bool) (og : Option String) :
    process_scope_info ops tree edge tipNames edges clade stem og
      = scopeEdges ops tree edge tipNames edges clade stem og := by
  unfold process_scope_info scopeEdges
  simp only [gen_get_edge_names_eq]
  cases edges with
  | some es => simp
  | none =>
    cases edge with
    | some e => simp
    | none =>
      cases tipNames with
      | none => simp
      | some l =>
        match l with
        | [] => simp [lenO]
        | [_] => simp [lenO]
        | [x, y] =>
          cases stem <;> cases clade <;> simp [lenO, truthyB] <;>
            (cases edgeNames ops tree x y _ _ og <;> simp)
        | _ :: _ :: _ :: _ => simp [lenO]

/-- the translated defaults of the flags: `get_edge_names(clade=True, stem=False)`, `_process_scope_info(clade=None, stem=None)` -/
theorem gen_defaults :
    default_get_edge_names_clade = some true ∧ default_get_edge_names_stem = some false ∧
    default_process_scope_info_clade = none ∧ default_process_scope_info_stem = none := ⟨rfl, rfl, rfl, rfl⟩

/-! ## what the hand model guarantees -/

/-- **With an outgroup the selected edges do not depend on where the tree is rooted.**  `t` and `t'` are two trees
(e.g. two rootings of one topology) in which the outgroup name is found; if the tree seen from the outgroup tip
(`unrooted_deepcopy`) is the same, a `tip_names=` rule selects the same edges — or is refused alike — whatever the
flags.  (That `unrooted_deepcopy` from a tip does not depend on the old root is `rooted_at_is_reroot`'s subject and is
run against cogent3 by the driver command `reroot`.) -/
theorem scope_with_outgroup_root_independent {T : Type} (ops : TreeOps T) (t t' o o' : T) (og : String)
    (h : ops.nodeMatching t og = some o) (h' : ops.nodeMatching t' og = some o')
    (htip : ops.isTip o = ops.isTip o') (hview : ops.unrootedDeepcopy o = ops.unrootedDeepcopy o')
    (tips : Option (List String)) (clade stem : Option Bool) :
    scopeEdges ops t none tips none clade stem (some og) = scopeEdges ops t' none tips none clade stem (some og) := by
  have hv : viewFrom ops t (some og) = viewFrom ops t' (some og) := by
    simp [viewFrom, h, h', htip, hview]
  have he : ∀ a b cl st, edgeNames ops t a b cl st (some og) = edgeNames ops t' a b cl st (some og) := by
    intro a b cl st; unfold edgeNames; rw [hv]
  unfold scopeEdges
  cases tips with
  | none => rfl
  | some l =>
    match l with
    | [] => rfl
    | [_] => rfl
    | [x, y] => simp only [he]
    | _ :: _ :: _ :: _ => rfl

/-- … the same statement for the TRANSLATED function. -/
theorem gen_scope_with_outgroup_root_independent {T : Type} (ops : TreeOps T) (t t' o o' : T) (og : String)
    (h : ops.nodeMatching t og = some o) (h' : ops.nodeMatching t' og = some o')
    (htip : ops.isTip o = ops.isTip o') (hview : ops.unrootedDeepcopy o = ops.unrootedDeepcopy o')
    (tips : Option (List String)) (clade stem : Option Bool) :
    process_scope_info ops t none tips none clade stem (some og)
      = process_scope_info ops t' none tips none clade stem (some og) := by
  rw [gen_process_scope_info_eq, gen_process_scope_info_eq]
  exact scope_with_outgroup_root_independent ops t t' o o' og h h' htip hview tips clade stem

/-- Without an outgroup the answer is read off the tree AS ROOTED: it depends on the tree only through the LCA the
rooted tree reports.  (So two rootings with different LCAs may select different edges: the reason the check runs every
`tip_names` rule under every root placement.) -/
theorem scope_without_outgroup_reads_rooted_lca {T : Type} (ops : TreeOps T) (t t' : T) (a b : String)
    (h : ops.connectingNode t a b = ops.connectingNode t' a b) (clade stem : Option Bool) :
    scopeEdges ops t none (some [a, b]) none clade stem none
      = scopeEdges ops t' none (some [a, b]) none clade stem none := by
  simp [scopeEdges, edgeNames, viewFrom, h]

/-- flags left out: the clade below the join node, without its stem -/
theorem scope_default_is_clade_only {T : Type} (ops : TreeOps T) (t : T) (a b : String) (og : Option String) :
    scopeEdges ops t none (some [a, b]) none none none og
      = (match edgeNames ops t a b true false og with | .error e => .error e | .ok l => .ok (some l)) := by
  simp only [scopeEdges, Option.getD_none, Bool.not_false]
  cases edgeNames ops t a b true false og <;> rfl

/-- `stem=True` alone means the stem edge ONLY (clade defaults to `not stem`) -/
theorem scope_stem_alone_is_stem_only {T : Type} (ops : TreeOps T) (t : T) (a b : String) (og : Option String) :
    scopeEdges ops t none (some [a, b]) none none (some true) og
      = (match edgeNames ops t a b false true og with | .error e => .error e | .ok l => .ok (some l)) := by
  simp only [scopeEdges, Option.getD_some, Bool.not_true]
  cases edgeNames ops t a b false true og <;> rfl

/-- stem + clade = the stem edge followed by the clade's edges, each as selected on its own -/
theorem edge_names_stem_then_clade {T : Type} (ops : TreeOps T) (t : T) (a b : String) (og : Option String)
    (l : List String) (h : edgeNames ops t a b true true og = .ok l) :
    ∃ s c, edgeNames ops t a b false true og = .ok s ∧ edgeNames ops t a b true false og = .ok c ∧ l = s ++ c := by
  unfold edgeNames at h ⊢
  cases hv : viewFrom ops t og with
  | error e => simp [hv] at h
  | ok v =>
    simp only [hv] at h ⊢
    cases hj : ops.connectingNode v a b with
    | none => simp [hj] at h
    | some j =>
      simp only [hj] at h ⊢
      cases hr : ops.isRoot j
      · simp [hr] at h ⊢; exact h.symm
      · simp [hr] at h

/-- a clade-only rule is never refused for "no stem"; a stem rule whose join node is the root always is -/
theorem clade_only_never_no_stem {T : Type} (ops : TreeOps T) (t : T) (a b : String) (cl : Bool) (og : Option String) :
    edgeNames ops t a b cl false og ≠ .error .noStem := by
  unfold edgeNames
  cases hv : viewFrom ops t og with
  | error e =>
    cases og with
    | none => simp [viewFrom] at hv
    | some o =>
      simp only [viewFrom] at hv
      cases hn : ops.nodeMatching t o with
      | none => simp [hn] at hv; subst hv; simp
      | some n =>
        simp only [hn] at hv
        cases ht : ops.isTip n <;> simp [ht] at hv
        subst hv; simp
  | ok v =>
    simp only
    cases ops.connectingNode v a b <;> simp

/-- only ONE way of giving a scope: `edges=` with a non-empty `tip_names=` or `edge=` is refused, `edge=` with
`tip_names=` too; nothing given = every edge -/
theorem scope_exclusive {T : Type} (ops : TreeOps T) (t : T) (es : List String) (e : String) (x y : String)
    (l : List String) (clade stem : Option Bool) (og : Option String) :
    scopeEdges ops t none (some (x :: l)) (some es) clade stem og = .error .onlyOne ∧
    scopeEdges ops t (some e) (some (x :: l)) none clade stem og = .error .onlyOne ∧
    scopeEdges ops t none none none clade stem og = .ok none ∧
    scopeEdges ops t none none (some es) clade stem og = .ok (some es) ∧
    scopeEdges ops t none (some (x :: y :: z :: l)) none clade stem og = .error .twoSpecies := by
  simp [scopeEdges, truthyL, truthyS]

end CogentModel.C11
