import CogentModel.Gen.C15Dist
import CogentModel.Proofs.DistanceGen
import CogentModel.Proofs.DistanceFormulaLemmas
import Mathlib.Tactic.SplitIfs
import Mathlib.Analysis.SpecialFunctions.Pow.Real
/-! # C15 — the TRANSLATED estimator source equals the hand model, for all arguments

`Gen/C15Dist.lean` is rewritten on every run by `translator/c15_dist2lean.py` from the current text of
`evolve/fast_distance.py` (`_hamming`, `_jc69_from_matrix`, `_tn93_from_matrix`, `_logdetcommon`, `_paralinear`,
`_logdet`, `get_matrix_diff_coords`) and `evolve/pairwise_distance_numba.py` (`fill_diversity_matrix`), numpy
operation by numpy operation.  The theorems below prove every generated definition equal to the hand model of
`Model/Distance.lean` (about which the C15 / C15Spec theorems are stated) for ALL count matrices / index arrays,
so a semantic edit of any of these functions breaks a proof obligation here.

A result tuple is compared with `Res.Same`: both the all-`None` tuple, or equal `total`, equal `p` and equal
distance for EVERY function `L` standing for `numpy.log` (`ofStat` spells out the final distance formula that a
`Stat` of the hand model stands for). -/
namespace CogentModel.C15
open CogentModel.Distance CogentModel.DistNp CogentModel.Gen
open CogentModel.DistanceFormulas (exCounts exEmpty exSaturated exIdentical)

/-- the loop body of the numba kernel `fill_diversity_matrix` is the model's `fillStep`, and the whole kernel on
a zeroed matrix is the model's `fill` of the zipped columns — for all pairs of index arrays -/
theorem gen_fill_eq (s1 s2 : List Int) :
    C15Dist.fill_diversity_matrix_step = fillStep ∧
      C15Dist.fill_diversity_matrix (fun _ _ => 0) s1 s2 = fill (s1.zip s2) := by
  have hs : C15Dist.fill_diversity_matrix_step = fillStep := by
    funext m c
    unfold C15Dist.fill_diversity_matrix_step fillStep bumpBy bump
    rfl
  refine ⟨hs, ?_⟩
  unfold C15Dist.fill_diversity_matrix fill
  rw [hs]

example : C15Dist.fill_diversity_matrix (fun _ _ => 0) [0, 1, -9, 2, 0] [0, 2, 1, -9, 0] 0 0 = 2 ∧
    C15Dist.fill_diversity_matrix (fun _ _ => 0) [0, 1, -9, 2, 0] [0, 2, 1, -9, 0] 1 2 = 1 ∧
    C15Dist.fill_diversity_matrix (fun _ _ => 0) [0, 1, -9, 2, 0] [0, 2, 1, -9, 0] (-9) 1 = 0 := by decide

/-- `get_matrix_diff_coords`: exactly the ordered pairs of distinct members — for all index lists -/
theorem gen_diff_coords_mem (xs : List Nat) (i j : Nat) :
    (i, j) ∈ C15Dist.get_matrix_diff_coords xs ↔ i ∈ xs ∧ j ∈ xs ∧ i ≠ j := by
  unfold C15Dist.get_matrix_diff_coords
  simp [List.mem_flatMap, List.mem_map, List.mem_filter]

/-- the coordinate constants the model uses are what `TN93Pair.__init__` derives from the purine / pyrimidine
indices with this function (flattened `i * 4 + j`) -/
example : (C15Dist.get_matrix_diff_coords [2, 3]).map (fun c => c.1 * 4 + c.2) = [11, 14] ∧
    (C15Dist.get_matrix_diff_coords [1, 0]).map (fun c => c.1 * 4 + c.2) = [4, 1] ∧
    (((C15Dist.get_matrix_diff_coords [0, 1, 2, 3]).filter fun c =>
        !(C15Dist.get_matrix_diff_coords [2, 3] ++ C15Dist.get_matrix_diff_coords [1, 0]).contains c).map
      (fun c => c.1 * 4 + c.2)) = [2, 3, 6, 7, 8, 9, 12, 13] := by decide

/-- `_hamming` -/
theorem gen_hamming_eq (m : M4) : Res.Same (C15Dist.hamming m) (ofStat (hammingStat m)) := by
  unfold C15Dist.hamming hammingStat
  simp only [msum_eq, vsum_mdiag]
  by_cases h : total m = 0
  · simp [h, ofStat, Res.Same]
  · simp [h, ofStat, Res.Same]

example : (C15Dist.hamming exCounts).isSome = true ∧ (C15Dist.hamming exEmpty).isSome = false := by decide +kernel

/-- `_jc69_from_matrix`: same validity test (`total == 0`, `p >= 0.75`), same p, and the distance
`-3.0 * log(1 - (4/3) p) / 4` -/
theorem gen_jc69_eq (m : M4) : Res.Same (C15Dist.jc69_from_matrix m) (ofStat (jc69Stat m)) := by
  unfold C15Dist.jc69_from_matrix jc69Stat
  simp only [msum_eq, vsum_mdiag]
  by_cases h : total m = 0
  · simp [h, ofStat, Res.Same]
  · by_cases h2 : (3 / 4 : Rat) ≤ (total m - diagSum m) / total m
    · simp [h, h2, ofStat, Res.Same]
    · simp [h, h2, ofStat, Res.Same]
      intro L; ring

example : (C15Dist.jc69_from_matrix exCounts).isSome = true ∧
    (C15Dist.jc69_from_matrix exSaturated).isSome = false := by decide +kernel

/-- `_tn93_from_matrix` called with the constants of `TN93Pair` (purines [2,3], pyrimidines [1,0], flattened
coordinates), whenever no denominator of the formula is zero (with a zero denominator numpy computes 0/0 = nan,
which exact rationals do not have; the hand model's `nan` branch covers it and is tied by the differential):
same validity test `term1 <= 0 or term2 <= 0 or term3 <= 0`, same three coefficients and log arguments -/
theorem gen_tn93_eq (m : M4) (fr : V4)
    (h1 : tnFreq m 2 * tnFreq m 3 ≠ 0) (h2 : tnFreq m 1 * tnFreq m 0 ≠ 0)
    (h3 : tnFreq m 2 + tnFreq m 3 ≠ 0) (h4 : tnFreq m 1 + tnFreq m 0 ≠ 0) :
    Res.Same (C15Dist.tn93_from_matrix m fr [2, 3] [1, 0] [11, 14] [1, 4] [2, 3, 6, 7, 8, 9, 12, 13])
      (ofStat (tn93Stat m)) := by
  unfold C15Dist.tn93_from_matrix tn93Stat
  simp only [msum_eq, tn_freqs, take_pur, take_pyr, take_tv, take_all, vt_sum, vt_prod]
  by_cases h : total m = 0
  · simp [h, ofStat, Res.Same]
  · simp only [h, if_false, h1, h2, h3, h4, ne_eq, not_false_eq_true, true_and, and_self, or_self]
    split
    · simp [ofStat, Res.Same]
    · simp [ofStat, Res.Same]

example : tnFreq exCounts 2 * tnFreq exCounts 3 ≠ 0 ∧ tnFreq exCounts 1 * tnFreq exCounts 0 ≠ 0 ∧
    tnFreq exCounts 2 + tnFreq exCounts 3 ≠ 0 ∧ tnFreq exCounts 1 + tnFreq exCounts 0 ≠ 0 ∧
    (C15Dist.tn93_from_matrix exCounts vzero [2, 3] [1, 0] [11, 14] [1, 4] [2, 3, 6, 7, 8, 9, 12, 13]).isSome = true := by
  decide +kernel

/-- `TN93Pair.__init__` as translated (`get_matrix_diff_coords` of the purine / pyrimidine indices, the `remove` loop that leaves
the transversion coordinates, the `i * 4 + j` flattening, the order of `_func_args`), on the index lists of DNA/RNA
(`get_purine_indices` = [2, 3], `get_pyrimidine_indices` = [1, 0], compared with the real ones on every run) and `_dim` = 4,
yields exactly these constants -/
theorem gen_tn93_func_args :
    C15Dist.tn93_func_args [2, 3] [1, 0] 4 = ([2, 3], [1, 0], [11, 14], [4, 1], [2, 3, 6, 7, 8, 9, 12, 13]) := by decide +kernel

example : (C15Dist.tn93_func_args [2, 3] [1, 0] 4).2.2.2.2.length = 8 := by decide +kernel

/-- `gen_tn93_eq` with the arguments `TN93Pair.__init__` itself computes (`self.func(matrix, *self._func_args)`): the translated
constructor composed with the translated `_tn93_from_matrix` is the hand model `tn93Stat` -/
theorem gen_tn93_eq_init (m : M4) (fr : V4)
    (h1 : tnFreq m 2 * tnFreq m 3 ≠ 0) (h2 : tnFreq m 1 * tnFreq m 0 ≠ 0)
    (h3 : tnFreq m 2 + tnFreq m 3 ≠ 0) (h4 : tnFreq m 1 + tnFreq m 0 ≠ 0) :
    Res.Same (C15Dist.tn93_from_matrix m fr (C15Dist.tn93_func_args [2, 3] [1, 0] 4).1 (C15Dist.tn93_func_args [2, 3] [1, 0] 4).2.1
        (C15Dist.tn93_func_args [2, 3] [1, 0] 4).2.2.1 (C15Dist.tn93_func_args [2, 3] [1, 0] 4).2.2.2.1
        (C15Dist.tn93_func_args [2, 3] [1, 0] 4).2.2.2.2)
      (ofStat (tn93Stat m)) := by
  rw [gen_tn93_func_args]
  unfold C15Dist.tn93_from_matrix tn93Stat
  simp only [msum_eq, tn_freqs, take_pur, take_pyr', take_tv, take_all', vt_sum, vt_prod]
  by_cases h : total m = 0
  · simp [h, ofStat, Res.Same]
  · simp only [h, if_false, h1, h2, h3, h4, ne_eq, not_false_eq_true, true_and, and_self, or_self]
    split
    · simp [ofStat, Res.Same]
    · simp [ofStat, Res.Same]

example : (C15Dist.tn93_from_matrix exCounts vzero (C15Dist.tn93_func_args [2, 3] [1, 0] 4).1 (C15Dist.tn93_func_args [2, 3] [1, 0] 4).2.1
    (C15Dist.tn93_func_args [2, 3] [1, 0] 4).2.2.1 (C15Dist.tn93_func_args [2, 3] [1, 0] 4).2.2.2.1
    (C15Dist.tn93_func_args [2, 3] [1, 0] 4).2.2.2.2).isSome = true := by decide +kernel

/-- `_PairwiseDistance._expand` as translated (the `redundants` dict built by the two nested loops over `self.duplicated`, the loops over
`redundants.items()` and the names, `continue`, the literal 0, `pwise.get(.., None)`, the chained store) is the model's `expand`:
for EVERY dictionary of distances, every number of names and every `duplicated` whose entries list each duplicate once (an index enters
`dupes` once and is skipped afterwards), with the model's flat `duped` list being the entries of `duplicated` in insertion order -/
theorem gen_expand_eq (duplicated : List (Nat × List Nat)) (n : Nat) (st : RunState)
    (hd : st.duped = flatPairs duplicated) (hn : (duplicated.flatMap (·.2)).Nodup) :
    C15Dist.expand_ duplicated (List.range' 0 n) st.dists = expand n st := by
  rw [expand_flat, hd]
  unfold C15Dist.expand_
  cases hdup : duplicated with
  | nil => simp [flatPairs]
  | cons kv rest =>
    rw [← hdup]
    have hne : duplicated.isEmpty = false := by rw [hdup]; rfl
    simp only [hne, Bool.false_eq_true, if_false]
    have hr := redundants_fold duplicated [] hn (fun _ _ e he => by cases he)
    simp only [List.nil_append] at hr
    rw [hr, List.foldl_map]
    congr 1
    funext pw p
    unfold expandOne
    congr 1
    funext pw' name
    unfold expandName
    split_ifs <;> simp_all

example : flatPairs [(0, [2, 3]), (1, [4])] = [(0, 2), (0, 3), (1, 4)] ∧ ([(0, [2, 3]), (1, [4])].flatMap (·.2)).Nodup := by decide
example : (cell (C15Dist.expand_ [(0, [2])] (List.range' 0 3) (dictSet (dictSet ⟨fun _ _ => none⟩ (0, 1) (.hamming 4 (1 / 4) 1)) (1, 0) (.hamming 4 (1 / 4) 1))) 2 1 =
    .hamming 4 (1 / 4) 1) ∧ cell (C15Dist.expand_ [(0, [2])] (List.range' 0 3) ⟨fun _ _ => none⟩) 2 0 = .zero := by decide +kernel

/-- `_logdetcommon` (the part shared by paralinear and LogDet: validity, the 0.5 pseudo-count on empty diagonal
cells, normalisation, `det(frequency) <= 0`) is the model's `logdetCommon`, for every continuation `k` -/
theorem gen_logdetcommon_eq (m : M4) (k : Rat → Rat → M4 → Stat) :
    logdetCommon m k =
      match C15Dist.logdetcommon m with
      | none => .invalid
      | some (tot, p, f, _) => k tot p f := by
  unfold C15Dist.logdetcommon logdetCommon
  simp only [msum_eq, vsum_mdiag, freq_eq, det]
  by_cases h : total m = 0
  · simp [h]
  · by_cases h2 : total m - diagSum m = 0
    · simp [h, h2]
    · by_cases h3 : det4 (freqMatrix m) ≤ 0
      · simp [h, h2, h3]
      · simp [h, h2, h3]

example : (C15Dist.logdetcommon exCounts).isSome = true ∧ (C15Dist.logdetcommon exSaturated).isSome = false ∧
    (C15Dist.logdetcommon exIdentical).isSome = false := by decide +kernel

set_option linter.unusedTactic false in
set_option linter.unreachableTactic false in
/-- the fourth component returned by `_logdetcommon` (`freqs`) is `[column sums, row sums]` of the third (`frequency`) -/
theorem gen_logdetcommon_freqs (m : M4) (tot p : Rat) (f : M4) (fs : List V4)
    (h : C15Dist.logdetcommon m = some (tot, p, f, fs)) : fs = [axis0 f, axis1 f] := by
  unfold C15Dist.logdetcommon at h
  simp only at h
  split_ifs at h
  all_goals first
    | (simp only [Option.some.injEq, Prod.mk.injEq] at h
       obtain ⟨_, _, rfl, rfl⟩ := h
       rfl)
    | simp at h

example : ∃ tot p f fs, C15Dist.logdetcommon exCounts = some (tot, p, f, fs) := by
  cases h : C15Dist.logdetcommon exCounts with
  | none => exact absurd (show (C15Dist.logdetcommon exCounts).isSome = true by decide +kernel) (by simp [h])
  | some r => exact ⟨r.1, r.2.1, r.2.2.1, r.2.2.2, rfl⟩

/-- `_paralinear`: `-log(det(F) / sqrt(prod of the marginals)) / r` -/
theorem gen_paralinear_eq (m : M4) : Res.Same (C15Dist.paralinear m) (ofStat (paralinearStat m)) := by
  unfold C15Dist.paralinear paralinearStat
  rw [gen_logdetcommon_eq]
  cases hc : C15Dist.logdetcommon m with
  | none => simp [ofStat, Res.Same]
  | some r =>
    obtain ⟨tot, p, f, fs⟩ := r
    have hf := gen_logdetcommon_freqs m tot p f fs hc
    subst hf
    simp [ofStat, Res.Same, prod_eq, det]

example : (C15Dist.paralinear exCounts).isSome = true := by decide +kernel

/-- `_logdet`, with and without the Tamura–Kumar adjustment -/
theorem gen_logdet_eq (m : M4) (tk : Bool) : Res.Same (C15Dist.logdet m tk) (ofStat (logdetStat tk m)) := by
  unfold C15Dist.logdet logdetStat
  rw [gen_logdetcommon_eq]
  cases hc : C15Dist.logdetcommon m with
  | none => simp [ofStat, Res.Same]
  | some r =>
    obtain ⟨tot, p, f, fs⟩ := r
    have hf := gen_logdetcommon_freqs m tot p f fs hc
    subst hf
    cases tk
    · simp [ofStat, Res.Same, det]
    · simp [ofStat, Res.Same, prod_eq, sq_eq, det]

example : (C15Dist.logdet exCounts true).isSome = true ∧ (C15Dist.logdet exCounts false).isSome = true ∧
    (C15Dist.logdet exEmpty true).isSome = false := by decide +kernel

/-- the one algebraic rewrite the translator performs on a logarithm, `log(a / sqrt(b))` ↦ `L a - (1/2) * L b`,
is an identity of the real logarithm for positive `a`, `b` (the code only takes the log after `det(frequency) > 0`) -/
theorem log_div_sqrt_rule (a b : ℝ) (ha : 0 < a) (hb : 0 < b) :
    Real.log (a / Real.sqrt b) = Real.log a - (1 / 2) * Real.log b := by
  rw [Real.log_div ha.ne' (Real.sqrt_pos.mpr hb).ne', Real.log_sqrt hb.le]; ring

example : Real.log (3 / Real.sqrt 5) = Real.log 3 - (1 / 2) * Real.log 5 :=
  log_div_sqrt_rule 3 5 (by norm_num) (by norm_num)

end CogentModel.C15
