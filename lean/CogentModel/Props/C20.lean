import CogentModel.Model.Csv
import CogentModel.Model.TableOps
import CogentModel.Spec.TableRows
import CogentModel.Proofs.CsvRoundtrip
/-! # C20 — property theorems (tables follow the list-of-rows model; delimited text round-trips) -/
namespace CogentModel.C20
open CogentModel.Csv

/-- For ALL lists of records of ALL cells that contain no CR/LF (any other character, including the
delimiter, the quote character, spaces; empty cells, empty records, the lone-empty-field record):
reading back what the QUOTE_MINIMAL writer wrote returns exactly the records. -/
theorem csv_roundtrip (d : Dialect) (g : GoodDialect d) (rows : List Row)
    (hn : ∀ r ∈ rows, ∀ f ∈ r, NoNL f) :
    csvRead d.delim (csvWrite d rows) = .ok rows :=
  csv_roundtrip' g rows hn

example : GoodDialect ⟨'\t', ['\n']⟩ := ⟨rfl, by decide, by decide⟩
example : ∀ r ∈ [[['a', '\t', 'b'], [], ['q', '"', 'r']], [[]], [], [[], []]], ∀ f ∈ r, NoNL f := by simp [NoNL, isNL]
example : csvWrite ⟨'\t', ['\n']⟩ [[['a', '\t', 'b'], [], ['q', '"', 'r']], [[]], [], [[], []]]
    = "\"a\tb\"\t\t\"q\"\"r\"\n\"\"\n\n\t\n".toList := by decide

end CogentModel.C20
