import CogentModel.Model.Csv
import CogentModel.Model.TableOps
import CogentModel.Spec.TableRows
import CogentModel.Proofs.CsvRoundtrip
import CogentModel.Proofs.TableOpsLemmas
import CogentModel.Proofs.TableNamed
import CogentModel.Proofs.CastStr
import CogentModel.Proofs.TableArgs
import CogentModel.Proofs.TableLoad
/-! # C20 — property theorems

Tables follow the list-of-rows model (`rowsOf` is the abstraction from the column store to the list
of row tuples; `TableRows.*` are the operations on a plain list of rows) and delimited text
round-trips through the csv writer / reader.  All statements are for **all** column stores
(any cell type `α`, any number of rows and columns, duplicate keys, …); side conditions
(`WF`: columns have equal length; selected positions exist) are what `Table`'s constructor
guarantees. -/
namespace CogentModel.C20
open CogentModel.Csv CogentModel.TableOps

/-! ## delimited text -/

/-- For ALL lists of records of ALL cells — any character, including the delimiter, the quote character,
blanks, and CR / LF as far as they are characters of the lineterminator (so that QUOTE_MINIMAL quotes the
cell); empty cells, empty records, the lone-empty-field record — and for both lineterminators "\n" (what
`Table.write` passes) and "\r\n": reading back what the writer wrote returns exactly the records.
The reader is the character-level state machine of `_csv.c` fed the lines of a `newline=''` stream;
CR / LF inside quoted fields span lines.  (Induction over characters, fields, records.) -/
theorem csv_roundtrip (d : Dialect) (g : GoodDialect d) (rows : List Row)
    (hn : ∀ r ∈ rows, ∀ f ∈ r, Quotable d f) :
    csvRead d.delim (csvWrite d rows) = .ok rows :=
  csv_roundtrip_general g rows hn

/-- with the excel default lineterminator "\r\n" there is no restriction on the cells at all -/
theorem csv_roundtrip_crlf (delim : Char) (hq : delim ≠ quoteCh) (hnl : isNL delim = false) (rows : List Row) :
    csvRead delim (csvWrite ⟨delim, ['\r', '\n']⟩ rows) = .ok rows := by
  apply csv_roundtrip_general (d := ⟨delim, ['\r', '\n']⟩) ⟨Or.inr rfl, hq, hnl⟩
  intro r _ f _ c _ hc
  simp [isNL] at hc
  rcases hc with rfl | rfl <;> simp

/-- … and with "\n" every cell without a bare CR is covered (LF inside cells is quoted) -/
theorem csv_roundtrip_lf (delim : Char) (hq : delim ≠ quoteCh) (hnl : isNL delim = false) (rows : List Row)
    (hcr : ∀ r ∈ rows, ∀ f ∈ r, '\r' ∉ f) :
    csvRead delim (csvWrite ⟨delim, ['\n']⟩ rows) = .ok rows := by
  apply csv_roundtrip_general (d := ⟨delim, ['\n']⟩) ⟨Or.inl rfl, hq, hnl⟩
  intro r hr f hf c hc hn
  simp [isNL] at hn
  rcases hn with rfl | rfl
  · simp
  · exact absurd hc (hcr r hr f hf)

/- FULL STATEMENT (not proved): `csv_roundtrip_lf` without `hcr`.  It is false for the writer as CPython 3.12
   implements it (and as the model mirrors it): QUOTE_MINIMAL quotes a field only for the delimiter, the quote
   character and the characters OF THE LINETERMINATOR, so with lineterminator "\n" a cell "a\rb" is written
   unquoted and read back as two records (`csv_cr_counter`).  Cells with CR are outside the property (printable
   ASCII); `Table`'s loader additionally opens files with universal newlines, which rewrites CR. -/
theorem csv_cr_counter :
    (csvRead '\t' (csvWrite ⟨'\t', ['\n']⟩ [[['a', '\r', 'b']]])).toOption = some [[['a']], [['b']]] := by decide

example : GoodDialect ⟨'\t', ['\n']⟩ := ⟨Or.inl rfl, by decide, by decide⟩
example : GoodDialect ⟨',', ['\r', '\n']⟩ := ⟨Or.inr rfl, by decide, by decide⟩
example : ∀ r ∈ [[['a', '\t', 'b'], [], ['q', '"', 'r'], ['x', '\n', 'y']], [[]], [], [[], []]],
    ∀ f ∈ r, Quotable ⟨'\t', ['\n']⟩ f := by
  simp [Quotable, isNL]
example : csvWrite ⟨'\t', ['\n']⟩ [[['a', '\t', 'b'], [], ['q', '"', 'r'], ['x', '\n', 'y']], [[]], [], [[], []]]
    = "\"a\tb\"\t\t\"q\"\"r\"\t\"x\ny\"\n\"\"\n\n\t\n".toList := by decide
example : (csvRead '\t' "\"a\tb\"\t\t\"q\"\"r\"\t\"x\ny\"\n\"\"\n\n\t\n".toList).toOption
    = some [[['a', '\t', 'b'], [], ['q', '"', 'r'], ['x', '\n', 'y']], [[]], [], [[], []]] := by decide

/-- `Table.write` (title row, header, rows, legend row) followed by `load_delimited` returns the
header, the cell text, the title and the legend unchanged. -/
theorem table_text_roundtrip (d : Dialect) (g : GoodDialect d) (title legend : Str) (header : Row)
    (rows : List Row) (ht : Quotable d title) (hl : Quotable d legend) (hh : ∀ f ∈ header, Quotable d f)
    (hn : ∀ r ∈ rows, ∀ f ∈ r, Quotable d f) :
    loadDelimited d.delim (title ≠ []) (legend ≠ []) (tableWrite d title header rows legend)
      = .ok (header, rows, title, legend) :=
  table_text_roundtrip' g title legend header rows ht hl hh hn

example : tableWrite ⟨',', ['\n']⟩ ['T'] [['a'], ['b', ',']] [[[], ['"']]] [] = "T\na,\"b,\"\n,\"\"\"\"\n".toList := by
  decide

/-- `to_csv()` / `to_tsv()` / `to_string(format="csv"|"tsv")` (= the csv writer on header :: rows, final
newline dropped — `separator_format` since commit 4196fd381): the text reads back as header :: rows, for all
tables with at least one column, cells as in `csv_roundtrip` -/
theorem to_csv_reads_back (d : Dialect) (g : GoodDialect d) (hlt : d.lt = ['\n']) (header : Row) (rows : List Row)
    (hne : ∀ r ∈ header :: rows, r ≠ []) (hn : ∀ r ∈ header :: rows, ∀ f ∈ r, Quotable d f) :
    csvRead d.delim (toCsvText d header rows) = .ok (header :: rows) := by
  unfold toCsvText
  have hnn : header :: rows ≠ [] := by simp
  have e := List.dropLast_concat_getLast hnn
  rw [← e] at hn hne ⊢
  exact toCsv_reads_back g hlt _ _ (hne _ (by simp)) hn

example : toCsvText ⟨',', ['\n']⟩ [['x', ',', 'y']] [[['q', '"', 'r', ',', 's']], [[]]]
    = "\"x,y\"\n\"q\"\"r,s\"\n\"\"".toList := by decide

/-! ## numeric columns are restored as numbers (`cast_str_to_array`) -/

/-- `int(str(z)) == z` in the model of the loader's integer grammar -/
theorem int_text_roundtrip (z : Int) : CastStr.parseInt (CastStr.showInt z) = some z :=
  CastStr.parseInt_showInt z

/-- a column of ints written as `str(n)`, a column of floats written as `repr(x)`: the loader's decision
procedure (all cells int → ints, else all float → floats, else text) gives back exactly those numbers.
The float half is relative to the two trusted facts about float64 text (`float(repr(x)) == x`, `repr(x)` is
never an integer literal). -/
theorem load_restores_numeric_columns {F : Type} (parseFloat : CastStr.Str → Option F) (reprF : F → CastStr.Str)
    (hrt : ∀ x, parseFloat (reprF x) = some x) (hni : ∀ x, CastStr.parseInt (reprF x) = none) :
    (∀ ns : List Int, ns ≠ [] → CastStr.castColumn parseFloat (ns.map CastStr.showInt) = .ints ns) ∧
    (∀ xs : List F, xs ≠ [] → CastStr.castColumn parseFloat (xs.map reprF) = .floats xs) :=
  ⟨fun ns h => CastStr.castColumn_ints parseFloat ns h,
   fun xs h => CastStr.castColumn_floats parseFloat reprF hrt hni xs h⟩

/-- … and a column with a cell that is neither keeps its text (up to the `eval()` pass, the open finding) -/
theorem load_keeps_text_columns {F : Type} (parseFloat : CastStr.Str → Option F) (cells : List CastStr.Str)
    (h1 : cells.mapM CastStr.parseInt = none) (h2 : cells.mapM parseFloat = none) :
    CastStr.castColumn parseFloat cells = .text cells :=
  CastStr.castColumn_text parseFloat cells h1 h2

example : CastStr.parseInt (CastStr.showInt (-1099511627776)) = some (-1099511627776) := int_text_roundtrip _
example : CastStr.parseInt " 1_0 ".toList = some 10 ∧ CastStr.parseInt "1.5".toList = none ∧
    CastStr.parseInt "01".toList = some 1 := by decide

/-! ## joins -/

/-- **The hash join is the nested-loop join**, for all row lists, including duplicate keys on either
side, in the nested loop's order: selecting rows by the two index lists the dictionary-based
algorithm of `inner_join` produces gives `[out r s for r in R for s in S if key r == key s]`. -/
theorem hash_join_eq_nested_loop {ρ σ τ κ : Type} [DecidableEq κ] (R : List ρ) (S : List σ)
    (kr : ρ → κ) (ks : σ → κ) (out : ρ → σ → τ) (dr : ρ) (ds : σ) :
    List.zipWith (fun i j => out (R.getD i dr) (S.getD j ds))
        (hashJoinSel (R.map kr) (S.map ks)).1 (hashJoinSel (R.map kr) (S.map ks)).2
      = R.flatMap (fun r => S.filterMap (fun s => if kr r = ks s then some (out r s) else none)) :=
  hashJoin_eq_nestedLoop' R S kr ks out dr ds

example : hashJoinSel ["a", "b", "a"] ["a", "c", "a"] = ([0, 0, 2, 2], [0, 2, 0, 2]) := by decide

/-- `inner_join` on the column store gives the rows of the nested-loop join of the two row lists
(key columns `kS`/`kO`, kept columns of other `keep`; python `==` on keys through `key`). -/
theorem inner_join_rows_eq {α κ : Type} [DecidableEq κ] (dflt : α) (key : α → κ) (kS kO keep : List Nat)
    (self other : List (List α)) (hs : self ≠ []) (hwS : WF self) (hwO : WF other)
    (hkS : kS ≠ []) (hkO : kO ≠ [])
    (hbS : ∀ j ∈ kS, j < self.length) (hbO : ∀ j ∈ kO, j < other.length) :
    rowsOf dflt (innerJoinCols dflt key kS kO keep self other)
      = TableRows.innerJoin dflt key kS kO keep (rowsOf dflt self) (rowsOf dflt other) :=
  innerJoinCols_rows dflt key kS kO keep self other hs hwS hwO hkS hkO hbS hbO

example : rowsOf 0 (innerJoinCols 0 id [0] [0] [1] [[1, 2, 1], [10, 20, 30]] [[1, 1, 3], [7, 8, 9]])
    = [[1, 10, 7], [1, 10, 8], [1, 30, 7], [1, 30, 8]] := by decide

/-- `cross_join` gives `[r + s for r in R for s in S]` (itertools.product order). -/
theorem cross_join_is_product {α : Type} (dflt : α) (self other : List (List α)) (hs : self ≠ []) :
    rowsOf dflt (crossJoinCols dflt self other) = TableRows.crossJoin (rowsOf dflt self) (rowsOf dflt other) :=
  crossJoinCols_rows dflt self other hs

example : rowsOf 0 (crossJoinCols 0 [[1, 2]] [[7, 8, 9]]) = [[1, 7], [1, 8], [1, 9], [2, 7], [2, 8], [2, 9]] := by
  decide

/-! ## sorting -/

/-- `sorted`: for every transitive, total record comparison `le` (numpy's `argsort` on the record
array; any sorting permutation — the model uses a merge sort), the result's rows are a permutation
of the table's rows and are in order under `le` on the (transformed) key records. -/
theorem sorted_is_sorted_perm {α κ : Type} (dflt : α) (le : κ → κ → Bool)
    (ht : ∀ a b c, le a b = true → le b c = true → le a c = true)
    (htot : ∀ a b, (le a b || le b a) = true)
    (keyOf : List α → κ) (cols : List (List α)) :
    (rowsOf dflt (sortedCols dflt le keyOf cols)).Perm (rowsOf dflt cols) ∧
    TableRows.SortedBy le keyOf (rowsOf dflt (sortedCols dflt le keyOf cols)) :=
  sortedCols_perm_sorted dflt le ht htot keyOf cols

/-- … in particular for the field-by-field comparison of key records the model of `Table.sorted` uses. -/
theorem sorted_lex_is_sorted_perm (keyOf : List Cell → List SKey) (cols : List (List Cell)) :
    (rowsOf dfl (sortedCols dfl lexLe keyOf cols)).Perm (rowsOf dfl cols) ∧
    TableRows.SortedBy lexLe keyOf (rowsOf dfl (sortedCols dfl lexLe keyOf cols)) :=
  sortedCols_perm_sorted dfl lexLe lexLe_trans lexLe_total keyOf cols

example : lexLe [.num 1, .str [97]] [.num 1, .str [97, 98]] = true := by decide

/-- `_reverse_num` (`x * -1`) reverses the order of numbers exactly. -/
theorem reverse_num_antitone (a b : Rat) : a ≤ b ↔ reverseNum b ≤ reverseNum a :=
  reverseNum_antitone' a b

example : reverseNum 2 = -2 := by rw [reverseNum, Rat.mul_neg, Rat.mul_one]

/-- Reversal of a non-numeric key column (str, bool, …) by negated dense ranks
(`numpy.unique(col, return_inverse=True)`, the code since the repair of `_reverse_str`): for ALL
values `x`, `y` occurring in the column — including strings one of which is a prefix of the other —
the transformed fields compare in exactly the opposite order.  (This is the former FULL STATEMENT
`reverse_str_antitone`, which was false for the character-translation trick.) -/
theorem reverse_str_antitone (D : List SKey) (x y : SKey) (hx : x ∈ D) (hy : y ∈ D) :
    SKey.le (.num (-((denseRank SKey.le D x : Nat) : Rat))) (.num (-((denseRank SKey.le D y : Nat) : Rat)))
      = SKey.le y x :=
  reverseRank_antitone' D x y hx hy

-- 'a' < 'ab' < 'b' get ranks 0, 1, 2 (the former counterexample)
example : [SKey.str [97], .str [97, 98], .str [98]].map
    (denseRank SKey.le [SKey.str [98], .str [97], .str [97, 98]]) = [0, 1, 2] := by decide

/-- `sorted(reverse=<one non-numeric column>)` is a descending sort of the rows, for ALL column stores
(no prefix-freeness hypothesis any more). -/
theorem sorted_reverse_descending {α : Type} (dflt : α) (keyOf : List α → SKey) (cols : List (List α)) :
    let D := setOfList [] ((rowsOf dflt cols).map keyOf)
    (rowsOf dflt (sortedCols dflt lexLe
        (fun r => [SKey.num (-((denseRank SKey.le D (keyOf r) : Nat) : Rat))]) cols)).Pairwise
      (fun r s => SKey.le (keyOf s) (keyOf r) = true) :=
  sorted_reverse_descending' dflt keyOf cols

example : SKey.le (.str [97]) (.str [97, 98]) = true ∧ SKey.le (.bool false) (.bool true) = true := by decide

/-! ## row-wise operations -/

/-- `filtered`: rows kept by the callback on the selected fields, in order. -/
theorem filtered_eq {α : Type} (dflt : α) (p : List α → Bool) (sel : List Nat) (cols : List (List α)) :
    rowsOf dflt (filteredCols dflt p sel cols) = TableRows.filtered dflt p sel (rowsOf dflt cols) :=
  filteredCols_rows dflt p sel cols

example : rowsOf 0 (filteredCols 0 (fun r => decide (r.getD 0 0 > 1)) [1] [[1, 2, 3], [5, 0, 7]]) = [[1, 5], [3, 7]] := by
  decide

/-- `count_unique`: the count stored for a key tuple is the number of rows projecting onto it. -/
theorem count_unique_eq {α κ : Type} [DecidableEq κ] (dflt : α) (key : α → κ) (sel : List Nat)
    (cols : List (List α)) (hw : WF cols) (hs : sel ≠ []) (hb : ∀ j ∈ sel, j < cols.length) (k : List κ) :
    countLookup k (countUniqueCols dflt key sel cols) = TableRows.countOf dflt key sel (rowsOf dflt cols) k := by
  unfold countUniqueCols TableRows.countOf
  rw [countLookup_countAll, rowsOf_selectCols dflt sel cols hw hs hb]
  simp only [countLookup, TableRows.select, List.map_map, Nat.zero_add]
  rfl

example : countUniqueCols 0 id [0] [[1, 2, 1], [5, 5, 5]] = [([1], 2), ([2], 1)] := by decide

/-- `distinct_values`: exactly the key tuples that occur among the rows, each once. -/
theorem distinct_eq {α κ : Type} [DecidableEq κ] (dflt : α) (key : α → κ) (sel : List Nat)
    (cols : List (List α)) (hw : WF cols) (hs : sel ≠ []) (hb : ∀ j ∈ sel, j < cols.length) (k : List κ) :
    (k ∈ distinctCols dflt key sel cols ↔ TableRows.isDistinctValue dflt key sel (rowsOf dflt cols) k) ∧
    (distinctCols dflt key sel cols).Nodup := by
  unfold distinctCols TableRows.isDistinctValue
  constructor
  · rw [mem_setOfList, rowsOf_selectCols dflt sel cols hw hs hb]
    simp only [TableRows.select, List.map_map, List.not_mem_nil, false_or]
    rfl
  · exact nodup_setOfList _ _ List.nodup_nil

example : distinctCols 0 id [0] [[1, 2, 1], [5, 5, 5]] = [[1], [2]] := by decide

/-- column selection (`get_columns`, `table[:, columns]`): every row restricted to the positions. -/
theorem select_columns_eq {α : Type} (dflt : α) (sel : List Nat) (cols : List (List α)) (hw : WF cols)
    (hs : sel ≠ []) (hb : ∀ j ∈ sel, j < cols.length) :
    rowsOf dflt (selectCols sel cols) = TableRows.select dflt sel (rowsOf dflt cols) :=
  rowsOf_selectCols dflt sel cols hw hs hb

example : WF [[1, 2], [3, 4]] := by intro c hc; simp at hc; rcases hc with rfl | rfl <;> rfl

/-- `with_new_column`: every row gets the callback's value on its selected fields appended. -/
theorem with_new_column_eq {α : Type} (dflt : α) (f : List α → α) (sel : List Nat) (cols : List (List α))
    (h : cols ≠ []) :
    rowsOf dflt (withNewColumnCols dflt f sel cols) = TableRows.withNewColumn dflt f sel (rowsOf dflt cols) :=
  withNewColumnCols_rows dflt f sel cols h

example : rowsOf 0 (withNewColumnCols 0 List.sum [0, 1] [[1, 2], [3, 4]]) = [[1, 3, 4], [2, 4, 6]] := by decide

/-- `appended` (any number of tables whose columns are aligned with `self`'s): the rows are the
concatenation of the tables' rows, and the result is again well formed. -/
theorem appended_eq {α : Type} (dflt : α) (ts : List (List (List α))) (L : Nat)
    (hw : ∀ t ∈ ts, WF t) (hL : ∀ t ∈ ts, t.length = L) (hne : ts ≠ []) :
    rowsOf dflt (appendCols ts) = TableRows.appended (ts.map (rowsOf dflt)) ∧ WF (appendCols ts) :=
  ⟨(appendCols_rows dflt ts L hw hL hne).1, (appendCols_rows dflt ts L hw hL hne).2.1⟩

example : rowsOf 0 (appendCols [[[1, 2], [3, 4]], [[5], [6]], [[], []]]) = [[1, 3], [2, 4], [5, 6]] := by decide

/-- transposing a (well-formed, non-empty) column store twice gives it back. -/
theorem transposed_involutive {α : Type} (dflt : α) (cols : List (List α)) (hw : WF cols) (hn : nrows cols ≠ 0) :
    transposeCols dflt (transposeCols dflt cols) = cols :=
  transposeCols_involutive dflt cols hw hn

example : transposeCols 0 [[1, 2, 3], [4, 5, 6]] = [[1, 4], [2, 5], [3, 6]] := by decide

/-! ## additions of the audit -/

/-- **Multi-key sorting with mixed directions** (`sorted(columns=[…], reverse=[…])`): let the key record of a
row be its key fields `fields r`, field `i` passed through transform `T_i` — the identity for an ascending column,
the negated dense rank among the column's distinct values for a reversed non-numeric column, `x * -1` for a reversed
numeric column (each is `FieldOK` for its direction: `fieldOK_asc`, `fieldOK_descRank`, `fieldOK_descNum`).  Then for
ALL column stores the result is a permutation of the rows in which every earlier row precedes every later row in the
order the caller asked for: the FIRST differing key field decides, ascending or descending as requested
(`mixedLe`).  Nothing is claimed about the relative order of rows with equal keys (numpy's argsort on records is
not stable). -/
theorem sorted_mixed_keys_order {α : Type} (dflt : α) (sp : List (Bool × (SKey → SKey)))
    (fields : List α → List SKey) (cols : List (List α))
    (hok : ∀ r ∈ rowsOf dflt cols, ∀ s ∈ rowsOf dflt cols, AllOK sp (fields r) (fields s)) :
    (rowsOf dflt (sortedCols dflt lexLe (fun r => keyT sp (fields r)) cols)).Perm (rowsOf dflt cols) ∧
    (rowsOf dflt (sortedCols dflt lexLe (fun r => keyT sp (fields r)) cols)).Pairwise
      (fun r s => mixedLe (sp.map (·.1)) (fields r) (fields s) = true) := by
  obtain ⟨hperm, hsorted⟩ := sortedCols_perm_sorted dflt lexLe lexLe_trans lexLe_total
    (fun r => keyT sp (fields r)) cols
  refine ⟨hperm, ?_⟩
  unfold TableRows.SortedBy at hsorted
  refine hsorted.imp_of_mem ?_
  intro r s hr hs h
  rw [← lexLe_keyT sp (fields r) (fields s) (hok r ((hperm.mem_iff).1 hr) s ((hperm.mem_iff).1 hs))]
  exact h

-- first key ascending (numbers), second key descending by rank over {'a', 'ab'}: the hypothesis is satisfiable and
-- (1, 'ab') comes before (1, 'a')
example : AllOK [(false, id), (true, fun k => .num (-((denseRank SKey.le [.str [97], .str [97, 98]] k : Nat) : Rat)))]
    [.num 1, .str [97, 98]] [.num 1, .str [97]] :=
  ⟨fieldOK_asc _ _, fieldOK_descRank _ _ _ (by decide) (by decide), trivial⟩
example : mixedLe [false, true] [.num 1, .str [97, 98]] [.num 1, .str [97]] = true ∧
    mixedLe [false, true] [.num 1, .str [97]] [.num 1, .str [97, 98]] = false ∧
    mixedLe [false, true] [.num 0, .str [97]] [.num 1, .str [97, 98]] = true := by decide

/-- `transposed` (data part): the rows of the transposed store are `list(zip(*rows))` of the original rows. -/
theorem transposed_rows_are_zip {α : Type} (dflt : α) (cols : List (List α)) (hw : WF cols) (hn : nrows cols ≠ 0) :
    rowsOf dflt (transposeCols dflt cols) = TableRows.transpose dflt cols.length (rowsOf dflt cols) :=
  transposeCols_rows dflt cols hw hn

example : TableRows.transpose 0 2 (rowsOf 0 [[1, 2, 3], [4, 5, 6]]) = [[1, 2, 3], [4, 5, 6]] ∧
    rowsOf 0 (transposeCols 0 [[1, 2, 3], [4, 5, 6]]) = [[1, 2, 3], [4, 5, 6]] := by decide

/-! ## the NAMED layer (what the driver runs against the real `Table`)

`Table.*` below are the functions with column names, `columns=` resolution, `right_` prefix, title column,
index_name.  `Table.WFT`: one column per header name, equally long columns, the index_name names a column.
`IndexOK t names`: the index column is absent from `names` or is its first entry — under this hypothesis
`table[:, columns]` returns the columns in the requested order; otherwise the code (and the model) puts the
index column first and the callers mis-address the cells: `index_column_first_counter`, the open finding
C20-index-column-moved-first-in-subtables. -/

/-- `columns=` resolution: success iff every name is a column; the positions found carry those names -/
theorem named_resolution (t : Table) (names : List String) (sel : List Nat) (h : t.idxsOf names = .ok sel) :
    sel.map t.name = names ∧ (∀ j ∈ sel, j < t.header.length) ∧ sel.length = names.length :=
  idxsOf_ok t names sel h

example : (cexT.idxsOf ["a", "k"]).toOption = some [1, 0] := by decide

theorem named_filtered_eq (t : Table) (p : List Cell → Bool) (names : List String) (r : Table)
    (hi : IndexOK t names) (h : t.filtered p names = .ok r) :
    (nrows t.cols = 0 ∧ r = t) ∨
    ∃ sel, t.idxsOf names = .ok sel ∧ r.header = t.header ∧ r.index = t.index ∧
      r.rows = TableRows.filtered dfl p sel t.rows :=
  named_filtered t p names r hi h

theorem named_count_eq (t : Table) (p : List Cell → Bool) (names : List String) (n : Nat)
    (hi : IndexOK t names) (h : t.count p names = .ok n) :
    (nrows t.cols = 0 ∧ n = 0) ∨
    ∃ sel, t.idxsOf names = .ok sel ∧ n = (TableRows.filtered dfl p sel t.rows).length :=
  named_count t p names n hi h

theorem named_row_indices_eq (t : Table) (p : List Cell → Bool) (names : List String) (negate : Bool)
    (m : List Bool) (hi : IndexOK t names) (h : t.rowIndices p names negate = .ok m) :
    ∃ sel, t.idxsOf names = .ok sel ∧ m = t.rows.map (fun row => p (TableRows.proj dfl sel row) != negate) :=
  named_row_indices t p names negate m hi h

/-- the witness of the open finding on the model: table (k*, a) with index k, `filtered(r[0]=='y', columns=[a, k])`:
the row oracle keeps row (q, y), the code (and the model) keeps nothing because the callback sees (k, a) -/
theorem index_column_first_counter :
    ¬ IndexOK cexT ["a", "k"] ∧
    (cexT.filtered cexP ["a", "k"]).toOption.map Table.rows = some [] ∧
    (cexT.idxsOf ["a", "k"]).toOption = some [1, 0] ∧
    TableRows.filtered dfl cexP [1, 0] cexT.rows = [[.str "q", .str "y"]] := by
  refine ⟨?_, by decide, by decide, by decide⟩
  intro h
  simp [IndexOK, cexT] at h

example : IndexOK cexT ["k", "a"] := Or.inr ⟨["a"], rfl, by simp⟩

theorem named_distinct_values_eq (t : Table) (names : List String) (res : List (List Key)) (hw : t.WFT)
    (hne : names ≠ []) (hi : IndexOK t names) (h : t.distinctValues names = .ok res) :
    ∃ sel, t.idxsOf names = .ok sel ∧ res.Nodup ∧
      ∀ k, k ∈ res ↔ TableRows.isDistinctValue dfl Cell.key sel t.rows k :=
  named_distinct_values t names res hw hne hi h

theorem named_with_new_column_eq (t : Table) (newName : String) (f : List Cell → Cell) (names : List String)
    (r : Table) (hw : t.WFT) (hc : t.cols ≠ []) (hnew : newName ∉ t.header) (hi : IndexOK t names)
    (h : t.withNewColumn newName f names = .ok r) :
    ∃ sel, t.idxsOf names = .ok sel ∧ r.header = t.header ++ [newName] ∧ r.index = t.index ∧
      r.rows = TableRows.withNewColumn dfl f sel t.rows :=
  named_with_new_column t newName f names r hw hc hnew hi h

/-- column selection: the index column is shown FIRST if selected (`subNames`, stated explicitly) -/
theorem named_take_cols_eq (t : Table) (names : List String) (r : Table) (hw : t.WFT) (hne : names ≠ [])
    (h0 : nrows t.cols ≠ 0) (h : t.takeCols names = .ok r) :
    ∃ sel, t.idxsOf (t.subNames names) = .ok sel ∧ r.header = t.subNames names ∧
      r.rows = TableRows.select dfl sel t.rows :=
  named_take_cols t names r hw hne h0 h

example : cexT.subNames ["a", "k"] = ["k", "a"] := by decide

/-- `inner_join` / `joined` on named tables: header = self's header ++ prefixed non-key columns of other, rows =
nested-loop join of the row lists on the named key columns, index_name = self's or none -/
theorem named_inner_join_eq (t u : Table) (ks ko : List String) (pre : String) (r : Table)
    (hwt : t.WFT) (hwu : u.WFT) (hc : t.cols ≠ []) (hks : ks ≠ []) (hko : ko ≠ [])
    (hit : IndexOK t ks) (hiu : IndexOK u ko) (h : t.innerJoin u ks ko pre = .ok r) :
    ∃ kS kO, t.idxsOf ks = .ok kS ∧ u.idxsOf ko = .ok kO ∧
      r.header = t.header ++ (u.header.filter (fun c => !ko.contains c)).map (pre ++ ·) ∧
      r.rows = TableRows.innerJoin dfl Cell.key kS kO
        ((List.range u.header.length).filter fun j => !(ko.contains (u.name j))) t.rows u.rows ∧
      (r.index = none ∨ r.index = t.index) :=
  named_inner_join t u ks ko pre r hwt hwu hc hks hko hit hiu h

/-- `joined(other)` without key columns joins BY NAME on the shared columns (same list for both tables) -/
theorem natural_join_keys_by_name (t u : Table) :
    (t.naturalKeys u).1 = (t.naturalKeys u).2 ∧
    ∀ c, c ∈ (t.naturalKeys u).1 ↔ c ∈ t.header ∧ c ∈ u.header :=
  natural_keys_by_name t u

example : ({ header := ["x", "y"], cols := [[], []] } : Table).naturalKeys { header := ["y", "w", "x"], cols := [[], [], []] }
    = (["x", "y"], ["x", "y"]) := by decide

/-- `appended` on named tables, with and without the title column; columns matched by name -/
theorem named_appended_eq (t : Table) (newCol : Option String) (others : List Table) (r : Table)
    (hw : ∀ u ∈ t :: others, u.WFT) (hh : t.header ≠ []) (h : t.appended newCol others = .ok r) :
    ∃ Rs : List (List (List Cell)),
      Rs.length = (t :: others).length ∧
      (∀ i (h1 : i < (t :: others).length) (h2 : i < Rs.length), ∃ sel,
        ((t :: others)[i]).idxsOf t.header = .ok sel ∧ Rs[i] = TableRows.select dfl sel ((t :: others)[i]).rows) ∧
      (r.index = none ∨ r.index = t.index) ∧
      match newCol with
      | none => r.header = t.header ∧ r.rows = TableRows.appended Rs
      | some n => r.header = n :: t.header ∧
          r.rows = TableRows.appendedWithTitle ((t :: others).map fun u => Cell.str u.title) Rs :=
  named_appended t newCol others r hw hh h

/-- `sorted` on named tables: column-list logic, names resolved, the model's key record is `keyT` of the
requested transforms (`sortKeyOf_eq_keyT`), hence: same header and index_name, a permutation of the rows,
ordered by the requested keys in the requested directions -/
theorem named_sorted_order (t : Table) (columns : Option (List String)) (reverse : List String) (r : Table)
    (hw : t.WFT) (h2 : 2 ≤ nrows t.cols) (h : t.sorted columns reverse = .ok r) :
    ∃ sel, t.idxsOf (sortColumns t.header columns reverse) = .ok sel ∧ r.header = t.header ∧ r.index = t.index ∧
      r.rows.Perm t.rows ∧
      r.rows.Pairwise (fun a b =>
        mixedLe ((sortColumns t.header columns reverse).map (reverse.contains ·)) (rowFields sel a) (rowFields sel b) = true) :=
  named_sorted t columns reverse r hw h2 h

example : ({ header := ["s", "n"], cols := [[.str "a", .str "ab", .str "b"], [.int 1, .int 2, .int 3]] } : Table).WFT :=
  ⟨rfl, by intro c hc; simp at hc; rcases hc with rfl | rfl <;> rfl, by simp⟩
example : sortColumns ["s", "n", "x"] (some ["n"]) ["s"] = ["n", "s"] := by decide
example : mixedLe [false, true] [.num 1, .str [97, 98]] [.num 1, .str [97]] = true := by decide

/-- index_name rule of `inner_join` / `appended` results: they never fail on first use -/
theorem result_index_is_usable (idx : Option String) (header : List String) (cols : List (List Cell)) (title : String)
    (hw : WF cols) (hn : cols.length = header.length) :
    ∃ r, Table.observe { header := header, cols := cols, title := title,
                         index := keepIndexIfUnique idx header cols } = .ok r :=
  observe_keepIndex_ok idx header cols title hw hn

example : keepIndexIfUnique (some "k") ["k"] [[.str "a", .str "a"]] = none := by decide

/-! ## argument resolution, TRANSLATED from the source text (`Gen/C20Args.lean`, rewritten from cogent3's current
`util/table.py` by `translator/c20_args2lean.py` on every run)

`TableArgs.PV` = None | one name | list | tuple of names.  The generated definitions are the statements of
`Table.sorted` / `Table.inner_join` up to the point where the key columns are fixed, and the whole of `Table.joined`. -/
section Args
open CogentModel.TableArgs CogentModel.Gen

/-- `Table.sorted`: for ALL headers, keyword names and `columns` / `reverse` arguments (None, a name, a list, a tuple)
the translated statements compute the hand model `sortArgs` (TypeError for the keyword `reversed`) -/
theorem sorted_args_translated (header kwargs : List String) (columns reverse : PV) :
    C20Args.sortedColumns header kwargs columns reverse =
      if kwargs.contains "reversed" then .error "TypeError"
      else .ok (PV.list (sortArgs header columns reverse).1, (sortArgs header columns reverse).2) :=
  gen_sortedColumns_eq header kwargs columns reverse

example : C20Args.sortedColumns ["s", "n", "x"] [] (.str "n") (.tup ["s"]) = .ok (.list ["n", "s"], .tup ["s"]) := by rfl
example : C20Args.sortedColumns ["s", "n", "x"] ["reversed"] .none .none = .error "TypeError" := by rfl

/-- … and `sortArgs` is the column-list logic `sortColumns` of the table model (the one `named_sorted_order` is
about) on the normalised arguments, for every `reverse` that names no column twice, except `columns=None` with the
empty tuple -/
theorem sort_args_are_sort_columns (header : List String) (columns reverse : PV)
    (hn : ((reverse.names?).getD []).Nodup) (ht : ¬ (columns = .none ∧ reverse = .tup [])) :
    (sortArgs header columns reverse).1 = sortColumns header columns.names? ((reverse.names?).getD []) :=
  sortArgs_eq_sortColumns header columns reverse hn ht

example : ((PV.tup ["s", "n"]).names?.getD []).Nodup ∧ ¬ (PV.str "n" = .none ∧ PV.tup ["s", "n"] = .tup []) := by decide

/-- the excluded corner on the code: `sorted(reverse=())` ends with NO key column (`() != []`), where `reverse=[]`
sorts by all columns; a repeated name in `reverse` is appended once by the loop (twice by `sortColumns`) -/
theorem sort_args_empty_tuple_counter :
    (sortArgs ["a", "b"] .none (.tup [])).1 = [] ∧ sortColumns ["a", "b"] none [] = ["a", "b"] ∧
    (sortArgs ["a", "b"] (.list ["b"]) (.list ["a", "a"])).1 = ["b", "a"] ∧
    sortColumns ["a", "b"] (some ["b"]) ["a", "a"] = ["b", "a", "a"] := by decide

/-- `Table.inner_join`: for ALL argument forms the translated statements resolve the key columns and `output_mask`
exactly as the hand model `joinKeysH` (compared on the names; same exception) -/
theorem join_keys_translated (sc oc : List String) (si oi : Option String) (cs co : PV) (ui : Bool) :
    (C20Args.joinKeys sc oc si oi cs co ui).map (fun r => (r.1.iter, r.2.1.iter, r.2.2))
      = joinKeysH sc oc si oi cs co ui :=
  gen_joinKeys_eq sc oc si oi cs co ui

example : C20Args.joinKeys ["k", "a"] ["b", "k"] none none (.str "k") .none true
    = .ok (.list ["k"], .list ["k"], ["b"]) := by rfl

/-- what `joinKeysH` decides, case by case: (1) no columns, `use_index=False` (what `joined` passes): the natural
join keys `naturalKeys` of the table model — the shared names in `self`'s order, for both tables; (2) no columns,
`use_index=True`: the two index columns; (3) only one side given: the same labels for both tables; (4) both given:
as given, RuntimeError when the dimensions differ.  In every case `output_mask` = the columns of other that are not
key columns. -/
theorem join_keys_cases (sc oc : List String) (si oi : Option String) (ui : Bool) :
    (joinKeysH sc oc si oi .none .none false
        = .ok ((Table.naturalKeys { header := sc, cols := [] } { header := oc, cols := [] }).1,
               (Table.naturalKeys { header := sc, cols := [] } { header := oc, cols := [] }).2,
               oc.filter fun c => !(sc.filter (oc.contains ·)).contains c)) ∧
    (∀ a b, a ≠ "" → b ≠ "" →
      joinKeysH sc oc (some a) (some b) .none .none true = .ok ([a], [b], oc.filter fun c => !([b] : List String).contains c)) ∧
    (si = none ∨ oi = none → joinKeysH sc oc si oi .none .none true = .error "ValueError") ∧
    (∀ co o, co.names? = some o →
      joinKeysH sc oc si oi .none co ui = .ok (o, o, oc.filter fun c => !o.contains c)) ∧
    (∀ cs s, cs.names? = some s → s ≠ [] →
      joinKeysH sc oc si oi cs .none ui = .ok (s, s, oc.filter fun c => !s.contains c)) ∧
    (∀ cs co s o, cs.names? = some s → co.names? = some o →
      joinKeysH sc oc si oi cs co ui =
        if s.length = o.length then .ok (s, o, oc.filter fun c => !o.contains c) else .error "RuntimeError") := by
  refine ⟨?_, ?_, ?_, ?_, ?_, ?_⟩
  · simp [joinKeysH, PV.names?, Table.naturalKeys]
  · intro a b ha hb; simp [joinKeysH, PV.names?, ha, hb]
  · intro h
    cases si <;> cases oi <;> simp_all [joinKeysH, PV.names?]
  · intro co o h
    have e : (PV.none).names? = none := rfl
    simp [joinKeysH, h, e]
  · intro cs s h hs
    have e : (PV.none).names? = none := rfl
    simp [joinKeysH, h, e, hs]
  · intro cs co s o h1 h2; simp only [joinKeysH, h1, h2]; split <;> simp_all

example : (PV.tup ["k", "n"]).names? = some ["k", "n"] ∧ (PV.str "k").names? = some ["k"] := by decide

/-- the asymmetry of the code, mirrored: an EMPTY `columns_self` alone raises TypeError (`len(None)`), an empty
`columns_other` alone joins on the empty key (every row of self with every row of other) -/
theorem join_keys_empty_side_counter :
    joinKeysH ["a"] ["b"] none none (.list []) .none false = .error "TypeError" ∧
    joinKeysH ["a"] ["b"] none none .none (.list []) false = .ok ([], [], ["b"]) := ⟨by rfl, by rfl⟩

/-- `Table.joined` forwards to `inner_join(use_index=False)` with its columns and prefix, or — `inner_join=False`
— to `cross_join` WITHOUT the prefix, AssertionError if columns were given; translated = hand model -/
theorem joined_call_translated (cs co : PV) (ij : Bool) (p : String) :
    C20Args.joinedCall cs co ij p = joinedCallH cs co ij p :=
  gen_joinedCall_eq cs co ij p

example : C20Args.joinedCall .none .none false "x_" = .ok { name := "cross_join", pos := [.other], kw := [("**", .kwargs)] } := by
  rfl

end Args

/-! ## the row logic of `load_delimited`, TRANSLATED from the current source of parse/table.py -/
section Load
open CogentModel.TableLoad CogentModel.Gen

/-- `load_delimited`'s handling of the records the csv reader yields — `limit` (+1 for the header line), the title
line (`next(reader)`, StopIteration on an empty file), the reading loop with its `break`, `rows.pop(0)` for the
header, `rows.pop(-1)` for the legend — as generated from the source text equals the hand model, for ALL record
lists and ALL arguments (`header`, `with_title`, `with_legend`, `limit` incl. None, 0 and negative values). -/
theorem load_delimited_translated (recs : List Row) (header withTitle withLegend : Bool) (limit : Option Int) :
    C20Load.loadDelimitedRows recs header withTitle withLegend limit
      = loadRowsH recs header withTitle withLegend limit :=
  gen_loadDelimitedRows_eq recs header withTitle withLegend limit

example : C20Load.loadDelimitedRows [["T".toList], ["a".toList, "b".toList], ["1".toList, "2".toList], ["3".toList, "4".toList]]
    true true false (some 1) = .ok (some ["a".toList, "b".toList], [["1".toList, "2".toList]], "T".toList, []) := by rfl

/-- the model used by `table_text_roundtrip` (`header=True`, no limit) is the csv reader followed by the translated
row logic -/
theorem load_delimited_default_is_translated (delim : Char) (wt wl : Bool) (text : Str) :
    (loadDelimited delim wt wl text).map (fun r => ((some r.1 : Option Row), r.2))
      = (csvRead delim text).bind fun recs => C20Load.loadDelimitedRows recs true wt wl none := by
  simp only [load_delimited_translated]
  exact loadDelimited_eq_loadRowsH delim wt wl text

/-- `limit`: with a header line and without a legend line the loader returns the header and exactly the FIRST
`limit` data rows (all of them when there are fewer), for every `limit >= 0`, with and without a title line -/
theorem load_limit_takes_first_rows (title : Option Row) (hdr : Row) (rows : List Row) (l : Int) (hl : 0 ≤ l) :
    C20Load.loadDelimitedRows (title.toList ++ hdr :: rows) true title.isSome false (some l)
      = .ok (some hdr, rows.take l.toNat, (title.getD []).flatten, []) := by
  rw [load_delimited_translated]
  have e : (max 1 (l + 1)).toNat = l.toNat + 1 := by omega
  cases title <;> simp [loadRowsH, keepCount, takeOpt, e]

example : C20Load.loadDelimitedRows [["h".toList], ["1".toList], ["2".toList], ["3".toList]] true false false (some 2)
    = .ok (some ["h".toList], [["1".toList], ["2".toList]], [], []) := by rfl

/-- `header=False`: nothing is taken off, the header is None -/
theorem load_without_header (recs : List Row) :
    C20Load.loadDelimitedRows recs false false false none = .ok (none, recs, [], []) := by
  rw [load_delimited_translated]; simp [loadRowsH, keepCount, takeOpt]

/-- `Table.write` then `load_delimited(limit=l)`: header, title and the first `l` rows of cell text come back -/
theorem table_text_roundtrip_limit (d : Dialect) (g : GoodDialect d) (title : Str) (header : Row)
    (rows : List Row) (l : Int) (hl : 0 ≤ l) (ht : Quotable d title) (hh : ∀ f ∈ header, Quotable d f)
    (hn : ∀ r ∈ rows, ∀ f ∈ r, Quotable d f) :
    ((csvRead d.delim (tableWrite d title header rows [])).bind fun recs =>
        C20Load.loadDelimitedRows recs true (title ≠ []) false (some l))
      = .ok (some header, rows.take l.toNat, title, []) := by
  unfold tableWrite
  rw [csv_roundtrip_general g]
  · by_cases h1 : title = []
    · have := load_limit_takes_first_rows none header rows l hl
      simpa [h1, Except.bind] using this
    · have := load_limit_takes_first_rows (some [title]) header rows l hl
      simpa [h1, Except.bind] using this
  · intro r hr f hf
    simp only [List.mem_append, List.mem_cons] at hr
    rcases hr with (hr | rfl | hr) | hr
    · split at hr
      · simp at hr
      · simp at hr; subst hr; simp at hf; subst hf; exact ht
    · exact hh f hf
    · exact hn r hr f hf
    · simp at hr

/-- mirrored, not judged: the loop tests the limit AFTER appending, so `header=False, limit=0` still returns one
row (and a negative limit with a header returns the header and no rows) -/
theorem load_limit_zero_counter :
    loadRowsH [["1".toList], ["2".toList]] false false false (some 0) = .ok (none, [["1".toList]], [], []) ∧
    loadRowsH [["h".toList], ["2".toList]] true false false (some (-5)) = .ok (some ["h".toList], [], [], []) := by
  exact ⟨by rfl, by rfl⟩

end Load
/-! ## `transposed` on the named layer -/

/-- `Table.transposed(new_column_name, select_as_header)` on the NAMED layer (what the driver runs against the real
Table), index column absent or selected as the header column: the result's header is the new column name followed
by `str()` of the selected column's cells in row order; its first column holds the other column names in header
order; the column made from a row holds that row's other cells in the same order. -/
theorem named_transposed_eq (t : Table) (newName : String) (selectAs : Option String) (r : Table) (hw : t.WFT)
    (hi : IndexOK t (selectAs.getD (t.header.headD "") :: t.header.filter (· ≠ selectAs.getD (t.header.headD ""))))
    (h : t.transposed newName selectAs = .ok r) :
    ∃ s sel names, t.name s = selectAs.getD (t.header.headD "") ∧
      sel.map t.name = t.header.filter (· ≠ selectAs.getD (t.header.headD "")) ∧
      t.rows.mapM (fun row => match (row.getD s dfl).pyStr with | some x => pure x | none => throw "unmodelled") = Except.ok names ∧
      r.header = newName :: names ∧
      r.cols = (sel.map fun j => Cell.str (t.name j)) :: t.rows.map (TableOps.proj dfl sel) :=
  named_transposed_indexOK t newName selectAs r hw hi h

/-- the same without the index hypothesis: the positions are those of `subNames` (index column first), which is
where the open finding C20-index-column-moved-first-in-subtables shows in `transposed` -/
theorem named_transposed_any_index (t : Table) (newName : String) (selectAs : Option String) (r : Table) (hw : t.WFT)
    (h : t.transposed newName selectAs = .ok r) :
    let sname := selectAs.getD (t.header.headD "")
    let columns := t.subNames (sname :: t.header.filter (· ≠ sname))
    ∃ s sel names, t.idxsOf columns = .ok (s :: sel) ∧ (s :: sel).map t.name = columns ∧
      t.rows.mapM (fun row => match (row.getD s dfl).pyStr with | some x => pure x | none => throw "unmodelled") = Except.ok names ∧
      r.header = newName :: names ∧
      r.cols = (sname :: t.header.filter (· ≠ sname)).tail.map Cell.str :: t.rows.map (TableOps.proj dfl sel) :=
  named_transposed t newName selectAs r hw h

example : (Table.transposed { header := ["a", "k", "n"], cols := [[.str "x", .str "y"], [.str "p", .str "q"], [.int 1, .int 2]], index := none }
    "names" (some "k")).toOption.map (fun r => (r.header, r.cols))
    = some (["names", "p", "q"], [[.str "a", .str "n"], [.str "x", .int 1], [.str "y", .int 2]]) := by decide

end CogentModel.C20
