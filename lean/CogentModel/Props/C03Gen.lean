import CogentModel.Gen.C03Windows
import CogentModel.Model.AlnPred
/-! # C03 — the TRANSLATED `sliding_windows` equals the hand model

`Gen/C03Windows.lean` is regenerated on every run from the current `core/alignment.py` by
`translator/c03_windows2lean.py`; a semantic edit of `AlignmentI.sliding_windows` changes the generated
definition and this proof no longer checks. -/
namespace CogentModel.C03G
open CogentModel.Aln

/-- For all lengths, window sizes, steps and optional start / end: the bounds of the slices the real
`sliding_windows` yields (translated from the source) are the hand model's `windowBounds`, about which
`C03F.windows_refine` is proved. -/
theorem sliding_windows_translated_eq_model (n window step : Int) (start stop : Option Int) :
    Gen.C03Windows.slidingWindows n window step start stop = windowBounds n window step start stop := by
  cases start <;> cases stop <;> rfl

example : Gen.C03Windows.slidingWindows 10 3 4 (some 1) (some 7) = [(1, 4), (5, 8)] := by decide

end CogentModel.C03G
