import CogentModel.Model.PhyloTree
import CogentModel.Spec.PhyloSplits
import CogentModel.Proofs.PhyloReroot
import CogentModel.Proofs.PhyloUnrooted
import CogentModel.Proofs.PhyloSorted
import CogentModel.Proofs.PhyloOps
import CogentModel.Proofs.PhyloRF
import CogentModel.Proofs.PhyloNewick
import CogentModel.Proofs.PhyloSubtree
import CogentModel.Proofs.PhyloDist
import CogentModel.Proofs.PhyloPhi
import CogentModel.Proofs.PhyloHistory
import CogentModel.Proofs.PhyloMidpoint
import CogentModel.Proofs.PhyloMidSearch
import CogentModel.Proofs.PhyloNewickStr
import CogentModel.Proofs.PhyloNames
import CogentModel.Proofs.PhyloNamesGen
/-! # C09 — property theorems (tree transformations preserve tips, topology and path lengths)

`PTree K`, `rerootAt`, `unrooted`, `sorted`, `getSubTree`, … : `Model/PhyloTree.lean`
(mirror of cogent3 `core/tree.py`).  `splits`, `distSpec`, `SplitsEquiv`: `Spec/PhyloSplits.lean`.
`K` is any commutative additive monoid of branch lengths; `d` is the length used for an edge
that has none (cogent3 uses 1). -/
namespace CogentModel.C09
open CogentModel.Phylo

variable {K : Type}

/-- Re-rooting (`unrooted_deepcopy` started at any internal node, i.e. `rooted_at`,
`rooted_with_tip`, and the final step of `root_at_midpoint`) keeps the tips — for every tree,
every target node.  (If the old root has a single child and the root moves, the code turns the
old root into a new *tip*; hence the degree hypothesis.) -/
theorem reroot_preserves_tips (t r : PTree K) (p : List Nat) (h : rerootAt t p = some r)
    (hdeg : p = [] ∨ 2 ≤ t.children.length) : (tips r).Perm (tips t) :=
  (rerootAt_spec t r p h hdeg).1

/-- Re-rooting keeps the multiset of named weighted splits (the unrooted topology with its
edge names and lengths): every edge keeps its name and length and carries the same
bipartition of the tips. -/
theorem reroot_preserves_splits (t r : PTree K) (p : List Nat) (h : rerootAt t p = some r)
    (hdeg : p = [] ∨ 2 ≤ t.children.length) (hnd : (tips t).Nodup) :
    SplitsEquiv (tips t) (splits t) (splits r) :=
  (rerootAt_spec t r p h hdeg).2 hnd

/-- … hence every tip-to-tip path length. -/
theorem reroot_preserves_dist [AddCommMonoid K] (d : K) (t r : PTree K) (p : List Nat)
    (h : rerootAt t p = some r) (hdeg : p = [] ∨ 2 ≤ t.children.length) (hnd : (tips t).Nodup)
    (a b : String) (ha : a ∈ tips t) (hb : b ∈ tips t) :
    distSpec d a b r = distSpec d a b t :=
  dist_of_splitsEquiv d (tips t) t r (reroot_preserves_splits t r p h hdeg hnd) a b ha hb

-- non-vacuity: a 5-tip tree re-rooted two edges away from the old root
example : rerootAt (K := Int)
    (.node "" none [.node "x" (some 3) [.node "a" (some 1) [], .node "y" (some 7) [.node "b" (some 2) [], .node "e" (some 1) []]],
                    .node "c" (some 4) [], .node "d" (some 5) []]) [0, 1]
  = some (.node "" none [.node "b" (some 2) [], .node "e" (some 1) [],
      .node "y" (some 7) [.node "a" (some 1) [], .node "x" (some 3) [.node "c" (some 4) [], .node "d" (some 5) []]]]) := by rfl

/-! ## sorted, copy, histories -/

/-- `sorted` (any sort order) keeps the tips … -/
theorem sorted_preserves_tips (t : PTree K) (order : List String) :
    (tips (sorted t order)).Perm (tips t) :=
  (sorted_ok t order).2.2.1

/-- … and the split multiset (for every reference tip set `T`), hence the unrooted topology -/
theorem sorted_preserves_splits (t : PTree K) (order : List String) (T : List String) :
    SplitsEquiv T (splits t) (splits (sorted t order)) :=
  (sorted_ok t order).2.2.2 T

/-- … and every path length. -/
theorem sorted_preserves_dist [AddCommMonoid K] (d : K) (t : PTree K) (order : List String)
    (a b : String) (ha : a ∈ tips t) (hb : b ∈ tips t) :
    distSpec d a b (sorted t order) = distSpec d a b t :=
  dist_of_splitsEquiv d (tips t) t _ (sorted_preserves_splits t order (tips t)) a b ha hb

example : tips (sorted (K := Int) (.node "" none [.node "x" (some 3) [.node "d" (some 1) [], .node "b" (some 2) []],
    .node "c" (some 4) [], .node "a" (some 5) []]) []) = ["a", "b", "d", "c"] := by decide +kernel

/-- Compositions: any history of re-rootings (at a node / beside a tip / the re-rooting step of
midpoint rooting), sortings and copies keeps the tip set, the split multiset and hence all
path lengths — by induction over the history, for every tree whose root has ≥ 2 children.
(`copy`/`deepcopy` are the identity in the value model: that they, and every other operation,
leave the *Python object* they are called on unmodified is checked on the implementation by
deep snapshots — harness `spec_check`; `root_at_midpoint` used to fail that check and now works on a
`deepcopy` of `self`: finding C09-midpoint-mutates-argument, status fixed, regression-guarded.) -/
theorem history_preserves_tips_splits (ops : List TOp) (t r : PTree K) (h : applyOps t ops = some r)
    (hdeg : 2 ≤ t.children.length) (hnd : (tips t).Nodup) :
    (tips r).Perm (tips t) ∧ SplitsEquiv (tips t) (splits t) (splits r) :=
  applyOps_spec ops t r h hdeg hnd

theorem history_preserves_dist [AddCommMonoid K] (d : K) (ops : List TOp) (t r : PTree K)
    (h : applyOps t ops = some r) (hdeg : 2 ≤ t.children.length) (hnd : (tips t).Nodup)
    (a b : String) (ha : a ∈ tips t) (hb : b ∈ tips t) :
    distSpec d a b r = distSpec d a b t :=
  dist_of_splitsEquiv d (tips t) t r (applyOps_spec ops t r h hdeg hnd).2 a b ha hb

example : (applyOps (K := Int)
    (.node "" none [.node "x" (some 3) [.node "a" (some 1) [], .node "b" (some 2) []], .node "c" (some 4) [], .node "d" (some 5) []])
    [.reroot [0], .sorted ["d"], .copy, .reroot [0]]).isSome = true := by decide +kernel

/-! ## unrooted -/

/-- `unrooted` keeps the tips, in order — for every tree. -/
theorem unrooted_preserves_tips [Add K] (t : PTree K) : tips (unrooted t) = tips t :=
  tips_unrooted t

/-- `unrooted` (core/tree.py as of commit 4e5465d45: the collapsed stem edge's length goes onto
the sister edge) preserves every tip-to-tip path length — for every tree with distinct tips
whose root children carry lengths.  (The earlier code added that length to every child of the
collapsed clade: `((a:1,b:2):3,(c:4,d:5):6)` gave d(a,b) 3 → 9; that input is replayed on the
implementation by every run as a regression witness.) -/
theorem unrooted_preserves_dist [AddCommMonoid K] (d : K) (t : PTree K) (hnd : (tips t).Nodup)
    (hlen : ∀ c ∈ t.children, ∃ l, c.len = some l) (a b : String) (ha : a ∈ tips t) (hb : b ∈ tips t) :
    distSpec d a b (unrooted t) = distSpec d a b t :=
  unrooted_dist d t hnd hlen a b ha hb

example :
    let t : PTree Int := .node "" none [.node "" (some 3) [.node "a" (some 1) [], .node "b" (some 2) []],
                                         .node "" (some 6) [.node "c" (some 4) [], .node "d" (some 5) []]]
    (tips t).Nodup ∧ tips (unrooted t) = ["a", "b", "c", "d"] ∧
      distSpec 1 "a" "b" (unrooted t) = 3 ∧ distSpec 1 "a" "c" (unrooted t) = 14 ∧
      distSpec 1 "a" "c" t = 14 := by decide +kernel

/-! ## pruning to a subset of tips -/

/-- `get_sub_tree(names, tipsonly=True)` (any `ignore_missing`, `keep_root`; including the
re-unrooting of the result when the source root has more than 2 children): the result has
exactly the kept tips, in their original order, and every path length among kept tips is
unchanged — single-child chains are merged by adding lengths.  For every tree with distinct
tips whose non-root edges all have a length satisfying `P`, `P` any class closed under `+`
(`fun _ => True`: every edge has a length — ZERO LENGTHS INCLUDED, see `subtree_restricts_any_lengths`;
"positive"; …).  A missing part makes the merged edge lose its length (code and model), hence "has a
length".  Until /repo d2c7528e3 the code also dropped a merged length of 0.0 and this theorem needed
`¬ P 0` (repaired finding C09-subtree-drops-zero-merged-length). -/
theorem subtree_restricts [AddCommMonoid K] (P : K → Prop)
    (hadd : ∀ x y, P x → P y → P (x + y)) (d : K)
    (t : PTree K) (names : List String) (ignoreMissing keepRoot : Bool) (r : PTree K)
    (h : getSubTree t names ignoreMissing keepRoot true = .ok r)
    (hg : GoodLensL P t.children) (hnd : (tips t).Nodup) :
    tips r = (tips t).filter (fun x => names.contains x) ∧
      ∀ a b, names.contains a = true → names.contains b = true → a ∈ tips t → b ∈ tips t →
        distSpec d a b r = distSpec d a b t :=
  getSubTree_spec P hadd d t names ignoreMissing keepRoot r h hg hnd

/-- Full strength in the lengths: ANY lengths (zero, negative, any additive commutative monoid), as
long as every non-root edge has one. -/
theorem subtree_restricts_any_lengths [AddCommMonoid K] (d : K)
    (t : PTree K) (names : List String) (ignoreMissing keepRoot : Bool) (r : PTree K)
    (h : getSubTree t names ignoreMissing keepRoot true = .ok r)
    (hg : GoodLensL (fun _ => True) t.children) (hnd : (tips t).Nodup) :
    tips r = (tips t).filter (fun x => names.contains x) ∧
      (∀ a b, names.contains a = true → names.contains b = true → a ∈ tips t → b ∈ tips t →
        distSpec d a b r = distSpec d a b t) ∧
      ∀ φ, BipPred (tips r) φ → topoWeight d φ r = topoWeight d φ t :=
  ⟨(getSubTree_spec _ (fun _ _ _ _ => trivial) d t names ignoreMissing keepRoot r h hg hnd).1,
   (getSubTree_spec _ (fun _ _ _ _ => trivial) d t names ignoreMissing keepRoot r h hg hnd).2,
   (getSubTree_phi _ (fun _ _ _ _ => trivial) d t names ignoreMissing keepRoot r h hg hnd).2.2⟩

example : GoodLensL (fun x : Int => 0 < x)
    (PTree.node "" none [.node "x" (some 3) [.node "a" (some 1) [], .node "b" (some 2) []], .node "c" (some 4) []]).children := by
  simp [GoodLensL, GoodLens]
-- the witness of the repaired defect: `(a:1,b:2,c:3,d:4,e:5).bifurcating()` has two nested 0-length
-- edges; dropping c merges them (0 + 0): the merged edge keeps length 0, d(a,d) stays 5 (was 6)
example :
    let t : PTree Int := .node "" none [.node "a" (some 1) [], .node "" (some 0) [.node "b" (some 2) [],
        .node "" (some 0) [.node "c" (some 3) [], .node "" (some 0) [.node "d" (some 4) [], .node "e" (some 5) []]]]]
    GoodLensL (fun _ => True) t.children ∧
    (getSubTree t ["a", "b", "d", "e"] false false true).toOption.map tips = some ["a", "b", "d", "e"] ∧
    (getSubTree t ["a", "b", "d", "e"] false false true).toOption.map (distSpec 1 "b" "d") = some 6 ∧
    (getSubTree t ["a", "b", "d", "e"] false false true).toOption.map (distSpec 1 "a" "d") = some 5 ∧
    distSpec 1 "a" "d" t = 5 := by
  refine ⟨by simp [GoodLensL, GoodLens], ?_⟩
  decide +kernel
-- a source root with 3 children: the result is re-unrooted, d(a,b) stays 3
example :
    let t : PTree Int := .node "" none [.node "x" (some 3) [.node "a" (some 1) [], .node "b" (some 2) []],
                                         .node "c" (some 4) [], .node "d" (some 5) []]
    (getSubTree t ["a", "b", "c"] false false true).toOption.map tips = some ["a", "b", "c"] ∧
      (getSubTree t ["a", "b", "c"] false false true).toOption.map (distSpec 1 "a" "b") = some 3 ∧
      (getSubTree t ["a", "b", "c"] false false true).toOption.map (distSpec 1 "a" "c") = some 8 ∧
      distSpec 1 "a" "c" t = 8 := by
  decide +kernel

/-! ## newick (token level) -/

/-- `parse_string` (the parser state machine over `_Tokeniser` tokens) inverts `get_newick` with
distances: for every tree — any shape, any names, any lengths, unnamed nodes, missing lengths. -/
theorem newick_tokens_roundtrip (t : PTree K) : parseToks (newickToks true t) = some t := by
  rw [parse_newickToks, stripLens_true]

/-- without distances the parser returns the same tree without lengths -/
theorem newick_tokens_roundtrip_topology (t : PTree K) :
    parseToks (newickToks false t) = some (stripLens false t) :=
  parse_newickToks false t

example : newickToks true (PTree.node (K := Int) "" none [.node "a b" (some 1) [], .node "x" (some 3) [.node "c" none [], .node "" (some 2) []]])
    = [.lp, .label "a b", .colon, .num 1, .comma, .lp, .label "c", .comma, .colon, .num 2, .rp, .label "x", .colon, .num 3, .rp, .semi] := by
  rfl

/-! ## tree-to-tree distances (Robinson–Foulds; `phylo/tree_distance.py`) -/

/-- symmetric: rooted and unrooted RF, including which argument pairs are rejected -/
theorem rf_symmetric (t₁ t₂ : PTree K) :
    rootedRF t₁ t₂ = rootedRF t₂ t₁ ∧ unrootedRF t₁ t₂ = unrootedRF t₂ t₁ :=
  ⟨rootedRF_comm t₁ t₂, unrootedRF_comm t₁ t₂⟩

/-- The implemented unrooted RF (clades from `subsets()`, each normalised by `_compute_splits`
to the side containing the first tip, Python-set symmetric difference) equals the independent
split-set computation `symDiffBip` (bipartitions compared by their separation relation, no
reference tip) — for all trees on which it is defined. -/
theorem rf_eq_splitset (t₁ t₂ : PTree K) (n : Nat) (h : unrootedRF t₁ t₂ = .ok n) :
    n = symDiffBip (tips t₁) (clusters t₁) (clusters t₂) :=
  unrootedRF_eq t₁ t₂ n h

/-- … and is zero exactly when the two trees have the same bipartitions (equal unrooted topology). -/
theorem rf_zero_iff_same_splits (t₁ t₂ : PTree K) (n : Nat) (h : unrootedRF t₁ t₂ = .ok n) :
    n = 0 ↔ (∀ A ∈ clusters t₁, ∃ B ∈ clusters t₂, bipEquiv (tips t₁) A B) ∧
            (∀ B ∈ clusters t₂, ∃ A ∈ clusters t₁, bipEquiv (tips t₁) B A) := by
  rw [unrootedRF_eq t₁ t₂ n h]
  exact symDiffBip_zero_iff _ _ _

example : unrootedRF (K := Int)
    (.node "" none [.node "a" none [], .node "b" none [], .node "" none [.node "c" none [], .node "d" none []]])
    (.node "" none [.node "c" none [], .node "a" none [], .node "" none [.node "b" none [], .node "d" none []]])
    = .ok 2 := by decide +kernel
example : unrootedRF (K := Int)
    (.node "" none [.node "a" none [], .node "b" none [], .node "" none [.node "c" none [], .node "d" none []]])
    (.node "" none [.node "c" none [], .node "d" none [], .node "" none [.node "b" none [], .node "a" none []]])
    = .ok 0 := by decide +kernel

/-! ## Added by the audit

* the re-rooting theorems restated for the **public entry points** `rooted_at(name)` / `rooted_with_tip(name)`
  (the functions the driver runs against the implementation), not only for the internal path walk;
* rooted Robinson–Foulds is zero exactly when the two trees have the same clades ("zero exactly for equal
  topologies" for the rooted method; only symmetry was proved before). -/

theorem rooted_at_preserves [AddCommMonoid K] (d : K) (t r : PTree K) (nm : String)
    (h : rootedAt t nm = .ok r) (hdeg : 2 ≤ t.children.length) (hnd : (tips t).Nodup) :
    (tips r).Perm (tips t) ∧ SplitsEquiv (tips t) (splits t) (splits r) ∧
      ∀ a b, a ∈ tips t → b ∈ tips t → distSpec d a b r = distSpec d a b t := by
  unfold rootedAt at h
  split at h
  · cases h
  · rename_i p _
    split at h
    · cases h
    · rename_i r' hr
      injection h with h; subst h
      exact ⟨reroot_preserves_tips t _ p hr (Or.inr hdeg), reroot_preserves_splits t _ p hr (Or.inr hdeg) hnd,
        fun a b ha hb => reroot_preserves_dist d t _ p hr (Or.inr hdeg) hnd a b ha hb⟩

theorem rooted_with_tip_preserves [AddCommMonoid K] (d : K) (t r : PTree K) (nm : String)
    (h : rootedWithTip t nm = .ok r) (hdeg : 2 ≤ t.children.length) (hnd : (tips t).Nodup) :
    (tips r).Perm (tips t) ∧ SplitsEquiv (tips t) (splits t) (splits r) ∧
      ∀ a b, a ∈ tips t → b ∈ tips t → distSpec d a b r = distSpec d a b t := by
  unfold rootedWithTip at h
  split at h
  · cases h
  · rename_i p _
    split at h
    · cases h
    · split at h
      · cases h
      · rename_i r' hr
        injection h with h; subst h
        exact ⟨reroot_preserves_tips t _ _ hr (Or.inr hdeg), reroot_preserves_splits t _ _ hr (Or.inr hdeg) hnd,
          fun a b ha hb => reroot_preserves_dist d t _ _ hr (Or.inr hdeg) hnd a b ha hb⟩

example : (rootedWithTip (K := Int)
    (.node "" none [.node "x" (some 3) [.node "a" (some 1) [], .node "y" (some 7) [.node "b" (some 2) [], .node "e" (some 1) []]],
                    .node "c" (some 4) [], .node "d" (some 5) []]) "b").toOption.map tips = some ["b", "e", "a", "c", "d"] := by
  decide +kernel

/-! ### rooted Robinson–Foulds -/

theorem memSet_dedup (x : List String) (S : List (List String)) : memSet x (dedupSets S) = memSet x S := by
  unfold memSet
  rw [dedupSets_eq]
  exact any_dedupBy seteq seteq_trans x S

theorem symDiffCount_dedup_zero_iff (S₁ S₂ : List (List String)) :
    symDiffCount (dedupSets S₁) (dedupSets S₂) = 0 ↔
      (∀ A ∈ S₁, ∃ B ∈ S₂, seteq A B = true) ∧ (∀ B ∈ S₂, ∃ A ∈ S₁, seteq B A = true) := by
  have one : ∀ (S S' : List (List String)),
      ((dedupSets S).filter fun A => !memSet A (dedupSets S')).length = 0 ↔ ∀ A ∈ S, ∃ B ∈ S', seteq A B = true := by
    intro S S'
    rw [List.length_eq_zero_iff, List.filter_eq_nil_iff]
    constructor
    · intro h A hA
      have hrep : memSet A (dedupSets S) = true := by
        rw [memSet_dedup]
        exact List.any_eq_true.2 ⟨A, hA, (seteq_iff A A).2 (fun _ => Iff.rfl)⟩
      obtain ⟨A', hA', hAA'⟩ := List.any_eq_true.1 hrep
      have := h A' hA'
      have this' : memSet A' S' = true := by rw [memSet_dedup] at this; simpa using this
      obtain ⟨B, hB, hA'B⟩ := List.any_eq_true.1 this'
      exact ⟨B, hB, seteq_trans A A' B hAA' hA'B⟩
    · intro h A hA
      have hA' : A ∈ S := by
        rw [dedupSets_eq] at hA
        exact dedupBy_sublist _ S A hA
      obtain ⟨B, hB, hAB⟩ := h A hA'
      have : memSet A (dedupSets S') = true := by
        rw [memSet_dedup]; exact List.any_eq_true.2 ⟨B, hB, hAB⟩
      simp [this]
  unfold symDiffCount
  rw [Nat.add_eq_zero_iff, one S₁ S₂, one S₂ S₁]

theorem rooted_rf_zero_iff_same_clades (t₁ t₂ : PTree K) (n : Nat) (h : rootedRF t₁ t₂ = .ok n) :
    n = 0 ↔ (∀ A ∈ clusters t₁, ∃ B ∈ clusters t₂, seteq A B = true) ∧
            (∀ B ∈ clusters t₂, ∃ A ∈ clusters t₁, seteq B A = true) := by
  unfold rootedRF at h
  split at h
  · cases h
  · split at h
    · cases h
    · injection h with h
      rw [← h]
      exact symDiffCount_dedup_zero_iff _ _

example : rootedRF (K := Int)
    (.node "" none [.node "" none [.node "a" none [], .node "b" none []], .node "" none [.node "c" none [], .node "d" none []]])
    (.node "" none [.node "" none [.node "d" none [], .node "c" none []], .node "" none [.node "b" none [], .node "a" none []]])
    = .ok 0 := by decide +kernel
example : rootedRF (K := Int)
    (.node "" none [.node "" none [.node "a" none [], .node "b" none []], .node "" none [.node "c" none [], .node "d" none []]])
    (.node "" none [.node "" none [.node "a" none [], .node "c" none []], .node "" none [.node "b" none [], .node "d" none []]])
    = .ok 4 := by decide +kernel


/-! ## Stretch goals (round 3)

### 1. the distance function the code runs

`getDistances d t` mirrors `PhyloNode._get_distances` (post-order accumulation of root-ward tip
distances, cross products between the children of every node, a dict in which the last write
wins); `lookupLast (a, b)` is `tree.get_distances()[(a, b)]`. -/

/-- What `get_distances()` reports for two distinct tips is the specification path length — for
every tree with distinct tip names (any shape, missing lengths counted as `d`). Hence every
`distSpec` theorem of this file is a theorem about the modelled code's own distance function. -/
theorem getDistances_eq_distSpec [AddCommMonoid K] (d : K) (t : PTree K) (hnd : (tips t).Nodup)
    (a b : String) (ha : a ∈ tips t) (hb : b ∈ tips t) (hab : a ≠ b) :
    lookupLast (a, b) (getDistances d t) = some (distSpec d a b t) :=
  getDistances_lookup d t hnd a b ha hb hab

/-- … and the dict has no entries other than pairs of tips with that value. -/
theorem getDistances_entries [AddCommMonoid K] (d : K) (t : PTree K) (hnd : (tips t).Nodup)
    (a b : String) (v : K) (h : ((a, b), v) ∈ getDistances d t) :
    a ∈ tips t ∧ b ∈ tips t ∧ v = distSpec d a b t :=
  getDistances_keys d t hnd a b v h

example : lookupLast ("a", "c") (getDistances (1 : Int)
    (.node "" none [.node "" (some 3) [.node "a" (some 1) [], .node "b" (some 2) []],
                    .node "" (some 6) [.node "c" (some 4) [], .node "d" none []]])) = some 14 := by decide +kernel

/-! ### 2. topology of `unrooted` and `get_sub_tree`

`topoWeight d φ t` = total length of the edges of `t` whose bipartition satisfies the
bipartition predicate `φ` (`Spec/PhyloSplits.lean`: `BipPred T φ` — `φ` cannot tell a side from
one with the same members of `T` nor from its complement in `T`, and rejects the trivial
bipartition).  With `φ = sepAll T A` (`A` a proper part of `T`) it is the weight of the
bipartition `A | T∖A`, *merged* over all edges carrying it (0 when there is none); with
`φ = sep a b` it is the path length.  "Same weighted unrooted topology among `T`" = all these
agree. -/

/-- `unrooted` keeps the weighted unrooted topology: the edge above the collapsed node and the
sister edge carry the same bipartition and their weights are merged; nothing else changes. -/
theorem unrooted_preserves_splits [AddCommMonoid K] (d : K) (t : PTree K) (hnd : (tips t).Nodup)
    (hlen : ∀ c ∈ t.children, ∃ l, c.len = some l) (φ : List String → Bool) (hφ : BipPred (tips t) φ) :
    topoWeight d φ (unrooted t) = topoWeight d φ t :=
  unrooted_phi d t hnd hlen φ hφ

/-- the weight of every proper bipartition `A | T∖A` is the same before and after `unrooted` -/
theorem unrooted_preserves_bipartition_weights [AddCommMonoid K] (d : K) (t : PTree K) (hnd : (tips t).Nodup)
    (hlen : ∀ c ∈ t.children, ∃ l, c.len = some l) (A : List String) (hA : Proper (tips t) A) :
    topoWeight d (sepAll (tips t) A) (unrooted t) = topoWeight d (sepAll (tips t) A) t :=
  unrooted_phi d t hnd hlen _ (bipPred_sepAll _ A hA)

example :
    let t : PTree Int := .node "" none [.node "" (some 3) [.node "a" (some 1) [], .node "b" (some 2) []],
                                         .node "" (some 6) [.node "c" (some 4) [], .node "d" (some 5) []]]
    topoWeight 1 (sepAll (tips t) ["a", "b"]) t = 9 ∧ topoWeight 1 (sepAll (tips t) ["a", "b"]) (unrooted t) = 9 ∧
      topoWeight 1 (sepAll (tips t) ["a", "c"]) t = 0 := by decide +kernel

/-- `get_sub_tree(names, tipsonly=True)`: the bipartitions of the result are the restrictions of
the source bipartitions to the kept tips, with the weights of merged edges added and the
trivial ones dropped: every bipartition functional over the kept tips has the same value on the
result and on the source (a predicate on the kept tips sees only the restriction of a side).
The result's edges still have lengths in `P`. -/
theorem subtree_restricts_splits [AddCommMonoid K] (P : K → Prop)
    (hadd : ∀ x y, P x → P y → P (x + y)) (d : K)
    (t : PTree K) (names : List String) (ignoreMissing keepRoot : Bool) (r : PTree K)
    (h : getSubTree t names ignoreMissing keepRoot true = .ok r)
    (hg : GoodLensL P t.children) (hnd : (tips t).Nodup) :
    tips r = (tips t).filter (fun x => names.contains x) ∧ GoodLensL P r.children ∧
      ∀ φ, BipPred (tips r) φ → topoWeight d φ r = topoWeight d φ t :=
  getSubTree_phi P hadd d t names ignoreMissing keepRoot r h hg hnd

example :
    let t : PTree Int := .node "" none [.node "x" (some 3) [.node "a" (some 1) [], .node "y" (some 7) [.node "b" (some 2) [], .node "e" (some 1) []]],
                                         .node "c" (some 4) [], .node "d" (some 5) []]
    -- keeping a, b, c, d: the edges x (3) | y (7) survive; bipartition ab|cd has weight 3 in both, b|acd = 2 + 7 merged
    (getSubTree t ["a", "b", "c", "d"] false false true).toOption.map (topoWeight 1 (sepAll ["a", "b", "c", "d"] ["a", "b"])) = some 3 ∧
    topoWeight 1 (sepAll ["a", "b", "c", "d"] ["a", "b"]) t = 3 ∧
    (getSubTree t ["a", "b", "c", "d"] false false true).toOption.map (topoWeight 1 (sepAll ["a", "b", "c", "d"] ["b"])) = some 9 ∧
    topoWeight 1 (sepAll ["a", "b", "c", "d"] ["b"]) t = 9 := by decide +kernel

/-! ### 3. one induction over ALL the transformations

`XOp` (`Model/PhyloHistory.lean`): reroot | sorted | copy | unrooted | subtree names … | newick
(print with distances → parse, token level).  `applyXs` runs a history and is defined while every
intermediate root has ≥ 2 children; `keptAll ops` is the conjunction of the name lists of its
pruning steps. -/

/-- Arbitrary compositions of every transformation the property lists: the final tips are the
original tips filtered by all pruning steps (up to order), all edges still have lengths in `P`,
and the weighted unrooted topology among the retained tips is unchanged.  `P` is any class closed
under `+` — with `P := fun _ => True` the only hypothesis on lengths is that every non-root edge has
one (zero lengths, e.g. those `bifurcating()` inserts, are covered since /repo d2c7528e3). -/
theorem full_history_preserves [AddCommMonoid K] (P : K → Prop)
    (hadd : ∀ x y, P x → P y → P (x + y)) (d : K)
    (ops : List XOp) (t r : PTree K) (h : applyXs t ops = some r) (hdeg : 2 ≤ t.children.length)
    (hnd : (tips t).Nodup) (hg : GoodLensL P t.children) :
    (tips r).Perm ((tips t).filter (keptAll ops)) ∧ GoodLensL P r.children ∧
      ∀ φ, BipPred (tips r) φ → topoWeight d φ r = topoWeight d φ t :=
  let s := applyXs_ok P hadd d ops t r h hdeg hnd hg
  ⟨s.tips, s.good, s.topo⟩

/-- … in particular every tip-to-tip path length among retained tips, as reported by the modelled
`get_distances()` on the final and on the original tree. -/
theorem full_history_preserves_get_distances [AddCommMonoid K] (P : K → Prop)
    (hadd : ∀ x y, P x → P y → P (x + y)) (d : K)
    (ops : List XOp) (t r : PTree K) (h : applyXs t ops = some r) (hdeg : 2 ≤ t.children.length)
    (hnd : (tips t).Nodup) (hg : GoodLensL P t.children)
    (a b : String) (ha : a ∈ tips r) (hb : b ∈ tips r) (hab : a ≠ b) :
    lookupLast (a, b) (getDistances d r) = lookupLast (a, b) (getDistances d t) ∧
      distSpec d a b r = distSpec d a b t := by
  have s := applyXs_ok P hadd d ops t r h hdeg hnd hg
  have hndr : (tips r).Nodup := (s.tips.nodup_iff).2 (hnd.filter _)
  have sub : ∀ x ∈ tips r, x ∈ tips t := fun x hx => (List.mem_filter.1 ((s.tips.mem_iff).1 hx)).1
  have hd : distSpec d a b r = distSpec d a b t := s.topo (sep a b) (bipPred_sep _ a b ha hb)
  refine ⟨?_, hd⟩
  rw [getDistances_lookup d r hndr a b ha hb hab, getDistances_lookup d t hnd a b (sub a ha) (sub b hb) hab, hd]

example : (applyXs (K := Int)
    (.node "" none [.node "x" (some 3) [.node "a" (some 1) [], .node "y" (some 7) [.node "b" (some 2) [], .node "e" (some 1) []]],
                    .node "c" (some 4) [], .node "d" (some 5) []])
    [.reroot [0, 1], .newick, .subtree ["a", "b", "c", "e"] false false, .unrooted, .sorted [], .copy]).map tips
    = some ["a", "c", "b", "e"] := by decide +kernel


/-! ### 4. midpoint rooting (`root_at_midpoint`, model `rootAtMidpoint` at `Rat`)

`midPlan` is the search (farthest pair, deeper tip, climb until half the distance is covered);
`execPlan` either re-roots at an existing node or first splits the edge at the midpoint
(`splitEdge`: a new unnamed node with the climbed node as its only child, lengths `x - y` and `y`)
and re-roots at the new node. -/

/-- Midpoint rooting keeps the tips and the weighted unrooted topology — the two halves of a split
edge carry the same bipartition and their weights add up to the old length — hence every
tip-to-tip path length, also as reported by the modelled `get_distances()`. -/
theorem midpoint_preserves (t r : RT) (h : rootAtMidpoint t = .ok r)
    (hdeg : 2 ≤ t.children.length) (hnd : (tips t).Nodup) :
    (tips r).Perm (tips t) ∧ (∀ φ, BipPred (tips t) φ → topoWeight 1 φ r = topoWeight 1 φ t) ∧
      ∀ a b, a ∈ tips t → b ∈ tips t → a ≠ b →
        distSpec 1 a b r = distSpec 1 a b t ∧
        lookupLast (a, b) (getDistances 1 r) = lookupLast (a, b) (getDistances 1 t) := by
  obtain ⟨hp, hφ⟩ := rootAtMidpoint_ok 1 t r h hdeg hnd
  refine ⟨hp, hφ, fun a b ha hb hab => ?_⟩
  have hd : distSpec 1 a b r = distSpec 1 a b t := hφ (sep a b) (bipPred_sep _ a b ha hb)
  refine ⟨hd, ?_⟩
  rw [getDistances_lookup 1 r ((hp.nodup_iff).2 hnd) a b ((hp.mem_iff).2 ha) ((hp.mem_iff).2 hb) hab,
    getDistances_lookup 1 t hnd a b ha hb hab, hd]

/-- Re-rooting at any node `w`: a tip `p` below child `v` of `w` ends up at depth `len v + depth of
p in v`, and for every tip `q` not below `v` the path length is the sum of the two depths.
(`depthR a t` = root-to-tip distance of `a` in `t`.) -/
theorem reroot_depths_spec (t r w : RT) (pp : List Nat) (idx : Nat) (pre post : List RT) (v : RT)
    (hdeg : 2 ≤ t.children.length) (hnd : (tips t).Nodup)
    (hr : rerootAt t pp = some r) (hw : nodeAt t pp = some w) (hv : pick w.children idx = some (pre, v, post))
    (p q : String) (hp : p ∈ tips v) (hq : q ∈ tips t) (hqv : q ∉ tips v) :
    depthR p r = lenOr 1 v.len + depthR p v ∧ distSpec 1 p q t = depthR p r + depthR q r :=
  reroot_depths t r w pp idx pre post v hdeg hnd hr hw hv p q hp hq hqv

/-- `root_at_midpoint`: the two tips of the farthest pair (`max_tip_tip_distance`: first maximum of
the tip-by-tip matrix) end up equidistant from the new root, at half their path length — for every
tree with ≥ 2 root children, distinct tip names none of which is also the name of an internal node
(`get_node_matching_name` takes the first node with the name), and positive branch lengths.
Proved through the search itself: `findPath` soundness, the frames of the climb (`climb_node`,
`climb_node.parent`), "the climb stops strictly below the last common ancestor", and the two
execution lemmas below. -/
theorem midpoint_equidistant (t r : RT) (h : rootAtMidpoint t = .ok r)
    (hdeg : 2 ≤ t.children.length) (hnd : (tips t).Nodup)
    (hint : ∀ n ∈ tips t, n ∉ internalNames t)
    (hg : GoodLensL (fun x : Rat => 0 < x) t.children)
    (m : Rat) (a b : String) (harg : argmaxPair (tips t) (getDistances 1 t) = (m, a, b)) (hm : m ≠ 0) :
    m = distSpec 1 a b t ∧ depthR a r = m / 2 ∧ depthR b r = m / 2 :=
  rootAtMidpoint_equidistant t r h hdeg hnd hint hg m a b harg hm

/-- the plan "re-root at the existing node at `pp`" -/
theorem midpoint_equidistant_at (t r w : RT) (pp : List Nat) (idx : Nat) (pre post : List RT) (v : RT)
    (hdeg : 2 ≤ t.children.length) (hnd : (tips t).Nodup)
    (h : execPlan t (.at pp) = .ok r) (hw : nodeAt t pp = some w)
    (hv : pick w.children idx = some (pre, v, post))
    (p q : String) (hp : p ∈ tips v) (hq : q ∈ tips t) (hqv : q ∉ tips v)
    (hhalf : lenOr 1 v.len + depthR p v = distSpec 1 p q t / 2) :
    depthR p r = distSpec 1 p q t / 2 ∧ depthR q r = distSpec 1 p q t / 2 :=
  equidistant_at t r w pp idx pre post v hdeg hnd h hw hv p q hp hq hqv hhalf

/-- the plan "split the edge above child `v` of the node at `pp`, leaving `y` below the new root" -/
theorem midpoint_equidistant_split (t r par : RT) (pp : List Nat) (idx : Nat) (y : Rat)
    (pre post : List RT) (v : RT) (hdeg : 2 ≤ t.children.length) (hnd : (tips t).Nodup)
    (h : execPlan t (.split pp idx y) = .ok r) (hpar : nodeAt t pp = some par)
    (hv : pick par.children idx = some (pre, v, post))
    (p q : String) (hp : p ∈ tips v) (hq : q ∈ tips t) (hqv : q ∉ tips v)
    (hhalf : y + depthR p v = distSpec 1 p q t / 2) :
    depthR p r = distSpec 1 p q t / 2 ∧ depthR q r = distSpec 1 p q t / 2 :=
  equidistant_split t r par pp idx y pre post v hdeg hnd h hpar hv p q hp hq hqv hhalf

example :
    let t : RT := .node "" none [.node "a" (some 1) [], .node "b" (some 2) [], .node "x" (some 1) [.node "c" (some 6) [], .node "d" (some 1) []]]
    -- farthest pair (b, c): 2 + 1 + 6 = 9; the midpoint lies on c's edge, 4.5 from c
    midPlan t = .ok (.split [2] 0 (9 / 2)) ∧ argmaxPair (tips t) (getDistances 1 t) = (9, "b", "c") ∧
    (rootAtMidpoint t).toOption.map (fun r => (depthR "b" r, depthR "c" r)) = some (9 / 2, 9 / 2) ∧
    internalNames t = ["", "x"] := by
  decide +kernel


/-! ### 5. newick at character level

`Model/PhyloNewickStr.lean`: `escapeName` / `printStrW` mirror the writer (`get_newick`,
escape_name=True: names containing one of ``[]'"(),:;_`` are wrapped in single quotes with inner
quotes doubled, otherwise blanks become underscores); `lex` mirrors the regular-expression split of
`_Tokeniser`, `mRun` its token loop (quoted / unquoted labels, strip, underscore un-munging),
`classify`/`plazy` how `parse_string` reads the token generator (lazily; `float` of the token after
`:`; a token equal to a punctuation string *is* that punctuation).  All tied to the real code on
random strings every run.  `sh` stands for Python's float formatting, `rd` for `float`.

Hypotheses = exactly what the code gets right (`GoodTree`): every node is unnamed or its name — ANY
string, any Unicode characters — satisfies the decidable predicate `roundTrips` of the model:
  * no newline in it (ends an unquoted label, an error inside a quoted one);
  * it does not begin with a single quote     (known finding C09-newick-leading-quote-name);
  * it is not a single punctuation character `( ) , : ; [`   (known finding C09-newick-punctuation-name);
  * if it is written UNQUOTED (none of ``[]'"(),:;_`` in it) it neither begins nor ends with white space
    other than the blank (`str.strip()` in the tokeniser; blanks travel as underscores).
The former hypothesis (non-empty printable ASCII + the two findings) is the special case
`roundTrips_of_printable`.  Every excluded class really fails (`newick_excluded_names_fail`), and the
predicate is compared with the real `make_tree(get_newick())` on adversarial names every run.
JSON (`to_json` writes names unescaped — known finding C09-json-unescaped-names) is not modelled. -/

/-- the tokeniser reads the written string back as the tree's token list (names unescaped) -/
theorem newick_string_tokens (sh : K → List Char) (hsh : GoodShow sh) (t : PTree K) (hg : GoodTree t) :
    tokenise (newickStrW sh t) = some ((newickToks true t).map (sTokW sh)) :=
  tokenise_newickStrW sh hsh t hg

/-- STRING-LEVEL ROUND TRIP: `parse_string(tree.get_newick(with_distances=True))` is the tree —
every shape, unnamed nodes, missing lengths, names with blanks, underscores, quotes and newick
metacharacters inside. -/
theorem newick_string_roundtrip (sh : K → List Char) (rd : List Char → Option K)
    (hsh : GoodShow sh) (hrd : ∀ k, rd (sh k) = some k) (t : PTree K) (hg : GoodTree t) :
    parseString rd (newickStrW sh t) = some t :=
  parseString_newickStrW sh rd hsh hrd t hg

/-- without distances -/
theorem newick_string_tokens_topology (t : PTree K) (hg : GoodTree t) :
    tokenise (newickStr t) = some ((newickToks false t).map sTok) :=
  tokenise_newickStr t hg

-- non-vacuity: a printer/reader pair for a one-element length type, and a tree with awkward names
example : GoodShow (fun (_ : Unit) => ['1', '.', '5']) := by
  intro k
  refine ⟨by simp, ?_⟩
  intro y hy
  simp only [List.mem_cons, List.mem_nil_iff, or_false] at hy
  rcases hy with rfl | rfl | rfl <;> exact ⟨⟨by decide, by decide, by decide, by decide, by decide⟩, by decide, by decide⟩
example : GoodName "it's (a_b), c:d".toList := by decide
example : GoodName "a\tb \"\"K12\"\" é中  ".toList := by decide
example : String.ofList (newickStrW (fun (_ : Unit) => ['1', '.', '5'])
      (.node "" none [.node "it's (a_b)" (some ()) [], .node "x y" none [.node "c" (some ()) [], .node "" none []]]))
    = "('it''s (a_b)':1.5,(c:1.5,)x_y);" := by decide +kernel
example : parseString (fun s => if s = ['1', '.', '5'] then some () else none)
      "('it''s (a_b)':1.5,(c:1.5,)x_y);".toList
    = some (.node "" none [.node "it's (a_b)" (some ()) [], .node "x y" none [.node "c" (some ()) [], .node "" none []]]) := by
  rfl


/-! ### 6. names (round 3 feedback): arbitrary strings through the newick round trip, generated names

`roundTrips` (`Model/PhyloNewickStr.lean`) is the exact class of names the writer / tokeniser / parser
triple hands back unchanged; `nameRoundTrip n` runs the modelled `parse_string(get_newick())` on a
two-tip tree whose first tip is called `n` and returns the name read back.
`assignNames` / `makeTreeNames` (`Model/PhyloNames.lean`) mirror `TreeBuilder._unique_name` (the
recursive re-check of the suffixed candidate included) and `make_tree`'s late renaming of an unnamed root. -/

/-- every name in the class — any characters at all — is read back unchanged -/
theorem newick_name_roundtrip (n : List Char) (h : roundTrips n = true) :
    nameRoundTrip n = some (String.ofList n) :=
  nameRoundTrip_of_roundTrips n h

/-- the printable-ASCII names of the earlier statement are in the class -/
theorem newick_printable_names_roundtrip (n : List Char) (hne : n ≠ []) (hhead : n.head? ≠ some '\'')
    (hpr : ∀ x ∈ n, Printable x) (hp : notPunLab n = true) : roundTrips n = true :=
  roundTrips_of_printable n hne hhead hpr hp

/-- each excluded class fails in the modelled code (a leading quote; wrapped in quotes; a single
punctuation character; a newline; an unquoted name with a leading tab / trailing carriage return /
leading no-break space): the predicate excludes nothing it could keep on these witnesses -/
theorem newick_excluded_names_fail :
    (roundTrips "'ab".toList = false ∧ nameRoundTrip "'ab".toList = none) ∧
    (roundTrips "'ab'".toList = false ∧ nameRoundTrip "'ab'".toList = some "ab") ∧
    (roundTrips "(".toList = false ∧ nameRoundTrip "(".toList = none) ∧
    (roundTrips ",".toList = false ∧ nameRoundTrip ",".toList = none) ∧
    (roundTrips "[".toList = false ∧ nameRoundTrip "[".toList = none) ∧
    (roundTrips "a\nb".toList = false ∧ nameRoundTrip "a\nb".toList = none) ∧
    (roundTrips "\tab".toList = false ∧ nameRoundTrip "\tab".toList = some "ab") ∧
    (roundTrips "ab\r".toList = false ∧ nameRoundTrip "ab\r".toList = some "ab") ∧
    (roundTrips [Char.ofNat 0xA0, 'a'] = false ∧ nameRoundTrip [Char.ofNat 0xA0, 'a'] = some "a") := by
  decide +kernel

-- … while their neighbours are fine: `]`, a leading blank, a tab inside, a quoted leading tab
example : roundTrips "]".toList = true ∧ roundTrips " ab ".toList = true ∧ roundTrips "a\tb".toList = true ∧
    roundTrips "\ta,b".toList = true ∧ roundTrips "a''b\"\"c".toList = true := by decide
example : nameRoundTrip "a''b\"\"c".toList = some "a''b\"\"c" := by decide +kernel

/-- `TreeBuilder._unique_name`: whatever the labels (repeated labels, labels that look like generated
names, missing labels), the names handed out by one builder are pairwise distinct -/
theorem unique_names_nodup (labels : List (Option String)) : (assignNames labels).Nodup :=
  assignNames_nodup labels

/-- `make_tree`: pairwise distinct node names, provided the late renaming of an unnamed root to "root"
does not meet a node that is already called "root" -/
theorem make_tree_names_nodup (labels : List (Option String))
    (h : labels.getLast? = some none → "root" ∉ (assignNames labels).dropLast) :
    (makeTreeNames labels).Nodup :=
  makeTreeNames_nodup labels h

/-- … and that proviso is needed: a tip labelled `root` below an unnamed root gives two nodes called
"root" (known finding C09-generated-name-collision) -/
theorem make_tree_names_root_collision :
    makeTreeNames [some "root", some "b", none] = ["root", "b", "root"] := by
  decide +kernel

example : assignNames [some "x", some "x.2", some "x", none, some "edge.0", none, some "x"] =
    ["x", "x.2", "x.2.2", "edge.0", "edge.0.2", "edge.1", "x.3"] := by decide +kernel

/-! ### 7. wave 3: translation tie of the naming code

`Gen/C09Newick.lean` is re-translated on every run from `core/tree.py::TreeBuilder` (`__init__`'s dict literal and the whole body of
`_unique_name`, statement by statement; conventions U1-U5 in `translator/c09_names2lean.py`).  The theorems below prove the
generated definitions equal to the hand model for ALL dict states and labels, so `unique_names_nodup` is a statement about the
translated code (`gen_unique_names_nodup`). -/

/-- one unfolding of the generated recursion = one unfolding of the model's, given the tie one level down -/
theorem gen_unique_name_rec_step (n : Nat) (ih : ∀ (u : Used) (s : String), s ≠ "" → CogentModel.Gen.C09Newick.uniqueNameRec n u (some s) = uniqueNameFuel n u s)
    (u : Used) (l : Option String) :
    CogentModel.Gen.C09Newick.uniqueNameRec (n + 1) u l = uniqueNameFuel (n + 1) u (CogentModel.Gen.C09Newick.pyOr l "edge") := by
  rw [CogentModel.Gen.C09Newick.uniqueNameRec, uniqueNameFuel]
  cases hg : usedGet u (CogentModel.Gen.C09Newick.pyOr l "edge") with
  | none => simp [CogentModel.Gen.C09Newick.dHas, hg]
  | some c =>
    simp only [CogentModel.Gen.C09Newick.dHas, hg, Option.isSome_some, if_true, CogentModel.Gen.C09Newick.dGet, Option.getD_some, GenNames.usedGet_usedSet_same]
    rw [ih _ _ (GenNames.suffixed_ne_empty _ _), String.append_assoc]

/-- generated recursion = `uniqueNameFuel` at every fuel, every dict state, every non-empty candidate -/
theorem gen_unique_name_rec_eq (fuel : Nat) : ∀ (u : Used) (s : String), s ≠ "" →
    CogentModel.Gen.C09Newick.uniqueNameRec fuel u (some s) = uniqueNameFuel fuel u s := by
  induction fuel with
  | zero => intro u s _; simp [CogentModel.Gen.C09Newick.uniqueNameRec, uniqueNameFuel]
  | succ n ih =>
    intro u s hs
    rw [gen_unique_name_rec_step n ih, GenNames.pyOr_some s hs]

/-- generated `_unique_name` = hand model, for every dict state and every label (None, "", any str) -/
theorem gen_unique_name_eq (u : Used) (l : Option String) :
    CogentModel.Gen.C09Newick.uniqueName u l = CogentModel.Phylo.uniqueName u l := by
  unfold CogentModel.Gen.C09Newick.uniqueName CogentModel.Phylo.uniqueName
  rw [gen_unique_name_rec_step _ (gen_unique_name_rec_eq _)]
  cases l with
  | none => rfl
  | some s => by_cases h : s = "" <;> simp [CogentModel.Gen.C09Newick.pyOr, h]

/-- generated initial dict of `TreeBuilder.__init__` = the one `assignNames` starts from -/
theorem gen_used_names_init_eq : CogentModel.Gen.C09Newick.usedNamesInit = [("edge", -1)] := rfl

/-- folding the GENERATED `_unique_name` from the GENERATED initial dict over any label list = `assignNames` -/
theorem gen_assign_names_eq (labels : List (Option String)) :
    genAssignFrom CogentModel.Gen.C09Newick.usedNamesInit labels = assignNames labels := by
  unfold assignNames
  rw [gen_used_names_init_eq]
  generalize ([("edge", -1)] : Used) = u
  induction labels generalizing u with
  | nil => rfl
  | cons l ls ih => simp only [genAssignFrom, assignFrom, gen_unique_name_eq, ih]

/-- hence the translated code hands out pairwise distinct names for ANY list of labels -/
theorem gen_unique_names_nodup (labels : List (Option String)) :
    (genAssignFrom CogentModel.Gen.C09Newick.usedNamesInit labels).Nodup := by
  rw [gen_assign_names_eq]; exact assignNames_nodup labels

end CogentModel.C09
