import CogentModel.Model.PhyloTree
import CogentModel.Spec.PhyloSplits
import CogentModel.Proofs.PhyloReroot
import CogentModel.Proofs.PhyloUnrooted
import CogentModel.Proofs.PhyloSorted
import CogentModel.Proofs.PhyloOps
import CogentModel.Proofs.PhyloRF
import CogentModel.Proofs.PhyloNewick
import CogentModel.Proofs.PhyloSubtree
/-! # C09 — property theorems (tree transformations preserve tips, topology and path lengths)

`PTree K`, `rerootAt`, `unrooted`, `sorted`, `getSubTree`, … : `Model/PhyloTree.lean`
(mirror of cogent3 `core/tree.py`).  `splits`, `distSpec`, `SplitsEquiv`: `Spec/PhyloSplits.lean`.
`K` is any commutative additive monoid of branch lengths; `d` is the length used for an edge
that has none (cogent3 uses 1). -/
namespace CogentModel.C09
open CogentModel.Phylo

variable {K : Type}

/-- Re-rooting (`unrooted_deepcopy` started at any internal node, i.e. `rooted_at`,
`rooted_with_tip`, and the final step of `root_at_midpoint`) keeps the tips — for every tree,
every target node.  (If the old root has a single child and the root moves, the code turns the
old root into a new *tip*; hence the degree hypothesis.) -/
theorem reroot_preserves_tips (t r : PTree K) (p : List Nat) (h : rerootAt t p = some r)
    (hdeg : p = [] ∨ 2 ≤ t.children.length) : (tips r).Perm (tips t) :=
  (rerootAt_spec t r p h hdeg).1

/-- Re-rooting keeps the multiset of named weighted splits (the unrooted topology with its
edge names and lengths): every edge keeps its name and length and carries the same
bipartition of the tips. -/
theorem reroot_preserves_splits (t r : PTree K) (p : List Nat) (h : rerootAt t p = some r)
    (hdeg : p = [] ∨ 2 ≤ t.children.length) (hnd : (tips t).Nodup) :
    SplitsEquiv (tips t) (splits t) (splits r) :=
  (rerootAt_spec t r p h hdeg).2 hnd

/-- … hence every tip-to-tip path length. -/
theorem reroot_preserves_dist [AddCommMonoid K] (d : K) (t r : PTree K) (p : List Nat)
    (h : rerootAt t p = some r) (hdeg : p = [] ∨ 2 ≤ t.children.length) (hnd : (tips t).Nodup)
    (a b : String) (ha : a ∈ tips t) (hb : b ∈ tips t) :
    distSpec d a b r = distSpec d a b t :=
  dist_of_splitsEquiv d (tips t) t r (reroot_preserves_splits t r p h hdeg hnd) a b ha hb

-- non-vacuity: a 5-tip tree re-rooted two edges away from the old root
example : rerootAt (K := Int)
    (.node "" none [.node "x" (some 3) [.node "a" (some 1) [], .node "y" (some 7) [.node "b" (some 2) [], .node "e" (some 1) []]],
                    .node "c" (some 4) [], .node "d" (some 5) []]) [0, 1]
  = some (.node "" none [.node "b" (some 2) [], .node "e" (some 1) [],
      .node "y" (some 7) [.node "a" (some 1) [], .node "x" (some 3) [.node "c" (some 4) [], .node "d" (some 5) []]]]) := by rfl

/-! ## sorted, copy, histories -/

/-- `sorted` (any sort order) keeps the tips … -/
theorem sorted_preserves_tips (t : PTree K) (order : List String) :
    (tips (sorted t order)).Perm (tips t) :=
  (sorted_ok t order).2.2.1

/-- … and the split multiset (for every reference tip set `T`), hence the unrooted topology -/
theorem sorted_preserves_splits (t : PTree K) (order : List String) (T : List String) :
    SplitsEquiv T (splits t) (splits (sorted t order)) :=
  (sorted_ok t order).2.2.2 T

/-- … and every path length. -/
theorem sorted_preserves_dist [AddCommMonoid K] (d : K) (t : PTree K) (order : List String)
    (a b : String) (ha : a ∈ tips t) (hb : b ∈ tips t) :
    distSpec d a b (sorted t order) = distSpec d a b t :=
  dist_of_splitsEquiv d (tips t) t _ (sorted_preserves_splits t order (tips t)) a b ha hb

example : tips (sorted (K := Int) (.node "" none [.node "x" (some 3) [.node "d" (some 1) [], .node "b" (some 2) []],
    .node "c" (some 4) [], .node "a" (some 5) []]) []) = ["a", "b", "d", "c"] := by decide +kernel

/-- Compositions: any history of re-rootings (at a node / beside a tip / the re-rooting step of
midpoint rooting), sortings and copies keeps the tip set, the split multiset and hence all
path lengths — by induction over the history, for every tree whose root has ≥ 2 children.
(`copy`/`deepcopy` are the identity in the value model: that they, and every other operation,
leave the *Python object* they are called on unmodified is checked on the implementation by
deep snapshots — harness `spec_check`; `root_at_midpoint` used to fail that check and now works on a
`deepcopy` of `self`: finding C09-midpoint-mutates-argument, status fixed, regression-guarded.) -/
theorem history_preserves_tips_splits (ops : List TOp) (t r : PTree K) (h : applyOps t ops = some r)
    (hdeg : 2 ≤ t.children.length) (hnd : (tips t).Nodup) :
    (tips r).Perm (tips t) ∧ SplitsEquiv (tips t) (splits t) (splits r) :=
  applyOps_spec ops t r h hdeg hnd

theorem history_preserves_dist [AddCommMonoid K] (d : K) (ops : List TOp) (t r : PTree K)
    (h : applyOps t ops = some r) (hdeg : 2 ≤ t.children.length) (hnd : (tips t).Nodup)
    (a b : String) (ha : a ∈ tips t) (hb : b ∈ tips t) :
    distSpec d a b r = distSpec d a b t :=
  dist_of_splitsEquiv d (tips t) t r (applyOps_spec ops t r h hdeg hnd).2 a b ha hb

example : (applyOps (K := Int)
    (.node "" none [.node "x" (some 3) [.node "a" (some 1) [], .node "b" (some 2) []], .node "c" (some 4) [], .node "d" (some 5) []])
    [.reroot [0], .sorted ["d"], .copy, .reroot [0]]).isSome = true := by decide +kernel

/-! ## unrooted -/

/-- `unrooted` keeps the tips, in order — for every tree. -/
theorem unrooted_preserves_tips [Add K] (t : PTree K) : tips (unrooted t) = tips t :=
  tips_unrooted t

/-- `unrooted` (core/tree.py as of commit 4e5465d45: the collapsed stem edge's length goes onto
the sister edge) preserves every tip-to-tip path length — for every tree with distinct tips
whose root children carry lengths.  (The earlier code added that length to every child of the
collapsed clade: `((a:1,b:2):3,(c:4,d:5):6)` gave d(a,b) 3 → 9; that input is replayed on the
implementation by every run as a regression witness.) -/
theorem unrooted_preserves_dist [AddCommMonoid K] (d : K) (t : PTree K) (hnd : (tips t).Nodup)
    (hlen : ∀ c ∈ t.children, ∃ l, c.len = some l) (a b : String) (ha : a ∈ tips t) (hb : b ∈ tips t) :
    distSpec d a b (unrooted t) = distSpec d a b t :=
  unrooted_dist d t hnd hlen a b ha hb

example :
    let t : PTree Int := .node "" none [.node "" (some 3) [.node "a" (some 1) [], .node "b" (some 2) []],
                                         .node "" (some 6) [.node "c" (some 4) [], .node "d" (some 5) []]]
    (tips t).Nodup ∧ tips (unrooted t) = ["a", "b", "c", "d"] ∧
      distSpec 1 "a" "b" (unrooted t) = 3 ∧ distSpec 1 "a" "c" (unrooted t) = 14 ∧
      distSpec 1 "a" "c" t = 14 := by decide +kernel

/-! ## pruning to a subset of tips -/

/-- `get_sub_tree(names, tipsonly=True)` (any `ignore_missing`, `keep_root`; including the
re-unrooting of the result when the source root has more than 2 children): the result has
exactly the kept tips, in their original order, and every path length among kept tips is
unchanged — single-child chains are merged by adding lengths.  For every tree with distinct
tips whose non-root edges all have a length satisfying `P` (`P` closed under `+`, `¬ P 0`: e.g.
"positive"; the code drops a merged length that sums to zero or has a missing part). -/
theorem subtree_restricts [AddCommMonoid K] [DecidableEq K] (P : K → Prop)
    (hadd : ∀ x y, P x → P y → P (x + y)) (h0 : ¬ P 0) (d : K)
    (t : PTree K) (names : List String) (ignoreMissing keepRoot : Bool) (r : PTree K)
    (h : getSubTree t names ignoreMissing keepRoot true = .ok r)
    (hg : GoodLensL P t.children) (hnd : (tips t).Nodup) :
    tips r = (tips t).filter (fun x => names.contains x) ∧
      ∀ a b, names.contains a = true → names.contains b = true → a ∈ tips t → b ∈ tips t →
        distSpec d a b r = distSpec d a b t :=
  getSubTree_spec P hadd h0 d t names ignoreMissing keepRoot r h hg hnd

example : GoodLensL (fun x : Int => 0 < x)
    (PTree.node "" none [.node "x" (some 3) [.node "a" (some 1) [], .node "b" (some 2) []], .node "c" (some 4) []]).children := by
  simp [GoodLensL, GoodLens]
-- a source root with 3 children: the result is re-unrooted, d(a,b) stays 3
example :
    let t : PTree Int := .node "" none [.node "x" (some 3) [.node "a" (some 1) [], .node "b" (some 2) []],
                                         .node "c" (some 4) [], .node "d" (some 5) []]
    (getSubTree t ["a", "b", "c"] false false true).toOption.map tips = some ["a", "b", "c"] ∧
      (getSubTree t ["a", "b", "c"] false false true).toOption.map (distSpec 1 "a" "b") = some 3 ∧
      (getSubTree t ["a", "b", "c"] false false true).toOption.map (distSpec 1 "a" "c") = some 8 ∧
      distSpec 1 "a" "c" t = 8 := by
  decide +kernel

/-! ## newick (token level) -/

/-- `parse_string` (the parser state machine over `_Tokeniser` tokens) inverts `get_newick` with
distances: for every tree — any shape, any names, any lengths, unnamed nodes, missing lengths. -/
theorem newick_tokens_roundtrip (t : PTree K) : parseToks (newickToks true t) = some t := by
  rw [parse_newickToks, stripLens_true]

/-- without distances the parser returns the same tree without lengths -/
theorem newick_tokens_roundtrip_topology (t : PTree K) :
    parseToks (newickToks false t) = some (stripLens false t) :=
  parse_newickToks false t

example : newickToks true (PTree.node (K := Int) "" none [.node "a b" (some 1) [], .node "x" (some 3) [.node "c" none [], .node "" (some 2) []]])
    = [.lp, .label "a b", .colon, .num 1, .comma, .lp, .label "c", .comma, .colon, .num 2, .rp, .label "x", .colon, .num 3, .rp, .semi] := by
  rfl

/-! ## tree-to-tree distances (Robinson–Foulds; `phylo/tree_distance.py`) -/

/-- symmetric: rooted and unrooted RF, including which argument pairs are rejected -/
theorem rf_symmetric (t₁ t₂ : PTree K) :
    rootedRF t₁ t₂ = rootedRF t₂ t₁ ∧ unrootedRF t₁ t₂ = unrootedRF t₂ t₁ :=
  ⟨rootedRF_comm t₁ t₂, unrootedRF_comm t₁ t₂⟩

/-- The implemented unrooted RF (clades from `subsets()`, each normalised by `_compute_splits`
to the side containing the first tip, Python-set symmetric difference) equals the independent
split-set computation `symDiffBip` (bipartitions compared by their separation relation, no
reference tip) — for all trees on which it is defined. -/
theorem rf_eq_splitset (t₁ t₂ : PTree K) (n : Nat) (h : unrootedRF t₁ t₂ = .ok n) :
    n = symDiffBip (tips t₁) (clusters t₁) (clusters t₂) :=
  unrootedRF_eq t₁ t₂ n h

/-- … and is zero exactly when the two trees have the same bipartitions (equal unrooted topology). -/
theorem rf_zero_iff_same_splits (t₁ t₂ : PTree K) (n : Nat) (h : unrootedRF t₁ t₂ = .ok n) :
    n = 0 ↔ (∀ A ∈ clusters t₁, ∃ B ∈ clusters t₂, bipEquiv (tips t₁) A B) ∧
            (∀ B ∈ clusters t₂, ∃ A ∈ clusters t₁, bipEquiv (tips t₁) B A) := by
  rw [unrootedRF_eq t₁ t₂ n h]
  exact symDiffBip_zero_iff _ _ _

example : unrootedRF (K := Int)
    (.node "" none [.node "a" none [], .node "b" none [], .node "" none [.node "c" none [], .node "d" none []]])
    (.node "" none [.node "c" none [], .node "a" none [], .node "" none [.node "b" none [], .node "d" none []]])
    = .ok 2 := by decide +kernel
example : unrootedRF (K := Int)
    (.node "" none [.node "a" none [], .node "b" none [], .node "" none [.node "c" none [], .node "d" none []]])
    (.node "" none [.node "c" none [], .node "d" none [], .node "" none [.node "b" none [], .node "a" none []]])
    = .ok 0 := by decide +kernel

/-! ## Added by the audit

* the re-rooting theorems restated for the **public entry points** `rooted_at(name)` / `rooted_with_tip(name)`
  (the functions the driver runs against the implementation), not only for the internal path walk;
* rooted Robinson–Foulds is zero exactly when the two trees have the same clades ("zero exactly for equal
  topologies" for the rooted method; only symmetry was proved before). -/

theorem rooted_at_preserves [AddCommMonoid K] (d : K) (t r : PTree K) (nm : String)
    (h : rootedAt t nm = .ok r) (hdeg : 2 ≤ t.children.length) (hnd : (tips t).Nodup) :
    (tips r).Perm (tips t) ∧ SplitsEquiv (tips t) (splits t) (splits r) ∧
      ∀ a b, a ∈ tips t → b ∈ tips t → distSpec d a b r = distSpec d a b t := by
  unfold rootedAt at h
  split at h
  · cases h
  · rename_i p _
    split at h
    · cases h
    · rename_i r' hr
      injection h with h; subst h
      exact ⟨reroot_preserves_tips t _ p hr (Or.inr hdeg), reroot_preserves_splits t _ p hr (Or.inr hdeg) hnd,
        fun a b ha hb => reroot_preserves_dist d t _ p hr (Or.inr hdeg) hnd a b ha hb⟩

theorem rooted_with_tip_preserves [AddCommMonoid K] (d : K) (t r : PTree K) (nm : String)
    (h : rootedWithTip t nm = .ok r) (hdeg : 2 ≤ t.children.length) (hnd : (tips t).Nodup) :
    (tips r).Perm (tips t) ∧ SplitsEquiv (tips t) (splits t) (splits r) ∧
      ∀ a b, a ∈ tips t → b ∈ tips t → distSpec d a b r = distSpec d a b t := by
  unfold rootedWithTip at h
  split at h
  · cases h
  · rename_i p _
    split at h
    · cases h
    · split at h
      · cases h
      · rename_i r' hr
        injection h with h; subst h
        exact ⟨reroot_preserves_tips t _ _ hr (Or.inr hdeg), reroot_preserves_splits t _ _ hr (Or.inr hdeg) hnd,
          fun a b ha hb => reroot_preserves_dist d t _ _ hr (Or.inr hdeg) hnd a b ha hb⟩

example : (rootedWithTip (K := Int)
    (.node "" none [.node "x" (some 3) [.node "a" (some 1) [], .node "y" (some 7) [.node "b" (some 2) [], .node "e" (some 1) []]],
                    .node "c" (some 4) [], .node "d" (some 5) []]) "b").toOption.map tips = some ["b", "e", "a", "c", "d"] := by
  decide +kernel

/-! ### rooted Robinson–Foulds -/

theorem memSet_dedup (x : List String) (S : List (List String)) : memSet x (dedupSets S) = memSet x S := by
  unfold memSet
  rw [dedupSets_eq]
  exact any_dedupBy seteq seteq_trans x S

theorem symDiffCount_dedup_zero_iff (S₁ S₂ : List (List String)) :
    symDiffCount (dedupSets S₁) (dedupSets S₂) = 0 ↔
      (∀ A ∈ S₁, ∃ B ∈ S₂, seteq A B = true) ∧ (∀ B ∈ S₂, ∃ A ∈ S₁, seteq B A = true) := by
  have one : ∀ (S S' : List (List String)),
      ((dedupSets S).filter fun A => !memSet A (dedupSets S')).length = 0 ↔ ∀ A ∈ S, ∃ B ∈ S', seteq A B = true := by
    intro S S'
    rw [List.length_eq_zero_iff, List.filter_eq_nil_iff]
    constructor
    · intro h A hA
      have hrep : memSet A (dedupSets S) = true := by
        rw [memSet_dedup]
        exact List.any_eq_true.2 ⟨A, hA, (seteq_iff A A).2 (fun _ => Iff.rfl)⟩
      obtain ⟨A', hA', hAA'⟩ := List.any_eq_true.1 hrep
      have := h A' hA'
      have this' : memSet A' S' = true := by rw [memSet_dedup] at this; simpa using this
      obtain ⟨B, hB, hA'B⟩ := List.any_eq_true.1 this'
      exact ⟨B, hB, seteq_trans A A' B hAA' hA'B⟩
    · intro h A hA
      have hA' : A ∈ S := by
        rw [dedupSets_eq] at hA
        exact dedupBy_sublist _ S A hA
      obtain ⟨B, hB, hAB⟩ := h A hA'
      have : memSet A (dedupSets S') = true := by
        rw [memSet_dedup]; exact List.any_eq_true.2 ⟨B, hB, hAB⟩
      simp [this]
  unfold symDiffCount
  rw [Nat.add_eq_zero_iff, one S₁ S₂, one S₂ S₁]

theorem rooted_rf_zero_iff_same_clades (t₁ t₂ : PTree K) (n : Nat) (h : rootedRF t₁ t₂ = .ok n) :
    n = 0 ↔ (∀ A ∈ clusters t₁, ∃ B ∈ clusters t₂, seteq A B = true) ∧
            (∀ B ∈ clusters t₂, ∃ A ∈ clusters t₁, seteq B A = true) := by
  unfold rootedRF at h
  split at h
  · cases h
  · split at h
    · cases h
    · injection h with h
      rw [← h]
      exact symDiffCount_dedup_zero_iff _ _

example : rootedRF (K := Int)
    (.node "" none [.node "" none [.node "a" none [], .node "b" none []], .node "" none [.node "c" none [], .node "d" none []]])
    (.node "" none [.node "" none [.node "d" none [], .node "c" none []], .node "" none [.node "b" none [], .node "a" none []]])
    = .ok 0 := by decide +kernel
example : rootedRF (K := Int)
    (.node "" none [.node "" none [.node "a" none [], .node "b" none []], .node "" none [.node "c" none [], .node "d" none []]])
    (.node "" none [.node "" none [.node "a" none [], .node "c" none []], .node "" none [.node "b" none [], .node "d" none []]])
    = .ok 4 := by decide +kernel

end CogentModel.C09
