import CogentModel.Model.PhyloTree
import CogentModel.Spec.PhyloSplits
import CogentModel.Proofs.PhyloReroot
import CogentModel.Proofs.PhyloUnrooted
import CogentModel.Proofs.PhyloSorted
import CogentModel.Proofs.PhyloOps
/-! # C09 — property theorems (tree transformations preserve tips, topology and path lengths)

`PTree K`, `rerootAt`, `unrooted`, `sorted`, `getSubTree`, … : `Model/PhyloTree.lean`
(mirror of cogent3 `core/tree.py`).  `splits`, `distSpec`, `SplitsEquiv`: `Spec/PhyloSplits.lean`.
`K` is any commutative additive monoid of branch lengths; `d` is the length used for an edge
that has none (cogent3 uses 1). -/
namespace CogentModel.C09
open CogentModel.Phylo

variable {K : Type}

/-- Re-rooting (`unrooted_deepcopy` started at any internal node, i.e. `rooted_at`,
`rooted_with_tip`, and the final step of `root_at_midpoint`) keeps the tips — for every tree,
every target node.  (If the old root has a single child and the root moves, the code turns the
old root into a new *tip*; hence the degree hypothesis.) -/
theorem reroot_preserves_tips (t r : PTree K) (p : List Nat) (h : rerootAt t p = some r)
    (hdeg : p = [] ∨ 2 ≤ t.children.length) : (tips r).Perm (tips t) :=
  (rerootAt_spec t r p h hdeg).1

/-- Re-rooting keeps the multiset of named weighted splits (the unrooted topology with its
edge names and lengths): every edge keeps its name and length and carries the same
bipartition of the tips. -/
theorem reroot_preserves_splits (t r : PTree K) (p : List Nat) (h : rerootAt t p = some r)
    (hdeg : p = [] ∨ 2 ≤ t.children.length) (hnd : (tips t).Nodup) :
    SplitsEquiv (tips t) (splits t) (splits r) :=
  (rerootAt_spec t r p h hdeg).2 hnd

/-- … hence every tip-to-tip path length. -/
theorem reroot_preserves_dist [AddCommMonoid K] (d : K) (t r : PTree K) (p : List Nat)
    (h : rerootAt t p = some r) (hdeg : p = [] ∨ 2 ≤ t.children.length) (hnd : (tips t).Nodup)
    (a b : String) (ha : a ∈ tips t) (hb : b ∈ tips t) :
    distSpec d a b r = distSpec d a b t :=
  dist_of_splitsEquiv d (tips t) t r (reroot_preserves_splits t r p h hdeg hnd) a b ha hb

-- non-vacuity: a 5-tip tree re-rooted two edges away from the old root
example : rerootAt (K := Int)
    (.node "" none [.node "x" (some 3) [.node "a" (some 1) [], .node "y" (some 7) [.node "b" (some 2) [], .node "e" (some 1) []]],
                    .node "c" (some 4) [], .node "d" (some 5) []]) [0, 1]
  = some (.node "" none [.node "b" (some 2) [], .node "e" (some 1) [],
      .node "y" (some 7) [.node "a" (some 1) [], .node "x" (some 3) [.node "c" (some 4) [], .node "d" (some 5) []]]]) := by rfl

/-! ## sorted, copy, histories -/

/-- `sorted` (any sort order) keeps the tips … -/
theorem sorted_preserves_tips (t : PTree K) (order : List String) :
    (tips (sorted t order)).Perm (tips t) :=
  (sorted_ok t order).2.2.1

/-- … and the split multiset (for every reference tip set `T`), hence the unrooted topology -/
theorem sorted_preserves_splits (t : PTree K) (order : List String) (T : List String) :
    SplitsEquiv T (splits t) (splits (sorted t order)) :=
  (sorted_ok t order).2.2.2 T

/-- … and every path length. -/
theorem sorted_preserves_dist [AddCommMonoid K] (d : K) (t : PTree K) (order : List String)
    (a b : String) (ha : a ∈ tips t) (hb : b ∈ tips t) :
    distSpec d a b (sorted t order) = distSpec d a b t :=
  dist_of_splitsEquiv d (tips t) t _ (sorted_preserves_splits t order (tips t)) a b ha hb

example : tips (sorted (K := Int) (.node "" none [.node "x" (some 3) [.node "d" (some 1) [], .node "b" (some 2) []],
    .node "c" (some 4) [], .node "a" (some 5) []]) []) = ["a", "b", "d", "c"] := by decide +kernel

/-- Compositions: any history of re-rootings (at a node / beside a tip / the re-rooting step of
midpoint rooting), sortings and copies keeps the tip set, the split multiset and hence all
path lengths — by induction over the history, for every tree whose root has ≥ 2 children.
(`copy`/`deepcopy` are the identity in the value model: that they, and every other operation,
leave the *Python object* they are called on unmodified is checked on the implementation by
deep snapshots — harness `spec_check`; `root_at_midpoint` fails that check.) -/
theorem history_preserves_tips_splits (ops : List TOp) (t r : PTree K) (h : applyOps t ops = some r)
    (hdeg : 2 ≤ t.children.length) (hnd : (tips t).Nodup) :
    (tips r).Perm (tips t) ∧ SplitsEquiv (tips t) (splits t) (splits r) :=
  applyOps_spec ops t r h hdeg hnd

theorem history_preserves_dist [AddCommMonoid K] (d : K) (ops : List TOp) (t r : PTree K)
    (h : applyOps t ops = some r) (hdeg : 2 ≤ t.children.length) (hnd : (tips t).Nodup)
    (a b : String) (ha : a ∈ tips t) (hb : b ∈ tips t) :
    distSpec d a b r = distSpec d a b t :=
  dist_of_splitsEquiv d (tips t) t r (applyOps_spec ops t r h hdeg hnd).2 a b ha hb

example : (applyOps (K := Int)
    (.node "" none [.node "x" (some 3) [.node "a" (some 1) [], .node "b" (some 2) []], .node "c" (some 4) [], .node "d" (some 5) []])
    [.reroot [0], .sorted ["d"], .copy, .reroot [0]]).isSome = true := by decide +kernel

/-! ## unrooted -/

/-- `unrooted` keeps the tips, in order — for every tree. -/
theorem unrooted_preserves_tips [Add K] (t : PTree K) : tips (unrooted t) = tips t :=
  tips_unrooted t

/- FULL STATEMENT (not proved, false for the code as written):
   theorem unrooted_preserves_dist (t) (a b ∈ tips t) : distSpec d a b (unrooted t) = distSpec d a b t
   The mirrored `unrooted` adds the removed stem edge's length to *every* child of the collapsed
   clade (core/tree.py l.1575-1579), so pairs inside that clade get twice that length added.
   Witness below; replayed on the real code by the harness (known finding
   C09-unrooted-inflates-collapsed-clade). -/

/-- the defect, on the smallest witness `((a:1,b:2):3,(c:4,d:5):6)`: d(a,b) = 3 becomes 9 -/
theorem unrooted_dist_counter :
    let t : PTree Int := .node "" none [.node "" (some 3) [.node "a" (some 1) [], .node "b" (some 2) []],
                                         .node "" (some 6) [.node "c" (some 4) [], .node "d" (some 5) []]]
    distSpec 1 "a" "b" t = 3 ∧ distSpec 1 "a" "b" (unrooted t) = 9 ∧ (tips t).Nodup := by
  decide +kernel

/-- `unrooted` does preserve all distances when it has nothing to collapse: the root already
has ≥ 3 children, or all its children are tips (then the result is the same tree). -/
theorem unrooted_preserves_dist_partial [AddCommMonoid K] (d : K) (t : PTree K)
    (h : 3 ≤ t.children.length ∨ ∀ c ∈ t.children, c.children = []) (a b : String) :
    distSpec d a b (unrooted t) = distSpec d a b t := by
  rw [unrooted_noop t h]

example : (3 : Nat) ≤ (PTree.node (K := Int) "" none [.node "a" (some 1) [], .node "b" (some 2) [],
    .node "x" (some 1) [.node "c" (some 4) [], .node "d" (some 5) []]]).children.length := by decide

/-- The proposed repair (`fixes/C09-unrooted-sister-edge.patch`, model `unrootedFixed`: the
removed edge's length goes to the sister edge only) preserves every tip-to-tip distance, for
every tree with distinct tips whose root children carry lengths. -/
theorem unrooted_fixed_preserves_dist [AddCommMonoid K] (d : K) (t : PTree K) (hnd : (tips t).Nodup)
    (hlen : ∀ c ∈ t.children, ∃ l, c.len = some l) (a b : String) (ha : a ∈ tips t) (hb : b ∈ tips t) :
    distSpec d a b (unrootedFixed t) = distSpec d a b t :=
  unrootedFixed_dist d t hnd hlen a b ha hb

example :
    let t : PTree Int := .node "" none [.node "" (some 3) [.node "a" (some 1) [], .node "b" (some 2) []],
                                         .node "" (some 6) [.node "c" (some 4) [], .node "d" (some 5) []]]
    distSpec 1 "a" "b" (unrootedFixed t) = 3 ∧ distSpec 1 "a" "c" (unrootedFixed t) = 14 ∧
      distSpec 1 "a" "c" t = 14 := by decide +kernel

end CogentModel.C09
