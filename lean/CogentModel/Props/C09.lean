import CogentModel.Model.PhyloTree
import CogentModel.Spec.PhyloSplits
import CogentModel.Proofs.PhyloReroot
/-! # C09 — property theorems (tree transformations preserve tips, topology and path lengths)

`PTree K`, `rerootAt`, `unrooted`, `sorted`, `getSubTree`, … : `Model/PhyloTree.lean`
(mirror of cogent3 `core/tree.py`).  `splits`, `distSpec`, `SplitsEquiv`: `Spec/PhyloSplits.lean`.
`K` is any commutative additive monoid of branch lengths; `d` is the length used for an edge
that has none (cogent3 uses 1). -/
namespace CogentModel.C09
open CogentModel.Phylo

variable {K : Type}

/-- Re-rooting (`unrooted_deepcopy` started at any internal node, i.e. `rooted_at`,
`rooted_with_tip`, and the final step of `root_at_midpoint`) keeps the tips — for every tree,
every target node.  (If the old root has a single child and the root moves, the code turns the
old root into a new *tip*; hence the degree hypothesis.) -/
theorem reroot_preserves_tips (t r : PTree K) (p : List Nat) (h : rerootAt t p = some r)
    (hdeg : p = [] ∨ 2 ≤ t.children.length) : (tips r).Perm (tips t) :=
  (rerootAt_spec t r p h hdeg).1

/-- Re-rooting keeps the multiset of named weighted splits (the unrooted topology with its
edge names and lengths): every edge keeps its name and length and carries the same
bipartition of the tips. -/
theorem reroot_preserves_splits (t r : PTree K) (p : List Nat) (h : rerootAt t p = some r)
    (hdeg : p = [] ∨ 2 ≤ t.children.length) (hnd : (tips t).Nodup) :
    SplitsEquiv (tips t) (splits t) (splits r) :=
  (rerootAt_spec t r p h hdeg).2 hnd

/-- … hence every tip-to-tip path length. -/
theorem reroot_preserves_dist [AddCommMonoid K] (d : K) (t r : PTree K) (p : List Nat)
    (h : rerootAt t p = some r) (hdeg : p = [] ∨ 2 ≤ t.children.length) (hnd : (tips t).Nodup)
    (a b : String) (ha : a ∈ tips t) (hb : b ∈ tips t) :
    distSpec d a b r = distSpec d a b t :=
  dist_of_splitsEquiv d (tips t) t r (reroot_preserves_splits t r p h hdeg hnd) a b ha hb

-- non-vacuity: a 5-tip tree re-rooted two edges away from the old root
example : rerootAt (K := Int)
    (.node "" none [.node "x" (some 3) [.node "a" (some 1) [], .node "y" (some 7) [.node "b" (some 2) [], .node "e" (some 1) []]],
                    .node "c" (some 4) [], .node "d" (some 5) []]) [0, 1]
  = some (.node "" none [.node "b" (some 2) [], .node "e" (some 1) [],
      .node "y" (some 7) [.node "a" (some 1) [], .node "x" (some 3) [.node "c" (some 4) [], .node "d" (some 5) []]]]) := by rfl

end CogentModel.C09
