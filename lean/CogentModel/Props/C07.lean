import CogentModel.Model.Calculator
import CogentModel.Proofs.CalcInv
import CogentModel.Proofs.CalcReach
import CogentModel.Model.Controller
import CogentModel.Proofs.CtlInv
import CogentModel.Model.ParamRules
import CogentModel.Proofs.ParamRules
/-! # C07 — incrementally recalculated values equal a fresh calculation (property theorems)

`Model/Calculator.lean` mirrors `Calculator.change` (two buffers, `_switch`, `last_values`,
`last_undo`, `spare`, recycled arrays in a heap, the `CalculationInterupted` path).
`evalFresh g x` is the specification: evaluate every cell from scratch at optimiser vector `x`.
Histories are arbitrary finite lists of `change` calls whose change lists are those
`testoptparvector` can produce (`ValidCh`: optimiser-parameter indices, each at most once);
cell values, calc functions and the cell graph are arbitrary. -/
namespace CogentModel.C07
open CogentModel.Calc

variable {V : Type} [Inhabited V] [DecidableEq V]

/-- the representation invariant holds after `__init__` and is preserved by every `change`
(succeeding, undoing, or failing with `CalculationInterupted`) -/
theorem inv_reachable (g : Graph V) (hwf : g.WF) (x0 : Nat → V) (s0 : St V)
    (h0 : init g x0 = some s0) (hist : List (List (Nat × V))) (hv : ∀ c, c ∈ hist → ValidCh g c) :
    Inv g (runHist g s0 hist) := by
  have h := (init_inv g hwf x0 s0 h0).1
  clear h0
  induction hist generalizing s0 with
  | nil => exact h
  | cons c cs ih =>
    simp only [runHist]
    apply ih
    · intro c' hc'; exact hv c' (by simp [hc'])
    · exact (change_spec g hwf s0 c h (hv c (by simp))).1

/-- **calc_consistent**: after every finite history of `change` calls (single, multiple, reverting,
failing) the current buffer — all cells, not only the result — equals a fresh evaluation at the
vector the calculator reports (`last_values`). -/
theorem calc_consistent (g : Graph V) (hwf : g.WF) (x0 : Nat → V) (s0 : St V)
    (h0 : init g x0 = some s0) (hist : List (List (Nat × V))) (hv : ∀ c, c ∈ hist → ValidCh g c) :
    evalFresh g (runHist g s0 hist).lastValues = some (curValues g (runHist g s0 hist)) :=
  coh_evalFresh g hwf _ _ (inv_reachable g hwf x0 s0 h0 hist hv).cur

/-- the value a `change` call returns is the last cell of a fresh evaluation at the vector the
calculator reports afterwards -/
theorem calc_return_fresh (g : Graph V) (hwf : g.WF) (x0 : Nat → V) (s0 : St V)
    (h0 : init g x0 = some s0) (hist : List (List (Nat × V))) (hv : ∀ c, c ∈ hist → ValidCh g c)
    (hpos : 0 < g.n) (c : List (Nat × V)) (hc : ValidCh g c) (v : V)
    (hr : (change g (runHist g s0 hist) c).2 = some v) :
    (evalFresh g (change g (runHist g s0 hist) c).1.lastValues).map (fun l => l.getD (g.n - 1) default)
      = some v := by
  have hI := inv_reachable g hwf x0 s0 h0 hist hv
  obtain ⟨hI', hret⟩ := change_spec g hwf _ c hI hc
  rw [coh_evalFresh g hwf _ _ hI'.cur, hret v hr]
  simp only [Option.map_some, Option.some.injEq]
  exact getD_map_range _ g.n (g.n - 1) (by omega)

/-- `testoptparvector` only ever produces change lists covered by these theorems -/
theorem call_changes_valid (g : Graph V) (s : St V) (values : List V) : ValidCh g (diffVec g s values) := by
  unfold diffVec ValidCh
  constructor
  · intro p hp
    obtain ⟨i, hi, h⟩ := List.mem_filterMap.1 hp
    split at h
    · cases h
    · cases h; simpa using hi
  · have key : ∀ (l : List Nat), l.Nodup →
        ((l.filterMap (fun i =>
          if s.lastValues i = values.getD i default then none
          else some (i, values.getD i default))).map Prod.fst).Nodup := by
      intro l
      induction l with
      | nil => intro _; simp
      | cons a l ih =>
        intro hnd
        have hnd' := List.nodup_cons.1 hnd
        simp only [List.filterMap_cons]
        split
        · exact ih hnd'.2
        · rename_i b hb
          simp only [List.map_cons, List.nodup_cons]
          refine ⟨?_, ih hnd'.2⟩
          have hb1 : b.1 = a := by
            split at hb
            · cases hb
            · cases hb; rfl
          rw [hb1]
          intro hmem
          obtain ⟨q, hq, hqa⟩ := List.mem_map.1 hmem
          obtain ⟨i, hi, h⟩ := List.mem_filterMap.1 hq
          have : q.1 = i := by
            split at h
            · cases h
            · cases h; rfl
          apply hnd'.1
          rw [← hqa, this]; exact hi
    exact key _ List.nodup_range

/-- after a successful `change` the calculator is at the requested point: `last_values` is the old
vector with exactly the requested assignments applied (also when the call began by undoing the
previous step) -/
theorem change_reaches_request (g : Graph V) (hwf : g.WF) (x0 : Nat → V) (s0 : St V)
    (h0 : init g x0 = some s0) (hist : List (List (Nat × V))) (hv : ∀ c, c ∈ hist → ValidCh g c)
    (c : List (Nat × V)) (hc : ValidCh g c) (v : V)
    (hr : (change g (runHist g s0 hist) c).2 = some v) (j : Nat) :
    (change g (runHist g s0 hist) c).1.lastValues j = patch (runHist g s0 hist).lastValues c j :=
  change_reaches g hwf _ c (inv_reachable g hwf x0 s0 h0 hist hv) hc v hr j

/-- **`calculator(x)` returns `f(x)`**: after any history, a successful `testoptparvector(values)`
leaves `last_values = values` and returns the last cell of a fresh evaluation at `values`. -/
theorem call_correct (g : Graph V) (hwf : g.WF) (x0 : Nat → V) (s0 : St V)
    (h0 : init g x0 = some s0) (hist : List (List (Nat × V))) (hv : ∀ c, c ∈ hist → ValidCh g c)
    (hpos : 0 < g.n) (values : List V) (v : V)
    (hr : (call g (runHist g s0 hist) values).2 = some v) :
    (∀ j, j < g.nOpt → (call g (runHist g s0 hist) values).1.lastValues j = values.getD j default) ∧
    (evalFresh g (call g (runHist g s0 hist) values).1.lastValues).map (fun l => l.getD (g.n - 1) default)
      = some v := by
  have hc := call_changes_valid g (runHist g s0 hist) values
  refine ⟨fun j hj => ?_, calc_return_fresh g hwf x0 s0 h0 hist hv hpos _ hc v hr⟩
  have := change_reaches_request g hwf x0 s0 h0 hist hv _ hc v hr j
  exact this.trans (patch_diffVec g _ values j hj)

/-- a call that fails (`CalculationInterupted` → the original exception is re-raised) leaves the
calculator consistent with the vector it reports, its switch and buffer contents as they were
before the call's own buffer flip (i.e. after the optional undo) -/
theorem calc_failure_consistent (g : Graph V) (hwf : g.WF) (x0 : Nat → V) (s0 : St V)
    (h0 : init g x0 = some s0) (hist : List (List (Nat × V))) (hv : ∀ c, c ∈ hist → ValidCh g c)
    (c : List (Nat × V)) (hc : ValidCh g c)
    (hr : (change g (runHist g s0 hist) c).2 = none) :
    evalFresh g (change g (runHist g s0 hist) c).1.lastValues
        = some (curValues g (change g (runHist g s0 hist) c).1) ∧
    (change g (runHist g s0 hist) c).1.lastValues = (afterUndo (runHist g s0 hist) c).1.lastValues ∧
    (change g (runHist g s0 hist) c).1.lastUndo = [] := by
  have hI := inv_reachable g hwf x0 s0 h0 hist hv
  obtain ⟨hI', _⟩ := change_spec g hwf _ c hI hc
  obtain ⟨h1, h2, h3⟩ := afterUndo_spec g _ c hI hc
  obtain ⟨_, _, hf, _⟩ := applyChanges_spec g hwf _ _ h3 h1 h2
  refine ⟨coh_evalFresh g hwf _ _ hI'.cur, (hf hr).1, ?_⟩
  show (applyChanges g _ _).1.lastUndo = []
  have hr' : (applyChanges g (afterUndo (runHist g s0 hist) c).1 (afterUndo (runHist g s0 hist) c).2).2 = none := hr
  rw [applyChanges_eq] at hr' ⊢
  cases hok : (stage4 g (afterUndo (runHist g s0 hist) c).1 (afterUndo (runHist g s0 hist) c).2).2 with
  | true => rw [hok] at hr'; simp at hr'
  | false => simp

/-- the `assert data[cell.rank] is not base[cell.rank]` in `change` can never fire: a recycled
cell about to be recomputed never shares its array with the buffer kept for undo -/
theorem spare_assert_never_fails (g : Graph V) (hwf : g.WF) (x0 : Nat → V) (s0 : St V)
    (h0 : init g x0 = some s0) (hist : List (List (Nat × V))) (hv : ∀ c, c ∈ hist → ValidCh g c)
    (c : List (Nat × V)) (hc : ValidCh g c) :
    assertOK g (flipped (afterUndo (runHist g s0 hist) c).1)
      (program g ((afterUndo (runHist g s0 hist) c).2.map (·.1))) = true := by
  have hI := inv_reachable g hwf x0 s0 h0 hist hv
  obtain ⟨_, h2, _⟩ := afterUndo_spec g _ c hI hc
  have hp := (prepare_ptr g (flipped (afterUndo (runHist g s0 hist) c).1)
    (program g ((afterUndo (runHist g s0 hist) c).2.map (·.1))) h2).2
  unfold assertOK
  rw [List.all_eq_true]
  intro r hr
  by_cases hrec : g.isRec r = true
  · have := hp r hr hrec
    simp [hrec, this]
  · simp [hrec]

/-! ### non-vacuity: a concrete graph with a recycled cell and a failing calc, a history with an
exact reversal and a failing call -/

def exG : Graph Int :=
  { cells := [.opt id, .opt (· + 1),
              .eval false [0, 1] (fun l => some (l.foldl (· + ·) 0)),
              .eval true [2, 0] (fun l => if l.getD 0 0 = 7 then none else some (2 * l.getD 0 0 + l.getD 1 0)),
              .eval false [3, 1] (fun l => some (l.getD 0 0 * l.getD 1 0))],
    nOpt := 2 }

theorem exG_wf : exG.WF := by
  refine ⟨?_, ?_, by decide⟩
  · intro k hk a ha
    have : k < 5 := hk
    match k, this with
    | 0, _ => simp [exG, Graph.cell, Cell.args] at ha
    | 1, _ => simp [exG, Graph.cell, Cell.args] at ha
    | 2, _ => simp [exG, Graph.cell, Cell.args] at ha; omega
    | 3, _ => simp [exG, Graph.cell, Cell.args] at ha; omega
    | 4, _ => simp [exG, Graph.cell, Cell.args] at ha; omega
  · intro k hk
    have : k < 5 := hk
    match k, this with
    | 0, _ => simp [exG, Graph.cell, Cell.isOpt]
    | 1, _ => simp [exG, Graph.cell, Cell.isOpt]
    | 2, _ => simp [exG, Graph.cell, Cell.isOpt]
    | 3, _ => simp [exG, Graph.cell, Cell.isOpt]
    | 4, _ => simp [exG, Graph.cell, Cell.isOpt]

def exX0 : Nat → Int := fun _ => 1
/-- change p0 (result 32), revert it (undo path), change both, then a call that makes cell 3 raise (p0+p1+1 = 7) -/
def exHist : List (List (Nat × Int)) := [[(0, 4)], [(0, 1)], [(1, 2), (0, 3)], [(0, 4)], [(1, 0)]]

example : ∃ s0, init exG exX0 = some s0 := ⟨_, rfl⟩
example : ∀ c, c ∈ exHist → ValidCh exG c := by
  intro c hc
  simp only [exHist, List.mem_cons, List.not_mem_nil, or_false] at hc
  rcases hc with rfl | rfl | rfl | rfl | rfl <;> (constructor <;> simp [exG])
example : (init exG exX0).map (fun s0 => curValues exG (runHist exG s0 exHist)) = some [3, 1, 4, 11, 11] := by
  decide
example : (init exG exX0).map (fun s0 => (change exG (runHist exG s0 (exHist.take 3)) [(0, 4)]).2) = some none := by
  decide
example : (init exG exX0).map (fun s0 => (change exG (runHist exG s0 (exHist.take 1)) [(0, 1)]).2) = some (some 14) := by
  decide
example : (init exG exX0).map (fun s0 => diffVec exG s0 [1, 2]) = some [(1, 2)] := by decide

/-! ### histories of `testoptparvector` calls (what an optimiser actually issues) (added by the audit) -/

/-- a whole history of `calculator(values)` calls; each call's change list depends on the state it meets -/
def runCalls (g : Graph V) : St V → List (List V) → St V
  | s, [] => s
  | s, v :: vs => runCalls g (call g s v).1 vs

/-- every history of `testoptparvector` calls is a history of valid `change` calls, so every theorem
above stated for `runHist` applies to optimiser-driven histories -/
theorem calls_are_valid_changes (g : Graph V) (s0 : St V) (vs : List (List V)) :
    ∃ hist, (∀ c, c ∈ hist → ValidCh g c) ∧ runCalls g s0 vs = runHist g s0 hist := by
  induction vs generalizing s0 with
  | nil => exact ⟨[], by simp, rfl⟩
  | cons v vs ih =>
    obtain ⟨h, hv, he⟩ := ih (call g s0 v).1
    refine ⟨diffVec g s0 v :: h, ?_, ?_⟩
    · intro c hc
      rcases List.mem_cons.1 hc with rfl | hc
      · exact call_changes_valid g s0 v
      · exact hv c hc
    · simp only [runCalls, runHist]
      exact he

/-- **calls_consistent**: after ANY history of `calculator(x)` calls (succeeding, exactly reverting,
raising) every cell of the current buffer equals a fresh evaluation at the vector the calculator
reports; no hypothesis on the vectors at all -/
theorem calls_consistent (g : Graph V) (hwf : g.WF) (x0 : Nat → V) (s0 : St V)
    (h0 : init g x0 = some s0) (vs : List (List V)) :
    evalFresh g (runCalls g s0 vs).lastValues = some (curValues g (runCalls g s0 vs)) := by
  obtain ⟨hist, hv, he⟩ := calls_are_valid_changes g s0 vs
  rw [he]
  exact calc_consistent g hwf x0 s0 h0 hist hv

/-- **calls_last_correct**: if the last call of a history of calls succeeds, the calculator is at the
requested vector and the value returned is `f(values)` computed from scratch -/
theorem calls_last_correct (g : Graph V) (hwf : g.WF) (x0 : Nat → V) (s0 : St V)
    (h0 : init g x0 = some s0) (vs : List (List V)) (hpos : 0 < g.n) (values : List V) (v : V)
    (hr : (call g (runCalls g s0 vs) values).2 = some v) :
    (∀ j, j < g.nOpt → (call g (runCalls g s0 vs) values).1.lastValues j = values.getD j default) ∧
    (evalFresh g (call g (runCalls g s0 vs) values).1.lastValues).map (fun l => l.getD (g.n - 1) default)
      = some v := by
  obtain ⟨hist, hv, he⟩ := calls_are_valid_changes g s0 vs
  rw [he] at hr ⊢
  exact call_correct g hwf x0 s0 h0 hist hv hpos values v hr

/-- non-vacuity: the same walk as `exHist` issued as calls: (4,1), back to (1,1) (undo path), (3,2),
(4,2) raises, (3,0); then a successful call to (2,5) returns f(2,5) = 2*8+2 times 6 = 108 -/
def exCalls : List (List Int) := [[4, 1], [1, 1], [3, 2], [4, 2], [3, 0]]
example : (init exG exX0).map (fun s0 => curValues exG (runCalls exG s0 exCalls)) = some [3, 1, 4, 11, 11] := by
  decide
example : (init exG exX0).map (fun s0 => (call exG (runCalls exG s0 (exCalls.take 3)) [4, 2]).2) = some none := by
  decide
example : (init exG exX0).map (fun s0 => (call exG (runCalls exG s0 exCalls) [2, 5]).2) = some (some 108) := by
  decide
example : (init exG exX0).map (fun s0 => lastVec exG (call exG (runCalls exG s0 exCalls) [2, 5]).1) = some [2, 5] := by
  decide

/-! ## the ParameterController layer (dirty set, `updates_postponed`) -/
section controller
open CogentModel.Ctl

/-- **controller_consistent**: after ANY history of `assign` and arbitrarily nested
`updates_postponed` blocks — left normally or by an exception (`Op.xexit`; the context manager's
`finally:` restores the flag and propagates) — whenever no block is open, updates are not
suspended, nothing is marked dirty and every definition's value is what its rule gives from the
current settings / argument values. -/
theorem controller_consistent (g : Ctl.Graph V) (hwf : Ctl.WF g) (setting : Nat → V)
    (hist : List (Op V)) :
    Ctl.Inv g (Ctl.run g (Ctl.init g setting) hist) ∧
    ((Ctl.run g (Ctl.init g setting) hist).stack = [] →
      (Ctl.run g (Ctl.init g setting) hist).suspended = false ∧
      (Ctl.run g (Ctl.init g setting) hist).changed = [] ∧
      ∀ k, k < g.length → LocalOK g (Ctl.run g (Ctl.init g setting) hist) k) := by
  have h0 : Ctl.Inv g (Ctl.init g setting) := by
    have hJ0 : J g (Ctl.init0 g setting) := by
      intro k hk hkc; exact absurd (by simpa [Ctl.init0] using hk) hkc
    obtain ⟨a, b, c, d, _⟩ := updateIntermediate_spec g hwf _ hJ0
    refine ⟨a, ?_, fun _ => b rfl⟩
    show StackOK (Ctl.init g setting).suspended (Ctl.init g setting).stack
    unfold Ctl.init
    rw [c, d]; rfl
  have hI : Ctl.Inv g (Ctl.run g (Ctl.init g setting) hist) := by
    generalize Ctl.init g setting = s0 at h0
    induction hist generalizing s0 with
    | nil => exact h0
    | cons o os ih =>
      simp only [Ctl.run]
      exact ih _ (step_inv g hwf s0 o h0)
  refine ⟨hI, fun hst => ?_⟩
  have hs := hI.stack
  rw [hst] at hs
  have hsusp : (Ctl.run g (Ctl.init g setting) hist).suspended = false := hs
  refine ⟨hsusp, hI.clean hsusp, fun k hk => hI.j k hk ?_⟩
  rw [hI.clean hsusp]; simp

/-- the settings the values are consistent with are the last assigned ones: `assign k v` stores
`v`, no other operation touches a setting -/
theorem controller_setting_last_assigned (g : Ctl.Graph V) (s : Ctl.St V) (k : Nat) (v : V) :
    (Ctl.step g s (.assign k v)).setting k = v ∧
    (∀ j, j ≠ k → (Ctl.step g s (.assign k v)).setting j = s.setting j) ∧
    (Ctl.step g s .enter).setting = s.setting ∧ (Ctl.step g s .exit).setting = s.setting ∧
    (Ctl.step g s .xexit).setting = s.setting := by
  have hloop : ∀ (ks : List Nat) (t : Ctl.St V), (Ctl.updateLoop g ks t).setting = t.setting := by
    intro ks
    induction ks with
    | nil => intro t; rfl
    | cons a ks ih =>
      intro t
      unfold Ctl.updateLoop
      split
      · rw [ih]; exact (updateOne_fields g t a).1
      · exact ih t
  have hui : ∀ t : Ctl.St V, (Ctl.updateIntermediate g t).setting = t.setting := by
    intro t
    unfold Ctl.updateIntermediate
    split
    · rfl
    · exact hloop _ t
  refine ⟨?_, ?_, rfl, ?_, ?_⟩
  · show (Ctl.updateIntermediate g _).setting k = v
    rw [hui]; simp [Ctl.upd]
  · intro j hj
    show (Ctl.updateIntermediate g _).setting j = _
    rw [hui]; simp [Ctl.upd, hj]
  · unfold Ctl.step
    cases s.stack with
    | nil => rfl
    | cons o r => simp only []; rw [hui]
  · unfold Ctl.step
    cases s.stack with
    | nil => rfl
    | cons o r => simp only []; rw [hui]

/-- values are determined by the settings: two states with the same leaf settings in which every
definition is locally consistent hold the same values (added by the audit) -/
theorem localOK_unique (g : Ctl.Graph V) (hwf : Ctl.WF g) (s t : Ctl.St V)
    (hset : ∀ k, k < g.length → t.setting k = s.setting k)
    (hs : ∀ k, k < g.length → LocalOK g s k) (ht : ∀ k, k < g.length → LocalOK g t k) :
    ∀ k, k < g.length → t.values k = s.values k := by
  intro k
  induction k using Nat.strongRecOn with
  | _ k ih =>
    intro hk
    have h1 := hs k hk
    have h2 := ht k hk
    unfold LocalOK at h1 h2
    cases hd : Ctl.defn g k with
    | leaf =>
      simp only [hd] at h1 h2
      rw [h1, h2, hset k hk]
    | derived args f =>
      simp only [hd] at h1 h2
      rw [h1, h2]
      congr 1
      apply List.map_congr_left
      intro a ha
      have hak : a < k := hwf k hk a (by simp [hd, Defn.args, ha])
      exact ih a hak (by omega)

/-- **controller_equals_fresh** (the property as worded, for the controller model): after ANY
history, whenever no block is open, every definition's value equals the value in a NEWLY BUILT
controller (`Ctl.init`) given the same final settings (added by the audit) -/
theorem controller_equals_fresh (g : Ctl.Graph V) (hwf : Ctl.WF g) (setting : Nat → V)
    (hist : List (Op V)) (hst : (Ctl.run g (Ctl.init g setting) hist).stack = []) :
    ∀ k, k < g.length →
      (Ctl.run g (Ctl.init g setting) hist).values k
        = (Ctl.init g (Ctl.run g (Ctl.init g setting) hist).setting).values k := by
  have hA := ((controller_consistent g hwf setting hist).2 hst).2.2
  have hJ0 : J g (Ctl.init0 g (Ctl.run g (Ctl.init g setting) hist).setting) := by
    intro k hk hkc; exact absurd (by simpa [Ctl.init0] using hk) hkc
  obtain ⟨_, _, _, hstack, hsetting⟩ := updateIntermediate_spec g hwf _ hJ0
  have hB := (controller_consistent g hwf (Ctl.run g (Ctl.init g setting) hist).setting []).2
  simp only [Ctl.run] at hB
  have hB' := (hB (by show (Ctl.updateIntermediate g _).stack = []; rw [hstack]; rfl)).2.2
  intro k hk
  exact (localOK_unique g hwf _ _ (fun j _ => by
    show (Ctl.updateIntermediate g _).setting j = _
    rw [hsetting]; rfl) hA hB' k hk).symm

/-- non-vacuity, including a block left by an exception followed by a further assignment: the
derived values follow (this is the history that was the defect before updates_postponed got its
try/finally) -/
example :
    let g : Ctl.Graph Int := [.leaf, .derived [0] (fun l => l.getD 0 0 + 1)]
    let s := Ctl.run g (Ctl.init g (fun _ => 1)) [.enter, .assign 0 5, .xexit, .assign 0 7]
    s.stack = [] ∧ s.suspended = false ∧ s.setting 0 = 7 ∧ s.values 1 = 8 := by
  decide

example : Ctl.WF ([.leaf, .leaf, .derived [0, 1] (fun l => l.foldl (· + ·) 0), .derived [2, 0] (fun l => l.foldl (· * ·) 1)] : Ctl.Graph Int) := by
  intro k hk a ha
  have : k < 4 := hk
  match k, this with
  | 0, _ => simp [Ctl.defn, Defn.args] at ha
  | 1, _ => simp [Ctl.defn, Defn.args] at ha
  | 2, _ => simp [Ctl.defn, Defn.args] at ha; omega
  | 3, _ => simp [Ctl.defn, Defn.args] at ha; omega
example :
    let g : Ctl.Graph Int := [.leaf, .leaf, .derived [0, 1] (fun l => l.foldl (· + ·) 0), .derived [2, 0] (fun l => l.foldl (· * ·) 1)]
    let s := Ctl.run g (Ctl.init g (fun _ => 1)) [.enter, .assign 0 5, .enter, .assign 1 2, .exit, .assign 0 3, .exit]
    s.stack = [] ∧ (List.range 4).map s.values = [3, 2, 5, 15] := by
  decide

/-- non-vacuity of `controller_equals_fresh`: nested blocks, then compared with a newly built controller -/
example :
    let g : Ctl.Graph Int := [.leaf, .leaf, .derived [0, 1] (fun l => l.foldl (· + ·) 0), .derived [2, 0] (fun l => l.foldl (· * ·) 1)]
    let s := Ctl.run g (Ctl.init g (fun _ => 1)) [.enter, .assign 0 5, .enter, .assign 1 2, .exit, .assign 0 3, .exit]
    s.stack = [] ∧ (List.range 4).map s.values = (List.range 4).map (Ctl.init g s.setting).values ∧
      (List.range 4).map (Ctl.init g s.setting).values = [3, 2, 5, 15] := by
  decide

end controller

/-! ## rule export / import (`get_param_rules` → `apply_param_rules`) for one scalar parameter -/
section rules
open CogentModel.Rules

/-- a history of `set_param_rule` calls on one parameter; calls that raise leave the state as it was -/
def runRules (d : Rules.Defn) : Rules.St → List RuleArgs → Rules.St
  | s, [] => s
  | s, r :: rs =>
    match setRule d s r with
    | .ok s' => runRules d s' rs
    | .error _ => runRules d s rs

/-- **rules_roundtrip**: for every parameter definition (any number of edges, any class defaults
`lower ≤ default ≤ upper`, `independent_by_default` or not) and after EVERY history of
`set_param_rule` calls (any scopes, constant / free, values, bounds, independent or not, failing
calls included), exporting the rules and applying them in order to a newly built function
succeeds and gives every edge the same setting (value, constness, bounds), the same sharing of
setting objects between edges, and the same number of free parameters. -/
theorem rules_roundtrip (d : Rules.Defn) (hd : d.dLo ≤ d.dVal ∧ d.dVal ≤ d.dHi) (hist : List RuleArgs) :
    ∃ s', applyRules d (Rules.fresh d) (exportRules d (runRules d (Rules.fresh d) hist)) = .ok s' ∧
      (∀ e, e < d.nEdges → s'.setting e = (runRules d (Rules.fresh d) hist).setting e) ∧
      (∀ e1 e2, e1 < d.nEdges → e2 < d.nEdges →
        (s'.asg e1 = s'.asg e2 ↔ (runRules d (Rules.fresh d) hist).asg e1 = (runRules d (Rules.fresh d) hist).asg e2)) ∧
      Rules.nfp d s' = Rules.nfp d (runRules d (Rules.fresh d) hist) := by
  have hI : Inv2 d (runRules d (Rules.fresh d) hist) := by
    have h0 := fresh_inv d hd
    generalize Rules.fresh d = s0 at h0
    induction hist generalizing s0 with
    | nil => exact h0
    | cons r rs ih =>
      simp only [runRules]
      cases hs : setRule d s0 r with
      | ok s1 => exact ih s1 (setRule_inv d s0 s1 r hs h0)
      | error e => exact ih s0 h0
  exact roundtrip d _ hI.2

/-- non-vacuity: 4 edges, lengths-like parameter (independent by default): an edge subset made one
shared constant, another edge re-bounded and clamped, a failing call in between; the export has
three rules and re-importing reproduces 2 free parameters -/
def exD : Rules.Defn := { nEdges := 4, dLo := 0, dVal := 1, dHi := 10, indepDefault := true }
def exRules : List RuleArgs :=
  [ { edges := some [0, 2], isIndependent := some false, isConstant := true, value := some 2, init := none, lower := none, upper := none },
    { edges := some [1], isIndependent := none, isConstant := true, value := none, init := some 3, lower := none, upper := none },
    { edges := some [1], isIndependent := none, isConstant := false, value := none, init := some 7, lower := some 1, upper := some 4 } ]
example : (exportRules exD (runRules exD (Rules.fresh exD) exRules)).length = 3 ∧
    Rules.nfp exD (runRules exD (Rules.fresh exD) exRules) = 2 ∧
    (runRules exD (Rules.fresh exD) exRules).setting 1 = .var 1 4 4 ∧
    (runRules exD (Rules.fresh exD) exRules).setting 2 = .const 2 := by decide
example : exD.dLo ≤ exD.dVal ∧ exD.dVal ≤ exD.dHi := by decide

/-- the failing calls of a history (added by the audit): an edge named twice and an edge that is not in
the tree raise `InvalidScopeError` (as the current `interpret_scope` does), `upper < lower` raises
`ValueError`, a constant with a bound raises `AssertionError`; none of them changes the state -/
def exBad : List RuleArgs :=
  [ { edges := some [1, 1], isIndependent := none, isConstant := false, value := none, init := some 2, lower := none, upper := none },
    { edges := some [0, 4], isIndependent := none, isConstant := false, value := none, init := some 2, lower := none, upper := none },
    { edges := some [3], isIndependent := none, isConstant := false, value := none, init := none, lower := some 5, upper := some 2 },
    { edges := some [3], isIndependent := none, isConstant := true, value := some 1, init := none, lower := some 5, upper := none } ]
example : exBad.map (fun r => match setRule exD (runRules exD (Rules.fresh exD) exRules) r with
    | .error e => e
    | .ok _ => "ok") = ["InvalidScopeError", "InvalidScopeError", "ValueError", "AssertionError"] := by decide
example : (exportRules exD (runRules exD (Rules.fresh exD) (exRules ++ exBad))).length = 3 ∧
    Rules.nfp exD (runRules exD (Rules.fresh exD) (exRules ++ exBad)) = 2 := by decide

/- NOT covered by rules_roundtrip (exercised by the likelihood-function differential only): that equal
settings on every edge give an equal log-likelihood (that is C02), non-scalar parameters (motif
probabilities, which exports floor at 1e-6 by design), bin / locus dimensions, and the interaction
of several parameters (rules of different parameters touch disjoint definitions). -/
end rules

end CogentModel.C07
