import CogentModel.Proofs.PhylipInterleaved
import CogentModel.Props.C06
/-! # C06 — the INTERLEAVED branch of `MinimalPhylipParser` (parse/phylip.py)

`Spec/PhylipInterleaved.lean` describes an interleaved PHYLIP file: header `n L <flag>`, a first block with a line per
sequence (ten-character name column + residues), then any number of later blocks with a residue line per sequence in the
same order; residue parts may be indented and cut into blank-separated groups; blank lines may stand ANYWHERE (between
blocks, inside a block, at the end).  The theorem is for all such files: any number of records, any number of blocks, any
(also unequal) block widths. -/
namespace CogentModel.C06
open CogentModel.Splitlines CogentModel.SeqFormats CogentModel.SeqSpec CogentModel.PhylipSpec

/-- **Interleaved PHYLIP files parse to their records.**  For every non-empty list of records with well-formed names,
every first block `b1` (pieces `c r`) and later blocks `bs` (pieces `cs`), with the pieces of every record adding up to the
header's length `L > 0` and a header whose fields are `n`, `L` and at least one more (the interleave flag):
`MinimalPhylipParser` returns, in file order, the names cut to the documented 9 characters and the concatenated pieces. -/
theorem phylip_interleaved_parse (recs : List Rec) (hne : recs ≠ []) (hn : ∀ r ∈ recs, wfName r.1 = true)
    (c : Rec → Str) (cs : List (Rec → Str)) (b1 : List Str) (bs : List (List Str)) (L : Nat) (hL0 : 0 < L)
    (h1 : BlockOf (fun p l => FirstLineOf p.1 p.2 l) (recs.map (fun r => (r.1, c r))) b1)
    (h2 : LaterBlocks recs cs bs)
    (hL : ∀ r ∈ recs, (((c :: cs).map (fun d => d r)).flatten).length = L)
    (header flag : Str) (more : List Str)
    (hh : splitWs header = natDigits recs.length :: natDigits L :: flag :: more) :
    phylipParser (header :: (b1 ++ bs.flatten))
      = .ok (recs.map (fun r => (truncName r.1, ((c :: cs).map (fun d => d r)).flatten))) := by
  have hn0 : ¬ ((recs.length : Int) = 0) := by
    have : 0 < recs.length := List.length_pos_iff.mpr hne
    omega
  have hl0 : ¬ ((L : Int) = 0) := by omega
  unfold phylipParser
  simp only [hh, pyInt_natDigits, bind, Except.bind, hn0, hl0, decide_false, Bool.or_self, Bool.false_eq_true, if_false,
    List.isEmpty_cons]
  have h1' : BlockOf (fun p l => wfName p.1 = true ∧ FirstLineOf p.1 p.2 l) (recs.map (fun r => (r.1, c r))) b1 :=
    blockOf_mono h1 (by
      intro p hp l hl
      simp only [List.mem_map] at hp
      obtain ⟨r, hr, rfl⟩ := hp
      exact ⟨hn r hr, hl⟩)
  have hblock := phyIntGo_block recs.length 10 _ (fun p => truncName p.1) firstLine_split bs.flatten h1'
    (by simpa using hne) 0 [] (by simp)
  rw [show ((0 : Nat) : Int) = 0 from rfl] at hblock
  rw [hblock]
  have hf := feed_first (fun p : Str × Str => truncName p.1) (recs.map (fun r => (r.1, c r))) []
  simp only [List.length_nil, List.nil_append, List.map_map, Function.comp_def] at hf
  rw [show mkFrom 0 [] = [] from rfl] at hf
  rw [hf, phyIntGo_later hne (fun r => truncName r.1) h2 (fun r => [c r])]
  rw [phyIntFinish_mk]
  · simp [List.map_map, Function.comp_def]
  · intro e he
    simp only [List.mem_map] at he
    obtain ⟨r, hr, rfl⟩ := he
    have := hL r hr
    simp only [List.map_cons, List.flatten_cons, List.singleton_append] at this ⊢
    omega

/-- **Interleaved round trip**: if the blocks cut every sequence into its pieces, the parse returns exactly the records
(names up to the documented truncation, order, sequences). -/
theorem phylip_interleaved_roundtrip (recs : List Rec) (hne : recs ≠ []) (hn : ∀ r ∈ recs, wfName r.1 = true)
    (c : Rec → Str) (cs : List (Rec → Str)) (b1 : List Str) (bs : List (List Str)) (L : Nat) (hL0 : 0 < L)
    (h1 : BlockOf (fun p l => FirstLineOf p.1 p.2 l) (recs.map (fun r => (r.1, c r))) b1)
    (h2 : LaterBlocks recs cs bs)
    (hcut : ∀ r ∈ recs, ((c :: cs).map (fun d => d r)).flatten = r.2) (hL : ∀ r ∈ recs, r.2.length = L)
    (header flag : Str) (more : List Str)
    (hh : splitWs header = natDigits recs.length :: natDigits L :: flag :: more) :
    phylipParser (header :: (b1 ++ bs.flatten)) = .ok (recs.map (fun r => (truncName r.1, r.2))) := by
  rw [phylip_interleaved_parse recs hne hn c cs b1 bs L hL0 h1 h2 (fun r hr => by rw [hcut r hr]; exact hL r hr)
    header flag more hh]
  congr 1
  apply List.map_congr_left
  intro r hr
  rw [hcut r hr]

-- non-vacuity: 2 records, 3 blocks of widths 2/2/1, a blank line inside the first block, between blocks and at the end,
-- an indented residue line, blank-separated groups, a 10-character name (cut to 9)
private def exRecs : List Rec := [("seq_number".toList, "ACGTA".toList), ("b".toList, "TT-GG".toList)]
private def exFile : List Str :=
  ["2 5 I".toList, "seq_numbe A C".toList, [], "b         TT".toList, "  ".toList, "GT".toList, "    - G".toList, [],
   "A".toList, "G ".toList, []]
example : BlockOf (fun p l => FirstLineOf p.1 p.2 l) (exRecs.map (fun r => (r.1, r.2.take 2)))
    ["seq_numbe A C".toList, [], "b         TT".toList, "  ".toList] :=
  .line ("seq_number".toList, "AC".toList) _ ⟨"A C".toList, by decide, by decide, by decide, by decide⟩ <|
  .blank _ (by decide) <|
  .line ("b".toList, "TT".toList) _ ⟨"TT".toList, by decide, by decide, by decide, by decide⟩ <|
  .blank _ (by decide) .nil
example : LaterBlocks exRecs [fun r => (r.2.drop 2).take 2, fun r => r.2.drop 4]
    [["GT".toList, "    - G".toList, []], ["A".toList, "G ".toList, []]] :=
  .cons _ _ (.line ("seq_number".toList, "GT".toList) _ ⟨by decide, by decide, by decide⟩ <|
             .line ("b".toList, "-G".toList) _ ⟨by decide, by decide, by decide⟩ <| .blank _ (by decide) .nil) <|
  .cons _ _ (.line ("seq_number".toList, "A".toList) _ ⟨by decide, by decide, by decide⟩ <|
             .line ("b".toList, "G".toList) _ ⟨by decide, by decide, by decide⟩ <| .blank _ (by decide) .nil) .nil
example : phylipParser exFile = .ok [("seq_numbe".toList, "ACGTA".toList), ("b".toList, "TT-GG".toList)] := by decide
example : splitWs "2 5 I".toList = [natDigits 2, natDigits 5, "I".toList] := by decide

end CogentModel.C06
