import CogentModel.Model.PairHMM
import CogentModel.Spec.PairHMM
import CogentModel.Model.GapMerge
import CogentModel.Proofs.PairHMMMain
import CogentModel.Proofs.PairHMMLocal
import CogentModel.Model.Hirschberg
import CogentModel.Proofs.HirschMain
import CogentModel.Model.ClassicHMM
import CogentModel.Proofs.ClassicHMM
import CogentModel.Proofs.GapMerge
import CogentModel.Proofs.GapRepaired3
import CogentModel.Proofs.Progressive
/-! # C18 — property theorems: aligners preserve their inputs and are optimal for their own model

`S` is any score type with `+` and a strict total order respected by `+` (`ScoreLaws`; instances `Int`, `Rat`);
`Option S` adds `-inf`.  `h : HMM S` is an arbitrary pair HMM (any number of states with any `(dx, dy)` directions,
any log transition matrix incl. BEGIN/END rows, any emission scores) without silent states, as `adapt_pair_tm`
guarantees.  `n`, `m` are arbitrary sequence lengths. -/
namespace CogentModel.C18
open CogentModel.PairHMM CogentModel.GapMerge

variable {S : Type} [Add S] [LT S] [DecidableLT S] [ScoreLaws S]

/-- **No other path scores higher, and the optimum is attained.**  The value the Viterbi kernel model reports for a
global alignment is `≥` the spec score of *every* state path that emits exactly the two sequences, and (when finite)
it *is* the score of one of them.  (Bellman induction over all `(i, j)`; no bound on lengths or states.) -/
theorem viterbi_optimal (h : HMM S) (hns : NoSilent h) (n m : Nat) :
    (∀ p, IsGlobalPath h n m p → ele (globalScore h p) (viterbiGlobal h n m).score) ∧
    (∀ v, (viterbiGlobal h n m).score = some v → ∃ p, IsGlobalPath h n m p ∧ globalScore h p = some v) :=
  ⟨fun p hp => global_upper h n m p hp,
   fun v hv => let ⟨p, _, hp, hs⟩ := global_attained h hns n m v hv; ⟨p, hp, hs⟩⟩

/-- the maximum is unique as a value: any path that is as good as all others has exactly the reported score -/
theorem viterbi_value_unique (h : HMM S) (hns : NoSilent h) (n m : Nat) (p : List Nat) (hp : IsGlobalPath h n m p)
    (hbest : ∀ q, IsGlobalPath h n m q → ele (globalScore h q) (globalScore h p)) :
    globalScore h p = (viterbiGlobal h n m).score := by
  apply ele_antisymm (global_upper h n m p hp)
  cases hv : (viterbiGlobal h n m).score with
  | none => exact ele_none _
  | some v =>
    obtain ⟨q, _, hq, hs⟩ := global_attained h hns n m v hv
    rw [← hs]; exact hbest q hq

/-- **The traceback returns a genuine path**: whenever the reported score is finite the pointer walk succeeds and
yields the `(state, i, j)` annotation of a state path that starts at `(0, 0)` and emits exactly `n` and `m` residues. -/
theorem traceback_path_valid (h : HMM S) (hns : NoSilent h) (n m : Nat) (v : S)
    (hv : (viterbiGlobal h n m).score = some v) :
    ∃ p, (viterbiGlobal h n m).path = some (annotate h 0 0 p) ∧ IsGlobalPath h n m p :=
  let ⟨p, hpath, hp, _⟩ := global_attained h hns n m v hv; ⟨p, hpath, hp⟩

/-- **Reported score = independently recomputed score of the returned path** (the spec's `globalScore` knows
nothing about the DP). -/
theorem traceback_score (h : HMM S) (hns : NoSilent h) (n m : Nat) (v : S)
    (hv : (viterbiGlobal h n m).score = some v) :
    ∃ p, (viterbiGlobal h n m).path = some (annotate h 0 0 p) ∧ globalScore h p = (viterbiGlobal h n m).score :=
  let ⟨p, hpath, _, hs⟩ := global_attained h hns n m v hv; ⟨p, hpath, by rw [hs, hv]⟩

/-- **Local alignment: no other local path scores higher, and the optimum is attained.**  Local paths are all state
paths over *any contiguous sub-pair* `s1[i0:i1]`, `s2[j0:j1]` that start and end in a match state (the kernel's restart and
best-cell rules); their score has the BEGIN transition and no END transition. -/
theorem viterbi_optimal_local (h : HMM S) (hns : NoSilent h) (n m : Nat) :
    (∀ i0 j0 p, IsLocalPath h n m i0 j0 p → ele (prefixScore h i0 j0 p) (viterbiLocal h n m).score) ∧
    (∀ v, (viterbiLocal h n m).score = some v →
      ∃ p i0 j0, IsLocalPath h n m i0 j0 p ∧ prefixScore h i0 j0 p = some v) :=
  ⟨fun i0 j0 p hp => local_upper h n m i0 j0 p hp,
   fun v hv => let ⟨p, i0, j0, _, hp, hs⟩ := local_attained h hns n m v hv; ⟨p, i0, j0, hp, hs⟩⟩

/-- **Local traceback**: the returned path is a local path of the inputs, its independently recomputed score is the
reported score, and its rows degap to the contiguous parts `s1[i0:i1]`, `s2[j0:j1]` it covers. -/
theorem traceback_score_local (h : HMM S) (hns : NoSilent h) {α : Type} (s1 s2 : List α) (v : S)
    (hv : (viterbiLocal h s1.length s2.length).score = some v) :
    ∃ p i0 j0, (viterbiLocal h s1.length s2.length).path = some (annotate h i0 j0 p) ∧
      IsLocalPath h s1.length s2.length i0 j0 p ∧
      prefixScore h i0 j0 p = (viterbiLocal h s1.length s2.length).score ∧
      (rowsOfPath h s1 s2 (annotate h i0 j0 p)).1.filterMap id = (s1.drop i0).take ((consumedFrom h i0 j0 p).1 - i0) ∧
      (rowsOfPath h s1 s2 (annotate h i0 j0 p)).2.filterMap id = (s2.drop j0).take ((consumedFrom h i0 j0 p).2 - j0) := by
  obtain ⟨p, i0, j0, hpath, hp, hs⟩ := local_attained h hns s1.length s2.length v hv
  have hd := rows_degap h s1 s2 p i0 j0 hp.2.2.2.2.1 hp.2.2.2.2.2
  exact ⟨p, i0, j0, hpath, hp, by rw [hs, hv], hd.1, hd.2⟩

/-- **Rows degap to the inputs**: the gapped rows built from the returned path contain, in order, exactly the
residues of the two input sequences (any alphabet `α`). -/
theorem rows_degap_to_inputs (h : HMM S) (hns : NoSilent h) {α : Type} (s1 s2 : List α) (v : S)
    (hv : (viterbiGlobal h s1.length s2.length).score = some v) :
    ∃ steps, (viterbiGlobal h s1.length s2.length).path = some steps ∧
      (rowsOfPath h s1 s2 steps).1.filterMap id = s1 ∧ (rowsOfPath h s1 s2 steps).2.filterMap id = s2 := by
  obtain ⟨p, hpath, hp, _⟩ := global_attained h hns s1.length s2.length v hv
  have hd := rows_degap h s1 s2 p 0 0 (Nat.le_of_eq (by rw [hp.2])) (Nat.le_of_eq (by rw [hp.2]))
  rw [hp.2] at hd
  exact ⟨_, hpath, by simpa using hd.1, by simpa using hd.2⟩

/-- for a path anywhere inside the sequences (local alignment): the rows degap to the contiguous parts
`s1[i0:i1]`, `s2[j0:j1]` the path covers -/
theorem rows_degap_to_contiguous_part (h : HMM S) {α : Type} (s1 s2 : List α) (p : List Nat) (i0 j0 : Nat)
    (h1 : (consumedFrom h i0 j0 p).1 ≤ s1.length) (h2 : (consumedFrom h i0 j0 p).2 ≤ s2.length) :
    (rowsOfPath h s1 s2 (annotate h i0 j0 p)).1.filterMap id = (s1.drop i0).take ((consumedFrom h i0 j0 p).1 - i0) ∧
    (rowsOfPath h s1 s2 (annotate h i0 j0 p)).2.filterMap id = (s2.drop j0).take ((consumedFrom h i0 j0 p).2 - j0) :=
  rows_degap h s1 s2 p i0 j0 h1 h2

/-- **Rows have equal length** (one column per step of the path), for every path whatsoever. -/
theorem rows_equal_length (h : HMM S) {α : Type} (s1 s2 : List α) (steps : List (Nat × Nat × Nat)) :
    (rowsOfPath h s1 s2 steps).1.length = (rowsOfPath h s1 s2 steps).2.length := by
  rw [(rows_len h s1 s2 steps).1, (rows_len h s1 s2 steps).2]

/-- **Merging keeps the pairwise alignment — partial**: for a single well-formed pairwise alignment (any gap
layout, any lengths) `pairwise_to_multiple` returns rows whose common-gap-free projection is that alignment;
holds for the pinned and for the repaired `_gaps_for_injection`. -/
theorem merge_keeps_pairwise_partial (fixed : Bool) (reflen : Int) (rg og : Gaps) (len : Int)
    (hv : pairValid reflen (rg, og, len) = true) : keepsAll fixed reflen [(rg, og, len)] = true :=
  keepsAll_single fixed reflen rg og len hv

/-- **…and fails for the code as written** on three well-formed pairwise alignments: reference `CTAA` with
`(C-TAA-, ACTCTC)`, `(CTAA-, -TCCA)`, `(CTAA, --CA)` (gap dicts below); the model of the pinned code does not keep
the third pairwise alignment. -/
theorem merge_keeps_pairwise_counter :
    let pw : List (Gaps × Gaps × Int) := [([(1,1),(4,1)], [], 6), ([(4,1)], [(0,1)], 4), ([], [(0,2)], 2)]
    (pw.all (pairValid 4)) = true ∧ keepsAll false 4 pw = false := by decide

/-- **Merging keeps every pairwise alignment — for the PROPOSED REPAIR.**  This is a theorem about the model variant
`fixed = true`, i.e. `pairwise_to_multiple` with `_gaps_for_injection` replaced by `fixes/C18-p2m-gap-injection.patch`
(`seq_position`: alignment column → number of residues before it, a column inside a gap belongs to that gap); all other
functions (`_GapOffset`, `_gap_union`/`_merged_gaps`, `_gap_difference`, `_subset_gaps_to_align_coords`,
`_combined_refseq_gaps`, the injection loop) are the pinned code.  For EVERY reference length and EVERY list (any number
≥ 0) of well-formed pairwise alignments to that reference (any gap layouts), the merge succeeds and, for every input
pair, the merged reference row and the merged row of that sequence with their common-gap columns removed are exactly the
pairwise alignment, and the rows have equal length.  The pinned code does NOT satisfy this
(`merge_keeps_pairwise_counter`, known finding C18-p2m-injected-gap-inside-other-gap); the harness ties the repaired
variant to the real `pairwise_to_multiple` with the patched function swapped in. -/
theorem merge_keeps_pairwise_repaired (reflen : Int) (hreflen : 0 ≤ reflen) (pw : List (Gaps × Gaps × Int))
    (hv : ∀ x ∈ pw, pairValid reflen x = true) : keepsAll true reflen pw = true :=
  keepsAll_repaired reflen hreflen pw hv

/-- the pieces of the pinned code the previous theorem rests on, stated on their own: the sequence→alignment
`_GapOffset` returns, for EVERY query, the total length of the gaps at smaller positions -/
theorem gapoffset_seq2aln_spec (g : Gaps) (hnd : (keys g).Nodup) (x : Int) :
    (GapOffset.mk' g false).get x = sumLt g x := s2a_get g hnd x


/-- **Linear-space (Hirschberg) alignment = full dynamic programming.**  `hirsch` mirrors
`PairEmissionProbs.hirschberg` as the code now does it (forward half to the split row, backward half on the reversed
problem, `argmax` over `(column, state)` of the middle row, first half pinned to END in the anchor state, second half
started from the anchor state, recursion until the size test fails, base case = full DP).  For EVERY pair HMM without
silent states, every pair of lengths, every `HIRSCHBERG_LIMIT`, every recursion fuel and every choice of split row
`1 ≤ split n ≤ n` (the code uses `n / 2`): the reported value is the full-DP optimum, and when it is finite the
concatenated traceback is the annotation of ONE state path that emits exactly the two sequences, whose independently
recomputed score is that value and which no other global path beats.  Needs `+` associative/commutative
(`ScoreLawsAC`: `Int`, `Rat`) and `z` = the score of probability 1 (`x + z = x`).  The heart is the cut lemma
(`globalScore_cut`, `mid_upper`, `bwd_upper`/`bwd_attained` in `Proofs/Hirsch*.lean`): max over paths = max over
(cell, state) of the split row of (best prefix ending there) + (best continuation from there). -/
theorem hirschberg_eq_full [ScoreLawsAC S] (z : S) (hz : ∀ x : S, x + z = x) (split : Nat → Nat)
    (hsplit : ∀ n, 3 ≤ n → 1 ≤ split n ∧ split n ≤ n) (limit fuel : Nat) (h : HMM S) (hns : NoSilent h) (n m : Nat) :
    (hirsch z split limit fuel h n m).score = (viterbiGlobal h n m).score ∧
    ∀ v, (hirsch z split limit fuel h n m).score = some v →
      ∃ p, (hirsch z split limit fuel h n m).path = some (annotate h 0 0 p) ∧ IsGlobalPath h n m p ∧
        globalScore h p = some v ∧ ∀ q, IsGlobalPath h n m q → ele (globalScore h q) (globalScore h p) := by
  obtain ⟨hs, hp⟩ := hirsch_correct z hz split hsplit limit fuel h hns n m
  refine ⟨hs, fun v hv => ?_⟩
  obtain ⟨p, hpath, hgp, hsc⟩ := hp v hv
  refine ⟨p, hpath, hgp, hsc, fun q hq => ?_⟩
  rw [hsc, ← hv, hs]
  exact global_upper h n m q hq

/-- the rows of the Hirschberg alignment degap to the inputs (same statement as for the full DP) -/
theorem hirschberg_rows_degap [ScoreLawsAC S] (z : S) (hz : ∀ x : S, x + z = x) (split : Nat → Nat)
    (hsplit : ∀ n, 3 ≤ n → 1 ≤ split n ∧ split n ≤ n) (limit fuel : Nat) (h : HMM S) (hns : NoSilent h)
    {α : Type} (s1 s2 : List α) (v : S) (hv : (hirsch z split limit fuel h s1.length s2.length).score = some v) :
    ∃ steps, (hirsch z split limit fuel h s1.length s2.length).path = some steps ∧
      (rowsOfPath h s1 s2 steps).1.filterMap id = s1 ∧ (rowsOfPath h s1 s2 steps).2.filterMap id = s2 := by
  obtain ⟨p, hpath, hgp, _⟩ := (hirsch_correct z hz split hsplit limit fuel h hns s1.length s2.length).2 v hv
  have hd := rows_degap h s1 s2 p 0 0 (Nat.le_of_eq (by rw [hgp.2])) (Nat.le_of_eq (by rw [hgp.2]))
  rw [hgp.2] at hd
  exact ⟨_, hpath, by simpa using hd.1, by simpa using hd.2⟩

/-! ## from the caller's score matrix and gap costs to optimality -/

theorem logHMM_noSilent {P : Type} [Add P] [Mul P] [Div P] [OfNat P 0] [OfNat P 1] [NatCast P]
    (lg : P → Option S) (n : Nat) (ed ee : P) (es : Nat → Nat → P) (x y : Nat → Nat) :
    NoSilent (ClassicHMM.logHMM lg n ed ee es x y) := by
  intro s h1 h2
  have h2' : s ≤ 3 := h2
  have : s = 1 ∨ s = 2 ∨ s = 3 := by omega
  rcases this with rfl | rfl | rfl <;> rfl

/-- **The chain from the user's parameters to optimality.**  `ClassicHMM.logHMM` is the pair HMM that
`classic_align_pairwise` builds, as a function of `ed = exp(-d)`, `ee = exp(-e)`, `es a b = exp(Sd[a, b])` (any
positive elements of any ordered field) and of the log `lg` (any map): (1) its transition part is a genuine affine-gap
model — every row a probability distribution with extension `ee/(ee+1)`, open `ed/(2ed+1)`, **no X↔Y**, END weight 1,
BEGIN a distribution; (2) a match of s1 motif `a` with s2 motif `b` emits `lg (n · exp(Sd[a, b]))`, gaps emit `lg 1`;
(3) for that HMM the Viterbi value bounds every global path over the two sequences and is attained by the returned
path.  (The harness checks on every run that the real code builds exactly this HMM from the caller's matrix.) -/
theorem classic_alignment_optimal {P : Type} [Field P] [LinearOrder P] [IsStrictOrderedRing P]
    (lg : P → Option S) (n : Nat) (hn : 0 < n) (ed ee : P) (hd : 0 < ed) (he : 0 < ee) (es : Nat → Nat → P)
    (x y : Nat → Nat) (hx : ∀ i, x i < n) (hy : ∀ j, y j < n) (len1 len2 : Nat) :
    (ClassicHMM.IsStochastic (ClassicHMM.gapT ed ee) ∧
      ClassicHMM.stationary (ClassicHMM.gapT ed ee) 0 + ClassicHMM.stationary (ClassicHMM.gapT ed ee) 1 +
        ClassicHMM.stationary (ClassicHMM.gapT ed ee) 2 = 1) ∧
    ((ClassicHMM.logHMM lg n ed ee es x y).T 1 2 = lg 0 ∧ (ClassicHMM.logHMM lg n ed ee es x y).T 2 1 = lg 0 ∧
      (ClassicHMM.logHMM lg n ed ee es x y).T 1 1 = lg (ee / (ee + 1)) ∧
      (ClassicHMM.logHMM lg n ed ee es x y).T 3 1 = lg (ed / (2 * ed + 1)) ∧
      (ClassicHMM.logHMM lg n ed ee es x y).T 3 3 = lg (1 / (2 * ed + 1)) ∧
      (ClassicHMM.logHMM lg n ed ee es x y).T 3 4 = lg 1) ∧
    (∀ i j, (ClassicHMM.logHMM lg n ed ee es x y).em 3 i j = lg ((n : P) * es (x i) (y j)) ∧
      (ClassicHMM.logHMM lg n ed ee es x y).em 1 i j = lg 1 ∧ (ClassicHMM.logHMM lg n ed ee es x y).em 2 i j = lg 1) ∧
    (∀ p, IsGlobalPath (ClassicHMM.logHMM lg n ed ee es x y) len1 len2 p →
      ele (globalScore (ClassicHMM.logHMM lg n ed ee es x y) p)
        (viterbiGlobal (ClassicHMM.logHMM lg n ed ee es x y) len1 len2).score) ∧
    (∀ v, (viterbiGlobal (ClassicHMM.logHMM lg n ed ee es x y) len1 len2).score = some v →
      ∃ p, (viterbiGlobal (ClassicHMM.logHMM lg n ed ee es x y) len1 len2).path =
          some (annotate (ClassicHMM.logHMM lg n ed ee es x y) 0 0 p) ∧
        IsGlobalPath (ClassicHMM.logHMM lg n ed ee es x y) len1 len2 p ∧
        globalScore (ClassicHMM.logHMM lg n ed ee es x y) p = some v) := by
  have hsh := ClassicHMM.fullMatrix_shape ed ee
  refine ⟨⟨ClassicHMM.gapT_stochastic ed ee hd he, (ClassicHMM.begin_is_distribution ed ee hd he).1⟩, ?_, ?_, ?_, ?_⟩
  · simp only [ClassicHMM.logHMM]
    exact ⟨by rw [hsh.1], by rw [hsh.2.1], by rw [hsh.2.2.2.2.1], by rw [hsh.2.2.2.2.2.2.1], by rw [hsh.2.2.2.2.2.2.2.2],
      by rw [hsh.2.2.1 3 (by omega)]⟩
  · intro i j
    simp only [ClassicHMM.logHMM, ClassicHMM.gapProb]
    exact ⟨by simp [ClassicHMM.matchProb_eq n hn es (x i) (y j) (hx i) (hy j)], by simp, by simp⟩
  · exact fun p hp => global_upper _ len1 len2 p hp
  · exact fun v hv => global_attained _ (logHMM_noSilent lg n ed ee es x y) len1 len2 v hv

/-! ## additions of the audit: the whole pairwise clause about ONE returned alignment

The theorems above each produce their own `∃ p`.  The two below state, about the single path the model returns,
everything the property asks of a pairwise alignment at once. -/

/-- **Global alignment, all clauses together**: when the reported score is finite, the returned steps are the
annotation of ONE state path `p` that (1) emits exactly the two sequences, (2) has independently recomputed score =
the reported score, (3) is not beaten by ANY other global path, and the rows built from it (4) have equal length and
(5) degap to the two inputs. -/
theorem global_alignment_sound (h : HMM S) (hns : NoSilent h) {α : Type} (s1 s2 : List α) (v : S)
    (hv : (viterbiGlobal h s1.length s2.length).score = some v) :
    ∃ p, (viterbiGlobal h s1.length s2.length).path = some (annotate h 0 0 p) ∧
      IsGlobalPath h s1.length s2.length p ∧
      globalScore h p = (viterbiGlobal h s1.length s2.length).score ∧
      (∀ q, IsGlobalPath h s1.length s2.length q → ele (globalScore h q) (globalScore h p)) ∧
      (rowsOfPath h s1 s2 (annotate h 0 0 p)).1.length = (rowsOfPath h s1 s2 (annotate h 0 0 p)).2.length ∧
      (rowsOfPath h s1 s2 (annotate h 0 0 p)).1.filterMap id = s1 ∧
      (rowsOfPath h s1 s2 (annotate h 0 0 p)).2.filterMap id = s2 := by
  obtain ⟨p, hpath, hp, hs⟩ := global_attained h hns s1.length s2.length v hv
  have hd := rows_degap h s1 s2 p 0 0 (Nat.le_of_eq (by rw [hp.2])) (Nat.le_of_eq (by rw [hp.2]))
  rw [hp.2] at hd
  refine ⟨p, hpath, hp, by rw [hs, hv], ?_, rows_equal_length h s1 s2 _, by simpa using hd.1, by simpa using hd.2⟩
  intro q hq
  rw [hs, ← hv]
  exact global_upper h s1.length s2.length q hq

/-- **Local alignment, all clauses together**: the returned steps annotate ONE local path `p` starting at
`(i0, j0)` whose recomputed score is the reported score, that no local path over ANY contiguous sub-pair beats,
and whose rows have equal length and degap to contiguous parts of the inputs. -/
theorem local_alignment_sound (h : HMM S) (hns : NoSilent h) {α : Type} (s1 s2 : List α) (v : S)
    (hv : (viterbiLocal h s1.length s2.length).score = some v) :
    ∃ p i0 j0, (viterbiLocal h s1.length s2.length).path = some (annotate h i0 j0 p) ∧
      IsLocalPath h s1.length s2.length i0 j0 p ∧
      prefixScore h i0 j0 p = (viterbiLocal h s1.length s2.length).score ∧
      (∀ a b q, IsLocalPath h s1.length s2.length a b q → ele (prefixScore h a b q) (prefixScore h i0 j0 p)) ∧
      (rowsOfPath h s1 s2 (annotate h i0 j0 p)).1.length = (rowsOfPath h s1 s2 (annotate h i0 j0 p)).2.length ∧
      (rowsOfPath h s1 s2 (annotate h i0 j0 p)).1.filterMap id = (s1.drop i0).take ((consumedFrom h i0 j0 p).1 - i0) ∧
      (rowsOfPath h s1 s2 (annotate h i0 j0 p)).2.filterMap id = (s2.drop j0).take ((consumedFrom h i0 j0 p).2 - j0) := by
  obtain ⟨p, i0, j0, hpath, hp, hs⟩ := local_attained h hns s1.length s2.length v hv
  have hd := rows_degap h s1 s2 p i0 j0 hp.2.2.2.2.1 hp.2.2.2.2.2
  refine ⟨p, i0, j0, hpath, hp, by rw [hs, hv], ?_, rows_equal_length h s1 s2 _, hd.1, hd.2⟩
  intro a b q hq
  rw [hs, ← hv]
  exact local_upper h s1.length s2.length a b q hq

/-! ## progressive alignment: the column merge on an arbitrary guide tree (`Model/Progressive.lean`) -/
section progressive
open CogentModel.Progressive

/-- **Progressive alignment, column completion (`pog_traceback`).**  For every pair of child widths and every
`aligned_positions` a DP can return (columns strictly increasing inside each child; columns may be jumped over),
the completed list contains every column of the left child and every column of the right child exactly once and
in order, and keeps the DP's aligned columns as a sub-list. -/
theorem pog_traceback_complete (n1 n2 : Nat) (ap : List Pos) (h : apValid n1 n2 ap 0 0 = true) :
    (pogTraceback n1 n2 ap).filterMap (·.1) = List.range n1 ∧
    (pogTraceback n1 n2 ap).filterMap (·.2) = List.range n2 ∧
    ap.Sublist (pogTraceback n1 n2 ap) := by
  have c := pogTraceback_complete n1 n2 ap h
  refine ⟨?_, ?_, pogLoop_sublist n1 n2 ap 0 0⟩
  · rw [List.range_eq_range', ← c.1]; congr 1
  · rw [List.range_eq_range', ← c.2]; congr 1

/-- **Progressive alignment returns equal-length rows that degap to the inputs — for ANY guide tree.**  For every
binary guide tree (any shape, any number of leaves, any sequences) and any DP outcome at every internal node, the
rows produced by the column merge — the code in /repo since the repair 0eea0ba09 (`fixed = true`, the variant the harness
probes and ties on every run) and the code before it (`fixed = false`) — degap to the leaf sequences, in leaf order, and
all have the length of the root's completed position list.  (Structural induction on the tree.) -/
theorem progressive_rows_degap {α : Type} (fixed : Bool) (t : GTree α) (h : t.valid = true) :
    (t.rows fixed).map degap = t.leaves ∧ ∀ r ∈ t.rows fixed, r.length = t.width :=
  GTree.rows_spec fixed t h

/-- **The repaired column merge keeps every sub-alignment** (all guide trees, all DP outcomes): at every internal
node the rows of the result that belong to the left (right) subtree, restricted to the columns that come from that
child, are exactly the child's alignment; the removed columns are gaps in all of these rows by construction
(`specMerge`).  So the columns the DP aligned are columns of the returned alignment.  This is the theorem about the
code AS IT IS in /repo: the repair `fixes/C18-progressive-column-merge.patch` was applied there as commit 0eea0ba09
(`_calcAligneds` converts the parent's column gaps to sequence positions of each row before `merge_maps`), the harness
probes the variant under test on every run and ties the real rows to `fixed = true`.  The name keeps `_repaired` because
the counterexample below documents the code before that commit. -/
theorem progressive_keeps_children_repaired {α : Type} (l r : GTree α) (ap : List Pos)
    (h : (GTree.node l r ap).valid = true) :
    (((GTree.node l r ap).rows true).take (l.rows true).length).map (project false (GTree.node l r ap).full) = l.rows true ∧
    (((GTree.node l r ap).rows true).drop (l.rows true).length).map (project true (GTree.node l r ap).full) = r.rows true :=
  (GTree.keeps_children l r ap h).2

def exInner : GTree Char := .node (.leaf ['C', 'A']) (.leaf ['A']) [(some 0, none), (some 1, some 0)]
def exTree : GTree Char := .node (.leaf ['G', 'A']) exInner [(none, some 0), (some 0, none), (some 1, some 1)]

/-- **Progressive alignment, everything about the rows in one statement, for the code in /repo** (`fixed = true`):
at every internal node of every valid guide tree the rows degap to the leaves below it in leaf order, have the width of
the node, and restricted to a child's columns are that child's alignment. -/
theorem progressive_alignment_sound {α : Type} (l r : GTree α) (ap : List Pos)
    (h : (GTree.node l r ap).valid = true) :
    ((GTree.node l r ap).rows true).map degap = l.leaves ++ r.leaves ∧
    (∀ row ∈ (GTree.node l r ap).rows true, row.length = (GTree.node l r ap).width) ∧
    (((GTree.node l r ap).rows true).take (l.rows true).length).map (project false (GTree.node l r ap).full) = l.rows true ∧
    (((GTree.node l r ap).rows true).drop (l.rows true).length).map (project true (GTree.node l r ap).full) = r.rows true :=
  ⟨(GTree.rows_spec true _ h).1, (GTree.rows_spec true _ h).2, (GTree.keeps_children l r ap h).2⟩

-- hypotheses satisfiable: the 3-sequence tree (GA,(CA,A)) with a gap column inserted between the inner columns
example : exTree.valid = true ∧ (exTree.rows true).map degap = [['G', 'A'], ['C', 'A'], ['A']] := by decide

/-- **REGRESSION NOTE — the code BEFORE commit 0eea0ba09 did NOT keep sub-alignments** (variant `fixed = false`;
finding C18-progressive-merge-applies-column-gaps-at-sequence-positions, now fixed; its witness is re-checked on every
run).  Kernel-evaluated witness, 3 sequences GA, CA, A on the guide
tree (GA,(CA,A))): the inner node aligns `CA / -A`; the root inserts a gap column between the inner columns; the
third row becomes `-A-` (its `A` under the `G`) instead of `--A`: the parent gap at COLUMN 1 is applied at
SEQUENCE position 1. -/
theorem progressive_keeps_children_counter :
    exTree.valid = true ∧
    exInner.rows false = [[some 'C', some 'A'], [none, some 'A']] ∧
    exTree.rows false = [[none, some 'G', some 'A'], [some 'C', none, some 'A'], [none, some 'A', none]] ∧
    exTree.rows true = [[none, some 'G', some 'A'], [some 'C', none, some 'A'], [none, none, some 'A']] ∧
    ((exTree.rows false).drop 1).map (project true exTree.full) ≠ exInner.rows false := by decide

end progressive

/-! ## non-vacuity: a concrete 3-state affine-gap HMM over `Int` (X = 1, Y = 2, M = 3) -/

def exHMM : HMM Int where
  dirs := [(true, false), (false, true), (true, true)]
  T := fun a b =>
    if b = 0 ∨ a = 4 then none
    else if a = 1 ∧ b = 2 then none else if a = 2 ∧ b = 1 then none     -- no X<->Y
    else if b = 4 then some 0
    else if b = 3 then some 0 else if a = b then some (-1) else some (-3)
  em := fun s i j => if s = 3 then (if (i + j) % 2 = 0 then some 2 else some (-1)) else some 0

def exHMM_noSilent : NoSilent exHMM := by
  intro s h1 h2
  have h2' : s ≤ 3 := h2
  have : s = 1 ∨ s = 2 ∨ s = 3 := by omega
  rcases this with rfl | rfl | rfl <;> rfl

example : (viterbiGlobal exHMM 3 2).score = some 1 := by decide
example : (viterbiGlobal exHMM 3 2).path = some [(3, 1, 1), (3, 2, 2), (1, 3, 2)] := by decide
example : IsGlobalPath exHMM 3 2 [3, 3, 1] ∧ globalScore exHMM [3, 3, 1] = some 1 := by
  refine ⟨⟨?_, by decide⟩, by decide⟩
  intro s hs
  have : s = 3 ∨ s = 1 := by simpa using hs
  rcases this with rfl | rfl <;> exact ⟨by decide, by decide, by decide⟩
example : rowsOfPath exHMM "ACG".toList "AC".toList [(3, 1, 1), (3, 2, 2), (1, 3, 2)] =
    ([some 'A', some 'C', some 'G'], [some 'A', some 'C', none]) := by decide
example : (viterbiLocal exHMM 3 2).score = some 4 ∧ (viterbiLocal exHMM 3 2).path = some [(3, 1, 1), (3, 2, 2)] := by decide
-- hypotheses of `global_alignment_sound` / `local_alignment_sound` on real strings, with the rows they speak about
example : (viterbiGlobal exHMM "ACG".toList.length "AC".toList.length).score = some 1 := by decide
example : (viterbiLocal exHMM "ACG".toList.length "AC".toList.length).score = some 4 ∧
    rowsOfPath exHMM "ACG".toList "AC".toList [(3, 1, 1), (3, 2, 2)] = ([some 'A', some 'C'], [some 'A', some 'C']) := by decide
example : (hirsch (0 : Int) (· / 2) 0 5 exHMM 5 3).score = (viterbiGlobal exHMM 5 3).score ∧
    (hirsch (0 : Int) (· / 2) 0 5 exHMM 5 3).score = some 2 ∧
    (hirsch (0 : Int) (· / 2) 0 5 exHMM 5 3).path =
      some [(1, 1, 0), (1, 2, 0), (3, 3, 1), (3, 4, 2), (3, 5, 3)] ∧
    (viterbiGlobal exHMM 5 3).path = some [(3, 1, 1), (3, 2, 2), (3, 3, 3), (1, 4, 3), (1, 5, 3)] := by decide
example : pairValid 4 ([(1,1),(4,1)], [], 6) = true := by decide
example : keepsAll true 4 [([(1,1),(4,1)], [], 6), ([(4,1)], [(0,1)], 4), ([], [(0,2)], 2)] = true := by decide
example : ∀ x ∈ ([([(1,1),(4,1)], [], 6), ([(4,1)], [(0,1)], 4), ([], [(0,2)], 2)] : List (Gaps × Gaps × Int)),
    pairValid 4 x = true := by decide
-- progressive column merge
open CogentModel.Progressive in
example : apValid 3 2 [(some 0, some 0), (some 2, none)] 0 0 = true ∧
    pogTraceback 3 2 [(some 0, some 0), (some 2, none)] =
      [(some 0, some 0), (some 1, none), (some 2, none), (none, some 1)] := by decide
open CogentModel.Progressive in
example : exTree.valid = true ∧ exTree.leaves = [['G', 'A'], ['C', 'A'], ['A']] ∧ exTree.width = 3 := by decide

end CogentModel.C18
