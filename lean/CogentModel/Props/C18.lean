import CogentModel.Model.PairHMM
import CogentModel.Spec.PairHMM
import CogentModel.Model.GapMerge
/-! # C18 — property theorems (placeholder while the package is being built) -/
namespace CogentModel.C18
open CogentModel.GapMerge

/-- the witness: ref CTAA with (C-TAA-,ACTCTC), (CTAA-,-TCCA), (CTAA,--CA) -/
theorem merge_keeps_pairwise_counter :
    keepsAll false 4 [([(1,1),(4,1)], [], 6), ([(4,1)], [(0,1)], 4), ([], [(0,2)], 2)] = false := by decide

end CogentModel.C18
