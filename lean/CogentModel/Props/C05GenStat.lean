import CogentModel.Props.C05
import CogentModel.Proofs.GenStatLemmas
/-!
# C05 — `GeneralStationary`: the column-balancing loop makes the motif probabilities stationary

`GeneralStationary.calc_exchangeability_matrix` fills `R` from `param_pick` and then, for every `(i, j)` of
`last_in_column` (columns in increasing order, `i > j`), sets `R[i, j] = required / π_i` with
`required = dot(π, R[j]) - dot(π, R[:, j])`, replaced by `|required|` when `|required| ≤ 1e-8`; it raises
`ParameterOutOfBoundsError` when the (adjusted) value is negative.  Ordered field, any dimension.
-/
namespace CogentModel.C05
open CogentModel.RateMatrix Finset

variable {K : Type*} [Field K] [LinearOrder K] [IsStrictOrderedRing K]

/-- **The error branch is taken exactly when `row_total - col_total < -tol`** (for `tol ≥ 0`): values in `[-tol, 0)` are
silently replaced by their absolute value, everything below raises. -/
theorem generalStationary_step_error_iff (n : Nat) (tol : K) (htol : 0 ≤ tol) (pi : Vec K) (R : Mat K) (ij : Nat × Nat) :
    gsStep n tol pi R ij = none ↔
      sumTo n (fun k => vget pi k * mget R ij.2 k) - sumTo n (fun k => vget pi k * mget R k ij.2) < -tol := by
  rw [gsStep_none_iff n tol htol pi R ij, sumTo_eq_sum, sumTo_eq_sum]; rfl

/-- **Feasible parameter vectors**: the whole loop succeeds iff every required value met along the run is `≥ -tol`
(`GsOk` unfolds the run: `-tol ≤ required_1 ∧ -tol ≤ required_2(after step 1) ∧ …`). -/
theorem generalStationary_feasible_iff (n : Nat) (tol : K) (htol : 0 ≤ tol) (pick : Array (Array Nat))
    (lic : List (Nat × Nat)) (pi : Vec K) (params : List K) :
    (exchGeneralStationary n tol pick lic pi params).isSome = true ↔ GsOk n tol pi (exchGeneral n pick params) lic := by
  unfold exchGeneralStationary
  exact gsLoop_isSome_iff n tol htol pi lic _

example : (exchGeneralStationary 2 (1/100 : ℚ) #[#[0, 1], #[0, 0]] [(1, 0)] #[1/4, 3/4] []).isSome = true := by
  decide +kernel
example : exchGeneralStationary 2 (1/100 : ℚ) #[#[0, 0], #[1, 0]] [(1, 0)] #[1/4, 3/4] [] = none := by decide +kernel

/-- **Flow balance after the loop** (exact branch: every required value is `≥ 0`, so no tolerance adjustment is active):
for `last_in_column` sorted by column with `i > j`, target cells initially empty (`param_pick = 0`), `π_i ≠ 0` for the rows
written, covering every column except `j0`, and `π_{j0} ≠ 0`, every column — including the uncorrected one, by
conservation of total flow — has `π`-weighted inflow equal to outflow. -/
theorem generalStationary_flow_balance (n : Nat) (tol : K) (pick : Array (Array Nat)) (lic : List (Nat × Nat))
    (pi : Vec K) (params : List K) (R : Mat K)
    (h : exchGeneralStationary n tol pick lic pi params = some R)
    (hexact : GsExact n tol pi (exchGeneral n pick params) lic)
    (hsorted : lic.Pairwise (fun a b => a.2 < b.2))
    (hcells : ∀ ij ∈ lic, ij.2 < ij.1 ∧ ij.1 < n ∧ vget pi ij.1 ≠ 0 ∧ (pick.getD ij.1 #[]).getD ij.2 0 = 0)
    (j0 : Nat) (hj0 : j0 < n) (hpi0 : vget pi j0 ≠ 0) (hcover : ∀ j, j < n → j ≠ j0 → ∃ i, (i, j) ∈ lic)
    (j : Nat) (hj : j < n) :
    sumTo n (fun i => vget pi i * mget R i j) = sumTo n (fun k => vget pi k * mget R j k) := by
  unfold exchGeneralStationary at h
  have hpw : lic.Pairwise (fun a b => b.2 ≠ a.2 ∧ b.1 ≠ a.2) := by
    refine List.Pairwise.imp_of_mem ?_ hsorted
    intro a b _ hb hab
    have := (hcells b hb).1
    exact ⟨by omega, by omega⟩
  have hc : ∀ ij ∈ lic, ij.1 < n ∧ ij.2 < n ∧ ij.1 ≠ ij.2 ∧ vget pi ij.1 ≠ 0 ∧ mget (exchGeneral n pick params) ij.1 ij.2 = 0 := by
    intro ij hm
    obtain ⟨a1, a2, a3, a4⟩ := hcells ij hm
    exact ⟨a2, by omega, by omega, a3, exchGeneral_zero_cell n pick params a2 (by omega) a4⟩
  obtain ⟨hb1, _⟩ := gsLoop_balanced n tol pi lic _ R h hexact hpw hc
  have hall : ∀ j, j < n → Bal n pi R j := by
    intro j hj
    by_cases hjj : j = j0
    · subst hjj
      exact bal_last n pi R j hj hpi0 fun j' hj' hne => hb1 j' hj' (hcover j' hj' hne)
    · exact hb1 j hj (hcover j hj hjj)
  rw [sumTo_eq_sum, sumTo_eq_sum]
  exact hall j hj

/-- **`generalStationary_piQ_zero`**: hence the stationary construction on `GeneralStationary`'s exchangeability matrix has
`π Q = 0` — `stationaryQ_stationary` with its flow-balance hypothesis discharged. -/
theorem generalStationary_piQ_zero (n : Nat) (tol : K) (pick : Array (Array Nat)) (lic : List (Nat × Nat))
    (pi : Vec K) (params : List K) (R : Mat K)
    (h : exchGeneralStationary n tol pick lic pi params = some R)
    (hexact : GsExact n tol pi (exchGeneral n pick params) lic)
    (hsorted : lic.Pairwise (fun a b => a.2 < b.2))
    (hcells : ∀ ij ∈ lic, ij.2 < ij.1 ∧ ij.1 < n ∧ vget pi ij.1 ≠ 0 ∧ (pick.getD ij.1 #[]).getD ij.2 0 = 0)
    (j0 : Nat) (hj0 : j0 < n) (hpi0 : vget pi j0 ≠ 0) (hcover : ∀ j, j < n → j ≠ j0 → ∃ i, (i, j) ∈ lic)
    (j : Nat) (hj : j < n) :
    sumTo n (fun i => vget pi i * mget (calcQStationary n R (weightSimple n pi) pi) i j) = 0 := by
  apply stationaryQ_stationary n R (weightSimple n pi) pi _ j hj
  intro b hb
  have hbal := generalStationary_flow_balance n tol pick lic pi params R h hexact hsorted hcells j0 hj0 hpi0 hcover b hb
  have hL : sumTo n (fun i => vget pi i * (mget R i b * mget (weightSimple n pi) i b)) =
      sumTo n (fun i => vget pi i * mget R i b) * vget pi b := by
    rw [sumTo_congr (g := fun i => (vget pi i * mget R i b) * vget pi b) fun i hi => by
      unfold weightSimple; rw [mget_tab _ hi hb]; ring]
    rw [sumTo_eq_sum, ← Finset.sum_mul, ← sumTo_eq_sum]
  have hR : sumTo n (fun k => mget R b k * mget (weightSimple n pi) b k) = sumTo n (fun k => vget pi k * mget R b k) :=
    sumTo_congr fun k hk => by unfold weightSimple; rw [mget_tab _ hb hk]; ring
  rw [hL, hR, hbal, mul_comm]

/-- a 3-state instance meeting every hypothesis (pick table of `GeneralStationary` on 3 states, `π` uniform, parameters 1) -/
example : exchGeneralStationary 3 (1/100000000 : ℚ) #[#[0, 1, 2], #[3, 0, 4], #[0, 0, 0]] [(2, 0), (2, 1)] #[1/3, 1/3, 1/3] [1, 1, 1, 1] =
    some #[#[0, 1, 1], #[1, 0, 1], #[1, 1, 0]] := by decide +kernel
example : GsExact 3 (1/100000000 : ℚ) #[1/3, 1/3, 1/3] (exchGeneral 3 #[#[0, 1, 2], #[3, 0, 4], #[0, 0, 0]] [1, 1, 1, 1]) [(2, 0), (2, 1)] := by
  unfold GsExact GsExact GsExact
  refine ⟨?_, ?_, trivial⟩ <;> (unfold gsReq rowT colT; simp only [Finset.sum_range_succ, Finset.sum_range_zero]; decide +kernel)

end CogentModel.C05
