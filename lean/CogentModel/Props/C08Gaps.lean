/-
  C08: `shared_gaps` / `minus_gaps` of IndelMap (the "subtracting gaps" clause), on top of the closed forms of
  `coords_intersect` / `coords_minus_coords` proved in Props/C08Loops.lean for the code translated from the python source.
  The gap runs of a well-formed map in alignment coordinates are proper segments sorted by start (`gapAlignCoords_ok`),
  which is what the `break` of the two loops needs.
-/
import CogentModel.Props.C08Loops
import CogentModel.Proofs.IndelMapInv
namespace CogentModel.C08
open CogentModel CogentModel.FMap CogentModel.IndelMap

theorem gapCoords_lower (lb : Int) : ∀ (ps cs : List Int) (c : Int), (∀ p ∈ ps, lb ≤ p) → (c :: cs).Pairwise (· < ·) →
    ∀ q ∈ (startsFrom c ps cs).zip (gapEnds ps cs), lb + c ≤ q.1 := by
  intro ps
  induction ps with
  | nil => intro cs c _ _ q hq; simp [startsFrom] at hq
  | cons p ps ih =>
    intro cs c hps hc q hq
    cases cs with
    | nil => simp [startsFrom] at hq
    | cons c' cs' =>
      simp only [startsFrom, gapEnds, List.zip_cons_cons, List.mem_cons] at hq
      have hc' := List.pairwise_cons.mp hc
      rcases hq with rfl | hq
      · have := hps p (by simp); simp only; omega
      · have := ih cs' c' (fun p' hp' => hps p' (by simp [hp'])) hc'.2 q hq
        have := hc'.1 c' (by simp); omega

/-- the gap runs of a well-formed map in alignment coordinates are proper segments, sorted by start -/
theorem gapCoords_proper_sorted : ∀ (ps cs : List Int) (prev : Int), ps.Pairwise (· < ·) → (prev :: cs).Pairwise (· < ·) →
    (∀ q ∈ (startsFrom prev ps cs).zip (gapEnds ps cs), q.1 < q.2) ∧
    ((startsFrom prev ps cs).zip (gapEnds ps cs)).Pairwise (fun p q => p.1 ≤ q.1) := by
  intro ps
  induction ps with
  | nil => intro cs prev _ _; simp [startsFrom]
  | cons p ps ih =>
    intro cs prev hp hc
    cases cs with
    | nil => simp [startsFrom]
    | cons c cs' =>
      have hp' := List.pairwise_cons.mp hp
      have hc' := List.pairwise_cons.mp hc
      obtain ⟨i1, i2⟩ := ih cs' c hp'.2 hc'.2
      have hpc := hc'.1 c (by simp)
      simp only [startsFrom, gapEnds, List.zip_cons_cons]
      refine ⟨?_, List.pairwise_cons.mpr ⟨?_, i2⟩⟩
      · intro q hq
        rcases List.mem_cons.mp hq with rfl | hq
        · simp only; omega
        · exact i1 q hq
      · intro q hq
        have := gapCoords_lower p ps cs' c (fun p' hp'' => Int.le_of_lt (hp'.1 p' hp'')) hc'.2 q hq
        simp only; omega

theorem gapAlignCoords_ok (m : IMap) (h : WF m) :
    (∀ q ∈ getGapAlignCoordinates m, q.1 < q.2) ∧ (getGapAlignCoordinates m).Pairwise (fun p q => p.1 ≤ q.1) :=
  gapCoords_proper_sorted m.gapPos m.cumLens 0 h.pos_sorted h.cum_sorted

/-- `shared_gaps(other)`: whenever it returns, a column lies in a returned interval iff it lies in a gap run of BOTH maps
(gap runs in alignment coordinates, `get_gap_align_coordinates`) -/
theorem shared_gaps_cols (a b : IMap) (ha : WF a) (hb : WF b) (r : List (Int × Int)) (h : sharedGaps a b = .ok r) :
    ∀ x, Cov r x ↔ (Cov (getGapAlignCoordinates a) x ∧ Cov (getGapAlignCoordinates b) x) := by
  intro x
  obtain ⟨pa, _⟩ := gapAlignCoords_ok a ha
  obtain ⟨pb, sb⟩ := gapAlignCoords_ok b hb
  obtain ⟨r', hr', hc⟩ := coordsIntersect_model_spec _ _ pa pb sb
  simp only [sharedGaps] at h
  split at h
  · cases h
  · split at h
    · rename_i he
      rw [← Except.ok.inj h]
      have : getGapAlignCoordinates a = [] ∨ getGapAlignCoordinates b = [] := by
        rcases he with he | he
        · left; simp [getGapAlignCoordinates, gapStarts, he, startsFrom]
        · right; simp [getGapAlignCoordinates, gapStarts, he, startsFrom]
      rcases this with e | e <;> simp [e, cov_nil]
    · split at h
      · rename_i hn
        rw [← Except.ok.inj h]
        have : getGapAlignCoordinates b = [] := by simpa using hn
        simp [this, cov_nil]
      · split at h
        · cases h
        · rw [hr'] at h
          rw [← Except.ok.inj h]
          exact hc x

example : sharedGaps ⟨[1, 3], [2, 3], 4⟩ ⟨[0, 3], [1, 3], 4⟩ = .ok [(5, 6)] := by decide

/-- `minus_gaps(other)`: whenever it returns, the new gap list is the closed form `minusClosed` of the two lists of gap runs
(every run of `self` shortened from its end by the number of columns it shares with the runs of `other`, dropped when
nothing is left), re-expressed as gap position (`get_seq_index` of the run's start) and length -/
theorem minus_gaps_closed (a b : IMap) (ha : WF a) (hb : WF b) (m : IMap) (h : minusGaps a b = .ok m)
    (hne : getGapAlignCoordinates b ≠ []) :
    mkLengths ((minusClosed (getGapAlignCoordinates a) (getGapAlignCoordinates b)).map fun u => seqIndexNN a u.1)
      ((minusClosed (getGapAlignCoordinates a) (getGapAlignCoordinates b)).map fun u => u.2 - u.1) a.parentLength = .ok m := by
  obtain ⟨pa, _⟩ := gapAlignCoords_ok a ha
  obtain ⟨pb, sb⟩ := gapAlignCoords_ok b hb
  simp only [minusGaps] at h
  split at h
  · cases h
  · split at h
    · rename_i hn
      exact absurd (by simpa using hn) hne
    · split at h
      · cases h
      · cases hm : coordsMinusCoords (getGapAlignCoordinates a) (getGapAlignCoordinates b) with
        | error e => simp [hm] at h
        | ok uniq =>
          simp only [hm] at h
          rw [← coordsMinusCoords_model_spec _ _ uniq pa pb sb hm]
          exact h

example : minusGaps ⟨[1, 3], [2, 3], 4⟩ ⟨[0, 3], [1, 3], 4⟩ = .ok ⟨[1], [2], 4⟩ := by decide

/-! ### totality of `shared_gaps` -/

theorem le_lastOr : ∀ (cs : List Int) (c : Int), (c :: cs).Pairwise (· < ·) → c ≤ lastOr c cs := by
  intro cs
  induction cs with
  | nil => intro c _; simp [lastOr]
  | cons d ds ih =>
    intro c h
    have h' := List.pairwise_cons.mp h
    have := ih d h'.2
    have := h'.1 d (by simp)
    simp only [lastOr]; omega

theorem gapCoords_upper (pl : Int) : ∀ (ps cs : List Int) (prev : Int), (∀ p ∈ ps, p ≤ pl) → (prev :: cs).Pairwise (· < ·) →
    ∀ q ∈ (startsFrom prev ps cs).zip (gapEnds ps cs), q.2 ≤ pl + lastOr prev cs := by
  intro ps
  induction ps with
  | nil => intro cs prev _ _ q hq; simp [startsFrom] at hq
  | cons p ps ih =>
    intro cs prev hps hc q hq
    cases cs with
    | nil => simp [startsFrom] at hq
    | cons c cs' =>
      simp only [startsFrom, gapEnds, List.zip_cons_cons, List.mem_cons] at hq
      have hc' := List.pairwise_cons.mp hc
      simp only [lastOr]
      rcases hq with rfl | hq
      · have := hps p (by simp); have := le_lastOr cs' c hc'.2; simp only; omega
      · exact ih cs' c (fun p' hp' => hps p' (by simp [hp'])) hc'.2 q hq

/-- every gap run of a well-formed map ends inside the alignment -/
theorem gapAlignCoords_le_len (m : IMap) (h : WF m) : ∀ q ∈ getGapAlignCoordinates m, q.2 ≤ len m := by
  intro q hq
  have hne : m.gapPos ≠ [] := by
    intro e; simp [getGapAlignCoordinates, gapStarts, e, startsFrom] at hq
  have := gapCoords_upper m.parentLength m.gapPos m.cumLens 0 (fun p hp => (h.pos_range p hp).2) h.cum_sorted q hq
  have hl : lastOr 0 m.cumLens = lastD m.cumLens := by
    cases hc : m.cumLens with
    | nil => have := h.len_eq; rw [hc] at this; cases hg : m.gapPos with
      | nil => exact absurd hg hne
      | cons _ _ => rw [hg] at this; simp at this
    | cons x xs => rw [lastD_cons]; rfl
  simp only [IndelMap.len, hne, if_false]; omega

/-- `shared_gaps(other)` between well-formed maps of the same alignment length always returns (neither assertion fires) -/
theorem shared_gaps_total (a b : IMap) (ha : WF a) (hb : WF b) (hl : len a = len b) : ∃ r, sharedGaps a b = .ok r := by
  obtain ⟨pa, _⟩ := gapAlignCoords_ok a ha
  obtain ⟨pb, sb⟩ := gapAlignCoords_ok b hb
  obtain ⟨r', hr', _⟩ := coordsIntersect_model_spec _ _ pa pb sb
  simp only [sharedGaps, hl, ne_eq, not_true_eq_false, if_false]
  split
  · exact ⟨_, rfl⟩
  · split
    · exact ⟨_, rfl⟩
    · rename_i l hlast
      have hmem : l ∈ getGapAlignCoordinates b := List.mem_of_getLast? hlast
      have := gapAlignCoords_le_len b hb l hmem
      rw [if_neg (by omega)]
      exact ⟨r', hr'⟩

example : WF ⟨[1, 3], [2, 3], 4⟩ ∧ WF ⟨[0, 3], [1, 3], 4⟩ ∧ len ⟨[1, 3], [2, 3], 4⟩ = len ⟨[0, 3], [1, 3], 4⟩ := by decide
end CogentModel.C08
