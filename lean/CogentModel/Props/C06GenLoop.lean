import CogentModel.Gen.C06Loop
import CogentModel.Model.SeqFormats
import CogentModel.Proofs.SeqFormats
/-! # C06 — the TRANSLATED parser loops equal the hand models, for all arguments and all line lists

`Gen/C06Loop.lean` is re-generated on every run from the CURRENT source of `parse/fasta.py` (`_faster_parser`,
`_strict_parser`) and `parse/paml.py` (`PamlParser`: state initialisation, loop, code after the loop) by
translator/c06_loop2lean.py (`ast` only).  Each theorem states that the generated recursion and the hand-written model
the round-trip / parser-agreement theorems are about (`fasterGo`, `strictGo`, `pamlGo` of Model/SeqFormats.lean) are the same
function — for every label-character set, every state and every list of lines — so a semantic edit of one of the loops
breaks a proof obligation. -/
namespace CogentModel.C06
open CogentModel.SeqFormats

theorem headIn_eq (line lc : Str) : PyStr.headIn line lc = isLabel lc line := by
  cases line <;> rfl

/-- `_faster_parser` (as translated), from any state -/
theorem gen_faster_go_eq (lc : Str) : ∀ (lines : List Str) (label : Option Str) (seq : List Str),
    Gen.C06Loop.faster_parser_go lc label seq lines = .ok (fasterGo lc label seq lines)
  | [], label, seq => by
    unfold Gen.C06Loop.faster_parser_go fasterGo
    cases h : seq.isEmpty <;> simp [PyStr.ycons, PyStr.joinEmpty, clean, Except.map]
  | line :: rest, label, seq => by
    unfold Gen.C06Loop.faster_parser_go fasterGo
    simp only [headIn_eq, PyStr.truthy, Bool.not_not]
    by_cases h1 : line.isEmpty = true
    · simp only [h1, if_true]; exact gen_faster_go_eq lc rest label seq
    · simp only [h1, Bool.false_eq_true, if_false]
      by_cases h2 : isLabel lc line = true
      · simp only [h2, if_true]
        cases h3 : seq.isEmpty <;>
          simp [PyStr.ycons, PyStr.joinEmpty, clean, Except.map, gen_faster_go_eq lc rest]
      · simp only [h2, Bool.false_eq_true, if_false]
        exact gen_faster_go_eq lc rest label _

/-- **`_faster_parser` as translated = the model `fasterParser`** (which never raises) -/
theorem gen_faster_parser_eq (lc : Str) (lines : List Str) :
    Gen.C06Loop.faster_parser lc lines = .ok (fasterParser lc lines) :=
  gen_faster_go_eq lc lines none []

/-- `_strict_parser` (as translated), from any state -/
theorem gen_strict_go_eq (lc : Str) : ∀ (lines : List Str) (label : Option Str) (seq : List Str),
    Gen.C06Loop.strict_parser_go lc seq label lines = strictGo lc label seq lines
  | [], label, seq => by
    unfold Gen.C06Loop.strict_parser_go strictGo
    cases h : seq.isEmpty <;> cases label <;> simp [PyStr.ycons, PyStr.joinEmpty, clean, Except.map]
  | line :: rest, label, seq => by
    unfold Gen.C06Loop.strict_parser_go strictGo
    have hhash : (PyStr.at0 line == ['#']) = (line.head? = some '#' : Bool) := by
      cases line with
      | nil => rfl
      | cons c cs => rw [Bool.eq_iff_iff]; simp [PyStr.at0]
    simp only [headIn_eq, PyStr.truthy, Bool.not_not, hhash]
    by_cases h1 : (line.isEmpty || (decide (line.head? = some '#') && !lc.contains '#')) = true
    · simp only [h1, if_true]; exact gen_strict_go_eq lc rest label seq
    · simp only [h1, Bool.false_eq_true, if_false]
      by_cases h2 : isLabel lc line = true
      · simp only [h2, if_true]
        cases label <;> cases h3 : seq.isEmpty <;>
          simp [PyStr.ycons, PyStr.joinEmpty, clean, Except.map, gen_strict_go_eq lc rest]
      · simp only [h2, Bool.false_eq_true, if_false]
        exact gen_strict_go_eq lc rest label _

/-- **`_strict_parser` as translated = the model `strictParser`**, errors included -/
theorem gen_strict_parser_eq (lc : Str) (lines : List Str) :
    Gen.C06Loop.strict_parser lc lines = strictParser lc lines :=
  gen_strict_go_eq lc lines none []

/-- the loop of `PamlParser` (as translated), from any state -/
theorem gen_paml_go_eq (ns sl : Int) : ∀ (lines : List Str) (name : Option Str) (cur : List Str) (len n : Nat),
    Gen.C06Loop.paml_parser_go ns sl cur len name n lines = pamlGo ns sl name cur len n lines
  | [], name, cur, len, n => by
    unfold Gen.C06Loop.paml_parser_go pamlGo
    by_cases h : (n : Int) = ns <;> simp [h]
  | line :: rest, name, cur, len, n => by
    unfold Gen.C06Loop.paml_parser_go pamlGo
    simp only [PyStr.truthy, Bool.not_not]
    by_cases h1 : (strip line).isEmpty = true
    · simp only [h1, if_true]; exact gen_paml_go_eq ns sl rest name cur len n
    · simp only [h1, Bool.false_eq_true, if_false]
      cases name with
      | none => exact gen_paml_go_eq ns sl rest _ cur len n
      | some nm =>
        by_cases h2 : (len : Int) + ((strip line).length : Int) = sl
        · simp [h2, PyStr.ycons, PyStr.joinEmpty, Except.map, gen_paml_go_eq ns sl rest]
        · simp [h2, gen_paml_go_eq ns sl rest]

/-- **`PamlParser` as translated (state initialisation, loop, final count check) = the model**: with the header's two
integers `num_seqs`, `seq_len` the translated function is `pamlGo` from the initial state -/
theorem gen_paml_parser_eq (ns sl : Int) (lines : List Str) :
    Gen.C06Loop.paml_parser ns sl lines = pamlGo ns sl none [] 0 0 lines :=
  gen_paml_go_eq ns sl lines none [] 0 0

-- non-vacuity: the translated loops run (a GDE-style label set, an error path, a PAML body with a blank line)
example : Gen.C06Loop.faster_parser ['>'] [">a b".toList, "AC GT".toList, [], "tt".toList, ">c".toList, "G".toList]
    = .ok [("a b".toList, "ACGTtt".toList), ("c".toList, "G".toList)] := by decide
example : Gen.C06Loop.strict_parser ['%', '#'] ["#a".toList, "AC".toList, "%b".toList] = .error .recordError := by decide
example : Gen.C06Loop.paml_parser 2 3 ["a".toList, "ac".toList, "g".toList, [], "b".toList, "TTT".toList]
    = .ok [("a".toList, "ACG".toList), ("b".toList, "TTT".toList)] := by decide

end CogentModel.C06
