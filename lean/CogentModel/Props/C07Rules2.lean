import CogentModel.Proofs.ParamRules2
/-!
# C07 — rule export / import (`get_param_rules` → `apply_param_rules`) for one scalar parameter with TWO
scope dimensions (edge × locus)

The ONE-dimension theorem `rules_roundtrip` (Props/C07.lean) holds unconditionally because the scopes of
different setting objects are disjoint edge sets.  With two dimensions `get_param_rules` names, per
dimension, the categories a scope USES, i.e. the smallest RECTANGLE containing the scope; rectangles of
different objects overlap, `apply_param_rules` applies them in export order (order of first appearance
in the sorted keys `(edge, bin, locus)`), and a later rectangle overwrites an earlier one.  `OrderSound`
is the exact condition under which that order is right (open finding
`C07-param-rules-order-multidim-scopes` = the states where it is false).
-/
namespace CogentModel.C07
open CogentModel.Rules2

/-- a history of `set_param_rule` calls on one parameter; calls that raise leave the state as it was -/
def runRules2 (d : Rules2.Defn) : Rules2.St → List Rules2.RuleArgs → Rules2.St
  | s, [] => s
  | s, r :: rs =>
    match Rules2.setRule d s r with
    | .ok s' => runRules2 d s' rs
    | .error _ => runRules2 d s rs

/-- the state after a history on a newly built function -/
def after2 (d : Rules2.Defn) (hist : List Rules2.RuleArgs) : Rules2.St := runRules2 d (Rules2.fresh d) hist

/-- **the exact boundary** (computable, `Bool`): for every cell (edge, locus), the LAST exported rule — in
the order `get_param_rules` emits them — whose rectangle contains the cell is the rule of the cell's own
setting object.  (`Rules2.orderSound`: `(cells d).all fun c => ownsLast s c (lastCover d s c (firsts s (cells d)))`.) -/
def OrderSound (d : Rules2.Defn) (s : Rules2.St) : Bool := Rules2.orderSound d s

theorem reachable_inv (d : Rules2.Defn) (hd : d.dLo ≤ d.dVal ∧ d.dVal ≤ d.dHi) (hist : List Rules2.RuleArgs) :
    Inv2 d (after2 d hist) := by
  unfold after2
  have h0 := fresh_inv d hd
  generalize Rules2.fresh d = s0 at h0
  induction hist generalizing s0 with
  | nil => exact h0
  | cons r rs ih =>
    simp only [runRules2]
    cases hs : Rules2.setRule d s0 r with
    | ok s1 => exact ih s1 (setRule_inv d s0 s1 r hs h0)
    | error e => exact ih s0 h0

/-- non-vacuity of `reachable_inv` (and the running example): HKY85-like `kappa` (not independent by
default) on 3 edges × 2 loci; one locus column re-bounded, one cell of the other column made constant,
one failing call in between -/
def exD2 : Rules2.Defn := { nEdges := 3, nLoci := 2, dLo := 0, dVal := 1, dHi := 10, indepDefault := false }
def exHist2 : List Rules2.RuleArgs :=
  [ { edges := none, loci := some [1], isIndependent := none, isConstant := false, value := none, init := some 7,
      lower := some 1, upper := some 4 },
    { edges := some [1, 1], loci := some [0], isIndependent := none, isConstant := false, value := none,
      init := some 2, lower := none, upper := none },
    { edges := some [1], loci := some [0], isIndependent := none, isConstant := true, value := some 2, init := none,
      lower := none, upper := none } ]
example : exD2.dLo ≤ exD2.dVal ∧ exD2.dVal ≤ exD2.dHi := by decide
example : (Rules2.cells exD2).map (after2 exD2 exHist2).cid = [0, 1, 2, 1, 0, 1] ∧
    (after2 exD2 exHist2).setting (1, 1) = .var 1 4 4 ∧ (after2 exD2 exHist2).setting (1, 0) = .const 2 ∧
    Rules2.nfp exD2 (after2 exD2 exHist2) = 2 := by decide

/-- **rules_roundtrip_2d**: for every definition (any number of edges and loci, any class defaults
`lower ≤ default ≤ upper`, `independent_by_default` or not) and every state reached by ANY history of
`set_param_rule` calls (any edge / locus lists, constant / free, values, bounds, independent or not; failing
calls leave the state) that satisfies `OrderSound`: applying the exported rules in export order to a newly
built function succeeds and gives every cell the same setting (value, constness, bounds), the same sharing
of setting objects between cells, and the same number of free parameters. -/
theorem rules_roundtrip_2d (d : Rules2.Defn) (hd : d.dLo ≤ d.dVal ∧ d.dVal ≤ d.dHi) (hist : List Rules2.RuleArgs)
    (hos : OrderSound d (after2 d hist) = true) :
    ∃ s', Rules2.applyRules d (Rules2.fresh d) (Rules2.exportRules d (after2 d hist)) = .ok s' ∧
      (∀ c, c ∈ Rules2.cells d → s'.setting c = (after2 d hist).setting c) ∧
      (∀ c1 c2, c1 ∈ Rules2.cells d → c2 ∈ Rules2.cells d →
        (s'.cid c1 = s'.cid c2 ↔ (after2 d hist).cid c1 = (after2 d hist).cid c2)) ∧
      Rules2.nfp d s' = Rules2.nfp d (after2 d hist) :=
  roundtrip d _ (reachable_inv d hd hist).2 hos

/-- non-vacuity: cell (edge 1, locus 0) carved out, then edge 2 made constant over both loci: the default
group {(0,0),(0,1),(1,1)} is NOT a rectangle (its rectangle also holds (1,0)), three rules are exported, two
of them overlap, and the order is sound -/
def exSound2 : List Rules2.RuleArgs :=
  [ { edges := some [1], loci := some [0], isIndependent := none, isConstant := false, value := none, init := some 3,
      lower := none, upper := none },
    { edges := some [2], loci := none, isIndependent := none, isConstant := true, value := some 2, init := none,
      lower := none, upper := none } ]
example : OrderSound exD2 (after2 exD2 exSound2) = true ∧ Rules2.allRect exD2 (after2 exD2 exSound2) = false ∧
    (Rules2.cells exD2).map (after2 exD2 exSound2).cid = [0, 0, 1, 0, 2, 2] ∧
    (Rules2.exportRules exD2 (after2 exD2 exSound2)).map (fun r => (r.edges, r.loci)) =
      [(some [0, 1], some [0, 1]), (some [1], some [0]), (some [2], some [0, 1])] ∧
    Rules2.nfp exD2 (after2 exD2 exSound2) = 2 := by decide
example : OrderSound exD2 (after2 exD2 exHist2) = true := by decide

/-- the model's re-import, for statements closed by `decide` -/
def reimport2 (d : Rules2.Defn) (s : Rules2.St) : Option Rules2.St :=
  match Rules2.applyRules d (Rules2.fresh d) (Rules2.exportRules d s) with
  | .ok s' => some s'
  | .error _ => none

/-- **rules_roundtrip_2d_iff**: `OrderSound` is also NECESSARY, so it is the exact boundary.  For every
reachable state the exported rules import without raising, and the re-imported function shares setting
objects between cells exactly as the original did IF AND ONLY IF `OrderSound` holds.  (Equality of the
sharing pattern alone already forces `OrderSound`; by `rules_roundtrip_2d` it then also gives equal
settings and `nfp`.) -/
theorem rules_roundtrip_2d_iff (d : Rules2.Defn) (hd : d.dLo ≤ d.dVal ∧ d.dVal ≤ d.dHi) (hist : List Rules2.RuleArgs) :
    ∃ s', Rules2.applyRules d (Rules2.fresh d) (Rules2.exportRules d (after2 d hist)) = .ok s' ∧
      (OrderSound d (after2 d hist) = true ↔
        ∀ c1 c2, c1 ∈ Rules2.cells d → c2 ∈ Rules2.cells d →
          (s'.cid c1 = s'.cid c2 ↔ (after2 d hist).cid c1 = (after2 d hist).cid c2)) := by
  have hwf := (reachable_inv d hd hist).2
  obtain ⟨s', hs'⟩ := applyRules_ok d _ hwf
  refine ⟨s', hs', ?_, fun h => sharing_orderSound d _ hwf s' hs' h⟩
  intro hos
  obtain ⟨s'', h1, _, h3, _⟩ := roundtrip d _ hwf hos
  have : s'' = s' := Except.ok.inj (h1.symm.trans hs')
  subst this
  exact h3

/-- non-vacuity: both sides occur.  Carving edge 1 out of locus 0 is order-sound and re-imports the same
sharing pattern; carving edge 0 (the FIRST key) out is not, and the re-import merges everything -/
def cutCell (e l : Nat) : Rules2.RuleArgs :=
  { edges := some [e], loci := some [l], isIndependent := none, isConstant := false, value := none, init := some 3,
    lower := none, upper := none }
example : OrderSound exD2 (after2 exD2 [cutCell 1 0]) = true ∧
    (Rules2.cells exD2).map (after2 exD2 [cutCell 1 0]).cid = [0, 0, 1, 0, 0, 0] ∧
    (reimport2 exD2 (after2 exD2 [cutCell 1 0])).map (fun s' => (Rules2.cells exD2).map s'.cid) = some [1, 1, 2, 1, 1, 1] := by
  decide

/-- **order_sound_spec**: `OrderSound` without the search function, for ANY state: it holds iff no rule that is
exported AFTER a cell's own rule (the rule of the cell's setting object, `f`) covers the cell.  `pos` is the
position in the export order (`firsts`: setting objects in order of their first key `(edge, locus)`). -/
theorem order_sound_spec (d : Rules2.Defn) (s : Rules2.St) : OrderSound d s = true ↔
    ∀ x f g, x ∈ Rules2.cells d → f ∈ Rules2.firsts s (Rules2.cells d) → g ∈ Rules2.firsts s (Rules2.cells d) →
      s.cid f = s.cid x → Rules2.covers d (Rules2.ruleOf d s g) x = true →
      Rules2.pos (Rules2.firsts s (Rules2.cells d)) g ≤ Rules2.pos (Rules2.firsts s (Rules2.cells d)) f :=
  orderSound_spec d s

/-- non-vacuity (the right-hand side can fail): in the counter-example below the offending cell is (0, 0); its
own rule is exported first (position 0), but the rule at position 1 (the rest, first cell (0, 1)) covers it too -/
example : (0, 0) ∈ Rules2.firsts (after2 exD2 [cutCell 0 0]) (Rules2.cells exD2) ∧
    (0, 1) ∈ Rules2.firsts (after2 exD2 [cutCell 0 0]) (Rules2.cells exD2) ∧
    Rules2.covers exD2 (Rules2.ruleOf exD2 (after2 exD2 [cutCell 0 0]) (0, 1)) (0, 0) = true ∧
    Rules2.pos (Rules2.firsts (after2 exD2 [cutCell 0 0]) (Rules2.cells exD2)) (0, 1) = 1 ∧
    Rules2.pos (Rules2.firsts (after2 exD2 [cutCell 0 0]) (Rules2.cells exD2)) (0, 0) = 0 := by decide

/-- **rect_scopes_order_sound**: a simple sufficient condition, for ANY state: if every setting object's
scope IS a rectangle — every cell whose edge is among the edges the scope uses and whose locus is among the
loci it uses belongs to the scope — then `OrderSound` holds (rectangles of different objects are then
disjoint, so no order can go wrong).  E.g. per-locus or per-edge settings, or any partition into blocks. -/
theorem rect_scopes_order_sound (d : Rules2.Defn) (s : Rules2.St)
    (h : ∀ f c, f ∈ Rules2.cells d → c ∈ Rules2.cells d → c.1 ∈ Rules2.projE d s f → c.2 ∈ Rules2.projL d s f →
      s.cid c = s.cid f) :
    OrderSound d s = true := by
  apply allRect_orderSound
  unfold Rules2.allRect
  rw [List.all_eq_true]
  intro f hf
  rw [List.all_eq_true]
  intro c hc
  have hfc := firsts_sub s _ f hf
  by_cases hcov : Rules2.covers d (Rules2.ruleOf d s f) c = true
  · have := (covers_iff d s f hfc c).1 hcov
    simp [hcov, h f c hfc hc this.1 this.2]
  · simp [hcov]

/-- non-vacuity: locus 1 gets its own setting, then edges {0,1} of locus 1 are split off as a constant block:
every scope is a rectangle (three objects: column 0, the block, the cell (2,1)) -/
def exRect2 : List Rules2.RuleArgs :=
  [ { edges := none, loci := some [1], isIndependent := none, isConstant := false, value := none, init := some 2,
      lower := none, upper := none },
    { edges := some [0, 1], loci := some [1], isIndependent := none, isConstant := true, value := some 5, init := none,
      lower := none, upper := none } ]
example : Rules2.allRect exD2 (after2 exD2 exRect2) = true ∧ OrderSound exD2 (after2 exD2 exRect2) = true ∧
    (Rules2.cells exD2).map (after2 exD2 exRect2).cid = [0, 2, 0, 2, 0, 1] := by decide
example : ∀ f c, f ∈ Rules2.cells exD2 → c ∈ Rules2.cells exD2 → c.1 ∈ Rules2.projE exD2 (after2 exD2 exRect2) f →
    c.2 ∈ Rules2.projL exD2 (after2 exD2 exRect2) f → (after2 exD2 exRect2).cid c = (after2 exD2 exRect2).cid f := by
  intro f c hf hc
  have hf' := (mem_cells exD2 f).1 hf
  have hc' := (mem_cells exD2 c).1 hc
  obtain ⟨f1, f2⟩ := f
  obtain ⟨c1, c2⟩ := c
  simp only [exD2] at hf' hc'
  have h1 : f1 = 0 ∨ f1 = 1 ∨ f1 = 2 := by omega
  have h2 : f2 = 0 ∨ f2 = 1 := by omega
  have h3 : c1 = 0 ∨ c1 = 1 ∨ c1 = 2 := by omega
  have h4 : c2 = 0 ∨ c2 = 1 := by omega
  rcases h1 with rfl | rfl | rfl <;> rcases h2 with rfl | rfl <;> rcases h3 with rfl | rfl | rfl <;>
    rcases h4 with rfl | rfl <;> decide

/-- **rules_roundtrip_2d_counter**: the model-level witness of the open finding
`C07-param-rules-order-multidim-scopes` (HKY85 with loci a, b on (Dog,Cat,Horse);
`lf.set_param_rule('kappa', edge='Cat', locus='a', init=3.0)`; nfp 4 instead of 5).  3 edges × 2 loci (edges
in sorted-name order: Cat = 0, Dog = 1, Horse = 2), not independent by default, one rule `edge = 0,
locus = 0, init = 3`: the carved-out cell holds the FIRST key, so its rule is exported first and the rest —
whose rectangle is everything — last: `OrderSound` is false, the original has two setting objects
(nfp 2), the re-imported function one (nfp 1). -/
theorem rules_roundtrip_2d_counter :
    OrderSound exD2 (after2 exD2 [cutCell 0 0]) = false ∧
    (Rules2.exportRules exD2 (after2 exD2 [cutCell 0 0])).map (fun r => (r.edges, r.loci, r.init)) =
      [(some [0], some [0], some 3), (some [0, 1, 2], some [0, 1], some 1)] ∧
    (Rules2.cells exD2).map (after2 exD2 [cutCell 0 0]).cid = [1, 0, 0, 0, 0, 0] ∧
    Rules2.nfp exD2 (after2 exD2 [cutCell 0 0]) = 2 ∧
    (reimport2 exD2 (after2 exD2 [cutCell 0 0])).map (fun s' => (Rules2.cells exD2).map s'.cid) = some [2, 2, 2, 2, 2, 2] ∧
    (reimport2 exD2 (after2 exD2 [cutCell 0 0])).map (Rules2.nfp exD2) = some 1 := by
  decide

/-- the same rule on any other edge is harmless (`edge='Dog'` round-trips on the real code): the finding
needs the carved-out cell to sort before the cells it was carved from -/
example : OrderSound exD2 (after2 exD2 [cutCell 1 0]) = true ∧ OrderSound exD2 (after2 exD2 [cutCell 2 1]) = true ∧
    OrderSound exD2 (after2 exD2 [cutCell 0 1]) = true := by decide

/-- the failing calls of a history: a locus named twice while only ONE edge is selected, an unknown locus, an
edge named three times (two loci: twice would be accepted, as the real `interpret_scope` does), `upper < lower`,
a constant with a bound; none of them changes the state -/
def exBad2 : List Rules2.RuleArgs :=
  [ { cutCell 1 0 with loci := some [0, 0] }, { cutCell 1 0 with loci := some [2] },
    { cutCell 1 0 with edges := some [1, 1, 1], loci := none },
    { cutCell 1 0 with lower := some 5, upper := some 2 },
    { cutCell 1 0 with isConstant := true, init := none, value := some 1, upper := some 2 } ]
example : exBad2.map (fun r => match Rules2.setRule exD2 (after2 exD2 exHist2) r with
    | .error e => e
    | .ok _ => "ok") = ["InvalidScopeError", "InvalidScopeError", "InvalidScopeError", "ValueError", "AssertionError"] := by
  decide
example : (match Rules2.setRule exD2 (after2 exD2 exHist2) { cutCell 1 0 with edges := some [1, 1], loci := none } with
    | .error e => e
    | .ok _ => "ok") = "ok" := by decide

/- NOT covered: more than two scope dimensions with several categories (bins × loci × edges — the same
argument applies to rectangles of any arity, but is not stated), several parameters at once, that equal
settings give an equal log-likelihood (C02), `EACH`/`ALL` wrappers, tip_names / clade scopes (they reduce to
an edge list before `assign_all`). -/
end CogentModel.C07
