import CogentModel.Model.Distance
import CogentModel.Spec.DistanceFormulas
import CogentModel.Proofs.DistanceFormulaLemmas
/-! # C15 — the estimators of `fast_distance.py` equal their published formulas

`m : M4` is the count matrix in cogent3's array layout (alphabet order T,C,A,G);
`ofMatrix m` reads it by nucleotide name.  The left-hand sides are the model of the code
(Model/Distance.lean), the right-hand sides are the formulas of Spec/DistanceFormulas.lean, which do
not use any of the model's helper functions.  Every `Stat` carries the exact rational quantities
the code passes to `numpy.log`, so equality of `Stat`s is equality of the coefficients and of the
log arguments (hence of the distances). -/
namespace CogentModel.C15
open CogentModel.Distance CogentModel.DistanceFormulas

/-- Hamming / p-distance: `_hamming` fails exactly when no column is comparable (n = 0); otherwise it
returns n, p = (Σ_{x≠y} N x y)/n and the Hamming count Σ_{x≠y} N x y. -/
theorem hamming_matches_formula (m : M4) :
    hammingStat m =
      if n (ofMatrix m) = 0 then .invalid
      else .hamming (n (ofMatrix m)) (p (ofMatrix m)) (hamming (ofMatrix m)) := by
  unfold hammingStat
  extract_lets tot dist
  have etot : tot = n (ofMatrix m) := (n_ofMatrix m).symm
  have ed : dist = hamming (ofMatrix m) := (hamming_ofMatrix m).symm
  have ep : dist / tot = p (ofMatrix m) := by rw [ed, etot]; rfl
  rw [ep, ed, etot]

example : n (ofMatrix exCounts) ≠ 0 ∧ hammingStat exCounts = .hamming 60 (4 / 15) 16 := by decide +kernel
example : n (ofMatrix exEmpty) = 0 ∧ hammingStat exEmpty = .invalid := by decide +kernel

/-- JC69 (Jukes & Cantor 1969), d = −(3/4) ln(1 − 4p/3): `_jc69_from_matrix` fails exactly when n = 0 or
p ≥ 3/4 (the formula is undefined); otherwise the log argument it uses is 1 − 4p/3 with the spec's p. -/
theorem jc69_matches_formula (m : M4) :
    jc69Stat m =
      if n (ofMatrix m) = 0 ∨ 3 / 4 ≤ p (ofMatrix m) then .invalid
      else .jc69 (n (ofMatrix m)) (p (ofMatrix m)) (jcArg (ofMatrix m)) := by
  unfold jc69Stat
  extract_lets tot diffs p'
  have etot : tot = n (ofMatrix m) := (n_ofMatrix m).symm
  have ep : p' = p (ofMatrix m) := by
    show (total m - diagSum m) / total m = _; rw [p_ofMatrix]
  have ea : 1 - 4 / 3 * p' = jcArg (ofMatrix m) := by rw [ep]; unfold jcArg; ring
  rw [ea, ep, etot]
  by_cases h1 : n (ofMatrix m) = 0
  · rw [if_pos h1, if_pos (Or.inl h1)]
  rw [if_neg h1]
  by_cases h2 : 3 / 4 ≤ p (ofMatrix m)
  · rw [if_pos h2, if_pos (Or.inr h2)]
  rw [if_neg h2, if_neg (by rintro (h | h) <;> contradiction)]

example : ¬ (n (ofMatrix exCounts) = 0 ∨ 3 / 4 ≤ p (ofMatrix exCounts)) ∧
    jc69Stat exCounts = .jc69 60 (4 / 15) (29 / 45) := by decide +kernel
example : 3 / 4 ≤ p (ofMatrix exSaturated) ∧ jc69Stat exSaturated = .invalid := by decide +kernel

/-- TN93 (Tamura & Nei 1993), d = −k1 ln w1 − k2 ln w2 − k3 ln w3 with
π_R = π_A + π_G, π_Y = π_C + π_T, P1 = A↔G transitions, P2 = C↔T transitions, Q = transversions.
For a table of (non-negative) counts with n ≠ 0 in which every nucleotide occurs (no 0/0):
`_tn93_from_matrix` returns the spec's three coefficients and three log arguments when all three
arguments are positive, and fails otherwise.  The formula is stated by nucleotide name, so this pins
down that the code's purine indices [2,3] are A,G and its pyrimidine indices [1,0] are C,T. -/
theorem tn93_matches_formula (m : M4) (hN : ∀ x y, 0 ≤ ofMatrix m x y)
    (h0 : n (ofMatrix m) ≠ 0)
    (hA : pi (ofMatrix m) .A ≠ 0) (hC : pi (ofMatrix m) .C ≠ 0)
    (hG : pi (ofMatrix m) .G ≠ 0) (hT : pi (ofMatrix m) .T ≠ 0) :
    tn93Stat m =
      if 0 < tnW1 (ofMatrix m) ∧ 0 < tnW2 (ofMatrix m) ∧ 0 < tnW3 (ofMatrix m) then
        .tn93 (n (ofMatrix m)) (p (ofMatrix m)) (tnK1 (ofMatrix m)) (tnK2 (ofMatrix m)) (tnK3 (ofMatrix m))
          (tnW1 (ofMatrix m)) (tnW2 (ofMatrix m)) (tnW3 (ofMatrix m))
      else .invalid := by
  have pA := lt_of_le_of_ne (pi_nonneg _ hN .A) (Ne.symm hA)
  have pC := lt_of_le_of_ne (pi_nonneg _ hN .C) (Ne.symm hC)
  have pG := lt_of_le_of_ne (pi_nonneg _ hN .G) (Ne.symm hG)
  have pT := lt_of_le_of_ne (pi_nonneg _ hN .T) (Ne.symm hT)
  apply tn93_core m h0 (mul_ne_zero hA hG) (mul_ne_zero hC hT)
  · unfold piR; exact ne_of_gt (add_pos pA pG)
  · unfold piY; exact ne_of_gt (add_pos pC pT)

example : (∀ x y, 0 ≤ ofMatrix exCounts x y) ∧ n (ofMatrix exCounts) ≠ 0 ∧
    pi (ofMatrix exCounts) .A ≠ 0 ∧ pi (ofMatrix exCounts) .C ≠ 0 ∧
    pi (ofMatrix exCounts) .G ≠ 0 ∧ pi (ofMatrix exCounts) .T ≠ 0 ∧
    (0 < tnW1 (ofMatrix exCounts) ∧ 0 < tnW2 (ofMatrix exCounts) ∧ 0 < tnW3 (ofMatrix exCounts)) ∧
    tn93Stat exCounts =
      .tn93 60 (4 / 15) (1 / 4) (13 / 56) (1621 / 6300) (211 / 480) (1233 / 1820) (179 / 224) := by
  refine ⟨?_, by decide +kernel⟩
  intro x y; cases x <;> cases y <;> decide +kernel

example : (∀ x y, 0 ≤ ofMatrix exSaturated x y) ∧ n (ofMatrix exSaturated) ≠ 0 ∧
    pi (ofMatrix exSaturated) .A ≠ 0 ∧ pi (ofMatrix exSaturated) .C ≠ 0 ∧
    pi (ofMatrix exSaturated) .G ≠ 0 ∧ pi (ofMatrix exSaturated) .T ≠ 0 ∧
    ¬ (0 < tnW1 (ofMatrix exSaturated) ∧ 0 < tnW2 (ofMatrix exSaturated) ∧ 0 < tnW3 (ofMatrix exSaturated)) ∧
    tn93Stat exSaturated = .invalid := by
  refine ⟨?_, by decide +kernel⟩
  intro x y; cases x <;> cases y <;> decide +kernel

/-- Paralinear (Lake 1994), d = −(1/4) ln( det F / sqrt(Π_x fx(x)·fy(x)) ), F the joint frequency matrix
(pseudo-count 1/2 on empty diagonal cells, normalised): `_paralinear` fails exactly when n = 0, or no
difference was observed, or det F ≤ 0 (log undefined); otherwise the determinant it uses is the
Leibniz determinant of F and the product is Π_x fx(x)·fy(x). -/
theorem paralinear_matches_formula (m : M4) :
    paralinearStat m =
      if n (ofMatrix m) = 0 ∨ hamming (ofMatrix m) = 0 ∨ detLeibniz (freqTable (ofMatrix m)) ≤ 0 then .invalid
      else .paralinear (n (ofMatrix m)) (p (ofMatrix m)) (detLeibniz (freqTable (ofMatrix m)))
        (margProd (freqTable (ofMatrix m))) := by
  unfold paralinearStat
  rw [logdetCommon_eq]
  simp only [freqTable_ofMatrix, detLeibniz_ofMatrix, margProd_ofMatrix]

example : ¬ (n (ofMatrix exCounts) = 0 ∨ hamming (ofMatrix exCounts) = 0 ∨
      detLeibniz (freqTable (ofMatrix exCounts)) ≤ 0) ∧
    paralinearStat exCounts = .paralinear 60 (4 / 15) (209 / 259200) (3214211 / 248832000000) := by
  decide +kernel
example : detLeibniz (freqTable (ofMatrix exSaturated)) ≤ 0 ∧ paralinearStat exSaturated = .invalid := by
  decide +kernel
example : hamming (ofMatrix exIdentical) = 0 ∧ paralinearStat exIdentical = .invalid := by decide +kernel

/-- LogDet with the Tamura–Kumar adjustment (Tamura & Kumar 2002),
d = −[(1 − Σ_x g_x²)/3] ln( det F / sqrt(Π_x fx(x)·fy(x)) ), g_x = (fx(x)+fy(x))/2: same validity conditions as
paralinear; the coefficient the code uses equals −(1 − Σ_x g_x²)/3. -/
theorem logdet_matches_formula (m : M4) :
    logdetStat true m =
      if n (ofMatrix m) = 0 ∨ hamming (ofMatrix m) = 0 ∨ detLeibniz (freqTable (ofMatrix m)) ≤ 0 then .invalid
      else .logdetTK (n (ofMatrix m)) (p (ofMatrix m)) (tkCoeff (freqTable (ofMatrix m)))
        (detLeibniz (freqTable (ofMatrix m))) (margProd (freqTable (ofMatrix m))) := by
  unfold logdetStat
  rw [logdetCommon_eq]
  simp only [freqTable_ofMatrix, detLeibniz_ofMatrix, margProd_ofMatrix, tkCoeff_ofMatrix, if_true]

example : ¬ (n (ofMatrix exCounts) = 0 ∨ hamming (ofMatrix exCounts) = 0 ∨
      detLeibniz (freqTable (ofMatrix exCounts)) ≤ 0) ∧
    logdetStat true exCounts =
      .logdetTK 60 (4 / 15) (-1331 / 5400) (209 / 259200) (3214211 / 248832000000) := by
  decide +kernel
example : n (ofMatrix exEmpty) = 0 ∧ logdetStat true exEmpty = .invalid := by decide +kernel

/-- LogDet without adjustment (Lockhart et al. 1994), d = −(1/4) ln det F − ln 4: same validity
conditions; the determinant the code uses is the Leibniz determinant of F. -/
theorem logdet_noTK_matches_formula (m : M4) :
    logdetStat false m =
      if n (ofMatrix m) = 0 ∨ hamming (ofMatrix m) = 0 ∨ detLeibniz (freqTable (ofMatrix m)) ≤ 0 then .invalid
      else .logdet (n (ofMatrix m)) (p (ofMatrix m)) (detLeibniz (freqTable (ofMatrix m))) := by
  unfold logdetStat
  rw [logdetCommon_eq]
  simp only [freqTable_ofMatrix, detLeibniz_ofMatrix, Bool.false_eq_true, if_false]

example : ¬ (n (ofMatrix exCounts) = 0 ∨ hamming (ofMatrix exCounts) = 0 ∨
      detLeibniz (freqTable (ofMatrix exCounts)) ≤ 0) ∧
    logdetStat false exCounts = .logdet 60 (4 / 15) (209 / 259200) := by
  decide +kernel
example : detLeibniz (freqTable (ofMatrix exSaturated)) ≤ 0 ∧ logdetStat false exSaturated = .invalid := by
  decide +kernel

end CogentModel.C15
