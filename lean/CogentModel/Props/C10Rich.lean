/- C10 (wave 2): the integer / decision part of the three view exporters, TRANSLATED on every run (translator/c10_rich2lean.py ->
   Gen/C10Rich.lean), is the hand model used by every theorem of Props/C10.lean. -/
import CogentModel.Gen.C10Rich
import CogentModel.Model.RichDict
namespace CogentModel.C10Rich
open CogentModel CogentModel.View CogentModel.RichDict
open CogentModel.Gen.C10Rich

/-- old `SeqView.to_rich_dict`: the translated truncation bounds are `richDictBounds` (hand model), for every view -/
theorem gen_bounds_old_eq (v : View) : bounds_old v.start v.stop v.step v.seqLen = richDictBounds v := by
  unfold bounds_old is_reversed_old richDictBounds
  by_cases h : v.step < 0 <;> simp [h]

theorem gen_bounds_new_eq (v : View) : bounds_new v.start v.stop v.step v.seqLen = richDictBounds v := by
  unfold bounds_new is_reversed_new richDictBounds
  by_cases h : v.step < 0 <;> simp [h]

theorem gen_bounds_dataview_eq (v : View) : bounds_dataview v.start v.stop v.step v.seqLen = richDictBounds v := by
  unfold bounds_dataview is_reversed_dataview richDictBounds
  by_cases h : v.step < 0 <;> simp [h]

example : bounds_new (-2) (-11) (-3) 10 = (0, 9) := by decide

/-- the hand exporters, restated through the TRANSLATED bounds: `toRich` slices the parent (`self.seq`), `toRichDataView` slices the
    displayed string (`self.str_value`, the defect of finding C10-seqdataview-export-slices-twice) -/
theorem gen_toRich_eq {α} [Inhabited α] (parent : List α) (v : View) :
    toRich parent v =
      { seq := PySlice.slice parent (some (bounds_new v.start v.stop v.step v.seqLen).1) (some (bounds_new v.start v.stop v.step v.seqLen).2) 1,
        step := v.step, offset := none } ∧
    toRich parent v =
      { seq := PySlice.slice parent (some (bounds_old v.start v.stop v.step v.seqLen).1) (some (bounds_old v.start v.stop v.step v.seqLen).2) 1,
        step := v.step, offset := none } := by
  rw [gen_bounds_new_eq, gen_bounds_old_eq]; exact ⟨rfl, rfl⟩

theorem gen_toRichDataView_eq {α} [Inhabited α] (parent : List α) (v : View) :
    (toRichDataView parent v).seq =
      PySlice.slice (realise parent v) (some (bounds_dataview v.start v.stop v.step v.seqLen).1)
        (some (bounds_dataview v.start v.stop v.step v.seqLen).2) 1 := by
  rw [gen_bounds_dataview_eq]; rfl

/-- WHICH string each exporter slices and WHICH init_args it writes (source text, statement order) are what the hand model assumes:
    old/new SeqView slice `self.seq` and write no offset (ViewRich.offset = none; the enclosing Sequence exports it); SeqDataView slices
    `self.str_value` and writes offset = parent_start -/
theorem gen_export_shape :
    sliced_old = "self.seq" ∧ sliced_new = "self.seq" ∧ sliced_dataview = "self.str_value" ∧
    init_args_old = [("step", "self.step"), ("seq", "self.seq[start:stop]")] ∧
    init_args_new = [("step", "self.step"), ("seq", "self.seq[start:stop]"), ("alphabet", "self.alphabet.to_rich_dict()")] ∧
    init_args_dataview = [("step", "self.step"), ("seq", "self.str_value[start:stop]"), ("offset", "int(self.parent_start)"), ("seq_len", "len(self)")] := by
  decide

end CogentModel.C10Rich
