import CogentModel.Model.Composable
import CogentModel.Proofs.ComposableLemmas
import CogentModel.Proofs.ComposableSqlite
import CogentModel.Model.ParallelBook
import CogentModel.Proofs.ParallelBookLemmas
/-! # C14 — composed apps account for every input exactly once, on any schedule

`callChain steps v` mirrors `_call` on a composed app (steps listed from the outermost to the
loader); `select`/`writeAll` mirror `_apply_to`; a schedule is *any* permutation of the submitted
results (`List.Perm`).  `entries store i` = all records stored under identifier `i`. -/
namespace CogentModel.C14
open CogentModel.Composable

/-- A not-completed value produced by an inner part of a composition passes through all remaining
(outer) steps unchanged. -/
theorem nc_passthrough (outer inner : List Step) (hin : inner ≠ [])
    (hskip : ∀ s ∈ outer, s.skipNC = true) (hk : ∀ s ∈ outer, s.kind ≠ .loader)
    (x : V) (n : NC) (h : callChain inner (some (.ok x)) = .nc n) :
    callChain (outer ++ inner) (some (.ok x)) = .nc n :=
  nc_passthrough' outer inner hin hskip hk x n h

/-- …and a not-completed *input* is returned as it is. -/
theorem nc_input_returned (s : Step) (rest : List Step) (h : s.skipNC = true) (n : NC) :
    callChain (s :: rest) (some (.nc n)) = .nc n :=
  nc_input_passthrough s rest h n

def exLoader : Step := ⟨1, .loader, true, [], fun v => match v with | .ok x => .ret ⟨2, x.val, x.src⟩ | _ => .retNone⟩
def exFail : Step := ⟨2, .generic, true, [2], fun _ => .raise 7⟩
def exNext : Step := ⟨3, .generic, true, [2], fun v => match v with | .ok x => .ret x | _ => .retNone⟩
example : callChain [exNext, exFail, exLoader] (some (.ok ⟨1, 5, some 5⟩)) = .nc ⟨.error, 2, .exc 7, some 5⟩ := by decide

/-- `_call` is total and accounts for every failure: whatever the steps do (return, raise, return
`None`, return a value of a type the next step rejects, return a not-completed) and whatever the
input is (including `None`), a not-completed result is the input itself, or names the step that
created it, or was returned by a step's `main`; and a completed result is what the outermost
step's `main` returned. No outcome is dropped or turned into a success. -/
theorem call_total (steps : List Step) (hne : steps ≠ []) (v : Option Val) :
    (∀ n, callChain steps v = .nc n →
      v = some (.nc n) ∨ ∃ s ∈ steps, n.origin = s.name ∨ ∃ w, s.main w = .retNC n) ∧
    (∀ r s rest, steps = s :: rest → callChain steps v = .ok r → ∃ w, s.main w = .ret r) :=
  ⟨fun n h => call_nc_origin' steps hne v n h,
   fun r s rest e h => call_ok_from_main' s rest v r (e ▸ h)⟩

example : callChain [exNext, exLoader] none = .nc ⟨.error, 3, .noneIn, none⟩ := by decide
example : callChain [⟨4, .generic, true, [9], fun _ => .retNone⟩, exLoader] (some (.ok ⟨1, 5, some 5⟩))
    = .nc ⟨.error, 4, .badType 2, some 5⟩ := by decide

/-- (auditor) one layer of `_call`: a non-loader step with a connected input app applies the rest of `_call`
(`afterInput`: skip / type check / try-main / None ⇒ BUG) to what the inner composition delivered. -/
theorem step_on_delivered (s : Step) (inner : List Step) (hin : inner ≠ []) (hs : s.kind ≠ .loader)
    (x : V) : callChain (s :: inner) (some (.ok x)) = afterInput s (callChain inner (some (.ok x))) := by
  have hne : inner.isEmpty = false := by cases inner <;> simp_all
  have hkind : (s.kind != .loader) = true := by simpa using hs
  simp [callChain, Val.isNC, hne, hkind]

/-- (auditor) **The not-completed record names the failing step, message and source.**  If the inner part of a
composition delivers `y` to step `s` and `s` raises / returns `None` / returns its own not-completed /
rejects the type of `y`, then the WHOLE composition (any skipping outer steps) returns exactly the record
`_call` builds at `s`: type, origin `s.name`, message and the source carried by `y` — not just *some* record
with that origin (which is all `call_total` says). -/
theorem failing_step_recorded (outer : List Step) (s : Step) (inner : List Step) (hin : inner ≠ [])
    (hs : s.kind ≠ .loader)
    (hskip : ∀ t ∈ outer, t.skipNC = true) (hk : ∀ t ∈ outer, t.kind ≠ .loader)
    (x y : V) (hy : callChain inner (some (.ok x)) = .ok y) :
    (validate s (.ok y) = none → ∀ t, s.main (.ok y) = .raise t →
      callChain (outer ++ s :: inner) (some (.ok x)) = .nc ⟨.error, s.name, .exc t, y.src⟩) ∧
    (validate s (.ok y) = none → s.main (.ok y) = .retNone →
      callChain (outer ++ s :: inner) (some (.ok x)) = .nc ⟨.bug, s.name, .noneOut, y.src⟩) ∧
    (validate s (.ok y) = none → ∀ n, s.main (.ok y) = .retNC n →
      callChain (outer ++ s :: inner) (some (.ok x)) = .nc n) ∧
    (validate s (.ok y) ≠ none →
      callChain (outer ++ s :: inner) (some (.ok x)) = .nc ⟨.error, s.name, .badType y.ty, y.src⟩) := by
  have h0 := step_on_delivered s inner hin hs x
  rw [hy] at h0
  refine ⟨fun hv t hm => ?_, fun hv hm => ?_, fun hv n hm => ?_, fun hv => ?_⟩
  all_goals apply nc_passthrough outer (s :: inner) (by simp) hskip hk x
  all_goals rw [h0]
  · simp [afterInput, Val.isNC, hv, runMain, hm, Val.source]
  · simp [afterInput, Val.isNC, hv, runMain, hm, Val.source]
  · simp [afterInput, Val.isNC, hv, runMain, hm]
  · cases hval : validate s (.ok y) with
    | none => exact absurd hval hv
    | some n =>
      have : n = ⟨.error, s.name, .badType y.ty, y.src⟩ := by
        unfold validate at hval
        split at hval
        · cases hval
        · split at hval
          · cases hval
          · cases hval; rfl
      simp [afterInput, Val.isNC, hval, this]

/-- (auditor) …and a success at `s` is `main`'s return value on exactly what the inner composition delivered. -/
theorem step_success (s : Step) (inner : List Step) (hin : inner ≠ []) (hs : s.kind ≠ .loader)
    (x y r : V) (hy : callChain inner (some (.ok x)) = .ok y) (hv : validate s (.ok y) = none)
    (hm : s.main (.ok y) = .ret r) : callChain (s :: inner) (some (.ok x)) = .ok r := by
  rw [step_on_delivered s inner hin hs x, hy]
  simp [afterInput, Val.isNC, hv, runMain, hm]

example : callChain [exNext, exFail, exLoader] (some (.ok ⟨1, 5, some 5⟩)) = .nc ⟨.error, 2, .exc 7, some 5⟩ :=
  (failing_step_recorded [exNext] exFail [exLoader] (by simp) (by decide) (by decide) (by decide)
    ⟨1, 5, some 5⟩ ⟨2, 5, some 5⟩ (by decide)).1 (by decide) 7 (by decide)

example : callChain [exNext, exLoader] (some (.ok ⟨1, 5, some 5⟩)) = .ok ⟨2, 5, some 5⟩ :=
  step_success exNext [exLoader] (by simp) (by decide) ⟨1, 5, some 5⟩ ⟨2, 5, some 5⟩ ⟨2, 5, some 5⟩
    (by decide) (by decide) (by decide)
-- rejected type: the loader delivers class 2, the step accepts only class 9
example : callChain [exNext, ⟨4, .generic, true, [9], fun _ => .retNone⟩, exLoader] (some (.ok ⟨1, 5, some 5⟩))
    = .nc ⟨.error, 4, .badType 2, some 5⟩ :=
  (failing_step_recorded [exNext] ⟨4, .generic, true, [9], fun _ => .retNone⟩ [exLoader] (by simp) (by decide)
    (by decide) (by decide) ⟨1, 5, some 5⟩ ⟨2, 5, some 5⟩ (by decide)).2.2.2 (by decide)

/-- **Any schedule.** Inputs whose identifiers are distinct (the selection succeeded), any app
(any per-record outcome), and results arriving in ANY permutation of the submitted tasks: the
final store holds, for every selected input, exactly one record under its own identifier, equal
to the app's result on that input alone; records of every other identifier are untouched. -/
theorem apply_any_schedule (idOf : Nat → Id) (app : Nat → Val) (s : Store) (inputs : List Nat)
    (sel : List (Id × Nat)) (hsel : select idOf s inputs [] = some sel)
    (results : List (Nat × Val)) (hperm : results.Perm (sel.map (wrapped app))) :
    (∀ p ∈ sel, entries (writeAll idOf s results) p.1 = [(p.1, app p.2)]) ∧
    (∀ i, (∀ p ∈ sel, p.1 ≠ i) → entries (writeAll idOf s results) i = entries s i) :=
  apply_any_schedule' idOf app s inputs sel (select_spec idOf s inputs sel hsel) results hperm

/-- what is selected: exactly the inputs with no completed record yet, each once, in input order
facts: distinct identifiers, `idOf` of the member, not yet completed, and nothing missing. -/
theorem select_exact (idOf : Nat → Id) (s : Store) (inputs : List Nat) (sel : List (Id × Nat))
    (hsel : select idOf s inputs [] = some sel) :
    (sel.map (·.1)).Nodup ∧ (∀ p ∈ sel, idOf p.2 = p.1 ∧ p.2 ∈ inputs ∧ hasDone s p.1 = false) ∧
    (∀ m ∈ inputs, hasDone s (idOf m) = false → (idOf m, m) ∈ sel) :=
  let h := select_spec idOf s inputs sel hsel
  ⟨h.nodup, fun p hp => ⟨h.idOk p hp, h.mem p hp, h.fresh p hp⟩, h.complete⟩

example : select (fun m => m % 10) [(2, .ok ⟨1, 0, none⟩)] [11, 22, 33] [] = some [(1, 11), (3, 33)] := by decide
example : select (fun m => m % 10) [] [11, 21] [] = none := by decide
example : applyTo (fun m => m % 10) (fun m => if m = 22 then .nc ⟨.error, 2, .exc 1, some 22⟩ else .ok ⟨1, m, some m⟩)
    [] [11, 22, 33] [2, 1, 0]
    = some [(3, .ok ⟨1, 33, some 33⟩), (2, .nc ⟨.error, 2, .exc 1, some 22⟩), (1, .ok ⟨1, 11, some 11⟩)] := by decide

/-- **Idempotent resume.** Running again over a store that already holds the results of any
prefix of a previous run (any order both times) gives every selected input exactly one record
equal to the app's result on that input alone — the same as one uninterrupted run — and inputs
completed before are not selected again. -/
theorem apply_idempotent_resume (idOf : Nat → Id) (app : Nat → Val) (s : Store) (inputs : List Nat)
    (sel : List (Id × Nat)) (hsel : select idOf s inputs [] = some sel)
    (results : List (Nat × Val)) (hperm : results.Perm (sel.map (wrapped app))) (j : Nat)
    (sel' : List (Id × Nat)) (hsel' : select idOf (writeAll idOf s (results.take j)) inputs [] = some sel')
    (results' : List (Nat × Val)) (hperm' : results'.Perm (sel'.map (wrapped app))) :
    (∀ p ∈ sel, entries (writeAll idOf (writeAll idOf s (results.take j)) results') p.1
        = entries (writeAll idOf s results) p.1) ∧
    (∀ p ∈ sel, (p.2, app p.2) ∈ results.take j → (app p.2).isOk = true → ∀ q ∈ sel', q.1 ≠ p.1) := by
  have a := resume_same_store' idOf app s inputs sel hsel results hperm j sel' hsel' results' hperm'
  have b := apply_any_schedule idOf app s inputs sel hsel results hperm
  exact ⟨fun p hp => (a.1 p hp).trans (b.1 p hp).symm, a.2⟩

-- (auditor) non-vacuity of `apply_idempotent_resume`: all its hypotheses instantiated
def exApp : Nat → Val := fun m => if m = 22 then .nc ⟨.error, 2, .exc 1, some 22⟩ else .ok ⟨1, m, some m⟩
-- an interrupted run: three inputs, results arrive as 33, 22 (fails), 11; killed after two results; re-run in another order
example := apply_idempotent_resume (fun m => m % 10) exApp [] [11, 22, 33] [(1, 11), (2, 22), (3, 33)] (by decide)
    [(33, exApp 33), (22, exApp 22), (11, exApp 11)] (by decide) 2
    [(1, 11), (2, 22)] (by decide) [(22, exApp 22), (11, exApp 11)] (by decide)

/-! ### (auditor) directory stores vs SQLite stores: which stored records make `_apply_to` skip an input -/

/-- `select` (all theorems above) is `selectBy` with the directory-store membership test `hasDone` -/
theorem select_eq_selectBy (idOf : Nat → Id) (s : Store) (inputs : List Nat) (acc : List (Id × Nat)) :
    select idOf s inputs acc = selectBy (hasDone s) idOf inputs acc := by
  induction inputs generalizing acc with
  | nil => rfl
  | cons m ms ih => simp only [select, selectBy, ih]

theorem applyTo_eq_applyToBy (idOf : Nat → Id) (app : Nat → Val) (s : Store) (inputs order : List Nat) :
    applyTo idOf app s inputs order = applyToBy hasDone idOf app s inputs order := by
  simp only [applyTo, applyToBy, select_eq_selectBy]

/-- on a store WITHOUT not-completed records the two membership tests agree … -/
theorem hasAny_of_hasDone (s : Store) (i : Id) (h : hasDone s i = true) : hasAny s i = true := by
  unfold hasDone at h; unfold hasAny
  cases he : entries s i with
  | nil => rw [he] at h; simp at h
  | cons a l => simp

/-- … and differ on a stored not-completed record: with the identifier of a previously FAILED input a directory
store re-selects it (here: and therefore refuses the duplicate), a SQLite store skips both inputs.  Replayed on the real
stores by the `alias` correspondence stream. The theorems `apply_any_schedule` / `apply_idempotent_resume` are stated for
the directory-store test only. -/
theorem sqlite_skips_not_completed_counter :
    select (fun m => m % 10) [(1, .nc ⟨.error, 2, .exc 1, some 11⟩)] [11, 21] [] = none ∧
    selectBy (hasAny [(1, .nc ⟨.error, 2, .exc 1, some 11⟩)]) (fun m => m % 10) [11, 21] [] = some [] := by decide
/-- (auditor) lemma: what `selectBy` adds (any membership test) -/
theorem selectBy_prefix (done : Id → Bool) (idOf : Nat → Id) (ms : List Nat) (acc sel : List (Id × Nat))
    (h : selectBy done idOf ms acc = some sel) :
    ∃ added, sel = acc ++ added ∧ ∀ p ∈ added, idOf p.2 = p.1 ∧ p.2 ∈ ms ∧ done p.1 = false := by
  induction ms generalizing acc with
  | nil => simp only [selectBy, Option.some.injEq] at h; exact ⟨[], by simp [h], by simp⟩
  | cons m ms ih =>
    unfold selectBy at h
    split at h
    · cases h
    · split at h
      · obtain ⟨added, e, hp⟩ := ih acc h
        exact ⟨added, e, fun p hp' => let ⟨a, b, c⟩ := hp p hp'; ⟨a, List.mem_cons_of_mem _ b, c⟩⟩
      · next hd =>
        obtain ⟨added, e, hp⟩ := ih _ h
        refine ⟨(idOf m, m) :: added, by simp [e], ?_⟩
        intro p hp'
        rcases List.mem_cons.mp hp' with rfl | hp'
        · exact ⟨rfl, List.mem_cons_self, by simpa using hd⟩
        · let ⟨a, b, c⟩ := hp p hp'; exact ⟨a, List.mem_cons_of_mem _ b, c⟩

/-- (auditor) lemma: selected identifiers are distinct (any membership test) -/
theorem selectBy_nodup (done : Id → Bool) (idOf : Nat → Id) (ms : List Nat) (acc sel : List (Id × Nat))
    (h : selectBy done idOf ms acc = some sel) (hn : (acc.map (·.1)).Nodup) : (sel.map (·.1)).Nodup := by
  induction ms generalizing acc with
  | nil => simp only [selectBy, Option.some.injEq] at h; exact h ▸ hn
  | cons m ms ih =>
    unfold selectBy at h
    split at h
    · cases h
    · next hany =>
      split at h
      · exact ih acc h hn
      · apply ih _ h
        rw [List.map_append, List.nodup_append]
        refine ⟨hn, by simp, ?_⟩
        intro a ha b hb
        simp only [List.map_cons, List.map_nil, List.mem_singleton] at hb
        subst hb
        intro e; subst e
        apply hany
        obtain ⟨p, hp, e⟩ := List.mem_map.mp ha
        exact List.any_eq_true.mpr ⟨p, hp, by simp [e]⟩

theorem hasDone_false_of_hasAny_false (s : Store) (i : Id) (h : hasAny s i = false) : hasDone s i = false := by
  cases hd : hasDone s i with
  | false => rfl
  | true => rw [hasAny_of_hasDone s i hd] at h; cases h

/-- (auditor) **Any schedule, SQLite store** (`selectBy (hasAny s)`: inputs with ANY stored record are skipped): every
selected input gets exactly one record under its own identifier equal to the app's result on it alone, every other
identifier is untouched — in particular a stored not-completed record of a skipped input stays as it is (it is NOT
retried) — and the selected inputs had no record at all. -/
theorem apply_any_schedule_sqlite (idOf : Nat → Id) (app : Nat → Val) (s : Store) (inputs : List Nat)
    (sel : List (Id × Nat)) (hsel : selectBy (hasAny s) idOf inputs [] = some sel)
    (results : List (Nat × Val)) (hperm : results.Perm (sel.map (wrapped app))) :
    (∀ p ∈ sel, entries (writeAll idOf s results) p.1 = [(p.1, app p.2)]) ∧
    (∀ i, (∀ p ∈ sel, p.1 ≠ i) → entries (writeAll idOf s results) i = entries s i) ∧
    (∀ p ∈ sel, p.2 ∈ inputs ∧ idOf p.2 = p.1 ∧ entries s p.1 = []) := by
  obtain ⟨added, e, hp⟩ := selectBy_prefix (hasAny s) idOf inputs [] sel hsel
  simp only [List.nil_append] at e
  subst e
  have hn := selectBy_nodup (hasAny s) idOf inputs [] _ hsel (by simp)
  have spec : SelSpec idOf s (sel.map (·.2)) sel :=
    ⟨hn, fun p h => (hp p h).1, fun p h => List.mem_map_of_mem (f := (·.2)) h,
     fun p h => hasDone_false_of_hasAny_false s _ (hp p h).2.2,
     fun m hm _ => by
       obtain ⟨p, hpm, rfl⟩ := List.mem_map.mp hm
       rw [(hp p hpm).1]; exact hpm⟩
  have a := apply_any_schedule' idOf app s _ sel spec results hperm
  refine ⟨a.1, a.2, fun p h => ⟨(hp p h).2.1, (hp p h).1, ?_⟩⟩
  have := (hp p h).2.2
  simpa [hasAny] using this
example : applyToBy hasAny (fun m => m % 10) (fun m => .ok ⟨1, m, some m⟩) [(2, .nc ⟨.error, 2, .exc 1, some 22⟩)] [11, 22, 33] [1, 0]
    = some [(2, .nc ⟨.error, 2, .exc 1, some 22⟩), (3, .ok ⟨1, 33, some 33⟩), (1, .ok ⟨1, 11, some 11⟩)] := by decide


/-- **Resume, SQLite store** (`DataStoreSqlite`: ANY stored record, completed or not, makes `_apply_to`
skip the input): re-running over the results of any prefix of a previous run (any order both times)
gives every originally selected input exactly one record equal to the app's result on that input
alone — the same as one uninterrupted run (`apply_any_schedule_sqlite`) — and an input whose record
(completed OR not-completed) was written before the interruption is not selected again: on this store
class a failed input is never retried. -/
theorem apply_idempotent_resume_sqlite (idOf : Nat → Id) (app : Nat → Val) (s : Store) (inputs : List Nat)
    (sel : List (Id × Nat)) (hsel : selectBy (hasAny s) idOf inputs [] = some sel)
    (results : List (Nat × Val)) (hperm : results.Perm (sel.map (wrapped app))) (j : Nat)
    (sel' : List (Id × Nat)) (hsel' : selectBy (hasAny (writeAll idOf s (results.take j))) idOf inputs [] = some sel')
    (results' : List (Nat × Val)) (hperm' : results'.Perm (sel'.map (wrapped app))) :
    (∀ p ∈ sel, entries (writeAll idOf (writeAll idOf s (results.take j)) results') p.1
        = entries (writeAll idOf s results) p.1) ∧
    (∀ p ∈ sel, (p.2, app p.2) ∈ results.take j → ∀ q ∈ sel', q.1 ≠ p.1) := by
  have a := resume_same_store_by idOf app s inputs sel hsel results hperm j sel' hsel' results' hperm'
  have b := apply_any_schedule_by idOf app s inputs sel (selectBy_spec idOf s inputs sel hsel) results hperm
  exact ⟨fun p hp => (a.1 p hp).trans (b.1 p hp).symm, a.2⟩

example :
    let idOf : Nat → Id := fun m => m % 10
    let app : Nat → Val := fun m => if m = 22 then .nc ⟨.error, 2, .exc 1, some 22⟩ else .ok ⟨1, m, some m⟩
    let s1 := writeAll idOf [] [(22, app 22), (11, app 11)]
    selectBy (hasAny s1) idOf [11, 22, 33] [] = some [(3, 33)] ∧
    applyToBy hasAny idOf app s1 [11, 22, 33] [0] = applyToBy hasAny idOf app [] [11, 22, 33] [1, 0, 2] := by decide

/-! ### `util/parallel`: every submitted task's result arrives exactly once (bookkeeping theorems)

The pool itself is an assumption (each submitted future completes exactly once =
`order.Perm (List.range n)`); what the code adds around it — one future per element, collection
in completion order, chunking for `imap`/`map` — is modelled in `Model/ParallelBook.lean`. -/
open CogentModel.ParallelBook

/-- `as_completed` (`to_do = [submit(f, e) for e in s]; for fut in as_completed(to_do): yield fut.result()`):
for every input list, every worker count (irrelevant to the bookkeeping) and every completion order of
the futures, the yielded results are a permutation of `[f(e) for e in s]`. -/
theorem as_completed_every_result_once {α β} (f : α → β) (s : List α) (order : List Nat)
    (hpool : order.Perm (List.range s.length)) : (asCompleted f s order).Perm (s.map f) :=
  asCompleted_perm f s order hpool

/-- the serial path yields the results in input order -/
theorem serial_in_order {α β} (f : α → β) (s : List α) : serialResults f s = s.map f := rfl

/-- `imap` / `map` (`executor.map(f, s, chunksize=c)`): for every `n` and every chunk size `c ≥ 1`
(dividing `n` or not: the trailing partial chunk is a task too) the chained results are exactly
`[f(e) for e in s]`, in order. -/
theorem imap_every_result_once_in_order {α β} (f : α → β) (s : List α) (c : Nat) (hc : 0 < c) :
    imapResults f s c = s.map f :=
  imap_results f s c hc

/-- the default chunk size is ≥ 1 whenever there is something to do -/
theorem default_chunksize_pos (n w : Nat) (hn : 0 < n) (hw : 0 < w) : 0 < defaultChunksize n w := by
  unfold defaultChunksize
  by_cases h : n % (w * 4) ≠ 0
  · simp [h]
  · have h' : n % (w * 4) = 0 := by simpa using h
    have hq : n = (w * 4) * (n / (w * 4)) := by
      have := Nat.div_add_mod n (w * 4); omega
    simp only [h, if_false]
    rcases Nat.eq_zero_or_pos (n / (w * 4)) with e | e
    · rw [e] at hq; omega
    · exact e

example : chunks 3 [0, 1, 2, 3, 4, 5, 6, 7, 8, 9] = [[0, 1, 2], [3, 4, 5], [6, 7, 8], [9]] := by decide
example : asCompleted (fun x => x * x) [1, 2, 3] [2, 0, 1] = [9, 1, 4] := by decide
example : defaultChunksize 10 2 = 2 ∧ defaultChunksize 8 2 = 1 := by decide

/-- **Any schedule, stated with the pool assumption only**: the results `_apply_to` writes are
`as_completed(app, selected)`; if every submitted future completes exactly once (in whatever
order), each selected input gets exactly one record under its own identifier equal to the app's
result on that input alone, and every other identifier is untouched.  ("Every result arrives exactly
once" is no longer a hypothesis: it is `as_completed_every_result_once`.) -/
theorem apply_parallel_any_pool (idOf : Nat → Id) (app : Nat → Val) (s : Store) (inputs : List Nat)
    (sel : List (Id × Nat)) (hsel : select idOf s inputs [] = some sel)
    (order : List Nat) (hpool : order.Perm (List.range sel.length)) :
    applyTo idOf app s inputs order = some (writeAll idOf s (asCompleted (wrapped app) sel order)) ∧
    (∀ p ∈ sel, entries (writeAll idOf s (asCompleted (wrapped app) sel order)) p.1 = [(p.1, app p.2)]) ∧
    (∀ i, (∀ p ∈ sel, p.1 ≠ i) → entries (writeAll idOf s (asCompleted (wrapped app) sel order)) i = entries s i) := by
  have h := apply_any_schedule idOf app s inputs sel hsel _ (asCompleted_perm (wrapped app) sel order hpool)
  refine ⟨?_, h.1, h.2⟩
  simp [applyTo, hsel, schedule, asCompleted, submitAll]

/-- **`list(app.as_completed(inputs, parallel=…))` accounts for every (truthy) input exactly once, under its own source,
with the value the app returns on that input alone** — serial (then also in input order) or parallel with ANY completion order
of a pool that completes each submitted future once.  (Falsy inputs are dropped by `_proxy_input`: known finding
C14-falsy-input-dropped.) -/
theorem as_completed_accounts {α β} (app : α → β) (truthy : α → Bool) (dstore : List α) (parallel : Bool) (order : List Nat)
    (hpool : parallel = true → order.Perm (List.range (dstore.filter truthy).length)) :
    (asCompletedApp app truthy dstore parallel order).Perm ((dstore.filter truthy).map (fun e => (e, app e))) ∧
    (parallel = false → asCompletedApp app truthy dstore parallel order = (dstore.filter truthy).map (fun e => (e, app e))) := by
  unfold asCompletedApp proxyInput
  cases parallel with
  | false => exact ⟨List.Perm.refl _, fun _ => rfl⟩
  | true => exact ⟨asCompleted_perm _ _ order (hpool rfl), fun h => by cases h⟩

example : asCompletedApp (fun x => x * x) (fun x => x != 0) [3, 0, 5, 7] true [2, 0, 1] = [(7, 49), (3, 9), (5, 25)] := by decide

end CogentModel.C14
