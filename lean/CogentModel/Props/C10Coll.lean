/- C10 (wave 2): collection / alignment level rich dict = per-row round trips (old-style classes). -/
import CogentModel.Model.CollRich
import CogentModel.Props.C10
namespace CogentModel.C10Coll
open CogentModel.CollRich CogentModel.TreeRich CogentModel.View CogentModel.RichDict

theorem dictSet_fresh {β} (d : List (String × β)) (k : String) (v : β) (h : k ∉ d.map Prod.fst) :
    dictSet d k v = d ++ [(k, v)] := by
  induction d with
  | nil => rfl
  | cons p d ih =>
    obtain ⟨k', v'⟩ := p
    simp only [List.map_cons, List.mem_cons, not_or] at h
    have hne : ¬ k' = k := fun e => h.1 e.symm
    simp [dictSet, hne, ih h.2]

theorem foldl_seqsDict {α ρ} (name : α → String) (exp : α → ρ) (rows : List α) (acc : List (String × ρ))
    (hnd : (acc.map Prod.fst ++ rows.map name).Nodup) :
    rows.foldl (fun d s => dictSet d (name s) (exp s)) acc = acc ++ rows.map (fun s => (name s, exp s)) := by
  induction rows generalizing acc with
  | nil => simp
  | cons s rows ih =>
    have hfresh : name s ∉ acc.map Prod.fst := by
      intro hm
      have := (List.nodup_append.mp hnd).2.2 _ hm (name s) (by simp)
      exact this rfl
    simp only [List.foldl_cons, dictSet_fresh acc (name s) (exp s) hfresh]
    rw [ih]
    · simp
    · simpa [List.map_append, List.append_assoc] using hnd

/-- with unique row names (enforced by the collection constructors) the `seqs` dict is the list of rows, in order, each
    under its own name: nothing is overwritten -/
theorem seqsDict_of_nodup {α ρ} (name : α → String) (exp : α → ρ) (rows : List α) (hnd : (rows.map name).Nodup) :
    seqsDict name exp rows = rows.map (fun s => (name s, exp s)) := by
  unfold seqsDict
  rw [foldl_seqsDict name exp rows [] (by simpa using hnd)]; simp

example : seqsDict (fun (p : String × Nat) => p.1) (fun p => p.2) [("b", 1), ("a", 2), ("c", 3)] = [("b", 1), ("a", 2), ("c", 3)] := by decide

theorem fromSeqsDict_forall2 {α ρ ε σ} (name : α → String) (exp : α → ρ) (imp : ρ → Except ε σ) (R : α → σ → Prop) (rows : List α)
    (hrow : ∀ s ∈ rows, ∃ s', imp (exp s) = .ok s' ∧ R s s') :
    ∃ out, fromSeqsDict imp (rows.map (fun s => (name s, exp s))) = .ok out ∧ Rows R rows out := by
  induction rows with
  | nil => exact ⟨[], rfl, Rows.nil⟩
  | cons s rows ih =>
    obtain ⟨s', hs, hR⟩ := hrow s (by simp)
    obtain ⟨out, ho, hF⟩ := ih (fun x hx => hrow x (List.mem_cons_of_mem _ hx))
    exact ⟨s' :: out, by simp [fromSeqsDict, hs, ho], Rows.cons hR hF⟩

/-- COLLECTION LEVEL = PER ROW: for every collection with unique row names, any per-row exporter / importer and any relation `R`
    ("observationally equal"): if every row round-trips to an `R`-related row, the collection's rich dict deserialises to the same
    number of rows, in the same order, each `R`-related to its original -/
theorem coll_roundtrip_rows {α ρ ε σ} (name : α → String) (exp : α → ρ) (imp : ρ → Except ε σ) (R : α → σ → Prop) (rows : List α)
    (hnd : (rows.map name).Nodup) (hrow : ∀ s ∈ rows, ∃ s', imp (exp s) = .ok s' ∧ R s s') :
    ∃ out, collRoundtrip name exp imp rows = .ok out ∧ Rows R rows out := by
  unfold collRoundtrip
  rw [seqsDict_of_nodup name exp rows hnd]
  exact fromSeqsDict_forall2 name exp imp R rows hrow

/-- identity version: rows that round-trip to themselves give back the same list of rows -/
theorem coll_roundtrip_id {α ρ ε} (name : α → String) (exp : α → ρ) (imp : ρ → Except ε α) (rows : List α)
    (hnd : (rows.map name).Nodup) (hrow : ∀ s ∈ rows, imp (exp s) = .ok s) :
    collRoundtrip name exp imp rows = .ok rows := by
  obtain ⟨out, ho, hF⟩ := coll_roundtrip_rows name exp imp (fun a b => a = b) rows hnd (fun s hs => ⟨s, hrow s hs, rfl⟩)
  have : ∀ (xs ys : List α), Rows (fun a b => a = b) xs ys → xs = ys := by
    intro xs ys h
    induction h with
    | nil => rfl
    | cons h _ ih => rw [h, ih]
  rw [ho, this rows out hF]

example : collRoundtrip (ε := Unit) (fun (p : String × Nat) => p.1) (fun p => p) (fun p => .ok p) [("b", 1), ("a", 2)] = .ok [("b", 1), ("a", 2)] :=
  coll_roundtrip_id _ _ _ _ (by decide) (fun _ _ => rfl)

/-- the uniqueness hypothesis is needed: two rows with one name collapse into ONE row (the second row's content at the first row's
    position) -/
theorem coll_duplicate_names_counter :
    collRoundtrip (ε := Unit) (fun (p : String × Nat) => p.1) (fun p => p) (fun p => .ok p) [("a", 1), ("b", 2), ("a", 3)]
      = .ok [("a", 3), ("b", 2)] := by rfl

/-- a row of an old-style collection: name, parent string, view left by the history -/
structure SeqRow (α : Type) where
  name : String
  parent : List α
  view : View

/-- INSTANCE (old-style SequenceCollection of Sequence rows, Sequence.to_rich_dict -> deserialise_seq per row): for every collection with
    unique names whose rows are in ANY view state satisfying the invariant (any history of slices / rc / strides per row), the rich
    dict deserialises, row count and order are kept and every row is observationally its original (string, strand, parent
    coordinates, invariant) -/
theorem coll_view_rows_roundtrip {α} [Inhabited α] (rows : List (SeqRow α)) (hnd : (rows.map (·.name)).Nodup)
    (hinv : ∀ s ∈ rows, Inv s.view ∧ s.view.seqLen = s.parent.length) :
    ∃ out, collRoundtrip (·.name) (fun s => s) (fun s => seqRoundtripOld s.parent s.view) rows = .ok out ∧
      Rows (fun s r => RebaseOK s.parent s.view r) rows out :=
  coll_roundtrip_rows _ _ _ _ rows hnd (fun s hs => C10.view_rebase_roundtrip s.parent s.view (hinv s hs).1 (hinv s hs).2)

end CogentModel.C10Coll
