import CogentModel.Model.Aln
import CogentModel.Proofs.AlnInv
import CogentModel.Proofs.AlnRefine2
import CogentModel.Proofs.AlnViewSim
import CogentModel.Proofs.AlnTotal
/-! # C03 — property theorems (alignment operations equal the operations on the gapped strings)

`gapped r` is the string a row `Aligned(map, data)` displays; `rowOfString` is how `Alignment`
builds a row from a gapped string; `AlnD` rows are the dense `ArrayAlignment` rows (the strings
themselves). -/
namespace CogentModel.C03
open CogentModel.IndelMap CogentModel.Aln

/-- A row built from a gapped string (`parse_out_gaps`) displays exactly that string: no character
is altered, for every gap layout and every alphabet. -/
theorem row_roundtrip (s : List Char) : gapped (rowOfString s) = s := gapped_rowOfString s

example : gapped (rowOfString "-AC--G-".toList) = "-AC--G-".toList := by decide

/-- Class conversion / construction: the annotatable alignment built from named gapped strings shows
the same named rows as the array-backed alignment holding those strings (`to_type` both ways). -/
theorem array_annotatable_agree (d : AlnD) : showA (ofStrings d) = d := by
  unfold showA ofStrings
  induction d with
  | nil => rfl
  | cons p r ih => simp only [List.map_cons, List.map_map] at ih ⊢; rw [row_roundtrip]; simp [ih]

example : showA (ofStrings [("s0", "G--".toList), ("s1", "A-C".toList)]) = [("s0", "G--".toList), ("s1", "A-C".toList)] := by decide

/-- Rows of a freshly built alignment have equal length: if all the strings have length `n`, every
row's `len(map)` is `n`. -/
theorem rows_equal_length (d : AlnD) (n : Nat) (h : ∀ p ∈ d, p.2.length = n) :
    ∀ q ∈ ofStrings d, len q.2.map = n := by
  intro q hq
  unfold ofStrings at hq
  obtain ⟨p, hp, rfl⟩ := List.mem_map.mp hq
  have := h p hp
  simp only [rowOfString]
  rw [C08len]
  simp only [List.length_map]
  omega
where
  C08len {s : List Char} : len (fromGapped (s.map isGap)) = ((s.map isGap).length : Int) := by
    have h1 := len_eq' _ (fromGapped_wf' (s.map isGap))
    rw [abs_fromGapped', Gapped.ofPattern, ofPatternFrom_length] at h1
    exact h1.symm

example : ∀ q ∈ ofStrings [("a", "A-C".toList), ("b", "---".toList)], len q.2.map = 3 := by decide

/-- `take_seqs` (either polarity) commutes with display: selecting rows of the annotatable alignment
and then reading them equals selecting the named strings. -/
theorem take_seqs_refines (a : AlnA) (names : List String) (negate : Bool) :
    showA (takeSeqs a names negate) = takeSeqs (showA a) names negate := takeSeqs_show a names negate

example : showA (takeSeqs (ofStrings [("s0", "G-".toList), ("s1", "AC".toList)]) ["s1"] false) = [("s1", "AC".toList)] := by decide

/-- Regression anchor for the repaired clamp: slicing the row of `G--` by `[0:4]` and reverse
complementing shows `--C`, what the string operations give. -/
theorem slice_beyond_len_then_rc_example :
    ((rowSlice (rowOfString "G--".toList) (some 0) (some 4)).toOption.bind fun r => (rowRc true r).toOption.map gapped)
      = some "--C".toList := by decide

/-- **Row slicing refines string slicing** for every `start`/`stop` (`None`, negative, beyond the
end, inside gap runs): on a well-formed row, `Aligned.__getitem__(slice)` — new map from
`IndelMap.__getitem__`, data sliced at the two sequence indices — displays `s[a:b]`, and the
result is again well formed (map and data stay consistent). -/
theorem slice_refines (r r' : Row) (h : RowWF r) (a b : Option Int) (hr : rowSlice r a b = .ok r') :
    RowWF r' ∧ gapped r' = PySlice.slice (gapped r) a b 1 := rowSlice_spec r r' h a b hr

example : (rowSlice (rowOfString "-AC--G-".toList) (some 1) (some (-2))).toOption.map gapped
    = some (PySlice.slice "-AC--G-".toList (some 1) (some (-2)) 1) := by decide

/-- **Row slicing is total in range**: on a well-formed row, `Aligned.__getitem__(slice)` returns a
row (no ValueError / TypeError from the map constructor or the `seq_start > seq_end` branch) for
all bounds that are `None` or `≥ -len`; with `slice_refines` this is total correctness. -/
theorem slice_total (r : Row) (h : RowWF r) (a b : Option Int)
    (ha : ∀ x, a = some x → -len r.map ≤ x) (hb : ∀ y, b = some y → -len r.map ≤ y) :
    ∃ r', rowSlice r a b = .ok r' ∧ RowWF r' ∧ gapped r' = PySlice.slice (gapped r) a b 1 := by
  obtain ⟨r', hr⟩ := rowSlice_total r h a b ha hb
  exact ⟨r', hr, rowSlice_spec r r' h a b hr⟩

example : ∃ r', rowSlice (rowOfString "A--CG".toList) (some (-5)) (some 40) = .ok r' := ⟨_, rfl⟩

/-- Integer indexing of a row follows Python index semantics (negative indices, IndexError when out
of range) and shows the character of that column. -/
theorem int_refines (r r' : Row) (h : RowWF r) (i : Int) (hr : rowInt r i = .ok r') :
    RowWF r' ∧ ∃ c, PySlice.index (gapped r) i = some c ∧ gapped r' = [c] := rowInt_spec r r' h i hr

example : (rowInt (rowOfString "A-C".toList) (-1)).toOption.map gapped = some ['C'] := by decide

/-- `take_positions(cols)` (repeated / unsorted / negative columns) shows the selected columns. -/
theorem take_positions_refines (r r' : Row) (h : RowWF r) (cols : List Int)
    (hr : rowTakePositions r cols = .ok r') :
    RowWF r' ∧ denseTake (gapped r) cols = .ok (gapped r') := rowTakePositions_spec r r' h cols hr

example : (rowTakePositions (rowOfString "A-CG".toList) [3, 0, 0, -3]).toOption.map gapped = some "GAA-".toList := by decide

/-- A well-formed row's `len` is the length of the string it displays (so rows that display
equally long strings have equal `len`). -/
theorem len_eq_display (r : Row) (h : RowWF r) : len r.map = (gapped r).length := by
  rw [gapped_total r h, List.length_map]; exact (len_eq' r.map h.1).symm

example : RowWF (rowOfString "A--C".toList) := rowWF_ofString _

/-- Reverse-complementing a row (`nucleic_reversed` of the map, `rc` of the sequence) shows the
reverse complement of the string it displayed, and keeps the row well formed. -/
theorem rc_refines (dna : Bool) (r r' : Row) (h : RowWF r) (hr : rowRc dna r = .ok r') :
    RowWF r' ∧ gapped r' = (gapped r).reverse.map (comp dna) := rowRc_spec dna r r' h hr

example : (rowRc true (rowOfString "-AC--G".toList)).toOption.map gapped = some "C--GT-".toList := by decide

/-- **History theorem** (`aln_refines`): for every alignment with well-formed rows and every finite
sequence of slice / int / rc / take_seqs / take_positions (both polarities) / to_rna / to_dna / `+` /
get_degapped_relative_to / sample with given locations and motif length / to_type round trip /
keep-blocks (`gapped_by_map` with a run-length FeatureMap: single span via `IndelMap.__getitem__`,
several spans via `joined_segments`) / filtered-by-column-mask (`filtered`, `no_degenerates`,
`omit_gap_pos`: the predicate's verdict per column is given, the classes' handling of the kept
columns is what is proved equal) operations, if the
annotatable class completes the history, the rows it then shows are exactly the rows obtained by
running the same history on the plain gapped strings (which is what the dense class does), and all
rows are still well formed.  By induction over the operation list. -/
theorem aln_refines (ops : List AOp) (dna : Bool) (a : AlnA) (hops : ∀ op ∈ ops, OpOK op) (hwf : AllWF a)
    (a' : AlnA) (dna' : Bool) (h : runA dna a ops = .ok (a', dna')) :
    AllWF a' ∧ runD dna (showA a) ops = some (.ok (showA a', dna')) :=
  run_refines ops dna a hops hwf a' dna' h

example : (runA true (ofStrings [("s0", "G-A-T".toList), ("s1", "A-CNT".toList)])
      [.slice (some 1) none, .rc, .takePositions [3, 0] false, .toRna]).toOption.map (fun r => showA r.1)
    = some [("s0", "-A".toList), ("s1", "-A".toList)] := by decide

/-- **The two classes agree after every history**: starting from the same named gapped strings,
whatever the annotatable class shows after a history is what the dense class holds. -/
theorem array_annotatable_agree_history (ops : List AOp) (dna : Bool) (d : AlnD)
    (hops : ∀ op ∈ ops, OpOK op) (a' : AlnA) (dna' : Bool)
    (h : runA dna (ofStrings d) ops = .ok (a', dna')) :
    runD dna d ops = some (.ok (showA a', dna')) := by
  have hwf : AllWF (ofStrings d) := by
    intro p hp
    obtain ⟨q, _, rfl⟩ := List.mem_map.mp hp
    exact rowWF_ofString _
  have := (run_refines ops dna (ofStrings d) hops hwf a' dna' h).2
  rwa [array_annotatable_agree] at this

example : (∀ op ∈ [AOp.slice (some 0) (some 9), AOp.int (-1), AOp.rc, AOp.takePositions [2, 0] true, AOp.degap "s0",
    AOp.sample [2, 0, 2] 3, AOp.reparse], OpOK op) := by simp [OpOK]
example : (runA true (ofStrings [("s0", "G-A-TT".toList), ("s1", "A-CNT-".toList)])
      [.degap "s0", .sample [1, 0] 2]).toOption.map (fun r => showA r.1)
    = some [("s0", "TTGA".toList), ("s1", "T-AC".toList)] := by decide

/-- **Through the real view arithmetic (C01)**: keep each row's data as the C01 sequence model
(parent string + slice record `start/stop/step`, complemented on display when reversed) instead of
its displayed string.  Then for every history of slices (any bounds) and reverse complements —
e.g. slice, rc, slice — the row finally displays what the same history gives on the plain gapped
string.  Uses `C01`'s `str_getitem` / `str_rc` for the sequence and `C08`'s `getitem_spec` /
`reversed_spec` for the map; `cf` is any involutive complement that fixes the gap character. -/
theorem view_history_refines (cf : Char → Char) (hcf : ∀ x, cf (cf x) = x) (hgap : cf '-' = '-')
    (ops : List VOp) (rv rv' : RowV) (h : RowVWF cf rv) (hr : runV rv ops = .ok rv') :
    RowVWF cf rv' ∧ gapped (rv'.toRow cf) = runStr cf (gapped (rv.toRow cf)) ops :=
  runV_refines cf hcf hgap ops rv rv' h hr

example : ∃ cf : Char → Char, (∀ x, cf (cf x) = x) ∧ cf '-' = '-' := ⟨id, fun _ => rfl, rfl⟩
example : (runV ⟨fromGapped ("A-CG-T".toList.map isGap), SeqWrap.ofString "ACGT".toList true⟩
      [.slice (some 1) (some 9), .rc, .slice (some 1) none]).toOption.map (fun r => gapped (r.toRow (comp true)))
    = some "-CG-".toList := by decide

/-- Keeping blocks of columns (`Aligned.__getitem__(FeatureMap)`): for blocks sorted by start, the
row displays the blocks of its string joined together. -/
theorem keep_refines (r r' : Row) (h : RowWF r) (locs : List (Int × Int)) (hs : sortPairs locs = locs)
    (hr : rowKeep r locs = .ok r') : RowWF r' ∧ gapped r' = denseKeep (gapped r) locs :=
  rowKeep_spec r r' h locs hs hr

example : (rowKeep (rowOfString "A--CG-T".toList) [(1, 3), (4, 7)]).toOption.map gapped = some "--G-T".toList := by decide

/-- The run-length blocks `filtered()` builds from the per-column verdicts select exactly the columns
with a positive verdict (so the annotatable class, going through blocks and `joined_segments`, and
the dense class, taking columns, agree). -/
theorem filter_blocks_eq_columns (s : List Char) (mask : List Bool) :
    denseKeep s (maskRuns 0 none mask) = denseFilter s mask := denseKeep_maskRuns s mask

example : (runA true (ofStrings [("s0", "G-ANT".toList), ("s1", "A-CNT".toList)])
      [.filterMask [true, false, true, false, true], .keep [(0, 1), (2, 3)]]).toOption.map (fun r => showA r.1)
    = some [("s0", "GT".toList), ("s1", "AT".toList)] := by decide

/-! ## Added by the audit: totality of `rc` and of integer indexing (the two are conditional above) -/

/-- `Aligned.rc()` never raises on a well-formed row; with `rc_refines` this is total correctness. -/
theorem rc_total (dna : Bool) (r : Row) (h : RowWF r) :
    ∃ r', rowRc dna r = .ok r' ∧ RowWF r' ∧ gapped r' = (gapped r).reverse.map (comp dna) := by
  have hm := nucleicReversed_ok r.map h.1
  generalize (⟨(r.map.gapPos.map (r.map.parentLength - ·)).reverse,
      cumsum (gapLengths r.map.cumLens).reverse, r.map.parentLength⟩ : IMap) = m at hm
  have hr : rowRc dna r = .ok ⟨m, (r.data.reverse).map (comp dna)⟩ := by
    unfold rowRc; rw [hm]
  exact ⟨_, hr, rowRc_spec dna r _ h hr⟩

example : ∃ r', rowRc true (rowOfString "-AC--G".toList) = .ok r' ∧ gapped r' = "C--GT-".toList := ⟨_, rfl, by decide⟩

/-- Integer indexing returns a row for every index Python accepts (`-len ≤ i < len`) and shows that
column's character; outside that range it is an IndexError, as for a string. -/
theorem int_total (r : Row) (h : RowWF r) (i : Int) (h0 : -len r.map ≤ i) (h1 : i < len r.map) :
    ∃ r', rowInt r i = .ok r' ∧ RowWF r' ∧ ∃ c, PySlice.index (gapped r) i = some c ∧ gapped r' = [c] := by
  have hlen : (0 : Int) ≤ len r.map := by rw [len_eq_display r h]; omega
  obtain ⟨r', hr⟩ : ∃ r', rowInt r i = .ok r' := by
    unfold rowInt
    by_cases hi : i < 0
    · simp only [hi, if_true]
      rw [if_pos (by omega)]
      obtain ⟨r', hr, _⟩ := slice_total r h (some (i + len r.map)) (some (i + len r.map + 1))
        (by intro x hx; cases hx; omega) (by intro y hy; cases hy; omega)
      exact ⟨r', hr⟩
    · simp only [hi, if_false]
      rw [if_pos (by omega)]
      obtain ⟨r', hr, _⟩ := slice_total r h (some i) (some (i + 1))
        (by intro x hx; cases hx; omega) (by intro y hy; cases hy; omega)
      exact ⟨r', hr⟩
  exact ⟨r', hr, int_refines r r' h i hr⟩

theorem int_out_of_range (r : Row) (i : Int) (h : i < -len r.map ∨ len r.map ≤ i) :
    rowInt r i = .error .indexError := by
  unfold rowInt
  by_cases hi : i < 0
  · simp only [hi, if_true]; rw [if_neg (by omega)]
  · simp only [hi, if_false]; rw [if_neg (by omega)]

example : ∃ r', rowInt (rowOfString "A-C".toList) (-3) = .ok r' ∧ gapped r' = ['A'] := ⟨_, rfl, by decide⟩
example : rowInt (rowOfString "A-C".toList) 3 = .error .indexError := by decide

/- FULL STATEMENT (not proved): the error clause of the history theorem (both classes raise IndexError
   together; a negative slice bound below -len is refused by the annotatable class but clamped by the
   dense one), and the evaluation of the column predicates themselves (`AllowedCharacters`, `GapsOk`
   with its float threshold): in `filterMask` the verdict per column is an input.  Those are covered by
   the correspondence check and the spec-level differential on both classes. -/

end CogentModel.C03
