import CogentModel.Model.Aln
import CogentModel.Proofs.AlnInv
/-! # C03 — property theorems (alignment operations equal the operations on the gapped strings)

`gapped r` is the string a row `Aligned(map, data)` displays; `rowOfString` is how `Alignment`
builds a row from a gapped string; `AlnD` rows are the dense `ArrayAlignment` rows (the strings
themselves). -/
namespace CogentModel.C03
open CogentModel.IndelMap CogentModel.Aln

/-- what an alignment of either class shows: name ↦ gapped string -/
def showA (a : AlnA) : AlnD := a.map fun p => (p.1, gapped p.2)
def ofStrings (d : AlnD) : AlnA := d.map fun p => (p.1, rowOfString p.2)

/-- A row built from a gapped string (`parse_out_gaps`) displays exactly that string: no character
is altered, for every gap layout and every alphabet. -/
theorem row_roundtrip (s : List Char) : gapped (rowOfString s) = s := gapped_rowOfString s

example : gapped (rowOfString "-AC--G-".toList) = "-AC--G-".toList := by decide

/-- Class conversion / construction: the annotatable alignment built from named gapped strings shows
the same named rows as the array-backed alignment holding those strings (`to_type` both ways). -/
theorem array_annotatable_agree (d : AlnD) : showA (ofStrings d) = d := by
  unfold showA ofStrings
  induction d with
  | nil => rfl
  | cons p r ih => simp only [List.map_cons, List.map_map] at ih ⊢; rw [row_roundtrip]; simp [ih]

example : showA (ofStrings [("s0", "G--".toList), ("s1", "A-C".toList)]) = [("s0", "G--".toList), ("s1", "A-C".toList)] := by decide

/-- Rows of a freshly built alignment have equal length: if all the strings have length `n`, every
row's `len(map)` is `n`. -/
theorem rows_equal_length (d : AlnD) (n : Nat) (h : ∀ p ∈ d, p.2.length = n) :
    ∀ q ∈ ofStrings d, len q.2.map = n := by
  intro q hq
  unfold ofStrings at hq
  obtain ⟨p, hp, rfl⟩ := List.mem_map.mp hq
  have := h p hp
  simp only [rowOfString]
  rw [C08len]
  simp only [List.length_map]
  omega
where
  C08len {s : List Char} : len (fromGapped (s.map isGap)) = ((s.map isGap).length : Int) := by
    have h1 := len_eq' _ (fromGapped_wf' (s.map isGap))
    rw [abs_fromGapped', Gapped.ofPattern, ofPatternFrom_length] at h1
    exact h1.symm

example : ∀ q ∈ ofStrings [("a", "A-C".toList), ("b", "---".toList)], len q.2.map = 3 := by decide

/-- `take_seqs` (either polarity) commutes with display: selecting rows of the annotatable alignment
and then reading them equals selecting the named strings. -/
theorem take_seqs_refines (a : AlnA) (names : List String) (negate : Bool) :
    showA (takeSeqs a names negate) = takeSeqs (showA a) names negate := by
  unfold showA takeSeqs
  cases negate with
  | true => simp [List.filter_map, Function.comp_def]
  | false =>
    simp only [Bool.false_eq_true, if_false]
    have hf : ∀ n : String, (List.find? (fun x => decide (x.1 = n)) (List.map (fun p => (p.1, gapped p.2)) a))
        = (List.find? (fun x => decide (x.1 = n)) a).map (fun p => (p.1, gapped p.2)) := by
      intro n
      rw [List.find?_map]
      rfl
    induction names with
    | nil => rfl
    | cons n ns ih =>
      simp only [List.filterMap_cons]
      rw [hf]
      cases hfa : List.find? (fun x => decide (x.1 = n)) a with
      | none => simpa using ih
      | some x => simpa using ih

example : showA (takeSeqs (ofStrings [("s0", "G-".toList), ("s1", "AC".toList)]) ["s1"] false) = [("s1", "AC".toList)] := by decide

/-- Regression anchor for the repaired clamp: slicing the row of `G--` by `[0:4]` and reverse
complementing shows `--C`, what the string operations give. -/
theorem slice_beyond_len_then_rc_example :
    ((rowSlice (rowOfString "G--".toList) (some 0) (some 4)).toOption.bind fun r => (rowRc true r).toOption.map gapped)
      = some "--C".toList := by decide

/- FULL STATEMENT (not proved): `aln_refines` — for every alignment `a` whose rows are well formed and
every list `ops` of slice / int / rc / take_positions / take_seqs / keep-blocks / + / to_rna / to_dna,
`showA (run ops a) = Spec.run ops (showA a)`, and the same for dense rows, hence both classes agree
after every history.  Not proved: it needs `getitem_spec` of C08 (the start-case x stop-case product of
`IndelMap.__getitem__`), which was not completed in the time available, and it is FALSE for the code as
it stands for slices with stop > len, negative / out-of-range int indices, `aln + aln` and
`take_positions(negate=True)` (see known_findings.d/C03.json).  Those clauses are covered by the
correspondence check (model = code on random histories) plus the spec-level differential. -/

end CogentModel.C03
