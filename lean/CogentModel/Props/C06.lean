import CogentModel.Model.Splitlines
import CogentModel.Model.SeqFormats
import CogentModel.Spec.SeqRecords
import CogentModel.Proofs.Splitlines
import CogentModel.Proofs.SeqFormats
import CogentModel.Spec.FastaText
import CogentModel.Proofs.FastaGeneral
import CogentModel.Model.Suffixes
import CogentModel.Proofs.Suffixes
import CogentModel.Gen.C06Dispatch
import CogentModel.Model.GenBankLoc
import CogentModel.Proofs.GenBankLoc
/-! # C06 — property theorems (sequence formats round-trip, parsers agree, chunking is invisible) -/
namespace CogentModel.C06
open CogentModel.Splitlines CogentModel.SeqFormats CogentModel.SeqSpec CogentModel.FastaText

/-- **Every chunk size yields the same lines.**  For every text and *every* way of cutting it
into non-empty chunks (hence every `chunk_size ≥ 1` of `iter_splitlines`, and every sequence of
short reads), the streamed lines are exactly `text.splitlines()`.  Hypothesis: `'\n'` is the
only line-boundary character of the text (no VT/FF/FS/GS/RS/NEL/LS/PS; `'\r'` never reaches
the loop because the file is opened with universal newlines). -/
theorem splitlines_chunk_independent (chunks : List (List Char))
    (hne : ∀ ch ∈ chunks, ch ≠ []) (hnl : NlOnly chunks.flatten) :
    iterSplitlines chunks = pySplitlines chunks.flatten := by
  unfold iterSplitlines
  rw [iterGo_eq chunks [] hne (by simpa using hnl), pySplitlines_eq_core hnl]
  simp

-- non-vacuity: a text whose chunk boundaries fall inside a line, right after and right before a newline
example : NlOnly (['a', 'b', '\n', 'c'] ++ ['d', '\n'] ++ ['\n', 'x']) := by decide
example : iterSplitlines [['a', 'b', '\n', 'c'], ['d', '\n'], ['\n', 'x']] = [['a', 'b'], ['c', 'd'], [], ['x']] := by decide

/-- The hypothesis of `splitlines_chunk_independent` is needed: with a form feed in the text the
real carry-over logic *is* chunk dependent (`"a\x0cb\n"` read 2 characters at a time gives
`["ab"]`, read at once gives `["a", "b"]`). Such a file is not well-formed sequence data. -/
theorem splitlines_formfeed_counter :
    ∃ chunks : List (List Char), (∀ ch ∈ chunks, ch ≠ []) ∧
      iterSplitlines chunks ≠ pySplitlines chunks.flatten :=
  ⟨[['a', Char.ofNat 12], ['b', '\n']], by decide, by decide⟩

/-- **FASTA round-trip, any wrapping.**  For every list of records whose names are well formed
(non-empty printable ASCII, no leading/trailing blank — `>`, `|`, inner blanks allowed) and whose
sequences have been wrapped *in any way whatsoever* into non-empty lines of residue characters,
both line based parsers applied to the text `seqs_to_fasta` writes return exactly the names, the
order and the sequences. -/
theorem fasta_roundtrip (recs : List (Str × List Str)) (hwf : WfRecs ['>'] recs) :
    fastaFaster (fastaFormat recs) = expected recs ∧
    (recs ≠ [] → fastaStrict (fastaFormat recs) = .ok (expected recs)) := by
  have hl := pySplitlines_unlines (recLines_noBreak (l0 := '>') (by decide) hwf)
  unfold fastaFaster fastaStrict
  rw [fastaFormat_eq, hl]
  exact ⟨fasterParser_recs (by decide) recs hwf, fun hne => strictParser_recs (by decide) (by decide) recs hne hwf⟩

/-- **FASTA round-trip for every block size ≥ 1** with the code's own block slicing
(`slice_string_in_blocks`; `textwrap.wrap` coincides with it on gap-free sequences and is
covered by `fasta_roundtrip` otherwise). -/
theorem fasta_roundtrip_blocks (bs : Nat) (hbs : 0 < bs) (recs : List Rec) (hne : recs ≠ [])
    (hwf : ∀ r ∈ recs, wfName r.1 = true ∧ wfSeq ['>'] r.2 = true) :
    fastaStrict (fastaFormatW (chunkWrap bs) recs) = .ok recs ∧
    fastaFaster (fastaFormatW (chunkWrap bs) recs) = recs := by
  have hw : WfRecs ['>'] (recs.map (fun r => (r.1, chunkWrap bs r.2))) := by
    intro r hr
    obtain ⟨x, hx, rfl⟩ := List.mem_map.mp hr
    exact ⟨(hwf x hx).1, chunkWrap_wfLines hbs (hwf x hx).2⟩
  have he : expected (recs.map (fun r => (r.1, chunkWrap bs r.2))) = recs := by
    unfold expected
    rw [List.map_map]
    conv => rhs; rw [← List.map_id recs]
    apply List.map_congr_left
    intro r _
    simp [chunkWrap_flatten hbs]
  have := fasta_roundtrip _ hw
  unfold fastaFormatW
  rw [he] at this
  exact ⟨this.2 (by simpa using hne), this.1⟩

-- non-vacuity at the wrap boundary: length = block, block + 1, block - 1, 2 * block, names with `>` and blanks
example : (∀ r ∈ [(['a', '>', 'b', ' ', 'c'], ['A', 'C', 'G', 'T']), (['x', '|', 'y'], ['A', 'C', 'G', 'T', '-']),
    (['z'], ['A', 'C', 'G']), (['w', ' ', '2'], ['A', 'C', 'G', 'T', 'A', 'C', 'G', 'T'])],
    wfName r.1 = true ∧ wfSeq ['>'] r.2 = true) := by decide
example : chunkWrap 4 ['A', 'C', 'G', 'T', 'A', 'C', 'G', 'T'] = [['A', 'C', 'G', 'T'], ['A', 'C', 'G', 'T']] ∧
    chunkWrap 4 ['A', 'C', 'G', 'T', '-'] = [['A', 'C', 'G', 'T'], ['-']] ∧ chunkWrap 4 ['A', 'C', 'G'] = [['A', 'C', 'G']] := by
  decide

/-- **The parsers of the format agree, labels verbatim** (bytes based `iter_fasta_records` — the parser behind
`load_aligned_seqs` / `load_unaligned_seqs` — vs line based `MinimalFastaParser` strict / non-strict) on every
text `seqs_to_fasta` can write: label line, then ≥ 1 non-empty residue lines in any wrapping. Labels are any
well-formed printable-ASCII names, **`>` inside a label included**; residues upper case (the bytes parser
upper-cases; `fasta_general_agree` states the lower-case behaviour exactly). The historical defect (record
splitting on `>` anywhere) lives on only as a regression witness in `known_findings.d/C06.json`. -/
theorem fasta_parsers_agree (recs : List (Str × List Str)) (hne : recs ≠ [])
    (hwf : WfRecs ['>'] recs) (hlow : ∀ r ∈ recs, noLower r.2.flatten = true) :
    fastaStrict (fastaFormat recs) = .ok (fastaBytes (fastaFormat recs)) ∧
    fastaFaster (fastaFormat recs) = fastaBytes (fastaFormat recs) ∧
    fastaBytes (fastaFormat recs) = expected recs := by
  have hb : fastaBytes (fastaFormat recs) = expected recs := by
    rw [fastaFormat_eq]; exact fastaBytes_recs recs hwf hlow
  have := fasta_roundtrip recs hwf
  rw [hb]
  exact ⟨this.2 hne, this.1, rfl⟩

example : fastaBytes (fastaFormat [(['a', '>', 'b', ' ', 'c'], [['A', 'C', 'G', 'T']])]) =
    [(['a', '>', 'b', ' ', 'c'], ['A', 'C', 'G', 'T'])] := by decide

/-- **GDE round-trip** for every block size ≥ 1: `MinimalGdeParser` (label characters `%#`, strict
and non-strict) applied to what `GDEFormatter.format` writes returns the records. -/
theorem gde_roundtrip (bs : Nat) (hbs : 0 < bs) (recs : List Rec) (hne : recs ≠ [])
    (hwf : ∀ r ∈ recs, wfName r.1 = true ∧ wfSeq ['%', '#'] r.2 = true) :
    gdeStrict (gdeFormat bs recs) = .ok recs ∧
    fasterParser ['%', '#'] (pySplitlines (gdeFormat bs recs)) = recs := by
  have hw := blocked_wf hbs hwf
  have hl := pySplitlines_unlines (recLines_noBreak (l0 := '%') (by decide) hw)
  unfold gdeStrict
  rw [gdeFormat_eq hbs recs (fun r hr => (hwf r hr).2), hl]
  have hne' : blocked bs recs ≠ [] := by simpa [blocked] using hne
  rw [strictParser_recs (by decide) (by decide) _ hne' hw, fasterParser_recs (by decide) _ hw,
    expected_blocked hbs]
  exact ⟨rfl, rfl⟩

example : (∀ r ∈ [(['s', '>', '1'], ['A', 'C', 'G', 'T', 'A']), (['t', ' ', '2'], ['A', '-', 'G', 'T', '?'])],
    wfName r.1 = true ∧ wfSeq ['%', '#'] r.2 = true) := by decide

/-- **PAML round-trip** for every block size ≥ 1: every alignment (all sequences of one length
`L ≥ 1`, upper case — the parser upper-cases) written by `PamlFormatter.format` is parsed back
by `PamlParser` to exactly the same names, order and sequences. -/
theorem paml_roundtrip (bs : Nat) (hbs : 0 < bs) (recs : List Rec) (hne : recs ≠ []) (L : Nat)
    (hwf : ∀ r ∈ recs, wfName r.1 = true ∧ wfSeq [] r.2 = true ∧ noLower r.2 = true ∧ r.2.length = L) :
    ∃ text, pamlFormat bs recs = .ok text ∧ pamlParse text = .ok recs :=
  paml_roundtrip' hbs recs hne L hwf

example : (∀ r ∈ [(['s', ' ', '1', '>'], ['A', 'C', 'G', 'T', '-']), (['l', 'o', 'n', 'g', 'e', 'r', '_', 'n', 'a', 'm', 'e'],
    ['A', '?', 'G', 'T', 'N'])], wfName r.1 = true ∧ wfSeq [] r.2 = true ∧ noLower r.2 = true ∧ r.2.length = 5) := by decide
example : pamlFormat 2 [(['s'], ['A', 'C', 'G'])] =
    .ok ['1', ' ', ' ', '3', '\n', 's', '\n', 'A', 'C', '\n', 'G', '\n'] := by decide

/-- **PHYLIP round-trip** for every block size ≥ 1: every alignment written by
`PhylipFormatter.format` is parsed back by `MinimalPhylipParser` to the same order and sequences
and to the names cut to the documented 9 characters (`truncName`: trailing blanks of the cut
name are indistinguishable from the column padding). Distinctness of the cut names is the
caller's business (the parser does not need it). -/
theorem phylip_roundtrip (bs : Nat) (hbs : 0 < bs) (recs : List Rec) (hne : recs ≠ []) (L : Nat)
    (hwf : ∀ r ∈ recs, wfName r.1 = true ∧ wfSeq [] r.2 = true ∧ r.2.length = L) :
    ∃ text, phylipFormat bs recs = .ok text ∧
      phylipParse text = .ok (recs.map (fun r => (truncName r.1, r.2))) :=
  phylip_roundtrip' hbs recs hne L hwf

/-- names of at most 9 characters survive PHYLIP exactly -/
theorem phylip_short_names_exact (n : Str) (hn : wfName n = true) (hl : n.length ≤ 9) : truncName n = n :=
  truncName_short hn hl

example : truncName ['a', 'b', 'c', 'd', 'e', 'f', 'g', 'h', 'i'] = ['a', 'b', 'c', 'd', 'e', 'f', 'g', 'h', 'i'] ∧
    truncName ['a', 'b', 'c', 'd', 'e', 'f', 'g', 'h', 'i', 'j'] = ['a', 'b', 'c', 'd', 'e', 'f', 'g', 'h', 'i'] ∧
    truncName ['a', 'b', 'c', 'd', 'e', 'f', 'g', 'h', ' ', 'j', 'k'] = ['a', 'b', 'c', 'd', 'e', 'f', 'g', 'h'] := by decide
example : phylipFormat 2 [(['a', 'b', 'c', 'd', 'e', 'f', 'g', 'h', 'i', 'j', 'k'], ['A', 'C', 'G'])] =
    .ok (['1', ' ', ' ', '3', '\n'] ++ ['a', 'b', 'c', 'd', 'e', 'f', 'g', 'h', 'i', ' ', 'A', 'C', '\n'] ++
      [' ', ' ', ' ', ' ', ' ', ' ', ' ', ' ', ' ', ' ', 'G', '\n']) := by decide

/-! ## Added by the audit: chunked streaming composed with the parsers

`parse/sequence.py` registers the PHYLIP, PAML and GDE parsers as `LineBasedParser(parser)`, i.e.
`parser(iter_splitlines(path))`.  The theorems below compose `splitlines_chunk_independent` with the round-trip
theorems: **for every chunk size (every cutting of the written file into non-empty reads) the streamed parse
returns the records** — the clause "every chunk size used when streaming lines produces identical records". -/

/-- parsing the streamed lines = parsing `text.splitlines()`, for any parser `f` and any `'\n'`-only text -/
theorem streamed_parse_eq {β} (f : List Str → β) (text : Str) (hnl : NlOnly text) (chunks : List (List Char))
    (hne : ∀ ch ∈ chunks, ch ≠ []) (hcat : chunks.flatten = text) :
    f (iterSplitlines chunks) = f (pySplitlines text) := by
  rw [splitlines_chunk_independent chunks hne (by rw [hcat]; exact hnl), hcat]

/-- what `seqs_to_fasta` writes for well-formed records has `'\n'` as its only line boundary -/
theorem fasta_text_nlOnly (recs : List (Str × List Str)) (hwf : WfRecs ['>'] recs) : NlOnly (fastaFormat recs) := by
  rw [fastaFormat_eq]
  exact unlines_nlOnly (recLines_noBreak (l0 := '>') (by decide) hwf)

/-- the same for the GDE writer -/
theorem gde_text_nlOnly (bs : Nat) (hbs : 0 < bs) (recs : List Rec)
    (hwf : ∀ r ∈ recs, wfName r.1 = true ∧ wfSeq ['%', '#'] r.2 = true) : NlOnly (gdeFormat bs recs) := by
  rw [gdeFormat_eq hbs recs (fun r hr => (hwf r hr).2)]
  exact unlines_nlOnly (recLines_noBreak (l0 := '%') (by decide) (blocked_wf hbs hwf))

/-- the same for the PAML writer -/
theorem paml_text_nlOnly (bs : Nat) (hbs : 0 < bs) (recs : List Rec) (text : Str)
    (hwf : ∀ r ∈ recs, wfName r.1 = true ∧ wfSeq [] r.2 = true)
    (h : pamlFormat bs recs = .ok text) : NlOnly text := by
  unfold pamlFormat at h
  cases hh : headerLine recs with
  | none => rw [hh] at h; cases h
  | some hd =>
    rw [hh] at h
    simp only [Except.ok.injEq] at h
    subst h
    have hw : WfRecs [] (blocked bs recs) := blocked_wf hbs hwf
    rw [pamlBody_eq hbs recs (fun r hr => (hwf r hr).2), ← unlines_cons]
    refine unlines_nlOnly (noBreak_cons ?_ (plainLines_noBreak hw))
    cases recs with
    | nil => simp [headerLine] at hh
    | cons r rest =>
      simp only [headerLine, Option.some.injEq] at hh
      subst hh
      exact header_noBreak _ _

/-- the same for the PHYLIP writer -/
theorem phylip_text_nlOnly (bs : Nat) (hbs : 0 < bs) (recs : List Rec) (text : Str) (L : Nat)
    (hwf : ∀ r ∈ recs, wfName r.1 = true ∧ wfSeq [] r.2 = true ∧ r.2.length = L)
    (h : phylipFormat bs recs = .ok text) : NlOnly text := by
  cases recs with
  | nil => simp [phylipFormat] at h
  | cons r0 rest =>
    have hL0 : r0.2.length = L := (hwf r0 List.mem_cons_self).2.2
    have hw : WfRecs [] (blocked bs (r0 :: rest)) := blocked_wf hbs (fun r hr => ⟨(hwf r hr).1, (hwf r hr).2.1⟩)
    simp only [phylipFormat, headerLine, Except.ok.injEq] at h
    subst h
    rw [hL0, phyLines_eq hbs (r0 :: rest) (fun r hr => (hwf r hr).2.2), ← unlines_cons]
    exact unlines_nlOnly (noBreak_cons (header_noBreak _ _) (phyLines_noBreak hw))

/-- **FASTA, line based parsers, every chunk size**: `MinimalFastaParser(iter_splitlines(path))` on a written file -/
theorem fasta_streamed_roundtrip (recs : List (Str × List Str)) (hwf : WfRecs ['>'] recs)
    (chunks : List (List Char)) (hne : ∀ ch ∈ chunks, ch ≠ []) (hcat : chunks.flatten = fastaFormat recs) :
    fasterParser ['>'] (iterSplitlines chunks) = expected recs ∧
    (recs ≠ [] → strictParser ['>'] (iterSplitlines chunks) = .ok (expected recs)) := by
  have hnl := fasta_text_nlOnly recs hwf
  rw [streamed_parse_eq (fasterParser ['>']) _ hnl chunks hne hcat,
    streamed_parse_eq (strictParser ['>']) _ hnl chunks hne hcat]
  exact fasta_roundtrip recs hwf

/-- **GDE, every chunk size and every block size** (the registry's `LineBasedParser(MinimalGdeParser)`) -/
theorem gde_streamed_roundtrip (bs : Nat) (hbs : 0 < bs) (recs : List Rec) (hne : recs ≠ [])
    (hwf : ∀ r ∈ recs, wfName r.1 = true ∧ wfSeq ['%', '#'] r.2 = true)
    (chunks : List (List Char)) (hch : ∀ ch ∈ chunks, ch ≠ []) (hcat : chunks.flatten = gdeFormat bs recs) :
    strictParser ['%', '#'] (iterSplitlines chunks) = .ok recs ∧
    fasterParser ['%', '#'] (iterSplitlines chunks) = recs := by
  have hnl := gde_text_nlOnly bs hbs recs hwf
  rw [streamed_parse_eq (strictParser ['%', '#']) _ hnl chunks hch hcat,
    streamed_parse_eq (fasterParser ['%', '#']) _ hnl chunks hch hcat]
  exact gde_roundtrip bs hbs recs hne hwf

example : [['%', 's', '>'], ['1', '\n', 'A'], ['C', '\n'], ['G', 'T', '\n', 'A', '\n']].flatten
    = gdeFormat 2 [(['s', '>', '1'], ['A', 'C', 'G', 'T', 'A'])] := by decide
example : strictParser ['%', '#'] (iterSplitlines [['%', 's', '>'], ['1', '\n', 'A'], ['C', '\n'], ['G', 'T', '\n', 'A', '\n']])
    = .ok [(['s', '>', '1'], ['A', 'C', 'G', 'T', 'A'])] := by decide

/-- **PAML, every chunk size and every block size** (the registry's `LineBasedParser(PamlParser)`) -/
theorem paml_streamed_roundtrip (bs : Nat) (hbs : 0 < bs) (recs : List Rec) (hne : recs ≠ []) (L : Nat)
    (hwf : ∀ r ∈ recs, wfName r.1 = true ∧ wfSeq [] r.2 = true ∧ noLower r.2 = true ∧ r.2.length = L) :
    ∃ text, pamlFormat bs recs = .ok text ∧
      ∀ chunks : List (List Char), (∀ ch ∈ chunks, ch ≠ []) → chunks.flatten = text →
        pamlParser (iterSplitlines chunks) = .ok recs := by
  obtain ⟨text, hfmt, hparse⟩ := paml_roundtrip bs hbs recs hne L hwf
  refine ⟨text, hfmt, fun chunks hch hcat => ?_⟩
  have hnl := paml_text_nlOnly bs hbs recs text (fun r hr => ⟨(hwf r hr).1, (hwf r hr).2.1⟩) hfmt
  rw [streamed_parse_eq pamlParser text hnl chunks hch hcat]
  exact hparse

example : pamlParser (iterSplitlines [['1', ' ', ' '], ['3', '\n', 's'], ['\n'], ['A', 'C', '\n', 'G'], ['\n']])
    = .ok [(['s'], ['A', 'C', 'G'])] := by decide

/-- **PHYLIP, every chunk size and every block size** (the registry's `LineBasedParser(MinimalPhylipParser)`) -/
theorem phylip_streamed_roundtrip (bs : Nat) (hbs : 0 < bs) (recs : List Rec) (hne : recs ≠ []) (L : Nat)
    (hwf : ∀ r ∈ recs, wfName r.1 = true ∧ wfSeq [] r.2 = true ∧ r.2.length = L) :
    ∃ text, phylipFormat bs recs = .ok text ∧
      ∀ chunks : List (List Char), (∀ ch ∈ chunks, ch ≠ []) → chunks.flatten = text →
        phylipParser (iterSplitlines chunks) = .ok (recs.map (fun r => (truncName r.1, r.2))) := by
  obtain ⟨text, hfmt, hparse⟩ := phylip_roundtrip bs hbs recs hne L hwf
  refine ⟨text, hfmt, fun chunks hch hcat => ?_⟩
  have hnl := phylip_text_nlOnly bs hbs recs text L hwf hfmt
  rw [streamed_parse_eq phylipParser text hnl chunks hch hcat]
  exact hparse

example : phylipParser (iterSplitlines [['1', ' ', ' ', '3'], ['\n', 'a', 'b'],
    [' ', ' ', ' ', ' ', ' ', ' ', ' ', ' ', 'A', 'C', '\n', ' '], [' ', ' ', ' ', ' ', ' ', ' ', ' ', ' ', ' ', 'G', '\n']])
    = .ok [(['a', 'b'], ['A', 'C', 'G'])] := by decide

/-! ## Parser agreement on well-formed FASTA that is not writer shaped -/

/-- **All three FASTA parsers agree on every well-formed text, labels verbatim** — not only on what the writer
produces. `wfFile` (Spec/FastaText.lean) admits: blanks / tabs around the label, an empty label, labels containing
`>`, blank and blank-only lines inside and between records, blanks / tabs inside and around residue lines,
lower-case residues, `"\n"` or `"\r\n"` per line (mixed), and a missing terminator on the last line.
The line based parsers return the residues in the case they were written; the bytes based parser returns exactly
their upper-casing (`minimal_converter`), so all three are identical on upper-case data
(`fasta_general_agree_upper`). Not admitted — the parsers of the code genuinely disagree, see
`known_findings.d/C06.json`: text before the first label line, `#` comment lines, records without a non-empty
body line. -/
theorem fasta_general_agree (gs : List GRec) (h : wfFile gs = true) :
    fastaFaster (fileRaw gs) = records gs ∧
    (gs ≠ [] → fastaStrict (fileRaw gs) = .ok (records gs)) ∧
    fastaBytes (fileRaw gs) = (records gs).map (fun r => (r.1, upper r.2)) := by
  have hl := pySplitlines_fileRaw gs h
  have hf := wfFile_facts h
  unfold fastaFaster fastaStrict
  rw [hl]
  exact ⟨fasterParser_grecs gs hf, fun hne => strictParser_grecs gs hne hf, fastaBytes_grecs gs h⟩

/-- on upper-case residues the three parsers return identical records -/
theorem fasta_general_agree_upper (gs : List GRec) (h : wfFile gs = true) (hne : gs ≠ [])
    (hup : ∀ g ∈ gs, noLower (residues g) = true) :
    fastaStrict (fileRaw gs) = .ok (fastaBytes (fileRaw gs)) ∧ fastaFaster (fileRaw gs) = fastaBytes (fileRaw gs) ∧
    fastaBytes (fileRaw gs) = records gs := by
  obtain ⟨h1, h2, h3⟩ := fasta_general_agree gs h
  have : (records gs).map (fun r => (r.1, upper r.2)) = records gs := by
    conv => rhs; rw [← List.map_id (records gs)]
    apply List.map_congr_left
    intro r hr
    simp only [records, List.mem_map] at hr
    obtain ⟨g, hg, rfl⟩ := hr
    simp [upper_id (hup g hg)]
  rw [h3, this]
  exact ⟨h2 hne, h1, rfl⟩

-- non-vacuity: `> a>b \r\n` `\r\n` `AC g\r\n` `\n` `>\n` ` \tT-\n` `\n` `NN` (CRLF + LF mixed, blank lines, blanks around
-- label and residues, `>` in a label, empty label, lower case, no final newline)
example : wfFile [⟨[' '], ['a', '>', 'b'], [' '], true, [⟨[], .crlf⟩, ⟨['A', 'C', ' ', 'g'], .crlf⟩, ⟨[], .lf⟩]⟩,
                  ⟨[], [], [], false, [⟨[' ', '\t', 'T', '-'], .lf⟩, ⟨[], .lf⟩, ⟨['N', 'N'], .eof⟩]⟩] = true := by decide
example : fileRaw [⟨[' '], ['a', '>', 'b'], [' '], true, [⟨[], .crlf⟩, ⟨['A', 'C', ' ', 'g'], .crlf⟩, ⟨[], .lf⟩]⟩,
                   ⟨[], [], [], false, [⟨[' ', '\t', 'T', '-'], .lf⟩, ⟨[], .lf⟩, ⟨['N', 'N'], .eof⟩]⟩] =
    ['>', ' ', 'a', '>', 'b', ' ', '\r', '\n', '\r', '\n', 'A', 'C', ' ', 'g', '\r', '\n', '\n',
     '>', '\n', ' ', '\t', 'T', '-', '\n', '\n', 'N', 'N'] := by decide
example : fastaBytes ['>', ' ', 'a', '>', 'b', ' ', '\r', '\n', '\r', '\n', 'A', 'C', ' ', 'g', '\r', '\n', '\n',
     '>', '\n', ' ', '\t', 'T', '-', '\n', '\n', 'N', 'N'] = [(['a', '>', 'b'], ['A', 'C', 'G']), ([], ['T', '-', 'N', 'N'])] := by
  decide

/-! ## Compression: what can be said in the model — the suffix dispatch

gzip / bz2 / zip themselves are externals (exercised by the real round trips). What the code decides is WHICH
opener handles a file, and it decides it from the file name only (`open_` -> `_get_compression_open` ->
`get_format_suffixes` -> `Path.suffixes`). Writing goes through `atomic_write`, which writes a temporary file
named `uuid + "".join(path.suffixes)` with `open_` and renames it; reading calls `open_` on the destination. -/

/-- **Writer and reader are always paired by the same suffixes**: for every destination name and every dot-free
stem, the temporary file `atomic_write` writes has exactly the destination's `suffixes`; hence (for either value
of `bool(path.suffix)`) `get_format_suffixes` returns the same (format, compression) pair and
`_get_compression_open` the same opener for the file being written and for the file later read: compress and
decompress are only ever composed with matching suffixes. Tables generated from util/io.py on every run. -/
theorem suffix_dispatch_consistent (u name : List Char) (hu : u ≠ []) (hdot : '.' ∉ u) :
    Suffixes.suffixesOf (Suffixes.tmpName u name) = Suffixes.suffixesOf name ∧
    ∀ hasSuffix : Bool,
      Suffixes.formatSuffixes Gen.C06Dispatch.compressionSuffixes hasSuffix (Suffixes.suffixesOf (Suffixes.tmpName u name)) =
        Suffixes.formatSuffixes Gen.C06Dispatch.compressionSuffixes hasSuffix (Suffixes.suffixesOf name) ∧
      (Suffixes.formatSuffixes Gen.C06Dispatch.compressionSuffixes hasSuffix
          (Suffixes.suffixesOf (Suffixes.tmpName u name))).map (fun p => Suffixes.codecOf Gen.C06Dispatch.codecTable p.2) =
        (Suffixes.formatSuffixes Gen.C06Dispatch.compressionSuffixes hasSuffix
          (Suffixes.suffixesOf name)).map (fun p => Suffixes.codecOf Gen.C06Dispatch.codecTable p.2) := by
  have h := Suffixes.suffixesOf_tmpName u name hu hdot
  refine ⟨h, fun b => ?_⟩
  rw [h]
  exact ⟨rfl, rfl⟩

/-- **The generated dispatch table is total, exact and injective**: every suffix `get_format_suffixes` classifies
as compression has an opener, every opener's key is such a suffix, and no two suffixes share an opener
(so a file is never written by one codec and read by another, nor silently read as plain text). -/
theorem suffix_dispatch_table_sound :
    (∀ c ∈ Gen.C06Dispatch.compressionSuffixes, (Suffixes.codecOf Gen.C06Dispatch.codecTable (some c)).isSome = true) ∧
    (∀ p ∈ Gen.C06Dispatch.codecTable, p.1 ∈ Gen.C06Dispatch.compressionSuffixes) ∧
    (Gen.C06Dispatch.codecTable.map (·.1)).Nodup ∧ (Gen.C06Dispatch.codecTable.map (·.2)).Nodup := by
  decide

example : Suffixes.suffixesOf ['x', '.', 'F', 'a', '.', 'g', 'z'] = [['.', 'F', 'a'], ['.', 'g', 'z']] ∧
    Suffixes.tmpName ['u', '1'] ['x', '.', 'F', 'a', '.', 'g', 'z'] = ['u', '1', '.', 'F', 'a', '.', 'g', 'z'] ∧
    Suffixes.formatSuffixes Gen.C06Dispatch.compressionSuffixes true [['.', 'F', 'a'], ['.', 'g', 'z']] =
      .ok (some ['f', 'a'], some ['g', 'z']) ∧
    Suffixes.codecOf Gen.C06Dispatch.codecTable (some ['g', 'z']) = some ['g', 'z', 'i', 'p', '_', 'o', 'p', 'e', 'n'] := by
  decide

/-! ## GenBank: the location machinery shared by `minimal_parser` and `rich_parser` -/

/-- **Location strings parse to the parts written**, for every single span `a..b`, `complement(a..b)`,
`join(a..b,c..d,…)` and `complement(join(…))` with arbitrary natural coordinates and any number of parts:
the tokenizer + stack machine of `parse_location_line` returns the parts in GenBank order with the right strand
(`complement` reverses the order and flips every strand). -/
theorem genbank_location_roundtrip (l : GenBank.GbLoc) (h : l.wf) :
    GenBank.parseLocation (GenBank.render l) = .ok (GenBank.eval l) :=
  GenBank.parseLocation_render l h

/-- **`minimal_parser` and `rich_parser` agree on feature coordinates**: both views are functions of the one
parse above — `minimal_parser` exposes the `Location` parts (`start`, `stop + 1`, `strand` in part order),
`rich_parser` stores `get_coordinates()` (the same pairs, sorted) and `LocationList.strand` in its annotation db —
so for the four shapes: the parts are the written `(a-1, b)` pairs (reversed under `complement`), the stored spans
are those pairs sorted, and the stored strand is `+1` without and `-1` with `complement`. -/
theorem genbank_minimal_rich_agree (l : GenBank.GbLoc) (h : l.wf) :
    ∃ parts, GenBank.parseLocation (GenBank.render l) = .ok parts ∧
      GenBank.pyCoords parts = (GenBank.eval l).map (fun s => (s.first - 1, s.second)) ∧
      GenBank.getCoordinates parts = GenBank.sortPairs ((GenBank.eval l).map (fun s => (s.first - 1, s.second))) ∧
      GenBank.listStrand parts = .ok (match l with
        | .span _ => 1
        | .join _ => 1
        | .comp _ => -1
        | .compJoin _ => -1) := by
  refine ⟨GenBank.eval l, GenBank.parseLocation_render l h, rfl, rfl, ?_⟩
  cases l with
  | span p => exact GenBank.listStrand_fwd [p] (by simp)
  | comp p => exact GenBank.listStrand_flip [p] (by simp)
  | join ps => exact GenBank.listStrand_fwd ps h
  | compJoin ps => exact GenBank.listStrand_flip ps h

example : GenBank.render (.compJoin [(3, 8), (12, 20)]) = "complement(join(3..8,12..20))".toList := by decide
example : GenBank.parseLocation (GenBank.render (.compJoin [(3, 8), (12, 20)])) = .ok [⟨12, 20, -1⟩, ⟨3, 8, -1⟩] := by decide
example : GenBank.getCoordinates [⟨12, 20, -1⟩, ⟨3, 8, -1⟩] = [(2, 8), (11, 20)] := by decide

end CogentModel.C06
