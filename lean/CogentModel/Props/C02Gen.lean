import CogentModel.Proofs.PruneGen
/-! # C02 — the TRANSLATED `_indexed` equals the hand model

`Gen/C02Indexed.lean` is regenerated on every run from the current `evolve/likelihood_tree.py` by
`translator/c02_indexed2lean.py` (Python dict → association list, pre-allocated numpy index array → `List.set`); a semantic
edit of `_indexed` changes the generated definition and this proof no longer checks.  The hand model `Prune.indexed`
(position in `unique` via `idxOf`, index built by appending) is the one `compress_sum`, `full_length_expand`,
`compressed_prune_eq`, `gap_column_*` are proved about. -/
namespace CogentModel.C02G
open CogentModel.Prune CogentModel.PyAccum CogentModel.Gen.C02Indexed

/-- **For every list of keys** (any type with decidable equality — column tuples, motifs): what the real `_indexed`
returns (translated from the source) is `(unique, counts, index)` of the hand model `Prune.indexed`. -/
theorem gen_indexed_eq_model {κ : Type} [DecidableEq κ] (values : List κ) :
    indexedGen values = ((indexed values).uniq, (indexed values).counts, (indexed values).index) := by
  have h0 : Rel values.length ({ index := List.replicate values.length 0, unique := [], counts := [], seen := [] } : St κ)
      { uniq := [], counts := [], index := [] } := ⟨rfl, rfl, by simp, by simp⟩
  have h := loop_rel values.length values _ _ h0 (by simp)
  obtain ⟨hu, hc, hi, _⟩ := h
  have hlen : (indexedGo values ({ uniq := [], counts := [], index := [] } : Indexed κ)).index.length = values.length := by
    rw [indexedGo_index_len]; simp
  simp only [indexedGen, indexed]
  simp only [List.length_nil] at hu hc hi
  rw [hu, hc, hi, hlen]
  simp

example : indexedGen ["a", "b", "c", "a", "a"] = (["a", "b", "c"], [3, 1, 1], [0, 1, 2, 0, 0]) := by decide

end CogentModel.C02G
