import CogentModel.Model.FMapOps
import CogentModel.Proofs.FMapOps
/-! # C08 (span predicates and the remaining `FeatureMap` operations) — set-theoretic meaning

Theorems about `Model/FMapOps.lean` (tied to the python by TRANSLATION: `Props/C08Gen.lean` proves the definitions
generated from the current source equal to this model for all arguments, and by the `spanops` / `fmops` correspondence
streams).  `cover` / `coverSp` is the abstraction of `Props/C08FMap.lean`: map position ↦ parent position or lost. -/
namespace CogentModel.C08
open CogentModel.FMap

/-- `x in span` is membership in the set of positions the span covers (either strand) -/
theorem span_contains_int_iff (s e x : Int) (r : Bool) :
    containsInt s e x = true ↔ some x ∈ coverSp (.span s e r) := containsInt_iff s e x r

example : containsInt 2 5 4 = true ∧ containsInt 2 5 5 = false ∧ some (4 : Int) ∈ coverSp (.span 2 5 true) := by decide

/-- `other in span` (a span argument) implies set inclusion, for every pair of spans … -/
theorem span_contains_span_subset (s e os oe : Int) (r r' : Bool) (h : containsSpan s e os oe = true) (x : Int)
    (hx : some x ∈ coverSp (.span os oe r')) : some x ∈ coverSp (.span s e r) :=
  containsSpan_subset s e os oe r r' h x hx

/-- … and is exactly set inclusion when `other` is not empty -/
theorem span_contains_span_of_subset (s e os oe : Int) (r r' : Bool) (hne : os < oe)
    (h : ∀ x, some x ∈ coverSp (.span os oe r') → some x ∈ coverSp (.span s e r)) : containsSpan s e os oe = true :=
  containsSpan_of_subset s e os oe r r' hne h

example : containsSpan 2 9 3 9 = true ∧ containsSpan 2 9 3 10 = false := by decide

/-- `overlaps` of two non-empty spans: they share a position -/
theorem span_overlaps_iff (s e os oe : Int) (r r' : Bool) (h1 : s < e) (h2 : os < oe) :
    overlapsSpan s e os oe = true ↔ ∃ x, some x ∈ coverSp (.span s e r) ∧ some x ∈ coverSp (.span os oe r') :=
  overlapsSpan_iff s e os oe r r' h1 h2

example : overlapsSpan 2 5 4 9 = true ∧ overlapsSpan 2 5 5 9 = false ∧ overlapsSpan 4 9 2 5 = true := by decide

/-- `a + b`: the positions of `a` followed by the positions of `b`, on the same parent; stays inside the parent -/
theorem fm_add_spec (a b c : FM) (h : fmAdd a b = .ok c) :
    cover c = cover a ++ cover b ∧ len c = len a + len b ∧ c.parentLength = a.parentLength ∧
      (Within a → Within b → Within c) := fmAdd_spec a b c h

/-- `a + b` is defined exactly when the two maps have the same parent length -/
theorem fm_add_total (a b : FM) (h : a.parentLength = b.parentLength) : ∃ c, fmAdd a b = .ok c := fmAdd_total a b h

example : fmAdd ⟨[.span 2 5 false], 10⟩ ⟨[.lost 1, .span 7 9 true], 10⟩ = .ok ⟨[.span 2 5 false, .lost 1, .span 7 9 true], 10⟩ ∧
    fmAdd ⟨[], 10⟩ ⟨[], 11⟩ = .error .valueError := by decide

/-- `without_gaps()` keeps exactly the positions that are not lost, in order -/
theorem fm_without_gaps_spec (m : FM) :
    cover (withoutGaps m) = (cover m).filter Option.isSome ∧ (withoutGaps m).parentLength = m.parentLength ∧
      (Within m → Within (withoutGaps m)) := withoutGaps_spec m

example : withoutGaps ⟨[.lost 2, .span 2 5 true, .lost 1, .span 7 9 false], 10⟩ = ⟨[.span 2 5 true, .span 7 9 false], 10⟩ := by decide

/-- `m * k` (`k > 0`): the length and the parent are scaled, coordinates stay inside the scaled parent, and parent
position `p` is covered iff `p div k` was: every position becomes the block `[q*k, q*k+k)` -/
theorem fm_mul_spec (m : FM) (k : Int) (hN : NonNeg m) (hk : 0 < k) :
    len (fmMul m k) = len m * k ∧ (fmMul m k).parentLength = m.parentLength * k ∧
    (Within m → Within (fmMul m k)) ∧
    (∀ p, some p ∈ cover (fmMul m k) ↔ ∃ q, some q ∈ cover m ∧ q * k ≤ p ∧ p < q * k + k) := fmMul_spec m k hN hk

example : NonNeg ⟨[.span 2 5 true, .lost 2], 10⟩ ∧ fmMul ⟨[.span 2 5 true, .lost 2], 10⟩ 3 = ⟨[.span 6 15 true, .lost 6], 30⟩ := by decide

/-- `(m * k) / k = m` whenever the division is defined: `_LostSpan.__truediv__` asserts `length % 3 == 0` (a literal 3 in
the source, whatever the scale), so the lost spans of `m * k` must have lengths divisible by 3 -/
theorem fm_truediv_mul (m : FM) (k : Int) (hN : NonNeg m) (hk : 0 < k)
    (h3 : ∀ n, .lost n ∈ m.spans → Int.fmod (n * k) 3 = 0) : fmTruediv (fmMul m k) k = .ok m :=
  fmTruediv_fmMul m k hN hk h3

example : fmTruediv (fmMul ⟨[.span 2 5 true, .lost 2], 10⟩ 3) 3 = .ok ⟨[.span 2 5 true, .lost 2], 10⟩ := by decide

/-- the hypothesis on the lost spans is needed: scaling by 2 and back fails on a lost span of length 1 -/
theorem fm_truediv_mul_needs_three :
    fmTruediv (fmMul ⟨[.span 2 5 false, .lost 1], 10⟩ 2) 2 = .error .assertionError := by decide

/-- `span.reversed_relative_to(L)` of a span inside `[0, L]`: never fails, mirrors every position (`p ↦ L-1-p`, in the
same map order: the strand flag is flipped), and stays inside `[0, L]` -/
theorem span_reversed_relative_to_spec (s e L : Int) (r : Bool) (h1 : s ≤ e) (h2 : e ≤ L) :
    ∃ y, (FSp.span s e r).reversedRelativeTo L = .ok y ∧ coverSp y = (coverSp (.span s e r)).map (flip L) ∧
      (0 ≤ s → y.within L) := reversedRelativeTo_spec s e L r h1 h2

example : (FSp.span 2 5 false).reversedRelativeTo 10 = .ok (.span 5 8 true) ∧
    coverSp (.span 5 8 true) = [some 7, some 6, some 5] ∧ coverSp (.span 2 5 false) = [some 2, some 3, some 4] := by decide

/-- `get_covering_span()` of a map inside its parent with at least one real span: the single forward span from the smallest
start to the largest end (both attained), inside the parent, containing every covered position -/
theorem fm_covering_span_spec (m : FM) (hw : Within m) (hne : ∃ s e r, FSp.span s e r ∈ m.spans) :
    ∃ lo hi, coveringSpan m = .ok ⟨[.span lo hi false], m.parentLength⟩ ∧ 0 ≤ lo ∧ lo ≤ hi ∧ hi ≤ m.parentLength ∧
      (∀ p, some p ∈ cover m → lo ≤ p ∧ p < hi) ∧
      (∃ s e r, FSp.span s e r ∈ m.spans ∧ lo = s) ∧ (∃ s e r, FSp.span s e r ∈ m.spans ∧ hi = e) :=
  coveringSpan_spec m hw hne

example : Within ⟨[.span 7 9 true, .lost 2, .span 2 5 false], 10⟩ ∧
    coveringSpan ⟨[.span 7 9 true, .lost 2, .span 2 5 false], 10⟩ = .ok ⟨[.span 2 9 false], 10⟩ := by decide

end CogentModel.C08
