import CogentModel.Model.Prune
import CogentModel.Model.PruneInvariance
import CogentModel.Proofs.PruneSym
import CogentModel.Proofs.C11Invariance
import Mathlib.Algebra.Field.Defs
/-! # C11, second file — further invariances of the modelled likelihood, for ALL trees / matrices / profiles

Same executable model (`Model/Prune.lean`) plus the executable tree operations of `Model/PruneInvariance.lean`
(`rootedAt` mirrors `TreeNode.rooted_at` / `rooted_with_tip`, `unrootedM` mirrors `TreeNode.unrooted`), which the
driver runs against cogent3's own operations on every run. -/
namespace CogentModel.C11
open CogentModel.Prune

/-- **`rooted_at` as a function.**  Whatever node (given by its path of child positions; any tree shape incl.
multifurcations and unary nodes) cogent3's `rooted_at` re-roots at, the resulting tree — the new root's children
followed by its former parent, every node on the path hanging below the edge it was reached through — is
`Reroot`-related to the original one. -/
theorem rooted_at_is_reroot {R α : Type} {path : List Nat} {t t' : PTree R α}
    (h : rootedAt path t = some t') : Reroot t t' :=
  rootedAt_reroot h

/-- … hence for a reversible process (every edge in detailed balance w.r.t. `π`) `rooted_at` ANY internal node
leaves the column likelihood unchanged (induction along the path of root moves). -/
theorem lh_rooted_at {R α : Type} [CommSemiring R] (m : Nat) (π : Nat → R) (prof : α → Nat → R)
    {path : List Nat} {t t' : PTree R α} (h : rootedAt path t = some t')
    (hdb : ∀ P ∈ t.edgeMats, DetailedBalance m π P) : lh m π prof t = lh m π prof t' :=
  (lh_reroot m π prof (rootedAt_reroot h) hdb).1

def exQ : Mat Nat := fun i j => if i = j then 3 else 1
/-- a 5-tip tree with a polytomy and a two-level clade: `(0,(1,(2,3),4),5)` -/
def exT : PTree Nat Nat :=
  .node exQ [.leaf exQ 0, .node exQ [.leaf exQ 1, .node exQ [.leaf exQ 2, .leaf exQ 3], .leaf exQ 4], .leaf exQ 5]
example : (rootedAt [1, 1] exT).isSome = true := by decide
example : (rootedAt [1, 0] exT).isSome = false := by decide  -- a tip cannot be the root
example : ((rootedAt [1, 1] exT).map fun t => (t.children.length, lh 2 (fun _ => 1) (fun a s => if (a + s) % 2 = 0 then 1 else 0) t))
    = some (3, lh 2 (fun _ => 1) (fun a s => if (a + s) % 2 = 0 then 1 else 0) exT) := by decide

/-- **Renaming the states.**  For any permutation `σ` of the states (inverse `τ`), the problem with the states
renamed consistently — every edge matrix `P' i j = P (σ i) (σ j)`, root distribution `π' i = π (σ i)`, leaf
profiles `prof' a i = prof a (σ i)` — has the same column likelihood. -/
theorem lh_state_relabel {R α : Type} [CommSemiring R] (m : Nat) (σ τ : Nat → Nat) (h : PermOn m σ τ)
    (π : Nat → R) (prof : α → Nat → R) (t : PTree R α) :
    lh m (fun i => π (σ i)) (fun a i => prof a (σ i)) (t.mapMats (permMat σ)) = lh m π prof t :=
  lh_permStates m σ τ h π prof t

def exSwap : Nat → Nat := fun i => if i = 0 then 2 else if i = 2 then 0 else i
example : PermOn 3 exSwap exSwap := by
  constructor <;> intro i hi <;> (have : i = 0 ∨ i = 1 ∨ i = 2 := by omega) <;> rcases this with rfl | rfl | rfl <;> decide
def exAsym : Mat Nat := fun i j => 1 + i + 2 * j
example : lh 3 (fun i => exSwap i + 1) (fun a i => if (a + exSwap i) % 2 = 0 then 1 else 0)
      ((PTree.node exAsym [.leaf exAsym 0, .node exAsym [.leaf exAsym 1, .leaf exAsym 2]] : PTree Nat Nat).mapMats (permMat exSwap))
    = lh 3 (fun i => i + 1) (fun a i => if (a + i) % 2 = 0 then 1 else 0)
      (PTree.node exAsym [.leaf exAsym 0, .node exAsym [.leaf exAsym 1, .leaf exAsym 2]] : PTree Nat Nat) := by decide
/-- renaming only the matrices (not `π` and the profiles) does change the value: the three must move together -/
example : lh 3 (fun i => i + 1) (fun a i => if (a + i) % 2 = 0 then 1 else 0)
      ((PTree.node exAsym [.leaf exAsym 0, .node exAsym [.leaf exAsym 1, .leaf exAsym 2]] : PTree Nat Nat).mapMats (permMat exSwap))
    ≠ lh 3 (fun i => i + 1) (fun a i => if (a + i) % 2 = 0 then 1 else 0)
      (PTree.node exAsym [.leaf exAsym 0, .node exAsym [.leaf exAsym 1, .leaf exAsym 2]] : PTree Nat Nat) := by decide

/-- **Contracting a zero-length edge.**  An internal node below an edge whose matrix is the identity (a zero-length
edge of a continuous-time process: `exp(Q·0) = I`) can be dissolved, its children taking its place among their
grandparent's children — at the root or at any depth — without changing the column likelihood.  (Read from right
to left: a polytomy can be resolved by zero-length edges in any way.) -/
theorem lh_contract_zero_edge {R α : Type} [CommSemiring R] (m : Nat) (π : Nat → R) (prof : α → Nat → R)
    {t t' : PTree R α} (h : Deep (Contract m) t t') : lh m π prof t = lh m π prof t' :=
  lh_deep m π prof (prodUp_contract m prof) h

example : IsId 2 (idMat : Mat Nat) := by intro i j _ _; rfl
example : Deep (Contract 2)
    (PTree.node exQ [.leaf exQ 0, .node exQ [.leaf exQ 1, .node idMat [.leaf exQ 2, .leaf exQ 3], .leaf exQ 4]] : PTree Nat Nat)
    (PTree.node exQ [.leaf exQ 0, .node exQ [.leaf exQ 1, .leaf exQ 2, .leaf exQ 3, .leaf exQ 4]]) :=
  .under _ _ _ (.tail _ _ _ (.head _ _ _ (.here _ _ _
    (.mk idMat [.leaf exQ 1] [.leaf exQ 2, .leaf exQ 3] [.leaf exQ 4] (by intro i j _ _; rfl)))))
example : lh 2 (fun s => s + 1) (fun a s => if (a + s) % 2 = 0 then 1 else 0)
      (PTree.node exQ [.leaf exQ 0, .node exQ [.leaf exQ 1, .node idMat [.leaf exQ 2, .leaf exQ 3], .leaf exQ 4]] : PTree Nat Nat)
    = lh 2 (fun s => s + 1) (fun a s => if (a + s) % 2 = 0 then 1 else 0)
      (PTree.node exQ [.leaf exQ 0, .node exQ [.leaf exQ 1, .leaf exQ 2, .leaf exQ 3, .leaf exQ 4]]) := by decide

/-- **`TreeNode.unrooted()` as a function** on a bifurcating root, for all shapes of the two children (tip-clade,
clade-tip, clade-clade: the FIRST internal child is dissolved; tip-tip: nothing happens): with the sister edge
lengthened by the dissolved edge (`P(collapsed)·P(sister)`) the column likelihood is unchanged for a reversible
process. -/
theorem lh_unrooted_bifurcating_root {R α : Type} [CommSemiring R] (m : Nat) (π : Nat → R) (prof : α → Nat → R)
    (P0 : Mat R) (a b : PTree R α) (ha : DetailedBalance m π a.mat) (hb : DetailedBalance m π b.mat) :
    lh m π prof (unrootedM (matMul m) (.node P0 [a, b])) = lh m π prof (.node P0 [a, b]) :=
  lh_unrootedM_two m π prof P0 a b ha hb

/-- a root with three or more children is already unrooted -/
theorem unrooted_of_multifurcating_root {R α : Type} (comp : Mat R → Mat R → Mat R) (P0 : Mat R)
    (cs : List (PTree R α)) (h : 3 ≤ cs.length) : unrootedM comp (.node P0 cs) = .node P0 cs := by
  simp only [unrootedM, if_neg (Nat.not_lt.mpr h)]

example : (unrootedM (matMul 2) (.node exQ [.node exQ [.leaf exQ 1, .leaf exQ 2], .node exQ [.leaf exQ 3, .leaf exQ 4]] : PTree Nat Nat)).children.length = 3 := by
  decide
example : lh 2 (fun _ => 1) (fun a s => if (a + s) % 2 = 0 then 1 else 0)
      (unrootedM (matMul 2) (.node exQ [.node exQ [.leaf exQ 1, .leaf exQ 2], .node exQ [.leaf exQ 3, .leaf exQ 4]] : PTree Nat Nat))
    = lh 2 (fun _ => 1) (fun a s => if (a + s) % 2 = 0 then 1 else 0)
      (.node exQ [.node exQ [.leaf exQ 1, .leaf exQ 2], .node exQ [.leaf exQ 3, .leaf exQ 4]] : PTree Nat Nat) := by decide

/-- **Rate bins.**  The likelihood of a column under the bin mixture (`lhColumn`: one tree with its own matrices and
one root distribution per bin) depends on the bins only through the per-bin likelihoods … -/
theorem lh_bins_congr {R α : Type} [CommSemiring R] (m : Nat) (bprobs : List R) (prof : α → Nat → R)
    {bins bins' : List ((Nat → R) × PTree R α)}
    (h : List.Forall₂ (fun b b' => lh m b.1 prof b.2 = lh m b'.1 prof b'.2) bins bins') :
    lhColumn m bprobs bins prof = lhColumn m bprobs bins' prof :=
  lhColumn_congr m bprobs prof h

/-- … so every relation above lifts to the mixture; stated for re-rooting: if in every bin the tree is re-rooted
(`Reroot`, same root distribution) and that bin's matrices are in detailed balance with that bin's root
distribution, the mixture likelihood is unchanged. -/
theorem lh_bins_reroot {R α : Type} [CommSemiring R] (m : Nat) (bprobs : List R) (prof : α → Nat → R)
    {bins bins' : List ((Nat → R) × PTree R α)}
    (h : List.Forall₂ (fun b b' => b.1 = b'.1 ∧ Reroot b.2 b'.2 ∧ ∀ P ∈ b.2.edgeMats, DetailedBalance m b.1 P) bins bins') :
    lhColumn m bprobs bins prof = lhColumn m bprobs bins' prof := by
  refine lhColumn_congr m bprobs prof (h.imp ?_)
  rintro ⟨π, t⟩ ⟨π', t'⟩ ⟨rfl, hr, hdb⟩
  exact (lh_reroot m π prof hr hdb).1

example : lhColumn 2 [1, 2] [((fun _ => 1), exT), ((fun _ => 1), exT)] (fun a s => if (a + s) % 2 = 0 then 1 else 0)
    = 3 * lh 2 (fun _ => 1) (fun a s => if (a + s) % 2 = 0 then 1 else 0) exT := by decide

/-- **Reversibility by construction** (`StationaryQ.calcQ`): whatever the scale and the diagonal, the rate matrix built
from SYMMETRIC exchangeabilities `Rm` times a matrix whose rows are all the motif probabilities `π`
(`mprobs_matrix`) is in detailed balance with `π`. -/
theorem calcQ_reversible_by_construction {K : Type} [Field K] (m : Nat) (Rm M : Mat K) (w π : Nat → K)
    (hsym : ∀ i j, i < m → j < m → Rm i j = Rm j i) (hM : ∀ i j, i < m → j < m → M i j = π j) :
    DetailedBalance m π (calcQ m Rm M w) :=
  calcQ_detailedBalance m Rm M w π hsym hM

/-- … and detailed balance of `Q` is inherited by every power of `Q` and every polynomial `Σ_{n<N} c n · Qⁿ` — in
particular by every Taylor polynomial of `exp(tQ)`; only the passage to the limit (the matrix exponential itself) is
outside the algebraic model and is measured on the implementation's matrices (driver `hyp`). -/
theorem detailed_balance_of_polynomials {R : Type} [CommSemiring R] (m : Nat) (π : Nat → R) (Q : Mat R) (c : Nat → R)
    (h : DetailedBalance m π Q) (N : Nat) : DetailedBalance m π (matPoly m Q c N) :=
  detailedBalance_matPoly m π Q c h N

example : DetailedBalance 2 (fun i => ((i : Int) + 1)) (calcQ 2 (fun _ _ => (1 : Int)) (fun _ j => (j : Int) + 1) (fun _ => 1)) := by
  intro i j hi hj
  have hi' : i = 0 ∨ i = 1 := by omega
  have hj' : j = 0 ∨ j = 1 := by omega
  rcases hi' with rfl | rfl <;> rcases hj' with rfl | rfl <;> decide
example : matPoly 2 exQ (fun _ => 1) 3 0 1 = 7 := by decide

end CogentModel.C11
