import CogentModel.Model.ControllerLf
import CogentModel.Proofs.CtlLf
import CogentModel.Proofs.CalcPure
import CogentModel.Model.ControllerFail
import CogentModel.Proofs.CtlFail
import CogentModel.Props.C07
/-! # C07 — likelihood-function level operations on the controller model

`set_param_rule`, `set_motif_probs`, `set_alignment` (its own `updates_postponed` block, per-locus
alignment leaf + motif probs counted from the data) and user `updates_postponed` blocks (left
normally or by an exception) are compiled to `assign` / `enter` / `exit` / `xexit` histories
(`Model/ControllerLf.lean`), so `controller_consistent` and `controller_equals_fresh` cover them. -/
namespace CogentModel.C07
open CogentModel.Ctl

variable {V : Type} [Inhabited V] [DecidableEq V]

/-- **lf_ops_consistent**: after ANY history of `set_param_rule` / `set_motif_probs` /
`set_alignment` (new leaf data for every locus, optionally with motif probs recounted from it,
inside its own postponed block) / user `updates_postponed` blocks around them (left normally or by
an exception), no block is open, nothing is suspended or marked dirty, every definition holds its
rule applied to the current values — in particular everything downstream of a replaced alignment
or motif-prob vector has been recomputed — and all values equal those of a controller newly built
from the current settings. -/
theorem lf_ops_consistent (g : Ctl.Graph V) (hwf : Ctl.WF g) (setting : Nat → V) (hist : List (LfOp V)) :
    (runLf g (Ctl.init g setting) hist).stack = [] ∧
    (runLf g (Ctl.init g setting) hist).suspended = false ∧
    (runLf g (Ctl.init g setting) hist).changed = [] ∧
    (∀ k, k < g.length → LocalOK g (runLf g (Ctl.init g setting) hist) k) ∧
    (∀ k, k < g.length → (runLf g (Ctl.init g setting) hist).values k
        = (Ctl.init g (runLf g (Ctl.init g setting) hist).setting).values k) := by
  have h0 : (Ctl.init g setting).stack = [] := by
    unfold Ctl.init
    rw [(updateIntermediate_frame g _).1]; rfl
  have hst : (runLf g (Ctl.init g setting) hist).stack = [] := by
    unfold runLf
    rw [(frame_flatMap g compileLf hist (fun o _ => frame_lf g o) _).1, h0]
  obtain ⟨a, b, c⟩ := (controller_consistent g hwf setting (hist.flatMap compileLf)).2 hst
  exact ⟨hst, a, b, c, controller_equals_fresh g hwf setting (hist.flatMap compileLf) hst⟩

/-- non-vacuity: leaves 0 = alignment, 1 = motif probs, 2 = kappa; 3 = Q(mprobs, kappa),
4 = lnL(alignment, Q). A rule, a new alignment that also recounts the motif probs, then a user
block that raises after setting motif probs, then another rule: lnL follows every time. -/
def exLfG : Ctl.Graph Int :=
  [.leaf, .leaf, .leaf, .derived [1, 2] (fun l => l.getD 0 0 * 10 + l.getD 1 0),
   .derived [0, 3] (fun l => l.getD 0 0 * 1000 + l.getD 1 0)]

example : Ctl.WF exLfG := by
  intro k hk a ha
  have : k < 5 := hk
  match k, this with
  | 0, _ => simp [exLfG, Ctl.defn, Defn.args] at ha
  | 1, _ => simp [exLfG, Ctl.defn, Defn.args] at ha
  | 2, _ => simp [exLfG, Ctl.defn, Defn.args] at ha
  | 3, _ => simp [exLfG, Ctl.defn, Defn.args] at ha; omega
  | 4, _ => simp [exLfG, Ctl.defn, Defn.args] at ha; omega

example :
    let s := runLf exLfG (Ctl.init exLfG (fun _ => 1))
      [.simple (.setParam 2 5), .simple (.setAlignment [(0, 7, some (1, 3))]),
       .postponedRaises [.setMotifProbs [(1, 4)]], .simple (.setParam 2 6)]
    (List.range 5).map s.values = [7, 4, 6, 46, 7046] ∧ s.stack = [] ∧ s.suspended = false := by
  decide

/-! ## definitions whose `update()` raises part way through the walk -/
section failing

/-- **controller_dirty_never_lost**: with definitions whose `update()` may raise (an alignment that
cannot be converted, a calc that fails), after ANY history of assignments and nested blocks in which
any number of recalculations were cut short by the exception (at an assignment, or in the
`finally:` at the end of a block), every definition that is NOT marked dirty holds its rule applied
to the current values, and the block stack / suspension flag are intact.  Hence as soon as one
recalculation completes (`changed = []`), EVERY definition is consistent with the current settings —
whatever failed before, the caller only has to repair the offending input. -/
theorem controller_dirty_never_lost (g : CtlF.Graph V) (hwf : CtlF.WF g) (s0 : Ctl.St V)
    (h0 : CtlF.Inv g s0) (hist : List (Op V)) :
    CtlF.Inv g (CtlF.run g s0 hist) ∧
    ((CtlF.run g s0 hist).changed = [] → ∀ k, k < g.length → CtlF.LocalOK g (CtlF.run g s0 hist) k) := by
  have hI : CtlF.Inv g (CtlF.run g s0 hist) := by
    induction hist generalizing s0 with
    | nil => exact h0
    | cons o os ih =>
      simp only [CtlF.run]
      exact ih _ (CtlF.step_inv g hwf s0 o h0).1
  refine ⟨hI, fun hc k hk => hI.j k hk ?_⟩
  rw [hc]; simp

/-- a recalculation that completes (at an assignment outside every block, or at the end of the
outermost block) clears the dirty set — so the situation of the theorem above is reached by any
single operation that returns normally -/
theorem completed_walk_cleans (g : CtlF.Graph V) (hwf : CtlF.WF g) (s : Ctl.St V) (hI : CtlF.Inv g s)
    (o : Op V) (hok : (CtlF.step g s o).2 = true) (hns : (CtlF.step g s o).1.suspended = false)
    (hwalk : s.stack ≠ [] ∧ o ≠ Op.enter ∨ ∃ k v, o = Op.assign k v) :
    (CtlF.step g s o).1.changed = [] :=
  (CtlF.step_inv g hwf s o hI).2 hok hns hwalk

/-- non-vacuity: leaves 0 (alignment), 1 (kappa); 2 = f(alignment) raises when the alignment is 9;
3 = g(kappa); 4 = h(2, 3).  In one block kappa := 5 and alignment := 9: the end-of-block walk raises
at definition 2 (3 and 4 are still dirty); the caller repairs ONLY the alignment: everything,
including what depends on kappa, is recomputed. -/
def exFailG : CtlF.Graph Int :=
  [.leaf, .leaf, .derived [0] (fun l => if l.getD 0 0 = 9 then none else some (l.getD 0 0 + 100)),
   .derived [1] (fun l => some (l.getD 0 0 * 10)), .derived [2, 3] (fun l => some (l.getD 0 0 + l.getD 1 0))]

def exFailS0 : Ctl.St Int :=
  { values := fun k => [1, 2, 101, 20, 121].getD k 0, setting := fun k => [1, 2].getD k 0,
    changed := [], suspended := false, stack := [] }

example : (CtlF.step exFailG (CtlF.run exFailG exFailS0 [.enter, .assign 1 5, .assign 0 9]) .exit).2 = false ∧
    (CtlF.run exFailG exFailS0 [.enter, .assign 1 5, .assign 0 9, .exit]).suspended = false ∧
    (CtlF.run exFailG exFailS0 [.enter, .assign 1 5, .assign 0 9, .exit]).changed ≠ [] ∧
    (List.range 5).map (CtlF.run exFailG exFailS0 [.enter, .assign 1 5, .assign 0 9, .exit, .assign 0 3]).values
      = [3, 5, 103, 50, 153] ∧
    (CtlF.run exFailG exFailS0 [.enter, .assign 1 5, .assign 0 9, .exit, .assign 0 3]).changed = [] := by
  decide

end failing

/-! ## the calculator is a pure function of the vector, whatever its history -/
section pure
open CogentModel.Calc

theorem runCalls_append (g : Calc.Graph V) (s : Calc.St V) (a b : List (List V)) :
    runCalls g s (a ++ b) = runCalls g (runCalls g s a) b := by
  induction a generalizing s with
  | nil => rfl
  | cons v a ih => simp only [List.cons_append, runCalls]; exact ih _

/-- **calculator_is_pure**: after ANY history of `calculator(x)` calls (succeeding, reverting,
raising), the next call `calculator(values)` returns exactly what a calculation from scratch at
`values` gives — the same value, and it raises if and only if the fresh calculation raises
(`objective g values`).  The two-buffer / undo / recycling machinery is unobservable. -/
theorem calculator_is_pure (g : Calc.Graph V) (hwf : g.WF) (x0 : Nat → V) (s0 : Calc.St V)
    (h0 : Calc.init g x0 = some s0) (hpos : 0 < g.n) (vs : List (List V)) (values : List V) :
    (call g (runCalls g s0 vs) values).2 = objective g values := by
  obtain ⟨hist, hv, he⟩ := calls_are_valid_changes g s0 vs
  rw [he]
  exact call_eq_objective g hwf hpos _ (inv_reachable g hwf x0 s0 h0 hist hv) values

example : (Calc.init exG exX0).map (fun s0 => (call exG (runCalls exG s0 exCalls) [4, 2]).2) = some (objective exG [4, 2]) ∧
    objective exG [4, 2] = none ∧ objective exG [2, 5] = some 108 := by decide

end pure

end CogentModel.C07
