import CogentModel.Gen.C18Gaps
import CogentModel.Gen.C18Pog
import CogentModel.Proofs.C18Gen
import CogentModel.Proofs.Progressive

/-! # C18 — translation tie of the gap-dict helpers of `app/align.py`

`Gen/C18Gaps.lean` is GENERATED on every run from the Python source of `_GapOffset.__init__/__getitem__`,
`_gap_difference`, `_merged_gaps`, `_subset_gaps_to_align_coords`, `_combined_refseq_gaps`, `_gaps_for_injection`
(translator `/verif/translator/c18_gaps2lean.py`, `ast` only).  Each theorem below proves a generated definition equal to
the hand model `Model/GapMerge.lean` — the model the merge theorems of `Props/C18.lean` are stated on — for ALL arguments.
A dict is an association list; where the Python iterates a dict and assigns the iterated keys into a fresh dict, the
equality needs the dict invariant (unique keys) of the iterated argument, stated as `Nodup`.  A semantic edit of one of
these functions changes the generated text and breaks the corresponding proof. -/

namespace CogentModel.C18G
open CogentModel.GapMerge
open CogentModel.Gen
open CogentModel.C18Gen

/-- `_GapOffset.__init__`: the generated constructor, read through `toModel` (cache attribute dropped,
`min_pos = None` of an empty dict read as 0), is the hand model's constructor, for every dict and both modes. -/
theorem gen_gapOffsetInit (g : Gaps) (invert : Bool) :
    toModel (C18Gaps.gapOffsetInit g invert) = GapOffset.mk' g invert :=
  C18Gen.gen_gapOffsetInit g invert

example : (C18Gaps.gapOffsetInit [(7, 1), (1, 3)] true).store = [(1, 0), (4, 3), (10, 3), (11, 4)] := by decide

/-- `_GapOffset.__getitem__`: for EVERY object state (not only those the constructor produces) and every index. -/
theorem gen_gapOffsetGetitem (G : C18Gaps.GapOffsetG) (index : Int) :
    C18Gaps.gapOffsetGetitem G index = (toModel G).get index :=
  C18Gen.gen_gapOffsetGetitem G index

-- an object state written by hand (beyond max_pos -> total)
example : C18Gaps.gapOffsetGetitem { store := [(1, 0)], min_pos := some 1, max_pos := 1, total := 3, invert := false } 5 = 3 := by decide

/-- constructor followed by a query = the hand model's `_GapOffset(g, invert)[x]` -/
theorem gen_gapOffset_query (g : Gaps) (invert : Bool) (x : Int) :
    C18Gaps.gapOffsetGetitem (C18Gaps.gapOffsetInit g invert) x = (GapOffset.mk' g invert).get x := by
  rw [C18Gen.gen_gapOffsetGetitem, C18Gen.gen_gapOffsetInit]

-- the docstring examples of the class
example : 2 + C18Gaps.gapOffsetGetitem (C18Gaps.gapOffsetInit [(1, 3), (7, 1)] false) 2 = 5 := by decide
example : 5 - C18Gaps.gapOffsetGetitem (C18Gaps.gapOffsetInit [(1, 3), (7, 1)] true) 5 = 2 := by decide

/-- `_merged_gaps` -/
theorem gen_mergedGaps (a b : Gaps) : C18Gaps.mergedGaps a b = mergedGaps a b :=
  C18Gen.gen_mergedGaps a b

example : C18Gaps.mergedGaps [(1, 3), (7, 1)] [(7, 2), (4, 1)] = [(1, 3), (7, 2), (4, 1)] := by decide

/-- `_gap_difference`, for every sequence dict and every union dict (unique keys) -/
theorem gen_gapDifference (seq u : Gaps) (hnd : (u.map (·.1)).Nodup) :
    C18Gaps.gapDifference seq u = gapDifference seq u :=
  C18Gen.gen_gapDifference seq u hnd

example : C18Gaps.gapDifference [(1, 3)] [(1, 5), (4, 2)] = ([(4, 2)], [(1, 2)]) := by decide

/-- `_subset_gaps_to_align_coords`, for every offset object -/
theorem gen_subsetGapsToAlignCoords (G : C18Gaps.GapOffsetG) (sub orig : Gaps) :
    C18Gaps.subsetGapsToAlignCoords sub orig G = subsetToAlign orig (toModel G) sub [] :=
  C18Gen.gen_subsetGapsToAlignCoords G sub orig

example : C18Gaps.subsetGapsToAlignCoords [(1, 2)] [(1, 3)] (C18Gaps.gapOffsetInit [(1, 3)] false) = [(4, 2)] := by decide

/-- `_combined_refseq_gaps` (composition of the generated constructor, difference, coordinate conversion and update) -/
theorem gen_combinedRefseqGaps (seq u : Gaps) (hnd : (u.map (·.1)).Nodup) :
    C18Gaps.combinedRefseqGaps seq u = combinedRefseqGaps seq u :=
  C18Gen.gen_combinedRefseqGaps seq u hnd

example : C18Gaps.combinedRefseqGaps [(1, 3)] [(1, 5), (4, 2)] = [(4, 2), (7, 2)] := by decide

/-- `_gaps_for_injection` as it is in the checked tree = the hand model's variant `fixed = false` (the code whose
violation of "keeps the pairwise alignment" is the open finding C18-p2m-injected-gap-inside-other-gap), including the
`ValueError` path, for all dicts and lengths.  When the proposed repair is applied to the tree this theorem no longer
checks and must be restated for `fixed = true`. -/
theorem gen_gapsForInjection (other ref : Gaps) (seqlen : Int) :
    C18Gaps.gapsForInjection other ref seqlen = gapsForInjection false other ref seqlen :=
  C18Gen.gen_gapsForInjection other ref seqlen

example : (C18Gaps.gapsForInjection [(2, 1)] [(1, 2), (5, 1)] 4).toOption = some [(2, 1), (1, 2), (4, 1)] := by decide
example : (C18Gaps.gapsForInjection [] [(-3, 2)] 4).toOption = none := by decide

/-! ## column completion of progressive alignment (`Gen/C18Pog.lean`, translator `c18_pog2lean.py`) -/

/-- `pog_traceback` + `POGBuilder.add_skipped/add_aligned/get_pog`, sliced to `aligned_positions` and translated from the
source, is the hand model `Progressive.pogTraceback` — for all child widths and ALL position lists (valid or malformed).
Together with `pog_traceback_complete` / `progressive_alignment_sound` of `Props/C18.lean` this puts the completed
position list of the real code under those theorems by translation, not only by the behavioural tie. -/
theorem gen_pogTraceback (n1 n2 : Nat) (ap : List CogentModel.Progressive.Pos) :
    C18Pog.pogTraceback n1 n2 ap = CogentModel.Progressive.pogTraceback n1 n2 ap :=
  C18Gen.gen_pogTraceback n1 n2 ap

example : C18Pog.pogTraceback 3 2 [(some 1, some 0)] = [(some 0, none), (some 1, some 0), (some 2, none), (none, some 1)] := by decide

/-- the translated completion has every child column exactly once (the completeness theorem transported to the
generated definition) -/
theorem gen_pogTraceback_complete (n1 n2 : Nat) (ap : List CogentModel.Progressive.Pos)
    (h : CogentModel.Progressive.apValid n1 n2 ap 0 0 = true) :
    (C18Pog.pogTraceback n1 n2 ap).filterMap (·.1) = List.range n1 ∧
    (C18Pog.pogTraceback n1 n2 ap).filterMap (·.2) = List.range n2 := by
  rw [C18Gen.gen_pogTraceback]
  have c := CogentModel.Progressive.pogTraceback_complete n1 n2 ap h
  constructor
  · rw [List.range_eq_range', ← c.1]; congr 1
  · rw [List.range_eq_range', ← c.2]; congr 1

example : CogentModel.Progressive.apValid 3 2 [(some 1, some 0)] 0 0 = true := by decide

end CogentModel.C18G
