import CogentModel.Gen.C06Str
import CogentModel.Model.Clustal
import CogentModel.Model.SeqFormats
import CogentModel.Proofs.SeqFormats
import CogentModel.Proofs.Clustal
/-! # C06 — the TRANSLATED string functions equal the hand models, for all arguments

`Gen/C06Str.lean` is re-generated on every run from the CURRENT source of `parse/clustal.py` and `parse/phylip.py`
(translator/c06_str2lean.py, `ast` only).  Each theorem below states that a generated definition and the hand-written
model used by the round-trip theorems are the same function, so a semantic edit of the Python function breaks the
corresponding proof obligation (and the failing-input search then looks for a concrete input). -/
namespace CogentModel.C06
open CogentModel.SeqFormats CogentModel.Clustal

/-- `is_clustal_seq_line` (as translated) is the model's `isSeqLine` -/
theorem gen_is_clustal_seq_line_eq (line : Str) : Gen.C06Str.is_clustal_seq_line line = isSeqLine line := by
  cases line with
  | nil => rfl
  | cons c cs =>
    simp [Gen.C06Str.is_clustal_seq_line, isSeqLine, PyStr.truthy, PyStr.isspace, PyStr.at0, PyStr.startswith]

/-- `delete_trailing_number` (as translated) is the model's `deleteTrailingNumber` (also on lines without any field, where
Python raises IndexError and both sides return the line) -/
theorem gen_delete_trailing_number_eq (line : Str) :
    Gen.C06Str.delete_trailing_number line = deleteTrailingNumber line := by
  have key : ∀ ps : List Str,
      (if pyIntOk (PyStr.lastD ps) then joinSp ps.dropLast else line) =
        (match ps.getLast? with
          | none => line
          | some t => if pyIntOk t then joinSp ps.dropLast else line) := by
    intro ps
    unfold PyStr.lastD
    cases ps.getLast? <;> simp [pyIntOk, signSplit]
  exact key (splitWs line)

/-- `is_blank` (parse/phylip.py, as translated) is the model's `isBlank` -/
theorem gen_is_blank_eq (x : Str) : Gen.C06Str.is_blank x = isBlank x := by
  unfold Gen.C06Str.is_blank PyStr.truthy isBlank strip stripBy rstripBy
  rw [Bool.not_not, List.isEmpty_reverse, dropWhile_isEmpty, List.all_reverse, dropWhile_all]

/-- `_split_line` (parse/phylip.py, as translated) is the model's `splitLine`: `(None, None)` exactly when the model
returns `none`, the same `(id, seq)` pair otherwise — for every line and every id column width -/
theorem gen_split_line_eq (line : Str) (off : Nat) :
    Gen.C06Str.split_line line off =
      match splitLine line off with
      | none => (none, none)
      | some p => (some p.1, some p.2) := by
  have hb := gen_is_blank_eq line
  unfold Gen.C06Str.is_blank at hb
  unfold Gen.C06Str.split_line splitLine
  rw [← hb]
  by_cases h1 : line.isEmpty <;> by_cases h2 : PyStr.truthy (strip line) <;>
    simp [PyStr.truthy, PyStr.slice, PyStr.removeChar, h1, h2] <;> simp_all [PyStr.truthy]

theorem pyInt_error {t : Str} {e : Err} (h : pyInt t = .error e) : e = .valueError := by
  simp only [pyInt] at h
  split at h
  · cases h; rfl
  · cases h

/-- `_get_header_info` (parse/phylip.py, as translated) is the header logic of the model `phylipParser`: the model is the
translated function followed by the (hand-modelled) dispatch on its result — `not num_seqs or not seq_len` -> no records,
`interleaved` chooses the branch — for every header line and every body -/
theorem gen_get_header_info_eq (line : Str) (rest : List Str) :
    phylipParser (line :: rest) =
      match Gen.C06Str.get_header_info line with
      | .error e => .error e
      | .ok (ns, sl, il) =>
        if ns = 0 || sl = 0 then .ok []
        else if !il then phySeqGo none rest
        else phyIntFinish sl (phyIntGo ns 0 10 [] rest) := by
  unfold phylipParser Gen.C06Str.get_header_info
  cases hs : splitWs line with
  | nil => simp [hs, PyStr.mapInt]
  | cons a t1 =>
    cases t1 with
    | nil =>
      cases ha : pyInt a with
      | error e => simp [hs, PyStr.mapInt, ha, pyInt_error ha]
      | ok v => simp [hs, PyStr.mapInt, ha, Except.map]
    | cons b more =>
      cases ha : pyInt a with
      | error e => simp [hs, PyStr.mapInt, ha, pyInt_error ha, bind, Except.bind]
      | ok v =>
        cases hb : pyInt b with
        | error e => simp [hs, PyStr.mapInt, ha, hb, pyInt_error hb, bind, Except.bind, Except.map]
        | ok w =>
          cases more with
          | nil => simp [hs, PyStr.mapInt, ha, hb, bind, Except.bind, Except.map]
          | cons m ms => simp [hs, PyStr.mapInt, ha, hb, bind, Except.bind, Except.map]

-- non-vacuity: sequential and interleaved headers, a header with one field, a non-integer field
example : Gen.C06Str.get_header_info "3 12".toList = .ok (3, 12, false) := by decide
example : Gen.C06Str.get_header_info " 3  12 I".toList = .ok (3, 12, true) := by decide
example : Gen.C06Str.get_header_info "3".toList = .error .valueError := by decide
example : Gen.C06Str.get_header_info "3 x".toList = .error .valueError := by decide

end CogentModel.C06
