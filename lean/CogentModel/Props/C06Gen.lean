import CogentModel.Gen.C06Str
import CogentModel.Model.Clustal
import CogentModel.Model.SeqFormats
import CogentModel.Proofs.SeqFormats
import CogentModel.Proofs.Clustal
/-! # C06 — the TRANSLATED string functions equal the hand models, for all arguments

`Gen/C06Str.lean` is re-generated on every run from the CURRENT source of `parse/clustal.py` and `parse/phylip.py`
(translator/c06_str2lean.py, `ast` only).  Each theorem below states that a generated definition and the hand-written
model used by the round-trip theorems are the same function, so a semantic edit of the Python function breaks the
corresponding proof obligation (and the failing-input search then looks for a concrete input). -/
namespace CogentModel.C06
open CogentModel.SeqFormats CogentModel.Clustal

/-- `is_clustal_seq_line` (as translated) is the model's `isSeqLine` -/
theorem gen_is_clustal_seq_line_eq (line : Str) : Gen.C06Str.is_clustal_seq_line line = isSeqLine line := by
  cases line with
  | nil => rfl
  | cons c cs =>
    simp [Gen.C06Str.is_clustal_seq_line, isSeqLine, PyStr.truthy, PyStr.isspace, PyStr.at0, PyStr.startswith]

/-- `delete_trailing_number` (as translated) is the model's `deleteTrailingNumber` (also on lines without any field, where
Python raises IndexError and both sides return the line) -/
theorem gen_delete_trailing_number_eq (line : Str) :
    Gen.C06Str.delete_trailing_number line = deleteTrailingNumber line := by
  have key : ∀ ps : List Str,
      (if pyIntOk (PyStr.lastD ps) then joinSp ps.dropLast else line) =
        (match ps.getLast? with
          | none => line
          | some t => if pyIntOk t then joinSp ps.dropLast else line) := by
    intro ps
    unfold PyStr.lastD
    cases ps.getLast? <;> simp [pyIntOk, signSplit]
  exact key (splitWs line)

/-- `is_blank` (parse/phylip.py, as translated) is the model's `isBlank` -/
theorem gen_is_blank_eq (x : Str) : Gen.C06Str.is_blank x = isBlank x := by
  unfold Gen.C06Str.is_blank PyStr.truthy isBlank strip stripBy rstripBy
  rw [Bool.not_not, List.isEmpty_reverse, dropWhile_isEmpty, List.all_reverse, dropWhile_all]

/-- `_split_line` (parse/phylip.py, as translated) is the model's `splitLine`: `(None, None)` exactly when the model
returns `none`, the same `(id, seq)` pair otherwise — for every line and every id column width -/
theorem gen_split_line_eq (line : Str) (off : Nat) :
    Gen.C06Str.split_line line off =
      match splitLine line off with
      | none => (none, none)
      | some p => (some p.1, some p.2) := by
  have hb := gen_is_blank_eq line
  unfold Gen.C06Str.is_blank at hb
  unfold Gen.C06Str.split_line splitLine
  rw [← hb]
  by_cases h1 : line.isEmpty <;> by_cases h2 : PyStr.truthy (strip line) <;>
    simp [PyStr.truthy, PyStr.slice, PyStr.removeChar, h1, h2] <;> simp_all [PyStr.truthy]

end CogentModel.C06
