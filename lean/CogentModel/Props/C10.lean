import CogentModel.Model.RichDict
import CogentModel.Proofs.RebasePaths
/-! # C10 — property theorems (export / re-basing of views and maps round-trips)

`RebaseObs parent v (p', v')` says: the rebuilt view `v'` over the rebuilt parent `p'`
displays the same string (`realise`, Python slicing semantics of `Spec/PySlice`), has
the same plus-strand `parent_start` / `parent_stop` (so annotations still line up),
satisfies the representation invariant and `seq_len = len(parent)`.
`RebaseOK` adds: same strand (`is_reversed`). -/
namespace CogentModel.C10
open CogentModel.View CogentModel.RichDict

/-- Old-style `Sequence.to_rich_dict` → `deserialise_seq` (and `to_json`): for EVERY
view satisfying the invariant over EVERY parent (any history of slices / rc / strides),
the export succeeds and the rebuilt sequence is observationally the original. -/
theorem view_rebase_roundtrip {α} [Inhabited α] (parent : List α) (v : View)
    (hinv : Inv v) (hlen : v.seqLen = parent.length) :
    ∃ r, seqRoundtripOld parent v = .ok r ∧ RebaseOK parent v r :=
  old_path parent v hinv hlen

example : Inv { start := -3, stop := -10, step := -2, offset := 7, seqLen := 10 } := by decide
example : (seqRoundtripOld [0,1,2,3,4,5,6,7,8,9] { start := -3, stop := -10, step := -2, offset := 7, seqLen := 10 }).toOption
    = some ([1,2,3,4,5,6,7], { start := -1, stop := -8, step := -2, offset := 8, seqLen := 7 }) := by decide

/-- Old-style `Sequence.copy(sliced=True)` (`SeqView.copy(sliced=True)` is
`from_rich_dict(to_rich_dict())`, the Sequence re-attaches `annotation_offset`). -/
theorem seq_copy_old_roundtrip {α} [Inhabited α] (parent : List α) (v : View)
    (hinv : Inv v) (hlen : v.seqLen = parent.length) :
    ∃ r, seqCopyOld parent v = .ok r ∧ RebaseOK parent v r :=
  old_path parent v hinv hlen

example : (seqCopyOld [0,1,2,3,4,5] { start := 1, stop := 5, step := 3, offset := 2, seqLen := 6 }).toOption
    = some ([1,2,3,4], { start := 0, stop := 4, step := 3, offset := 3, seqLen := 4 }) := by decide

/-- New-style `Sequence.to_rich_dict` → `_moltype_seq_from_rich_dict`
(`SeqView(seq=trunc, offset=annotation_offset)[::step]`): string, coordinates and
invariant for every view; strand for every non-empty view. -/
theorem view_rebase_roundtrip_new_partial {α} [Inhabited α] (parent : List α) (v : View)
    (hinv : Inv v) (hlen : v.seqLen = parent.length) :
    ∃ r, seqRoundtripNew parent v = .ok r ∧ RebaseObs parent v r ∧
      (v.start ≠ v.stop → isReversed r.2 = isReversed v) :=
  new_path parent v hinv hlen

/- FULL STATEMENT (not proved): `∃ r, seqRoundtripNew parent v = .ok r ∧ RebaseOK parent v r`.
   It is false for the model (and the code): `x[::step]` on an empty view returns the view
   itself (`len(self) == 0 → return self`), so an EMPTY reversed view comes back as an empty
   forward view (strand of the empty sequence is lost; nothing else is). -/
theorem view_rebase_roundtrip_new_counter :
    (seqRoundtripNew [0,1,2,3] { start := -2, stop := -2, step := -1, offset := 0, seqLen := 4 }).toOption
      = some ([], { start := 0, stop := 0, step := 1, offset := 3, seqLen := 0 }) := by decide

example : (seqRoundtripNew [0,1,2,3,4,5,6,7,8,9] { start := -3, stop := -10, step := -2, offset := 7, seqLen := 10 }).toOption
    = some ([1,2,3,4,5,6,7], { start := -1, stop := -8, step := -2, offset := 8, seqLen := 7 }) := by decide

-- a REVERSED STRIDED view with NON-ZERO residue (truncated parent length 9, (9-1) % 3 = 2; `seq.rc()[1::3]` on 10
-- residues with annotation offset 100): striding from the right end is not "stride from the left, then reverse"
example : Inv { start := -2, stop := -11, step := -3, offset := 100, seqLen := 10 } := by decide
example : (seqRoundtripNew [0,1,2,3,4,5,6,7,8,9] { start := -2, stop := -11, step := -3, offset := 100, seqLen := 10 }).toOption.map
      (fun r => (r.1, r.2, realise r.1 r.2, parentStart r.2 |>.toOption, parentStop r.2 |>.toOption))
    = some ([0,1,2,3,4,5,6,7,8], { start := -1, stop := -10, step := -3, offset := 100, seqLen := 9 }, [8,5,2], some 100, some 109) := by decide
example : (seqRoundtripOld [0,1,2,3,4,5,6,7,8,9] { start := -2, stop := -11, step := -3, offset := 100, seqLen := 10 }).toOption.map
      (fun r => (r.1, r.2, realise r.1 r.2))
    = some ([0,1,2,3,4,5,6,7,8], { start := -1, stop := -10, step := -3, offset := 100, seqLen := 9 }, [8,5,2]) := by decide
example : (parentStart { start := -2, stop := -11, step := -3, offset := 100, seqLen := 10 }).toOption = some 100
    ∧ (parentStop { start := -2, stop := -11, step := -3, offset := 100, seqLen := 10 }).toOption = some 109 := by decide

/-- New-style `Sequence.copy(sliced=True)` (`SeqView.copy(sliced=True)` builds the truncated
parent with `step` only, the Sequence re-attaches `annotation_offset = parent_start`): for EVERY
view satisfying the invariant, with ANY offset, the copy succeeds and is observationally the
original. (Before repo commit f9c946a7e this held only for `v.offset = 0`; that witness is now a
regression-corpus entry of the harness.) -/
theorem seq_copy_new_roundtrip {α} [Inhabited α] (parent : List α) (v : View)
    (hinv : Inv v) (hlen : v.seqLen = parent.length) :
    ∃ r, seqCopyNew parent v = .ok r ∧ RebaseOK parent v r :=
  copy_new_path parent v hinv hlen

example : (seqCopyNew [0,1,2,3,4,5] { start := 1, stop := 5, step := 3, offset := 0, seqLen := 6 }).toOption
    = some ([1,2,3,4], { start := 0, stop := 4, step := 3, offset := 1, seqLen := 4 }) := by decide
example : (seqCopyNew [0,1,2,3] { start := 0, stop := 4, step := 1, offset := 5, seqLen := 4 }).toOption
    = some ([0,1,2,3], { start := 0, stop := 4, step := 1, offset := 5, seqLen := 4 }) := by decide
example : (seqCopyNew [0,1,2,3,4,5,6,7,8,9] { start := -3, stop := -10, step := -2, offset := 7, seqLen := 10 }).toOption
    = some ([1,2,3,4,5,6,7], { start := -1, stop := -8, step := -2, offset := 8, seqLen := 7 }) := by decide

/-- `SeqDataView.to_rich_dict` (sequence taken out of a new-style collection) exports the
right string when the view is an unsliced forward prefix. -/
theorem dataview_export_partial {α} [Inhabited α] (parent : List α) (v : View)
    (hs : v.start = 0) (hc : v.step = 1) (h0 : 0 ≤ v.stop) (he : v.stop ≤ parent.length) :
    (toRichDataView parent v).seq = realise parent v :=
  dataview_prefix parent v hs hc h0 he

example : (toRichDataView [0,1,2,3,4,5] { start := 0, stop := 4, step := 1, offset := 0, seqLen := 6 }).seq = [0,1,2,3] := by decide

/- FULL STATEMENT (not proved): `∃ r, seqRoundtripDataView parent v = .ok r ∧ RebaseObs parent v r`
   for every `Inv` view. False for the mirrored model: the code slices the ALREADY sliced
   `str_value` with the parent bounds. Witness `parent[2:8]`: -/
theorem dataview_export_counter :
    (toRichDataView [0,1,2,3,4,5,6,7,8,9] { start := 2, stop := 8, step := 1, offset := 0, seqLen := 10 }).seq = [4,5,6,7]
    ∧ realise [0,1,2,3,4,5,6,7,8,9] { start := 2, stop := 8, step := 1, offset := 0, seqLen := 10 } = [2,3,4,5,6,7] := by
  decide

/-- The Sequence a new-style collection hands out (a `SeqDataView` inside) through
`Sequence.to_rich_dict → SeqDataView.to_rich_dict → _moltype_seq_from_rich_dict`: for every invariant view that is
an unsliced forward prefix (`start = 0`, `step = 1`, any stop, any offset) the rebuilt sequence displays the same
string, has the same parent coordinates, satisfies the invariant, and (non-empty) the same strand. -/
theorem dataview_roundtrip_partial {α} [Inhabited α] (parent : List α) (v : View)
    (hinv : Inv v) (hlen : v.seqLen = parent.length) (hs : v.start = 0) (hc : v.step = 1) :
    ∃ r, seqRoundtripDataView parent v = .ok r ∧ RebaseObs parent v r ∧
      (v.start ≠ v.stop → isReversed r.2 = isReversed v) :=
  dataview_path_prefix parent v hinv hlen hs hc

example : Inv { start := 0, stop := 4, step := 1, offset := 0, seqLen := 6 } := by decide
example : (seqRoundtripDataView [0,1,2,3,4,5] { start := 0, stop := 4, step := 1, offset := 0, seqLen := 6 }).toOption
    = some ([0,1,2,3], { start := 0, stop := 4, step := 1, offset := 0, seqLen := 4 }) := by decide

/- FULL STATEMENT (not proved): the same for EVERY `Inv` view. False for the mirrored model and the real code
   (open finding C10-seqdataview-export-slices-twice): a reversed strided member view with non-zero residue
   (`coll.get_seq('a').rc()[1::3]` on 10 residues: start=-2, stop=-11, step=-3) exports a wrong, shorter string: -/
theorem dataview_roundtrip_counter :
    realise [0,1,2,3,4,5,6,7,8,9] { start := -2, stop := -11, step := -3, offset := 0, seqLen := 10 } = [8,5,2]
    ∧ (seqRoundtripDataView [0,1,2,3,4,5,6,7,8,9] { start := -2, stop := -11, step := -3, offset := 0, seqLen := 10 }).toOption.map
        (fun r => realise r.1 r.2) = some [2] := by
  decide

/-- `IndelMap`: whatever constructor route built the map (`cum_gap_lengths` or `gap_lengths`),
`from_rich_dict(to_rich_dict(m))` passes the constructor checks again and gives the same map. -/
theorem indelmap_roundtrip (gp : List Int) (cum len : Option (List Int)) (tu : Bool) (pl : Int) (m : IndelMap)
    (h : IndelMap.mk' gp cum len tu pl = .ok m) : IndelMap.fromRich m.toRich = .ok m := by
  unfold IndelMap.mk' at h
  unfold IndelMap.fromRich IndelMap.toRich IndelMap.mk'
  cases cum <;> cases len <;> simp only [] at h ⊢ <;> try cases h
  all_goals
    split at h
    · cases h
    · split at h
      · cases h
      · cases h
        rename_i h1 h2
        simp only [Option.getD_some] at h1 h2 ⊢
        rw [if_neg h1, if_neg h2]

example : IndelMap.mk' [1, 3] none (some [2, 1]) false 5 =
    .ok { gapPos := [1, 3], cumGapLengths := [2, 3], terminiUnknown := false, parentLength := 5 } := by rfl

/-- `Span`/`LostSpan` pickle (`__getstate__`/`__setstate__` re-run `__init__` on the live
values): normalisation (`start > end` swap, `end=None → start+1`) is idempotent. -/
theorem span_pickle_roundtrip (a : SpanArgs) : a.build.pickleArgs.build = a.build := by
  cases a with
  | lost l => rfl
  | span s e ts te r =>
    cases e with
    | none =>
      have h : ¬ s > s + 1 := by omega
      simp only [SpanArgs.build, SpanState.pickleArgs, h, if_false]
    | some e =>
      by_cases h : s > e
      · have h' : ¬ e > s := by omega
        simp only [SpanArgs.build, h, if_true, SpanState.pickleArgs, h', if_false]
      · simp only [SpanArgs.build, h, if_false, SpanState.pickleArgs]

example : (SpanArgs.span 5 (some 2) false false true).build = .span 2 5 false false true := by decide

/-- `FeatureMap` pickle: spans, parent_length and length survive. -/
theorem featuremap_pickle_roundtrip (m : FeatureMap) :
    (FeatureMap.build m).roundtripPickle = FeatureMap.build m := by
  simp only [FeatureState.roundtripPickle, FeatureMap.build, List.map_map]
  have : (SpanArgs.build ∘ SpanState.pickleArgs ∘ SpanArgs.build) = SpanArgs.build := by
    funext a; exact span_pickle_roundtrip a
  simp [this]

example : (FeatureMap.build { spans := [.span 5 (some 2) false false false, .lost 3, .span 7 none false false true], parentLength := 10 }).length = 7 := by decide

/-- the live-state export of one span re-builds the same span, for every well-formed live span
(`start ≤ end`), not only freshly constructed ones -/
theorem span_live_roundtrip (x : SpanState) (h : x.WF) : x.richArgs.build = x := by
  cases x with
  | lost l => rfl
  | span s e ts te r =>
    have h' : ¬ s > e := by simp only [SpanState.WF] at h; omega
    simp only [SpanState.richArgs, SpanArgs.build, h', if_false]

/-- `FeatureMap.to_rich_dict` → `from_rich_dict` (JSON; spans export their LIVE state): every well-formed live map state —
whatever history of constructor calls and in-place span shifts (`zeroed()`) produced it — comes back
unchanged: same spans, parent_length and length. -/
theorem featurestate_json_roundtrip (s : FeatureState) (h : s.WF) : s.roundtripJson = s := by
  obtain ⟨hs, hl⟩ := h
  have hm : (s.spans.map SpanState.richArgs).map SpanArgs.build = s.spans := by
    rw [List.map_map]
    conv => rhs; rw [← List.map_id s.spans]
    exact List.map_congr_left fun x hx => span_live_roundtrip x (hs x hx)
  cases s with
  | mk spans pl len =>
    simp only [FeatureState.roundtripJson, FeatureState.toRich, FeatureMap.build] at hm ⊢
    simp only [hm]
    simp only at hl
    rw [hl]

/-- every constructed map state is well-formed, so the theorem above applies to it -/
theorem featuremap_build_wf (m : FeatureMap) : (FeatureMap.build m).WF := by
  refine ⟨?_, rfl⟩
  intro x hx
  simp only [FeatureMap.build, List.mem_map] at hx
  obtain ⟨a, _, rfl⟩ := hx
  cases a with
  | lost l => trivial
  | span s e ts te r =>
    cases e with
    | none => simp only [SpanArgs.build, SpanState.WF]; omega
    | some e =>
      by_cases h : s > e
      · simp only [SpanArgs.build, h, if_true, SpanState.WF]; omega
      · simp only [SpanArgs.build, h, if_false, SpanState.WF]; omega

/-- … in particular every freshly constructed `FeatureMap` -/
theorem featuremap_roundtrip (m : FeatureMap) : (FeatureMap.build m).roundtripJson = FeatureMap.build m :=
  featurestate_json_roundtrip _ (featuremap_build_wf m)

-- a state NOT in constructor-argument form (as left by `zeroed()`: spans shifted in place, swapped input order)
example : ({ spans := [.span 0 3 false false true, .lost 2, .span 5 6 true false false], parentLength := 6, length := 6 } : FeatureState).roundtripJson
    = { spans := [.span 0 3 false false true, .lost 2, .span 5 6 true false false], parentLength := 6, length := 6 } := by decide
example : (FeatureMap.build { spans := [.span 5 (some 2) false false false, .lost 3, .span 7 none false false true], parentLength := 10 }).roundtripJson
    = FeatureMap.build { spans := [.span 5 (some 2) false false false, .lost 3, .span 7 none false false true], parentLength := 10 } := by decide

/-- pickle of any well-formed live map state (same re-initialisation from the live values) -/
theorem featurestate_pickle_roundtrip (s : FeatureState) (h : s.WF) : s.roundtripPickle = s := by
  have e : SpanState.pickleArgs = SpanState.richArgs := by funext x; cases x <;> rfl
  have := featurestate_json_roundtrip s h
  simpa only [FeatureState.roundtripJson, FeatureState.toRich, FeatureState.roundtripPickle, e] using this

example : ({ spans := [.span 0 3 false false true, .lost 2, .span 5 6 true false false], parentLength := 6, length := 6 } : FeatureState).WF := by
  refine ⟨?_, by decide⟩
  intro x hx
  simp only [List.mem_cons, List.not_mem_nil, or_false] at hx
  rcases hx with rfl | rfl | rfl <;> simp [SpanState.WF]

end CogentModel.C10
