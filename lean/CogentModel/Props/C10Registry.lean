/- C10 (wave 2): the deserialiser registry.  `Gen/C10Registry.lean` is TRANSLATED on every run (translator/c10_registry2lean.py,
   `ast` only) from every `@register_deserialiser` line of the package, the dispatch loop of `deserialise_object`, and the "type"
   strings the classes emit.  General theorems are for every registry and every type string; table theorems are decided by the kernel. -/
import CogentModel.Gen.C10Registry
namespace CogentModel.C10Registry
open CogentModel.Registry
open CogentModel.Gen.C10Registry (table emitted dispatch test)

theorem isPrefix_iff (k t : Str) : isPrefix k t = true ↔ ∃ b, t = k ++ b := by
  induction k generalizing t with
  | nil => simp [isPrefix]
  | cons a k ih =>
    cases t with
    | nil => simp [isPrefix]
    | cons c t =>
      simp only [isPrefix, Bool.and_eq_true, beq_iff_eq, ih, List.cons_append, List.cons.injEq]
      constructor
      · rintro ⟨rfl, b, rfl⟩; exact ⟨b, rfl, rfl⟩
      · rintro ⟨b, rfl, rfl⟩; exact ⟨rfl, b, rfl⟩

/-- `k in t` (Python) = `t` is `a ++ k ++ b` for some `a`, `b` -/
theorem isInfix_iff (k t : Str) : isInfix k t = true ↔ ∃ a b, t = a ++ k ++ b := by
  induction t with
  | nil =>
    simp only [isInfix, isPrefix_iff]
    constructor
    · rintro ⟨b, h⟩; exact ⟨[], b, by simpa using h⟩
    · rintro ⟨a, b, h⟩
      have h1 := List.append_eq_nil_iff.mp h.symm
      have h2 := List.append_eq_nil_iff.mp h1.1
      exact ⟨[], by simp [h2.2]⟩
  | cons c t ih =>
    simp only [isInfix, Bool.or_eq_true, ih, isPrefix_iff]
    constructor
    · rintro (⟨b, h⟩ | ⟨a, b, h⟩)
      · exact ⟨[], b, by simpa using h⟩
      · exact ⟨c :: a, b, by simp [h]⟩
    · rintro ⟨a, b, h⟩
      cases a with
      | nil => left; exact ⟨b, by simpa using h⟩
      | cons x a =>
        right
        simp only [List.cons_append, List.cons.injEq] at h
        exact ⟨a, b, h.2⟩

/-- the GENERATED dispatch loop equals the hand-written first-match model, for every registry and every type string -/
theorem gen_dispatch_eq_firstMatch (tbl : List Entry) (t : Str) : dispatch tbl t = firstMatch tbl t := by
  induction tbl with
  | nil => rfl
  | cons e rest ih =>
    simp only [dispatch, List.find?, firstMatch, test] at ih ⊢
    cases h : isInfix e.key t <;> simp [ih]

example : dispatch table "cogent3.core.sequence.SeqView".toList = firstMatch table "cogent3.core.sequence.SeqView".toList := gen_dispatch_eq_firstMatch _ _

/-- NotImplementedError is raised exactly when no registered key occurs in the type string -/
theorem dispatch_none_iff (tbl : List Entry) (t : Str) :
    dispatch tbl t = none ↔ ∀ e ∈ tbl, ¬ ∃ a b, t = a ++ e.key ++ b := by
  simp only [dispatch, test, List.find?_eq_none, ← isInfix_iff]

example : dispatch table "builtins.dict".toList = none := by decide +kernel

/-- the selected entry: its key occurs in the type string and no EARLIER registration's key does -/
theorem dispatch_some_iff (tbl : List Entry) (t : Str) (e : Entry) :
    dispatch tbl t = some e ↔
      (∃ a b, t = a ++ e.key ++ b) ∧ ∃ pre post, tbl = pre ++ e :: post ∧ ∀ x ∈ pre, ¬ ∃ a b, t = a ++ x.key ++ b := by
  simp only [dispatch, test, List.find?_eq_some_iff_append, ← isInfix_iff]
  simp

example : ∃ e, dispatch table "cogent3.core.alignment.Aligned".toList = some e ∧ e.func = "deserialise_aligned" := by decide +kernel

/-- dispatch is total on ANY string that contains a registered key (version suffixes, sub-modules, subclasses ...) -/
theorem dispatch_total_of_contains (tbl : List Entry) (e : Entry) (he : e ∈ tbl) (a b : Str) :
    (dispatch tbl (a ++ e.key ++ b)).isSome = true := by
  cases h : dispatch tbl (a ++ e.key ++ b) with
  | some x => rfl
  | none => exact absurd ⟨a, b, rfl⟩ ((dispatch_none_iff _ _).mp h e he)

example : (dispatch table ("x.".toList ++ "cogent3.core.tree".toList ++ ".PhyloNode".toList)).isSome = true :=
  dispatch_total_of_contains table ⟨"cogent3.core.tree".toList, "deserialise_tree", "cogent3.util.deserialise"⟩ (by decide +kernel) _ _

theorem find?_filter_of_imp {α} (p q : α → Bool) (l : List α) (h : ∀ x ∈ l, p x = true → q x = true) :
    l.find? p = (l.filter q).find? p := by
  induction l with
  | nil => rfl
  | cons x xs ih =>
    have ih' := ih (fun y hy => h y (List.mem_cons_of_mem _ hy))
    cases hp : p x
    · cases hq : q x <;> simp [List.filter, List.find?, hp, hq, ih']
    · have hq := h x (List.mem_cons_self) hp
      simp [List.filter, List.find?, hp, hq]

/-- ORDER INDEPENDENCE (the registration order across modules is the import order, which is not fixed): if every key that
    occurs in `t` was registered by one module, any registry with the same per-module registration sequences selects the same entry -/
theorem dispatch_order_independent (tbl tbl' : List Entry) (t : Str) (h1 : oneModuleB tbl t = true)
    (hmod : ∀ m : String, tbl'.filter (fun e => e.module == m) = tbl.filter (fun e => e.module == m)) :
    dispatch tbl' t = dispatch tbl t := by
  have hsub : ∀ x ∈ tbl', x ∈ tbl := by
    intro x hx
    have : x ∈ tbl'.filter (fun e => e.module == x.module) := by simp [List.mem_filter, hx]
    rw [hmod] at this
    exact (List.mem_filter.mp this).1
  unfold oneModuleB matching at h1
  cases hm : tbl.filter (fun e => isInfix e.key t) with
  | nil =>
    have hn : ∀ x ∈ tbl, isInfix x.key t = false := by
      intro x hx
      cases hh : isInfix x.key t with
      | false => rfl
      | true => have : x ∈ tbl.filter (fun e => isInfix e.key t) := by simp [List.mem_filter, hx, hh]
                rw [hm] at this; cases this
    have a : dispatch tbl t = none := by
      simp only [dispatch, test, List.find?_eq_none]; intro x hx; simp [hn x hx]
    have b : dispatch tbl' t = none := by
      simp only [dispatch, test, List.find?_eq_none]; intro x hx; simp [hn x (hsub x hx)]
    rw [a, b]
  | cons e rest =>
    rw [hm] at h1
    simp only [List.all_eq_true, beq_iff_eq] at h1
    have hall : ∀ x ∈ tbl, isInfix x.key t = true → (x.module == e.module) = true := by
      intro x hx hh
      have : x ∈ tbl.filter (fun e => isInfix e.key t) := by simp [List.mem_filter, hx, hh]
      rw [hm] at this
      rcases List.mem_cons.mp this with rfl | hr
      · simp
      · simpa using h1 x hr
    unfold dispatch test
    rw [find?_filter_of_imp _ (fun x => x.module == e.module) tbl hall,
        find?_filter_of_imp _ (fun x => x.module == e.module) tbl' (fun x hx => hall x (hsub x hx)), hmod]


/-! ### facts about the registry and the type strings translated from the package (finite tables, decided by the kernel) -/

/-- the decorator's uniqueness assertion holds for the translated registry -/
theorem registry_keys_unique : (table.map (·.key)).Nodup := by decide +kernel

/-- no registration is shadowed on its own key: every registered type string selects the function registered for it -/
theorem registry_own_key : ∀ e ∈ table, dispatch table e.key = some e := by decide +kernel

/-- for every type string a class of the package can emit, dispatch selects the MOST SPECIFIC registration (longest key
    occurring in it; no earlier, shorter key shadows it); that registration is unique and all candidates come from one module -/
theorem emitted_dispatch_most_specific :
    ∀ e ∈ emitted, dispatch table e.typeStr = bestMatch table e.typeStr ∧ lengthsDistinctB table e.typeStr = true
      ∧ oneModuleB table e.typeStr = true := by decide +kernel

/-- ... hence whatever order the modules were imported in (any registry with the same per-module sequences) -/
theorem emitted_dispatch_order_independent (tbl' : List Entry)
    (hmod : ∀ m : String, tbl'.filter (fun e => e.module == m) = table.filter (fun e => e.module == m)) :
    ∀ e ∈ emitted, dispatch tbl' e.typeStr = bestMatch table e.typeStr := by
  intro e he
  have h := emitted_dispatch_most_specific e he
  rw [dispatch_order_independent table tbl' e.typeStr h.2.2 hmod, h.1]

/-- the emitting classes for which NO deserialiser is registered (deserialise_object raises NotImplementedError on their own
    rich dict), exactly.  Parts of other objects' dicts (Span, _LostSpan, TerminalPadding, SeqDataView, new SeqView, Columns), abstract
    bases (SqliteAnnotationDbMixin, Map, LikelihoodFunction) and drawing helpers apart, two are objects the property names: the solved nucleotide models
    `get_model(\"HKY85\", rate_matrix_required=False)` (finding C10-solved-model-no-deserialiser) and NcbiTaxonNode trees. -/
theorem emitted_without_deserialiser :
    (emitted.filter (fun e => (dispatch table e.typeStr).isNone)).map (·.cls) =
      ["cogent3.core.annotation_db.SqliteAnnotationDbMixin", "cogent3.core.location.Map", "cogent3.core.location.Span", "cogent3.core.location.TerminalPadding",
       "cogent3.core.location._LostSpan", "cogent3.core.new_alignment.SeqDataView", "cogent3.core.new_sequence.SeqView",
       "cogent3.draw.dendrogram.AngularTreeGeometry", "cogent3.draw.dendrogram.CircularTreeGeometry",
       "cogent3.draw.dendrogram.RadialTreeGeometry", "cogent3.draw.dendrogram.SquareTreeGeometry",
       "cogent3.draw.dendrogram.TreeGeometryBase", "cogent3.evolve.likelihood_function.LikelihoodFunction",
       "cogent3.evolve.solved_models.PredefinedNucleotide", "cogent3.parse.ncbi_taxonomy.NcbiTaxonNode",
       "cogent3.util.table.Columns"] := by decide +kernel

/-- the intended function per family of emitted type strings (a shorter key registered earlier would shadow these) -/
theorem emitted_dispatch_examples :
    (dispatch table "cogent3.core.sequence.SeqView".toList).map (·.func) = some "deserialise_seqview" ∧
    (dispatch table "cogent3.core.sequence.DnaSequence".toList).map (·.func) = some "deserialise_seq" ∧
    (dispatch table "cogent3.core.alignment.Aligned".toList).map (·.func) = some "deserialise_aligned" ∧
    (dispatch table "cogent3.core.alignment.ArrayAlignment".toList).map (·.func) = some "deserialise_seq_collections" ∧
    (dispatch table "cogent3.util.dict_array.DictArrayTemplate".toList).map (·.func) = some "deserialise_tabular" ∧
    (dispatch table "cogent3.core.new_sequence.ProteinWithStopSequence".toList).map (·.func) = some "deserialise_protein_with_stop_sequence" ∧
    (dispatch table "cogent3.evolve.parameter_controller.AlignmentLikelihoodFunction".toList).map (·.func) = some "deserialise_likelihood_function" := by
  decide +kernel

end CogentModel.C10Registry
