/-
  C13 — translated code, part 2 (wave 2): theorems tying the GENERATED definitions
    Gen/C13Fmt.lean  (cogent3.util.io.get_format_suffixes, translated statement by statement into the Option monad)
    Gen/C13Sql.lean  (DataStoreSqlite: identifier rewriting, guards, UPDATE/INSERT and DELETE choice, SQL column pairing, statement order;
                      DataStoreABC.__contains__)
  to the hand models the refinement theorems are stated on (Model/DataStore.lean getFormatSuffixes, Model/DataStoreSqlite.lean),
  for ALL arguments.  Both generated files are rewritten from the current source on every run.
-/
import CogentModel.Gen.C13Fmt
import CogentModel.Gen.C13Sql
import CogentModel.Gen.C13Names
import CogentModel.Model.DataStoreSqlite
import CogentModel.Proofs.DataStoreGen
namespace CogentModel.C13
open CogentModel CogentModel.KV
open CogentModel.DataStore (sResults sLogs startsWith pathName splitExt pathSuffixes pathSuffixDot pathSuffixesDot reSubLeadDot lower
  pyLastN pyIdx getFormatSuffixes compression)
open CogentModel.DataStoreSqlite

/-! ## get_format_suffixes -/

theorem gen_get_format_suffixes_eq (n : Str) :
    (Gen.C13Fmt.get_format_suffixes n).getD (none, none) = getFormatSuffixes n := by
  unfold Gen.C13Fmt.get_format_suffixes getFormatSuffixes
  simp only [pathSuffixDot_isEmpty, pyIdx_last, pyIdx_zero, fmt_suffixes_eq, compression]
  by_cases h : (splitExt n).isNone
  · simp [h]
  · simp only [h]
    generalize List.drop _ (List.map (fun s => List.map Char.toLower s) (pathSuffixes n)) = l2
    cases hl : l2.getLast? with
    | none => simp
    | some last =>
      by_cases hc : (last = ['b','z','2'] ∨ last = ['g','z'] ∨ last = ['z','i','p'])
      · by_cases h2 : l2.length = 2
        · have h2i : (l2.length : Int) = 2 := by omega
          cases hh : l2.head? with
          | none => simp at hh; subst hh; simp at h2
          | some v => simp [hc, h2]
        · have h2i : ¬ (l2.length : Int) = 2 := by omega
          simp [hc, h2, h2i]
      · simp [hc]

/-- the translated function raises IndexError exactly for names with a `.suffix` but no `.suffixes` (`..a`) -/
theorem gen_get_format_suffixes_raises_iff (n : Str) :
    Gen.C13Fmt.get_format_suffixes n = none ↔ ((splitExt n).isSome ∧ pathSuffixes n = []) := by
  unfold Gen.C13Fmt.get_format_suffixes
  simp only [pathSuffixDot_isEmpty, pyIdx_last, pyIdx_zero, fmt_suffixes_eq]
  by_cases h : (splitExt n).isNone
  · simp [h]; intro h2; simp [Option.isNone_iff_eq_none] at h; simp [h] at h2
  · simp only [h]
    have hs : (splitExt n).isSome := by cases hh : splitExt n <;> simp_all
    have hnil : (List.drop ((List.map (fun s => List.map Char.toLower s) (pathSuffixes n)).length - 2) (List.map (fun s => List.map Char.toLower s) (pathSuffixes n))) = [] ↔ pathSuffixes n = [] := by
      cases hp : pathSuffixes n with
      | nil => simp
      | cons a t => simp; omega
    rw [← hnil]
    generalize List.drop _ (List.map (fun s => List.map Char.toLower s) (pathSuffixes n)) = l2
    cases hl : l2.getLast? with
    | none => simp at hl; simp [hl, hs]
    | some last =>
      have : l2 ≠ [] := by intro h0; simp [h0] at hl
      by_cases hc : (last = ['b','z','2'] ∨ last = ['g','z'] ∨ last = ['z','i','p'])
      · by_cases h2 : (l2.length : Int) = 2
        · cases hh : l2.head? with
          | none => simp at hh; subst hh; simp at h2
          | some v => simp [hc, h2, this]
        · simp [hc, h2, this]
      · simp [hc, this]

/-- non-vacuity: a two-part, upper-case suffix; a name on which the Python raises -/
example : Gen.C13Fmt.get_format_suffixes "a.FA.gz".toList = some (some "fa".toList, some "gz".toList) := by decide
example : Gen.C13Fmt.get_format_suffixes "..a".toList = none := by decide

/-! ## DataStoreSqlite -/

theorem gen_sql_write_id_eq (id : Str) :
    Gen.C13Sql.write_id id = stripTable sResults id ∧ Gen.C13Sql.write_nc_id id = stripTable sResults id
      ∧ Gen.C13Sql.write_log_id id = stripTable sLogs id := ⟨rfl, rfl, rfl⟩

theorem gen_sql_contains_eq {D : Type} (s : Sql D) (id : Str) :
    Gen.C13Sql.abc_contains s.cCache s.ncCache id = contains s id := by
  simp only [Gen.C13Sql.abc_contains, contains, List.any_append, any_beq_eq_contains]

theorem gen_sql_check_writable_eq {D : Type} (s : Sql D) (id : Str) :
    (s.mode = .r → checkWritable s id = (s, some .ioError) ∧ Gen.C13Names.check_writable_rejects true false false = true) ∧
    (s.mode ≠ .r → ∀ s1, connect s = (s1, none) →
      checkWritable s id = (populate s1,
        if Gen.C13Names.check_writable_rejects false (decide ((populate s1).mode = .a))
            (Gen.C13Sql.abc_contains (populate s1).cCache (populate s1).ncCache id) then some .ioError else none)) := by
  constructor
  · intro h; simp [checkWritable, h, Gen.C13Names.check_writable_rejects]
  · intro h s1 hc
    simp only [checkWritable, h, if_false, hc, gen_sql_contains_eq, Gen.C13Names.check_writable_rejects]
    by_cases hm : contains (populate s1) id = true <;> by_cases ha : (populate s1).mode = .a <;> simp [hm, ha]

theorem gen_sql_write_row_eq {D : Type} (H : D → D) (s0 : Sql D) (id : Str) (data : D) (completed : Bool) :
    writeRow H s0 id data completed =
      (let s := populate (initLog s0)
       if Gen.C13Sql.write_updates (Gen.C13Sql.abc_contains s.cCache s.ncCache id) (decide (s.mode = .a)) then
         ({ s with rows := s.rows.map (fun p => if p.1 = id then (p.1, { p.2 with data := data, md5 := H data }) else p) }, .done (some id))
       else if has s.rows id then (s, .err .integrity)
       else ({ s with rows := s.rows ++ [(id, ⟨data, H data, completed⟩)] }, .done (some id))) := by
  simp only [writeRow, gen_sql_contains_eq, Gen.C13Sql.write_updates]
  by_cases ha : (populate (initLog s0)).mode = .a <;> simp [ha]

theorem gen_sql_statements :
    Gen.C13Sql.update_sets = [("data", "data"), ("log_id", "self._log_id"), ("md5", "md5")]
    ∧ Gen.C13Sql.update_where = [("record_id", "unique_id")]
    ∧ Gen.C13Sql.insert_cols = [("record_id", "unique_id"), ("data", "data"), ("log_id", "self._log_id"), ("md5", "md5"), ("is_completed", "is_completed")]
    ∧ Gen.C13Sql.log_update_sets = [("data", "data"), ("log_name", "unique_id")]
    ∧ Gen.C13Sql.log_update_where = [("log_id", "self._log_id")]
    ∧ Gen.C13Sql.md5_where = [("record_id", "unique_id")] ∧ Gen.C13Sql.md5_column = "md5" := by decide

theorem gen_sql_drop_eq {D : Type} (s : Sql D) (id : Str) :
    dropRows s id = { s with rows := s.rows.filter (fun p => !Gen.C13Sql.drop_deletes id p.1 p.2.completed), ncCache := [] } := by
  simp only [dropRows, Gen.C13Sql.drop_deletes]
  congr 1
  apply List.filter_congr
  intro p _
  by_cases he : id.isEmpty = true <;> cases p.2.completed <;> simp [he, bne]

theorem gen_sql_event_order :
    Gen.C13Sql.write_plan = (sResults, true, ["check_writable", "drop_not_completed", "_write", "append_completed_if_absent", "return_member"])
    ∧ Gen.C13Sql.write_nc_plan = (sResults, false, ["check_writable", "_write", "append_not_completed", "return_member"])
    ∧ Gen.C13Sql.write_log_plan = (sLogs, false, ["check_writable", "_write"])
    ∧ Gen.C13Sql.write_events = ["init_log_if_none", "log_branch", "md5_of_data", "update_or_insert", "return_member"]
    ∧ Gen.C13Sql.drop_events = ["choose_delete", "execute", "cache_reset"]
    ∧ Gen.C13Sql.write_is_log Gen.C13Sql.write_plan.1 = false ∧ Gen.C13Sql.write_is_log Gen.C13Sql.write_nc_plan.1 = false
    ∧ Gen.C13Sql.write_is_log Gen.C13Sql.write_log_plan.1 = true := by decide

end CogentModel.C13
