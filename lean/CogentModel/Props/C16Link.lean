import CogentModel.Model.Optimiser
import CogentModel.Props.C16
import CogentModel.Props.C07
import CogentModel.Props.C07Lf
/-! # C16 × C07 — `lf.optimise` never lowers the log-likelihood

`ParameterController.optimise` builds a calculator (`make_calculator`), runs
`maximise(calculator, x, bounds, …)` on it and, in a `finally`, takes the calculator's parameter
values back (`update_from_calculator`).  Here the objective handed to the C16 wrapper model is the
C07 calculator MODEL itself: the points at which `maximise` calls its objective are replayed, in
order, as `calculator(x)` calls on the two-buffer calculator (`runCalls`), starting from ANY
earlier calculator history.  C07 (`calculator_is_pure`) says every such call returns the value of a
calculation from scratch, so the wrapper sees a function; C16 (`maximise_never_worse`) then gives
the inequality; C07 again (`calls_last_correct`, `calls_consistent`) says what the calculator — and
hence the likelihood function, which recomputes from the calculator's vector — reports afterwards. -/
namespace CogentModel.C16
open CogentModel.Calc CogentModel.Optimiser CogentModel.C07

variable {V : Type} [Inhabited V] [DecidableEq V]

/-- the calculator as `maximise`'s objective: its value from scratch, a raise is
`ParameterOutOfBoundsError`/`ArithmeticError` (both are treated alike by every wrapper) -/
def calcRes (g : Calc.Graph V) (x : List V) : Res V :=
  match objective g x with
  | some v => .val v
  | none => .oob

theorem calcRes_val {g : Calc.Graph V} {x : List V} {v : V} (h : calcRes g x = .val v) :
    objective g x = some v := by
  unfold calcRes at h
  cases ho : objective g x with
  | none => rw [ho] at h; cases h
  | some w => rw [ho] at h; cases h; rfl

/-- **optimise_never_lowers_lnL**.  For every cell graph (any model, tree, data), every earlier
history `prior` of calculator calls, every start vector `xs` in bounds at which the function has a
finite value `lnL0` (= the log-likelihood before, computed from scratch), every evaluation limit
≥ 1 and EVERY behaviour `qs` of the optimiser(s): `maximise` reaches `get_best`, and when the points
it evaluated are issued as `calculator(x)` calls on the real two-buffer machinery, the calculator
ends at the reported best vector `xb`, every cell of its buffer — in particular the result the
likelihood function reports after `update_from_calculator` — is a fresh evaluation there, its value
is the reported `fb`, and `lnL0 ≤ fb`. -/
theorem optimise_never_lowers_lnL [LinearOrder V] (g : Calc.Graph V) (hwf : g.WF) (hpos : 0 < g.n)
    (x0 : Nat → V) (s0 : Calc.St V) (h0 : Calc.init g x0 = some s0) (prior : List (List V))
    (c : Cfg (List V) V) (hf : c.f = calcRes g) (hg : ∀ a b, c.gt a b = decide (b < a))
    (xs : List V) (lnL0 : V) (hstart : objective g xs = some lnL0) (hb : c.inB xs = true)
    (hfin : c.fin lnL0 = true) (hbot : c.negInf < lnL0) (hmax : c.maxEvals ≠ some 0)
    (qs : List (List V)) :
    ∃ fb xb n exc, (maximise c xs qs).final = .done fb xb n exc ∧
      (∀ j, j < g.nOpt →
        (runCalls g s0 (prior ++ (maximise c xs qs).st.calls.reverse)).lastValues j = xb.getD j default) ∧
      evalFresh g (runCalls g s0 (prior ++ (maximise c xs qs).st.calls.reverse)).lastValues
        = some (curValues g (runCalls g s0 (prior ++ (maximise c xs qs).st.calls.reverse))) ∧
      (evalFresh g (runCalls g s0 (prior ++ (maximise c xs qs).st.calls.reverse)).lastValues).map
        (fun l => l.getD (g.n - 1) default) = some fb ∧
      c.inB xb = true ∧ lnL0 ≤ fb := by
  have hfx : c.f xs = .val lnL0 := by rw [hf]; unfold calcRes; rw [hstart]
  obtain ⟨fb, xb, n, exc, hfin', hfxb, hle, _, hhead, _⟩ :=
    maximise_never_worse c hg xs lnL0 hfx hb hfin hbot hmax qs
  have hobj : objective g xb = some fb := calcRes_val (by rw [← hf]; exact hfxb)
  obtain ⟨rest, hcalls⟩ : ∃ rest, (maximise c xs qs).st.calls = xb :: rest := by
    cases hc : (maximise c xs qs).st.calls with
    | nil => rw [hc] at hhead; cases hhead
    | cons a l => rw [hc] at hhead; cases hhead; exact ⟨l, rfl⟩
  have hrev : prior ++ (maximise c xs qs).st.calls.reverse = (prior ++ rest.reverse) ++ [xb] := by
    rw [hcalls]; simp
  have hstep : runCalls g s0 ((prior ++ rest.reverse) ++ [xb])
      = (call g (runCalls g s0 (prior ++ rest.reverse)) xb).1 := by
    rw [runCalls_append]; rfl
  have hret : (call g (runCalls g s0 (prior ++ rest.reverse)) xb).2 = some fb := by
    rw [calculator_is_pure g hwf x0 s0 h0 hpos]; exact hobj
  obtain ⟨hl, hv⟩ := calls_last_correct g hwf x0 s0 h0 (prior ++ rest.reverse) hpos xb fb hret
  refine ⟨fb, xb, n, exc, hfin', ?_, ?_, ?_, (best_within_bounds c xs qs).2 fb xb n exc hfin', hle⟩
  · rw [hrev, hstep]; exact hl
  · exact calls_consistent g hwf x0 s0 h0 _
  · rw [hrev, hstep]; exact hv

/-- non-vacuity on the C07 example graph `exG` (5 cells, one recycled and raising): start (1,1) with
value 14; the "optimiser" tries (4,1), (4,2) (the calc raises), (2,5) and (3,0); the reported and
applied optimum is (2,5) with value 108 ≥ 14 -/
def exLinkCfg : Cfg (List Int) Int :=
  { f := calcRes exG, inB := fun x => x.all (fun v => decide (0 ≤ v ∧ v ≤ 9)),
    gt := fun a b => decide (b < a), fin := fun y => decide (-1000000 < y), negInf := -1000000, maxEvals := some 10 }

example : objective exG [1, 1] = some 14 ∧
    (maximise exLinkCfg [1, 1] [[4, 1], [4, 2], [2, 5], [3, 0]]).final = .done 108 [2, 5] 5 none ∧
    (maximise exLinkCfg [1, 1] [[4, 1], [4, 2], [2, 5], [3, 0]]).st.calls.reverse
      = [[1, 1], [4, 1], [4, 2], [2, 5], [3, 0], [2, 5]] := by decide

example : (Calc.init exG exX0).map (fun s0 =>
      lastVec exG (runCalls exG s0 ([[3, 3]] ++ [[1, 1], [4, 1], [4, 2], [2, 5], [3, 0], [2, 5]])))
    = some [2, 5] := by decide

end CogentModel.C16
