import CogentModel.Proofs.SeqConv
import CogentModel.Proofs.SeqCoords
import CogentModel.Proofs.SeqCoordsIndex
import CogentModel.Proofs.C01GenEq
/-! # C01 — string-level property theorems, part 2

Chains that also convert DNA <-> RNA, iteration / length corollaries, `parent_coordinates()` through
chains with an annotation offset, and the `SeqDataView` reading of the string
(models: `Model/SeqConv.lean`, `Model/SeqCoords.lean`). -/
namespace CogentModel.C01
open CogentModel.View

/-! complement / conversion tables used in the examples (the theorems hold for every table) -/
def dnaC (c : Char) : Char :=
  if c = 'A' then 'T' else if c = 'T' then 'A' else if c = 'C' then 'G' else if c = 'G' then 'C' else c
def rnaC (c : Char) : Char :=
  if c = 'A' then 'U' else if c = 'U' then 'A' else if c = 'C' then 'G' else if c = 'G' then 'C' else c
def toR (c : Char) : Char := if c = 't' then 'u' else if c = 'T' then 'U' else c
def toD (c : Char) : Char := if c = 'u' then 't' else if c = 'U' then 'T' else c

/-- **Chains of slice / index / rc / to_rna / to_dna of any depth on a nucleic-acid sequence read
exactly as the same chain on the plain string**, where a negative step and `rc` complement with the
current moltype's table and a conversion only maps the displayed characters through the conversion
table (T<->U). -/
theorem seq_conv_chain_spec (cd cr toR toD : Char → Char) (hd : ∀ x, cd (cd x) = x)
    (hr : ∀ x, cr (cr x) = x) (ops : List SeqConv.COp) (c c' : SeqConv.CSeq) (h : SeqConv.WFc c)
    (hops : ∀ op ∈ ops, SeqConv.COp.ok op) (hw : SeqConv.runOps cd cr toR toD c ops = .ok c') :
    SeqConv.specRun cd cr toR toD (c.rna, SeqConv.cstr cd cr c) ops = some (c'.rna, SeqConv.cstr cd cr c') ∧
    SeqConv.WFc c' :=
  (SeqConv.runOps_spec cd cr toR toD hd hr ops c h hops).1 c' hw

example : (SeqConv.runOps dnaC rnaC toR toD (SeqConv.ofString "ACGGTTA".toList false)
      [.rc, .toRna, .slice (some 5) none (some (-2)), .toDna, .toDna]).toOption.map
      (fun c => (c.rna, SeqConv.cstr dnaC rnaC c)) = some (false, "CGT".toList) ∧
    SeqConv.specRun dnaC rnaC toR toD (false, "ACGGTTA".toList)
      [.rc, .toRna, .slice (some 5) none (some (-2)), .toDna, .toDna] = some (false, "CGT".toList) := by
  decide

/-- such a chain raises exactly where Python's string indexing raises -/
theorem seq_conv_chain_error_spec (cd cr toR toD : Char → Char) (hd : ∀ x, cd (cd x) = x)
    (hr : ∀ x, cr (cr x) = x) (ops : List SeqConv.COp) (c : SeqConv.CSeq) (e : Err) (h : SeqConv.WFc c)
    (hops : ∀ op ∈ ops, SeqConv.COp.ok op) (hw : SeqConv.runOps cd cr toR toD c ops = .error e) :
    SeqConv.specRun cd cr toR toD (c.rna, SeqConv.cstr cd cr c) ops = none :=
  (SeqConv.runOps_spec cd cr toR toD hd hr ops c h hops).2 e hw

example : SeqConv.runOps dnaC rnaC toR toD (SeqConv.ofString "ACGGTTA".toList false) [.toRna, .rc, .index 7]
      = .error .indexError ∧
    SeqConv.specRun dnaC rnaC toR toD (false, "ACGGTTA".toList) [.toRna, .rc, .index 7] = none := by decide

/-- `__iter__` after any chain yields the characters of the plain-string chain -/
theorem iter_spec (cd cr toR toD : Char → Char) (hd : ∀ x, cd (cd x) = x)
    (hr : ∀ x, cr (cr x) = x) (ops : List SeqConv.COp) (c c' : SeqConv.CSeq) (h : SeqConv.WFc c)
    (hops : ∀ op ∈ ops, SeqConv.COp.ok op) (hw : SeqConv.runOps cd cr toR toD c ops = .ok c') :
    SeqConv.specRun cd cr toR toD (c.rna, SeqConv.iter cd cr c) ops = some (c'.rna, SeqConv.iter cd cr c') :=
  (seq_conv_chain_spec cd cr toR toD hd hr ops c c' h hops hw).1

example : SeqConv.iter dnaC rnaC (SeqConv.convert dnaC rnaC toR (SeqConv.ofString "ACGT".toList false) true)
    = "ACGU".toList := by decide

/-- `len(seq)` after any chain is the length of the plain-string chain's result -/
theorem len_spec (cd cr toR toD : Char → Char) (hd : ∀ x, cd (cd x) = x)
    (hr : ∀ x, cr (cr x) = x) (ops : List SeqConv.COp) (c c' : SeqConv.CSeq) (h : SeqConv.WFc c)
    (hops : ∀ op ∈ ops, SeqConv.COp.ok op) (hw : SeqConv.runOps cd cr toR toD c ops = .ok c') :
    ∃ u, SeqConv.specRun cd cr toR toD (c.rna, SeqConv.cstr cd cr c) ops = some (c'.rna, u) ∧
      SeqConv.length c' = (u.length : Int) := by
  obtain ⟨h1, h2⟩ := seq_conv_chain_spec cd cr toR toD hd hr ops c c' h hops hw
  exact ⟨_, h1, (SeqConv.cstr_length cd cr c' h2).symm⟩

example : (SeqConv.runOps dnaC rnaC toR toD (SeqConv.ofString "ACGGTTA".toList false)
      [.slice none none (some (-3)), .toRna]).toOption.map SeqConv.length = some 3 := by decide

/-- **The raw string of a view is the reported parent window `parent[ps:pe]` strided by the step.** -/
theorem value_parent_window (s : SeqWrap.Seq) (h : SeqWrap.WF s) :
    ∃ ps pe : Int, parentStart s.v = .ok (s.v.offset + ps) ∧ parentStop s.v = .ok (s.v.offset + pe) ∧
      0 ≤ ps ∧ ps ≤ pe ∧ pe ≤ s.parent.length ∧
      SeqWrap.value s = PySlice.slice (PySlice.slice s.parent (some ps) (some pe) 1) none none s.v.step :=
  SeqCoords.value_eq_window s h

example : SeqWrap.value { parent := "ACGGTAAC".toList, v := { start := -2, stop := -7, step := -2, offset := 5, seqLen := 8 }, nucleic := true }
    = PySlice.slice (PySlice.slice "ACGGTAAC".toList (some 2) (some 7) 1) none none (-2) := by decide

/-- **`parent_coordinates()` after any chain of slices / indexing / rc from a sequence with annotation
offset `o`**: as long as something is displayed, the seqid is unchanged, the coordinates are
`(o + ps, o + pe, strand)` with `0 ≤ ps ≤ pe ≤ len(parent)`, `annotation_offset = o + ps`, and reading
`parent[ps:pe]` (reverse-complemented when `strand = -1`) with stride `|step|` gives exactly `str(seq)`. -/
theorem parent_coordinates_chain (comp : Char → Char) (hcomp : ∀ x, comp (comp x) = x)
    (t : List Char) (nucleic : Bool) (o : Int) (sid : Option String) (ops : List SeqWrap.SOp)
    (s' : SeqCoords.ASeq) (hops : ∀ op ∈ ops, SeqWrap.SOp.ok nucleic op)
    (hs : SeqCoords.runOps (SeqCoords.ofString t nucleic o sid) ops = .ok s')
    (hne : SeqWrap.str comp s'.q ≠ []) :
    ∃ ps pe : Int,
      SeqCoords.parentCoordinates s' = .ok (sid, o + ps, o + pe, if s'.q.v.step < 0 then -1 else 1) ∧
      SeqCoords.annotationOffset s' = .ok (o + ps) ∧ 0 ≤ ps ∧ ps ≤ pe ∧ pe ≤ t.length ∧
      SeqWrap.str comp s'.q =
        SeqCoords.readSegment comp nucleic t ps pe (if s'.q.v.step < 0 then -1 else 1) (pyabs s'.q.v.step) :=
  SeqCoords.parent_coordinates_chain' comp hcomp t nucleic o sid ops s' hops hs hne

example : (SeqCoords.runOps (SeqCoords.ofString "ACGGTAAC".toList true 7 (some "chr1"))
      [.slice (some 1) none none, .rc, .slice none none (some 2)]).toOption.map
      (fun s => (SeqCoords.parentCoordinates s, SeqWrap.str dnaC s.q))
    = some (.ok (some "chr1", 7 + 1, 7 + 8, -1), "GTCG".toList) ∧
    SeqCoords.readSegment dnaC true "ACGGTAAC".toList 1 8 (-1) 2 = "GTCG".toList := by decide

/-- **`parent_coordinates()` of `seq[i]` after any chain** of slices / indexing / rc from
`make_seq(t, name=sid, annotation_offset=o)`, for EVERY python int `i`: when `str(seq)` has an `i`-th character `ch`
(negative `i` from the end), `seq[i]` succeeds, displays `[ch]`, and reports `(sid, o + x, o + x + 1, strand of seq)`
with `annotation_offset = o + x`, where `x` is a valid position of the ORIGINAL parent at which it holds `ch`
(complemented iff `seq` is a reversed nucleic acid); otherwise `seq[i]` raises `IndexError` and nothing else. -/
theorem parent_coordinates_index (comp : Char → Char) (hcomp : ∀ x, comp (comp x) = x)
    (t : List Char) (nucleic : Bool) (o : Int) (sid : Option String) (ops : List SeqWrap.SOp)
    (s' : SeqCoords.ASeq) (i : Int) (hops : ∀ op ∈ ops, SeqWrap.SOp.ok nucleic op)
    (hs : SeqCoords.runOps (SeqCoords.ofString t nucleic o sid) ops = .ok s') :
    (∀ ch, PySlice.index (SeqWrap.str comp s'.q) i = some ch →
      ∃ s'' x, SeqCoords.step1 s' (.index i) = .ok s'' ∧ SeqWrap.str comp s''.q = [ch] ∧
        SeqCoords.parentCoordinates s'' = .ok (sid, o + x, o + x + 1, if s'.q.v.step < 0 then -1 else 1) ∧
        SeqCoords.annotationOffset s'' = .ok (o + x) ∧ 0 ≤ x ∧ x < t.length ∧
        ch = (if s'.q.v.step < 0 ∧ nucleic then comp (t[x.toNat]!) else t[x.toNat]!)) ∧
    (PySlice.index (SeqWrap.str comp s'.q) i = none →
      SeqCoords.step1 s' (.index i) = .error .indexError) :=
  SeqCoords.parent_coordinates_index' comp hcomp t nucleic o sid ops s' i hops hs

-- offset 7, "ACGGTCATTG"[1:9][::3] = "CTT" (parent positions 1, 4, 7); [-1] -> `T` at 7 -> coordinates (14, 15, +)
example : (SeqCoords.runOps (SeqCoords.ofString "ACGGTCATTG".toList true 7 (some "chr1"))
      [.slice (some 1) (some 9) none, .slice none none (some 3), .index (-1)]).toOption.map
      (fun s => (SeqCoords.parentCoordinates s, SeqWrap.str dnaC s.q))
    = some (.ok (some "chr1", 7 + 7, 7 + 7 + 1, 1), "T".toList) := by decide
-- reversed strided: rc then [::3] = "CTCT" (parent positions 9, 6, 3, 0 complemented); [1] -> position 6, strand -1
example : (SeqCoords.runOps (SeqCoords.ofString "ACGGTCATTG".toList true 7 (some "chr1"))
      [.rc, .slice none none (some 3), .index 1]).toOption.map
      (fun s => (SeqCoords.parentCoordinates s, SeqWrap.str dnaC s.q))
    = some (.ok (some "chr1", 7 + 6, 7 + 6 + 1, -1), "T".toList) ∧
    (SeqCoords.runOps (SeqCoords.ofString "ACGGTCATTG".toList true 7 (some "chr1"))
      [.rc, .slice none none (some 3), .index 4]).toOption = none := by decide

/-- **A `SeqDataView` (sequence held by a new-style collection) with offset 0 reads the same string
as a `SeqView` with the same start/stop/step**, so every string-level theorem transfers. -/
theorem sdv_str_value_eq (data : List Char) (v : View) (h : Inv v) (hl : v.seqLen = data.length)
    (ho : v.offset = 0) :
    SeqCoords.sdvStrValue data v = .ok (PySlice.slice data (some v.start) (some v.stop) v.step) :=
  SeqCoords.sdv_str_value_eq data v h hl ho

example : SeqCoords.sdvStrValue "ACGTACGTAC".toList { start := -3, stop := -10, step := -2, offset := 0, seqLen := 10 }
    = .ok "TCTC".toList := by decide

/-- With a non-zero offset `SeqDataView.str_value` indexes the stored data with the offset-shifted
`parent_start/parent_stop`: it reads a shifted, truncated window (defect witness, see
`known_findings`). -/
theorem sdv_str_value_offset_counter :
    SeqCoords.sdvStrValue "ACGTACGTAC".toList { start := 0, stop := 10, step := 1, offset := 3, seqLen := 10 }
      = .ok "TACGTAC".toList ∧
    PySlice.slice "ACGTACGTAC".toList (some 0) (some 10) 1 = "ACGTACGTAC".toList :=
  SeqCoords.sdv_offset_counter

example : Inv { start := 0, stop := 10, step := 1, offset := 3, seqLen := 10 } := by decide

/-! ## translated Sequence-level getters

`Sequence.annotation_offset` and `Sequence.parent_coordinates` of BOTH sequence modules are translated from the current
python source on every run (`translator/py2lean_view.py`, conventions A4/A5: functions of the wrapped view, the seqid
string dropped).  They are the hand model's `SeqCoords.annotationOffset` / `SeqCoords.parentCoordinates` for all
arguments, and the full-strength integer-index theorem holds for the translated `__getitem__` + getters. -/
section translated_sequence_getters
open CogentModel.Gen.C01View

/-- the hand model's `parent_coordinates()` / `annotation_offset` are the translated ones of core/sequence.py
(applied to the wrapped view; the seqid the view carries put back in front, convention A5) -/
theorem gen_old_parentCoordinates (s : SeqCoords.ASeq) :
    SeqCoords.parentCoordinates s = (GenOld.parentCoordinates s.q.v).map (fun r => (s.seqid, r.1, r.2.1, r.2.2)) ∧
    SeqCoords.annotationOffset s = GenOld.annotationOffset s.q.v := by
  unfold SeqCoords.parentCoordinates SeqCoords.annotationOffset GenOld.parentCoordinates GenOld.annotationOffset
  rw [C01GenEq.Old.parentStart_eq, C01GenEq.Old.parentStop_eq]
  refine ⟨?_, rfl⟩
  cases parentStart s.q.v <;> cases parentStop s.q.v <;> rfl

/-- **integer index + translated getters**: for every view satisfying the invariant and every python int `i`, if the
displayed positions have an `i`-th element `x` then the translated `view[i]` succeeds and the translated
`parent_coordinates()` / `annotation_offset` of the result are `(offset + x, offset + x + 1, strand of the view)` /
`offset + x`; otherwise the translated `view[i]` raises `IndexError` -/
theorem gen_old_getitem_int_coords (v : View) (h : Inv v) (i : Int) :
    (∀ x, PySlice.index (elems v) i = some x →
      ∃ w, GenOld.getitemInt v i = .ok w ∧ elems w = [x] ∧
        GenOld.parentCoordinates w = .ok (v.offset + x, v.offset + x + 1, if v.step < 0 then -1 else 1) ∧
        GenOld.annotationOffset w = .ok (v.offset + x)) ∧
    (PySlice.index (elems v) i = none → GenOld.getitemInt v i = .error .indexError) := by
  rw [C01GenEq.Old.getitemInt_eq]
  obtain ⟨f1, f2⟩ := getitemInt_full v h i
  refine ⟨fun x hx => ?_, f2⟩
  obtain ⟨w, hg, _, hew, _, _, _, hst, hps, hpe, _, _⟩ := f1 x hx
  refine ⟨w, hg, hew, ?_, ?_⟩
  · unfold GenOld.parentCoordinates
    rw [C01GenEq.Old.parentStart_eq, C01GenEq.Old.parentStop_eq, hps, hpe, hst]
    by_cases hv : v.step < 0
    · simp [hv]
    · simp [hv]
  · unfold GenOld.annotationOffset
    rw [C01GenEq.Old.parentStart_eq, hps]

example : GenOld.parentCoordinates { start := -7, stop := -8, step := -1, offset := 5, seqLen := 10 } = .ok (5 + 3, 5 + 3 + 1, -1) ∧
    GenOld.annotationOffset { start := 6, stop := 7, step := 1, offset := 3, seqLen := 10 } = .ok (3 + 6) := by decide

/-- the hand model's `parent_coordinates()` / `annotation_offset` are the translated ones of core/new_sequence.py
(applied to the wrapped view; the seqid the view carries put back in front, convention A5) -/
theorem gen_new_parentCoordinates (s : SeqCoords.ASeq) :
    SeqCoords.parentCoordinates s = (GenNew.parentCoordinates s.q.v).map (fun r => (s.seqid, r.1, r.2.1, r.2.2)) ∧
    SeqCoords.annotationOffset s = GenNew.annotationOffset s.q.v := by
  unfold SeqCoords.parentCoordinates SeqCoords.annotationOffset GenNew.parentCoordinates GenNew.annotationOffset
  rw [C01GenEq.New.parentStart_eq, C01GenEq.New.parentStop_eq]
  refine ⟨?_, rfl⟩
  cases parentStart s.q.v <;> cases parentStop s.q.v <;> rfl

/-- **integer index + translated getters**: for every view satisfying the invariant and every python int `i`, if the
displayed positions have an `i`-th element `x` then the translated `view[i]` succeeds and the translated
`parent_coordinates()` / `annotation_offset` of the result are `(offset + x, offset + x + 1, strand of the view)` /
`offset + x`; otherwise the translated `view[i]` raises `IndexError` -/
theorem gen_new_getitem_int_coords (v : View) (h : Inv v) (i : Int) :
    (∀ x, PySlice.index (elems v) i = some x →
      ∃ w, GenNew.getitemInt v i = .ok w ∧ elems w = [x] ∧
        GenNew.parentCoordinates w = .ok (v.offset + x, v.offset + x + 1, if v.step < 0 then -1 else 1) ∧
        GenNew.annotationOffset w = .ok (v.offset + x)) ∧
    (PySlice.index (elems v) i = none → GenNew.getitemInt v i = .error .indexError) := by
  rw [C01GenEq.New.getitemInt_eq]
  obtain ⟨f1, f2⟩ := getitemInt_full v h i
  refine ⟨fun x hx => ?_, f2⟩
  obtain ⟨w, hg, _, hew, _, _, _, hst, hps, hpe, _, _⟩ := f1 x hx
  refine ⟨w, hg, hew, ?_, ?_⟩
  · unfold GenNew.parentCoordinates
    rw [C01GenEq.New.parentStart_eq, C01GenEq.New.parentStop_eq, hps, hpe, hst]
    by_cases hv : v.step < 0
    · simp [hv]
    · simp [hv]
  · unfold GenNew.annotationOffset
    rw [C01GenEq.New.parentStart_eq, hps]

example : GenNew.parentCoordinates { start := -7, stop := -8, step := -1, offset := 5, seqLen := 10 } = .ok (5 + 3, 5 + 3 + 1, -1) ∧
    GenNew.annotationOffset { start := 6, stop := 7, step := 1, offset := 3, seqLen := 10 } = .ok (3 + 6) := by decide

/-- the hand model's `parent_coordinates()` / `annotation_offset` are the translated ones of core/new_sequence.py `Sequence` over a new_alignment.py `SeqDataView`
(applied to the wrapped view; the seqid the view carries put back in front, convention A5) -/
theorem gen_data_parentCoordinates (s : SeqCoords.ASeq) :
    SeqCoords.parentCoordinates s = (GenData.parentCoordinates s.q.v).map (fun r => (s.seqid, r.1, r.2.1, r.2.2)) ∧
    SeqCoords.annotationOffset s = GenData.annotationOffset s.q.v := by
  unfold SeqCoords.parentCoordinates SeqCoords.annotationOffset GenData.parentCoordinates GenData.annotationOffset
  rw [C01GenEq.Data.parentStart_eq, C01GenEq.Data.parentStop_eq]
  refine ⟨?_, rfl⟩
  cases parentStart s.q.v <;> cases parentStop s.q.v <;> rfl

/-- **integer index + translated getters**: for every view satisfying the invariant and every python int `i`, if the
displayed positions have an `i`-th element `x` then the translated `view[i]` succeeds and the translated
`parent_coordinates()` / `annotation_offset` of the result are `(offset + x, offset + x + 1, strand of the view)` /
`offset + x`; otherwise the translated `view[i]` raises `IndexError` -/
theorem gen_data_getitem_int_coords (v : View) (h : Inv v) (i : Int) :
    (∀ x, PySlice.index (elems v) i = some x →
      ∃ w, GenData.getitemInt v i = .ok w ∧ elems w = [x] ∧
        GenData.parentCoordinates w = .ok (v.offset + x, v.offset + x + 1, if v.step < 0 then -1 else 1) ∧
        GenData.annotationOffset w = .ok (v.offset + x)) ∧
    (PySlice.index (elems v) i = none → GenData.getitemInt v i = .error .indexError) := by
  rw [C01GenEq.Data.getitemInt_eq]
  obtain ⟨f1, f2⟩ := getitemInt_full v h i
  refine ⟨fun x hx => ?_, f2⟩
  obtain ⟨w, hg, _, hew, _, _, _, hst, hps, hpe, _, _⟩ := f1 x hx
  refine ⟨w, hg, hew, ?_, ?_⟩
  · unfold GenData.parentCoordinates
    rw [C01GenEq.Data.parentStart_eq, C01GenEq.Data.parentStop_eq, hps, hpe, hst]
    by_cases hv : v.step < 0
    · simp [hv]
    · simp [hv]
  · unfold GenData.annotationOffset
    rw [C01GenEq.Data.parentStart_eq, hps]

example : GenData.parentCoordinates { start := -7, stop := -8, step := -1, offset := 5, seqLen := 10 } = .ok (5 + 3, 5 + 3 + 1, -1) ∧
    GenData.annotationOffset { start := 6, stop := 7, step := 1, offset := 3, seqLen := 10 } = .ok (3 + 6) := by decide

end translated_sequence_getters

end CogentModel.C01
