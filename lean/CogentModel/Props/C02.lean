import CogentModel.Model.Prune
import CogentModel.Proofs.Prune
/-! # C02 — the computed likelihood is the first-principles Felsenstein sum-product

`Model/Prune.lean` is the executable model (the same definitions the native driver runs over
`Rat` on the implementation's float64 inputs); the theorems hold over every commutative
semiring, for every rose tree (any arity), every leaf profile and every matrix family. -/
namespace CogentModel.C02
open CogentModel.Prune

/-- a two-state example used for the non-vacuity checks (over `ℕ`, a commutative semiring) -/
def exP : Mat Nat := fun i j => if i = j then 3 else 1
def exTree : PTree Nat Nat := .node exP [.leaf exP 0, .node exP [.leaf exP 1, .leaf exP 2, .leaf exP 0]]
def exProf : Nat → Nat → Nat := fun a s => if a = 2 then 1 else if a % 2 = s then 1 else 0
def exPi : Nat → Nat := fun s => s + 1

/-- **Pruning = definition.** For every tree (polytomies and unary nodes included), the
column likelihood computed by the pruning recursion equals the sum, over all assignments of a
state to every node, of `π(root state) · ∏_edges P_e[parent state, child state] · ∏_leaves profile`. -/
theorem prune_eq_bruteForce {R α : Type} [CommSemiring R] (m : Nat) (π : Nat → R)
    (prof : α → Nat → R) (t : PTree R α) :
    lh m π prof t = bruteForce (fun _ _ => true) m π prof t :=
  lh_eq_bruteForce_keep _ m π prof (by intro a s h; cases h) t

example : lh 2 exPi exProf exTree = 240 := by decide
example : bruteForce (fun _ _ => true) 2 exPi exProf exTree = 240 := by decide
example : (labelings (fun _ _ => true) 2 exTree).length = 2 ^ 6 := by decide

/-- The same with the enumeration restricted to leaf states the profile does not rule out
(what the driver evaluates: labelings of the internal nodes × compatible leaf states). -/
theorem prune_eq_bruteForce_support {R α : Type} [CommSemiring R] (keep : α → Nat → Bool) (m : Nat)
    (π : Nat → R) (prof : α → Nat → R) (hk : ∀ a s, keep a s = false → prof a s = 0) (t : PTree R α) :
    lh m π prof t = bruteForce keep m π prof t :=
  lh_eq_bruteForce_keep keep m π prof hk t

example : ∀ a s, (fun a s => decide (exProf a s ≠ 0)) a s = false → exProf a s = 0 := by
  intro a s h; simpa using h
example : (labelings (fun a s => decide (exProf a s ≠ 0)) 2 exTree).length = 8 := by decide

end CogentModel.C02
