import CogentModel.Model.Prune
import CogentModel.Proofs.Prune
import CogentModel.Proofs.PruneLinear
import CogentModel.Proofs.PruneCompress
import CogentModel.Proofs.PruneFullLength
import CogentModel.Proofs.PruneLabelings
import CogentModel.Proofs.PruneCompressedEq
/-! # C02 — the computed likelihood is the first-principles Felsenstein sum-product

`Model/Prune.lean` is the executable model (the same definitions the native driver runs over
`Rat` on the implementation's float64 inputs); the theorems hold over every commutative
semiring, for every rose tree (any arity), every leaf profile and every matrix family. -/
namespace CogentModel.C02
open CogentModel.Prune

/-- a two-state example used for the non-vacuity checks (over `ℕ`, a commutative semiring) -/
def exP : Mat Nat := fun i j => if i = j then 3 else 1
def exTree : PTree Nat Nat := .node exP [.leaf exP 0, .node exP [.leaf exP 1, .leaf exP 2, .leaf exP 0]]
def exProf : Nat → Nat → Nat := fun a s => if a = 2 then 1 else if a % 2 = s then 1 else 0
def exPi : Nat → Nat := fun s => s + 1

/-- **Pruning = definition.** For every tree (polytomies and unary nodes included), the
column likelihood computed by the pruning recursion equals the sum, over all assignments of a
state to every node, of `π(root state) · ∏_edges P_e[parent state, child state] · ∏_leaves profile`. -/
theorem prune_eq_bruteForce {R α : Type} [CommSemiring R] (m : Nat) (π : Nat → R)
    (prof : α → Nat → R) (t : PTree R α) :
    lh m π prof t = bruteForce (fun _ _ => true) m π prof t :=
  lh_eq_bruteForce_keep _ m π prof (by intro a s h; cases h) t

example : lh 2 exPi exProf exTree = 240 := by decide
example : bruteForce (fun _ _ => true) 2 exPi exProf exTree = 240 := by decide
example : (labelings (fun _ _ => true) 2 exTree).length = 2 ^ 6 := by decide

/-- **The definition really ranges over all labelings.** With nothing skipped, `labelings m t` contains
exactly the trees of the shape of `t` (same matrices, same leaf names) in which *every* node carries a
state `< m` … -/
theorem labelings_exact {R α : Type} (m : Nat) (t : PTree R α) (l : LTree R α) :
    l ∈ labelings (fun _ _ => true) m t ↔ (l.erase = t ∧ l.allStates (fun x => decide (x < m)) = true) :=
  mem_labelings m t l

/-- … and there are `m ^ (number of nodes)` of them. -/
theorem labelings_count {R α : Type} (m : Nat) (t : PTree R α) :
    (labelings (fun _ _ => true) m t).length = m ^ t.numNodes :=
  length_labelings m t

example : exTree.numNodes = 6 := by decide

/-- The same with the enumeration restricted to leaf states the profile does not rule out
(what the driver evaluates: labelings of the internal nodes × compatible leaf states). -/
theorem prune_eq_bruteForce_support {R α : Type} [CommSemiring R] (keep : α → Nat → Bool) (m : Nat)
    (π : Nat → R) (prof : α → Nat → R) (hk : ∀ a s, keep a s = false → prof a s = 0) (t : PTree R α) :
    lh m π prof t = bruteForce keep m π prof t :=
  lh_eq_bruteForce_keep keep m π prof hk t

example : ∀ a s, (fun a s => decide (exProf a s ≠ 0)) a s = false → exProf a s = 0 := by
  intro a s h; simpa using h
example : (labelings (fun a s => decide (exProf a s ≠ 0)) 2 exTree).length = 8 := by decide

/-- **Column compression.** The weighted sum over the unique columns produced by the modelled
`_indexed` (`∑_u counts[u] · g(uniq[u])`, what `get_log_sum_across_sites` computes with
`g = log ∘ lh`) equals the plain sum over all alignment columns, for *any* `g` into any additive
commutative monoid (so `log` needs no interpretation). -/
theorem compress_sum {κ S : Type} [DecidableEq κ] [AddCommMonoid S] (g : κ → S) (cols : List κ) :
    lnLCompressed g cols = lnLPlain g cols :=
  lnLCompressed_eq_plain g cols

example : (indexed [3, 1, 3, 3, 2, 1]).uniq = [3, 1, 2] ∧ (indexed [3, 1, 3, 3, 2, 1]).counts = [3, 2, 1]
    ∧ (indexed [3, 1, 3, 3, 2, 1]).index = [0, 1, 0, 0, 2, 1] := by decide
example : lnLCompressed (fun k : Nat => 10 * k) [3, 1, 3, 3, 2, 1] = 130 := by decide

/-- **Per-column values.** `likelihoods[self.index]` (get_full_length_likelihoods) gives every alignment
column the value computed for its own pattern. -/
theorem full_length_expand {κ S : Type} [DecidableEq κ] [Zero S] (g : κ → S) (cols : List κ) :
    fullLength g cols = cols.map g :=
  fullLength_eq g cols

example : fullLength (fun k : Nat => 10 * k) [3, 1, 3, 3, 2, 1] = [30, 10, 30, 30, 20, 10] := by decide

/-- **Hierarchical compression is sound.** `Model/PruneCompressed.lean` mirrors how the implementation
really evaluates: every node stores only its unique columns (a leaf its unique motifs, an internal node
the unique tuples of its children's unique-column numbers, `_indexed(zip(*child indexes))`), `inner`
with the edge matrix is applied to whole child tables and products are taken through the index arrays.
For an alignment of `n` columns (every leaf sequence of length `n`) the full-length likelihoods it
returns are, column by column, the plain per-column pruning values. -/
theorem compressed_prune_eq {R α : Type} [CommSemiring R] (m n : Nat) (π : Nat → R) (seqs : α → List Nat)
    (symProf : Nat → Nat → R) (t : PTree R α) (hl : ∀ a ∈ t.leaves, (seqs a).length = n) :
    clhFull m n π seqs symProf t = (List.range n).map fun j => lh m π (colProf seqs symProf j) t :=
  clhFull_eq m n π seqs symProf t hl

example : clhFull 2 4 exPi (fun a => if a = 0 then [0, 1, 0, 0] else [1, 1, 1, 0]) (fun sym s => if sym = s then 1 else 0) exTree
    = [114, 522, 114, 306] := by decide
example : (cplh 2 4 (fun a => if a = 0 then [0, 1, 0, 0] else [1, 1, 1, 0]) (fun sym s => if sym = s then (1 : Nat) else 0) exTree).index
    = [0, 1, 0, 2] := by decide

/-- **Ambiguity is a set sum.** If the symbol of leaf `a` (a tip that occurs once in the tree) is
degenerate with compatible state set `K` (profile = indicator of `K`: IUPAC codes, `?`, recoded
gaps), the column likelihood is the sum over `k ∈ K` of the likelihoods of the columns in which the
leaf shows the unambiguous state `k`. -/
theorem ambiguity_is_set_sum {R α : Type} [CommSemiring R] [DecidableEq α] (m : Nat) (π : Nat → R)
    (prof : α → Nat → R) (a : α) (K : Finset Nat) (t : PTree R α) (h : t.leaves.count a = 1) :
    lh m π (Function.update prof a (fun s => if s ∈ K then 1 else 0)) t
      = ∑ k ∈ K, lh m π (Function.update prof a (indicator k)) t := by
  rw [← lh_linear m π prof a K (fun k => indicator k) t h]
  congr 2
  funext s
  simp [indicator, Finset.sum_ite_eq]

example : exTree.leaves.count 1 = 1 := by decide

/-- **Likelihoods of all columns sum to one.** If every edge matrix is row-stochastic on the `m`
states and the root probabilities sum to one, then summing the column likelihood over *every*
assignment of a state to each leaf (all `m^k` columns; leaves named distinctly) gives exactly 1.
(`sumAllColumns` is the `k`-fold nested sum; `prof0` — the profile of names that are not leaves — is irrelevant.) -/
theorem column_probs_sum_one {R α : Type} [CommSemiring R] [DecidableEq α] (m : Nat) (π : Nat → R)
    (t : PTree R α) (hnd : t.leaves.Nodup) (hP : ∀ P ∈ t.edgeMats, RowStochastic m P)
    (hπ : ∑ s ∈ Finset.range m, π s = 1) (prof0 : α → Nat → R) :
    sumAllColumns m (fun p => lh m π p t) t.leaves prof0 = 1 := by
  rw [sumAllColumns_lh m π t t.leaves hnd (fun a ha => List.count_eq_one_of_mem hnd ha)]
  exact lh_ones m π _ t hP (fun a ha => by simp [ha]) hπ

/-- a doubly stochastic example over `ℚ≥0`-free arithmetic: `ℕ`-valued matrices cannot be stochastic
unless they are permutations, so the example uses the swap matrix -/
def exSwap : Mat Nat := fun i j => if i + j = 1 then 1 else 0
def exTree2 : PTree Nat Nat := .node exSwap [.leaf exSwap 0, .node exSwap [.leaf exSwap 1, .leaf exSwap 2]]
example : exTree2.leaves.Nodup := by decide
example : ∀ P ∈ exTree2.edgeMats, RowStochastic 2 P := by
  intro P hP
  have hP' : P = exSwap := by
    simpa [exTree2, PTree.edgeMats, PTree.edgeMatsL, PTree.mat] using hP
  subst hP'
  intro i hi
  match i, hi with
  | 0, _ => simp [exSwap]
  | 1, _ => simp [exSwap]
example : sumAllColumns 2 (fun p => lh 2 (fun s => if s = 0 then 1 else 0) p exTree2) exTree2.leaves (fun _ _ => 0) = 1 := by
  decide

/-- **Bin mixture.** With more than one rate bin the modelled column likelihood
(`BinnedSiteDistribution.get_weighted_sum_lh`) is the `bprobs`-weighted sum of the per-bin
first-principles likelihoods (each bin has its own edge matrices and root distribution). -/
theorem bins_mixture {R α : Type} [CommSemiring R] (m : Nat) (bprobs : List R)
    (bins : List ((Nat → R) × PTree R α)) (prof : α → Nat → R) :
    lhBins m bprobs bins prof
      = ((List.zip bprobs bins).map fun p => p.1 * bruteForce (fun _ _ => true) m p.2.1 prof p.2.2).sum := by
  rw [lhBins, weightedSum_eq, List.zip_map_right, List.map_map]
  congr 1
  refine List.map_congr_left fun p _ => ?_
  simp [Prod.map, prune_eq_bruteForce]

/-- with a single bin no mixture is applied (the branch `len(bin_names) > 1` of the implementation) -/
theorem lhColumn_single {R α : Type} [CommSemiring R] (m : Nat) (bprobs : List R) (π : Nat → R)
    (t : PTree R α) (prof : α → Nat → R) :
    lhColumn m bprobs [(π, t)] prof = bruteForce (fun _ _ => true) m π prof t := by
  rw [← prune_eq_bruteForce]; rfl

example : lhBins 2 [1, 2] [(exPi, exTree), (exPi, exTree2)] exProf = 240 + 2 * lh 2 exPi exProf exTree2 := by decide

/-! ## Composite statements (added by the audit): the pieces above chained into the sentence of the property -/

/-- **Reported log-likelihood = defining sum (one bin).** What the implementation reports — compress the
columns with `_indexed`, evaluate the pruning recursion on the unique columns, weight `log` of each by its
count — equals the sum over *all* alignment columns of `log` of the sum over all labelings, for every
function `logf` (so nothing about `log` is assumed). -/
theorem lnL_eq_definition {R α κ S : Type} [CommSemiring R] [DecidableEq κ] [AddCommMonoid S]
    (logf : R → S) (m : Nat) (π : Nat → R) (prof : κ → α → Nat → R) (t : PTree R α) (cols : List κ) :
    lnLCompressed (fun c => logf (lh m π (prof c) t)) cols
      = (cols.map fun c => logf (bruteForce (fun _ _ => true) m π (prof c) t)).sum := by
  rw [compress_sum]
  simp only [lnLPlain, prune_eq_bruteForce]

/-- the same with rate bins: the column likelihood inside `log` is the `bprobs`-weighted mixture -/
theorem lnL_bins_eq_definition {R α κ S : Type} [CommSemiring R] [DecidableEq κ] [AddCommMonoid S]
    (logf : R → S) (m : Nat) (bprobs : List R) (bins : List ((Nat → R) × PTree R α))
    (prof : κ → α → Nat → R) (cols : List κ) :
    lnLCompressed (fun c => logf (lhBins m bprobs bins (prof c))) cols
      = (cols.map fun c => logf
          ((List.zip bprobs bins).map fun p => p.1 * bruteForce (fun _ _ => true) m p.2.1 (prof c) p.2.2).sum).sum := by
  rw [compress_sum]
  simp only [lnLPlain, bins_mixture]

/-- non-trivial instance: three columns (one repeated) over `exTree`; `logf = (· + 1)` stands in for `log` -/
example : lnLCompressed (fun c : Nat => (lh 2 exPi (fun a s => exProf (a + c) s) exTree) + 1) [0, 1, 0]
    = (bruteForce (fun _ _ => true) 2 exPi (fun a s => exProf a s) exTree + 1)
      + (bruteForce (fun _ _ => true) 2 exPi (fun a s => exProf (a + 1) s) exTree + 1)
      + (bruteForce (fun _ _ => true) 2 exPi (fun a s => exProf a s) exTree + 1) := by decide

/-- **The hierarchically compressed evaluation returns the defining sums**, column by column
(`compressed_prune_eq` chained with `prune_eq_bruteForce`). -/
theorem compressed_eq_definition {R α : Type} [CommSemiring R] (m n : Nat) (π : Nat → R) (seqs : α → List Nat)
    (symProf : Nat → Nat → R) (t : PTree R α) (hl : ∀ a ∈ t.leaves, (seqs a).length = n) :
    clhFull m n π seqs symProf t
      = (List.range n).map fun j => bruteForce (fun _ _ => true) m π (colProf seqs symProf j) t := by
  rw [compressed_prune_eq m n π seqs symProf t hl]
  simp only [prune_eq_bruteForce]

example : ∀ a ∈ exTree.leaves, ((fun a => if a = 0 then [0, 1, 0, 0] else [1, 1, 1, 0]) a).length = 4 := by decide
example : bruteForce (fun _ _ => true) 2 exPi
    (colProf (fun a => if a = 0 then [0, 1, 0, 0] else [1, 1, 1, 0]) (fun sym s => if sym = s then 1 else 0) 1) exTree = 522 := by
  decide


end CogentModel.C02
