import Mathlib.Analysis.Normed.Algebra.MatrixExponential
import CogentModel.Proofs.C05RealLemmas
import Mathlib.Tactic.Linarith
import Mathlib.Tactic.Ring
import Mathlib.Tactic.NormNum
import Mathlib.Tactic.FinCases
/-!
# C05 — the *true* matrix exponential over ℝ

`P Q t = exp (t • Q)` with Mathlib's `NormedSpace.exp` on `Matrix n n ℝ` (any finite index type `n`).
These are the statements the float back-ends (eigen / Padé / Taylor) approximate; the rational
exponentiators themselves are covered in `Props/C05.lean`.
-/
namespace CogentModel.C05Real
open Matrix NormedSpace

variable {n : Type*} [Fintype n] [DecidableEq n]
attribute [local instance] Matrix.linftyOpNormedRing Matrix.linftyOpNormedAlgebra

/-- the transition matrix of the process with generator `Q` at length `t` -/
noncomputable def P (Q : Matrix n n ℝ) (t : ℝ) : Matrix n n ℝ := exp (t • Q)

theorem P_zero (Q : Matrix n n ℝ) : P Q 0 = 1 := by
  unfold P; rw [zero_smul, exp_zero]

theorem P_add (Q : Matrix n n ℝ) (s t : ℝ) : P Q (s + t) = P Q s * P Q t := by
  unfold P
  rw [add_smul]
  exact Matrix.exp_add_of_commute _ _ ((Commute.refl Q).smul_left s |>.smul_right t)

/-- `Q·1 = 0 ⇒ P(t)·1 = 1` : every transition matrix has unit row sums -/
theorem P_rowsum_one (Q : Matrix n n ℝ) (t : ℝ) (hQ : ∀ i, ∑ j, Q i j = 0) (i : n) : ∑ j, P Q t i j = 1 := by
  let J : Matrix n n ℝ := Matrix.of fun _ _ => 1
  have hQJ : (t • Q) * J = 0 := by
    ext a b
    simp [J, Matrix.mul_apply, ← Finset.mul_sum, hQ a]
  have hs : SemiconjBy J 0 (t • Q) := by unfold SemiconjBy; rw [hQJ, mul_zero]
  have h := hs.exp_right
  unfold SemiconjBy at h
  rw [exp_zero, mul_one] at h
  have := congrFun (congrFun h i) i
  simp only [J, Matrix.mul_apply, Matrix.of_apply, mul_one] at this
  exact this.symm

/-- `π Q = 0 ⇒ π P(t) = π` : stationary motif probabilities stay stationary for every length -/
theorem P_stationary (Q : Matrix n n ℝ) (t : ℝ) (pi : n → ℝ) (hpi : ∀ j, ∑ i, pi i * Q i j = 0) (j : n) :
    ∑ i, pi i * P Q t i j = pi j := by
  let Pi : Matrix n n ℝ := Matrix.of fun _ k => pi k
  have hPQ : Pi * (t • Q) = 0 := by
    ext a b
    simp only [Pi, Matrix.mul_apply, Matrix.of_apply, Matrix.smul_apply, smul_eq_mul, Matrix.zero_apply]
    rw [Finset.sum_congr rfl fun k _ => by rw [mul_left_comm], ← Finset.mul_sum, hpi b, mul_zero]
  have hs : SemiconjBy Pi (t • Q) 0 := by unfold SemiconjBy; rw [hPQ, zero_mul]
  have h := hs.exp_right
  unfold SemiconjBy at h
  rw [exp_zero, one_mul] at h
  have := congrFun (congrFun h j) j
  simp only [Pi, Matrix.mul_apply, Matrix.of_apply] at this
  exact this

/-- detailed balance is inherited by every transition matrix: `π_i Q_ij = π_j Q_ji ⇒ π_i P_ij = π_j P_ji` -/
theorem P_detailed_balance (Q : Matrix n n ℝ) (t : ℝ) (pi : n → ℝ) (hdb : ∀ i j, pi i * Q i j = pi j * Q j i)
    (i j : n) : pi i * P Q t i j = pi j * P Q t j i := by
  have hDQ : Matrix.diagonal pi * (t • Q) = (t • Q)ᵀ * Matrix.diagonal pi := by
    ext a b
    simp only [Matrix.diagonal_mul, Matrix.mul_diagonal, Matrix.smul_apply, smul_eq_mul, Matrix.transpose_apply]
    rw [mul_left_comm, hdb a b]; ring
  have hs : SemiconjBy (Matrix.diagonal pi) (t • Q) (t • Q)ᵀ := hDQ
  have h := hs.exp_right
  unfold SemiconjBy at h
  have ht : exp (t • Q)ᵀ = (exp (t • Q))ᵀ := Matrix.exp_transpose _
  have h2 : Matrix.diagonal pi * exp (t • Q) = (exp (t • Q))ᵀ * Matrix.diagonal pi := by rw [← ht]; exact h
  have := congrFun (congrFun h2 i) j
  simp only [Matrix.diagonal_mul, Matrix.mul_diagonal, Matrix.transpose_apply] at this
  unfold P
  rw [this]; ring

/-- a concrete two-state generator used to show the hypotheses are satisfiable -/
noncomputable def Qex : Matrix (Fin 2) (Fin 2) ℝ := !![-1, 1; 2, -2]
noncomputable def piex : Fin 2 → ℝ := ![2/3, 1/3]

example : ∀ i, ∑ j, Qex i j = 0 := by
  intro i; fin_cases i <;> simp [Qex, Fin.sum_univ_two]
example : ∀ j, ∑ i, piex i * Qex i j = 0 := by
  intro j; fin_cases j <;> simp [Qex, piex, Fin.sum_univ_two] <;> norm_num
example : ∀ i j, piex i * Qex i j = piex j * Qex j i := by
  intro i j; fin_cases i <;> fin_cases j <;> simp [Qex, piex] <;> norm_num

/-- Entrywise non-negativity of every transition matrix of a generator with non-negative off-diagonal
entries (a Metzler matrix): together with `P_rowsum_one`, `P Q t` is row-stochastic for `t ≥ 0`. -/
theorem P_nonneg (Q : Matrix n n ℝ) (t : ℝ) (ht : 0 ≤ t) (hQ : ∀ i j, i ≠ j → 0 ≤ Q i j) (i j : n) :
    0 ≤ P Q t i j := by
  -- shift by c = ∑ |Q_ii| so that t • (Q + c • 1) is entrywise non-negative
  let c : ℝ := ∑ k, |Q k k|
  have hc : ∀ k, -Q k k ≤ c := fun k =>
    le_trans (neg_le_abs (Q k k)) (Finset.single_le_sum (f := fun k => |Q k k|) (fun _ _ => abs_nonneg _) (Finset.mem_univ k))
  let A : Matrix n n ℝ := t • (Q + c • (1 : Matrix n n ℝ))
  have hA : ∀ a b, 0 ≤ A a b := by
    intro a b
    simp only [A, Matrix.smul_apply, Matrix.add_apply, smul_eq_mul, Matrix.one_apply]
    apply mul_nonneg ht
    by_cases hab : a = b
    · subst hab; rw [if_pos rfl, mul_one]; linarith [hc a]
    · rw [if_neg hab, mul_zero, add_zero]; exact hQ a b hab
  have hsplit : t • Q = A + algebraMap ℝ (Matrix n n ℝ) (-(t * c)) := by
    ext a b
    simp only [A, Matrix.smul_apply, Matrix.add_apply, smul_eq_mul, Matrix.one_apply, Matrix.algebraMap_matrix_apply,
      Algebra.algebraMap_self, RingHom.id_apply]
    by_cases hab : a = b
    · subst hab; simp; ring
    · simp [hab]
  have hcomm : Commute A (algebraMap ℝ (Matrix n n ℝ) (-(t * c))) := (Algebra.commutes _ _).symm
  have e1 : exp (A + algebraMap ℝ (Matrix n n ℝ) (-(t * c))) = exp A * exp (algebraMap ℝ (Matrix n n ℝ) (-(t * c))) :=
    Matrix.exp_add_of_commute _ _ hcomm
  have e2 : exp (algebraMap ℝ (Matrix n n ℝ) (-(t * c))) = algebraMap ℝ (Matrix n n ℝ) (exp (-(t * c))) :=
    (algebraMap_exp_comm (-(t * c))).symm
  have key : P Q t = exp A * algebraMap ℝ (Matrix n n ℝ) (exp (-(t * c))) := by
    unfold P
    rw [hsplit]
    exact e1.trans (congrArg (fun z => exp A * z) e2)
  rw [key, Matrix.mul_apply]
  apply Finset.sum_nonneg
  intro k _
  apply mul_nonneg (exp_entry_nonneg A hA i k)
  rw [Matrix.algebraMap_matrix_apply]
  split
  · rw [Algebra.algebraMap_self, RingHom.id_apply]
    have h2 : exp (-(t * c)) = exp (-(t * c) / 2) * exp (-(t * c) / 2) := by
      rw [← NormedSpace.exp_add]; congr 1; ring
    rw [h2]; exact mul_self_nonneg _
  · exact le_refl _

example : ∀ i j, i ≠ j → 0 ≤ Qex i j := by
  intro i j h; fin_cases i <;> fin_cases j <;> simp [Qex] at h ⊢

end CogentModel.C05Real
