import CogentModel.Model.UPGMA
import CogentModel.Proofs.UPGMALemmas
import CogentModel.Proofs.UPGMAFull
/-! # C15 — property theorems, part 3: UPGMA -/
namespace CogentModel.C15
open CogentModel.UPGMA
open CogentModel.NJ (Mat get tab)

/-- Key lemma: in a symmetric matrix satisfying the three-point (ultrametric) condition on the live set `S`,
a globally minimal pair `(i, j)` has identical rows: `d i k = d j k` for every other live `k`.  Hence the
row average taken by `condense_matrix` is exact. -/
theorem upgma_min_pair_rows_equal (S : Nat → Prop) (d : Nat → Nat → Rat) (i j : Nat)
    (hsym : ∀ a b, S a → S b → d a b = d b a) (hu : Ultra S d) (hi : S i) (hj : S j) (hij : i ≠ j)
    (hmin : ∀ a b, S a → S b → a ≠ b → d i j ≤ d a b) (k : Nat) (hk : S k) (hki : k ≠ i) (hkj : k ≠ j) :
    d i k = d j k :=
  min_pair_rows_equal S d i j hsym hu hi hj hij hmin k hk hki hkj

example : Ultra (fun a => a < 3) (fun a b => if a = b then 0 else if a + b = 1 then 2 else 6) := by
  intro x y z hx hy hz hxy hyz hxz
  have : x = 0 ∨ x = 1 ∨ x = 2 := by omega
  have : y = 0 ∨ y = 1 ∨ y = 2 := by omega
  have : z = 0 ∨ z = 1 ∨ z = 2 := by omega
  rcases ‹x = 0 ∨ _› with rfl | rfl | rfl <;> rcases ‹y = 0 ∨ _› with rfl | rfl | rfl <;>
    rcases ‹z = 0 ∨ _› with rfl | rfl | rfl <;> first | omega | decide +kernel

/-- One-step reduction, on the model of `condense_node_order` + `condense_matrix`: if the state realises `D`
(`UInv`: live part of the matrix symmetric and ultrametric, every live node an equal-depth subtree realising
`D` with non-negative branch lengths, different live nodes at matrix distance) and `(i, j)` is a live pair
of globally minimal distance, then the state after merging `i` and `j` realises `D` again — in
particular the reduced matrix is again ultrametric and the new node's branch lengths are non-negative. -/
theorem upgma_reduced_ultrametric (D : Nat → Nat → Rat) (n : Nat) (big : Rat) (m : Mat) (order : List (Option Entry))
    (i j : Nat) (hI : UInv D n m order) (hi : Live order i) (hj : Live order j) (hij : i ≠ j)
    (hmin : ∀ a b, Live order a → Live order b → a ≠ b → get m i j ≤ get m a b) :
    UInv D n (stepWith n big order m (i, j)).m (stepWith n big order m (i, j)).order :=
  stepWith_inv D n big m order i j hI hi hj hij hmin

/-- UPGMA realises every ultrametric, provided each pass selects a live minimal pair (`GoodSel`, see the full
statement below).  `D` symmetric, non-negative, three-point condition on the labels `0..n-1`, `n ≥ 2`:
`upgma` returns a tree whose path distances between tips equal `D` (`UReal`), whose branch lengths are all
non-negative and whose tips are all at the same depth. -/
theorem upgma_realises_ultrametric_partial (D : Nat → Nat → Rat) (n : Nat) (hn : 2 ≤ n) (big : Rat)
    (hDs : ∀ a b, D a b = D b a) (hDn : ∀ a b, 0 ≤ D a b)
    (hDu : ∀ x y z, x < n → y < n → z < n → x ≠ y → y ≠ z → x ≠ z → D x z ≤ max (D x y) (D y z))
    (hg : ∀ t, t < n - 1 → GoodSel n big (iter n big t (init n (tab n D) big))) :
    ∃ t h, upgma n (tab n D) big = some t ∧ UReal D t ∧ NonNeg t ∧ ∀ p ∈ t.depths, p.2 = h := by
  have hI0 := init_inv D n big hDs hDn hDu
  obtain ⟨k, hk⟩ : ∃ k, n - 1 = k + 1 := ⟨n - 2, by omega⟩
  rw [upgma_eq, hk]
  rw [hk] at hg
  obtain ⟨a, e, he1, he2⟩ := iter_tree D n big k _ hI0 hg
  obtain ⟨hd, hr, hnn, _⟩ := (iter_inv D n big (k + 1) _ hI0 hg).node a e he2
  exact ⟨e.tree, e.height, by rw [he1]; rfl, hr, hnn, hd⟩

/-- ultrametric ((0:1,1:1):2,2:3) -/
def exU : Mat := [[0, 2, 6], [2, 0, 6], [6, 6, 0]]

/-- Per-instance certificate: `upgmaCertified n d big` is a computable check (at each of the `n-1` passes the
pair found by `find_smallest_index` is a pair of distinct live clusters at minimal live distance) evaluated by
the driver on every test matrix; whenever it is `true` the model of `upgma` returns an equal-depth tree with
non-negative branch lengths whose path distances are `D`. -/
theorem upgma_realises_ultrametric_checked (D : Nat → Nat → Rat) (n : Nat) (hn : 2 ≤ n) (big : Rat)
    (hDs : ∀ a b, D a b = D b a) (hDn : ∀ a b, 0 ≤ D a b)
    (hDu : ∀ x y z, x < n → y < n → z < n → x ≠ y → y ≠ z → x ≠ z → D x z ≤ max (D x y) (D y z))
    (hc : upgmaCertified n (tab n D) big = true) :
    ∃ t h, upgma n (tab n D) big = some t ∧ UReal D t ∧ NonNeg t ∧ ∀ p ∈ t.depths, p.2 = h :=
  upgma_realises_ultrametric_partial D n hn big hDs hDn hDu
    (allGood_sound D n big (n - 1) _ (init_inv D n big hDs hDn hDu) hc)

example : upgmaCertified 3 exU 1000000 = true := by decide +kernel

example : upgma 3 exU 1000000 = some (.node (.node (.tip 0) 1 (.tip 1) 1) 2 (.tip 2) 3) := by decide +kernel
example : select 3 1000000 (init 3 exU 1000000).m = ((init 3 exU 1000000).m, (0, 1)) := by decide +kernel

/-! ### the full statement: no hypothesis on the selection, tips = labels

Nothing of the UPGMA part of C15 is left unproved: `upgma_selects_live_minimum` discharges the hypothesis `hg`
of `upgma_realises_ultrametric_partial` (the only side condition is the sentinel bound `D a b < big` for
`a ≠ b`, which the Python states as "large_number ... should be much larger than any value already in the
matrix"; no quantitative `2^n` margin is needed because a diagonal minimum triggers the diagonal reset that
the model mirrors), and `upgma_realises_ultrametric` adds "the tips are exactly the labels". -/

/-- the ultrametric ((0:1,1:1):2,2:3) as a function; `tab 3 exD = exU` -/
def exD (a b : Nat) : Rat := if a = b then 0 else if a + b = 1 then 2 else 6

example : tab 3 exD = exU := by decide +kernel

theorem exD_sym : ∀ a b, exD a b = exD b a := by
  intro a b
  unfold exD
  rw [Nat.add_comm b a]
  by_cases h : a = b
  · subst h; rfl
  · rw [if_neg h, if_neg (Ne.symm h)]

theorem exD_nonneg : ∀ a b, 0 ≤ exD a b := by
  intro a b
  unfold exD
  split
  · decide +kernel
  · split <;> decide +kernel

theorem exD_ultra : ∀ x y z, x < 3 → y < 3 → z < 3 → x ≠ y → y ≠ z → x ≠ z → exD x z ≤ max (exD x y) (exD y z) := by
  intro x y z hx hy hz hxy hyz hxz
  have : x = 0 ∨ x = 1 ∨ x = 2 := by omega
  have : y = 0 ∨ y = 1 ∨ y = 2 := by omega
  have : z = 0 ∨ z = 1 ∨ z = 2 := by omega
  rcases ‹x = 0 ∨ _› with rfl | rfl | rfl <;> rcases ‹y = 0 ∨ _› with rfl | rfl | rfl <;>
    rcases ‹z = 0 ∨ _› with rfl | rfl | rfl <;> first | omega | decide +kernel

theorem exD_big : ∀ a b, a < 3 → b < 3 → a ≠ b → exD a b < 1000000 := by
  intro a b _ _ hab
  unfold exD
  rw [if_neg hab]
  split <;> decide +kernel

/-- Selection correctness of `find_smallest_index` inside `UPGMA_cluster`, for every reached state: if all
off-diagonal input distances are below the sentinel `big` (cogent3: `BIG_NUM = 1e305`), then at each of the
`n - 1` passes the pair selected (first minimum of the flattened array; if that lies on the diagonal, the
diagonal is reset to `big` and the search repeated) is a pair of distinct live clusters whose distance is
minimal among all pairs of distinct live clusters.  No metric assumption on `D` is needed for this part:
rows/columns of merged-away clusters hold exactly `big`, distances between live clusters stay below `big`
(averages of such), and `n - t ≥ 2` clusters are live at pass `t`. -/
theorem upgma_selects_live_minimum (D : Nat → Nat → Rat) (n : Nat) (big : Rat)
    (hbig : ∀ a b, a < n → b < n → a ≠ b → D a b < big) (t : Nat) (ht : t < n - 1) :
    GoodSel n big (iter n big t (init n (tab n D) big)) :=
  iter_goodSel D n big hbig t ht

example : ∀ t, t < 3 - 1 → GoodSel 3 1000000 (iter 3 1000000 t (init 3 (tab 3 exD) 1000000)) :=
  fun t ht => upgma_selects_live_minimum exD 3 1000000 exD_big t ht

/-- **UPGMA realises every ultrametric.**  `D` symmetric, non-negative, three-point condition on the labels
`0..n-1`, `n ≥ 2`, and every off-diagonal input distance below the sentinel `big` (cogent3 uses
`BIG_NUM = 1e305`, so this holds for any realistic input): the model of `upgma` returns a tree `t` whose
path distances between tips equal `D` (`UReal`), whose branch lengths are all non-negative, whose tips are all
at the same depth `h`, and whose tips are exactly the labels `0..n-1`, each once. -/
theorem upgma_realises_ultrametric (D : Nat → Nat → Rat) (n : Nat) (hn : 2 ≤ n) (big : Rat)
    (hDs : ∀ a b, D a b = D b a) (hDn : ∀ a b, 0 ≤ D a b)
    (hDu : ∀ x y z, x < n → y < n → z < n → x ≠ y → y ≠ z → x ≠ z → D x z ≤ max (D x y) (D y z))
    (hbig : ∀ a b, a < n → b < n → a ≠ b → D a b < big) :
    ∃ t h, upgma n (tab n D) big = some t ∧ UReal D t ∧ NonNeg t ∧ (∀ p ∈ t.depths, p.2 = h) ∧
      (t.depths.map (·.1)).Perm (List.range n) := by
  have hI0 := init_inv D n big hDs hDn hDu
  have hg : ∀ t, t < n - 1 → GoodSel n big (iter n big t (init n (tab n D) big)) :=
    fun t ht => upgma_selects_live_minimum D n big hbig t ht
  have hL := iter_linv D n big hbig (n - 1) (by omega)
  obtain ⟨k, hk⟩ : ∃ k, n - 1 = k + 1 := ⟨n - 2, by omega⟩
  rw [upgma_eq]
  rw [hk] at hg hL ⊢
  obtain ⟨a, e, he1, he2⟩ := iter_tree D n big k _ hI0 hg
  obtain ⟨hd, hr, hnn, _⟩ := (iter_inv D n big (k + 1) _ hI0 hg).node a e he2
  have hc : liveCount n (iter n big (k + 1) (init n (tab n D) big)).order = 1 := by
    have := hL.count; omega
  exact ⟨e.tree, e.height, by rw [he1]; rfl, hr, hnn, hd, tips_of_last n _ a e hL.sinv.len hc hL.tinv he2⟩

example : ∃ t h, upgma 3 (tab 3 exD) 1000000 = some t ∧ UReal exD t ∧ NonNeg t ∧ (∀ p ∈ t.depths, p.2 = h) ∧
    (t.depths.map (·.1)).Perm (List.range 3) :=
  upgma_realises_ultrametric exD 3 (by omega) 1000000 exD_sym exD_nonneg exD_ultra exD_big

end CogentModel.C15
