import CogentModel.Proofs.PathLemmas
import CogentModel.Props.C05
/-!
  C05 — processes that are not a single exp(tQ): products of transition matrices along a path of the tree
  (time-heterogeneous and discrete-time models; `LikelihoodFunction._nodeMotifProbs`) and rate-class mixtures.

  All statements are for an arbitrary field `K` (ordered where signs are involved), any dimension `n`, and ANY list of
  matrices (any path length, any mixture of models / lengths / discrete psubs along it) — nothing is assumed about
  where the matrices come from.
-/
namespace CogentModel.C05
open CogentModel.RateMatrix CogentModel.Expm CogentModel.PathProcess Finset Matrix

section field
variable {K : Type*} [Field K] {n : Nat}

/-- Chapman–Kolmogorov along a path: propagating the root distribution edge by edge (`numpy.dot(mprobs, psub)`,
recursively) is the same as multiplying it with the product of the transition matrices of the path -/
theorem path_chapman_kolmogorov (mp : Vec K) (Ps : List (Mat K)) (j : Nat) (hj : j < n) :
    vget (pathDist n mp Ps) j = vget (vecMat n mp (pathProduct n Ps)) j := by
  have h : toV n (pathDist n mp Ps) = toV n (vecMat n mp (pathProduct n Ps)) := by
    rw [toV_pathDist, toV_vecMat, toM_pathProduct]
  exact congrFun h ⟨j, hj⟩

example : vget (pathDist 2 (#[1/4, 3/4] : Vec ℚ) [#[#[1/2, 1/2], #[1/3, 2/3]], #[#[9/10, 1/10], #[1/5, 4/5]]]) 0 =
    vget (vecMat 2 (#[1/4, 3/4] : Vec ℚ) (pathProduct 2 [#[#[1/2, 1/2], #[1/3, 2/3]], #[#[9/10, 1/10], #[1/5, 4/5]]])) 0 :=
  path_chapman_kolmogorov _ _ 0 (by decide)

/-- the transition matrix of a concatenated path is the product of the two (`P(path₁ ++ path₂) = P(path₁) P(path₂)`) -/
theorem path_product_append (Ps Qs : List (Mat K)) (i j : Nat) (hi : i < n) (hj : j < n) :
    mget (pathProduct n (Ps ++ Qs)) i j = mget (matMul n (pathProduct n Ps) (pathProduct n Qs)) i j := by
  have h : toM n (pathProduct n (Ps ++ Qs)) = toM n (matMul n (pathProduct n Ps) (pathProduct n Qs)) := by
    rw [toM_matMul, toM_pathProduct, toM_pathProduct, toM_pathProduct, List.map_append, List.prod_append]
  have := congrFun (congrFun h ⟨i, hi⟩) ⟨j, hj⟩
  simpa [toM_apply] using this

/-- a product of matrices with unit row sums has unit row sums (any number of factors) -/
theorem path_product_rowsum_one (Ps : List (Mat K)) (h : ∀ P ∈ Ps, ∀ i, i < n → sumTo n (fun j => mget P i j) = 1)
    (i : Nat) (hi : i < n) : sumTo n (fun j => mget (pathProduct n Ps) i j) = 1 := by
  have := prod_mulVec_one (Ps.map (toM n)) (by
    intro M hM
    obtain ⟨P, hP, rfl⟩ := List.mem_map.mp hM
    exact (rowsum_iff P 1).mp (h P hP))
  rw [← toM_pathProduct] at this
  exact (rowsum_iff _ 1).mpr this i hi

example : sumTo 2 (fun j => mget (pathProduct 2 ([#[#[1/2, 1/2], #[1/3, 2/3]], #[#[9/10, 1/10], #[1/5, 4/5]]] : List (Mat ℚ))) 1 j) = 1 := by
  decide +kernel

/-- the distribution at the end of a path sums to one when the root distribution does and every matrix on the way has
unit row sums -/
theorem path_dist_total_one (mp : Vec K) (Ps : List (Mat K)) (hmp : sumTo n (vget mp) = 1)
    (h : ∀ P ∈ Ps, ∀ i, i < n → sumTo n (fun j => mget P i j) = 1) : sumTo n (vget (pathDist n mp Ps)) = 1 := by
  rw [total_iff, toV_pathDist, ← Matrix.dotProduct_mulVec]
  rw [prod_mulVec_one (Ps.map (toM n)) (by
    intro M hM
    obtain ⟨P, hP, rfl⟩ := List.mem_map.mp hM
    exact (rowsum_iff P 1).mp (h P hP))]
  exact (total_iff mp 1).mp hmp

/-- stationarity along a path: if the root distribution is stationary for EVERY matrix on the path (`π P_e = π`), it is
the distribution at the end of the path — for heterogeneous paths too (different Q, different lengths, discrete psubs) -/
theorem path_stationary (pi : Vec K) (Ps : List (Mat K))
    (h : ∀ P ∈ Ps, ∀ j, j < n → vget (vecMat n pi P) j = vget pi j) (j : Nat) (hj : j < n) :
    vget (pathDist n pi Ps) j = vget pi j := by
  have := vecMul_prod_fixed (toV n pi) (Ps.map (toM n)) (by
    intro M hM
    obtain ⟨P, hP, rfl⟩ := List.mem_map.mp hM
    rw [← toV_vecMat]
    ext k
    exact h P hP k.val k.isLt)
  rw [← toV_pathDist] at this
  exact congrFun this ⟨j, hj⟩

example : ∀ j, j < 2 → vget (vecMat 2 (#[2/5, 3/5] : Vec ℚ) #[#[1/4, 3/4], #[1/2, 1/2]]) j = vget (#[2/5, 3/5] : Vec ℚ) j := by
  decide +kernel

/-- … and at every node met on the way (what `_nodeMotifProbs` records) -/
theorem path_stationary_everywhere (pi : Vec K) (Ps : List (Mat K))
    (h : ∀ P ∈ Ps, ∀ j, j < n → vget (vecMat n pi P) j = vget pi j) :
    ∀ d ∈ pathDists n pi Ps, ∀ j, j < n → vget d j = vget pi j := by
  have key : ∀ (Ps : List (Mat K)) (v : Vec K), toV n v = toV n pi →
      (∀ P ∈ Ps, toV n pi ᵥ* toM n P = toV n pi) → ∀ d ∈ pathDists n v Ps, toV n d = toV n pi := by
    intro Ps
    induction Ps with
    | nil => intro v hv _ d hd; simp [pathDists] at hd; rw [hd]; exact hv
    | cons P Ps ih =>
      intro v hv hP d hd
      simp only [pathDists, List.mem_cons] at hd
      rcases hd with hd | hd
      · rw [hd]; exact hv
      · exact ih (vecMat n v P) (by rw [toV_vecMat, hv]; exact hP P List.mem_cons_self)
          (fun P' hP' => hP P' (List.mem_cons_of_mem _ hP')) d hd
  intro d hd j hj
  have := key Ps pi rfl (by
    intro P hP
    rw [← toV_vecMat]
    ext k
    exact h P hP k.val k.isLt) d hd
  exact congrFun this ⟨j, hj⟩

/-! ## rate-class mixtures -/

/-- the expected substitution rate is linear in the generator -/
theorem ens_rate_scale (pi : Vec K) (Q : Mat K) (c : K) : ensRate n pi (matScale n c Q) = c * ensRate n pi Q :=
  ensRate_scale pi Q c

/-- calibration of a rate-heterogeneity mixture: if Q is calibrated (`-∑ π_i Q_ii = 1`) and the rate-class multipliers
average to one under the bin probabilities, the expected number of substitutions of the mixture over a branch of
length `t` is `t` -/
theorem mixture_ens_calibrated (pi : Vec K) (Q : Mat K) (t : K) (w r : Vec K) (hcal : ensRate n pi Q = 1)
    (hmean : sumTo r.size (fun b => vget w b * vget r b) = 1) : mixtureENS n pi Q t w r = t := by
  unfold mixtureENS
  rw [sumTo_congr (g := fun b => t * (vget w b * vget r b)) fun b _ => by rw [ensRate_scale, hcal]; ring]
  rw [sumTo_eq_sum, ← Finset.mul_sum, ← sumTo_eq_sum, hmean, mul_one]

/-- end to end for the code's constructions: `calcQ` + `WeightedPartitionDefn.calc` rate classes -/
theorem mixture_ens_weighted (R : Mat K) (pi : Vec K) (t : K) (w v : Vec K) (hdiag : ∀ i, i < n → mget R i i = 0)
    (hnorm : sumTo n (fun i => vget pi i * sumTo n (fun j => mget R i j)) ≠ 0)
    (hscale : sumTo v.size (fun b => vget w b * vget v b) ≠ 0) :
    mixtureENS n pi (calcQGeneral n R pi) t w (ratesWeighted w v) = t := by
  apply mixture_ens_calibrated
  · have := calcQ_calibrated n R pi hdiag hnorm
    unfold ensRate; rw [zero_sub]; exact this
  · have hs : (ratesWeighted w v).size = v.size := by simp [ratesWeighted, size_vtab]
    rw [hs]; exact rate_classes_mean_one w v hscale

example : mixtureENS 2 (#[1/4, 3/4] : Vec ℚ) (calcQGeneral 2 (#[#[0, 2], #[3, 0]] : Mat ℚ) #[1/4, 3/4]) (1/2) #[1/4, 3/4]
    (ratesWeighted #[1/4, 3/4] #[1, 3]) = 1/2 := by decide +kernel

end field

section ordered
variable {K : Type*} [Field K] [LinearOrder K] [IsStrictOrderedRing K] {n : Nat}

/-- entrywise non-negativity is preserved by products: with `path_product_rowsum_one`, a product of row-stochastic
matrices is row-stochastic -/
theorem path_product_nonneg (Ps : List (Mat K)) (h : ∀ P ∈ Ps, ∀ i j, i < n → j < n → 0 ≤ mget P i j)
    (i j : Nat) (hi : i < n) (hj : j < n) : 0 ≤ mget (pathProduct n Ps) i j := by
  have key : ∀ (Ps : List (Mat K)) (A : Mat K), (∀ i j, i < n → j < n → 0 ≤ mget A i j) →
      (∀ P ∈ Ps, ∀ i j, i < n → j < n → 0 ≤ mget P i j) → ∀ i j, i < n → j < n → 0 ≤ mget (Ps.foldl (matMul n) A) i j := by
    intro Ps
    induction Ps with
    | nil => intro A hA _; simpa using hA
    | cons P Ps ih =>
      intro A hA hP
      simp only [List.foldl_cons]
      apply ih _ _ (fun P' hP' => hP P' (List.mem_cons_of_mem _ hP'))
      intro a b ha hb
      unfold matMul
      rw [mget_tab _ ha hb, sumTo_eq_sum]
      exact Finset.sum_nonneg fun k hk => mul_nonneg (hA a k ha (Finset.mem_range.mp hk)) (hP P List.mem_cons_self k b (Finset.mem_range.mp hk) hb)
  apply key Ps (ident n) _ h i j hi hj
  intro a b ha hb
  unfold ident
  rw [mget_tab _ ha hb]
  split <;> simp

/-- … and so is the non-negativity of the distribution carried along the path -/
theorem path_dist_nonneg (mp : Vec K) (Ps : List (Mat K)) (hmp : ∀ i, i < n → 0 ≤ vget mp i)
    (h : ∀ P ∈ Ps, ∀ i j, i < n → j < n → 0 ≤ mget P i j) (j : Nat) (hj : j < n) : 0 ≤ vget (pathDist n mp Ps) j := by
  have key : ∀ (Ps : List (Mat K)) (v : Vec K), (∀ i, i < n → 0 ≤ vget v i) →
      (∀ P ∈ Ps, ∀ i j, i < n → j < n → 0 ≤ mget P i j) → ∀ j, j < n → 0 ≤ vget (Ps.foldl (vecMat n) v) j := by
    intro Ps
    induction Ps with
    | nil => intro v hv _; simpa using hv
    | cons P Ps ih =>
      intro v hv hP
      simp only [List.foldl_cons]
      apply ih _ _ (fun P' hP' => hP P' (List.mem_cons_of_mem _ hP'))
      intro b hb
      unfold vecMat
      rw [vget_vtab _ hb, sumTo_eq_sum]
      exact Finset.sum_nonneg fun k hk => mul_nonneg (hv k (Finset.mem_range.mp hk)) (hP P List.mem_cons_self k b (Finset.mem_range.mp hk) hb)
  exact key Ps mp hmp h j hj

end ordered
end CogentModel.C05
