/- C10 (wave 2): `_get_class` of util/deserialise.py (TRANSLATED each run -> Gen/C10GetClass.lean) inverts `get_object_provenance`. -/
import CogentModel.Gen.C10GetClass
import CogentModel.Gen.C10Registry
namespace CogentModel.C10GetClass
open CogentModel.Registry
open CogentModel.Gen.C10GetClass (get_class)

def NC : Str := ['N', 'o', 't', 'C', 'o', 'm', 'p', 'l', 'e', 't', 'e', 'd']

theorem rfindChar_append (c : Char) (m cls : Str) (h : c ∉ cls) :
    rfindChar c (m ++ c :: cls) = m.length := by
  unfold rfindChar
  have hrev : (m ++ c :: cls).reverse = cls.reverse ++ c :: m.reverse := by simp
  have hidx : (cls.reverse ++ c :: m.reverse).findIdx? (· == c) = some cls.length := by
    rw [List.findIdx?_append]
    have hnone : cls.reverse.findIdx? (· == c) = none := by
      rw [List.findIdx?_eq_none_iff]
      intro x hx
      have : x ∈ cls := List.mem_reverse.mp hx
      exact beq_eq_false_iff_ne.mpr (fun e => h (e ▸ this))
    simp [hnone, List.findIdx?_cons]
  rw [hrev, hidx]
  simp only [List.length_append, List.length_cons]
  omega

/-- `_get_class(get_object_provenance(C))` hands `import_module` the module and `getattr` the class name, for EVERY module path and
    every class name (a Python identifier has no '.') that does not contain "NotCompleted" -/
theorem get_class_provenance (m cls : Str) (hm : m ≠ []) (hdot : '.' ∉ cls) (hnc : isInfix NC cls = false) :
    get_class (m ++ '.' :: cls) = .ok (m, cls) := by
  have hlen : 0 < m.length := List.length_pos_iff.mpr hm
  have hidx := rfindChar_append '.' m cls hdot
  unfold get_class
  simp only [hidx]
  have h1 : sliceFrom (m ++ '.' :: cls) ((m.length : Int) + 1) = cls := by
    unfold sliceFrom normIdx
    have : ¬ ((m.length : Int) + 1 < 0) := by omega
    simp only [this, if_false, List.length_append, List.length_cons]
    have : (min ((m.length : Int) + 1) ((m.length + (cls.length + 1) : Nat) : Int)).toNat = m.length + 1 := by omega
    rw [this]
    simp [List.drop_append]
  have h2 : sliceTo (m ++ '.' :: cls) (m.length : Int) = m := by
    unfold sliceTo normIdx
    have : ¬ ((m.length : Int) < 0) := by omega
    simp only [this, if_false, List.length_append, List.length_cons]
    have : (min (m.length : Int) ((m.length + (cls.length + 1) : Nat) : Int)).toNat = m.length := by omega
    rw [this]
    simp
  have hpos : decide ((m.length : Int) > 0) = true := by simp; omega
  simp only [h1, h2, hpos]
  have : isInfix ['N', 'o', 't', 'C', 'o', 'm', 'p', 'l', 'e', 't', 'e', 'd'] cls = false := hnc
  simp [this]

example : get_class "cogent3.core.tree.PhyloNode".toList = .ok ("cogent3.core.tree".toList, "PhyloNode".toList) := by
  have := get_class_provenance "cogent3.core.tree".toList "PhyloNode".toList (by decide) (by decide) (by decide)
  simpa using this


/-- a name with "NotCompleted" in it is looked up as `NotCompleted` (old records were written with other class spellings) -/
theorem get_class_notcompleted (m cls : Str) (hm : m ≠ []) (hdot : '.' ∉ cls) (hnc : isInfix NC cls = true) :
    get_class (m ++ '.' :: cls) = .ok (m, NC) := by
  have hlen : 0 < m.length := List.length_pos_iff.mpr hm
  have hidx := rfindChar_append '.' m cls hdot
  unfold get_class
  simp only [hidx]
  have h1 : sliceFrom (m ++ '.' :: cls) ((m.length : Int) + 1) = cls := by
    unfold sliceFrom normIdx
    have : ¬ ((m.length : Int) + 1 < 0) := by omega
    simp only [this, if_false, List.length_append, List.length_cons]
    have : (min ((m.length : Int) + 1) ((m.length + (cls.length + 1) : Nat) : Int)).toNat = m.length + 1 := by omega
    rw [this]
    simp [List.drop_append]
  have h2 : sliceTo (m ++ '.' :: cls) (m.length : Int) = m := by
    unfold sliceTo normIdx
    have : ¬ ((m.length : Int) < 0) := by omega
    simp only [this, if_false, List.length_append, List.length_cons]
    have : (min (m.length : Int) ((m.length + (cls.length + 1) : Nat) : Int)).toNat = m.length := by omega
    rw [this]
    simp
  have hpos : decide ((m.length : Int) > 0) = true := by simp; omega
  simp only [h1, h2, hpos]
  have : isInfix ['N', 'o', 't', 'C', 'o', 'm', 'p', 'l', 'e', 't', 'e', 'd'] cls = true := hnc
  simp [this, NC]

example : get_class "cogent3.app.composable.NotCompletedResult".toList = .ok ("cogent3.app.composable".toList, NC) :=
  get_class_notcompleted "cogent3.app.composable".toList "NotCompletedResult".toList (by decide) (by decide) (by decide)

/-- no module part (no '.', or nothing in front of the only '.'): the `assert index > 0` fails -/
theorem get_class_no_module (s : Str) (hdot : '.' ∉ s) :
    get_class s = .error "AssertionError" ∧ get_class ('.' :: s) = .error "AssertionError" := by
  constructor
  · have : rfindChar '.' s = -1 := by
      unfold rfindChar
      have : s.reverse.findIdx? (· == '.') = none := by
        rw [List.findIdx?_eq_none_iff]
        intro x hx
        exact beq_eq_false_iff_ne.mpr (fun e => hdot (e ▸ List.mem_reverse.mp hx))
      rw [this]
    unfold get_class
    simp [this]
  · have := rfindChar_append '.' [] s hdot
    simp only [List.nil_append, List.length_nil] at this
    unfold get_class
    simp [this]

example : get_class "Table".toList = .error "AssertionError" := (get_class_no_module _ (by decide)).1

/-- every type string the package emits (Gen/C10Registry.emitted) is split back without loss: module ++ "." ++ name = the string -/
theorem get_class_emitted :
    ∀ e ∈ Gen.C10Registry.emitted,
      (match get_class e.typeStr with | .ok (m, c) => m ++ '.' :: c == e.typeStr | .error _ => false) = true := by
  decide +kernel

end CogentModel.C10GetClass
