import CogentModel.Model.Clustal
import CogentModel.Spec.ClustalRecords
import CogentModel.Proofs.Clustal
import CogentModel.Props.C06
/-! # C06 — Clustal: `clustal_from_alignment` followed by `ClustalParser` (format/clustal.py, parse/clustal.py)

The model (`Model/Clustal.lean`) mirrors the writer's `while curr_ix < aln_len` loop and the parser's pipeline
`filter(is_clustal_seq_line) -> delete_trailing_number -> last_space -> LabelLineParser` (an insertion-ordered dict of
label -> pieces).  The theorems are for ALL record lists, ALL wrap widths and ALL cuttings of the file. -/
namespace CogentModel.C06
open CogentModel.Splitlines CogentModel.SeqFormats CogentModel.SeqSpec CogentModel.ClustalSpec CogentModel.Clustal

/-- the hypotheses of the Clustal round trip: distinct labels the format can carry, residues without blank or digit,
one common length `L` -/
def ClustalRecs (L : Nat) (recs : List Rec) : Prop :=
  (recs.map Prod.fst).Nodup ∧ ∀ r ∈ recs, clustalName r.1 = true ∧ clustalSeq r.2 = true ∧ r.2.length = L

/-- **Clustal round-trip** in one statement: the text is written, has `'\n'` as its only line boundary, and parses back
to the records (`clustal_roundtrip`, `clustal_text_nlOnly` and `clustal_streamed_roundtrip` are its corollaries). -/
theorem clustal_core (wrap : Option Nat) (hw : ∀ w, wrap = some w → 0 < w) (recs : List Rec) (hne : recs ≠ [])
    (L : Nat) (h : ClustalRecs L recs) :
    ∃ text, clustalFormat wrap recs = .ok text ∧ NlOnly text ∧ clustalParse text = .ok recs := by
  have hn : WfNames recs := ⟨h.1, fun r hr => (h.2 r hr).1⟩
  cases recs with
  | nil => exact absurd rfl hne
  | cons r0 rest =>
    have hL0 : r0.2.length = L := (h.2 r0 List.mem_cons_self).2.2
    have hLpos : 0 < L := by
      have := (clustalSeq_facts (h.2 r0 List.mem_cons_self).2.1).1.1
      rw [← hL0]; exact List.length_pos_iff.mpr this
    have hany : (r0 :: rest).any (fun r => r.2.length != r0.2.length) = false := by
      rw [List.any_eq_false]
      intro r hr
      simp [(h.2 r hr).2.2, hL0]
    cases wrap with
    | none =>
      have hb : block (labelMax (r0 :: rest) + 4) (r0 :: rest) (fun r => r.2)
          = [fun r : Rec => r.2].flatMap (block (labelMax (r0 :: rest) + 4) (r0 :: rest)) := by simp
      obtain ⟨h1, h2⟩ := parse_blocks hn (fun r => r.2) [] (by
        intro d hd r hr
        simp only [List.mem_singleton] at hd
        subst hd
        exact (h.2 r hr).2.1)
      refine ⟨_, by simp only [clustalFormat, hany, Bool.false_eq_true, if_false]; rfl, ?_, ?_⟩
      · rw [hb]; exact h1
      · rw [hb, h2]; simp
    | some w =>
      have hwp := hw w rfl
      have hc : chunkFns w L (L + 1) 0 = (fun r : Rec => (r.2.drop 0).take w) :: chunkFns w L L (0 + w) := by
        simp [chunkFns, hLpos, hwp]
      have hgood := chunkFns_good (w := w) (fun r hr => (h.2 r hr).2) (L + 1) 0
      rw [hc] at hgood
      obtain ⟨h1, h2⟩ := parse_blocks hn _ _ hgood
      refine ⟨_, by simp only [clustalFormat, hany, Bool.false_eq_true, if_false]; rfl, ?_, ?_⟩
      · rw [hL0, blocks_eq, hc]; exact h1
      · rw [hL0, blocks_eq, hc, h2, ← hc]
        congr 1
        have hm := List.map_congr_left (l := r0 :: rest)
          (f := fun r => (r.1, ((chunkFns w L (L + 1) 0).map (fun d => d r)).flatten)) (g := id) (fun r hr => by
            rw [chunkFns_flatten r (h.2 r hr).2.2 (L + 1) 0 (by omega), if_pos hwp]
            rfl)
        rw [hm, List.map_id]

/-- **Clustal round-trip, every wrap width.**  For every non-empty list of records with distinct labels the format can
carry (printable, no blank, not starting with `CLUSTAL`/`MUSCLE`), residues without blank or digit and one common
length, and for `wrap = None` as well as every `wrap ≥ 1`: `ClustalParser` applied to the lines of the text
`clustal_from_alignment` writes returns exactly the labels, the order and the sequences. -/
theorem clustal_roundtrip (wrap : Option Nat) (hw : ∀ w, wrap = some w → 0 < w) (recs : List Rec) (hne : recs ≠ [])
    (L : Nat) (h : ClustalRecs L recs) :
    ∃ text, clustalFormat wrap recs = .ok text ∧ clustalParse text = .ok recs := by
  obtain ⟨t, h1, _, h3⟩ := clustal_core wrap hw recs hne L h
  exact ⟨t, h1, h3⟩

-- non-vacuity: two records, three blocks (wrap 2 on length 5), labels of different lengths, `-` and `*` as residues
example : ClustalRecs 5 [(['s', '1'], ['A', 'C', '-', 'G', 'T']), (['l', 'o', 'n', 'g', '|', 'x'], ['A', '*', 'G', 'T', 'N'])] :=
  ⟨by decide, by decide⟩
example : clustalFormat (some 2) [(['s'], ['A', 'C', 'G']), (['t', 'u'], ['T', 'T', '-'])] =
    .ok ("CLUSTAL\n\ns     AC\ntu    TT\n\ns     G\ntu    -\n").toList := by decide
example : clustalParse ("CLUSTAL\n\ns     AC\ntu    TT\n\ns     G\ntu    -\n").toList =
    .ok [(['s'], ['A', 'C', 'G']), (['t', 'u'], ['T', 'T', '-'])] := by decide

/-- what the Clustal writer writes has `'\n'` as its only line boundary -/
theorem clustal_text_nlOnly (wrap : Option Nat) (hw : ∀ w, wrap = some w → 0 < w) (recs : List Rec) (hne : recs ≠ [])
    (L : Nat) (h : ClustalRecs L recs) (text : Str) (ht : clustalFormat wrap recs = .ok text) : NlOnly text := by
  obtain ⟨t, h1, h2, _⟩ := clustal_core wrap hw recs hne L h
  rw [ht] at h1
  cases h1
  exact h2

/-- **Clustal, every chunk size and every wrap width** (the registry's `LineBasedParser(ClustalParser)`, i.e.
`ClustalParser(iter_splitlines(path))`): for every cutting of the written file into non-empty reads the streamed parse
returns the records. -/
theorem clustal_streamed_roundtrip (wrap : Option Nat) (hw : ∀ w, wrap = some w → 0 < w) (recs : List Rec)
    (hne : recs ≠ []) (L : Nat) (h : ClustalRecs L recs) :
    ∃ text, clustalFormat wrap recs = .ok text ∧
      ∀ chunks : List (List Char), (∀ ch ∈ chunks, ch ≠ []) → chunks.flatten = text →
        clustalParser true (iterSplitlines chunks) = .ok recs := by
  obtain ⟨t, h1, h2, h3⟩ := clustal_core wrap hw recs hne L h
  refine ⟨t, h1, fun chunks hch hcat => ?_⟩
  rw [streamed_parse_eq (clustalParser true) t h2 chunks hch hcat]
  exact h3

-- non-vacuity: read boundaries inside the header, inside the padding and right before a blank line
example : [("CLUS").toList, ("TAL\n\ns  ").toList, ("  A\n").toList, ("\ns    C\n").toList].flatten
    = ("CLUSTAL\n\ns    A\n\ns    C\n").toList := by decide
example : clustalFormat (some 1) [(['s'], ['A', 'C'])] = .ok ("CLUSTAL\n\ns    A\n\ns    C\n").toList := by decide
example : clustalParser true (iterSplitlines [("CLUS").toList, ("TAL\n\ns  ").toList, ("  A\n").toList, ("\ns    C\n").toList])
    = .ok [(['s'], ['A', 'C'])] := by decide

/-- The "no digit" hypothesis is needed: a block that consists of digits only is read as a residue count by
`delete_trailing_number` and the line then has no residues (`RecordError` in strict mode).  Digits are not residue
characters of any cogent3 alphabet, so this is a documented limit of the format, not a defect. -/
theorem clustal_digit_block_counter :
    clustalFormat none [(['a'], ['1', '2'])] = .ok ("CLUSTAL\n\na    12\n").toList ∧
    clustalParse ("CLUSTAL\n\na    12\n").toList = .error .recordError := by decide +kernel

end CogentModel.C06
