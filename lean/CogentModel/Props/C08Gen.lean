/-
  C08, translator tie: every definition GENERATED from the current python source of the pure span algebra of
  core/location.py (`_norm_index`, `_norm_slice`, `span_and_span`, `Span.__init__/_new_init/__getitem__/__mul__/
  __truediv__/reversed/reversed_relative_to/__contains__/overlaps/__len__`, `SpanI.starts_*/ends_*`, the `_LostSpan`
  methods, `FeatureMap.__mul__/__truediv__/__add__/without_gaps/get_coordinates`) by translator/c08_span2lean.py
  (Gen/C08Span.lean) equals the hand model (`Model/FMap.lean`, `Model/FMapOps.lean`, `Model/IndelMap.lean`) FOR ALL
  ARGUMENTS, so the theorems of Props/C08FMap.lean and Props/C08Ops.lean are theorems about the translated code.  A
  semantic edit of one of these python functions changes the generated text and one of these proofs stops checking.
  Hypotheses `s ≤ e` / `0 ≤ length` are the class invariant `Span.__init__` establishes (it swaps the ends).
-/
import CogentModel.Gen.C08Span
import CogentModel.Model.FMapOps
import CogentModel.Model.IndelMap
import CogentModel.Proofs.FMapLemmas
namespace CogentModel.C08
open CogentModel CogentModel.FMap

theorem gen_normIndex_some (i L d : Int) : C08Gen.normIndex (some i) L d = normIndex i L := by
  simp only [C08Gen.normIndex, normIndex]; split <;> rfl

theorem gen_normIndex_none (L d : Int) : C08Gen.normIndex none L d = min (max d 0) L := rfl

theorem gen_spanNewInit (s e : Int) (r : Bool) :
    C08Gen.spanNewInit s (some e) r = if s > e then (e, s, r) else (s, e, r) := by
  simp only [C08Gen.spanNewInit]

theorem gen_spanInit (s e : Int) (r : Bool) : C08Gen.spanInit s (some e) r = .ok (mkSpan s e r) := by
  simp only [C08Gen.spanInit, mkSpan, gen_spanNewInit]
  split <;> simp <;> omega

theorem gen_lostInit (n : Int) : C08Gen.lostInit n = .lost n := rfl

theorem pyOr_none : C08Gen.pyOr none 1 = 1 := rfl
theorem pyOr_one : C08Gen.pyOr (some 1) 1 = 1 := rfl

theorem normIndex_none_zero (L : Int) (h : 0 ≤ L) : C08Gen.normIndex none L 0 = 0 := by
  simp only [C08Gen.normIndex]; omega
theorem normIndex_none_len (L : Int) (h : 0 ≤ L) : C08Gen.normIndex none L L = L := by
  simp only [C08Gen.normIndex]; omega

theorem gen_normSliceSlice (a b step : Option Int) (L : Int) (h : 0 ≤ L) :
    C08Gen.normSliceSlice a b step L =
      ((match a with | none => 0 | some i => normIndex i L), (match b with | none => L | some i => normIndex i L), step) := by
  simp only [C08Gen.normSliceSlice]
  cases a <;> cases b <;> simp [gen_normIndex_some, normIndex_none_zero, normIndex_none_len, h]

theorem getitem_core (s e st en : Int) (r : Bool) :
    (if st ≤ en then
      (if r = true then (Except.ok (mkSpan (e - en) (e - st) true) : Except FErr FSp) else .ok (mkSpan (s + st) (s + en) false))
     else .error .assertionError) =
    (if st > en then .error .assertionError
     else if r then .ok (mkSpan (e - en) (e - st) true) else .ok (mkSpan (s + st) (s + en) false)) := by
  by_cases hle : st ≤ en
  · have h2 : ¬ st > en := by omega
    simp only [if_pos hle, if_neg h2]
  · have h2 : st > en := by omega
    simp only [if_neg hle, if_pos h2]

theorem gen_spanGetitem (s e : Int) (r : Bool) (a b : Option Int) (h : s ≤ e) :
    C08Gen.spanGetitem s e r a b none = spanSlice (.span s e r) a b := by
  simp only [C08Gen.spanGetitem, spanSlice, FSp.length]
  rw [gen_normSliceSlice _ _ _ _ (by omega)]
  simp only [pyOr_none, if_true, gen_spanInit]
  cases a <;> cases b <;> exact getitem_core ..

theorem lost_core (st en : Int) :
    (Except.ok (FSp.lost (C08Gen.pyAbs (en - st))) : Except FErr FSp) = .ok (.lost (if en - st < 0 then st - en else en - st)) := by
  unfold C08Gen.pyAbs; congr 2; split <;> omega

theorem gen_lostGetitem (n : Int) (a b : Option Int) (h : 0 ≤ n) :
    C08Gen.lostGetitem n a b none = spanSlice (.lost n) a b := by
  simp only [C08Gen.lostGetitem, spanSlice, FSp.length]
  rw [gen_normSliceSlice _ _ _ _ h]
  simp only [pyOr_none, if_true, gen_lostInit]
  cases a <;> cases b <;> exact lost_core ..

theorem gen_fspGetitem (sp : FSp) (a b : Option Int) (h : 0 ≤ sp.length) :
    C08Gen.fspGetitem sp a b none = spanSlice sp a b := by
  cases sp with
  | span s e r => exact gen_spanGetitem s e r a b (by simp [FSp.length] at h; omega)
  | lost n => exact gen_lostGetitem n a b h

theorem gen_getitem_step (s e : Int) (r : Bool) (a b : Option Int) (k : Int) (hk : k ≠ 1) (hk0 : k ≠ 0) :
    C08Gen.spanGetitem s e r a b (some k) = .error .assertionError := by
  simp only [C08Gen.spanGetitem, C08Gen.normSliceSlice, C08Gen.pyOr, if_neg hk0, if_neg hk]

theorem gen_spanGetitemInt (s e : Int) (r : Bool) (i : Int) :
    C08Gen.spanGetitemInt s e r i = spanAt (.span s e r) i := by
  simp only [C08Gen.spanGetitemInt, C08Gen.normSliceInt, spanAt, FSp.length]
  by_cases h0 : i < 0
  · simp only [if_pos h0]
    by_cases h1 : i + (e - s) ≥ e - s
    · simp only [if_pos h1]
    · simp only [if_neg h1, pyOr_one, if_true, gen_spanInit]
      rw [if_pos (by omega)]
  · simp only [if_neg h0]
    by_cases h1 : i ≥ e - s
    · simp only [if_pos h1]
    · simp only [if_neg h1, pyOr_one, if_true, gen_spanInit]
      rw [if_pos (by omega)]

theorem gen_lostGetitemInt (n i : Int) : C08Gen.lostGetitemInt n i = spanAt (.lost n) i := by
  simp only [C08Gen.lostGetitemInt, C08Gen.normSliceInt, spanAt, FSp.length]
  by_cases h0 : i < 0
  · simp only [if_pos h0]
    by_cases h1 : i + n ≥ n
    · simp only [if_pos h1]
    · simp only [if_neg h1, pyOr_one, if_true, gen_lostInit, C08Gen.pyAbs]
      congr 2; split <;> omega
  · simp only [if_neg h0]
    by_cases h1 : i ≥ n
    · simp only [if_pos h1]
    · simp only [if_neg h1, pyOr_one, if_true, gen_lostInit, C08Gen.pyAbs]
      congr 2; split <;> omega

theorem gen_fspMul (sp : FSp) (k : Int) : C08Gen.fspMul sp k = .ok (sp.mul k) := by
  cases sp <;> simp [C08Gen.fspMul, C08Gen.spanMul, C08Gen.lostMul, gen_spanInit, gen_lostInit, FSp.mul]

theorem gen_fspTruediv (sp : FSp) (k : Int) : C08Gen.fspTruediv sp k = sp.truediv k := by
  cases sp <;> simp [C08Gen.fspTruediv, C08Gen.spanTruediv, C08Gen.lostTruediv, gen_spanInit, gen_lostInit, FSp.truediv]

theorem gen_fspReversed (sp : FSp) (h : 0 ≤ sp.length) : C08Gen.fspReversed sp = .ok sp.reversed := by
  cases sp with
  | lost n => rfl
  | span s e r =>
    simp only [C08Gen.fspReversed, C08Gen.spanReversed, gen_spanInit, FSp.reversed, mkSpan]
    simp [FSp.length] at h
    rw [if_neg (by omega)]

theorem gen_fspReversedRelativeTo (sp : FSp) (L : Int) :
    C08Gen.fspReversedRelativeTo sp L = sp.reversedRelativeTo L := by
  cases sp <;> simp [C08Gen.fspReversedRelativeTo, C08Gen.spanReversedRelativeTo, C08Gen.lostReversedRelativeTo,
    gen_spanInit, FSp.reversedRelativeTo]

theorem gen_lostRemapWith (n : Int) : C08Gen.lostRemapWith n = [.lost n] := rfl

theorem gen_spanContainsInt (s e : Int) (r : Bool) (x : Int) : C08Gen.spanContainsInt s e r x = containsInt s e x := by
  simp [C08Gen.spanContainsInt, containsInt]
theorem gen_spanContainsSpan (s e : Int) (r : Bool) (os oe : Int) (or_ : Bool) :
    C08Gen.spanContainsSpan s e r os oe or_ = containsSpan s e os oe := by
  simp [C08Gen.spanContainsSpan, containsSpan]
theorem gen_spanOverlapsSpan (s e : Int) (r : Bool) (os oe : Int) (or_ : Bool) :
    C08Gen.spanOverlapsSpan s e r os oe or_ = overlapsSpan s e os oe := by
  simp [C08Gen.spanOverlapsSpan, gen_spanContainsInt, overlapsSpan]
  
theorem gen_starts_ends (s e : Int) (r : Bool) (os oe x : Int) (or_ : Bool) :
    C08Gen.spanStartsBeforeInt s e r x = decide (s < x) ∧ C08Gen.spanStartsBeforeSpan s e r os oe or_ = decide (s < os) ∧
    C08Gen.spanStartsAfterInt s e r x = decide (s > x) ∧ C08Gen.spanStartsAfterSpan s e r os oe or_ = decide (s > os) ∧
    C08Gen.spanStartsAtInt s e r x = decide (s = x) ∧ C08Gen.spanStartsAtSpan s e r os oe or_ = decide (s = os) ∧
    C08Gen.spanStartsInsideInt s e r x = false ∧ C08Gen.spanStartsInsideSpan s e r os oe or_ = containsInt os oe s ∧
    C08Gen.spanEndsBeforeInt s e r x = decide (e < x) ∧ C08Gen.spanEndsBeforeSpan s e r os oe or_ = decide (e < oe) ∧
    C08Gen.spanEndsAfterInt s e r x = decide (e > x) ∧ C08Gen.spanEndsAfterSpan s e r os oe or_ = decide (e > oe) ∧
    C08Gen.spanEndsAtInt s e r x = decide (e = x) ∧ C08Gen.spanEndsAtSpan s e r os oe or_ = decide (e = oe) ∧
    C08Gen.spanEndsInsideInt s e r x = false ∧ C08Gen.spanEndsInsideSpan s e r os oe or_ = containsInt os oe e ∧
    C08Gen.spanLen s e r = e - s ∧ C08Gen.lostLen x = x := by
  simp [C08Gen.spanStartsBeforeInt, C08Gen.spanStartsBeforeSpan, C08Gen.spanStartsAfterInt, C08Gen.spanStartsAfterSpan,
    C08Gen.spanStartsAtInt, C08Gen.spanStartsAtSpan, C08Gen.spanStartsInsideInt, C08Gen.spanStartsInsideSpan,
    C08Gen.spanEndsBeforeInt, C08Gen.spanEndsBeforeSpan, C08Gen.spanEndsAfterInt, C08Gen.spanEndsAfterSpan,
    C08Gen.spanEndsAtInt, C08Gen.spanEndsAtSpan, C08Gen.spanEndsInsideInt, C08Gen.spanEndsInsideSpan,
    C08Gen.spanLen, C08Gen.lostLen, gen_spanContainsInt]

theorem gen_spanAndSpan (a1 a2 b1 b2 : Int) :
    C08Gen.spanAndSpan a1 a2 b1 b2 =
      match IndelMap.spanAndSpan a1 a2 b1 b2 with
      | none => .error .valueError
      | some r => .ok r := by
  simp only [C08Gen.spanAndSpan, IndelMap.spanAndSpan]
  repeat' split
  all_goals first | rfl | simp_all | omega

theorem mapE_eq (f g : FSp → Except FErr FSp) (h : ∀ x, f x = g x) (l : List FSp) : C08Gen.mapE f l = mapSpans g l := by
  induction l with
  | nil => rfl
  | cons x xs ih =>
    simp only [C08Gen.mapE, mapSpans, h, ih]
    cases g x with
    | error => rfl
    | ok y => cases mapSpans g xs <;> rfl

theorem mapSpans_ok (f : FSp → FSp) (l : List FSp) : mapSpans (fun x => .ok (f x)) l = .ok (l.map f) := by
  induction l with
  | nil => rfl
  | cons x xs ih => simp only [mapSpans, ih, List.map]

theorem gen_fmMul (m : FM) (k : Int) : C08Gen.fmMul m.spans m.parentLength k = .ok (fmMul m k) := by
  simp only [C08Gen.fmMul, fmMul]
  rw [mapE_eq _ (fun x => .ok (x.mul k)) (fun x => gen_fspMul x k), mapSpans_ok]

theorem gen_fmTruediv (m : FM) (k : Int) : C08Gen.fmTruediv m.spans m.parentLength k = fmTruediv m k := by
  simp only [C08Gen.fmTruediv, fmTruediv]
  rw [mapE_eq _ (fun x => x.truediv k) (fun x => gen_fspTruediv x k)]
  cases mapSpans (fun x => x.truediv k) m.spans <;> rfl

theorem gen_fmAdd (a b : FM) : C08Gen.fmAdd a.spans a.parentLength b.spans b.parentLength = fmAdd a b := rfl

theorem gen_fmWithoutGaps (m : FM) : C08Gen.fmWithoutGaps m.spans m.parentLength = withoutGaps m := rfl

theorem gen_fmGetCoordinates (m : FM) : C08Gen.fmGetCoordinates m.spans m.parentLength = getCoordinates m := by
  simp only [C08Gen.fmGetCoordinates, getCoordinates]
  induction m.spans with
  | nil => rfl
  | cons x xs ih => cases x <;> simp_all [FSp.isLost, C08Gen.fspStart, C08Gen.fspEnd, List.filter, List.filterMap]

/-! non-vacuity: the generated definitions evaluated on concrete, non-trivial arguments -/
example : C08Gen.normIndex (some (-2)) 10 0 = 8 ∧ C08Gen.normIndex (some 15) 10 0 = 10 ∧ C08Gen.normIndex none 10 10 = 10 := by decide
example : C08Gen.spanInit 9 (some 4) true = .ok (.span 4 9 true) := by decide
example : C08Gen.spanGetitem 10 20 true (some 2) (some (-3)) none = .ok (.span 13 18 true) := by decide
example : C08Gen.spanGetitem 10 20 false (some 7) (some 3) none = .error .assertionError := by decide
example : C08Gen.spanGetitemInt 10 20 false (-1) = .ok (.span 19 20 false) ∧ C08Gen.spanGetitemInt 10 20 false 10 = .error .indexError := by decide
example : C08Gen.spanAndSpan 2 9 5 12 = .ok (some (5, 9)) ∧ C08Gen.spanAndSpan 2 3 5 12 = .ok none ∧
    C08Gen.spanAndSpan 3 3 5 12 = .error .valueError := by decide
example : C08Gen.fmMul [.span 2 5 true, .lost 2] 10 3 = .ok ⟨[.span 6 15 true, .lost 6], 30⟩ := by decide
example : C08Gen.fmTruediv [.span 6 15 true, .lost 6] 30 3 = .ok ⟨[.span 2 5 true, .lost 2], 10⟩ ∧
    C08Gen.fmTruediv [.span 7 15 false] 30 3 = .error .assertionError := by decide
example : C08Gen.fmAdd [.span 2 5 false] 10 [.lost 1, .span 7 9 true] 10 = .ok ⟨[.span 2 5 false, .lost 1, .span 7 9 true], 10⟩ ∧
    C08Gen.fmAdd [] 10 [] 11 = .error .valueError := by decide
example : C08Gen.spanOverlapsSpan 2 5 false 4 9 true = true ∧ C08Gen.spanOverlapsSpan 2 5 false 5 9 true = false := by decide
example : C08Gen.spanReversedRelativeTo 2 5 false 10 = .ok (.span 5 8 true) ∧
    C08Gen.spanReversedRelativeTo 2 5 false 4 = .error .assertionError := by decide

end CogentModel.C08
