import CogentModel.Model.Prune
import CogentModel.Proofs.Prune
import CogentModel.Proofs.PruneCompress
import CogentModel.Proofs.PruneSym
/-! # C11 — the likelihood is invariant under relabelling, reordering and re-rooting

Same model as C02 (`Model/Prune.lean`, the definitions the drivers execute).  `g` below stands for
`log ∘ (column likelihood)`; it is an arbitrary function into an additive commutative monoid, so
the statements hold whatever `log` is.  Columns are the motif-sized blocks of the alignment. -/
namespace CogentModel.C11
open CogentModel.Prune

/-- Permuting the alignment columns (motif blocks) leaves the computed total — compression by
`_indexed` included — unchanged. -/
theorem lnl_column_perm {κ S : Type} [DecidableEq κ] [AddCommMonoid S] (g : κ → S) {cols cols' : List κ}
    (h : cols.Perm cols') : lnLCompressed g cols = lnLCompressed g cols' := by
  rw [lnLCompressed_eq_plain, lnLCompressed_eq_plain, lnLPlain_perm g h]

example : lnLCompressed (fun k : Nat => 10 * k) [3, 1, 3, 2] = lnLCompressed (fun k : Nat => 10 * k) [2, 3, 3, 1] := by decide
example : [3, 1, 3, 2].Perm [2, 3, 3, 1] := by decide

/-- Repeating every column `k` times (in place) multiplies the total by `k`. -/
theorem lnl_repeat_k {κ S : Type} [DecidableEq κ] [AddCommMonoid S] (g : κ → S) (k : Nat) (cols : List κ) :
    lnLCompressed g (cols.flatMap (List.replicate k)) = k • lnLCompressed g cols := by
  rw [lnLCompressed_eq_plain, lnLCompressed_eq_plain, lnLPlain_repeat_each]

/-- Concatenating `k` copies of the alignment multiplies the total by `k`. -/
theorem lnl_repeat_alignment {κ S : Type} [DecidableEq κ] [AddCommMonoid S] (g : κ → S) (k : Nat) (cols : List κ) :
    lnLCompressed g (List.replicate k cols).flatten = k • lnLCompressed g cols := by
  rw [lnLCompressed_eq_plain, lnLCompressed_eq_plain, lnLPlain_repeat_all]

example : lnLCompressed (fun k : Nat => 10 * k) ([3, 1, 2].flatMap (List.replicate 3)) = 180 := by decide

/-- Merging identical columns (what `_indexed` does) or not merging them gives the same total. -/
theorem lnl_merge_duplicates {κ S : Type} [DecidableEq κ] [AddCommMonoid S] (g : κ → S) (cols : List κ) :
    lnLCompressed g cols = lnLPlain g cols :=
  lnLCompressed_eq_plain g cols

/-- Reordering the children of any set of nodes, at any depth, leaves the column likelihood unchanged. -/
theorem lh_child_reorder {R α : Type} [CommSemiring R] (m : Nat) (π : Nat → R) (prof : α → Nat → R)
    {t t' : PTree R α} (h : Reorder t t') : lh m π prof t = lh m π prof t' := by
  rw [lh_eq, lh_eq, (plh_reorder m prof h).2]

def exP : Mat Nat := fun i j => if i = j then 3 else 1
def exA : PTree Nat Nat := .node exP [.leaf exP 0, .node exP [.leaf exP 1, .leaf exP 2], .leaf exP 3]
def exB : PTree Nat Nat := .node exP [.node exP [.leaf exP 2, .leaf exP 1], .leaf exP 3, .leaf exP 0]
example : Reorder exA exB :=
  .node _ _ [.leaf exP 0, .node exP [.leaf exP 2, .leaf exP 1], .leaf exP 3] _
    (.cons _ _ _ _ (.leaf _ _) (.cons _ _ _ _
      (.node _ _ [.leaf exP 1, .leaf exP 2] _ (.cons _ _ _ _ (.leaf _ _) (.cons _ _ _ _ (.leaf _ _) .nil))
        (List.Perm.swap _ _ _))
      (.cons _ _ _ _ (.leaf _ _) .nil)))
    (List.perm_append_comm (l₁ := [PTree.leaf exP 0]))

/-- Renaming the tips together with the alignment rows leaves the likelihood unchanged: leaves get
their data by name only. -/
theorem lh_leaf_relabel {R α β : Type} [CommSemiring R] (m : Nat) (π : Nat → R) (prof : β → Nat → R)
    (f : α → β) (t : PTree R α) : lh m π prof (t.mapLeaves f) = lh m π (fun a => prof (f a)) t := by
  rw [lh_eq, lh_eq, plh_mapLeaves]

/-- Reordering the sequences (rows) of the alignment leaves the likelihood unchanged, provided the
names are distinct: each leaf finds its row by name (`lookupRow`). -/
theorem lh_seq_reorder {R α : Type} [CommSemiring R] [DecidableEq α] (m : Nat) (π : Nat → R)
    (dflt : Nat → R) {rows rows' : List (α × (Nat → R))} (h : rows.Perm rows')
    (hn : (rows.map Prod.fst).Nodup) (t : PTree R α) :
    lh m π (lookupRow dflt rows) t = lh m π (lookupRow dflt rows') t := by
  have : lookupRow dflt rows = lookupRow dflt rows' := funext fun a => lookupRow_perm dflt h hn a
  rw [this]

example : lookupRow 0 [(1, 10), (2, 20), (3, 30)] 2 = lookupRow 0 [(3, 30), (1, 10), (2, 20)] 2 := by decide

/-- **Pulley principle.** If every edge matrix satisfies detailed balance with respect to the root
distribution `π` (time-reversible model), moving the root across any sequence of edges (and
reordering children on the way) leaves the column likelihood unchanged. -/
theorem lh_reroot_reversible {R α : Type} [CommSemiring R] (m : Nat) (π : Nat → R) (prof : α → Nat → R)
    {t t' : PTree R α} (h : Reroot t t') (hdb : ∀ P ∈ t.edgeMats, DetailedBalance m π P) :
    lh m π prof t = lh m π prof t' :=
  (lh_reroot m π prof h hdb).1

/-- one step, stated explicitly: the child `node P cs` of the root becomes the root and the old root
(with its remaining children `ds`) hangs below it on the same edge -/
theorem lh_reroot_across_edge {R α : Type} [CommSemiring R] (m : Nat) (π : Nat → R) (prof : α → Nat → R)
    (P0 P0' P : Mat R) (cs ds : List (PTree R α)) (hdb : DetailedBalance m π P) :
    lh m π prof (.node P0 (.node P cs :: ds)) = lh m π prof (.node P0' (.node P ds :: cs)) :=
  lh_reroot_step m π prof P0 P0' P cs ds hdb

example : DetailedBalance 2 (fun _ => (1 : Nat)) exP := by
  intro i j _ _; simp only [exP, one_mul]; by_cases h : i = j <;> simp [h, eq_comm]
example : ¬ DetailedBalance 2 (fun s => (s + 1 : Nat)) exP := by
  intro h; have := h 0 1 (by decide) (by decide); simp [exP] at this

/-- **Edge split.** Replacing one edge (anywhere below the root) by two edges through a unary node
whose matrices multiply to the original matrix — `P(s)·P(t) = P(s+t)` for a time-homogeneous model —
leaves the column likelihood unchanged. -/
theorem lh_edge_split {R α : Type} [CommSemiring R] (m : Nat) (π : Nat → R) (prof : α → Nat → R)
    (P0 : Mat R) {cs cs' : List (PTree R α)} (h : SplitL m cs cs') :
    lh m π prof (.node P0 cs) = lh m π prof (.node P0 cs') := by
  simp only [lh_eq, plh_node]
  exact Finset.sum_congr rfl fun s _ => by rw [prodUp_splitRel m prof h s]

example : SplitL 2 [PTree.leaf (matMul 2 exP exP) (0 : Nat), .leaf exP 1]
    [.node exP [.leaf exP 0], .leaf exP 1] :=
  .head _ _ _ (.here (.leaf (matMul 2 exP exP) 0) exP exP rfl)

/-! ## Added by the audit: missing non-vacuity examples and two composite root placements -/

example : lnLCompressed (fun k : Nat => 10 * k) (List.replicate 3 [3, 1, 3]).flatten = 3 • lnLCompressed (fun k : Nat => 10 * k) [3, 1, 3] := by
  decide

/-- `lh_leaf_relabel` on a non-trivial tree: tips renamed `a ↦ a + 10`, rows looked up under the new names -/
example : lh 2 (fun s => s + 1) (fun b s => if (b + s) % 2 = 0 then (1 : Nat) else 0) (exA.mapLeaves (· + 10))
    = lh 2 (fun s => s + 1) (fun a s => if (a + 10 + s) % 2 = 0 then (1 : Nat) else 0) exA := by decide

/-- the hypotheses of `lh_reroot_reversible` are jointly satisfiable on a non-trivial tree: the root of `exA`
moves across the edge above its internal child (`perm` then `move`), every edge matrix is `exP`, which is in
detailed balance with the uniform weights -/
def exC : PTree Nat Nat := .node exP [.node exP [.leaf exP 0, .leaf exP 3], .leaf exP 1, .leaf exP 2]
example : Reroot exA exC :=
  .trans _ (.node exP [.node exP [.leaf exP 1, .leaf exP 2], .leaf exP 0, .leaf exP 3]) _
    (.perm _ _ _ (List.Perm.swap _ _ _))
    (.move exP exP exP [.leaf exP 1, .leaf exP 2] [.leaf exP 0, .leaf exP 3])
example : ∀ P ∈ exA.edgeMats, DetailedBalance 2 (fun _ => (1 : Nat)) P := by
  intro P hP
  have hP' : P = exP := by
    simp only [exA, PTree.edgeMats, PTree.edgeMatsL, PTree.mat, List.mem_cons, List.mem_append, List.not_mem_nil, or_false, false_or, or_self] at hP
    exact hP
  subst hP'
  intro i j _ _; simp only [exP, one_mul]; by_cases h : i = j <;> simp [h, eq_comm]
example : lh 2 (fun _ => 1) (fun a s => if (a + s) % 2 = 0 then (1 : Nat) else 0) exA
    = lh 2 (fun _ => 1) (fun a s => if (a + s) % 2 = 0 then (1 : Nat) else 0) exC := by decide
/-- … and with non-uniform root weights (no detailed balance) the two root placements do differ -/
example : lh 2 (fun s => s + 1) (fun a s => if a = 1 then (if s = 0 then (1 : Nat) else 0) else 1) exA
    ≠ lh 2 (fun s => s + 1) (fun a s => if a = 1 then (if s = 0 then (1 : Nat) else 0) else 1) exC := by decide

/-- **Root placed inside an edge.** For a reversible (`DetailedBalance` of the upper piece `P1`) and
time-homogeneous (`x.mat = P1 · P2`) process, moving the root to a point *inside* the edge above the root's
child `x` — the new root has two children: `x` below the lower piece `P2`, and the old root (with its other
children `ds`) below the upper piece `P1` — leaves the column likelihood unchanged.  (`lh_edge_split` followed
by `lh_reroot_across_edge`; this is "the root is moved anywhere on the tree" for a point that is not a node.) -/
theorem lh_root_inside_edge {R α : Type} [CommSemiring R] (m : Nat) (π : Nat → R) (prof : α → Nat → R)
    (P0 P0' P1 P2 : Mat R) (x : PTree R α) (ds : List (PTree R α)) (hx : x.mat = matMul m P1 P2)
    (hdb : DetailedBalance m π P1) :
    lh m π prof (.node P0 (x :: ds)) = lh m π prof (.node P0' [.node P1 ds, x.setMat P2]) := by
  rw [lh_edge_split m π prof P0 (SplitL.head x (.node P1 [x.setMat P2]) ds (Split.here x P1 P2 hx)),
    lh_reroot_across_edge m π prof P0 P0' P1 [x.setMat P2] ds hdb]

/-- **A bifurcating root dissolved** (`TreeNode.unrooted()`): for a reversible process the root with the two
children `a` and `node P cs` can be removed, `a` then hangs directly on the former sister node below the
composed edge `P · a.mat` (time-homogeneity makes that `P(s + t)`).  (`perm`, `lh_reroot_across_edge`, then
`lh_edge_split` read from right to left.) -/
theorem lh_unroot_bifurcating {R α : Type} [CommSemiring R] (m : Nat) (π : Nat → R) (prof : α → Nat → R)
    (P0 P0' P : Mat R) (a : PTree R α) (cs : List (PTree R α)) (hdb : DetailedBalance m π P) :
    lh m π prof (.node P0 [a, .node P cs]) = lh m π prof (.node P0' (a.setMat (matMul m P a.mat) :: cs)) := by
  have hperm : lh m π prof (.node P0 [a, .node P cs]) = lh m π prof (.node P0 [.node P cs, a]) := by
    simp only [lh_eq, plh_node]
    exact Finset.sum_congr rfl fun s _ => by rw [prodUp_perm m prof (List.Perm.swap _ _ _) s]
  have hback : (a.setMat (matMul m P a.mat)).setMat a.mat = a := by cases a <;> rfl
  rw [hperm, lh_reroot_across_edge m π prof P0 P0' P cs [a] hdb,
    lh_edge_split m π prof P0' (SplitL.head (a.setMat (matMul m P a.mat)) _ cs
      (Split.here (a.setMat (matMul m P a.mat)) P a.mat (by simp))), hback]

example : lh 2 (fun _ => 1) (fun a s => if (a + s) % 2 = 0 then (1 : Nat) else 0)
      (.node exP [.leaf exP 0, .node exP [.leaf exP 1, .leaf exP 2]])
    = lh 2 (fun _ => 1) (fun a s => if (a + s) % 2 = 0 then (1 : Nat) else 0)
      (.node exP [.leaf (matMul 2 exP exP) 0, .leaf exP 1, .leaf exP 2]) := by decide
example : lh 2 (fun _ => 1) (fun a s => if (a + s) % 2 = 0 then (1 : Nat) else 0)
      (.node exP [.leaf (matMul 2 exP exP) 0, .leaf exP 1])
    = lh 2 (fun _ => 1) (fun a s => if (a + s) % 2 = 0 then (1 : Nat) else 0)
      (.node exP [.node exP [.leaf exP 1], .leaf exP 0]) := by decide

end CogentModel.C11
