import CogentModel.Proofs.C05GenLemmas
/-!
  C05 — the TRANSLATED decision logic equals the hand model, for all arguments.

  `Gen/C05Inst.lean` is rewritten on every run by `translator/c05_inst2lean.py` from the CURRENT source of
  `_ContinuousSubstitutionModel._is_instantaneous / _is_any_indel`, `_Codon._is_instantaneous`, the class constants
  `long_indels_are_instantaneous`, `ExpDefn.calc` and `_EigenPade.__call__`.  The theorems below are the proof
  obligations that connect that text to the definitions every other C05 theorem is about (`instMask`, and the
  back-end selection `backendFor` / `runBackend`): a semantic edit of one of those Python functions changes the
  generated definition and the corresponding `gen_*` theorem stops checking.
  The last three theorems are the property-level consequences for the selection of the exponentiator.
-/
namespace CogentModel.C05
open CogentModel.C05Gen CogentModel.Gen.C05Inst CogentModel.RateMatrix CogentModel.C05GenProofs

/-- `sum([X != Y for (X, Y) in zip(x, y)])` is the hand model's number of differing positions -/
theorem gen_countDiffs_eq (x y : List Nat) : countZip (fun X Y => X != Y) x y = nDiffs x y :=
  countZip_ne x y

example : countZip (fun X Y => X != Y) [0, 1, 2] [0, 2, 1] = 2 := by decide

/-- translated `_is_any_indel` (for-loop with three None-able state variables) = hand `isAnyIndel`, for every pair of
motifs, whenever the gap motif carries the gap character `g` at every position of `x` (cogent3: `gapmotif = "-" * L`) -/
theorem gen_isAnyIndel_eq (g : Nat) (li : Bool) (gm x y : List Nat) (hg : ∀ k, k < x.length → charAt gm k = g) :
    Gen.C05Inst.isAnyIndel li gm x y = RateMatrix.isAnyIndel g x y :=
  anyIndel_eq g li gm x y hg

example : Gen.C05Inst.isAnyIndel true [4, 4, 4] [0, 4, 4] [0, 1, 2] = true := by decide
example : Gen.C05Inst.isAnyIndel true [4, 4, 4] [4, 1, 4] [0, 1, 2] = false := by decide

/-- translated `_ContinuousSubstitutionModel._is_instantaneous` with the class constant as found in the source = hand
`isInstWord` (which hard-wires `long_indels_are_instantaneous = True`): turning the flag off breaks this theorem -/
theorem gen_isInstantaneous_eq (g : Nat) (gm x y : List Nat) (hg : ∀ k, k < x.length → charAt gm k = g) :
    isInstantaneous longIndels gm x y = isInstWord g x y :=
  inst_eq g gm x y hg

example : isInstantaneous longIndels [4, 4] [0, 1] [4, 4] = true := by decide
example : isInstantaneous longIndels [4, 4] [0, 1] [1, 0] = false := by decide

/-- translated `_Codon._is_instantaneous` = hand `isInstCodon`, the gap motif being `g` repeated `len(x)` times -/
theorem gen_codonIsInstantaneous_eq (g : Nat) (li : Bool) (x y : List Nat) :
    codonIsInstantaneous li (List.replicate x.length g) x y = isInstCodon g x y :=
  codon_eq g li x y

example : codonIsInstantaneous true [4, 4, 4] [4, 4, 4] [0, 1, 2] = true := by decide
example : codonIsInstantaneous true [4, 4, 4] [0, 4, 4] [0, 1, 2] = false := by decide

/-- hence every cell of the hand model's instantaneous mask is the value of the translated predicate on the two words
(all words of length `L`, gap motif `g^L`) -/
theorem gen_instMask_eq (codon : Bool) (g L : Nat) (words : Array (Array Nat)) (hL : ∀ i, i < words.size → (wordAt words i).length = L)
    (i j : Nat) (hi : i < words.size) (hj : j < words.size) :
    bget (instMask codon g words) i j =
      (if codon then codonIsInstantaneous codonLongIndels (List.replicate L g) (wordAt words i) (wordAt words j)
       else isInstantaneous longIndels (List.replicate L g) (wordAt words i) (wordAt words j)) := by
  have hget : bget (instMask codon g words) i j =
      (if codon then isInstCodon g (wordAt words i) (wordAt words j) else isInstWord g (wordAt words i) (wordAt words j)) := by
    simp [bget, instMask, tab, hi, hj]
  rw [hget]
  have hLi := hL i hi
  cases codon with
  | true =>
    simp only [if_true]
    rw [← hLi, gen_codonIsInstantaneous_eq]
  | false =>
    simp only [Bool.false_eq_true, if_false]
    rw [gen_isInstantaneous_eq g]
    intro k hk
    simp [charAt, List.getD_eq_getElem?_getD, hLi ▸ hk]

/-- translated `ExpDefn.calc` = the hand table, for EVERY string (`none` = `KeyError`) -/
theorem gen_expSelect_eq (expm : String) : expSelect expm = backendFor expm :=
  expSelect_eq expm

example : expSelect "either" = some (.eigenPade .checked) := by decide
example : expSelect "taylor" = none := by decide

/-- translated `_EigenPade.__call__` (try / except (ArithmeticError, LinAlgError) -> PadeExponentiator) = the hand
`runBackend` on `eigenPade`, for every outcome of the inner constructor -/
theorem gen_eigenPadeCall_eq {E : Type} (fast checked : Except ErrKind E) (pade : E) (e : Backend) :
    eigenPadeCall (runBackend fast checked pade e) (runBackend fast checked pade eigenPadeFallback)
      = runBackend fast checked pade (.eigenPade e) :=
  eigenPadeCall_eq fast checked pade e

example : eigenPadeCall (E := Nat) (.error .arithmetic) (.ok 7) = .ok 7 := rfl
example : eigenPadeCall (E := Nat) (.error .other) (.ok 7) = .error .other := rfl
example : eigenPadeCall (E := Nat) (.ok 3) (.ok 7) = .ok 3 := rfl

/-! ## what the selection guarantees ("agree across all exponentiation back-ends") -/

/-- only `expm = "eigen"` can hand out the UNCHECKED eigen exponentiator: under every other accepted setting the
exponentiator used for `Q` is either the one that passed `CheckedExponentiator`'s reconstruction test or Pade's -/
theorem selection_never_unchecked {E : Type} (expm : String) (b : Backend) (h : expSelect expm = some b) (hne : expm ≠ "eigen")
    (fast checked : Except ErrKind E) (pade r : E) (hr : runBackend fast checked pade b = .ok r) :
    checked = .ok r ∨ r = pade := by
  rw [gen_expSelect_eq] at h
  unfold backendFor backendTable at h
  simp only [List.lookup] at h
  have e1 : (expm == "eigen") = false := by simpa using hne
  rw [e1] at h
  by_cases h2 : expm = "checked"
  · subst h2
    have : b = .checked := by simpa using h.symm
    subst this; left; simpa [runBackend] using hr
  have e2 : (expm == "checked") = false := by simpa using h2
  rw [e2] at h
  by_cases h3 : expm = "pade"
  · subst h3
    have : b = .pade := by simpa using h.symm
    subst this; right; simpa [runBackend] using hr.symm
  have e3 : (expm == "pade") = false := by simpa using h3
  rw [e3] at h
  by_cases h4 : expm = "either"
  · subst h4
    have : b = .eigenPade .checked := by simpa using h.symm
    subst this
    simp only [runBackend] at hr
    cases hc : checked with
    | ok r' => rw [hc] at hr; left; simpa using hr
    | error k =>
      rw [hc] at hr
      by_cases hk : k = .arithmetic ∨ k = .linalg
      · right; simpa [hk] using hr.symm
      · simp [hk] at hr
  have e4 : (expm == "either") = false := by simpa using h4
  simp [e4] at h

example : ∃ b, expSelect "either" = some b ∧ runBackend (E := Nat) (.ok 1) (.error .arithmetic) 2 b = .ok 2 :=
  ⟨.eigenPade .checked, by decide, rfl⟩

/-- `expm = "either"` never fails for an `ArithmeticError` / `LinAlgError` of the eigen route: it then uses Pade -/
theorem either_falls_back {E : Type} (fast checked : Except ErrKind E) (pade : E) (hc : ∀ k, checked = .error k → k ≠ .other) :
    ∃ b r, expSelect "either" = some b ∧ runBackend fast checked pade b = .ok r ∧ (checked = .ok r ∨ (r = pade ∧ ∃ k, checked = .error k)) := by
  refine ⟨.eigenPade .checked, ?_⟩
  cases hk : checked with
  | ok r' => exact ⟨r', by decide, by simp [runBackend], Or.inl rfl⟩
  | error k =>
    have := hc k hk
    refine ⟨pade, by decide, ?_, Or.inr ⟨rfl, k, rfl⟩⟩
    cases k <;> simp_all [runBackend]

example : ∃ b r, expSelect "either" = some b ∧ runBackend (E := Nat) (.error .other) (.error .linalg) 5 b = .ok r ∧ r = 5 :=
  ⟨.eigenPade .checked, 5, by decide, rfl, rfl⟩

/-- the accepted settings are exactly the four documented ones -/
theorem expSelect_defined_iff (expm : String) :
    (expSelect expm).isSome = true ↔ expm = "eigen" ∨ expm = "checked" ∨ expm = "pade" ∨ expm = "either" := by
  rw [gen_expSelect_eq]
  unfold backendFor backendTable
  simp only [List.lookup]
  by_cases h1 : expm = "eigen"
  · subst h1; simp
  by_cases h2 : expm = "checked"
  · subst h2; simp
  by_cases h3 : expm = "pade"
  · subst h3; simp
  by_cases h4 : expm = "either"
  · subst h4; simp
  have e1 : (expm == "eigen") = false := by simpa using h1
  have e2 : (expm == "checked") = false := by simpa using h2
  have e3 : (expm == "pade") = false := by simpa using h3
  have e4 : (expm == "either") = false := by simpa using h4
  simp [e1, e2, e3, e4, h1, h2, h3, h4]

example : (expSelect "pade").isSome = true := by decide

end CogentModel.C05
