import CogentModel.Proofs.DataStoreSim
import CogentModel.Proofs.DataStoreSqlSim
import CogentModel.Model.DataStoreSqlite
import CogentModel.Gen.C13Names
/-! # C13 — data stores hold exactly what was written, record by record

Model: `Model/DataStore.lean` (DataStoreDirectory over an abstract file system, string handling
mirrored character by character), `Model/DataStoreSqlite.lean`.  Spec: `Spec/DataStoreDict.lean`.
The model follows the code after the repairs 5d49b05d8 (exact-name match in
`drop_not_completed`), fce82c149 (read-only check there) and 0dec94369 (a rewritten
not-completed record is listed once).  `cfg : Cfg` selects the code as it is (`Cfg.asIs`) or with the
proposed repair "a read-only store creates no directory" (`Cfg.repaired`); the refinement theorems
hold for every `cfg`.
-/
namespace CogentModel.C13
open CogentModel.KV CogentModel.DataStore CogentModel.DataStoreDict

variable {D : Type}

/-- **Directory store refines the dictionary (partial).**  For EVERY finite history `ops`, any
store suffix, any opening mode, any checksum function `H`, and any
identifier set `ids` that is name-hygienic (`hyg`, a decidable condition on the names only): if
every operation is `safe` in the dictionary state it is applied to, then what the store shows
after the history — having read its member lists (`populate`) — is what the dictionary holds:
completed / not-completed ids are exactly the dictionary keys, each listed once; `read()` of every
member is the dictionary value; every not-completed member's md5 is `H` of its content; every
completed member's md5 is `H` of its content, except — exactly — for the records in the ghost list
`lostRun` (those whose write retired a live not-completed record of the same identifier: `write`
deletes the shared md5 side file), whose md5 is missing; the log records are the dictionary's.
(A freshly re-opened store is the case
`ops ++ [reopen m]`, see `reopened_store_refines_dict_partial`.) -/
theorem store_refines_dict_partial (cfg : Cfg) (H : D → D) (sfx : Str) (ids : List Str) (mode : Mode)
    (ops : List (Op D)) (hy : hyg sfx ids = true)
    (hs : safeHist sfx ids (Dict.empty mode) ops = true) :
    let s := populate (run cfg H (Dir.create mode sfx) ops)
    let d := specRun .directory sfx (Dict.empty mode) ops
    let lost := lostRun sfx (Dict.empty mode) [] ops
    s.cCache.Nodup ∧ (∀ n, n ∈ s.cCache ↔ n ∈ keys d.completed) ∧
    s.ncCache.Nodup ∧ (∀ n, n ∈ s.ncCache ↔ n ∈ keys d.notCompleted) ∧
    (∀ n, get s.root n = get d.completed n) ∧ (∀ n, get s.nc n = get d.notCompleted n) ∧
    obsLogs s = d.logs ∧
    (∀ n v, get d.notCompleted n = some v → get s.md5 (md5Lookup s.sfx n) = some (H v)) ∧
    (∀ n v, get d.completed n = some v →
      get s.md5 (md5Lookup s.sfx n) = if n ∈ lost then none else some (H v)) :=
  obs_of_sim hy (run_sim hy ops _ _ _ (sim_create mode) hs)

/-- **Every call returns / raises what the dictionary model says (partial).**  After any safe
history, a safe operation `op` returns the member id the dictionary model names, raises `IOError`
exactly when the dictionary model rejects it (read-only store; append mode and the record exists),
and `drop_not_completed()` raises `FileNotFoundError` exactly when `not_completed/` is absent. -/
theorem store_results_match_dict_partial (cfg : Cfg) (H : D → D) (sfx : Str) (ids : List Str) (mode : Mode)
    (ops : List (Op D)) (op : Op D) (hy : hyg sfx ids = true)
    (hs : safeHist sfx ids (Dict.empty mode) ops = true)
    (ho : safe sfx ids (specRun .directory sfx (Dict.empty mode) ops) op = true) :
    (step cfg H (run cfg H (Dir.create mode sfx) ops) op).2 =
      expectRes sfx (specRun .directory sfx (Dict.empty mode) ops) (run cfg H (Dir.create mode sfx) ops).ncDir op :=
  (step_sim hy (run_sim hy ops _ _ _ (sim_create mode) hs) op ho).2

/- FULL STATEMENT (not proved): `store_refines_dict` — the same conclusion, with the last clause
   strengthened to `get s.md5 … = some (H v)` (i.e. `lost = []`), for every history and every identifier set, i.e.
   without `hyg` and `safeHist`.  It is FALSE for the code as it is; each remaining hypothesis is
   forced by a concrete behaviour of `DataStoreDirectory`, exhibited below by a `_counter` theorem
   and replayed on the real store by the harness:
   * the `lost` exception in the md5 clause and `safe (.writeNc)` "OVERWRITE mode: no completed record": the completed
     and the not-completed record of one identifier share the md5 side file, and `write` deletes it
     when it retires the not-completed record (`md5_lost_on_retire_counter`);
   * `safe (.write)`: OVERWRITE mode silently keeps the old record (`rewrite_ignored_counter`);
   * `safe (.writeNc)` "APPEND mode: no second not-completed record": append mode overwrites an
     existing not-completed record (`append_overwrites_not_completed_counter`);
   * `hyg` per-identifier clauses: `str.replace(suffix, …)` / `suffix in item` act on the whole
     identifier, so identifiers that merely contain the suffix are stored under other names
     (`suffix_substring_counter`); the pairwise clauses only ask that distinct records have
     distinct md5 side-file names; `safe (.writeLog)` asks the same of the log identifier.
   No longer needed since the repairs (and removed from `hyg` / `safe`): "no not-completed name is
   a suffix-match of another identifier" (5d49b05d8, `drop_matches_exact_name`), "no drop on a
   read-only store" (fce82c149, `readonly_drop_refused`), "no second not-completed write of one
   identifier" in OVERWRITE mode (0dec94369, `not_completed_rewrite_listed_once`). -/

/-- hypotheses of `store_refines_dict_partial` are satisfiable by non-trivial histories, including
    names that are suffixes of one another and a rewritten not-completed record -/
def fasta : Str := ['f','a','s','t','a']
def idA : Str := ['a']
def idBA : Str := ['b','a']
def idAfasta : Str := ['a','.','f','a','s','t','a']
def idB : Str := ['b']
def baJson : Str := ['b','a','.','j','s','o','n']
def aJson : Str := ['a','.','j','s','o','n']
def aFasta : Str := ['a','.','f','a','s','t','a']

/-- `write_nc('ba'); write_nc('a'); write('a.fasta')` -/
def witness : List (Op Nat) := [.writeNc idBA 1, .writeNc idA 2, .write idAfasta 3]

example : hyg fasta [idA, idBA, idAfasta] = true ∧
    safeHist fasta [idA, idBA, idAfasta] (Dict.empty .w) witness = true := by decide
example : hyg fasta [idA, idBA, idAfasta] = true ∧
    safeHist fasta [idA, idBA, idAfasta] (Dict.empty .a)
      [.writeNc idBA 1, .writeNc idA 2, .write idAfasta 3, .reopen .w, .writeNc idBA 4, .writeNc idBA 5, .drop idBA,
       .reopen .r, .drop []] = true := by decide

/-- the witness history (`write_nc('ba'); write_nc('a'); write('a.fasta')`): since 5d49b05d8 the store
    keeps `ba`'s record, as the dictionary does -/
theorem drop_matches_exact_name :
    (populate (run Cfg.asIs id (Dir.create .w fasta) witness)).ncCache = [baJson] ∧
    keys (specRun .directory fasta (Dict.empty .w) witness).notCompleted = [baJson] := by decide

/-- `write_nc('a'); write('a')`: the completed record ends up without md5 -/
theorem md5_lost_on_retire_counter :
    let s := populate (run Cfg.asIs (· + 100) (Dir.create .a fasta) [.writeNc idA 1, .write idA 2])
    s.cCache = [aFasta] ∧ get s.root aFasta = some 2 ∧ get s.md5 (md5Lookup fasta aFasta) = none ∧
    lostRun fasta (Dict.empty .a) [] [.writeNc idA (1 : Nat), .write idA 2] = [aFasta] := by decide

/-- `write('a', 1); write('a', 2)` in OVERWRITE mode keeps `1` -/
theorem rewrite_ignored_counter :
    get (run Cfg.asIs id (Dir.create .w fasta) [.write idA 1, .write idA 2]).root aFasta = some 1 ∧
    get (specRun .directory fasta (Dict.empty .w) [.write idA 1, .write idA 2]).completed aFasta = some 2 := by
  decide

/-- `write_nc('a', 1); write_nc('a', 2)` in APPEND mode overwrites the record (listed once since 0dec94369) -/
theorem append_overwrites_not_completed_counter :
    let s := run Cfg.asIs id (Dir.create .a fasta) [.writeNc idA 1, .writeNc idA 2]
    s.ncCache = [aJson] ∧ get s.nc aJson = some 2 ∧
    get (specRun .directory fasta (Dict.empty .a) [.writeNc idA 1, .writeNc idA 2]).notCompleted aJson = some 1 := by
  decide

/-- the same two writes in OVERWRITE mode: the record is replaced and listed once, as in the dictionary -/
theorem not_completed_rewrite_listed_once :
    let s := run Cfg.asIs id (Dir.create .w fasta) [.writeNc idA 1, .writeNc idA 2]
    s.ncCache = [aJson] ∧ get s.nc aJson = some 2 ∧
    get (specRun .directory fasta (Dict.empty .w) [.writeNc idA 1, .writeNc idA 2]).notCompleted aJson = some 2 := by
  decide

/-- since fce82c149 a read-only store refuses `drop_not_completed` -/
theorem readonly_drop_refused :
    keys (run Cfg.asIs id (Dir.create .w fasta) [.writeNc idA (1 : Nat), .reopen .r, .drop []]).nc = [aJson] ∧
    (step Cfg.asIs id (run Cfg.asIs id (Dir.create .w fasta) [.writeNc idA (1 : Nat), .reopen .r]) (.drop [])).2 = .err .ioError := by
  decide

/-- an identifier containing the suffix: `write_nc('sofasta.fasta')` is stored as `sojson.json`
    with its md5 under `sotxt.txt` -/
theorem suffix_substring_counter :
    let s := run Cfg.asIs id (Dir.create .w fasta) [.writeNc ['s','o','f','a','s','t','a','.','f','a','s','t','a'] 1]
    keys s.nc = [['s','o','j','s','o','n','.','j','s','o','n']] ∧
    keys s.md5 = [['s','o','t','x','t','.','t','x','t']] ∧
    hygId fasta ['s','o','f','a','s','t','a','.','f','a','s','t','a'] = false := by decide

/-! ## a freshly re-opened store -/

/-- closing and re-opening in any mode shows the same records (same statement as
    `store_refines_dict_partial` for the history followed by a re-open). -/
theorem reopened_store_refines_dict_partial (cfg : Cfg) (H : D → D) (sfx : Str) (ids : List Str) (mode m : Mode)
    (ops : List (Op D)) (hy : hyg sfx ids = true)
    (hs : safeHist sfx ids (Dict.empty mode) ops = true) :
    let s := populate (run cfg H (Dir.create mode sfx) (ops ++ [.reopen m]))
    let d := specRun .directory sfx (Dict.empty mode) ops
    let lost := lostRun sfx (Dict.empty mode) [] ops
    s.cCache.Nodup ∧ (∀ n, n ∈ s.cCache ↔ n ∈ keys d.completed) ∧
    s.ncCache.Nodup ∧ (∀ n, n ∈ s.ncCache ↔ n ∈ keys d.notCompleted) ∧
    (∀ n, get s.root n = get d.completed n) ∧ (∀ n, get s.nc n = get d.notCompleted n) ∧
    obsLogs s = d.logs ∧
    (∀ n v, get d.notCompleted n = some v → get s.md5 (md5Lookup s.sfx n) = some (H v)) ∧
    (∀ n v, get d.completed n = some v →
      get s.md5 (md5Lookup s.sfx n) = if n ∈ lost then none else some (H v)) := by
  have h := store_refines_dict_partial cfg H sfx ids mode (ops ++ [.reopen m]) hy
    (by rw [safeHist_append_reopen]; exact hs)
  obtain ⟨e1, e2, e3⟩ := specRun_append_reopen sfx m ops (Dict.empty mode)
  simp only [e1, e2, e3, lostRun_append_reopen] at h
  exact h

example : safeHist fasta [idA, idBA, idAfasta] (Dict.empty .w) (witness ++ [.reopen .r]) = true := by decide

/-! ## corollaries -/

/-- the identifier an operation names (`none`: drop-all, log, re-open, observe, unlock) -/
def opId : Op D → Option Str
  | .write i _ => some i
  | .writeNc i _ => some i
  | .drop i => if i.isEmpty then none else some i
  | _ => none

/-- dictionary level: an operation on `i` leaves every record other than `i`'s two records alone -/
theorem spec_op_local (k : Kind) (sfx : Str) (d : Dict D) (op : Op D) (i : Str) (hi : opId op = some i) (n : Str)
    (hc : n ≠ cName k sfx i) (hn : n ≠ ncName k i) :
    get (specStep k sfx d op).completed n = get d.completed n ∧
    get (specStep k sfx d op).notCompleted n = get d.notCompleted n := by
  unfold specStep
  split
  · exact ⟨rfl, rfl⟩
  · cases op with
    | write j data =>
      simp only [opId, Option.some.injEq] at hi; subst hi
      simp [DataStoreDict.apply, get_put, get_del, hc, hn]
    | writeNc j data =>
      simp only [opId, Option.some.injEq] at hi; subst hi
      simp [DataStoreDict.apply, get_put, hn]
    | drop j =>
      simp only [opId] at hi
      by_cases he : j.isEmpty = true
      · simp [he] at hi
      · have he' : j.isEmpty = false := by simpa using he
        simp only [he', Bool.false_eq_true, if_false, Option.some.injEq] at hi; subst hi
        simp [DataStoreDict.apply, he', get_del, hn]
    | writeLog j data => simp [opId] at hi
    | reopen m => simp [opId] at hi
    | observe => simp [opId] at hi
    | unlock => simp [opId] at hi

/-- **An operation on one identifier never changes any other record (partial).**  In any state
related to a dictionary state by the simulation (so: after any safe history), a safe operation
naming `i` leaves the content of every file other than `i`'s completed and not-completed record
unchanged — in the store itself, not only in the dictionary. -/
theorem op_on_id_is_local_partial (cfg : Cfg) (H : D → D) (sfx : Str) (ids lost : List Str) (s : Dir D) (d : Dict D)
    (hy : hyg sfx ids = true) (h : Sim H sfx ids lost s d) (op : Op D) (hs : safe sfx ids d op = true)
    (i : Str) (hi : opId op = some i) (n : Str) (hc : n ≠ cN sfx i) (hn : n ≠ ncN i) :
    get (step cfg H s op).1.root n = get s.root n ∧ get (step cfg H s op).1.nc n = get s.nc n ∧
    (step cfg H s op).1.logs = s.logs := by
  have h' := (step_sim (cfg := cfg) hy h op hs).1
  have hl : (specStep .directory sfx d op).logs = d.logs := by
    unfold specStep; split
    · rfl
    · cases op <;> simp_all [DataStoreDict.apply, opId]
      split <;> rfl
  obtain ⟨e1, e2⟩ := spec_op_local .directory sfx d op i hi n hc hn
  rw [h'.root, h'.nc, h'.logs, h.root, h.nc, h.logs]
  exact ⟨e1, e2, hl⟩

/- FULL STATEMENT (not proved): `op_on_id_is_local` without `hyg`/`safe`/`Sim` — false for the code
   as it is: `suffix_substring_counter` (identifiers containing the suffix collide: `fasta_x` and
   `json_x` both become `json_x.json`), `md5_lost_on_retire_counter` (md5 side file shared). -/

example : opId (.write idAfasta 3 : Op Nat) = some idAfasta ∧ baJson ≠ cN fasta idAfasta ∧ baJson ≠ ncN idAfasta := by
  decide

/-- dictionary level: in append mode no existing record's content changes; a not-completed
    record may only disappear (retired or dropped) -/
theorem spec_append_never_overwrites (k : Kind) (sfx : Str) (d : Dict D) (op : Op D) (hm : d.mode = .a)
    (hop : ∀ m, op ≠ .reopen m) (n : Str) (v : D) :
    (get d.completed n = some v → get (specStep k sfx d op).completed n = some v) ∧
    (get d.notCompleted n = some v →
      get (specStep k sfx d op).notCompleted n = some v ∨
      get (specStep k sfx d op).notCompleted n = none) := by
  unfold specStep
  split
  · exact ⟨id, Or.inl⟩
  · rename_i hrej
    cases op with
    | write j data =>
      have hj : has d.completed (cName k sfx j) = false := by
        cases hb : has d.completed (cName k sfx j) with
        | false => rfl
        | true => exact absurd (by simp [rejects, hm, hb]) hrej
      constructor
      · intro hg
        have : n ≠ cName k sfx j := by
          intro e; subst e
          simp [has, hg] at hj
        simp [DataStoreDict.apply, get_put, this, hg]
      · intro hg
        simp only [DataStoreDict.apply, get_del]
        by_cases e : n = ncName k j
        · right; simp [e]
        · left; simp [e, hg]
    | writeNc j data =>
      have hj : has d.notCompleted (ncName k j) = false := by
        cases hb : has d.notCompleted (ncName k j) with
        | false => rfl
        | true => exact absurd (by simp [rejects, hm, hb]) hrej
      constructor
      · intro hg; simp [DataStoreDict.apply, hg]
      · intro hg
        have : n ≠ ncName k j := by
          intro e; subst e
          simp [has, hg] at hj
        left; simp [DataStoreDict.apply, get_put, this, hg]
    | drop j =>
      constructor
      · intro hg
        by_cases he : j.isEmpty = true <;> simp [DataStoreDict.apply, he, hg]
      · intro hg
        by_cases he : j.isEmpty = true
        · right; simp [DataStoreDict.apply, he, KV.get]
        · have he' : j.isEmpty = false := by simpa using he
          simp only [DataStoreDict.apply, he', Bool.false_eq_true, if_false, get_del]
          by_cases e : n = ncName k j
          · right; simp [e]
          · left; simp [e, hg]
    | writeLog j data => exact ⟨fun hg => by simp [DataStoreDict.apply, hg], fun hg => Or.inl (by simp [DataStoreDict.apply, hg])⟩
    | reopen m => exact absurd rfl (hop m)
    | observe => exact ⟨fun hg => by simp [DataStoreDict.apply, hg], fun hg => Or.inl (by simp [DataStoreDict.apply, hg])⟩
    | unlock => exact ⟨fun hg => by simp [DataStoreDict.apply, hg], fun hg => Or.inl (by simp [DataStoreDict.apply, hg])⟩

/-- **Append mode never overwrites (partial).**  In append mode a safe operation leaves every
stored completed file's content unchanged and every not-completed file unchanged or removed —
in the store itself. -/
theorem append_never_overwrites_partial (cfg : Cfg) (H : D → D) (sfx : Str) (ids lost : List Str) (s : Dir D) (d : Dict D)
    (hy : hyg sfx ids = true) (h : Sim H sfx ids lost s d) (op : Op D) (hs : safe sfx ids d op = true)
    (hm : s.mode = .a) (hop : ∀ m, op ≠ .reopen m) (n : Str) (v : D) :
    (get s.root n = some v → get (step cfg H s op).1.root n = some v) ∧
    (get s.nc n = some v → get (step cfg H s op).1.nc n = some v ∨ get (step cfg H s op).1.nc n = none) := by
  have h' := (step_sim (cfg := cfg) hy h op hs).1
  rw [h'.root, h'.nc, h.root, h.nc]
  exact spec_append_never_overwrites .directory sfx d op (h.hmode ▸ hm) hop n v

/- FULL STATEMENT (not proved): `append_never_overwrites` without `hyg`/`safe`/`Sim` — false for the
   code as it is: `append_overwrites_not_completed_counter`. -/

example : (Dict.empty .a : Dict Nat).mode = .a ∧ safe fasta [idA] (Dict.empty .a) (.write idA (1 : Nat)) = true := by
  decide

/-! ## read-only mode (no hygiene needed: holds for ALL identifiers) -/

/-- the files of the store: completed, not-completed, logs, md5 -/
def files (s : Dir D) : KV D × KV D × KV D × KV D := (s.root, s.nc, s.logs, s.md5)

/-- which of the sub-directories `not_completed/`, `logs/` exist -/
def dirs (s : Dir D) : Bool × Bool := (s.ncDir, s.logsDir)

/-- **Read-only mode never mutates (files).**  NO operation on a read-only store changes any file,
for every identifier and every state (no hygiene or history hypothesis), for the code as it is. -/
theorem readonly_never_mutates (cfg : Cfg) (H : D → D) (s : Dir D) (op : Op D) (hm : s.mode = .r) :
    files (step cfg H s op).1 = files s := by
  cases op with
  | write i data => simp [step, write, writeCore, hm, files]
  | writeNc i data =>
    simp only [step, writeNc]
    by_cases hc : (cfg.roWriteNoMkdir && decide (s.mode = .r)) = true
    · rw [if_pos hc]; rw [writeCore_ro hm]
    · rw [if_neg hc]; rw [writeCore_ro (s := { s with ncDir := true }) hm]; rfl
  | writeLog i data =>
    simp only [step, writeLog]
    by_cases hc : (cfg.roWriteNoMkdir && decide (s.mode = .r)) = true
    · rw [if_pos hc]; rw [writeCore_ro hm]
    · rw [if_neg hc]; rw [writeCore_ro (s := { s with logsDir := true }) hm]; rfl
  | drop i => simp [step, dropNc, hm, files]
  | reopen m => simp [step, reopen, files]
  | observe => simp [step, populate, files]
  | unlock => simp [step, files]

/-- **Read-only mode never mutates (files AND directories).**  With the proposed repair
(`Cfg.repaired`: the constructor and `write_not_completed` / `write_log` create no directory on a
read-only store), no operation on a read-only store — including closing and re-opening it
read-only — changes any file or creates / removes any sub-directory. -/
theorem readonly_never_mutates_dirs (H : D → D) (s : Dir D) (op : Op D) (hm : s.mode = .r)
    (hop : ∀ m, op = .reopen m → m = .r) :
    files (step Cfg.repaired H s op).1 = files s ∧ dirs (step Cfg.repaired H s op).1 = dirs s := by
  refine ⟨readonly_never_mutates _ H s op hm, ?_⟩
  cases op with
  | write i data => simp [step, write, writeCore, hm, dirs]
  | writeNc i data => simp [step, writeNc, writeCore, hm, dirs, Cfg.repaired]
  | writeLog i data => simp [step, writeLog, writeCore, hm, dirs, Cfg.repaired]
  | drop i => simp [step, dropNc, hm, dirs]
  | reopen m =>
    have := hop m rfl
    subst this
    simp [step, reopen, dirs, Cfg.repaired]
  | observe => simp [step, populate, dirs]
  | unlock => simp [step, dirs]

/- FULL STATEMENT (not proved): `readonly_never_mutates_dirs` for `Cfg.asIs` — false:
   `readonly_creates_directory_counter` (the constructor with `mode="r"` and
   `write_not_completed` on a read-only store create `not_completed/`). -/

/-- code as it is: re-opening read-only (mode given as the string "r") after `drop_not_completed()`
    re-creates `not_completed/`; so does `write_not_completed` on a read-only store that lacks it
    (it raises `IOError` only after the `mkdir`) -/
theorem readonly_creates_directory_counter :
    let s0 : Dir Nat := run Cfg.asIs id (Dir.create .w fasta) [.writeNc idA 1, .drop []]
    s0.ncDir = false ∧ (step Cfg.asIs id s0 (.reopen .r)).1.ncDir = true ∧
    (step Cfg.repaired id s0 (.reopen .r)).1.ncDir = false ∧
    (let s : Dir Nat := { (Dir.create .r fasta : Dir Nat) with ncDir := false }
     (step Cfg.asIs id s (.writeNc idA 1)).2 = .err .ioError ∧ (step Cfg.asIs id s (.writeNc idA 1)).1.ncDir = true ∧
     (step Cfg.repaired id s (.writeNc idA 1)).1.ncDir = false) := by decide

example : (reopen Cfg.asIs (run Cfg.asIs id (Dir.create .w fasta) [.writeNc idA (1 : Nat)]) .r).mode = .r := by decide

/-! ## the abstract file system keeps one entry per path -/

/-- `put`/`del` keep the keys of an association list free of duplicates -/
theorem fs_no_duplicate_paths (m : KV D) (k : Str) (v : D) (h : (keys m).Nodup) :
    (keys (put m k v)).Nodup ∧ (keys (del m k)).Nodup :=
  ⟨nodup_put m k v h, nodup_del m k h⟩

example : (keys (put (put ([] : KV Nat) idA 1) idA 2)).Nodup := by decide

/-! ## SQLite store: read-only never mutates -/

open CogentModel.DataStoreSqlite in
/-- No operation changes the `results` table or the `logs` table of a read-only SQLite store
(any identifier, any cache state, connected or not). -/
theorem sqlite_readonly_never_mutates (H : D → D) (s : Sql D) (op : Op D) (hm : s.mode = .r) :
    (DataStoreSqlite.step H s op).1.rows = s.rows ∧ (DataStoreSqlite.step H s op).1.logRows = s.logRows := by
  have hc : (connect s).1.rows = s.rows ∧ (connect s).1.logRows = s.logRows ∧ (connect s).1.mode = .r := by
    unfold connect; simp only [hm, if_true]
    split
    · exact ⟨rfl, rfl, hm⟩
    · split
      · exact ⟨rfl, rfl, rfl⟩
      · exact ⟨rfl, rfl, hm⟩
  cases op with
  | write i data => simp [DataStoreSqlite.step, DataStoreSqlite.write, checkWritable, hm]
  | writeNc i data => simp [DataStoreSqlite.step, DataStoreSqlite.writeNc, checkWritable, hm]
  | writeLog i data => simp [DataStoreSqlite.step, DataStoreSqlite.writeLog, checkWritable, hm]
  | drop i =>
    simp only [DataStoreSqlite.step, DataStoreSqlite.dropNc]
    generalize hx : connect s = x at hc
    obtain ⟨s1, e⟩ := x
    cases e with
    | some e => exact ⟨hc.1, hc.2.1⟩
    | none =>
      simp only at hc
      simp [hc.2.2, hc.1, hc.2.1]
  | reopen m => simp [DataStoreSqlite.step, DataStoreSqlite.reopen, hc.1, hc.2.1]
  | observe =>
    simp only [DataStoreSqlite.step, DataStoreSqlite.observe]
    generalize hx : connect s = x at hc
    obtain ⟨s1, e⟩ := x
    cases e with
    | some e => exact ⟨hc.1, hc.2.1⟩
    | none =>
      simp only at hc
      simp only [DataStoreSqlite.populate]
      split <;> split <;> simp [hc.1, hc.2.1]
  | unlock => simp [DataStoreSqlite.step, DataStoreSqlite.unlock, hm]

example : (DataStoreSqlite.reopen (DataStoreSqlite.run id (DataStoreSqlite.Sql.create .w) [.write idA (1 : Nat)]) .r).mode = .r := by
  decide

/-! ## additions of the audit (non-vacuity of the `Sim` hypotheses, what `files` leaves out) -/

/-- the `Sim` hypothesis of `op_on_id_is_local_partial` / `append_never_overwrites_partial` is
    inhabited by a non-trivial state: the store after the witness history (two not-completed records
    with suffix-related names written, one retired by a completed write), with a further safe
    operation naming `ba` -/
example : Sim (id : Nat → Nat) fasta [idA, idBA, idAfasta] (lostRun fasta (Dict.empty .w) [] witness)
      (run Cfg.asIs id (Dir.create .w fasta) witness) (specRun .directory fasta (Dict.empty .w) witness) ∧
    safe fasta [idA, idBA, idAfasta] (specRun .directory fasta (Dict.empty .w) witness) (.write idBA (7 : Nat)) = true ∧
    opId (.write idBA 7 : Op Nat) = some idBA ∧ aFasta ≠ cN fasta idBA ∧ aFasta ≠ ncN idBA :=
  ⟨run_sim (by decide) witness _ _ _ (sim_create .w) (by decide), by decide, by decide, by decide, by decide⟩

/-- … and in APPEND mode with stored records of both kinds (`append_never_overwrites_partial`) -/
example : Sim (id : Nat → Nat) fasta [idA, idBA, idAfasta] (lostRun fasta (Dict.empty .a) [] witness)
      (run Cfg.asIs id (Dir.create .a fasta) witness) (specRun .directory fasta (Dict.empty .a) witness) ∧
    (run Cfg.asIs id (Dir.create .a fasta) witness : Dir Nat).mode = .a ∧
    get (run Cfg.asIs id (Dir.create .a fasta) witness : Dir Nat).root aFasta = some 3 ∧
    get (run Cfg.asIs id (Dir.create .a fasta) witness : Dir Nat).nc baJson = some 1 ∧
    safe fasta [idA, idBA, idAfasta] (specRun .directory fasta (Dict.empty .a) witness) (.write idBA (7 : Nat)) = true :=
  ⟨run_sim (by decide) witness _ _ _ (sim_create .a) (by decide), by decide, by decide, by decide, by decide⟩

open CogentModel.DataStoreSqlite in
/-- stronger form of `sqlite_readonly_never_mutates`: every PERSISTENT component of the database —
the two tables, the `state.lock_pid` cell and the existence of the file — is unchanged by any
operation on a read-only SQLite store (only the in-memory connection flag and caches may change). -/
theorem sqlite_readonly_never_mutates_db (H : D → D) (s : Sql D) (op : Op D) (hm : s.mode = .r) :
    (DataStoreSqlite.step H s op).1.rows = s.rows ∧ (DataStoreSqlite.step H s op).1.logRows = s.logRows ∧
    (DataStoreSqlite.step H s op).1.locked = s.locked ∧ (DataStoreSqlite.step H s op).1.fileExists = s.fileExists := by
  have hc : (connect s).1.rows = s.rows ∧ (connect s).1.logRows = s.logRows ∧ (connect s).1.mode = .r ∧
      (connect s).1.locked = s.locked ∧ (connect s).1.fileExists = s.fileExists := by
    unfold connect; simp only [hm, if_true]
    split
    · exact ⟨rfl, rfl, hm, rfl, rfl⟩
    · split
      · exact ⟨rfl, rfl, rfl, rfl, rfl⟩
      · exact ⟨rfl, rfl, hm, rfl, rfl⟩
  cases op with
  | write i data => simp [DataStoreSqlite.step, DataStoreSqlite.write, checkWritable, hm]
  | writeNc i data => simp [DataStoreSqlite.step, DataStoreSqlite.writeNc, checkWritable, hm]
  | writeLog i data => simp [DataStoreSqlite.step, DataStoreSqlite.writeLog, checkWritable, hm]
  | drop i =>
    simp only [DataStoreSqlite.step, DataStoreSqlite.dropNc]
    generalize hx : connect s = x at hc
    obtain ⟨s1, e⟩ := x
    cases e with
    | some e => exact ⟨hc.1, hc.2.1, hc.2.2.2.1, hc.2.2.2.2⟩
    | none =>
      simp only at hc
      simp [hc.2.2.1, hc.1, hc.2.1, hc.2.2.2.1, hc.2.2.2.2]
  | reopen m => simp [DataStoreSqlite.step, DataStoreSqlite.reopen, hc.1, hc.2.1, hc.2.2.2.1, hc.2.2.2.2]
  | observe =>
    simp only [DataStoreSqlite.step, DataStoreSqlite.observe]
    generalize hx : connect s = x at hc
    obtain ⟨s1, e⟩ := x
    cases e with
    | some e => exact ⟨hc.1, hc.2.1, hc.2.2.2.1, hc.2.2.2.2⟩
    | none =>
      simp only at hc
      simp only [DataStoreSqlite.populate]
      split <;> split <;> simp [hc.1, hc.2.1, hc.2.2.2.1, hc.2.2.2.2]
  | unlock => simp [DataStoreSqlite.step, DataStoreSqlite.unlock, hm]

-- a read-only store on a LOCKED database with a completed and a not-completed row
example : let s := DataStoreSqlite.reopen (DataStoreSqlite.run id (DataStoreSqlite.Sql.create .w) [.write idA (1 : Nat), .writeNc idB 2]) .r
    s.mode = .r ∧ s.locked = true ∧ s.fileExists = true ∧ s.rows.length = 2 := by decide

/-- `write(unique_id="logs/x.fasta")`: with the record written first (code as it is) the call fails on the
    md5 file and leaves the record as a stray file under `logs/`; with the md5 file written first
    (fixes/C19-datastore-atomic-record.patch) it fails before anything is written.  Both raise
    `FileNotFoundError`; for identifiers without a directory part the two orders are indistinguishable
    (the refinement theorems hold for every `cfg`). -/
theorem write_order_only_matters_for_directory_ids :
    let uid : Str := ['l','o','g','s','/','x','.','f','a','s','t','a']
    (step Cfg.asIs id (Dir.create .w fasta : Dir Nat) (.write uid 1)).2 = .err .fileNotFound ∧
    keys (step Cfg.asIs id (Dir.create .w fasta : Dir Nat) (.write uid 1)).1.logs = [['x','.','f','a','s','t','a']] ∧
    (step Cfg.repaired id (Dir.create .w fasta : Dir Nat) (.write uid 1)).2 = .err .fileNotFound ∧
    (step Cfg.repaired id (Dir.create .w fasta : Dir Nat) (.write uid 1)).1.logs = [] := by decide

/-! ## SQLite store: refinement of the dictionary -/

open CogentModel.DataStoreSqlite in
/-- **SQLite store refines the dictionary (partial).**  For EVERY finite history of write /
write_not_completed / write_log / drop_not_completed (one, all) / close+re-open(mode) / unlock /
observation over ANY identifiers (incl. the `results/<id>` and `logs/<id>` spellings), any opening
mode and checksum function: if the connection is never refused (`connOk`: no OVERWRITE of a locked
database) and every operation is `safeS` — which excludes exactly the two open SQLite findings
(a not-completed write in OVERWRITE mode over an existing record) and two degenerate spellings —
then the `results` table holds exactly the dictionary's records: the completed / not-completed member
lists (`populate`) are the dictionary keys, each listed once; every completed key has the row
`(data, md5 = H data, is_completed = 1)`, every not-completed key the row `(data, H data, 0)`, and
there is no other row. -/
theorem sqlite_store_refines_dict_partial (H : D → D) (mode : Mode) (ops : List (Op D))
    (hs : safeHistS H (Sql.create mode) (Dict.empty mode) ops = true) :
    let s := DataStoreSqlite.populate (DataStoreSqlite.run H (Sql.create mode) ops)
    let d := specRun .sqlite [] (Dict.empty mode) ops
    s.cCache.Nodup ∧ (∀ n, n ∈ s.cCache ↔ n ∈ keys d.completed) ∧
    s.ncCache.Nodup ∧ (∀ n, n ∈ s.ncCache ↔ n ∈ keys d.notCompleted) ∧
    (∀ n v, get d.completed n = some v → get s.rows n = some ⟨v, H v, true⟩) ∧
    (∀ n v, get d.notCompleted n = some v → get s.rows n = some ⟨v, H v, false⟩) ∧
    (∀ n, get d.completed n = none → get d.notCompleted n = none → get s.rows n = none) := by
  have h := run_simS ops _ _ (simS_create (H := H) mode) hs
  obtain ⟨hp, hf⟩ := simS_populate h
  refine ⟨hf.cnd, hf.cmem, hf.nnd, hf.nmem, ?_, ?_, ?_⟩
  · intro n v hg; rw [hp.rows n]; simp [rowOf, hg]
  · intro n v hg
    have hnc : get (specRun .sqlite [] (Dict.empty mode) ops).completed n = none := by
      apply get_none_of_not_mem
      intro hc
      exact hp.disj n hc (mem_of_get_some hg)
    rw [hp.rows n]; simp [rowOf, hg, hnc]
  · intro n h1 h2; rw [hp.rows n]; simp [rowOf, h1, h2]

/- FULL STATEMENT (not proved): `sqlite_store_refines_dict` without `safeS` — false for the code as it
   is: `sqlite_nc_over_completed_counter` (OVERWRITE mode: `write_not_completed` on an existing
   completed record UPDATEs its data, keeps `is_completed = 1` and lists the id in both member
   lists) and `sqlite_nc_twice_counter` (the member is listed twice). -/

def sqlHist : List (Op Nat) :=
  [.writeNc idBA 1, .writeNc idA 2, .write (sResults ++ '/' :: idA) 3, .writeLog idB 9, .drop idBA, .unlock, .reopen .a,
   .write idBA 4, .writeNc idB 5, .observe, .reopen .r, .observe, .drop []]

open CogentModel.DataStoreSqlite in
example : safeHistS id (Sql.create .w) (Dict.empty .w) sqlHist = true ∧
    keys (specRun .sqlite [] (Dict.empty .w) sqlHist).completed = [idBA, idA] ∧
    keys (specRun .sqlite [] (Dict.empty .w) sqlHist).notCompleted = [idB] := by decide

open CogentModel.DataStoreSqlite in
/-- OVERWRITE mode, `write('a', 1); write_not_completed('a', 2)`: the completed record now holds 2 and
    the id is listed as completed AND not completed; the dictionary keeps 1 and adds a separate record -/
theorem sqlite_nc_over_completed_counter :
    let s := DataStoreSqlite.run id (Sql.create .w) [.write idA (1 : Nat), .writeNc idA 2]
    (get s.rows idA).map (fun r => (r.data, r.completed)) = some (2, true) ∧ s.cCache = [idA] ∧ s.ncCache = [idA] ∧
    get (specRun .sqlite [] (Dict.empty .w) [.write idA (1 : Nat), .writeNc idA 2]).completed idA = some 1 := by
  decide

open CogentModel.DataStoreSqlite in
/-- OVERWRITE mode, two `write_not_completed('a')`: listed twice -/
theorem sqlite_nc_twice_counter :
    (DataStoreSqlite.run id (Sql.create .w) [.writeNc idA (1 : Nat), .writeNc idA 2]).ncCache = [idA, idA] := by
  decide

open CogentModel.DataStoreSqlite in
/-- **SQLite: an operation on one identifier never changes any other record (partial).** -/
theorem sqlite_op_on_id_is_local_partial (H : D → D) (s : Sql D) (d : Dict D) (h : SimS H s d) (op : Op D)
    (hc : connOk s = true) (hs : safeS d op = true) (i : Str) (hi : opId op = some i) (n : Str) (hn : n ≠ sN i) :
    get (DataStoreSqlite.step H s op).1.rows n = get s.rows n := by
  have h' := step_simS h op hc hs
  obtain ⟨e1, e2⟩ := spec_op_local .sqlite [] d op i hi n hn hn
  rw [h'.rows n, h.rows n]
  simp [rowOf, e1, e2]

open CogentModel.DataStoreSqlite in
/-- **SQLite: append mode never overwrites (partial).**  In append mode a safe operation leaves every
completed row unchanged (data, md5, flag) and every not-completed row unchanged or removed. -/
theorem sqlite_append_never_overwrites_partial (H : D → D) (s : Sql D) (d : Dict D) (h : SimS H s d) (op : Op D)
    (hc : connOk s = true) (hs : safeS d op = true) (hm : s.mode = .a) (hop : ∀ m, op ≠ .reopen m)
    (n : Str) (r : Row D) (hr : get s.rows n = some r) :
    (r.completed = true → get (DataStoreSqlite.step H s op).1.rows n = some r) ∧
    (r.completed = false → get (DataStoreSqlite.step H s op).1.rows n = some r ∨
      get (DataStoreSqlite.step H s op).1.rows n = none) := by
  have h' := step_simS h op hc hs
  rw [h.rows n] at hr
  rw [h'.rows n]
  cases hcd : get d.completed n with
  | some v =>
    obtain ⟨e1, _⟩ := spec_append_never_overwrites .sqlite [] d op (h.hmode ▸ hm) hop n v
    simp only [rowOf, hcd, Option.some.injEq] at hr
    subst hr
    refine ⟨fun _ => ?_, fun hf => (by cases hf)⟩
    simp [rowOf, e1 hcd]
  | none =>
    cases hnd : get d.notCompleted n with
    | none => simp [rowOf, hcd, hnd] at hr
    | some v =>
      simp only [rowOf, hcd, hnd, Option.map_some, Option.some.injEq] at hr
      subst hr
      refine ⟨fun hf => (by cases hf), fun _ => ?_⟩
      -- the completed side stays empty for `n` unless `n` itself is written; then the row changes kind
      obtain ⟨_, e2⟩ := spec_append_never_overwrites .sqlite [] d op (h.hmode ▸ hm) hop n v
      have hc' : get (specStep .sqlite [] d op).completed n = none := by
        unfold specStep
        split
        · exact hcd
        · rename_i hrej
          cases op with
          | write j data =>
            have hne : n ≠ cName .sqlite [] j := by
              intro e
              apply hrej
              have : has d.notCompleted (ncName .sqlite j) = true := by
                have : ncName .sqlite j = n := e.symm
                simp [has, this, hnd]
              simp [rejects, h.hmode ▸ hm, this]
            simp [DataStoreDict.apply, get_put, hne, hcd]
          | writeNc j data => simp [DataStoreDict.apply, hcd]
          | writeLog j data => simp [DataStoreDict.apply, hcd]
          | drop j => by_cases he : j.isEmpty = true <;> simp [DataStoreDict.apply, he, hcd]
          | reopen m => exact absurd rfl (hop m)
          | observe => simp [DataStoreDict.apply, hcd]
          | unlock => simp [DataStoreDict.apply, hcd]
      rcases e2 hnd with e | e
      · left; simp [rowOf, hc', e]
      · right; simp [rowOf, hc', e]

open CogentModel.DataStoreSqlite in
example : SimS (id : Nat → Nat) (DataStoreSqlite.run id (Sql.create .a) [.write idA 1, .writeNc idBA 2])
      (specRun .sqlite [] (Dict.empty .a) [.write idA (1 : Nat), .writeNc idBA 2]) ∧
    safeS (specRun .sqlite [] (Dict.empty .a) [.write idA (1 : Nat), .writeNc idBA 2]) (.write idBA (7 : Nat)) = true :=
  ⟨run_simS _ _ _ (simS_create .a) (by decide), by decide⟩


/-! ## `validate()` -/

/-- **`validate()` reports what the dictionary predicts (partial).**  Under the hypotheses of
`store_refines_dict_partial`, after ANY history: no member has an incorrect md5; the members whose md5 is missing are
exactly the listed completed records of the ghost list `lostRun` (shared md5 side file deleted by the retiring write);
every other member counts as correct; `Has log` is true iff the dictionary holds a log record. -/
theorem validate_matches_dict_partial [DecidableEq D] (cfg : Cfg) (H : D → D) (sfx : Str) (ids : List Str) (mode : Mode)
    (ops : List (Op D)) (hy : hyg sfx ids = true)
    (hs : safeHist sfx ids (Dict.empty mode) ops = true) :
    let s := populate (run cfg H (Dir.create mode sfx) ops)
    let d := specRun .directory sfx (Dict.empty mode) ops
    let lost := lostRun sfx (Dict.empty mode) [] ops
    let v := validateDir H s
    v.incorrect = 0 ∧
    v.missing = (s.cCache.filter (· ∈ lost)).length ∧
    v.correct + v.missing = s.cCache.length + s.ncCache.length ∧
    v.hasLog = !d.logs.isEmpty := by
  intro s d lost v
  obtain ⟨_, hc, _, hn, hroot, hnc, hlogs, hmn, hmc⟩ := store_refines_dict_partial cfg H sfx ids mode ops hy hs
  -- every listed member has its dictionary value and the md5 the theorem states
  have hcm : ∀ n ∈ s.cCache, ∃ x, get s.root n = some x ∧
      get s.md5 (md5Lookup s.sfx n) = if n ∈ lost then none else some (H x) := by
    intro n hn'
    have := (hc n).1 hn'
    rw [mem_keys_iff] at this
    obtain ⟨x, hx⟩ := Option.isSome_iff_exists.1 this
    exact ⟨x, (hroot n).trans hx, hmc n x hx⟩
  have hnm : ∀ n ∈ s.ncCache, ∃ x, get s.nc n = some x ∧ get s.md5 (md5Lookup s.sfx n) = some (H x) := by
    intro n hn'
    have := (hn n).1 hn'
    rw [mem_keys_iff] at this
    obtain ⟨x, hx⟩ := Option.isSome_iff_exists.1 this
    exact ⟨x, (hnc n).trans hx, hmn n x hx⟩
  have hbadc : (obsCompleted s).countP (badMd5 H) = 0 := by
    rw [List.countP_eq_zero]
    intro m hm
    simp only [obsCompleted, List.mem_map] at hm
    obtain ⟨n, hn', rfl⟩ := hm
    obtain ⟨x, h1, h2⟩ := hcm n hn'
    by_cases hl : n ∈ lost <;> simp [badMd5, h1, h2, hl]
  have hbadn : (obsNotCompleted s).countP (badMd5 H) = 0 := by
    rw [List.countP_eq_zero]
    intro m hm
    simp only [obsNotCompleted, List.mem_map] at hm
    obtain ⟨n, hn', rfl⟩ := hm
    obtain ⟨x, h1, h2⟩ := hnm n hn'
    simp [badMd5, h1, h2]
  have hmisn : (obsNotCompleted s).countP (fun m => m.md5.isNone) = 0 := by
    rw [List.countP_eq_zero]
    intro m hm
    simp only [obsNotCompleted, List.mem_map] at hm
    obtain ⟨n, hn', rfl⟩ := hm
    obtain ⟨x, h1, h2⟩ := hnm n hn'
    simp [h2]
  have hmisc : (obsCompleted s).countP (fun m => m.md5.isNone) = (s.cCache.filter (· ∈ lost)).length := by
    rw [obsCompleted, List.countP_map, List.countP_eq_length_filter]
    have : s.cCache.filter ((fun m : MObs D => m.md5.isNone) ∘ fun n => ⟨n, get s.root n, get s.md5 (md5Lookup s.sfx n)⟩) =
        s.cCache.filter (· ∈ lost) := by
      apply List.filter_congr
      intro n hn'
      obtain ⟨x, h1, h2⟩ := hcm n hn'
      by_cases hl : n ∈ lost <;> simp [h2, hl]
    rw [this]
  have hmle : (obsCompleted s ++ obsNotCompleted s).countP (fun m => m.md5.isNone) ≤ (obsCompleted s ++ obsNotCompleted s).length :=
    List.countP_le_length
  have hb : v.incorrect = 0 := by
    simp only [v, validateDir, List.countP_append, hbadc, hbadn] at *
    omega
  have hm : v.missing = (s.cCache.filter (· ∈ lost)).length := by
    simp only [v, validateDir, List.countP_append, hmisc, hmisn, Nat.add_zero]
  refine ⟨hb, hm, ?_, ?_⟩
  · have hle : (s.cCache.filter (· ∈ lost)).length ≤ s.cCache.length := List.length_filter_le _ _
    simp only [v, validateDir, List.countP_append, hbadc, hbadn, hmisc, hmisn, List.length_append, obsCompleted, obsNotCompleted, List.length_map] at *
    omega
  · exact congrArg (fun l => !l.isEmpty) hlogs

/-- the counts on a concrete history with one `lost` record (append mode, `a` retires its not-completed record) -/
example : validateDir (id : Nat → Nat) (populate (run Cfg.asIs id (Dir.create .a fasta)
      [.writeNc idA 1, .write idA 2, .writeNc idBA 3, .write idAfasta 4, .writeLog ['r','u','n'] 5])) = ⟨1, 0, 1, true⟩ := by decide
example : validateDir (id : Nat → Nat) (populate (run Cfg.asIs id (Dir.create .w ['f','a','.','g','z'])
      [.write idA 2, .writeNc idBA 3])) = ⟨2, 0, 0, false⟩ := by decide

/-! ## The naming layer, TRANSLATED from the current source

`Gen/C13Names.lean` is regenerated on every run by `translator/c13_names2lean.py` from `app/data_store.py`
(`_special_suffixes`, `DataStoreDirectory.__contains__`, `_write`, `drop_not_completed`, `md5`, the glob patterns of
`completed` / `not_completed`, `DataStoreABC._check_writable`).  The theorems below prove every generated definition equal
to the hand model used by the refinement theorems, for ALL arguments; the event lists tie the ORDER of the effect
statements (writability check, 'already stored' early return, writes; unlink record / unlink md5 / cache removal). -/
section Translated
open CogentModel

theorem gen_special_eq (item : Str) : Gen.C13Names.special item = special item := by
  simp [Gen.C13Names.special, reSearchDotAltEnd, Alt.endsMatch, special, sLog, sJson]

theorem gen_contains_item_eq (sfx item : Str) : Gen.C13Names.contains_item sfx item = containsItem sfx item := by
  simp only [Gen.C13Names.contains_item, containsItem, gen_special_eq]
  cases special item <;> cases isInfix sfx item <;> simp

theorem gen_check_writable_eq (ro ap m : Bool) : Gen.C13Names.check_writable_rejects ro ap m = (ro || (m && ap)) := rfl

theorem gen_skip_guard_eq (sfx subdir suffix : Str) : Gen.C13Names.skip_guard sfx subdir suffix = (suffix != sLog) := rfl

theorem gen_resolve_eq (sfx suffix uid : Str) : Gen.C13Names.resolve sfx suffix uid = resolve sfx suffix uid := by
  simp only [Gen.C13Names.resolve, resolve, gen_contains_item_eq]
  by_cases h : (getFormatSuffixes uid).1 = some suffix
  · simp [h, sTxt]
    cases (getFormatSuffixes uid).2 <;> simp
  · simp [h, sTxt]
    cases (getFormatSuffixes (pathStem uid ++ '.' :: suffix)).2 <;> simp

theorem gen_drop_key_eq (sfx uid : Str) : Gen.C13Names.drop_key sfx uid = dropKey sfx uid := by
  simp only [Gen.C13Names.drop_key, dropKey]
  have h : (['.'] ++ sfx : Str) = '.' :: sfx := rfl
  rw [h]
  generalize replaceAll uid ('.' :: sfx) [] = u
  cases u <;> simp [sJson]

theorem gen_drop_loop_eq (key m : Str) :
    Gen.C13Names.drop_skip key m = (!key.isEmpty && !dropMatch key (pathName m)) ∧
    Gen.C13Names.drop_file m = pathName m ∧
    Gen.C13Names.drop_md5 m = dropMd5 (pathName m) := by
  simp [Gen.C13Names.drop_skip, Gen.C13Names.drop_file, Gen.C13Names.drop_md5, dropMatch, dropMd5, sTxt, bne]

theorem gen_md5_lookup_eq (sfx uid : Str) : Gen.C13Names.md5_lookup sfx uid = md5Lookup sfx (pathName uid) := by
  simp [Gen.C13Names.md5_lookup, md5Lookup, sJson, sTxt]

theorem gen_glob_eq (sfx : Str) :
    Gen.C13Names.glob_completed sfx = '*' :: '.' :: sfx ∧ Gen.C13Names.glob_not_completed = '*' :: '.' :: sJson := by
  simp [Gen.C13Names.glob_completed, Gen.C13Names.glob_not_completed, sJson]

theorem gen_event_order :
    Gen.C13Names.write_events.take 3 = ["check_writable", "skip_if_member", "write_record_logbranch"] ∧
    (Gen.C13Names.write_events.drop 3 = ["write_md5", "write_record", "return"] ∨
     Gen.C13Names.write_events.drop 3 = ["write_record", "write_md5", "return"]) ∧
    Gen.C13Names.drop_events = ["raise_if_readonly", "loop_over_snapshot", "continue_if_other", "unlink_record", "unlink_md5",
      "cache_remove", "rmdir_if_all", "cache_reset_if_all"] := by
  decide

example : Gen.C13Names.resolve ['f','a','.','g','z'] ['f','a','.','g','z'] ['a'] =
    ⟨['a','.','f','a','.','g','z'], ['a','.','f','a','.','g','z'], ['a','.','f','a','.','g','z'], ['a','.','t','x','t']⟩ := by decide
example : Gen.C13Names.resolve fasta sJson ['a','.','t','x','t'] =
    ⟨['a','.','t','x','t','.','f','a','s','t','a'], ['a','.','j','s','o','n'], ['a','.','j','s','o','n'], ['a','.','t','x','t']⟩ := by decide
example : Gen.C13Names.drop_key fasta aFasta = ['a','.','j','s','o','n'] ∧
    Gen.C13Names.drop_skip ['a','.','j','s','o','n'] (ncPrefix ++ ['b','a','.','j','s','o','n']) = true ∧
    Gen.C13Names.drop_md5 (ncPrefix ++ ['b','a','.','j','s','o','n']) = ['b','a','.','t','x','t'] := by decide
example : Gen.C13Names.md5_lookup ['f','a','.','g','z'] ['a','.','f','a','.','g','z'] = ['a','.','t','x','t'] ∧
    Gen.C13Names.md5_lookup ['f','a','.','g','z'] ['a','.','f','a','_','g','z'] = ['a','.','t','x','t'] ∧
    Gen.C13Names.md5_lookup fasta (ncPrefix ++ ['a','.','j','s','o','n']) = ['a','.','t','x','t'] := by decide

/-! ### md5 side files for every store suffix (two-part suffixes such as `fa.gz` included) -/

theorem sfxReMatch_self (sfx : Str) : sfxReMatch sfx sfx = true := by
  induction sfx with
  | nil => rfl
  | cons c cs ih => by_cases hd : c = '.' <;> simp [sfxReMatch, hd, ih]

theorem endsWithSfxRe_canonical (sfx stem : Str) : endsWithSfxRe (stem ++ '.' :: sfx) sfx = true := by
  have hl : (stem ++ '.' :: sfx).length - (sfx.length + 1) = stem.length := by simp
  simp only [endsWithSfxRe, hl, List.drop_left']
  simp [sfxReMatch_self sfx]

/-- `md5()` finds the side file of the canonical member name for EVERY store suffix (two-part ones included) -/
theorem md5Lookup_canonical (sfx stem : Str) :
    md5Lookup sfx (stem ++ '.' :: sfx) = stem ++ '.' :: sTxt := by
  have hl : (stem ++ '.' :: sfx).length - (sfx.length + 1) = stem.length := by simp
  simp [md5Lookup, reSubDotAltEnd, List.find?, Alt.endsMatch, endsWithSfxRe_canonical sfx stem, Alt.len]

theorem md5Lookup_json (sfx stem : Str) (h : endsWithSfxRe (stem ++ '.' :: sJson) sfx = false) :
    md5Lookup sfx (stem ++ '.' :: sJson) = stem ++ '.' :: sTxt := by
  have hl : (stem ++ '.' :: sJson).length - (sJson.length + 1) = stem.length := by simp
  have he : endsWith (stem ++ '.' :: sJson) ('.' :: sJson) = true := by simp [endsWith]
  simp [md5Lookup, reSubDotAltEnd, List.find?, Alt.endsMatch, h, he, Alt.len]

example : md5Lookup ['f','a','.','g','z'] (['b','a'] ++ '.' :: ['f','a','.','g','z']) = ['b','a','.','t','x','t'] :=
  md5Lookup_canonical _ _

/-- the refinement theorem is not vacuous for a store that keeps its records compressed (suffix `fa.gz`): in append mode
    with re-opens -/
example : hyg ['f','a','.','g','z'] [['a'], ['b','a'], ['x','1']] = true ∧
    safeHist ['f','a','.','g','z'] [['a'], ['b','a'], ['x','1']] (Dict.empty .a)
      [.writeNc ['b','a'] (1 : Nat), .write ['a'] 2, .reopen .w, .write ['b','a'] 3, .writeNc ['x','1'] 4,
       .drop ['x','1'], .reopen .r, .observe] = true := by decide
end Translated

end CogentModel.C13
