import CogentModel.Model.TreeRich
import CogentModel.Proofs.TreeRich
/-! # C10 — tree rich dict (`TreeNode.to_rich_dict` → `deserialise_tree`)

The rich dict of a tree is the newick (topology + every node name, the root's printed as "") plus a dict of node
attributes KEYED BY NODE NAME; the deserialiser re-parses the newick (names pass through the builder's
`_unique_name`, an unlabelled root is called "root") and looks every node's attributes up by its name.
A tree is its postorder list of node records (`Model/TreeRich.lean`). -/
namespace CogentModel.C10Tree
open CogentModel.TreeRich

/-- For EVERY tree (any topology, any lengths / params, any size) whose node names are unique, are not one of the
builder's reserved spellings ("" / "edge") and whose root is called "root", `deserialise_object(t.to_rich_dict())`
has the same topology, names, lengths and params. -/
theorem tree_rich_roundtrip_partial {V} (t : List (NodeRec V)) (h : WF t) : roundtrip t = t :=
  roundtrip_id t h

-- non-vacuity: `((a:1,b:2):3,c:4):7;` as parsed (auto-named internal node, root with a length and a param)
example : WF ([⟨"a", some 1, [], 0⟩, ⟨"b", some 2, [("kappa", 5)], 0⟩, ⟨"edge.0", some 3, [], 2⟩, ⟨"c", some 4, [], 0⟩,
    ⟨"root", some 7, [("support", 9)], 2⟩] : List (NodeRec Int)) := by
  refine ⟨by decide, ?_, by decide⟩
  intro n hn
  simp only [names, List.map_cons, List.map_nil, List.mem_cons, List.not_mem_nil, or_false] at hn
  rcases hn with rfl | rfl | rfl | rfl | rfl <;> decide
example : roundtrip ([⟨"a", some 1, [], 0⟩, ⟨"b", some 2, [("kappa", 5)], 0⟩, ⟨"edge.0", some 3, [], 2⟩, ⟨"c", some 4, [], 0⟩,
    ⟨"root", some 7, [("support", 9)], 2⟩] : List (NodeRec Int))
    = [⟨"a", some 1, [], 0⟩, ⟨"b", some 2, [("kappa", 5)], 0⟩, ⟨"edge.0", some 3, [], 2⟩, ⟨"c", some 4, [], 0⟩,
    ⟨"root", some 7, [("support", 9)], 2⟩] := by decide

/- FULL STATEMENT (not proved): `∀ t, roundtrip t = t`. False for the mirrored model and for the code, in three ways
   (each a kernel-checked witness below; the first is the open findings C10-tree-root-name-lost /
   C10-tree-named-root-attrs-lost, the second is excluded by the documented assumption "name: label for the node,
   assumed to be unique", the third is a node a user NAMED "edge"). -/

/-- a root with a label of its own: `((a:1,b:2)n1:3,c:4)n0:7;` comes back with root "root", length None -/
theorem tree_rich_named_root_counter :
    roundtrip ([⟨"a", some 1, [], 0⟩, ⟨"b", some 2, [], 0⟩, ⟨"n1", some 3, [], 2⟩, ⟨"c", some 4, [], 0⟩, ⟨"n0", some 7, [], 2⟩] : List (NodeRec Int))
    = [⟨"a", some 1, [], 0⟩, ⟨"b", some 2, [], 0⟩, ⟨"n1", some 3, [], 2⟩, ⟨"c", some 4, [], 0⟩, ⟨"root", none, [], 2⟩] := by decide

/-- two nodes with the same name (only reachable by renaming a node in place): the later attributes overwrite the
earlier ones in the dict, and the parser renames the second node `a.2`, which finds nothing -/
theorem tree_rich_duplicate_names_counter :
    roundtrip ([⟨"a", some 1, [], 0⟩, ⟨"a", some 2, [], 0⟩, ⟨"edge.0", some 3, [], 2⟩, ⟨"c", some 4, [], 0⟩, ⟨"root", none, [], 2⟩] : List (NodeRec Int))
    = [⟨"a", some 2, [], 0⟩, ⟨"a.2", none, [], 0⟩, ⟨"edge.0", some 3, [], 2⟩, ⟨"c", some 4, [], 0⟩, ⟨"root", none, [], 2⟩] := by decide

/-- a node literally called "edge" collides with the builder's counter for unnamed nodes -/
theorem tree_rich_reserved_name_counter :
    roundtrip ([⟨"a", some 1, [], 0⟩, ⟨"b", some 2, [], 0⟩, ⟨"edge", some 3, [], 2⟩, ⟨"c", some 4, [], 0⟩, ⟨"root", some 7, [], 2⟩] : List (NodeRec Int))
    = [⟨"a", some 1, [], 0⟩, ⟨"b", some 2, [], 0⟩, ⟨"edge.0", none, [], 2⟩, ⟨"c", some 4, [], 0⟩, ⟨"root", some 7, [], 2⟩] := by decide

/-- what survives for EVERY tree, whatever its names: the topology (arity sequence) and the number of nodes -/
theorem tree_rich_topology {V} (t : List (NodeRec V)) : (roundtrip t).map (·.arity) = t.map (·.arity) := by
  have hlen : ∀ (used : Used) (t : List (NodeRec V)), (parseNames used (printedNames t)).length = t.length := by
    intro used t
    induction t generalizing used with
    | nil => rfl
    | cons a t ih =>
      cases t with
      | nil => simp only [printedNames, parseNames]; split <;> rfl
      | cons b t =>
        have h := ih (uniqueName (used.length + 2) used a.name).2
        obtain ⟨x, xs, hx⟩ : ∃ x xs, printedNames (b :: t) = x :: xs := by
          cases t <;> simp [printedNames]
        simp only [printedNames]
        rw [hx] at h ⊢
        simp only [parseNames, List.length_cons] at h ⊢
        omega
  have hz : ∀ (attrs : List (String × Attr V)) (ns : List String) (as : List Nat), ns.length = as.length →
      (zipRebuild attrs ns as).map (·.arity) = as := by
    intro attrs ns
    induction ns with
    | nil => intro as h; cases as with | nil => rfl | cons _ _ => simp at h
    | cons n ns ih =>
      intro as h
      cases as with
      | nil => simp at h
      | cons a as =>
        simp only [zipRebuild, List.map_cons]
        have : (rebuild attrs n a).arity = a := by unfold rebuild; split <;> rfl
        rw [this, ih as (by simpa using h)]
  simp only [roundtrip, fromRich, toRich]
  exact hz _ _ _ (by simp [hlen])

example : (roundtrip ([⟨"x", some 1, [], 0⟩, ⟨"x", some 2, [], 0⟩, ⟨"x", none, [], 2⟩] : List (NodeRec Int))).map (·.arity) = [0, 0, 2] := by decide

end CogentModel.C10Tree
