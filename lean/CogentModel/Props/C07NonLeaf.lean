import CogentModel.Gen.C07Rules
import CogentModel.Proofs.RulesGen
/-! # C07 — `_NonLeafDefn.update` TRANSLATED from the current source (`Gen/C07Rules.lean`, namespace
`Gen.C07NonLeaf`, regenerated on every run by `translator/c07_rules2lean.py`)

`gen_update_eq`: for ALL inputs, calc functions and previous states the translated statements compute the hand
model `NonLeaf.updateSpec` (Model/NonLeaf.lean), in which nothing of the previous scope → input-ordinal mapping,
grouping or values survives.  `gen_update_ignores_cache`: two states with the same scopes give the SAME mapping,
groups and values, whatever they held before (what an edit that keeps the mapping until some summary of the inputs
changes violates).  `gen_update_value_fresh`: after `update()` the value held for every scope is the calc function
applied to the inputs' current values for that scope. -/
namespace CogentModel.C07NL
open CogentModel.NonLeaf CogentModel.Gen.C07NonLeaf
open CogentModel.Gen.C07Rules (forIn_of_step)

variable {V : Type}

/-- the first loop of `update` as a fold -/
theorem foldl_setAssignment (F : Nat → List Nat) (l : List Nat) (s : St V) :
    l.foldl (fun s t => Prim.setAssignment s t (F t)) s =
      { s with asg := fun t => if l.contains t then F t else s.asg t } := by
  induction l generalizing s with
  | nil => simp
  | cons a l ih =>
    rw [List.foldl_cons, ih]
    simp only [Prim.setAssignment]
    congr 1
    funext t
    by_cases h1 : l.contains t = true <;> by_cases h2 : t = a <;> simp_all [upd]

/-- **gen_update_eq**: GENERATED `_NonLeafDefn.update` = the hand model `updateSpec`, for all arguments -/
theorem gen_update_eq (args : List (Arg V)) (f : List V → V) (s : St V) :
    update args f s = .ok (updateSpec args f s) := by
  unfold update
  simp only []
  rw [forIn_of_step (fun t (s : St V) => Prim.setAssignment s t (inputNums args t))]
  · simp only [pure, Except.pure, bind, Except.bind, foldl_setAssignment, Prim.keys, Prim.updateFromAssignments,
      Prim.setValues, Prim.uniq, Prim.nullorCall, Prim.makeCalcFunction, Prim.argValue, updateSpec, callArgs]
  · intro t acc
    simp [Prim.scopeDict, Prim.outputOrdinalFor, Prim.pyTuple, inputNums, pure, Except.pure]

/-- **gen_update_ignores_cache**: whatever mapping, groups and values two states held before, the translated
`update()` leaves them with the same mapping on their scopes, the same groups, the same index and the same values -/
theorem gen_update_ignores_cache (args : List (Arg V)) (f : List V → V) (s s' : St V) (h : s.scopes = s'.scopes)
    (ha : ∀ t, ¬ t ∈ s.scopes → s.asg t = s'.asg t) :
    update args f s = update args f s' := by
  rw [gen_update_eq, gen_update_eq]
  have : (fun t => if s.scopes.contains t then inputNums args t else s.asg t) =
      (fun t => if s'.scopes.contains t then inputNums args t else s'.asg t) := by
    funext t
    rw [← h]
    by_cases ht : t ∈ s.scopes
    · simp [ht]
    · simp [ht, ha t ht]
  simp only [updateSpec]
  rw [this, h]

/-- the group a key points at holds the key's value -/
def good (asg : Nat → List Nat) (acc : List (List Nat) × (Nat → Nat)) (t : Nat) : Prop :=
  acc.1[acc.2 t]? = some (asg t)

theorem step_good_self (asg : Nat → List Nat) (acc) (a : Nat) : good asg (indexedStep asg acc a) a := by
  unfold good indexedStep
  split
  · rename_i h
    have hm : asg a ∈ acc.1 := by simpa using h
    simp [upd, List.getElem?_eq_getElem (List.idxOf_lt_length_of_mem hm)]
  · simp [upd]

theorem step_good_other (asg : Nat → List Nat) (acc) (a t : Nat) (hne : t ≠ a) (hg : good asg acc t) :
    good asg (indexedStep asg acc a) t := by
  unfold good indexedStep at *
  split
  · simp [upd, hne, hg]
  · simp only [upd, hne, if_false]
    have hlt : acc.2 t < acc.1.length := by
      rcases List.getElem?_eq_some_iff.mp hg with ⟨hl, _⟩; exact hl
    rw [List.getElem?_append_left hlt]; exact hg

/-- `_indexed`: every key met so far points at a group holding its value -/
theorem foldl_good (asg : Nat → List Nat) (l : List Nat) : ∀ acc t, (good asg acc t ∨ t ∈ l) →
    good asg (l.foldl (indexedStep asg) acc) t := by
  induction l with
  | nil => intro acc t h; rcases h with h | h; exact h; cases h
  | cons a l ih =>
    intro acc t h
    rw [List.foldl_cons]
    apply ih
    by_cases hta : t = a
    · left; subst hta; exact step_good_self asg acc t
    · rcases h with h | h
      · left; exact step_good_other asg acc a t hta h
      · right; simpa [hta] using h

/-- **gen_update_value_fresh**: after the translated `update()`, whatever the definition held before, every scope is
mapped to the CURRENT ordinals of its inputs, the group its index names is that tuple, and the value held for it is the
calc function applied to the inputs' current values for that scope (`Undefined` if one of them is missing) -/
theorem gen_update_value_fresh (args : List (Arg V)) (f : List V → V) (s r : St V) (h : update args f s = .ok r)
    (t : Nat) (ht : t ∈ s.scopes) :
    r.asg t = inputNums args t ∧ r.uniq[r.index t]? = some (inputNums args t) ∧
    r.values[r.index t]? = some (nullor f (callArgs args (inputNums args t))) := by
  rw [gen_update_eq] at h
  cases h
  have hg := foldl_good (fun t => if s.scopes.contains t then inputNums args t else s.asg t) s.scopes ([], fun _ => 0) t (Or.inr ht)
  unfold good at hg
  have hc : s.scopes.contains t = true := by simpa using ht
  simp only [hc, if_true] at hg
  refine ⟨by simp [updateSpec, ht], by simpa [updateSpec, indexed] using hg, ?_⟩
  simp only [updateSpec, indexed, List.getElem?_map, hg, Option.map_some]

end CogentModel.C07NL
