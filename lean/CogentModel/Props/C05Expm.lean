import CogentModel.Proofs.ExpmAlgebra
import CogentModel.Proofs.EigenLemmas
/-!
# C05 — the rational exponentiators as Markov kernels (Padé, Taylor) and the `solve` model

Everything here is about the executable definitions of `Model/Expm.lean`, over an arbitrary field, for every
dimension, every Padé order `q`, every scaling `j`, every Taylor starting order and amount of lengthening.
-/
namespace CogentModel.C05
open CogentModel.RateMatrix CogentModel.Expm Finset

variable {K : Type*} [Field K]

section
variable [DecidableEq K]

/-! ## `solve` -/

/-- The Gauss–Jordan model of `numpy.linalg.solve` is **correct**: whenever it returns `X`, `D·X = N` entrywise, and `X`
is the only solution. -/
theorem solve_correct (n : Nat) (D N X : Mat K) (h : solve n D N = some X) :
    (∀ i j, i < n → j < n → sumTo n (fun k => mget D i k * mget X k j) = mget N i j) ∧
    ∀ Y : Mat K, (∀ i j, i < n → j < n → sumTo n (fun k => mget D i k * mget Y k j) = mget N i j) →
      ∀ i j, i < n → j < n → mget Y i j = mget X i j := by
  obtain ⟨h1, h2⟩ := Expm.solve_correct n D N X h
  refine ⟨fun i j hi hj => by rw [sumTo_eq_sum, ← mget_matMul n D X hi hj]; exact h1 i j hi hj, ?_⟩
  intro Y hY
  exact h2 Y fun i j hi hj => by rw [mget_matMul n D Y hi hj, ← sumTo_eq_sum]; exact hY i j hi hj

example : solve 2 (#[#[2, 1], #[1, 1]] : Mat ℚ) #[#[1, 0], #[0, 1]] = some #[#[1, -1], #[-1, 2]] := by decide +kernel

/-- … and **complete**: it succeeds exactly when `D` is non-singular (`D·Y = 0` only for `Y = 0`); i.e. it fails only when
some pivot column is entirely zero, and then a non-trivial kernel element exists. The right-hand side plays no role. -/
theorem solve_succeeds_iff_nonsingular (n : Nat) (D N : Mat K) :
    (solve n D N).isSome = true ↔
      ∀ Y : Mat K, (∀ i j, i < n → j < n → sumTo n (fun k => mget D i k * mget Y k j) = 0) →
        ∀ i j, i < n → j < n → mget Y i j = 0 := by
  rw [solve_isSome_iff]
  constructor
  · intro h Y hY
    exact h Y fun i j hi hj => by rw [mget_matMul n D Y hi hj, ← sumTo_eq_sum]; exact hY i j hi hj
  · intro h Y hY
    exact h Y fun i j hi hj => by rw [sumTo_eq_sum, ← mget_matMul n D Y hi hj]; exact hY i j hi hj

example : solve 2 (#[#[1, 2], #[2, 4]] : Mat ℚ) #[#[1, 0], #[0, 1]] = none := by decide +kernel

/-- in Mathlib terms: success ⇒ `det D ≠ 0` and the result is `D⁻¹·N` -/
theorem solve_eq_inv_mul (n : Nat) (D N X : Mat K) (h : solve n D N = some X) :
    (toM n D).det ≠ 0 ∧ toM n X = (toM n D)⁻¹ * toM n N := by
  obtain ⟨h1, h2⟩ := toM_solve n D N X h
  exact ⟨h1.ne_zero, h2⟩

/-! ## Padé (scaling, `solve`, squarings), every order `q` and scaling `j` -/

/-- `P·Q = Q·P` -/
theorem pade_commutes_with_Q (n : Nat) (Q : Mat K) (t : K) (q j : Nat) (P : Mat K) (h : padeCore n Q t q j = some P)
    (a b : Nat) (ha : a < n) (hb : b < n) :
    sumTo n (fun k => mget P a k * mget Q k b) = sumTo n (fun k => mget Q a k * mget P k b) := by
  have := padeCore_commute Q t q j P h
  rw [← toM_matMul, ← toM_matMul] at this
  have := (entryEq_iff n _ _).mpr this a b ha hb
  rw [mget_matMul n Q P ha hb, mget_matMul n P Q ha hb] at this
  rw [sumTo_eq_sum, sumTo_eq_sum]; exact this.symm

/-- stationarity is inherited: `πQ = 0 ⇒ πP = π` -/
theorem pade_stationary (n : Nat) (Q : Mat K) (pi : Vec K) (t : K) (q j : Nat) (P : Mat K)
    (hpi : ∀ b, b < n → sumTo n (fun a => vget pi a * mget Q a b) = 0) (h : padeCore n Q t q j = some P)
    (b : Nat) (hb : b < n) : sumTo n (fun a => vget pi a * mget P a b) = vget pi b :=
  leftvec_concl n P pi (padeCore_left_fixed _ Q t q j P (leftvec_hyp n Q pi hpi) h) b hb

/-- detailed balance is inherited: `π_a Q_ab = π_b Q_ba ⇒ π_a P_ab = π_b P_ba` -/
theorem pade_detailed_balance (n : Nat) (Q : Mat K) (pi : Vec K) (t : K) (q j : Nat) (P : Mat K)
    (hdb : ∀ a b, a < n → b < n → vget pi a * mget Q a b = vget pi b * mget Q b a) (h : padeCore n Q t q j = some P)
    (a b : Nat) (ha : a < n) (hb : b < n) : vget pi a * mget P a b = vget pi b * mget P b a :=
  diag_concl n P pi (padeCore_reversible _ Q t q j P (diag_hyp n Q pi hdb) h) a b ha hb

/-- the value: `P = (D⁻¹ N)^(2^j)` with `N`, `D` the numerator / denominator polynomials at `tQ/2^j` -/
theorem pade_eq_pow (n : Nat) (Q : Mat K) (t : K) (q j : Nat) (P : Mat K) (h : padeCore n Q t q j = some P) :
    toM n P = ((toM n (padeND n (padeArg n Q t j) q).2)⁻¹ * toM n (padeND n (padeArg n Q t j) q).1) ^ (2 ^ j) :=
  (padeCore_toM Q t q j P h).2

example : (padeCore 2 (#[#[-1, 1], #[2, -2]] : Mat ℚ) (1/2) 3 1).isSome = true := by decide +kernel
example : ∀ b, b < 2 → sumTo 2 (fun a => vget (#[2/3, 1/3] : Vec ℚ) a * mget (#[#[-1, 1], #[2, -2]] : Mat ℚ) a b) = 0 := by
  decide +kernel
end

/-! ## Taylor, every starting order and every amount of lengthening -/
section taylor
variable [LT K] [DecidableLT K] [LE K] [DecidableLE K]

theorem taylor_commutes_with_Q (n : Nat) (rtol atol : K) (Q : Mat K) (t : K) (q fuel : Nat)
    (a b : Nat) (ha : a < n) (hb : b < n) :
    sumTo n (fun k => mget (taylor n rtol atol Q t q fuel).1 a k * mget Q k b) =
      sumTo n (fun k => mget Q a k * mget (taylor n rtol atol Q t q fuel).1 k b) := by
  have := taylor_commute rtol atol Q t q fuel (toM n Q) rfl
  rw [← toM_matMul, ← toM_matMul] at this
  have := (entryEq_iff n _ _).mpr this a b ha hb
  rw [mget_matMul n Q _ ha hb, mget_matMul n _ Q ha hb] at this
  rw [sumTo_eq_sum, sumTo_eq_sum]; exact this.symm

theorem taylor_stationary (n : Nat) (rtol atol : K) (Q : Mat K) (pi : Vec K) (t : K) (q fuel : Nat)
    (hpi : ∀ b, b < n → sumTo n (fun a => vget pi a * mget Q a b) = 0) (b : Nat) (hb : b < n) :
    sumTo n (fun a => vget pi a * mget (taylor n rtol atol Q t q fuel).1 a b) = vget pi b :=
  leftvec_concl n _ pi (taylor_left_fixed rtol atol Q t q fuel _ (leftvec_hyp n Q pi hpi)) b hb

theorem taylor_detailed_balance (n : Nat) (rtol atol : K) (Q : Mat K) (pi : Vec K) (t : K) (q fuel : Nat)
    (hdb : ∀ a b, a < n → b < n → vget pi a * mget Q a b = vget pi b * mget Q b a)
    (a b : Nat) (ha : a < n) (hb : b < n) :
    vget pi a * mget (taylor n rtol atol Q t q fuel).1 a b = vget pi b * mget (taylor n rtol atol Q t q fuel).1 b a :=
  diag_concl n _ pi (taylor_reversible rtol atol Q t q fuel _ (diag_hyp n Q pi hdb)) a b ha hb
end taylor

example : ∀ a b, a < 2 → b < 2 → vget (#[2/3, 1/3] : Vec ℚ) a * mget (#[#[-1, 1], #[2, -2]] : Mat ℚ) a b =
    vget (#[2/3, 1/3] : Vec ℚ) b * mget (#[#[-1, 1], #[2, -2]] : Mat ℚ) b a :=
  fun a b ha hb => (by decide +kernel : ∀ a, a < 2 → ∀ b, b < 2 → vget (#[2/3, 1/3] : Vec ℚ) a * mget (#[#[-1, 1], #[2, -2]] : Mat ℚ) a b =
    vget (#[2/3, 1/3] : Vec ℚ) b * mget (#[#[-1, 1], #[2, -2]] : Mat ℚ) b a) a ha b hb

/-! ## the eigen back-ends (`eigen`, `checked`, and `either` when it does not fall back)

`EigenExponentiator.__call__` computes `inner(evT * exp(t*roots), evI)`.  The theorems take the stored matrices as
given and assume the decomposition is **exact** — `evIᵀ·evT = I` and `CheckedExponentiator`'s reconstruction `reQ`
equals `Q` (its precision test with zero tolerance) — and an abstract exponential `f` with `f 0 = 1`,
`f (x+y) = f x · f y`.  What LAPACK and float `exp` do to these hypotheses is *not* modelled. -/
section eigen
variable (n : Nat) (Q evT evI : Mat K) (roots : Vec K)
  (hinv : ∀ i j, i < n → j < n → sumTo n (fun k => mget evI k i * mget evT k j) = if i = j then 1 else 0)
  (hdec : ∀ i j, i < n → j < n → mget (eigenReQ n evT evI roots) i j = mget Q i j)
include hinv hdec

/-- `P(0) = I` -/
theorem eigen_zero (f : K → K) (hf0 : f 0 = 1) (a b : Nat) (ha : a < n) (hb : b < n) :
    mget (eigenP n evT evI roots f 0) a b = if a = b then 1 else 0 := by
  have h := eigenP_zero (isEigenDecomp_of Q evT evI roots hinv hdec) f hf0
  have := congrFun (congrFun h ⟨a, ha⟩) ⟨b, hb⟩
  rw [toM_apply, Matrix.one_apply] at this
  simpa [Fin.ext_iff] using this

/-- `P(s)·P(t) = P(s+t)` -/
theorem eigen_semigroup (f : K → K) (hf : ∀ x y, f (x + y) = f x * f y) (s t : K) (a b : Nat) (ha : a < n) (hb : b < n) :
    sumTo n (fun k => mget (eigenP n evT evI roots f s) a k * mget (eigenP n evT evI roots f t) k b) =
      mget (eigenP n evT evI roots f (s + t)) a b := by
  have h := eigenP_add (isEigenDecomp_of Q evT evI roots hinv hdec) f hf s t
  rw [← toM_matMul] at h
  have := (entryEq_iff n _ _).mpr h a b ha hb
  rw [mget_matMul n _ _ ha hb] at this
  rw [sumTo_eq_sum]; exact this.symm

/-- unit row sums: `Q·1 = 0 ⇒ P(t)·1 = 1` -/
theorem eigen_rowsum_one (f : K → K) (hf0 : f 0 = 1) (t : K)
    (hQ : ∀ a, a < n → sumTo n (fun k => mget Q a k) = 0) (a : Nat) (ha : a < n) :
    sumTo n (fun k => mget (eigenP n evT evI roots f t) a k) = 1 := by
  have hv : (toM n Q).mulVec (fun _ => 1) = 0 := by
    ext i
    rw [Matrix.mulVec, dotProduct, Pi.zero_apply, ← hQ i.val i.isLt, sumTo_eq_sum,
      ← Fin.sum_univ_eq_sum_range (fun k => mget Q i k) n]
    exact Finset.sum_congr rfl fun k _ => by rw [mul_one]; rfl
  have h := eigenP_mulVec_fixed (isEigenDecomp_of Q evT evI roots hinv hdec) f hf0 t (fun _ => 1) hv
  have := congrFun h ⟨a, ha⟩
  rw [Matrix.mulVec, dotProduct] at this
  rw [sumTo_eq_sum, ← Fin.sum_univ_eq_sum_range (fun k => mget (eigenP n evT evI roots f t) a k) n, ← this]
  exact Finset.sum_congr rfl fun k _ => by rw [mul_one]; rfl

/-- stationarity: `πQ = 0 ⇒ πP(t) = π` -/
theorem eigen_stationary (f : K → K) (hf0 : f 0 = 1) (t : K) (pi : Vec K)
    (hpi : ∀ b, b < n → sumTo n (fun a => vget pi a * mget Q a b) = 0) (b : Nat) (hb : b < n) :
    sumTo n (fun a => vget pi a * mget (eigenP n evT evI roots f t) a b) = vget pi b := by
  have hv : Matrix.vecMul (fun k : Fin n => vget pi k.val) (toM n Q) = 0 := by
    ext j
    rw [Matrix.vecMul, dotProduct, Pi.zero_apply, ← hpi j.val j.isLt, sumTo_eq_sum,
      ← Fin.sum_univ_eq_sum_range (fun k => vget pi k * mget Q k j) n]
    rfl
  have h := eigenP_vecMul_fixed (isEigenDecomp_of Q evT evI roots hinv hdec) f hf0 t _ hv
  have := congrFun h ⟨b, hb⟩
  rw [Matrix.vecMul, dotProduct] at this
  rw [sumTo_eq_sum, ← Fin.sum_univ_eq_sum_range (fun k => vget pi k * mget (eigenP n evT evI roots f t) k b) n]
  exact this

/-- `P(t)·Q = Q·P(t)` -/
theorem eigen_commutes_with_Q (f : K → K) (t : K) (a b : Nat) (ha : a < n) (hb : b < n) :
    sumTo n (fun k => mget (eigenP n evT evI roots f t) a k * mget Q k b) =
      sumTo n (fun k => mget Q a k * mget (eigenP n evT evI roots f t) k b) := by
  have h := eigenP_commute (isEigenDecomp_of Q evT evI roots hinv hdec) f t
  rw [← toM_matMul, ← toM_matMul] at h
  have := (entryEq_iff n _ _).mpr h a b ha hb
  rw [mget_matMul n Q _ ha hb, mget_matMul n _ Q ha hb] at this
  rw [sumTo_eq_sum, sumTo_eq_sum]; exact this.symm
end eigen

/-- a concrete exact decomposition (`Q = [[-1,1],[2,-2]]`, eigenvalues `0, -3`) satisfying both hypotheses -/
example : (∀ i, i < 2 → ∀ j, j < 2 →
      sumTo 2 (fun k => mget (#[#[2/3, 1/3], #[1/3, -1/3]] : Mat ℚ) k i * mget (#[#[1, 1], #[1, -2]] : Mat ℚ) k j) = if i = j then 1 else 0) ∧
    (∀ i, i < 2 → ∀ j, j < 2 → mget (eigenReQ 2 (#[#[1, 1], #[1, -2]] : Mat ℚ) #[#[2/3, 1/3], #[1/3, -1/3]] #[0, -3]) i j =
      mget (#[#[-1, 1], #[2, -2]] : Mat ℚ) i j) := by
  constructor <;> decide +kernel

end CogentModel.C05
