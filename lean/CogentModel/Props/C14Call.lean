import CogentModel.Gen.C14Call
import CogentModel.Model.CallRich
import CogentModel.Model.ParallelBook
import CogentModel.Proofs.CallRichLemmas
/-! # C14 — the SOURCE TEXT of `_call`, `_validate_data_type`, `_add`, `get_default_chunksize`, translated

`Gen/C14Call.lean` is rewritten from `/repo`'s current source on every run (`translator/c14_call2lean.py`).  The theorems
`gen_*_eq` prove each generated definition equal to the hand model for ALL arguments, so every semantic edit of those four
functions breaks an obligation here.  The remaining theorems are about the hand model over the rich value domain (None,
list / tuple / set data, source proxies) and tie it to `Composable.callChain`, the model under the theorems of `Props/C14.lean`. -/
namespace CogentModel.C14Call
open CogentModel.Composable CogentModel.CallPrims CogentModel.CallRich CogentModel.Gen

/-- the names that occur in the source (`_builtin_seqs`, the two "anything" type hints) are the tags of the hand model -/
theorem source_names :
    [clsTag "list", clsTag "set", clsTag "tuple"] = builtinSeqs ∧
    [tyTag "SerialisableType", tyTag "IdentifierType"] = [100, 101] := by decide

/-- translated `get_default_chunksize` = `ParallelBook.defaultChunksize` (all n, all max_workers) -/
theorem gen_chunksize_eq (n w : Nat) : C14Call.getDefaultChunksize n w = ParallelBook.defaultChunksize n w := by
  unfold C14Call.getDefaultChunksize ParallelBook.defaultChunksize
  by_cases h : n % (w * 4) = 0 <;> simp [h]

/-- translated `_add` = `addR` (all operand signatures) -/
theorem gen_add_eq (a b : AppSig) (same : Bool) : C14Call.add a b same = addR a b same := by
  have h : ∀ t, C14Call.isAppTypeIn t [AppType.writer, AppType.loader, AppType.generic] = composable t := by
    intro t; cases t with
    | none => rfl
    | some k => cases k <;> rfl
  unfold C14Call.add addR AppSig.inputAttrMissing
  rw [h, source_names.2]
  simp only [Bool.not_not]

/-- translated `_validate_data_type` = `validateR` (all steps, all python values incl. None, containers, proxies) -/
theorem gen_validate_eq (s : RStep) (d : PV) : C14Call.validateDataType s d = validateR s d := by
  unfold C14Call.validateDataType validateR typeCheckOff
  rw [source_names.1, source_names.2]
  simp only [Bool.not_not]
  split
  · rfl
  · split
    · rfl
    · generalize (if d.isProxy = true then d.proxyObj else d) = x
      cases x with
      | seq c items =>
        cases items with
        | nil => simp [PV.isSeqOf, checkData, checkClass, PV.len, PV.source, PV.className] <;> (repeat' split) <;> simp_all
        | cons v vs => simp [PV.isSeqOf, checkData, checkClass, PV.len, PV.first, PV.source, PV.className] <;> (repeat' split) <;> simp_all
      | _ => simp [PV.isSeqOf, checkData, checkClass] <;> (repeat' split) <;> simp_all

/-- translated `_call` = `callR` (all steps, any connected input app, all python values) -/
theorem gen_call_eq (s : RStep) (input : Option (PV → PV)) (val : PV) : C14Call.call s input val = callR s input val := by
  unfold C14Call.call callR afterInputR runMainR
  simp only [gen_validate_eq]
  have h1 : (if val.isNone = true then mkNC "ERROR" s.name [Part.lit "unexpected input value None"] val.source else val)
      = (if val.isNone = true then mkNC "ERROR" s.name [Part.lit "unexpected input value None"] none else val) := by
    cases val <;> simp [PV.isNone, PV.source]
  rw [h1]
  clear h1
  generalize (if val.isNone = true then mkNC "ERROR" s.name [Part.lit "unexpected input value None"] none else val) = v1
  generalize applyInput input v1 = v2
  (repeat' split) <;> simp_all

/-- the composed app built from the TRANSLATED `_call` (steps from the outermost to the innermost) -/
def genChain : List RStep → PV → PV
  | [], v => v
  | s :: rest, v => C14Call.call s (if rest.isEmpty then none else some (genChain rest)) v

theorem gen_chain_eq (steps : List RStep) : genChain steps = chainR steps := by
  induction steps with
  | nil => rfl
  | cons s rest ih => funext v; simp only [genChain, chainR, gen_call_eq, ih]

/-- **The translated `_call`, composed, IS the model of `Props/C14.lean`.**  For every non-empty list of plain steps whose
accepted class tags do not use the two reserved "anything" tags, and every input (None, a completed value, a
not-completed value), the plain view of what the composition of translated `_call`s returns is `callChain steps v`. -/
theorem gen_chain_refines_callChain (steps : List Step) (hne : steps ≠ [])
    (htags : ∀ s ∈ steps, ¬ (100 ∈ s.accepts) ∧ ¬ (101 ∈ s.accepts)) (v : Option Val) :
    projPV (genChain (steps.map embedStep) (embedOpt v)) = some (callChain steps v) := by
  rw [gen_chain_eq]
  apply rel_chain steps hne htags
  cases v with
  | none => exact Or.inl ⟨rfl, rfl⟩
  | some x => exact Or.inr ⟨x, rfl, projPV_embedVal x⟩

def exLoader : Step := ⟨1, .loader, true, [], fun v => match v with | .ok x => .ret ⟨2, x.val, x.src⟩ | _ => .retNone⟩
def exFail : Step := ⟨2, .generic, true, [2], fun _ => .raise 7⟩
def exNext : Step := ⟨3, .generic, true, [2], fun v => match v with | .ok x => .ret x | _ => .retNone⟩
example : projPV (genChain ([exNext, exFail, exLoader].map embedStep) (embedOpt (some (.ok ⟨1, 5, some 5⟩))))
    = some (.nc ⟨.error, 2, .exc 7, some 5⟩) := by
  rw [gen_chain_refines_callChain _ (by simp) (by decide)]; decide
example : genChain ([exNext, exLoader].map embedStep) .none
    = .nc ⟨"ERROR", 3, [.lit "unexpected input value None"], none⟩ := by decide

/-! ### behaviour outside the plain model: containers and proxies -/

/-- **Empty data.**  A step with a type check that is handed an EMPTY list / tuple / set (bare or inside a source proxy)
never calls `main`: the result is the ERROR record "empty data" naming the step. -/
theorem empty_data_not_completed (s : RStep) (input : Option (PV → PV)) (c : Nat) (hc : c ∈ builtinSeqs)
    (hoff : typeCheckOff s = false) (hl : s.kind = .loader ∨ input = none) (wrap : Bool) (src : Option Id) :
    callR s input (if wrap then .proxy (.seq c []) src else .seq c [])
      = .nc ⟨"ERROR", s.name, [.lit "empty data"], none⟩ := by
  have hin : (s.kind != Kind.loader && input.isSome) = false := by
    rcases hl with h | h <;> simp [h]
  cases wrap <;>
    simp [callR, hin, afterInputR, validateR, hoff, checkData, hc, PV.isNone, PV.isNC, PV.isProxy, PV.proxyObj, PV.truthy, mkNC]

/-- **A container is typed by its first element**: the type check of `[v, …]` is the type check of `v`, and a rejected
container is reported with the class and the source of its FIRST element. -/
theorem seq_typed_by_first_element (s : RStep) (c : Nat) (hc : c ∈ builtinSeqs) (hoff : typeCheckOff s = false)
    (v : V) (vs : List V) :
    validateR s (.seq c (v :: vs)) = validateR s (.obj v) ∧
    (v.ty ∉ s.dataTypes → validateR s (.seq c (v :: vs))
      = .nc ⟨"ERROR", s.name, [.lit "invalid data type, '", .cls v.ty, .lit "' not in ", .types s.dataTypes], v.src⟩) := by
  constructor
  · simp [validateR, hoff, checkData, hc, PV.isNC, PV.isProxy]
  · intro hv
    simp [validateR, hoff, checkData, checkClass, hc, PV.isNC, PV.isProxy, PV.className, hv, mkNC, PV.source]

/-- `SerialisableType` / `IdentifierType` among the declared types (or no declared types) switch the check off for EVERY value -/
theorem serialisable_accepts_everything (s : RStep) (h : 100 ∈ s.dataTypes ∨ 101 ∈ s.dataTypes ∨ s.dataTypes = []) (d : PV)
    (hd : (d.isNC && s.skipNC) = false) : validateR s d = .bool true := by
  have : typeCheckOff s = true := by
    unfold typeCheckOff inter
    rcases h with h | h | h
    · have : 100 ∈ s.dataTypes.filter (fun x => [100, 101].contains x) := List.mem_filter.mpr ⟨h, by decide⟩
      cases hf : s.dataTypes.filter (fun x => [100, 101].contains x) with
      | nil => rw [hf] at this; cases this
      | cons a l => simp
    · have : 101 ∈ s.dataTypes.filter (fun x => [100, 101].contains x) := List.mem_filter.mpr ⟨h, by decide⟩
      cases hf : s.dataTypes.filter (fun x => [100, 101].contains x) with
      | nil => rw [hf] at this; cases this
      | cons a l => simp
    · simp [h]
  simp [validateR, hd, this]

/-- **`_validate_data_type` is total and only ever answers "passes", the not-completed input itself, or an ERROR record
naming this step** — for every python value (None, containers, proxies included). -/
theorem validate_total (s : RStep) (d : PV) :
    validateR s d = .bool true ∨ (validateR s d = d ∧ d.isNC = true ∧ s.skipNC = true) ∨
    ∃ m src, validateR s d = .nc ⟨"ERROR", s.name, m, src⟩ := by
  unfold validateR
  by_cases h1 : (d.isNC && s.skipNC) = true
  · right; left; simp_all
  · simp only [h1]
    by_cases h2 : typeCheckOff s = true
    · left; simp [h2]
    · simp only [h2]
      generalize (if d.isProxy = true then d.proxyObj else d) = x
      have hcc : ∀ y, checkClass s y = .bool true ∨ ∃ m src, checkClass s y = .nc ⟨"ERROR", s.name, m, src⟩ := by
        intro y; unfold checkClass
        by_cases hy : y.className ∈ s.dataTypes
        · left; simp [hy]
        · right; refine ⟨[.lit "invalid data type, '", .cls y.className, .lit "' not in ", .types s.dataTypes], y.source, ?_⟩
          simp [hy, mkNC]
      have : checkData s x = .bool true ∨ ∃ m src, checkData s x = .nc ⟨"ERROR", s.name, m, src⟩ := by
        unfold checkData
        split
        · split
          · right; exact ⟨_, _, rfl⟩
          · exact hcc _
        · split <;> exact hcc _
        · exact hcc _
      rcases this with h | h
      · left; simpa using h
      · right; right; simpa using h

/-- **`_call` never returns None and never turns a failure into a success** (rich domain: any input value, any connected
input app, any behaviour of `main`): the result is a not-completed value, or the non-None value `main` returned. -/
theorem call_result (s : RStep) (input : Option (PV → PV)) (val : PV) :
    (callR s input val).isNone = false ∧
    ((callR s input val).isNC = true ∨ ∃ w, s.main w = .ret (callR s input val)) := by
  have hrun : ∀ w, (runMainR s w).isNone = false ∧ ((runMainR s w).isNC = true ∨ ∃ w', s.main w' = .ret (runMainR s w)) := by
    intro w
    unfold runMainR
    cases hm : s.main w with
    | raise t => simp [mkNC, PV.isNone, PV.isNC]
    | ret r =>
      cases r <;> simp [mkNC, PV.isNone, PV.isNC]
      all_goals exact ⟨w, by simp [hm]⟩
  have hafter : ∀ w, (afterInputR s w).isNone = false ∧ ((afterInputR s w).isNC = true ∨ ∃ w', s.main w' = .ret (afterInputR s w)) := by
    intro w
    unfold afterInputR
    by_cases ht : (validateR s w).truthy = true
    · simpa [ht] using hrun w
    · simp only [ht]
      rcases validate_total s w with h | ⟨h, hn, _⟩ | ⟨m, src, h⟩
      · rw [h] at ht; simp [PV.truthy] at ht
      · rw [h]; cases w <;> simp_all [PV.isNC, PV.isNone]
      · rw [h]; simp [PV.isNone, PV.isNC]
  have hnc : ∀ v : PV, (v.isNC && s.skipNC) = true → v.isNone = false ∧ (v.isNC = true ∨ ∃ w, s.main w = .ret v) := by
    intro v h; cases v <;> simp_all [PV.isNC, PV.isNone]
  unfold callR
  simp only
  generalize (if val.isNone = true then mkNC "ERROR" s.name [Part.lit "unexpected input value None"] none else val) = v1
  by_cases c1 : (v1.isNC && s.skipNC) = true
  · rw [if_pos c1]; exact hnc _ c1
  · rw [if_neg c1]
    by_cases c2 : (s.kind != Kind.loader && input.isSome) = true
    · rw [if_pos c2]
      by_cases c3 : ((applyInput input v1).isNC && s.skipNC) = true
      · rw [if_pos c3]; exact hnc _ c3
      · rw [if_neg c3]; exact hafter _
    · rw [if_neg c2]; exact hafter _

example : callR ⟨4, .generic, true, [2], [2], fun _ => .ret .none⟩ none (.seq 4 [])
    = .nc ⟨"ERROR", 4, [.lit "empty data"], none⟩ := by decide
example : callR ⟨4, .generic, true, [2], [2], fun _ => .ret (.bool true)⟩ none (.seq 5 [⟨3, 0, some 8⟩, ⟨2, 0, none⟩])
    = .nc ⟨"ERROR", 4, [.lit "invalid data type, '", .cls 3, .lit "' not in ", .types [2]], some 8⟩ := by decide
example : callR ⟨4, .generic, true, [2], [2], fun _ => .ret .none⟩ none (.proxy (.seq 6 [⟨2, 0, some 8⟩]) (some 1))
    = .nc ⟨"BUG", 4, [.lit "unexpected output value None"], some 1⟩ := by decide

/-! ### `_add`: which compositions exist -/

/-- what a successful `a + b` guarantees -/
theorem add_connected (a b : AppSig) (h : addR a b false = .connected) :
    composable b.appType = true ∧ b.hasInput = false ∧ a.appType ≠ some .writer ∧ b.appType ≠ some .loader ∧
    (¬ (inter a.returnTypes [100, 101]).isEmpty ∨
      (a.returnTypes ≠ [] ∧ b.dataTypes ≠ [] ∧ (inter a.returnTypes b.dataTypes) ≠ [])) := by
  unfold addR at h
  (repeat' split at h) <;> simp_all

/-- **Shape of every composition.**  If `a₀ + a₁ + … + aₙ` (left to right, distinct unconnected apps) is accepted by
`_add` at every `+`, then no app after the first is a loader, no app before the last is a writer, and every added app is
composable — i.e. every composed app is `loader? generic* writer?`, which is exactly the hypothesis `kind ≠ loader` for the
outer steps in `C14.nc_passthrough` / `failing_step_recorded`. -/
theorem composed_shape (cur : AppSig) (l : List AppSig) (h : composeFrom cur l = true) :
    (∀ o ∈ l, o.appType ≠ some .loader ∧ composable o.appType = true) ∧
    (l ≠ [] → cur.appType ≠ some .writer) ∧ (∀ o ∈ l.dropLast, o.appType ≠ some .writer) := by
  induction l generalizing cur with
  | nil => simp
  | cons o rest ih =>
    unfold composeFrom at h
    split at h
    · rename_i hc
      have a := add_connected cur o hc
      have r := ih { o with hasInput := true } h
      refine ⟨?_, fun _ => a.2.2.1, ?_⟩
      · intro x hx
        rcases List.mem_cons.mp hx with rfl | hx
        · exact ⟨a.2.2.2.1, a.1⟩
        · exact r.1 x hx
      · intro x hx
        cases rest with
        | nil => simp at hx
        | cons o2 rest2 =>
          rw [List.dropLast_cons₂] at hx
          rcases List.mem_cons.mp hx with rfl | hx
          · exact r.2.1 (by simp)
          · exact r.2.2 x hx
    · cases h

/-- a writer can only be last, a loader only first: the two rejected orders.  AS CODED a loader on the right is rejected by the
AttributeError of evaluating `other.input` (a loader has no such attribute); the intended `TypeError("Right hand side … loader")`
is unreachable. -/
theorem add_rejects (a b : AppSig) (hb : composable b.appType = true) :
    (b.appType = some .loader → addR a b false = .raised "AttributeError" 99) ∧
    (b.appType ≠ some .loader → b.hasInput = false → a.appType = some .writer → addR a b false = .raised "TypeError" 3) := by
  constructor
  · intro h2
    have hl : composable (some AppType.loader) = true := by decide
    simp [addR, h2, hl]
  · intro h1 hin h; simp [addR, hb, hin, h, h1]

def sigLoader : AppSig := ⟨some .loader, false, [101], [2, 100]⟩
def sigA : AppSig := ⟨some .generic, false, [2], [2, 3]⟩
def sigB : AppSig := ⟨some .generic, false, [3], [7, 100]⟩
def sigWriter : AppSig := ⟨some .writer, false, [100], [101]⟩
example : composeFrom sigLoader [sigA, sigB, sigWriter] = true := by decide
example : composeFrom sigA [sigLoader] = false ∧ composeFrom sigWriter [sigA] = false ∧ composeFrom sigA [⟨some .generic, false, [7], [7]⟩] = false := by decide
example : C14Call.add sigA ⟨some .generic, false, [7], [7]⟩ false = .raised "TypeError" 7 ∧ C14Call.add sigLoader sigA true = .raised "ValueError" 2 := by decide
example : C14Call.getDefaultChunksize 10 2 = 2 ∧ C14Call.getDefaultChunksize 8 2 = 1 := by decide

end CogentModel.C14Call
