import CogentModel.Props.C17
import CogentModel.Proofs.AnnotDbHist
/-! # C17 (histories) — any sequence of add / update / union / subset / copy calls

`Model/AnnotDbHist.lean` runs a history of python calls on a register of dbs (`stepOp`, the machine behind the
`ops` correspondence); `specHistory` is the property's own reading: every db is a plain list of records.
The theorems hold for EVERY history, of any length, over the three db classes in any mixture. -/
namespace CogentModel.C17H
open CogentModel.AnnotDb CogentModel.AnnotDbSpec CogentModel.C17

/-- **Content after any history.**  Start from an empty register and run any list of calls (new db, add_feature,
loaded rows, update with or without `seqids`, union, subset with any query, deepcopy / pickle / write+reload copies,
to_json round trips) that does not raise: the
register holds as many dbs as the record-list spec predicts, and every db is well formed and holds exactly the
multiset of records the spec predicts for it (update from the same connection being the no-op it is). -/
theorem history_content (ops : List Op) (dbs : List Db) (hok : ∀ op ∈ ops, op.ok)
    (hr : runHistory [] ops = .ok dbs) :
    dbs.length = (specHistory [] ops).length ∧
    ∀ (j : Nat) (d : Db), dbs[j]? = some d → d.WF ∧ d.records.Perm ((specHistory [] ops)[j]?.getD []) := by
  have h := history_inv clauses_ok ops [] dbs [] ⟨rfl, by simp⟩ hok hr
  exact ⟨h.1, fun j d hd => ⟨(h.2 j d hd).1, (h.2 j d hd).2.1⟩⟩

/-- **Queries after any history are scans of the predicted content.**  On every db of the final register,
`get_records_matching` / `get_features_matching` return exactly the multiset the linear scan selects from the
record list the spec predicts, and `num_matches` is its length. -/
theorem history_queries_are_scans (ops : List Op) (dbs : List Db) (hok : ∀ op ∈ ops, op.ok)
    (hr : runHistory [] ops = .ok dbs) (j : Nat) (d : Db) (hd : dbs[j]? = some d) (q : Query)
    (hq : (q.allowPartial = false ∨ q.start = none ∨ q.stop = none) ∨ WindowOk q) :
    (getMatching d q).Perm (linearScan ((specHistory [] ops)[j]?.getD []) q) ∧
    numMatches d q = (linearScan ((specHistory [] ops)[j]?.getD []) { q with start := none, stop := none }).length := by
  obtain ⟨_, hp, hlt⟩ := (history_inv clauses_ok ops [] dbs [] ⟨rfl, by simp⟩ hok hr).2 j d hd
  constructor
  · have h1 : (getMatching d q).Perm (linearScan d.records q) := by
      rcases hq with hn | hw
      · exact query_is_filter_nonpartial d q hn
      · exact query_is_filter d q (fun r hr => hlt r (hp.mem_iff.mp hr)) hw
    exact h1.trans (hp.filter _)
  · rw [num_matches_is_scan_count]
    exact (hp.filter _).length_eq

/-- one more call keeps the correspondence (the step the two theorems above iterate) -/
theorem history_step (dbs dbs' : List Db) (ms : List (List Rec)) (op : Op) (h : Inv dbs ms) (hop : op.ok)
    (hs : stepOp dbs op = .ok dbs') : Inv dbs' (specStep ms op) :=
  step_inv clauses_ok dbs dbs' ms op h hop hs

-- a history over all three classes: loaded gff row, user features, update with seqids, update from itself (no-op),
-- union basic + gff, a window subset with allow_partial, a copy
example :
    let r1 := mkUserRec "s1" "gene" "a" (some "-") none [(2, 5)]
    let r2 := mkUserRec "s2" "cds" "b" none (some "zq") [(12, 15)]
    let ops : List Op := [.new .gff, .addTable 0 "gff" r2, .new .basic, .add 1 r1, .add 1 r2, .update 0 1 (some (.one "s1")),
      .update 0 0 none, .union 1 0, .subset 2 { start := some 4, stop := some 13, allowPartial := true }, .copyJson 3]
    (∀ op ∈ ops, op.ok) ∧
    (match runHistory [] ops with | .ok dbs => dbs.map (·.records) | .error _ => []) =
      [[r2, r1], [r1, r2], [r2, r1, r2, r1], [r2, r1, r2, r1], [r2, r1, r2, r1]] ∧
    specHistory [] ops = [[r2, r1], [r1, r2], [r1, r2, r2, r1], [r1, r2, r2, r1], [r1, r2, r2, r1]] := by
  refine ⟨?_, by decide +kernel, by decide +kernel⟩
  intro op hop
  simp only [List.mem_cons, List.mem_nil_iff, or_false] at hop
  rcases hop with h | h | h | h | h | h | h | h | h | h <;> subst h <;> simp [Op.ok, WindowOk, mkUserRec, spanStart, spanStop, normSpans, sortSpans, insertSorted, sortPair, coords, minList, maxList] <;> decide

-- a refused direction stops the history: a BasicAnnotationDb cannot be updated from a GffAnnotationDb holding rows
example :
    let r2 := mkUserRec "s2" "cds" "b" none none [(12, 15)]
    (match runHistory [] [.new .gff, .addTable 0 "gff" r2, .new .basic, .update 1 0 none] with
      | .error .typeError => true | _ => false) = true := by
  decide +kernel

end CogentModel.C17H
