import CogentModel.Model.Distance
import CogentModel.Proofs.DistanceLemmas
import CogentModel.Proofs.ExpandLemmas
/-! # C15 — property theorems (distance estimators, neighbour joining, UPGMA) -/
namespace CogentModel.C15
open CogentModel.Distance

/-! ## 1. estimators -/

/-- Column order is irrelevant: permuting the columns of a pair leaves the count matrix, hence every
pre-log quantity of every estimator, unchanged. -/
theorem counts_perm_invariant (cols₁ cols₂ : List Col) (h : cols₁.Perm cols₂) (c : Calc) :
    fill cols₁ = fill cols₂ ∧ stat c (memo (ofCounts (fill cols₁))) = stat c (memo (ofCounts (fill cols₂))) := by
  have : fill cols₁ = fill cols₂ := by
    funext x y; rw [fill_eq_cnt, fill_eq_cnt]; exact h.countP_eq _
  exact ⟨this, by rw [this]⟩

example : [((2 : Int), (3 : Int)), (1, 1), (-9, 0)].Perm [(-9, 0), (2, 3), (1, 1)] := by decide

/-- Non-canonical columns (a negative index in either sequence) are ignored: the count matrix of the
columns equals the count matrix of the canonical columns only. -/
theorem noncanonical_ignored (cols : List Col) :
    fill cols = fill (cols.filter fun c => decide (0 ≤ c.1 ∧ 0 ≤ c.2)) := by
  funext x y
  rw [fill_eq_cnt, fill_eq_cnt]
  unfold cnt
  rw [List.countP_filter]
  congr 1
  funext c
  by_cases h : 0 ≤ c.1 ∧ 0 ≤ c.2 ∧ c.1 = x ∧ c.2 = y
  · have h' : 0 ≤ c.1 ∧ 0 ≤ c.2 := ⟨h.1, h.2.1⟩
    simp [h]
  · simp [h]

example : fill [((2 : Int), (3 : Int)), (-9, 0), (1, 1), (2, -9)] 2 3 = 1 := by decide

/-- Swapping the two sequences transposes the count matrix. -/
theorem counts_swap (cols : List Col) (i j : Nat) :
    ofCounts (fill (cols.map Prod.swap)) i j = tr (ofCounts (fill cols)) i j := by
  show ((fill (cols.map Prod.swap) (i : Int) (j : Int) : Nat) : Rat) = ((fill cols (j : Int) (i : Int) : Nat) : Rat)
  rw [fill_eq_cnt, fill_eq_cnt, cnt_swap]

example : ofCounts (fill ([((2 : Int), (3 : Int)), (2, 3), (1, 0)].map Prod.swap)) 3 2 = 2 := by decide +kernel

/-- Every estimator's pre-log quantities, and the duplicate test, are invariant under transposing the
count matrix; with `counts_swap` this makes every distance symmetric. -/
theorem stat_symmetric (c : Calc) (m : M4) :
    stat c (tr m) = stat c m ∧ hasOffDiag (tr m) = hasOffDiag m := by
  refine ⟨?_, hasOffDiag_tr m⟩
  cases c
  · exact hammingStat_tr m
  · exact hammingStat_tr m
  · exact jc69Stat_tr m
  · exact tn93Stat_tr m
  · exact paralinearStat_tr m
  · exact logdetStat_tr true m
  · exact logdetStat_tr false m

example : stat .tn93 (countsOf [2, 1, 3, 0, 2, 2, 1, 0, 3, 3] [2, 1, 3, 0, 3, 2, 0, 0, 3, 1]) =
    .tn93 10 (3/10) (3/11) (2/9) (4951/19800) (179/330) (79/180) (79/99) := by decide +kernel

/-- Identical canonical content gives distance zero (before the logarithm: p = 0, JC69 factor = 1):
if two index arrays agree on every column where both are canonical, the count matrix is diagonal,
the pair is classified as duplicate, the Hamming distance and proportion are 0 and the JC69 log
argument is exactly 1. -/
theorem zero_on_identical (cols : List Col) (hs : ∀ c ∈ cols, c.1 = c.2 ∨ c.1 < 0 ∨ c.2 < 0)
    (hne : total (memo (ofCounts (fill cols))) ≠ 0) :
    let m := memo (ofCounts (fill cols))
    hasOffDiag m = false ∧ hammingStat m = .hamming (total m) 0 0 ∧ jc69Stat m = .jc69 (total m) 0 1 := by
  intro m
  have hd : Diagonal m := countsOf_diagonal cols hs
  have ht : total m - diagSum m = 0 := by rw [diag_total m hd]; ring
  refine ⟨hasOffDiag_of_diagonal m hd, ?_, ?_⟩
  · unfold hammingStat
    simp only [ht]
    rw [if_neg hne]; simp
  · unfold jc69Stat
    simp only [ht]
    rw [if_neg hne]
    norm_num

example : total (memo (ofCounts (fill ([2, 1, -9, 0].zip [2, 1, 3, 0])))) = 3 := by decide +kernel

/-- swapping the two sequences of a pair transposes the (tabulated) count matrix -/
theorem countsOf_swap (s₁ s₂ : List Int) : countsOf s₂ s₁ = tr (countsOf s₁ s₂) :=
  Distance.countsOf_swap s₁ s₂

/-- **Every estimator is symmetric on a pair, end to end**: index arrays in, pre-log statistic out
(`counts_swap` + `stat_symmetric` composed through the tabulation). -/
theorem direct_symmetric (c : Calc) (s₁ s₂ : List Int) : direct c s₂ s₁ = direct c s₁ s₂ := by
  unfold direct; rw [Distance.countsOf_swap]; exact (stat_symmetric c _).1

example : direct .tn93 [2, 1, 3, 0, 2, 2, 1, 0, 3, 3] [2, 1, 3, 0, 3, 2, 0, 0, 3, 1] =
    .tn93 10 (3/10) (3/11) (2/9) (4951/19800) (179/330) (79/180) (79/99) := by decide +kernel

/-- What the code reports for a pair taken alone (`pairReport`: the estimator when a difference was observed;
the literal 0 for equal arrays and for unequal arrays without an observed difference; "invalid" when unequal
arrays share no canonical column) is symmetric in the two sequences. -/
theorem pairReport_symmetric (c : Calc) (s₁ s₂ : List Int) : pairReport c s₂ s₁ = pairReport c s₁ s₂ :=
  pairReport_symm c s₁ s₂

-- the three non-trivial branches: a difference observed; 'AAAA----' vs '----CCCC' (nothing shared: invalid);
-- 'ACGTNN' vs 'ACGTAC' (no difference observed, arrays differ: 0 without aliasing)
example : pairReport .pdist [2, 1, 3, 0, 2, 1] [2, 1, 3, 2, 0, 0] = .hamming 6 (1/2) 3 := by decide +kernel
example : pairReport .jc69 [2, 2, 2, 2, -9, -9, -9, -9] [-9, -9, -9, -9, 1, 1, 1, 1] = .invalid := by decide +kernel
example : pairReport .pdist [2, 1, 3, 0, -9, -9] [2, 1, 3, 0, 2, 1] = .zero := by decide +kernel

/-- **`expand_matches_direct` (n sequences, the code as it stands)**: for EVERY alignment (any number of
sequences, any duplicates, gaps, ambiguity codes) and every estimator, every off-diagonal cell (a,b) of
`calc.run(); calc.get_pairwise_distances()` — the two nested loops with the duplicate shortcut, the
removal of keys that mention a duplicate, and `_expand` — is exactly what the code reports for the pair
(a,b) taken alone.  Hence each distance depends only on its two sequences (no dependence on the order or
presence of other sequences), and the duplicate shortcut is a pure optimisation. -/
theorem expand_matches_direct (c : Calc) (seqs : List (List Int)) (a b : Nat)
    (ha : a < seqs.length) (hb : b < seqs.length) (hab : a ≠ b) :
    ((distanceMatrix c seqs).getD a []).getD b .absent = pairReport c (seqs.getD a []) (seqs.getD b []) := by
  have hcell : ((distanceMatrix c seqs).getD a []).getD b .absent = cell (expand seqs.length (run c seqs)) a b := by
    simp [distanceMatrix, List.getD_eq_getElem?_getD, ha, hb]
  rw [hcell]
  unfold cell dictGet
  rw [if_neg hab]
  show ((expand seqs.length (run c seqs)).get a b).getD .absent = _
  rw [expand_settled c seqs a b ha hb hab]; rfl

/-- the diagonal of the returned matrix is the literal zero -/
theorem matrix_zero_diagonal (c : Calc) (seqs : List (List Int)) (a : Nat) (ha : a < seqs.length) :
    ((distanceMatrix c seqs).getD a []).getD a .absent = .zero := by
  simp [distanceMatrix, List.getD_eq_getElem?_getD, ha, cell]

/-- the whole n×n matrix is symmetric -/
theorem matrix_symmetric (c : Calc) (seqs : List (List Int)) (a b : Nat)
    (ha : a < seqs.length) (hb : b < seqs.length) :
    ((distanceMatrix c seqs).getD a []).getD b .absent = ((distanceMatrix c seqs).getD b []).getD a .absent := by
  by_cases hab : a = b
  · rw [hab]
  · rw [expand_matches_direct c seqs a b ha hb hab, expand_matches_direct c seqs b a hb ha (Ne.symm hab),
      pairReport_symm]

/-- a sequence and its copy anywhere in an alignment are at distance zero, for every estimator (including
paralinear/LogDet whose formula functions return "invalid" for identical sequences) -/
theorem zero_on_identical_run (c : Calc) (seqs : List (List Int)) (a b : Nat)
    (ha : a < seqs.length) (hb : b < seqs.length) (heq : seqs.getD a [] = seqs.getD b []) :
    ((distanceMatrix c seqs).getD a []).getD b .absent = .zero := by
  by_cases hab : a = b
  · rw [hab]; exact matrix_zero_diagonal c seqs b hb
  · rw [expand_matches_direct c seqs a b ha hb hab, heq, pairReport_self]

-- the former counter-example ('ACGTNN', 'ACGTAC', 'ACGATT'): every cell is now the pair's own value
example : distanceMatrix .pdist [[2, 1, 3, 0, -9, -9], [2, 1, 3, 0, 2, 1], [2, 1, 3, 2, 0, 0]] =
      [[.zero, .zero, .hamming 4 (1/4) 1], [.zero, .zero, .hamming 6 (1/2) 3],
       [.hamming 4 (1/4) 1, .hamming 6 (1/2) 3, .zero]] := by decide +kernel
-- duplicates are aliased and expanded: rows 0, 2 and 3 are the same array
example : distanceMatrix .pdist [[2, 1, 3, 0], [2, 1, 3, 2], [2, 1, 3, 0], [2, 1, 3, 0]] =
      [[.zero, .hamming 4 (1/4) 1, .zero, .zero], [.hamming 4 (1/4) 1, .zero, .hamming 4 (1/4) 1, .hamming 4 (1/4) 1],
       [.zero, .hamming 4 (1/4) 1, .zero, .zero], [.zero, .hamming 4 (1/4) 1, .zero, .zero]] := by decide +kernel

end CogentModel.C15
