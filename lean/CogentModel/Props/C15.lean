import CogentModel.Model.Distance
import CogentModel.Model.NJ
import CogentModel.Model.UPGMA
import CogentModel.Proofs.DistanceLemmas
import CogentModel.Proofs.NJLemmas
import CogentModel.Proofs.UPGMALemmas
/-! # C15 — property theorems (distance estimators, neighbour joining, UPGMA) -/
namespace CogentModel.C15
open CogentModel.Distance

/-! ## 1. estimators -/

/-- Column order is irrelevant: permuting the columns of a pair leaves the count matrix, hence every
pre-log quantity of every estimator, unchanged. -/
theorem counts_perm_invariant (cols₁ cols₂ : List Col) (h : cols₁.Perm cols₂) (c : Calc) :
    fill cols₁ = fill cols₂ ∧ stat c (memo (ofCounts (fill cols₁))) = stat c (memo (ofCounts (fill cols₂))) := by
  have : fill cols₁ = fill cols₂ := by
    funext x y; rw [fill_eq_cnt, fill_eq_cnt]; exact h.countP_eq _
  exact ⟨this, by rw [this]⟩

example : [((2 : Int), (3 : Int)), (1, 1), (-9, 0)].Perm [(-9, 0), (2, 3), (1, 1)] := by decide

/-- Non-canonical columns (a negative index in either sequence) are ignored: the count matrix of the
columns equals the count matrix of the canonical columns only. -/
theorem noncanonical_ignored (cols : List Col) :
    fill cols = fill (cols.filter fun c => decide (0 ≤ c.1 ∧ 0 ≤ c.2)) := by
  funext x y
  rw [fill_eq_cnt, fill_eq_cnt]
  unfold cnt
  rw [List.countP_filter]
  congr 1
  funext c
  by_cases h : 0 ≤ c.1 ∧ 0 ≤ c.2 ∧ c.1 = x ∧ c.2 = y
  · have h' : 0 ≤ c.1 ∧ 0 ≤ c.2 := ⟨h.1, h.2.1⟩
    simp [h]
  · simp [h]

example : fill [((2 : Int), (3 : Int)), (-9, 0), (1, 1), (2, -9)] 2 3 = 1 := by decide

/-- Swapping the two sequences transposes the count matrix. -/
theorem counts_swap (cols : List Col) (i j : Nat) :
    ofCounts (fill (cols.map Prod.swap)) i j = tr (ofCounts (fill cols)) i j := by
  show ((fill (cols.map Prod.swap) (i : Int) (j : Int) : Nat) : Rat) = ((fill cols (j : Int) (i : Int) : Nat) : Rat)
  rw [fill_eq_cnt, fill_eq_cnt, cnt_swap]

example : ofCounts (fill ([((2 : Int), (3 : Int)), (2, 3), (1, 0)].map Prod.swap)) 3 2 = 2 := by decide +kernel

/-- Every estimator's pre-log quantities, and the duplicate test, are invariant under transposing the
count matrix; with `counts_swap` this makes every distance symmetric. -/
theorem stat_symmetric (c : Calc) (m : M4) :
    stat c (tr m) = stat c m ∧ hasOffDiag (tr m) = hasOffDiag m := by
  refine ⟨?_, hasOffDiag_tr m⟩
  cases c
  · exact hammingStat_tr m
  · exact hammingStat_tr m
  · exact jc69Stat_tr m
  · exact tn93Stat_tr m
  · exact paralinearStat_tr m
  · exact logdetStat_tr true m
  · exact logdetStat_tr false m

example : stat .tn93 (countsOf [2, 1, 3, 0, 2, 2, 1, 0, 3, 3] [2, 1, 3, 0, 3, 2, 0, 0, 3, 1]) =
    .tn93 10 (3/10) (3/11) (2/9) (4951/19800) (179/330) (79/180) (79/99) := by decide +kernel

/-- Identical canonical content gives distance zero (before the logarithm: p = 0, JC69 factor = 1):
if two index arrays agree on every column where both are canonical, the count matrix is diagonal,
the pair is classified as duplicate, the Hamming distance and proportion are 0 and the JC69 log
argument is exactly 1. -/
theorem zero_on_identical (cols : List Col) (hs : ∀ c ∈ cols, c.1 = c.2 ∨ c.1 < 0 ∨ c.2 < 0)
    (hne : total (memo (ofCounts (fill cols))) ≠ 0) :
    let m := memo (ofCounts (fill cols))
    hasOffDiag m = false ∧ hammingStat m = .hamming (total m) 0 0 ∧ jc69Stat m = .jc69 (total m) 0 1 := by
  intro m
  have hd : Diagonal m := countsOf_diagonal cols hs
  have ht : total m - diagSum m = 0 := by rw [diag_total m hd]; ring
  refine ⟨hasOffDiag_of_diagonal m hd, ?_, ?_⟩
  · unfold hammingStat
    simp only [ht]
    rw [if_neg hne]; simp
  · unfold jc69Stat
    simp only [ht]
    rw [if_neg hne]
    norm_num

example : total (memo (ofCounts (fill ([2, 1, -9, 0].zip [2, 1, 3, 0])))) = 3 := by decide +kernel

/-- `calc.run(); calc.get_pairwise_distances()` on a sequence and its copy: all four cells are the
literal zero written by `_expand` (for every estimator, including paralinear/LogDet whose formula
functions return "invalid" for identical sequences). -/
theorem zero_on_identical_run (c : Calc) (s : List Int) :
    distanceMatrix c [s, s] = [[.zero, .zero], [.zero, .zero]] := by
  have h : hasOffDiag (countsOf s s) = false :=
    hasOffDiag_of_diagonal _ (countsOf_diagonal _ (zip_self_same s))
  simp [distanceMatrix, run, outerStep, innerStep, expand, expandOne, expandName, cell, dictGet, dictSet,
    List.range, List.range.loop, h]

/-- For two sequences the whole pipeline returns the estimator applied to the pair's own count matrix
(or zero if no difference was observed). -/
theorem pair_matches_direct (c : Calc) (s₁ s₂ : List Int) :
    distanceMatrix c [s₁, s₂] =
      if hasOffDiag (countsOf s₁ s₂) then [[.zero, direct c s₁ s₂], [direct c s₁ s₂, .zero]]
      else [[.zero, .zero], [.zero, .zero]] := by
  by_cases h : hasOffDiag (countsOf s₁ s₂) = true
  · simp [distanceMatrix, run, outerStep, innerStep, expand, cell, dictGet, dictSet, direct,
      List.range, List.range.loop, h]
  · have h' : hasOffDiag (countsOf s₁ s₂) = false := by simpa using h
    simp [distanceMatrix, run, outerStep, innerStep, expand, expandOne, expandName, cell, dictGet, dictSet,
      List.range, List.range.loop, h']

/- FULL STATEMENT (not proved, and FALSE for the code as written): `expand_matches_direct`
   ∀ c seqs a b, a < seqs.length → b < seqs.length → a ≠ b →
     (distanceMatrix c seqs)[a][b] = if hasOffDiag (countsOf seqs[a] seqs[b]) then direct c seqs[a] seqs[b] else .zero
   i.e. the duplicate shortcut + `_expand` give every pair the estimator of that pair alone.
   The duplicate test "no off-diagonal count" is not transitive when non-canonical characters are present
   ('ACGTNN' ~ 'ACGTAC' but 'ACGTAC' vs 'ACGATT' differs from 'ACGTNN' vs 'ACGATT'), so the alias gets the
   distance of the wrong pair.  `expand_matches_direct_counter` below is the witness; for two sequences the
   statement holds (`pair_matches_direct`). -/

/-- Witness (index arrays of 'ACGTNN', 'ACGTAC', 'ACGATT' under T,C,A,G = 0,1,2,3): the pipeline reports
p = 1/4 for the pair (1,2) although the pair itself has 3 differences in 6 columns. -/
theorem expand_matches_direct_counter :
    ((distanceMatrix .pdist [[2, 1, 3, 0, -9, -9], [2, 1, 3, 0, 2, 1], [2, 1, 3, 2, 0, 0]]).getD 1 []).getD 2 .absent
        = .hamming 4 (1/4) 1 ∧
    direct .pdist [2, 1, 3, 0, 2, 1] [2, 1, 3, 2, 0, 0] = .hamming 6 (1/2) 3 := by
  decide +kernel

/-! ### additions of the audit: the CURRENT duplicate test, end-to-end symmetry of a pair

Since repo commit 259ec35c1 `_PairwiseDistance.run` aliases `j` to `i` only if the index arrays are equal
(`runR` / `distanceMatrixR`; this is the variant the harness correspondence runs on the current tree —
`run` / `distanceMatrix` above mirror the code BEFORE that commit). -/

/-- swapping the two sequences of a pair transposes the (tabulated) count matrix -/
theorem countsOf_swap (s₁ s₂ : List Int) : countsOf s₂ s₁ = tr (countsOf s₁ s₂) := by
  have hf : ofCounts (fill (s₂.zip s₁)) = tr (ofCounts (fill (s₁.zip s₂))) := by
    funext i j; rw [zip_swap_int]; exact counts_swap _ i j
  unfold countsOf
  rw [hf]
  funext i j
  by_cases h : i < 4 ∧ j < 4
  · rw [memo_apply _ i j h.1 h.2]; unfold tr; rw [memo_apply _ j i h.2 h.1]
  · rw [memo_out _ i j (by omega)]; unfold tr; rw [memo_out _ j i (by omega)]

/-- **Every estimator is symmetric on a pair, end to end**: index arrays in, pre-log statistic out
(`counts_swap` + `stat_symmetric` composed through the tabulation). -/
theorem direct_symmetric (c : Calc) (s₁ s₂ : List Int) : direct c s₂ s₁ = direct c s₁ s₂ := by
  unfold direct; rw [countsOf_swap]; exact (stat_symmetric c _).1

example : direct .tn93 [2, 1, 3, 0, 2, 2, 1, 0, 3, 3] [2, 1, 3, 0, 3, 2, 0, 0, 3, 1] =
    .tn93 10 (3/10) (3/11) (2/9) (4951/19800) (179/330) (79/180) (79/99) := by decide +kernel

/-- CURRENT code, a sequence and its copy: all four cells are the literal zero -/
theorem zero_on_identical_run_current (c : Calc) (s : List Int) :
    distanceMatrixR c [s, s] = [[.zero, .zero], [.zero, .zero]] := by
  have h : hasOffDiag (countsOf s s) = false :=
    hasOffDiag_of_diagonal _ (countsOf_diagonal _ (zip_self_same s))
  simp [distanceMatrixR, runR, outerStepR, innerStepR, expand, expandOne, expandName, cell, dictGet, dictSet,
    List.range, List.range.loop, h]

/-- CURRENT code, two sequences: the pipeline returns `directR` of the pair — the estimator of the pair's own
count matrix when a difference was observed; the literal 0 for equal arrays (alias) and for unequal arrays
without an observed difference; "invalid" when unequal arrays share no canonical column. -/
theorem pair_matches_direct_current (c : Calc) (s₁ s₂ : List Int) :
    distanceMatrixR c [s₁, s₂] = [[.zero, directR c s₁ s₂], [directR c s₁ s₂, .zero]] := by
  unfold directR
  by_cases h : hasOffDiag (countsOf s₁ s₂) = true
  · simp [distanceMatrixR, runR, outerStepR, innerStepR, expand, cell, dictGet, dictSet,
      List.range, List.range.loop, h]
  · have h' : hasOffDiag (countsOf s₁ s₂) = false := by simpa using h
    by_cases he : (s₁ == s₂) = true
    · simp [distanceMatrixR, runR, outerStepR, innerStepR, expand, expandOne, expandName, cell, dictGet, dictSet,
        List.range, List.range.loop, h', he]
    · have he' : (s₁ == s₂) = false := by simpa using he
      by_cases ht : 0 < total (countsOf s₁ s₂)
      · simp [distanceMatrixR, runR, outerStepR, innerStepR, expand, cell, dictGet, dictSet,
          List.range, List.range.loop, h', he', ht]
      · simp [distanceMatrixR, runR, outerStepR, innerStepR, expand, cell, dictGet, dictSet,
          List.range, List.range.loop, h', he', ht]

-- the three non-trivial branches: a difference observed; 'AAAA----' vs '----CCCC' (nothing shared: invalid);
-- 'ACGTNN' vs 'ACGTAC' (no difference observed, arrays differ: 0 without aliasing)
example : directR .pdist [2, 1, 3, 0, 2, 1] [2, 1, 3, 2, 0, 0] = .hamming 6 (1/2) 3 := by decide +kernel
example : directR .jc69 [2, 2, 2, 2, -9, -9, -9, -9] [-9, -9, -9, -9, 1, 1, 1, 1] = .invalid := by decide +kernel
example : directR .pdist [2, 1, 3, 0, -9, -9] [2, 1, 3, 0, 2, 1] = .zero := by decide +kernel

/-- the witness of `expand_matches_direct_counter` on the CURRENT code: every off-diagonal cell is the
estimator of that pair alone (pair (1,2): 3 differences in 6 columns, p = 1/2; pair (0,1): literal 0) -/
theorem expand_matches_direct_current_witness :
    distanceMatrixR .pdist [[2, 1, 3, 0, -9, -9], [2, 1, 3, 0, 2, 1], [2, 1, 3, 2, 0, 0]] =
      [[.zero, .zero, .hamming 4 (1/4) 1], [.zero, .zero, .hamming 6 (1/2) 3],
       [.hamming 4 (1/4) 1, .hamming 6 (1/2) 3, .zero]] ∧
    directR .pdist [2, 1, 3, 0, 2, 1] [2, 1, 3, 2, 0, 0] = .hamming 6 (1/2) 3 := by
  decide +kernel

/- FULL STATEMENT (not proved) for the current code: `expand_matches_direct_current`
   ∀ c seqs a b, a < seqs.length → b < seqs.length → a ≠ b →
     ((distanceMatrixR c seqs).getD a []).getD b .absent = directR c (seqs.getD a []) (seqs.getD b [])
   Now expected to be TRUE (aliases are equal arrays, so an alias's pair statistics are the duplicate's), but the
   induction over the two `foldl` loops, the `dupes` set and the `_expand` dictionary is not done; proved for two
   sequences (`pair_matches_direct_current`) and checked on the former counter-example. -/

/-! ## 2. neighbour joining -/
section NJ
open CogentModel.NJ

/-- If `(i, j)` is a cherry of the (symmetric, zero-diagonal) matrix `d` on `L > 2` nodes with pendant
lengths `ai, aj ≥ 0`, the two branch lengths computed by `PartialTree.join` are exactly `ai` and `aj`
(the `max(0.0, ·)` clamps are inactive). -/
theorem nj_cherry_lengths (d : Mat) (L i j : Nat) (ai aj : Rat) (e : Nat → Rat) (hL : 2 < L)
    (hs : Sym d L) (hz : ZeroDiag d L) (hc : Cherry d L i j ai aj e) :
    leftLen d L i j = ai ∧ rightLen d L i j = aj :=
  ⟨leftLen_cherry d L i j ai aj e hL hs hz hc, rightLen_cherry d L i j ai aj e hL hs hz hc⟩

/-- The reduced matrix returned by `join` is the metric of the tree with the cherry collapsed into its
parent `u`: entry (a,b) of the shortened array reads position `src a`, `src b` of the old one
(`src` = "the last row moved into slot j"), the new node sits where `src · = i`, its distances are
`e k = d(u,k)`, all other entries are unchanged, and the array stays symmetric with zero diagonal. -/
theorem nj_reduced_additive (d : Mat) (L i j : Nat) (ai aj : Rat) (e : Nat → Rat)
    (hs : Sym d L) (hz : ZeroDiag d L) (hc : Cherry d L i j ai aj e) (a b : Nat) (ha : a < L - 1) (hb : b < L - 1) :
    (src L j a = i → src L j b ≠ i → get (joinMat d L i j) a b = e (src L j b)) ∧
    (src L j a ≠ i → src L j b = i → get (joinMat d L i j) a b = e (src L j a)) ∧
    (src L j a ≠ i → src L j b ≠ i → get (joinMat d L i j) a b = get d (src L j a) (src L j b)) ∧
    get (joinMat d L i j) a b = get (joinMat d L i j) b a ∧ get (joinMat d L i j) a a = 0 := by
  have hab : get (joinMat d L i j) a b = base d i j (src L j a) (src L j b) := by
    unfold joinMat; rw [get_tab _ _ _ _ ha hb]
  have hba : get (joinMat d L i j) b a = base d i j (src L j b) (src L j a) := by
    unfold joinMat; rw [get_tab _ _ _ _ hb ha]
  have haa : get (joinMat d L i j) a a = base d i j (src L j a) (src L j a) := by
    unfold joinMat; rw [get_tab _ _ _ _ ha ha]
  refine ⟨?_, ?_, ?_, ?_, ?_⟩
  · intro hx hy
    rw [hab]; unfold base
    rw [if_neg (fun h => hy h.2), if_pos hx]
    exact newDist_cherry d L i j ai aj e hc _ (src_lt _ _ _ hb) hy (src_ne_j _ _ _ hb)
  · intro hx hy
    rw [hab]; unfold base
    rw [if_neg (fun h => hx h.1), if_neg hx, if_pos hy]
    exact newDist_cherry d L i j ai aj e hc _ (src_lt _ _ _ ha) hx (src_ne_j _ _ _ ha)
  · intro hx hy
    rw [hab]; unfold base
    rw [if_neg (fun h => hx h.1), if_neg hx, if_neg hy]
  · rw [hab, hba]; exact base_sym d L i j _ _ hs (src_lt _ _ _ ha) (src_lt _ _ _ hb)
  · rw [haa]; unfold base
    by_cases h : src L j a = i
    · simp [h]
    · simp [h]; exact hz _ (src_lt _ _ _ ha)

/-- The final three-node resolution (`asScoreTreeTuple`): for a symmetric zero-diagonal 3×3 matrix the three
lengths are `(d_ab + d_ac − d_bc)/2`, so any two of them add up to the corresponding distance. -/
theorem nj_three_point (d : Mat) (hs : Sym d 3) (hz : ZeroDiag d 3) :
    finalLen d 0 + finalLen d 1 = get d 0 1 ∧ finalLen d 0 + finalLen d 2 = get d 0 2 ∧
    finalLen d 1 + finalLen d 2 = get d 1 2 := by
  obtain ⟨f0, f1, f2⟩ := finalLen_vals d hs hz
  rw [f0, f1, f2]
  refine ⟨by ring, by ring, by ring⟩

/-- the loop ends with exactly three nodes when started from `n ≥ 3` labels -/
theorem nj_loop_ends_with_three (n : Nat) (hn : 3 ≤ n) (sel : PT → Nat × Nat) (d : Mat) :
    (njLoop sel n (star n d)).L = 3 :=
  njLoop_L sel n (star n d) hn (by show n - 3 ≤ n; omega)

example : Sym [[0, 3, 4], [3, 0, 5], [4, 5, 0]] 3 ∧ ZeroDiag [[0, 3, 4], [3, 0, 5], [4, 5, 0]] 3 := by
  constructor
  · intro a b ha hb
    have : a = 0 ∨ a = 1 ∨ a = 2 := by omega
    have : b = 0 ∨ b = 1 ∨ b = 2 := by omega
    rcases ‹a = 0 ∨ _› with rfl | rfl | rfl <;> rcases ‹b = 0 ∨ _› with rfl | rfl | rfl <;> decide +kernel
  · intro a ha
    have : a = 0 ∨ a = 1 ∨ a = 2 := by omega
    rcases this with rfl | rfl | rfl <;> decide +kernel
example : finalLen [[0, 3, 4], [3, 0, 5], [4, 5, 0]] 0 = 1 := by decide +kernel

/-- NJ realises `D` whenever every selected pair is a cherry of the current matrix — for ANY selection rule
`sel` (in particular for `pickPair`, the model of `argsort(scores)[first off-diagonal]`, and for any other
tie-breaking).  `D` symmetric with zero diagonal on `n ≥ 3` labels; `hch`: at every state reached by the
loop with more than three nodes the selected pair is a cherry; `htri`: the last three nodes satisfy the
triangle inequality (`n ≥ 3`).  Then in the returned root every child subtree realises `D`, tips under different
children are at path distance `D` through the root, and the tips are exactly the labels `0..n-1`. -/
theorem nj_realises_additive_partial (D : Nat → Nat → Rat) (n : Nat) (sel : PT → Nat × Nat)
    (hDs : ∀ a b, D a b = D b a) (hDz : ∀ a, D a a = 0)
    (hch : ∀ k, 3 < (njLoop sel k (star n (tab n D))).L →
      ∃ ai aj e, Cherry (njLoop sel k (star n (tab n D))).d (njLoop sel k (star n (tab n D))).L
        (sel (njLoop sel k (star n (tab n D)))).1 (sel (njLoop sel k (star n (tab n D)))).2 ai aj e)
    (hn : 3 ≤ n)
    (htri : Tri3 (njLoop sel n (star n (tab n D))).d) :
    RootReal D (finish (njLoop sel n (star n (tab n D)))) ∧
    Labels n (njLoop sel n (star n (tab n D))) :=
  ⟨finish_real D _ (nj_loop_ends_with_three n hn sel _) (njLoop_inv D sel n _ (star_inv D n hDs hDz) hch) htri,
   njLoop_labels n sel n _ (star_labels n _) hch⟩

/-- quartet ((0:1,1:2):4,2:2,3:3): tips 0,1 form a cherry with pendant lengths 1 and 2 -/
def exD : Mat := [[0, 3, 7, 8], [3, 0, 8, 9], [7, 8, 0, 5], [8, 9, 5, 0]]

/-- Per-instance certificate: `njCertified n d` is a computable check (every pair selected by the model's
`pickPair` is a cherry of the current matrix, the last three nodes satisfy the triangle inequality) that the
driver evaluates on every test matrix; whenever it returns `true`, the tree returned by the model of `nj`
realises `D` and carries exactly the labels.  (This replaces the unproved `nj_selects_cherry` instance by
instance.) -/
theorem nj_realises_additive_checked (D : Nat → Nat → Rat) (n : Nat) (hn : 3 ≤ n)
    (hDs : ∀ a b, D a b = D b a) (hDz : ∀ a, D a a = 0) (hc : njCertified n (tab n D) = true) :
    RootReal D (nj n (tab n D)) ∧ Labels n (njLoop pickPair n (star n (tab n D))) := by
  unfold njCertified at hc
  rw [Bool.and_eq_true] at hc
  have hn2 : n ≠ 2 := by omega
  unfold nj; rw [if_neg hn2]
  exact nj_realises_additive_partial D n pickPair hDs hDz (njCheck_sound pickPair n _ hc.1) hn (tri3B_sound _ hc.2)

example : njCertified 4 exD = true := by decide +kernel

/-- and `nj` (n ≠ 2) is that loop with the model's selection rule followed by `finish` -/
theorem nj_eq_loop (n : Nat) (hn : n ≠ 2) (d : Mat) : nj n d = finish (njLoop pickPair n (star n d)) := by
  unfold nj; rw [if_neg hn]

example : Cherry exD 4 0 1 1 2 (fun k => if k = 2 then 6 else 7) := by
  refine ⟨by decide, by decide, by decide, by decide, by decide, by decide +kernel, ?_, ?_⟩ <;>
  · intro k hk h0 h1
    have : k = 2 ∨ k = 3 := by omega
    rcases this with rfl | rfl <;> decide +kernel

example : pickPair (star 4 exD) = (0, 1) := by decide +kernel
example : nj 4 exD = [(4, .bin 1 (.tip 0) 2 (.tip 1)), (3, .tip 3), (2, .tip 2)] := by decide +kernel
example : Tri3 (njLoop pickPair 4 (star 4 exD)).d := by unfold Tri3; decide +kernel

/- FULL STATEMENT (not proved): `nj_selects_cherry` (Studier & Keppler 1988; Durbin et al. §7.3)
   ∀ (d : Mat) (L : Nat), 3 < L → Sym d L → ZeroDiag d L →
     (d is the path metric of a tree with positive branch lengths on leaves 0..L-1) →
     ∀ score, let (i, j) := pickPair ⟨L, d, nodes, score⟩;
       ∃ ai aj e, Cherry d L i j ai aj e
   (every off-diagonal minimiser of Q(a,b) = d(a,b) − (r_a + r_b)/(L−2) is a pair of neighbours).
   With it the hypothesis `hch` of `nj_realises_additive_partial` is discharged for `sel = pickPair` by
   induction (`nj_reduced_additive` keeps the matrix a tree metric) and NJ returns the generating tree for every
   additive matrix.  Not proved here: the argument needs a formal tree-metric type and the counting
   inequality over the subtrees hanging off the i–j path.  Until then the conclusion is CHECKED PER INSTANCE on
   the real implementation by harness/c15.py (`_JoinRecorder`: every join of nj() on an additive matrix of a
   binary generating tree is a split of that tree), and the final output is compared with the generating
   tree. -/

end NJ

/-! ## 3. UPGMA -/
section UPGMA
open CogentModel.UPGMA
open CogentModel.NJ (Mat get tab)

/-- Key lemma: in a symmetric matrix satisfying the three-point (ultrametric) condition on the live set `S`,
a globally minimal pair `(i, j)` has identical rows: `d i k = d j k` for every other live `k`.  Hence the
row average taken by `condense_matrix` is exact. -/
theorem upgma_min_pair_rows_equal (S : Nat → Prop) (d : Nat → Nat → Rat) (i j : Nat)
    (hsym : ∀ a b, S a → S b → d a b = d b a) (hu : Ultra S d) (hi : S i) (hj : S j) (hij : i ≠ j)
    (hmin : ∀ a b, S a → S b → a ≠ b → d i j ≤ d a b) (k : Nat) (hk : S k) (hki : k ≠ i) (hkj : k ≠ j) :
    d i k = d j k :=
  min_pair_rows_equal S d i j hsym hu hi hj hij hmin k hk hki hkj

example : Ultra (fun a => a < 3) (fun a b => if a = b then 0 else if a + b = 1 then 2 else 6) := by
  intro x y z hx hy hz hxy hyz hxz
  have : x = 0 ∨ x = 1 ∨ x = 2 := by omega
  have : y = 0 ∨ y = 1 ∨ y = 2 := by omega
  have : z = 0 ∨ z = 1 ∨ z = 2 := by omega
  rcases ‹x = 0 ∨ _› with rfl | rfl | rfl <;> rcases ‹y = 0 ∨ _› with rfl | rfl | rfl <;>
    rcases ‹z = 0 ∨ _› with rfl | rfl | rfl <;> first | omega | decide +kernel

/-- One-step reduction, on the model of `condense_node_order` + `condense_matrix`: if the state realises `D`
(`UInv`: live part of the matrix symmetric and ultrametric, every live node an equal-depth subtree realising
`D` with non-negative branch lengths, different live nodes at matrix distance) and `(i, j)` is a live pair
of globally minimal distance, then the state after merging `i` and `j` realises `D` again — in
particular the reduced matrix is again ultrametric and the new node's branch lengths are non-negative. -/
theorem upgma_reduced_ultrametric (D : Nat → Nat → Rat) (n : Nat) (big : Rat) (m : Mat) (order : List (Option Entry))
    (i j : Nat) (hI : UInv D n m order) (hi : Live order i) (hj : Live order j) (hij : i ≠ j)
    (hmin : ∀ a b, Live order a → Live order b → a ≠ b → get m i j ≤ get m a b) :
    UInv D n (stepWith n big order m (i, j)).m (stepWith n big order m (i, j)).order :=
  stepWith_inv D n big m order i j hI hi hj hij hmin

/-- UPGMA realises every ultrametric, provided each pass selects a live minimal pair (`GoodSel`, see the full
statement below).  `D` symmetric, non-negative, three-point condition on the labels `0..n-1`, `n ≥ 2`:
`upgma` returns a tree whose path distances between tips equal `D` (`UReal`), whose branch lengths are all
non-negative and whose tips are all at the same depth. -/
theorem upgma_realises_ultrametric_partial (D : Nat → Nat → Rat) (n : Nat) (hn : 2 ≤ n) (big : Rat)
    (hDs : ∀ a b, D a b = D b a) (hDn : ∀ a b, 0 ≤ D a b)
    (hDu : ∀ x y z, x < n → y < n → z < n → x ≠ y → y ≠ z → x ≠ z → D x z ≤ max (D x y) (D y z))
    (hg : ∀ t, t < n - 1 → GoodSel n big (iter n big t (init n (tab n D) big))) :
    ∃ t h, upgma n (tab n D) big = some t ∧ UReal D t ∧ NonNeg t ∧ ∀ p ∈ t.depths, p.2 = h := by
  have hI0 := init_inv D n big hDs hDn hDu
  obtain ⟨k, hk⟩ : ∃ k, n - 1 = k + 1 := ⟨n - 2, by omega⟩
  rw [upgma_eq, hk]
  rw [hk] at hg
  obtain ⟨a, e, he1, he2⟩ := iter_tree D n big k _ hI0 hg
  obtain ⟨hd, hr, hnn, _⟩ := (iter_inv D n big (k + 1) _ hI0 hg).node a e he2
  exact ⟨e.tree, e.height, by rw [he1]; rfl, hr, hnn, hd⟩

/-- ultrametric ((0:1,1:1):2,2:3) -/
def exU : Mat := [[0, 2, 6], [2, 0, 6], [6, 6, 0]]

/-- Per-instance certificate: `upgmaCertified n d big` is a computable check (at each of the `n-1` passes the
pair found by `find_smallest_index` is a pair of distinct live clusters at minimal live distance) evaluated by
the driver on every test matrix; whenever it is `true` the model of `upgma` returns an equal-depth tree with
non-negative branch lengths whose path distances are `D`. -/
theorem upgma_realises_ultrametric_checked (D : Nat → Nat → Rat) (n : Nat) (hn : 2 ≤ n) (big : Rat)
    (hDs : ∀ a b, D a b = D b a) (hDn : ∀ a b, 0 ≤ D a b)
    (hDu : ∀ x y z, x < n → y < n → z < n → x ≠ y → y ≠ z → x ≠ z → D x z ≤ max (D x y) (D y z))
    (hc : upgmaCertified n (tab n D) big = true) :
    ∃ t h, upgma n (tab n D) big = some t ∧ UReal D t ∧ NonNeg t ∧ ∀ p ∈ t.depths, p.2 = h :=
  upgma_realises_ultrametric_partial D n hn big hDs hDn hDu
    (allGood_sound D n big (n - 1) _ (init_inv D n big hDs hDn hDu) hc)

example : upgmaCertified 3 exU 1000000 = true := by decide +kernel

example : upgma 3 exU 1000000 = some (.node (.node (.tip 0) 1 (.tip 1) 1) 2 (.tip 2) 3) := by decide +kernel
example : select 3 1000000 (init 3 exU 1000000).m = ((init 3 exU 1000000).m, (0, 1)) := by decide +kernel

/- FULL STATEMENT (not proved): `upgma_realises_ultrametric`
   ∀ D n big, 2 ≤ n → D symmetric, zero diagonal, non-negative, three-point condition on 0..n-1 →
     (∀ a b < n, 2^n * D a b < big) →
     ∃ t, upgma n (tab n D) big = some t ∧ UReal D t ∧ NonNeg t ∧ t.tips ~ List.range n
   i.e. `upgma_realises_ultrametric_partial` without the hypothesis `hg` and with "the tips are exactly the
   labels".  Missing: (1) `GoodSel` for every reached state: `findSmallest` (first minimum of the flattened
   array) returns a live off-diagonal pair because dead rows/columns hold `big`, and the diagonal of a merged
   cluster holds (diag + d)/2 ≥ big / 2^k after k merges, which stays above every live distance — arithmetic
   about the BIG_NUM sentinel that needs the quantitative side condition above; (2) the count of live
   clusters (n - k after k passes), so that the node returned last contains every label.  Both are exercised
   on every run: the model's tree is compared with `upgma()` (correspondence), and the real `upgma()` is
   compared with the generating tree incl. its tip set (spec_check). -/

end UPGMA

end CogentModel.C15
