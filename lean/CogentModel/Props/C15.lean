import CogentModel.Model.Distance
import CogentModel.Model.NJ
import CogentModel.Model.UPGMA
import CogentModel.Proofs.DistanceLemmas
/-! # C15 — property theorems (distance estimators, neighbour joining, UPGMA) -/
namespace CogentModel.C15
open CogentModel.Distance

/-! ## 1. estimators -/

/-- Column order is irrelevant: permuting the columns of a pair leaves the count matrix, hence every
pre-log quantity of every estimator, unchanged. -/
theorem counts_perm_invariant (cols₁ cols₂ : List Col) (h : cols₁.Perm cols₂) (c : Calc) :
    fill cols₁ = fill cols₂ ∧ stat c (memo (ofCounts (fill cols₁))) = stat c (memo (ofCounts (fill cols₂))) := by
  have : fill cols₁ = fill cols₂ := by
    funext x y; rw [fill_eq_cnt, fill_eq_cnt]; exact h.countP_eq _
  exact ⟨this, by rw [this]⟩

example : [((2 : Int), (3 : Int)), (1, 1), (-9, 0)].Perm [(-9, 0), (2, 3), (1, 1)] := by decide

/-- Non-canonical columns (a negative index in either sequence) are ignored: the count matrix of the
columns equals the count matrix of the canonical columns only. -/
theorem noncanonical_ignored (cols : List Col) :
    fill cols = fill (cols.filter fun c => decide (0 ≤ c.1 ∧ 0 ≤ c.2)) := by
  funext x y
  rw [fill_eq_cnt, fill_eq_cnt]
  unfold cnt
  rw [List.countP_filter]
  congr 1
  funext c
  by_cases h : 0 ≤ c.1 ∧ 0 ≤ c.2 ∧ c.1 = x ∧ c.2 = y
  · have h' : 0 ≤ c.1 ∧ 0 ≤ c.2 := ⟨h.1, h.2.1⟩
    simp [h]
  · simp [h]

example : fill [((2 : Int), (3 : Int)), (-9, 0), (1, 1), (2, -9)] 2 3 = 1 := by decide

/-- Swapping the two sequences transposes the count matrix. -/
theorem counts_swap (cols : List Col) (i j : Nat) :
    ofCounts (fill (cols.map Prod.swap)) i j = tr (ofCounts (fill cols)) i j := by
  show ((fill (cols.map Prod.swap) (i : Int) (j : Int) : Nat) : Rat) = ((fill cols (j : Int) (i : Int) : Nat) : Rat)
  rw [fill_eq_cnt, fill_eq_cnt, cnt_swap]

/-- Every estimator's pre-log quantities, and the duplicate test, are invariant under transposing the
count matrix; with `counts_swap` this makes every distance symmetric. -/
theorem stat_symmetric (c : Calc) (m : M4) :
    stat c (tr m) = stat c m ∧ hasOffDiag (tr m) = hasOffDiag m := by
  refine ⟨?_, hasOffDiag_tr m⟩
  cases c
  · exact hammingStat_tr m
  · exact hammingStat_tr m
  · exact jc69Stat_tr m
  · exact tn93Stat_tr m
  · exact paralinearStat_tr m
  · exact logdetStat_tr true m
  · exact logdetStat_tr false m

example : stat .tn93 (countsOf [2, 1, 3, 0, 2, 2, 1, 0, 3, 3] [2, 1, 3, 0, 3, 2, 0, 0, 3, 1]) =
    .tn93 10 (3/10) (3/11) (2/9) (4951/19800) (179/330) (79/180) (79/99) := by decide +kernel

/-- Identical canonical content gives distance zero (before the logarithm: p = 0, JC69 factor = 1):
if two index arrays agree on every column where both are canonical, the count matrix is diagonal,
the pair is classified as duplicate, the Hamming distance and proportion are 0 and the JC69 log
argument is exactly 1. -/
theorem zero_on_identical (cols : List Col) (hs : ∀ c ∈ cols, c.1 = c.2 ∨ c.1 < 0 ∨ c.2 < 0)
    (hne : total (memo (ofCounts (fill cols))) ≠ 0) :
    let m := memo (ofCounts (fill cols))
    hasOffDiag m = false ∧ hammingStat m = .hamming (total m) 0 0 ∧ jc69Stat m = .jc69 (total m) 0 1 := by
  intro m
  have hd : Diagonal m := countsOf_diagonal cols hs
  have ht : total m - diagSum m = 0 := by rw [diag_total m hd]; ring
  refine ⟨hasOffDiag_of_diagonal m hd, ?_, ?_⟩
  · unfold hammingStat
    simp only [ht]
    rw [if_neg hne]; simp
  · unfold jc69Stat
    simp only [ht]
    rw [if_neg hne]
    norm_num

example : total (memo (ofCounts (fill ([2, 1, -9, 0].zip [2, 1, 3, 0])))) = 3 := by decide +kernel

/-- `calc.run(); calc.get_pairwise_distances()` on a sequence and its copy: all four cells are the
literal zero written by `_expand` (for every estimator, including paralinear/LogDet whose formula
functions return "invalid" for identical sequences). -/
theorem zero_on_identical_run (c : Calc) (s : List Int) :
    distanceMatrix c [s, s] = [[.zero, .zero], [.zero, .zero]] := by
  have h : hasOffDiag (countsOf s s) = false :=
    hasOffDiag_of_diagonal _ (countsOf_diagonal _ (zip_self_same s))
  simp [distanceMatrix, run, outerStep, innerStep, expand, expandOne, expandName, cell, dictGet, dictSet,
    List.range, List.range.loop, h]

/-- For two sequences the whole pipeline returns the estimator applied to the pair's own count matrix
(or zero if no difference was observed). -/
theorem pair_matches_direct (c : Calc) (s₁ s₂ : List Int) :
    distanceMatrix c [s₁, s₂] =
      if hasOffDiag (countsOf s₁ s₂) then [[.zero, direct c s₁ s₂], [direct c s₁ s₂, .zero]]
      else [[.zero, .zero], [.zero, .zero]] := by
  by_cases h : hasOffDiag (countsOf s₁ s₂) = true
  · simp [distanceMatrix, run, outerStep, innerStep, expand, cell, dictGet, dictSet, direct,
      List.range, List.range.loop, h]
  · have h' : hasOffDiag (countsOf s₁ s₂) = false := by simpa using h
    simp [distanceMatrix, run, outerStep, innerStep, expand, expandOne, expandName, cell, dictGet, dictSet,
      List.range, List.range.loop, h']

/- FULL STATEMENT (not proved, and FALSE for the code as written): `expand_matches_direct`
   ∀ c seqs a b, a < seqs.length → b < seqs.length → a ≠ b →
     (distanceMatrix c seqs)[a][b] = if hasOffDiag (countsOf seqs[a] seqs[b]) then direct c seqs[a] seqs[b] else .zero
   i.e. the duplicate shortcut + `_expand` give every pair the estimator of that pair alone.
   The duplicate test "no off-diagonal count" is not transitive when non-canonical characters are present
   ('ACGTNN' ~ 'ACGTAC' but 'ACGTAC' vs 'ACGATT' differs from 'ACGTNN' vs 'ACGATT'), so the alias gets the
   distance of the wrong pair.  `expand_matches_direct_counter` below is the witness; for two sequences the
   statement holds (`pair_matches_direct`). -/

/-- Witness (index arrays of 'ACGTNN', 'ACGTAC', 'ACGATT' under T,C,A,G = 0,1,2,3): the pipeline reports
p = 1/4 for the pair (1,2) although the pair itself has 3 differences in 6 columns. -/
theorem expand_matches_direct_counter :
    ((distanceMatrix .pdist [[2, 1, 3, 0, -9, -9], [2, 1, 3, 0, 2, 1], [2, 1, 3, 2, 0, 0]]).getD 1 []).getD 2 .absent
        = .hamming 4 (1/4) 1 ∧
    direct .pdist [2, 1, 3, 0, 2, 1] [2, 1, 3, 2, 0, 0] = .hamming 6 (1/2) 3 := by
  decide +kernel

end CogentModel.C15
