/-
  C08, translator tie for the LOOPS of core/location.py: translator/c08_span2lean.py turns a python `for` loop into a
  function defined by structural recursion over the list (state = the variables the body assigns that exist before the
  loop; the end of the body and `continue` recurse on the tail, `break` returns the state, `raise` is the error).  Every
  generated loop (Gen/C08Span.lean, regenerated from the CURRENT source on every run) is proved equal to the hand model
  FOR ALL ARGUMENTS, so the theorems about the hand model are theorems about the translated code and a semantic edit of
  one of these loops breaks a proof obligation.
-/
import CogentModel.Props.C08Gen
import CogentModel.Model.FMapPos
namespace CogentModel.C08
open CogentModel CogentModel.FMap

/-- error classes of the two hand models -/
def errMap : IndelMap.Err → FErr
  | .valueError => .valueError
  | .indexError => .indexError
  | .notImplemented => .runtimeError
  | .assertionError => .assertionError
  | .runtimeError => .runtimeError

def liftE {α : Type} : Except IndelMap.Err α → Except FErr α
  | .error e => .error (errMap e)
  | .ok x => .ok x

theorem pyOr_zero (x : Option Int) : C08Gen.pyOr x 0 = x.getD 0 := by
  cases x with
  | none => rfl
  | some v => simp only [C08Gen.pyOr, Option.getD]; split <;> omega

theorem gen_minusInner (a1 a2 : Int) (tot : Option Int) (c2 : List (Int × Int)) :
    C08Gen.coordsMinusCoords_loop2 a1 a2 tot c2 = liftE (IndelMap.minusInner a1 a2 tot c2) := by
  induction c2 generalizing tot with
  | nil => rfl
  | cons b r ih =>
    obtain ⟨b1, b2⟩ := b
    simp only [C08Gen.coordsMinusCoords_loop2, IndelMap.minusInner, gen_spanAndSpan, pyOr_zero]
    split
    · exact ih tot
    · split
      · rfl
      · cases h : IndelMap.spanAndSpan a1 a2 b1 b2 with
        | none => rfl
        | some o =>
          cases o with
          | none => exact ih tot
          | some p => obtain ⟨x, y⟩ := p; exact ih _

theorem gen_coordsMinus_loop (c2 acc c1 : List (Int × Int)) :
    C08Gen.coordsMinusCoords_loop1 c2 acc c1 =
      match IndelMap.coordsMinusCoords c1 c2 with
      | .error e => .error (errMap e)
      | .ok x => .ok (acc ++ x) := by
  induction c1 generalizing acc with
  | nil => simp [C08Gen.coordsMinusCoords_loop1, IndelMap.coordsMinusCoords]
  | cons a r ih =>
    obtain ⟨a1, a2⟩ := a
    simp only [C08Gen.coordsMinusCoords_loop1, IndelMap.coordsMinusCoords, gen_minusInner, pyOr_zero]
    cases h : IndelMap.minusInner a1 a2 none c2 with
    | error e => rfl
    | ok tot =>
      simp only [liftE]
      split
      · rfl
      · split
        · rw [ih]; cases IndelMap.coordsMinusCoords r c2 <;> simp
        · rw [ih]; cases IndelMap.coordsMinusCoords r c2 <;> simp

/-- `coords_minus_coords` as translated from the source = the hand model, for all coordinate lists -/
theorem gen_coordsMinusCoords (c1 c2 : List (Int × Int)) :
    C08Gen.coordsMinusCoords c1 c2 = liftE (IndelMap.coordsMinusCoords c1 c2) := by
  simp only [C08Gen.coordsMinusCoords, gen_coordsMinus_loop]
  cases IndelMap.coordsMinusCoords c1 c2 <;> simp [liftE]

theorem gen_intersectInner (a1 a2 : Int) (acc c2 : List (Int × Int)) :
    C08Gen.coordsIntersect_loop2 a1 a2 acc c2 =
      match IndelMap.intersectInner a1 a2 c2 with
      | .error e => .error (errMap e)
      | .ok x => .ok (acc ++ x) := by
  induction c2 generalizing acc with
  | nil => simp [C08Gen.coordsIntersect_loop2, IndelMap.intersectInner]
  | cons b r ih =>
    obtain ⟨b1, b2⟩ := b
    simp only [C08Gen.coordsIntersect_loop2, IndelMap.intersectInner, gen_spanAndSpan]
    split
    · cases h : IndelMap.spanAndSpan a1 a2 b1 b2 with
      | none => rfl
      | some o =>
        cases o with
        | none => exact ih acc
        | some p =>
          obtain ⟨x, y⟩ := p
          simp only [ih]
          cases IndelMap.intersectInner a1 a2 r <;> simp
    · split
      · simp
      · exact ih acc

theorem gen_coordsIntersect_loop (c2 acc c1 : List (Int × Int)) :
    C08Gen.coordsIntersect_loop1 c2 acc c1 =
      match IndelMap.coordsIntersect c1 c2 with
      | .error e => .error (errMap e)
      | .ok x => .ok (acc ++ x) := by
  induction c1 generalizing acc with
  | nil => simp [C08Gen.coordsIntersect_loop1, IndelMap.coordsIntersect]
  | cons a r ih =>
    obtain ⟨a1, a2⟩ := a
    simp only [C08Gen.coordsIntersect_loop1, IndelMap.coordsIntersect, gen_intersectInner]
    cases IndelMap.intersectInner a1 a2 c2 with
    | error e => rfl
    | ok x =>
      simp only [ih]
      cases IndelMap.coordsIntersect r c2 <;> simp

/-- `coords_intersect` as translated from the source = the hand model -/
theorem gen_coordsIntersect (c1 c2 : List (Int × Int)) :
    C08Gen.coordsIntersect c1 c2 = liftE (IndelMap.coordsIntersect c1 c2) := by
  simp only [C08Gen.coordsIntersect, gen_coordsIntersect_loop]
  cases IndelMap.coordsIntersect c1 c2 <;> simp [liftE]

example : C08Gen.coordsIntersect [(0, 3), (5, 9)] [(2, 6), (8, 12)] = .ok [(2, 3), (5, 6), (8, 9)] := by decide
example : C08Gen.coordsMinusCoords [(0, 3), (5, 9), (10, 12)] [(2, 6), (10, 12)] = .ok [(0, 2), (5, 8)] := by decide

/-! ### `FeatureMap.__post_init__` (the loop that fills offsets / useful / complete / _start / _end / length), `start`, `end`,
`absolute_position`, `relative_position` -/

/-- one step of the `_start` / `_end` bookkeeping (the lambda of `FMap.startEnd`) -/
def seStep (acc : Option (Int × Int)) (s : FSp) : Option (Int × Int) :=
  match s with
  | .lost _ => acc
  | .span a b _ => match acc with
    | none => some (a, b)
    | some (x, y) => some (min x a, max y b)

theorem startEnd_eq (m : FM) : startEnd m = m.spans.foldl seStep none := rfl

theorem gen_fmPost_loop (spans : List FSp) (offs : List Int) (posn : Int) (compl : Bool) (acc : Option (Int × Int)) :
    C08Gen.fmPost_loop1 offs posn compl acc.isSome (acc.map (·.1)) (acc.map (·.2)) spans =
      (offs ++ offsetsFrom posn spans, (spans.map FSp.length).foldl (· + ·) posn,
        compl && spans.all (fun s => !s.isLost), (spans.foldl seStep acc).isSome,
        (spans.foldl seStep acc).map (·.1), (spans.foldl seStep acc).map (·.2)) := by
  induction spans generalizing offs posn compl acc with
  | nil => simp [C08Gen.fmPost_loop1, offsetsFrom]
  | cons s r ih =>
    cases s with
    | lost n =>
      simp only [C08Gen.fmPost_loop1, FSp.isLost, FSp.length, offsetsFrom, List.map, List.foldl, seStep, List.all_cons]
      rw [ih]; simp
    | span a b rv =>
      cases acc with
      | none =>
        have := ih (offs ++ [posn]) (posn + (b - a)) compl (some (a, b))
        simp only [Option.isSome_some, Option.map_some] at this
        simp [C08Gen.fmPost_loop1, FSp.isLost, FSp.length, offsetsFrom, seStep, C08Gen.fspStart, C08Gen.fspEnd, this]
      | some p =>
        obtain ⟨x, y⟩ := p
        have := ih (offs ++ [posn]) (posn + (b - a)) compl (some (min x a, max y b))
        simp only [Option.isSome_some, Option.map_some] at this
        simp [C08Gen.fmPost_loop1, FSp.isLost, FSp.length, offsetsFrom, seStep, C08Gen.fspStart, C08Gen.fspEnd,
          C08Gen.optMin, C08Gen.optMax, this]

theorem isSome_foldl_seStep (spans : List FSp) (acc : Option (Int × Int)) :
    (spans.foldl seStep acc).isSome = (acc.isSome || spans.any (fun s => !s.isLost)) := by
  induction spans generalizing acc with
  | nil => simp
  | cons s r ih =>
    cases s with
    | lost n => simp [seStep, ih, FSp.isLost]
    | span a b rv => cases acc <;> simp [seStep, ih, FSp.isLost]

/-- `FeatureMap.__post_init__` as translated from the source computes exactly the fields of the hand model -/
theorem gen_fmPost (spans : List FSp) (pl : Int) :
    C08Gen.fmPost spans pl =
      { offsets := offsets ⟨spans, pl⟩, useful := useful ⟨spans, pl⟩, complete := complete ⟨spans, pl⟩,
        start_ := (startEnd ⟨spans, pl⟩).map (·.1), end_ := (startEnd ⟨spans, pl⟩).map (·.2), length := len ⟨spans, pl⟩ } := by
  have := gen_fmPost_loop spans [] 0 true none
  simp only [Option.isSome_none, Option.map_none] at this
  simp [C08Gen.fmPost, this, offsets, useful, complete, len, startEnd_eq, isSome_foldl_seStep]

theorem gen_fmStart (spans : List FSp) (pl : Int) : C08Gen.fmStart spans pl = fmStart ⟨spans, pl⟩ := by
  simp only [C08Gen.fmStart, gen_fmPost, fmStart, pyOr_zero]
  cases startEnd ⟨spans, pl⟩ <;> simp

theorem gen_fmEnd (spans : List FSp) (pl : Int) : C08Gen.fmEnd spans pl = fmEnd ⟨spans, pl⟩ := by
  simp only [C08Gen.fmEnd, gen_fmPost, fmEnd, pyOr_zero]
  cases startEnd ⟨spans, pl⟩ <;> simp

theorem gen_fmAbsolutePosition (spans : List FSp) (pl p : Int) :
    C08Gen.fmAbsolutePosition spans pl p = absolutePosition ⟨spans, pl⟩ p := by
  simp only [C08Gen.fmAbsolutePosition, absolutePosition, gen_fmPost, gen_fmStart]

theorem gen_fmRelativePosition (spans : List FSp) (pl p : Int) :
    C08Gen.fmRelativePosition spans pl p = relativePosition ⟨spans, pl⟩ p := by
  simp only [C08Gen.fmRelativePosition, relativePosition, gen_fmStart]

example : C08Gen.fmPost [.span 4 7 false, .lost 2, .span 1 3 true] 9 =
    { offsets := [0, 3, 5], useful := true, complete := false, start_ := some 1, end_ := some 7, length := 7 } := by decide

/-! ### meaning of `absolute_position` / `relative_position` / `zeroed` (hand model `Model/FMapPos.lean`) -/

/-- `relative_position` undoes `absolute_position` on a map that is not as long as its parent -/
theorem relative_absolute (m : FM) (p : Int) (hp : 0 ≤ p) (hs : 0 ≤ fmStart m) (hl : len m ≠ m.parentLength) :
    ∃ q, absolutePosition m p = .ok q ∧ relativePosition m q = .ok p := by
  refine ⟨fmStart m + p, ?_, ?_⟩
  · simp only [absolutePosition]; rw [if_neg (by omega), if_neg hl]
  · simp only [relativePosition]; rw [if_neg (by omega)]; congr 1; omega

example : absolutePosition ⟨[.span 4 7 false, .lost 2], 9⟩ 2 = .ok 6 ∧ relativePosition ⟨[.span 4 7 false, .lost 2], 9⟩ 6 = .ok 2 := by decide

/-- ... and `hl` is needed: a map as long as its parent is taken to be the whole parent by `absolute_position` only -/
theorem relative_absolute_needs_shorter :
    absolutePosition ⟨[.lost 2, .span 2 5 false], 5⟩ 1 = .ok 1 ∧ relativePosition ⟨[.lost 2, .span 2 5 false], 5⟩ 1 = .ok (-1) := by
  decide

/-- a negative position is refused by both -/
theorem position_negative_refused (m : FM) (p : Int) (hp : p < 0) :
    absolutePosition m p = .error .valueError ∧ relativePosition m p = .error .valueError := by
  simp [absolutePosition, relativePosition, hp]

example : absolutePosition ⟨[.span 4 7 false], 9⟩ (-1) = .error .valueError := by decide

theorem coverSp_shift (k : Int) (s : FSp) : coverSp (s.shift k) = (coverSp s).map (Option.map (· - k)) := by
  cases s with
  | lost n => simp [FSp.shift, coverSp]
  | span a b r =>
    simp only [FSp.shift, coverSp]
    have : (b - k - (a - k)) = b - a := by omega
    rw [this]
    split <;> simp [List.map_reverse, Function.comp_def] <;> intros <;> omega

/-- `zeroed()`: position by position the same map, every parent coordinate moved down by `min(start, end)`;
same length -/
theorem zeroed_spec (m z : FM) (h : zeroed m = .ok z) :
    cover z = (cover m).map (Option.map (· - min (fmStart m) (fmEnd m))) ∧ z.spans.length = m.spans.length := by
  simp only [zeroed] at h
  split at h
  · cases h
  · cases h
    simp only [cover, List.flatMap_map, List.length_map, and_true, coverSp_shift]
    induction m.spans with
    | nil => rfl
    | cons s r ih => simp only [List.flatMap_cons, List.map_append, ih]

example : zeroed ⟨[.span 4 7 false, .lost 2, .span 1 3 true], 9⟩ = .ok ⟨[.span 3 6 false, .lost 2, .span 0 2 true], 6⟩ := by decide

/-! ### the loops of `FeatureMap.gaps`, `nongap` and `inverse` (two loops and `list.sort()`) -/

theorem gen_locs_loop_gaps (spans : List FSp) (locs : List (Int × Int)) (off : Int) :
    C08Gen.fmGaps_loop1 locs off spans = .ok (locs ++ locsOf true off spans, (spans.map FSp.length).foldl (· + ·) off) := by
  induction spans generalizing locs off with
  | nil => simp [C08Gen.fmGaps_loop1, locsOf]
  | cons s r ih =>
    simp only [C08Gen.fmGaps_loop1, locsOf, List.map, List.foldl]
    split <;> rename_i h <;> simp [ih, h]

theorem gen_locs_loop_nongap (spans : List FSp) (locs : List (Int × Int)) (off : Int) :
    C08Gen.fmNongap_loop1 locs off spans = .ok (locs ++ locsOf false off spans, (spans.map FSp.length).foldl (· + ·) off) := by
  induction spans generalizing locs off with
  | nil => simp [C08Gen.fmNongap_loop1, locsOf]
  | cons s r ih =>
    simp only [C08Gen.fmNongap_loop1, locsOf, List.map, List.foldl]
    split <;> rename_i h <;> simp at h <;> simp [ih, h]

/-- `FeatureMap.gaps` as translated from the source = the hand model -/
theorem gen_fmGaps (spans : List FSp) (pl : Int) : C08Gen.fmGaps spans pl = gaps ⟨spans, pl⟩ := by
  simp [C08Gen.fmGaps, gen_locs_loop_gaps, gen_fmPost, gaps]

/-- `FeatureMap.nongap` as translated from the source = the hand model -/
theorem gen_fmNongap (spans : List FSp) (pl : Int) : C08Gen.fmNongap spans pl = nongap ⟨spans, pl⟩ := by
  simp [C08Gen.fmNongap, gen_locs_loop_nongap, gen_fmPost, nongap]

theorem gen_inverse_loop1 (spans : List FSp) (temp : List Q) (cum : Int) :
    C08Gen.fmInverse_loop1 temp cum spans = .ok (temp ++ invTemp cum spans, (spans.map FSp.length).foldl (· + ·) cum) := by
  induction spans generalizing temp cum with
  | nil => simp [C08Gen.fmInverse_loop1, invTemp]
  | cons s r ih =>
    cases s with
    | lost n => simp [C08Gen.fmInverse_loop1, invTemp, FSp.isLost, FSp.length, ih]
    | span a b rv =>
      cases rv <;> simp [C08Gen.fmInverse_loop1, invTemp, FSp.isLost, FSp.length, C08Gen.fspReverse, C08Gen.fspStart, C08Gen.fspEnd, ih]

theorem gen_inverse_loop2 (temp : List Q) (ns : List FSp) (last : Int) :
    C08Gen.fmInverse_loop2 ns last temp =
      match invLoop last temp with
      | .error e => .error e
      | .ok (rest, ls) => .ok (ns ++ rest, ls) := by
  induction temp generalizing ns last with
  | nil => simp [C08Gen.fmInverse_loop2, invLoop]
  | cons q r ih =>
    obtain ⟨s, e, cs, ce⟩ := q
    simp only [C08Gen.fmInverse_loop2, invLoop, gen_spanInit, gen_lostInit, ih]
    by_cases h1 : s > last
    · have h2 : ¬ s < last := by omega
      simp only [h1, h2, if_true, if_false]
      cases invLoop e r with
      | error er => rfl
      | ok p => obtain ⟨rest, ls⟩ := p; simp
    · by_cases h2 : s < last
      · simp [h1, h2]
      · simp only [h1, h2, if_false]
        cases invLoop e r with
        | error er => rfl
        | ok p => obtain ⟨rest, ls⟩ := p; simp

/-- `FeatureMap.inverse` as translated from the source (two loops and a sort) = the hand model -/
theorem gen_fmInverse (spans : List FSp) (pl : Int) : C08Gen.fmInverse spans pl = inverse ⟨spans, pl⟩ := by
  simp only [C08Gen.fmInverse, gen_inverse_loop1, gen_inverse_loop2, gen_fmPost, gen_lostInit, inverse, C08Gen.sortQ,
    if_false, List.nil_append]
  cases invLoop 0 (List.foldr insertQ [] (invTemp 0 spans)) with
  | error er => rfl
  | ok p =>
    obtain ⟨rest, ls⟩ := p
    simp only []
    split <;> simp

example : C08Gen.fmInverse [.span 4 7 false, .lost 2, .span 1 3 true] 9 =
    .ok ⟨[.lost 1, .span 5 7 true, .lost 1, .span 0 3 false, .lost 2], 7⟩ := by decide
example : C08Gen.fmGaps [.span 4 7 false, .lost 2, .span 1 3 true] 9 = .ok ⟨[.span 3 5 false], 7⟩ := by decide

/-! ### set-theoretic meaning of `coords_intersect` (the core of `shared_gaps`), for the translated code -/

/-- column `x` lies in one of the half-open segments of a coordinate list -/
def Cov (c : List (Int × Int)) (x : Int) : Prop := ∃ p ∈ c, p.1 ≤ x ∧ x < p.2

theorem cov_nil (x : Int) : ¬ Cov [] x := by simp [Cov]
theorem cov_cons (p : Int × Int) (c : List (Int × Int)) (x : Int) : Cov (p :: c) x ↔ (p.1 ≤ x ∧ x < p.2) ∨ Cov c x := by
  simp [Cov]
theorem cov_append (a b : List (Int × Int)) (x : Int) : Cov (a ++ b) x ↔ Cov a x ∨ Cov b x := by
  simp only [Cov, List.mem_append]
  constructor
  · rintro ⟨p, hp | hp, h⟩
    · exact Or.inl ⟨p, hp, h⟩
    · exact Or.inr ⟨p, hp, h⟩
  · rintro (⟨p, hp, h⟩ | ⟨p, hp, h⟩)
    · exact ⟨p, Or.inl hp, h⟩
    · exact ⟨p, Or.inr hp, h⟩

/-- `span_and_span` of two proper segments is their set intersection `[max starts, min ends)` (or nothing) -/
theorem spanAndSpan_spec (a1 a2 b1 b2 : Int) (ha : a1 < a2) (hb : b1 < b2) :
    IndelMap.spanAndSpan a1 a2 b1 b2 =
      if max a1 b1 < min a2 b2 then some (some (max a1 b1, min a2 b2)) else some none := by
  simp only [IndelMap.spanAndSpan]
  repeat' split
  all_goals first | omega | (simp only [Option.some.injEq, Prod.mk.injEq]; omega) | simp_all <;> omega

theorem intersectInner_spec (a1 a2 : Int) (ha : a1 < a2) (c2 : List (Int × Int)) (h2 : ∀ p ∈ c2, p.1 < p.2)
    (hs : c2.Pairwise (fun p q => p.1 ≤ q.1)) :
    ∃ r, IndelMap.intersectInner a1 a2 c2 = .ok r ∧ ∀ x, Cov r x ↔ (a1 ≤ x ∧ x < a2 ∧ Cov c2 x) := by
  induction c2 with
  | nil => exact ⟨[], rfl, fun x => by simp [cov_nil]⟩
  | cons b rest ih =>
    obtain ⟨b1, b2⟩ := b
    have hb : b1 < b2 := h2 (b1, b2) (by simp)
    have hs' := List.pairwise_cons.mp hs
    obtain ⟨r', hr', hc'⟩ := ih (fun p hp => h2 p (by simp [hp])) hs'.2
    simp only [IndelMap.intersectInner, spanAndSpan_spec a1 a2 b1 b2 ha hb]
    by_cases hc : a1 ≤ b2 ∧ b1 ≤ a2
    · simp only [hc, and_self, if_true]
      by_cases hm : max a1 b1 < min a2 b2
      · simp only [hm, if_true, hr']
        refine ⟨_, rfl, fun x => ?_⟩
        rw [cov_cons, cov_cons, hc' x]
        constructor
        · rintro (h | h)
          · simp only at h; exact ⟨by omega, by omega, Or.inl ⟨by omega, by omega⟩⟩
          · exact ⟨h.1, h.2.1, Or.inr h.2.2⟩
        · rintro ⟨h1, h2', h | h⟩
          · left; simp only at h ⊢; omega
          · right; exact ⟨h1, h2', h⟩
      · simp only [hm, if_false, hr']
        refine ⟨_, rfl, fun x => ?_⟩
        rw [cov_cons, hc' x]
        constructor
        · rintro ⟨h1, h2', h⟩; exact ⟨h1, h2', Or.inr h⟩
        · rintro ⟨h1, h2', h | h⟩
          · simp only at h; omega
          · exact ⟨h1, h2', h⟩
    · simp only [hc, if_false]
      by_cases hbk : a2 < b1
      · simp only [hbk, if_true]
        refine ⟨[], rfl, fun x => ?_⟩
        simp only [cov_nil, false_iff]
        rintro ⟨h1, h2', h⟩
        rw [cov_cons] at h
        rcases h with h | ⟨q, hq, hq1, hq2⟩
        · simp only at h; omega
        · have := hs'.1 q hq; simp only at this; omega
      · simp only [hbk, if_false, hr']
        refine ⟨_, rfl, fun x => ?_⟩
        rw [cov_cons, hc' x]
        constructor
        · rintro ⟨h1, h2', h⟩; exact ⟨h1, h2', Or.inr h⟩
        · rintro ⟨h1, h2', h | h⟩
          · simp only at h; omega
          · exact ⟨h1, h2', h⟩

/-- `coords_intersect` (hand model): for proper segments and a second list sorted by start, the call returns and the
columns covered by the result are exactly the columns covered by both lists -/
theorem coordsIntersect_model_spec (c1 c2 : List (Int × Int)) (h1 : ∀ p ∈ c1, p.1 < p.2) (h2 : ∀ p ∈ c2, p.1 < p.2)
    (hs : c2.Pairwise (fun p q => p.1 ≤ q.1)) :
    ∃ r, IndelMap.coordsIntersect c1 c2 = .ok r ∧ ∀ x, Cov r x ↔ (Cov c1 x ∧ Cov c2 x) := by
  induction c1 with
  | nil => exact ⟨[], rfl, fun x => by simp [cov_nil]⟩
  | cons a rest ih =>
    obtain ⟨a1, a2⟩ := a
    obtain ⟨r1, hr1, hc1⟩ := intersectInner_spec a1 a2 (h1 (a1, a2) (by simp)) c2 h2 hs
    obtain ⟨r2, hr2, hc2⟩ := ih (fun p hp => h1 p (by simp [hp]))
    refine ⟨r1 ++ r2, by simp [IndelMap.coordsIntersect, hr1, hr2], fun x => ?_⟩
    rw [cov_append, cov_cons, hc1 x, hc2 x]
    constructor
    · rintro (⟨h, h', h''⟩ | ⟨h, h'⟩)
      · exact ⟨Or.inl ⟨h, h'⟩, h''⟩
      · exact ⟨Or.inr h, h'⟩
    · rintro ⟨⟨h, h'⟩ | h, h''⟩
      · exact Or.inl ⟨h, h', h''⟩
      · exact Or.inr ⟨h, h''⟩

/-- the same for the code TRANSLATED from the python source: `coords_intersect` returns, and a column is covered by
the result iff it is covered by both coordinate lists (set intersection) -/
theorem coords_intersect_spec (c1 c2 : List (Int × Int)) (h1 : ∀ p ∈ c1, p.1 < p.2) (h2 : ∀ p ∈ c2, p.1 < p.2)
    (hs : c2.Pairwise (fun p q => p.1 ≤ q.1)) :
    ∃ r, C08Gen.coordsIntersect c1 c2 = .ok r ∧ ∀ x, Cov r x ↔ (Cov c1 x ∧ Cov c2 x) := by
  obtain ⟨r, hr, hc⟩ := coordsIntersect_model_spec c1 c2 h1 h2 hs
  exact ⟨r, by rw [gen_coordsIntersect, hr]; rfl, hc⟩

example : C08Gen.coordsIntersect [(0, 3), (5, 9)] [(2, 6), (8, 12)] = .ok [(2, 3), (5, 6), (8, 9)] := by decide

/-! ### closed form of `coords_minus_coords` (the core of `minus_gaps`), for the translated code -/

/-- number of columns two half-open segments share -/
def ovl (a1 a2 : Int) (q : Int × Int) : Int := max 0 (min a2 q.2 - max a1 q.1)

/-- total overlap of `[a1, a2)` with the segments of a coordinate list -/
def sumOvl (a1 a2 : Int) : List (Int × Int) → Int
  | [] => 0
  | q :: r => ovl a1 a2 q + sumOvl a1 a2 r

/-- what `coords_minus_coords` computes, in closed form: every segment of the first list is shortened FROM ITS END by
the number of columns it shares with the second list, and dropped when nothing is left -/
def minusClosed (c1 c2 : List (Int × Int)) : List (Int × Int) :=
  c1.filterMap fun a => if sumOvl a.1 a.2 c2 = a.2 - a.1 then none else some (a.1, a.2 - sumOvl a.1 a.2 c2)

theorem sumOvl_zero_of_after (a1 a2 : Int) (l : List (Int × Int)) (h : ∀ q ∈ l, a2 ≤ q.1) : sumOvl a1 a2 l = 0 := by
  induction l with
  | nil => rfl
  | cons q r ih =>
    have := h q (by simp)
    simp only [sumOvl, ovl, ih (fun q hq => h q (by simp [hq]))]
    omega

theorem minusInner_spec (a1 a2 : Int) (ha : a1 < a2) (c2 : List (Int × Int)) (h2 : ∀ p ∈ c2, p.1 < p.2)
    (hs : c2.Pairwise (fun p q => p.1 ≤ q.1)) (tot : Option Int) :
    ∃ t, IndelMap.minusInner a1 a2 tot c2 = .ok t ∧ t.getD 0 = tot.getD 0 + sumOvl a1 a2 c2 := by
  induction c2 generalizing tot with
  | nil => exact ⟨tot, rfl, by simp [sumOvl]⟩
  | cons b rest ih =>
    obtain ⟨b1, b2⟩ := b
    have hb : b1 < b2 := h2 (b1, b2) (by simp)
    have hs' := List.pairwise_cons.mp hs
    have ih' := ih (fun p hp => h2 p (by simp [hp])) hs'.2
    simp only [IndelMap.minusInner, spanAndSpan_spec a1 a2 b1 b2 ha hb, sumOvl, ovl]
    by_cases c1 : b2 < a1
    · simp only [c1, if_true]
      obtain ⟨t, ht, hg⟩ := ih' tot
      exact ⟨t, ht, by rw [hg]; omega⟩
    · simp only [c1, if_false]
      by_cases c2' : a2 ≤ b1
      · simp only [c2', if_true]
        refine ⟨tot, rfl, ?_⟩
        have := sumOvl_zero_of_after a1 a2 rest (fun q hq => by have := hs'.1 q hq; simp only at this; omega)
        rw [this]; omega
      · simp only [c2', if_false]
        by_cases hm : max a1 b1 < min a2 b2
        · simp only [hm, if_true]
          obtain ⟨t, ht, hg⟩ := ih' (some (min a2 b2 - max a1 b1 + tot.getD 0))
          exact ⟨t, ht, by rw [hg]; simp only [Option.getD_some]; omega⟩
        · simp only [hm, if_false]
          obtain ⟨t, ht, hg⟩ := ih' tot
          exact ⟨t, ht, by rw [hg]; omega⟩

/-- `coords_minus_coords` (hand model) in closed form, for proper segments and a second list sorted by start -/
theorem coordsMinusCoords_model_spec (c1 c2 r : List (Int × Int)) (h1 : ∀ p ∈ c1, p.1 < p.2) (h2 : ∀ p ∈ c2, p.1 < p.2)
    (hs : c2.Pairwise (fun p q => p.1 ≤ q.1)) (h : IndelMap.coordsMinusCoords c1 c2 = .ok r) : r = minusClosed c1 c2 := by
  induction c1 generalizing r with
  | nil => simp only [IndelMap.coordsMinusCoords] at h; cases h; rfl
  | cons a rest ih =>
    obtain ⟨a1, a2⟩ := a
    have ha : a1 < a2 := h1 (a1, a2) (by simp)
    obtain ⟨t, ht, hg⟩ := minusInner_spec a1 a2 ha c2 h2 hs none
    simp only [Option.getD_none, Int.zero_add] at hg
    simp only [IndelMap.coordsMinusCoords, ht] at h
    split at h
    · cases h
    · cases hr : IndelMap.coordsMinusCoords rest c2 with
      | error e => simp [hr] at h
      | ok rr =>
        have := ih rr (fun p hp => h1 p (by simp [hp])) hr
        simp only [hr] at h
        have key : (some (a2 - a1) ≠ t) ↔ ¬ (sumOvl a1 a2 c2 = a2 - a1) := by
          rw [← hg]; cases t with
          | none => simp; omega
          | some v => simp; omega
        simp only [minusClosed, List.filterMap_cons]
        by_cases hk : sumOvl a1 a2 c2 = a2 - a1
        · have : ¬ (some (a2 - a1) ≠ t) := by rw [key]; simpa using hk
          simp only [this, if_false] at h
          rw [← Except.ok.inj h]
          rw [if_pos (by simpa using hk)]
          exact ih rr (fun p hp => h1 p (by simp [hp])) hr
        · have h3 : some (a2 - a1) ≠ t := key.mpr hk
          rw [if_pos h3] at h
          rw [← Except.ok.inj h]
          simp only [hk, if_false, hg]
          rw [ih rr (fun p hp => h1 p (by simp [hp])) hr]; rfl

/-- the same for the code TRANSLATED from the python source -/
theorem coords_minus_coords_spec (c1 c2 r : List (Int × Int)) (h1 : ∀ p ∈ c1, p.1 < p.2) (h2 : ∀ p ∈ c2, p.1 < p.2)
    (hs : c2.Pairwise (fun p q => p.1 ≤ q.1)) (h : C08Gen.coordsMinusCoords c1 c2 = .ok r) : r = minusClosed c1 c2 := by
  rw [gen_coordsMinusCoords] at h
  cases hm : IndelMap.coordsMinusCoords c1 c2 with
  | error e => rw [hm] at h; cases h
  | ok rr =>
    rw [hm] at h
    simp only [liftE] at h
    rw [← Except.ok.inj h]
    exact coordsMinusCoords_model_spec c1 c2 rr h1 h2 hs hm

example : C08Gen.coordsMinusCoords [(0, 3), (5, 9), (10, 12)] [(2, 6), (10, 12)] = .ok (minusClosed [(0, 3), (5, 9), (10, 12)] [(2, 6), (10, 12)]) := by decide
end CogentModel.C08
