/-
  C08, translator tie for the LOOPS of core/location.py: translator/c08_span2lean.py turns a python `for` loop into a
  function defined by structural recursion over the list (state = the variables the body assigns that exist before the
  loop; the end of the body and `continue` recurse on the tail, `break` returns the state, `raise` is the error).  Every
  generated loop (Gen/C08Span.lean, regenerated from the CURRENT source on every run) is proved equal to the hand model
  FOR ALL ARGUMENTS, so the theorems about the hand model are theorems about the translated code and a semantic edit of
  one of these loops breaks a proof obligation.
-/
import CogentModel.Props.C08Gen
import CogentModel.Model.FMapPos
namespace CogentModel.C08
open CogentModel CogentModel.FMap

/-- error classes of the two hand models -/
def errMap : IndelMap.Err → FErr
  | .valueError => .valueError
  | .indexError => .indexError
  | .notImplemented => .runtimeError
  | .assertionError => .assertionError
  | .runtimeError => .runtimeError

def liftE {α : Type} : Except IndelMap.Err α → Except FErr α
  | .error e => .error (errMap e)
  | .ok x => .ok x

theorem pyOr_zero (x : Option Int) : C08Gen.pyOr x 0 = x.getD 0 := by
  cases x with
  | none => rfl
  | some v => simp only [C08Gen.pyOr, Option.getD]; split <;> omega

theorem gen_minusInner (a1 a2 : Int) (tot : Option Int) (c2 : List (Int × Int)) :
    C08Gen.coordsMinusCoords_loop2 a1 a2 tot c2 = liftE (IndelMap.minusInner a1 a2 tot c2) := by
  induction c2 generalizing tot with
  | nil => rfl
  | cons b r ih =>
    obtain ⟨b1, b2⟩ := b
    simp only [C08Gen.coordsMinusCoords_loop2, IndelMap.minusInner, gen_spanAndSpan, pyOr_zero]
    split
    · exact ih tot
    · split
      · rfl
      · cases h : IndelMap.spanAndSpan a1 a2 b1 b2 with
        | none => rfl
        | some o =>
          cases o with
          | none => exact ih tot
          | some p => obtain ⟨x, y⟩ := p; exact ih _

theorem gen_coordsMinus_loop (c2 acc c1 : List (Int × Int)) :
    C08Gen.coordsMinusCoords_loop1 c2 acc c1 =
      match IndelMap.coordsMinusCoords c1 c2 with
      | .error e => .error (errMap e)
      | .ok x => .ok (acc ++ x) := by
  induction c1 generalizing acc with
  | nil => simp [C08Gen.coordsMinusCoords_loop1, IndelMap.coordsMinusCoords]
  | cons a r ih =>
    obtain ⟨a1, a2⟩ := a
    simp only [C08Gen.coordsMinusCoords_loop1, IndelMap.coordsMinusCoords, gen_minusInner, pyOr_zero]
    cases h : IndelMap.minusInner a1 a2 none c2 with
    | error e => rfl
    | ok tot =>
      simp only [liftE]
      split
      · rfl
      · split
        · rw [ih]; cases IndelMap.coordsMinusCoords r c2 <;> simp
        · rw [ih]; cases IndelMap.coordsMinusCoords r c2 <;> simp

/-- `coords_minus_coords` as translated from the source = the hand model, for all coordinate lists -/
theorem gen_coordsMinusCoords (c1 c2 : List (Int × Int)) :
    C08Gen.coordsMinusCoords c1 c2 = liftE (IndelMap.coordsMinusCoords c1 c2) := by
  simp only [C08Gen.coordsMinusCoords, gen_coordsMinus_loop]
  cases IndelMap.coordsMinusCoords c1 c2 <;> simp [liftE]

theorem gen_intersectInner (a1 a2 : Int) (acc c2 : List (Int × Int)) :
    C08Gen.coordsIntersect_loop2 a1 a2 acc c2 =
      match IndelMap.intersectInner a1 a2 c2 with
      | .error e => .error (errMap e)
      | .ok x => .ok (acc ++ x) := by
  induction c2 generalizing acc with
  | nil => simp [C08Gen.coordsIntersect_loop2, IndelMap.intersectInner]
  | cons b r ih =>
    obtain ⟨b1, b2⟩ := b
    simp only [C08Gen.coordsIntersect_loop2, IndelMap.intersectInner, gen_spanAndSpan]
    split
    · cases h : IndelMap.spanAndSpan a1 a2 b1 b2 with
      | none => rfl
      | some o =>
        cases o with
        | none => exact ih acc
        | some p =>
          obtain ⟨x, y⟩ := p
          simp only [ih]
          cases IndelMap.intersectInner a1 a2 r <;> simp
    · split
      · simp
      · exact ih acc

theorem gen_coordsIntersect_loop (c2 acc c1 : List (Int × Int)) :
    C08Gen.coordsIntersect_loop1 c2 acc c1 =
      match IndelMap.coordsIntersect c1 c2 with
      | .error e => .error (errMap e)
      | .ok x => .ok (acc ++ x) := by
  induction c1 generalizing acc with
  | nil => simp [C08Gen.coordsIntersect_loop1, IndelMap.coordsIntersect]
  | cons a r ih =>
    obtain ⟨a1, a2⟩ := a
    simp only [C08Gen.coordsIntersect_loop1, IndelMap.coordsIntersect, gen_intersectInner]
    cases IndelMap.intersectInner a1 a2 c2 with
    | error e => rfl
    | ok x =>
      simp only [ih]
      cases IndelMap.coordsIntersect r c2 <;> simp

/-- `coords_intersect` as translated from the source = the hand model -/
theorem gen_coordsIntersect (c1 c2 : List (Int × Int)) :
    C08Gen.coordsIntersect c1 c2 = liftE (IndelMap.coordsIntersect c1 c2) := by
  simp only [C08Gen.coordsIntersect, gen_coordsIntersect_loop]
  cases IndelMap.coordsIntersect c1 c2 <;> simp [liftE]

example : C08Gen.coordsIntersect [(0, 3), (5, 9)] [(2, 6), (8, 12)] = .ok [(2, 3), (5, 6), (8, 9)] := by decide
example : C08Gen.coordsMinusCoords [(0, 3), (5, 9), (10, 12)] [(2, 6), (10, 12)] = .ok [(0, 2), (5, 8)] := by decide

/-! ### `FeatureMap.__post_init__` (the loop that fills offsets / useful / complete / _start / _end / length), `start`, `end`,
`absolute_position`, `relative_position` -/

/-- one step of the `_start` / `_end` bookkeeping (the lambda of `FMap.startEnd`) -/
def seStep (acc : Option (Int × Int)) (s : FSp) : Option (Int × Int) :=
  match s with
  | .lost _ => acc
  | .span a b _ => match acc with
    | none => some (a, b)
    | some (x, y) => some (min x a, max y b)

theorem startEnd_eq (m : FM) : startEnd m = m.spans.foldl seStep none := rfl

theorem gen_fmPost_loop (spans : List FSp) (offs : List Int) (posn : Int) (compl : Bool) (acc : Option (Int × Int)) :
    C08Gen.fmPost_loop1 offs posn compl acc.isSome (acc.map (·.1)) (acc.map (·.2)) spans =
      (offs ++ offsetsFrom posn spans, (spans.map FSp.length).foldl (· + ·) posn,
        compl && spans.all (fun s => !s.isLost), (spans.foldl seStep acc).isSome,
        (spans.foldl seStep acc).map (·.1), (spans.foldl seStep acc).map (·.2)) := by
  induction spans generalizing offs posn compl acc with
  | nil => simp [C08Gen.fmPost_loop1, offsetsFrom]
  | cons s r ih =>
    cases s with
    | lost n =>
      simp only [C08Gen.fmPost_loop1, FSp.isLost, FSp.length, offsetsFrom, List.map, List.foldl, seStep, List.all_cons]
      rw [ih]; simp
    | span a b rv =>
      cases acc with
      | none =>
        have := ih (offs ++ [posn]) (posn + (b - a)) compl (some (a, b))
        simp only [Option.isSome_some, Option.map_some] at this
        simp [C08Gen.fmPost_loop1, FSp.isLost, FSp.length, offsetsFrom, seStep, C08Gen.fspStart, C08Gen.fspEnd, this]
      | some p =>
        obtain ⟨x, y⟩ := p
        have := ih (offs ++ [posn]) (posn + (b - a)) compl (some (min x a, max y b))
        simp only [Option.isSome_some, Option.map_some] at this
        simp [C08Gen.fmPost_loop1, FSp.isLost, FSp.length, offsetsFrom, seStep, C08Gen.fspStart, C08Gen.fspEnd,
          C08Gen.optMin, C08Gen.optMax, this]

theorem isSome_foldl_seStep (spans : List FSp) (acc : Option (Int × Int)) :
    (spans.foldl seStep acc).isSome = (acc.isSome || spans.any (fun s => !s.isLost)) := by
  induction spans generalizing acc with
  | nil => simp
  | cons s r ih =>
    cases s with
    | lost n => simp [seStep, ih, FSp.isLost]
    | span a b rv => cases acc <;> simp [seStep, ih, FSp.isLost]

/-- `FeatureMap.__post_init__` as translated from the source computes exactly the fields of the hand model -/
theorem gen_fmPost (spans : List FSp) (pl : Int) :
    C08Gen.fmPost spans pl =
      { offsets := offsets ⟨spans, pl⟩, useful := useful ⟨spans, pl⟩, complete := complete ⟨spans, pl⟩,
        start_ := (startEnd ⟨spans, pl⟩).map (·.1), end_ := (startEnd ⟨spans, pl⟩).map (·.2), length := len ⟨spans, pl⟩ } := by
  have := gen_fmPost_loop spans [] 0 true none
  simp only [Option.isSome_none, Option.map_none] at this
  simp [C08Gen.fmPost, this, offsets, useful, complete, len, startEnd_eq, isSome_foldl_seStep]

theorem gen_fmStart (spans : List FSp) (pl : Int) : C08Gen.fmStart spans pl = fmStart ⟨spans, pl⟩ := by
  simp only [C08Gen.fmStart, gen_fmPost, fmStart, pyOr_zero]
  cases startEnd ⟨spans, pl⟩ <;> simp

theorem gen_fmEnd (spans : List FSp) (pl : Int) : C08Gen.fmEnd spans pl = fmEnd ⟨spans, pl⟩ := by
  simp only [C08Gen.fmEnd, gen_fmPost, fmEnd, pyOr_zero]
  cases startEnd ⟨spans, pl⟩ <;> simp

theorem gen_fmAbsolutePosition (spans : List FSp) (pl p : Int) :
    C08Gen.fmAbsolutePosition spans pl p = absolutePosition ⟨spans, pl⟩ p := by
  simp only [C08Gen.fmAbsolutePosition, absolutePosition, gen_fmPost, gen_fmStart]

theorem gen_fmRelativePosition (spans : List FSp) (pl p : Int) :
    C08Gen.fmRelativePosition spans pl p = relativePosition ⟨spans, pl⟩ p := by
  simp only [C08Gen.fmRelativePosition, relativePosition, gen_fmStart]

example : C08Gen.fmPost [.span 4 7 false, .lost 2, .span 1 3 true] 9 =
    { offsets := [0, 3, 5], useful := true, complete := false, start_ := some 1, end_ := some 7, length := 7 } := by decide

/-! ### meaning of `absolute_position` / `relative_position` / `zeroed` (hand model `Model/FMapPos.lean`) -/

/-- `relative_position` undoes `absolute_position` on a map that is not as long as its parent -/
theorem relative_absolute (m : FM) (p : Int) (hp : 0 ≤ p) (hs : 0 ≤ fmStart m) (hl : len m ≠ m.parentLength) :
    ∃ q, absolutePosition m p = .ok q ∧ relativePosition m q = .ok p := by
  refine ⟨fmStart m + p, ?_, ?_⟩
  · simp only [absolutePosition]; rw [if_neg (by omega), if_neg hl]
  · simp only [relativePosition]; rw [if_neg (by omega)]; congr 1; omega

example : absolutePosition ⟨[.span 4 7 false, .lost 2], 9⟩ 2 = .ok 6 ∧ relativePosition ⟨[.span 4 7 false, .lost 2], 9⟩ 6 = .ok 2 := by decide

/-- ... and `hl` is needed: a map as long as its parent is taken to be the whole parent by `absolute_position` only -/
theorem relative_absolute_needs_shorter :
    absolutePosition ⟨[.lost 2, .span 2 5 false], 5⟩ 1 = .ok 1 ∧ relativePosition ⟨[.lost 2, .span 2 5 false], 5⟩ 1 = .ok (-1) := by
  decide

/-- a negative position is refused by both -/
theorem position_negative_refused (m : FM) (p : Int) (hp : p < 0) :
    absolutePosition m p = .error .valueError ∧ relativePosition m p = .error .valueError := by
  simp [absolutePosition, relativePosition, hp]

example : absolutePosition ⟨[.span 4 7 false], 9⟩ (-1) = .error .valueError := by decide

theorem coverSp_shift (k : Int) (s : FSp) : coverSp (s.shift k) = (coverSp s).map (Option.map (· - k)) := by
  cases s with
  | lost n => simp [FSp.shift, coverSp]
  | span a b r =>
    simp only [FSp.shift, coverSp]
    have : (b - k - (a - k)) = b - a := by omega
    rw [this]
    split <;> simp [List.map_reverse, Function.comp_def] <;> intros <;> omega

/-- `zeroed()`: position by position the same map, every parent coordinate moved down by `min(start, end)`;
same length -/
theorem zeroed_spec (m z : FM) (h : zeroed m = .ok z) :
    cover z = (cover m).map (Option.map (· - min (fmStart m) (fmEnd m))) ∧ z.spans.length = m.spans.length := by
  simp only [zeroed] at h
  split at h
  · cases h
  · cases h
    simp only [cover, List.flatMap_map, List.length_map, and_true, coverSp_shift]
    induction m.spans with
    | nil => rfl
    | cons s r ih => simp only [List.flatMap_cons, List.map_append, ih]

example : zeroed ⟨[.span 4 7 false, .lost 2, .span 1 3 true], 9⟩ = .ok ⟨[.span 3 6 false, .lost 2, .span 0 2 true], 6⟩ := by decide
end CogentModel.C08
